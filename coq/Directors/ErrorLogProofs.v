(* C03 — proofs about the error-log model (Directors/ErrorLog.v). *)
From Coq Require Import ZArith List Bool Arith NArith Lia.
From PV Require Import Generated.C03_ErrorClasses Directors.Model Directors.Spec Directors.Proofs Directors.ErrorLog.
Import ListNotations.
Open Scope Z_scope.
Arguments add1 : simpl never.

(* ---------- _add / copy_from: what can be appended ---------- *)
Lemma add1_some_inv : forall f errors e es, add1 (Some f) errors e = Ok es ->
  es = errors \/ exists e', es = errors ++ [e'] /\ accepted f e'.
Proof.
  intros f errors e es H. unfold add1 in H. destruct (f e) as [[b l]|x] eqn:F; simpl in H; [|discriminate H].
  destruct b; inversion H; subst; [right|left; reflexivity].
  exists (set_eline e l). split; [reflexivity|]. exists e. simpl. split; [exact F|reflexivity].
Qed.

Section Invariant.
Variable f : flt.
Variable Q : err -> Prop.
Hypothesis QA : forall e, accepted f e -> Q e.

Lemma add1_Q : forall errors e es, Forall Q errors -> add1 (Some f) errors e = Ok es -> Forall Q es.
Proof.
  intros errors e es HQ H. apply add1_some_inv in H as [->|(e' & -> & A)]; [exact HQ|].
  apply Forall_app. split; [exact HQ|]. constructor; [apply QA; exact A|constructor].
Qed.

Lemma copy_all_Q : forall es errors p out, Forall Q errors -> copy_all (Some f) errors es p = Ok out -> Forall Q out.
Proof.
  induction es as [|e r IH]; intros errors p out HQ H; simpl in H.
  - inversion H; subst; exact HQ.
  - destruct (add1 (Some f) errors (at_pos p (e_name e))) as [a|x] eqn:A; simpl in H; [|discriminate H].
    eapply IH; [|exact H]. eapply add1_Q; eauto.
Qed.

Lemma step_Q : forall st o st', l_filter st = Some f -> is_setfilter o = false ->
  Forall Q (l_errors st) -> step st o = Ok st' -> l_filter st' = Some f /\ Forall Q (l_errors st').
Proof.
  intros st o st' HF NS HQ H. destruct st as [errs flt0 cps rec]. simpl in HF. subst flt0.
  destruct o; simpl in H, NS; try discriminate.
  - destruct (add1 (Some f) errs e) eqn:A; simpl in H; [|discriminate H]. inversion H; subst; simpl.
    split; [reflexivity|]. eapply add1_Q; eauto.
  - destruct (add1 (Some f) errs (at_line e line)) eqn:A; simpl in H; [|discriminate H]. inversion H; subst; simpl.
    split; [reflexivity|]. eapply add1_Q; eauto.
  - inversion H; subst; simpl. split; [reflexivity|exact HQ].
  - destruct cps as [|p r]; inversion H; subst; simpl; (split; [reflexivity|]); [exact HQ|].
    simpl in HQ. rewrite <- (firstn_skipn p errs) in HQ. apply Forall_app in HQ. tauto.
  - destruct (copy_all (Some f) errs rec p) eqn:A; simpl in H; [|discriminate H]. inversion H; subst; simpl.
    split; [reflexivity|]. eapply copy_all_Q; eauto.
  - destruct (copy_all (Some f) errs es p) eqn:A; simpl in H; [|discriminate H]. inversion H; subst; simpl.
    split; [reflexivity|]. eapply copy_all_Q; eauto.
Qed.

Lemma run_Q : forall ops st st', l_filter st = Some f -> no_setfilter ops ->
  Forall Q (l_errors st) -> run st ops = Ok st' -> Forall Q (l_errors st').
Proof.
  induction ops as [|o r IH]; intros st st' HF NS HQ H; simpl in H.
  - inversion H; subst; exact HQ.
  - destruct (step st o) as [s1|x] eqn:S; simpl in H; [|discriminate H].
    inversion NS; subst. destruct (step_Q _ _ _ HF H2 HQ S) as [HF1 HQ1]. eapply IH; eauto.
Qed.
End Invariant.

(* every history, from any log state with the filter installed *)
Lemma log_invariant_lemma : forall f errs cps rec ops st,
  no_setfilter ops -> run (mkL errs (Some f) cps rec) ops = Ok st ->
  Forall (fun e => In e errs \/ accepted f e) (l_errors st).
Proof.
  intros f errs cps rec ops st NS H.
  eapply (run_Q f (fun e => In e errs \/ accepted f e)); [| |exact NS| |exact H].
  - intros e A. right. exact A.
  - reflexivity.
  - simpl. apply Forall_forall. intros e I. left. exact I.
Qed.

Lemma run_adds : forall pre a rest,
  run (mkL a None [] []) (map LAdd pre ++ rest) = run (mkL (a ++ pre) None [] []) rest.
Proof.
  induction pre as [|e r IH]; intros a rest; simpl.
  - rewrite app_nil_r. reflexivity.
  - unfold add1, with_errors. simpl. rewrite IH. rewrite <- app_assoc. reflexivity.
Qed.

Lemma program_run : forall pre f post,
  run l_empty (program_history pre f post) = run (mkL pre (Some f) [] []) post.
Proof.
  intros. unfold program_history, l_empty. rewrite run_adds. simpl. reflexivity.
Qed.

Lemma program_invariant_lemma : forall pre f post st,
  no_setfilter post -> run l_empty (program_history pre f post) = Ok st ->
  Forall (fun e => In e pre \/ accepted f e) (l_errors st).
Proof.
  intros pre f post st NS H. rewrite program_run in H. eapply log_invariant_lemma; eauto.
Qed.

(* ---------- the Director's filter ---------- *)
Lemma director_filter_inv : forall st rl e0 b lr, filter_error st rl e0 = Ok (b, Some lr) ->
  e_same_file e0 = true -> exists l0, e_line e0 = Some l0 /\ reported_line st rl e0 l0 = Ok lr.
Proof.
  intros st rl e0 b lr H SF. unfold filter_error in H. destruct (e_line e0) as [l0|]; [|discriminate H].
  rewrite SF in H. simpl in H. exists l0. split; [reflexivity|].
  destruct (reported_line st rl e0 l0) as [l1|x]; simpl in H; [|discriminate H]. inversion H; subst. reflexivity.
Qed.

Lemma accepted_clear : forall st rl e, accepted (filter_error st rl) e -> clear_of st e.
Proof.
  intros st rl e (e0 & H & EQ). unfold filter_error in H.
  destruct (e_line e0) as [l0|] eqn:EL.
  - destruct (e_same_file e0) eqn:SF; simpl in H.
    + destruct (reported_line st rl e0 l0) as [l1|x]; simpl in H; [|discriminate H].
      inversion H as [[H1 H2]]. right. right. exists l1. split; [symmetry; exact H2|].
      rewrite EQ. simpl.
      apply andb_true_iff in H1 as [H1 C]. apply andb_true_iff in H1 as [A B].
      apply negb_true_iff in A, B, C. auto.
    + left. rewrite EQ. simpl. exact SF.
  - inversion H. right. left. symmetry. assumption.
Qed.

Lemma final_report_clear_lemma : forall st rl pre post lst,
  no_setfilter post -> run l_empty (program_history pre (filter_error st rl) post) = Ok lst ->
  Forall (fun e => In e pre \/ clear_of st e) (l_errors lst).
Proof.
  intros st rl pre post lst NS H. eapply Forall_impl; [|eapply program_invariant_lemma; eauto].
  intros e [I|A]; [left; exact I|right; eapply accepted_clear; eauto].
Qed.

(* ---------- position model = segment model ---------- *)
Fixpoint cps_of (below : list (list err)) : list nat :=
  match below with [] => [] | b :: r => length (base_of (b :: r)) :: cps_of r end.

Definition repr (st : lstate) (ss : sstate) : Prop :=
  l_errors st = flat ss /\ l_filter st = s_filter ss /\ l_rec st = s_rec ss /\ l_cps st = cps_of (s_below ss).

Lemma add1_app : forall f pre t e,
  add1 f (pre ++ t) e = match add1 f t e with Ok t1 => Ok (pre ++ t1) | Raise x => Raise x end.
Proof.
  intros f pre t e. unfold add1. destruct f as [g|]; simpl.
  - destruct (g e) as [[b l]|x]; simpl; [|reflexivity]. destruct b; simpl; [rewrite app_assoc|]; reflexivity.
  - rewrite app_assoc. reflexivity.
Qed.

Lemma copy_all_app : forall f es pre t p,
  copy_all f (pre ++ t) es p = match copy_all f t es p with Ok t1 => Ok (pre ++ t1) | Raise x => Raise x end.
Proof.
  induction es as [|e r IH]; intros pre t p; simpl; [reflexivity|].
  rewrite add1_app. destruct (add1 f t (at_pos p (e_name e))) as [t1|x]; simpl; [apply IH|reflexivity].
Qed.

Lemma step_sstep : forall st ss o st1, repr st ss -> step st o = Ok st1 ->
  exists ss1, sstep ss o = Ok ss1 /\ repr st1 ss1.
Proof.
  intros [errs fl cps rec] [top below sf srec] o st1 (E & F & R & C) H. simpl in E, F, R, C. subst fl rec.
  unfold flat in E. simpl in E. subst errs.
  destruct o; simpl in H |- *.
  - rewrite add1_app in H. destruct (add1 sf top e) as [t1|x]; simpl in H; [|discriminate H].
    inversion H; subst. eexists; split; [reflexivity|]. repeat split; simpl; auto.
  - rewrite add1_app in H. destruct (add1 sf top (at_line e line)) as [t1|x]; simpl in H; [|discriminate H].
    inversion H; subst. eexists; split; [reflexivity|]. repeat split; simpl; auto.
  - inversion H; subst. eexists; split; [reflexivity|]. repeat split; simpl; auto.
  - inversion H; subst. eexists; split; [reflexivity|]. unfold repr, flat; simpl.
    rewrite app_nil_r. repeat split; auto.
  - destruct below as [|b r]; simpl in C; subst cps.
    + inversion H; subst. eexists; split; [reflexivity|]. repeat split; simpl; auto.
    + inversion H; subst. eexists; split; [reflexivity|]. unfold repr, flat; simpl.
      rewrite firstn_app, Nat.sub_diag, firstn_all, skipn_app, Nat.sub_diag, skipn_all. simpl.
      rewrite app_nil_r. repeat split; auto.
  - rewrite copy_all_app in H. destruct (copy_all sf top srec p) as [t1|x]; simpl in H; [|discriminate H].
    inversion H; subst. eexists; split; [reflexivity|]. repeat split; simpl; auto.
  - rewrite copy_all_app in H. destruct (copy_all sf top es p) as [t1|x]; simpl in H; [|discriminate H].
    inversion H; subst. eexists; split; [reflexivity|]. repeat split; simpl; auto.
Qed.

Lemma run_srun : forall ops st ss st1, repr st ss -> run st ops = Ok st1 ->
  exists ss1, srun ss ops = Ok ss1 /\ repr st1 ss1.
Proof.
  induction ops as [|o r IH]; intros st ss st1 R H; simpl in H |- *.
  - inversion H; subst. eauto.
  - destruct (step st o) as [s1|x] eqn:S; simpl in H; [|discriminate H].
    destruct (step_sstep _ _ _ _ R S) as (ss1 & SS & R1). rewrite SS. simpl. eapply IH; eauto.
Qed.

(* ---------- dropped ---------- *)
Lemma dropped_refl : forall tgt a, dropped tgt a a.
Proof. induction a; constructor; auto. Qed.

Lemma dropped_app : forall tgt a' a b' b, dropped tgt a' a -> dropped tgt b' b -> dropped tgt (a' ++ b') (a ++ b).
Proof. intros tgt a' a b' b H. induction H; intro HB; simpl; [exact HB|constructor; auto|constructor; auto]. Qed.

Lemma dropped_none : forall tgt a' a, dropped tgt a' a -> Forall (fun e => tgt e = false) a -> a' = a.
Proof.
  intros tgt a' a H. induction H; intro F; [reflexivity| |].
  - inversion F; subst. f_equal. auto.
  - inversion F; subst. congruence.
Qed.

Lemma dropped_filter : forall tgt a' a, dropped tgt a' a ->
  filter (fun e => negb (tgt e)) a' = filter (fun e => negb (tgt e)) a.
Proof.
  intros tgt a' a H. induction H; simpl; [reflexivity| |].
  - rewrite IHdropped. reflexivity.
  - rewrite H. simpl. exact IHdropped.
Qed.

Lemma filter_none : forall (tgt : err -> bool) a, Forall (fun e => tgt e = false) a ->
  filter (fun e => negb (tgt e)) a = a.
Proof.
  induction a; intro F; simpl; [reflexivity|]. inversion F; subst. rewrite H1. simpl. f_equal. auto.
Qed.

(* ---------- frame on the segment model ---------- *)
Section Frame.
Variable tgt : err -> bool.
Variables f f' : flt.
Hypothesis TS : forall e, tgt e = true -> e_same_file e = true.
Hypothesis N : narrows tgt f f'.

Lemma add1_rel : forall t' t e t1 t1', dropped tgt t' t ->
  add1 (Some f) t e = Ok t1 -> add1 (Some f') t' e = Ok t1' -> dropped tgt t1' t1.
Proof.
  intros t' t e t1 t1' D H H'. unfold add1 in H, H'.
  destruct (f e) as [[b l]|x] eqn:F; simpl in H; [|discriminate H].
  destruct (N e b l F) as [F'|(B & F' & T)]; rewrite F' in H'; simpl in H'.
  - destruct b; inversion H; inversion H'; subst; [|exact D].
    apply dropped_app; [exact D|apply dropped_refl].
  - subst b. inversion H; inversion H'; subst. rewrite <- (app_nil_r t1').
    apply dropped_app; [exact D|]. apply dr_drop; [exact T|constructor].
Qed.

Lemma copy_all_rel : forall es t' t p t1 t1', dropped tgt t' t ->
  copy_all (Some f) t es p = Ok t1 -> copy_all (Some f') t' es p = Ok t1' -> dropped tgt t1' t1.
Proof.
  induction es as [|e r IH]; intros t' t p t1 t1' D H H'; simpl in H, H'.
  - inversion H; inversion H'; subst; exact D.
  - destruct (add1 (Some f) t (at_pos p (e_name e))) as [a|x] eqn:A; simpl in H; [|discriminate H].
    destruct (add1 (Some f') t' (at_pos p (e_name e))) as [a'|x] eqn:A'; simpl in H'; [|discriminate H'].
    eapply IH; [|exact H|exact H']. eapply add1_rel; [exact D|exact A|exact A'].
Qed.

Definition srel (ss' ss : sstate) : Prop :=
  dropped tgt (s_top ss') (s_top ss) /\ Forall2 (dropped tgt) (s_below ss') (s_below ss) /\
  dropped tgt (s_rec ss') (s_rec ss) /\ s_filter ss = Some f /\ s_filter ss' = Some f'.

Lemma sstep_rel : forall ss' ss o s1 s1', srel ss' ss -> is_setfilter o = false ->
  match o with LCopyRec _ => Forall (fun e => e_same_file e = false) (s_rec ss) | _ => True end ->
  sstep ss o = Ok s1 -> sstep ss' o = Ok s1' -> srel s1' s1.
Proof.
  intros [top' below' sf' rec'] [top below sf rec] o s1 s1' (T & B & R & F & F') NS CF H H'.
  simpl in T, B, R, F, F'. subst sf sf'. destruct o; simpl in H, H', NS; try discriminate.
  - destruct (add1 (Some f) top e) eqn:A; simpl in H; [|discriminate H].
    destruct (add1 (Some f') top' e) eqn:A'; simpl in H'; [|discriminate H'].
    inversion H; inversion H'; subst. unfold srel, with_top; simpl; repeat split; auto; eapply add1_rel; [exact T|exact A|exact A'].
  - destruct (add1 (Some f) top (at_line e line)) eqn:A; simpl in H; [|discriminate H].
    destruct (add1 (Some f') top' (at_line e line)) eqn:A'; simpl in H'; [|discriminate H'].
    inversion H; inversion H'; subst. unfold srel, with_top; simpl; repeat split; auto; eapply add1_rel; [exact T|exact A|exact A'].
  - inversion H; inversion H'; subst. unfold srel; simpl; repeat split; auto; constructor; auto.
  - inversion B; subst; inversion H; inversion H'; subst; unfold srel; simpl; repeat split; auto.
  - assert (rec' = rec) as ->.
    { eapply dropped_none; [exact R|]. eapply Forall_impl; [|exact CF]. intros a SF.
      destruct (tgt a) eqn:TA; [|reflexivity]. apply TS in TA. congruence. }
    destruct (copy_all (Some f) top rec p) eqn:A; simpl in H; [|discriminate H].
    destruct (copy_all (Some f') top' rec p) eqn:A'; simpl in H'; [|discriminate H'].
    inversion H; inversion H'; subst. unfold srel, with_top; simpl; repeat split; auto; try apply dropped_refl; eapply copy_all_rel; [exact T|exact A|exact A'].
  - destruct (copy_all (Some f) top es p) eqn:A; simpl in H; [|discriminate H].
    destruct (copy_all (Some f') top' es p) eqn:A'; simpl in H'; [|discriminate H'].
    inversion H; inversion H'; subst. unfold srel, with_top; simpl; repeat split; auto; try apply dropped_refl; eapply copy_all_rel; [exact T|exact A|exact A'].
Qed.

Lemma srun_rel : forall ops ss' ss s1 s1', srel ss' ss -> no_setfilter ops -> copies_foreign ss ops ->
  srun ss ops = Ok s1 -> srun ss' ops = Ok s1' -> srel s1' s1.
Proof.
  induction ops as [|o r IH]; intros ss' ss s1 s1' R NS CF H H'; simpl in H, H'.
  - inversion H; inversion H'; subst. exact R.
  - destruct (sstep ss o) as [a|x] eqn:S; simpl in H; [|discriminate H].
    destruct (sstep ss' o) as [a'|x] eqn:S'; simpl in H'; [|discriminate H'].
    inversion NS; subst. simpl in CF. destruct CF as [CF1 CF2]. rewrite S in CF2.
    eapply IH; [|exact H3|exact CF2|exact H|exact H']. eapply sstep_rel; eauto.
Qed.

Lemma base_rel : forall b' b, Forall2 (dropped tgt) b' b -> dropped tgt (base_of b') (base_of b).
Proof. intros b' b H. induction H; simpl; [constructor|apply dropped_app; auto]. Qed.

Lemma report_frame_lemma : forall a a' rec ops st st',
  dropped tgt a' a -> no_setfilter ops -> copies_foreign (mkS a [] (Some f) rec) ops ->
  run (mkL a (Some f) [] rec) ops = Ok st -> run (mkL a' (Some f') [] rec) ops = Ok st' ->
  dropped tgt (l_errors st') (l_errors st).
Proof.
  intros a a' rec ops st st' D NS CF H H'.
  destruct (run_srun ops (mkL a (Some f) [] rec) (mkS a [] (Some f) rec) st) as (s1 & S & R1);
    [repeat split|exact H|].
  destruct (run_srun ops (mkL a' (Some f') [] rec) (mkS a' [] (Some f') rec) st') as (s1' & S' & R1');
    [repeat split|exact H'|].
  assert (srel s1' s1) as (T & B & _).
  { eapply srun_rel; [|exact NS|exact CF|exact S|exact S'].
    unfold srel; simpl; repeat split; auto; try apply dropped_refl; constructor. }
  destruct R1 as (-> & _). destruct R1' as (-> & _). unfold flat.
  apply dropped_app; [apply base_rel; exact B|exact T].
Qed.
End Frame.
