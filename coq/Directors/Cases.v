(* C03 — helpers for the generated cases.v files of the correspondence check (no proofs):
   encode the model's answers the way harness/props/c03_model.py encodes the real Director's answers and
   return the indices of the queries on which they differ. *)
From Coq Require Import ZArith List Bool Arith NArith.
From PV Require Import Directors.Model.
Import ListNotations.
Open Scope Z_scope.

Definition exn_code (x : exn) : Z :=
  match x with ValueError => -1 | IndexError => -2 | KeyError => -3 end.

Definition enc (r : res (bool * option Z)) : Z * Z :=
  match r with
  | Ok (b, Some l) => ((if b then 1 else 0), l)
  | Ok (b, None) => ((if b then 3 else 2), 0)
  | Raise x => (exn_code x, 0)
  end.

Definition query := ((Z * N * bool * bool) * (Z * Z))%type.

Definition answer (st : dstate) (rl : list Z) (q : query) : Z * Z :=
  match fst q with
  | (l, n, r, sf) => enc (filter_error st rl (mkErr sf (Some l) n r))
  end.

Fixpoint mismatches (st : dstate) (rl : list Z) (qs : list query) (i : nat) : list nat :=
  match qs with
  | [] => []
  | q :: r =>
    let a := answer st rl q in
    if (fst a =? fst (snd q)) && (snd a =? snd (snd q)) then mismatches st rl r (S i)
    else i :: mismatches st rl r (S i)
  end.

(* build_code: 0 when the real Director was constructed, otherwise the code of the exception it raised *)
Definition run_case (disable : list N) (fr : list (Z * Z)) (rl : list Z) (gs : list group)
    (build_code : Z) (qs : list query) : list nat :=
  match build disable fr gs with
  | Raise x => if exn_code x =? build_code then [] else [4999%nat]
  | Ok st => if build_code =? 0 then mismatches st rl qs 0 else [4998%nat]
  end.

Definition bad_cases (cs : list (nat * list nat)) : list (nat * list nat) :=
  filter (fun c => match snd c with [] => false | _ => true end) cs.
