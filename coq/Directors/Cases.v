(* C03 — helpers for the generated cases.v files of the correspondence check (no proofs):
   encode the model's answers the way harness/props/c03_model.py encodes the real Director's answers and
   return the indices of the queries on which they differ. *)
From Coq Require Import ZArith List Bool Arith NArith.
From PV Require Import Generated.C03_ErrorClasses Directors.Model.
Import ListNotations.
Open Scope Z_scope.

Definition exn_code (x : exn) : Z :=
  match x with ValueError => -1 | IndexError => -2 | KeyError => -3 end.

Definition enc (r : res (bool * option Z)) : Z * Z :=
  match r with
  | Ok (b, Some l) => ((if b then 1 else 0), l)
  | Ok (b, None) => ((if b then 3 else 2), 0)
  | Raise x => (exn_code x, 0)
  end.

Definition query := ((Z * N * bool * bool) * (Z * Z))%type.

Definition answer (st : dstate) (rl : list Z) (q : query) : Z * Z :=
  match fst q with
  | (l, n, r, sf) => enc (filter_error st rl (mkErr sf (Some l) n r))
  end.

Fixpoint mismatches (st : dstate) (rl : list Z) (qs : list query) (i : nat) : list nat :=
  match qs with
  | [] => []
  | q :: r =>
    let a := answer st rl q in
    if (fst a =? fst (snd q)) && (snd a =? snd (snd q)) then mismatches st rl r (S i)
    else i :: mismatches st rl r (S i)
  end.

(* build_code: 0 when the real Director was constructed, otherwise the code of the exception it raised *)
Definition run_case (disable : list N) (fr : list (Z * Z)) (rl : list Z) (gs : list group)
    (build_code : Z) (qs : list query) : list nat :=
  match build disable fr gs with
  | Raise x => if exn_code x =? build_code then [] else [4999%nat]
  | Ok st => if build_code =? 0 then mismatches st rl qs 0 else [4998%nat]
  end.

Definition bad_cases (cs : list (nat * list nat)) : list (nat * list nat) :=
  filter (fun c => match snd c with [] => false | _ => true end) cs.

(* ---- compact form: the harness enumerates the same grid of queries (harness/props/c03.py query_list):
   for l = 0 .. nl+1, for each name (in order): (l, name, False) and, for the implicit-return class and for the
   first name on every fifth line, also (l, name, True).  Only the answers that differ from the default
   "logged, line unchanged" = (1, l) are listed, by index. *)
Fixpoint enum_names (l : Z) (names : list N) (first : bool) : list (Z * N * bool) :=
  match names with
  | [] => []
  | n :: r =>
    (l, n, false) ::
    (if (n =? implicit_return_error)%N || (first && (l mod 5 =? 0)) then [(l, n, true)] else [])
    ++ enum_names l r false
  end.
Definition enum_queries (nl : nat) (names : list N) : list (Z * N * bool) :=
  flat_map (fun l => enum_names (Z.of_nat l) names true) (seq 0 (nl + 2)).

Fixpoint lookup_exc (i : nat) (exc : list (nat * (Z * Z))) : option (Z * Z) :=
  match exc with
  | [] => None
  | (j, v) :: r => if Nat.eqb i j then Some v else lookup_exc i r
  end.

Fixpoint mismatches_grid (st : dstate) (rl : list Z) (qs : list (Z * N * bool))
    (exc : list (nat * (Z * Z))) (i : nat) : list nat :=
  match qs with
  | [] => []
  | (l, n, r) :: rest =>
    let a := enc (filter_error st rl (mkErr true (Some l) n r)) in
    let e := match lookup_exc i exc with Some v => v | None => (1, l) end in
    if (fst a =? fst e) && (snd a =? snd e) then mismatches_grid st rl rest exc (S i)
    else i :: mismatches_grid st rl rest exc (S i)
  end.

Definition run_grid (disable : list N) (fr : list (Z * Z)) (rl : list Z) (gs : list group)
    (build_code : Z) (nl : nat) (names : list N) (exc : list (nat * (Z * Z))) (extra : list query)
    : list nat :=
  match build disable fr gs with
  | Raise x => if exn_code x =? build_code then [] else [4999%nat]
  | Ok st =>
    if build_code =? 0
    then mismatches_grid st rl (enum_queries nl names) exc 0
         ++ map (fun i => (4000 + i)%nat) (mismatches st rl extra 0)
    else [4998%nat]
  end.
