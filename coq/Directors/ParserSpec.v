(* C03 — vocabulary of the parser theorems (definitions only, no proofs). *)
From Coq Require Import ZArith List Bool Arith NArith.
From PV Require Import Directors.Model Directors.Parser.
Import ListNotations.
Open Scope Z_scope.

Definition in_range (s e l : Z) : bool := (s <=? l) && (l <=? e).

(* every comment of the file, in line order *)
Definition all_comments (raw : rawmap) : list pcomment := flat_map snd raw.

(* the tokenizer pass yields the comment lines in strictly increasing order, each entry holding the comments of
   its own line *)
Fixpoint raw_sorted_from (b : Z) (raw : rawmap) : Prop :=
  match raw with
  | [] => True
  | (l, cs) :: r => b < l /\ Forall (fun c => pc_line c = l) cs /\ raw_sorted_from l r
  end.
Definition raw_ok (raw : rawmap) : Prop := raw_sorted_from 0 raw.

(* what a call range must hold: the trailing "pytype:" / "type: ignore" comments of its lines, in line order,
   each (line, tool, data) once *)
Definition call_content (raw : rawmap) (s e : Z) : list pcomment :=
  extend_new [] (flat_map snd (filter (fun lc => in_range s e (fst lc)) raw)).

(* the property of one group of the visitor's output *)
Definition group_ok (raw : rawmap) (kv : key * list pcomment) : Prop :=
  if k_call (fst kv)
  then snd kv = call_content raw (k_s (fst kv)) (k_e (fst kv))
  else Forall (fun c => in_range (k_s (fst kv)) (k_e (fst kv)) (pc_line c) = true /\ In c (all_comments raw))
              (snd kv).

(* ---- declarative reading of the tree (post-order, the visitor's order) ---- *)
Definition fstart (f : fdef) : Z :=
  match f_decs f with [] => f_lineno f | d :: r => min_list (fst d) (map fst r) end.

Fixpoint returns_of (n : node) : list Z :=
  let kids := match n with
              | NCall _ _ k | NStmt _ _ k | NAnn _ _ _ k | NReturn _ _ k | NTry _ k | NWith _ _ _ _ k
              | NMatch _ _ _ k | NClass _ _ k | NFunc _ k => flat_map returns_of k
              end in
  match n with NReturn s _ _ => kids ++ [s] | _ => kids end.

Fixpoint funcs_of (n : node) : list (Z * Z) :=
  let kids := match n with
              | NCall _ _ k | NStmt _ _ k | NAnn _ _ _ k | NReturn _ _ k | NTry _ k | NWith _ _ _ _ k
              | NMatch _ _ _ k | NClass _ _ k | NFunc _ k => flat_map funcs_of k
              end in
  match n with NFunc f _ => kids ++ [(fstart f, f_end f)] | _ => kids end.

(* a dict built by successive item assignments *)
Definition dict_of (items : list (Z * Z)) : list (Z * Z) :=
  fold_left (fun d p => zd_set (fst p) (snd p) d) items [].

(* the call ranges of the tree *)
Fixpoint calls_of (n : node) : list (Z * Z) :=
  let kids := match n with
              | NCall _ _ k | NStmt _ _ k | NAnn _ _ _ k | NReturn _ _ k | NTry _ k | NWith _ _ _ _ k
              | NMatch _ _ _ k | NClass _ _ k | NFunc _ k => flat_map calls_of k
              end in
  match n with NCall s e _ => kids ++ [(s, e)] | _ => kids end.
