(* C03 — helpers for the generated cases.v files that compare the parser model (Directors/Parser.v) with the
   real pytype/directors/parser.py (no proofs).  Both sides flatten the visitor's final state into the same
   sections of integers (harness/props/c03_parser.py: real_sections); Coq reports the sections that differ. *)
From Coq Require Import ZArith List Bool Arith NArith.
From PV Require Import Directors.Model Directors.Parser.
Import ListNotations.
Open Scope Z_scope.

Definition zb (b : bool) : Z := if b then 1 else 0.
Definition zopt (o : option Z) : list Z := match o with Some x => [x] | None => [] end.

Definition flat_comment (c : pcomment) : list Z := [pc_line c; Z.of_N (pc_data c); zb (pc_open c)].
Definition flat_group (kv : key * list pcomment) : list Z :=
  [zb (k_call (fst kv)); k_s (fst kv); k_e (fst kv); Z.of_nat (length (snd kv))]
  ++ flat_map flat_comment (snd kv).
Definition flat_pairs (l : list (Z * Z)) : list Z := flat_map (fun p => [fst p; snd p]) l.
Definition flat_case (c : mcase) : list Z :=
  [mc_s c; mc_e c; match mc_name c with Some n => Z.of_N n + 1 | None => 0 end; zb (mc_under c); mc_line c].

Definition sections (v : vstate) : list (list Z) :=
  [ flat_map flat_group (v_groups v);
    flat_pairs (v_fr v);
    v_returns v;
    flat_pairs (v_blocks v);
    flat_map (fun kv => fst kv :: Z.of_nat (length (snd kv)) :: snd kv) (block_returns v);
    flat_map (fun kv => fst kv :: Z.of_nat (length (snd kv)) :: snd kv) (v_decorators v);
    zopt (v_defs_start v);
    flat_pairs (v_var_annots v);
    flat_pairs (v_param_annots v);
    flat_map (fun m => match m with (s, e, cs) => s :: e :: Z.of_nat (length cs) :: flat_map flat_case cs end)
             (v_matches v);
    map fst (v_raw v) ].

Fixpoint zlist_eqb (a b : list Z) : bool :=
  match a, b with
  | [], [] => true
  | x :: r, y :: s => (x =? y) && zlist_eqb r s
  | _, _ => false
  end.

Fixpoint diff_sections (a b : list (list Z)) (i : nat) : list nat :=
  match a, b with
  | [], [] => []
  | x :: r, y :: s => if zlist_eqb x y then diff_sections r s (S i) else i :: diff_sections r s (S i)
  | _, _ => [i]
  end.

Definition check_parse (raw : rawmap) (body : list node) (expected : list (list Z)) : list nat :=
  diff_sections (sections (parse raw body)) expected 0.

Definition bad_parse_cases (cs : list (nat * list nat)) : list (nat * list nat) :=
  filter (fun c => match snd c with [] => false | _ => true end) cs.

(* shorthand used by the generated files *)
Definition C (l : Z) (b : cbody) (o : bool) (d : N) : pcomment := mkPC (mkC l b o) d.
