(* C03 — adding a trailing comment to the source only ADDS (range, comment) events to the parser's output:
   erasing a trailing comment text from the tokenizer's map commutes with the whole visitor. *)
From Coq Require Import ZArith List Bool Arith NArith Lia.
From PV Require Import Directors.Model Directors.Spec Directors.Parser Directors.ParserSpec Directors.ParserProofs.
Import ListNotations.
Open Scope Z_scope.

Section Erase.
  Variable c : pcomment.
  Hypothesis Hopen : pc_open c = false.

  Definition keepb (x : pcomment) : bool := negb (pc_eqb x c).
  Definition er (v : list pcomment) : list pcomment := filter keepb v.
  Definition ef (kv : key * list pcomment) : key * list pcomment := (fst kv, er (snd kv)).
  Definition erd (d : groups) : groups := map ef d.
  Definition erraw (raw : rawmap) : rawmap := map (fun lc => (fst lc, er (snd lc))) raw.

  Lemma er_app : forall a b, er (a ++ b) = er a ++ er b.
  Proof. intros. apply filter_app. Qed.

  Lemma od_get_erd : forall k d, od_get k (erd d) = option_map er (od_get k d).
  Proof. induction d as [|[k' v] r IH]; simpl; [reflexivity|]. destruct (key_eqb k k'); [reflexivity|exact IH]. Qed.
  Lemma od_has_erd : forall k d, od_has k (erd d) = od_has k d.
  Proof. intros. unfold od_has. rewrite od_get_erd. destruct (od_get k d); reflexivity. Qed.
  Lemma od_replace_erd : forall k v d, od_replace k (er v) (erd d) = erd (od_replace k v d).
  Proof. induction d as [|[k' v'] r IH]; simpl; [reflexivity|]. destruct (key_eqb k k'); simpl; [reflexivity|rewrite IH; reflexivity]. Qed.
  Lemma od_set_erd : forall k v d, od_set k (er v) (erd d) = erd (od_set k v d).
  Proof.
    intros. unfold od_set. rewrite od_has_erd. destruct (od_has k d); [apply od_replace_erd|].
    unfold erd. rewrite map_app. reflexivity.
  Qed.
  Lemma od_del_erd : forall k d, od_del k (erd d) = erd (od_del k d).
  Proof.
    unfold od_del. induction d as [|[k' v'] r IH]; simpl; [reflexivity|].
    destruct (key_eqb k k'); simpl; [exact IH|rewrite IH; reflexivity].
  Qed.
  Lemma od_move_erd : forall k d, od_move_to_end k (erd d) = erd (od_move_to_end k d).
  Proof.
    intros. unfold od_move_to_end. rewrite od_get_erd. destruct (od_get k d); simpl; [|reflexivity].
    rewrite od_del_erd. unfold erd. rewrite map_app. reflexivity.
  Qed.
  Lemma fold_move_erd : forall ks d,
    fold_left (fun d k => od_move_to_end k d) ks (erd d) = erd (fold_left (fun d k => od_move_to_end k d) ks d).
  Proof. induction ks; simpl; intros; [reflexivity|]. rewrite od_move_erd. apply IHks. Qed.

  Lemma find_erd : forall rd s e, find_containing (map ef rd) s e = find_containing rd s e.
  Proof.
    induction rd as [|[k v] r IH]; simpl; intros; [reflexivity|].
    destruct (k_call k); [apply IH|]. destruct ((k_s k <=? s) && (e <=? k_e k)); [reflexivity|].
    destruct (k_e k <? s); [reflexivity|apply IH].
  Qed.
  Lemma scan_erd : forall rd b s e, scan_keys (map ef rd) b s e = scan_keys rd b s e.
  Proof.
    induction rd as [|[k v] r IH]; simpl; intros; [reflexivity|]. rewrite <- IH. reflexivity.
  Qed.

  Lemma absorb_erd : forall newk ks d ng,
    absorb_all newk ks (erd d) (er ng) =
    (erd (fst (absorb_all newk ks d ng)), er (snd (absorb_all newk ks d ng))).
  Proof.
    induction ks as [|k r IH]; simpl; intros; [reflexivity|].
    rewrite od_del_erd, od_get_erd.
    replace (er ng ++ (if key_eqb k newk then er ng else match option_map er (od_get k d) with Some v => v | None => [] end))
      with (er (ng ++ (if key_eqb k newk then ng else match od_get k d with Some v => v | None => [] end))).
    - apply IH.
    - rewrite er_app. destruct (key_eqb k newk); [reflexivity|]. destruct (od_get k d); reflexivity.
  Qed.

  Lemma add_group_erd : forall d b s e, add_group (erd d) b s e = erd (add_group d b s e).
  Proof.
    intros. unfold add_group.
    assert (F : find_containing (rev (erd d)) s e = find_containing (rev d) s e)
      by (unfold erd; rewrite <- map_rev; apply find_erd).
    assert (S : scan_keys (rev (erd d)) b s e = scan_keys (rev d) b s e)
      by (unfold erd; rewrite <- map_rev; apply scan_erd).
    rewrite F, S.
    destruct (b && find_containing (rev d) s e); [reflexivity|].
    destruct (scan_keys (rev d) b s e) as [ab mv].
    change (@nil pcomment) with (er []) at 1 2.
    rewrite od_set_erd, absorb_erd.
    destruct (absorb_all (mkK (negb b) s e) (rev ab) (od_set (mkK (negb b) s e) [] d) []) as [d2 ng]. simpl.
    rewrite fold_move_erd, od_has_erd.
    destruct (od_has _ _); [apply od_replace_erd|reflexivity].
  Qed.

  Lemma pc_eqb_sym : forall a b, pc_eqb a b = pc_eqb b a.
  Proof.
    intros. unfold pc_eqb. rewrite (Z.eqb_sym (pc_line a)), (N.eqb_sym (pc_data a)).
    destruct (pc_open a), (pc_open b); reflexivity.
  Qed.
  Lemma pc_eqb_trans_false : forall x y, pc_eqb x c = true -> pc_eqb y c = false -> pc_eqb y x = false.
  Proof.
    unfold pc_eqb. intros x y H1 H2.
    apply andb_true_iff in H1 as [H1 O1]. apply andb_true_iff in H1 as [L1 D1].
    apply Z.eqb_eq in L1. apply N.eqb_eq in D1. apply Bool.eqb_prop in O1. rewrite L1, D1, O1. exact H2.
  Qed.
  Lemma er_single_eq : forall x, pc_eqb x c = true -> er [x] = [].
  Proof. intros x E. unfold er, keepb. simpl. rewrite E. reflexivity. Qed.
  Lemma er_single_ne : forall x, pc_eqb x c = false -> er [x] = [x].
  Proof. intros x E. unfold er, keepb. simpl. rewrite E. reflexivity. Qed.
  Lemma er_cons_eq : forall x r, pc_eqb x c = true -> er (x :: r) = er r.
  Proof. intros x r E. unfold er, keepb. simpl. rewrite E. reflexivity. Qed.
  Lemma er_cons_ne : forall x r, pc_eqb x c = false -> er (x :: r) = x :: er r.
  Proof. intros x r E. unfold er, keepb. simpl. rewrite E. reflexivity. Qed.

  Lemma pc_mem_er : forall x g, pc_eqb x c = false -> pc_mem x (er g) = pc_mem x g.
  Proof.
    induction g as [|y r IH]; intros H; [reflexivity|].
    destruct (pc_eqb y c) eqn:E.
    - rewrite (er_cons_eq y r E). simpl. rewrite (pc_eqb_trans_false y x E H). simpl. apply IH. exact H.
    - rewrite (er_cons_ne y r E). simpl. rewrite IH by exact H. reflexivity.
  Qed.
  Lemma extend_new_er : forall cs g, extend_new (er g) (er cs) = er (extend_new g cs).
  Proof.
    induction cs as [|x r IH]; intros g; [reflexivity|].
    destruct (pc_eqb x c) eqn:E.
    - rewrite (er_cons_eq x r E). simpl.
      destruct (directive_like x && negb (pc_mem x g)); [|apply IH].
      rewrite <- IH, er_app, (er_single_eq x E), app_nil_r. reflexivity.
    - rewrite (er_cons_ne x r E). simpl. rewrite pc_mem_er by exact E.
      destruct (directive_like x && negb (pc_mem x g)); [|apply IH].
      rewrite <- IH, er_app, (er_single_ne x E). reflexivity.
  Qed.

  Lemma psc_loop_erd : forall it b s e have d,
    psc_loop (erraw it) b s e have (erd d) = erd (psc_loop it b s e have d).
  Proof.
    induction it as [|[l cs] r IH]; simpl; intros; [reflexivity|].
    destruct (e <? l); [reflexivity|]. destruct (l <? s); [apply IH|].
    replace (if negb have || b then add_group (erd d) b s e else erd d)
      with (erd (if negb have || b then add_group d b s e else d))
      by (destruct (negb have || b); [rewrite add_group_erd|]; reflexivity).
    destruct b; [apply IH|].
    rewrite od_get_erd. destruct (od_get (mkK true s e) _) as [g|]; simpl; [|apply IH].
    rewrite extend_new_er, od_replace_erd. apply IH.
  Qed.

  (* ---- the visitor state ---- *)
  Definition erv (v : vstate) : vstate :=
    mkV (erraw (v_raw v)) (erd (v_groups v)) (v_fr v) (v_blocks v) (v_returns v) (v_depth v) (v_defs_start v)
        (v_decorators v) (v_var_annots v) (v_param_annots v) (v_matches v).

  Lemma psc_erv : forall v b s e, psc (erv v) b s e = erv (psc v b s e).
  Proof. intros. unfold psc, erv. simpl. rewrite psc_loop_erd. reflexivity. Qed.

  Lemma dec_step_erv : forall l v d, dec_step l (erv v) d = erv (dec_step l v d).
  Proof. intros. unfold dec_step. rewrite psc_erv. reflexivity. Qed.
  Lemma visit_decorators_erv : forall decs v l, visit_decorators (erv v) l decs = erv (visit_decorators v l decs).
  Proof. unfold visit_decorators. induction decs; simpl; intros; [reflexivity|]. rewrite dec_step_erv. apply IHdecs. Qed.
  Lemma visit_def_erv : forall v l decs, visit_def (erv v) l decs = erv (visit_def v l decs).
  Proof. intros. unfold visit_def. rewrite visit_decorators_erv. reflexivity. Qed.

  Lemma raw_get_erraw : forall i raw, raw_get i (erraw raw) = option_map er (raw_get i raw).
  Proof. induction raw as [|[k v] r IH]; simpl; [reflexivity|]. destruct (k =? i); [reflexivity|exact IH]. Qed.
  Lemma raw_touch_erraw : forall i raw, raw_touch i (erraw raw) = erraw (raw_touch i raw).
  Proof.
    intros. unfold raw_touch. rewrite raw_get_erraw. destruct (raw_get i raw); simpl; [reflexivity|].
    unfold erraw. rewrite map_app. reflexivity.
  Qed.
  Lemma typeopen_er : forall cs,
    existsb (fun x => is_type_tool x && pc_open x) (er cs) = existsb (fun x => is_type_tool x && pc_open x) cs.
  Proof.
    induction cs as [|x r IH]; [reflexivity|].
    destruct (pc_eqb x c) eqn:E.
    - rewrite (er_cons_eq x r E). simpl.
      assert (O : pc_open x = false).
      { unfold pc_eqb in E. apply andb_true_iff in E as [_ E]. apply Bool.eqb_prop in E. rewrite E. exact Hopen. }
      rewrite O, andb_false_r. simpl. exact IH.
    - rewrite (er_cons_ne x r E). simpl. rewrite IH. reflexivity.
  Qed.
  Lemma sig_end_erraw : forall n i b raw,
    sig_end n i b (erraw raw) = (fst (sig_end n i b raw), erraw (snd (sig_end n i b raw))).
  Proof.
    induction n; simpl; intros; [reflexivity|].
    rewrite raw_touch_erraw, raw_get_erraw.
    replace (existsb (fun c0 => is_type_tool c0 && pc_open c0)
               match option_map er (raw_get i (raw_touch i raw)) with Some cs => cs | None => [] end)
      with (existsb (fun c0 => is_type_tool c0 && pc_open c0)
               match raw_get i (raw_touch i raw) with Some cs => cs | None => [] end).
    - destruct (existsb _ _); [reflexivity|apply IHn].
    - destruct (raw_get i (raw_touch i raw)); simpl; [symmetry; apply typeopen_er|reflexivity].
  Qed.

  Lemma visit_function_def_erv : forall v f, visit_function_def (erv v) f = erv (visit_function_def v f).
  Proof.
    intros. unfold visit_function_def.
    set (me := match f_returns_end f with Some r => r | None => match f_last_arg_end f with Some a => a | None => f_lineno f end end).
    destruct (f_body_lineno f <=? me).
    - change (set_raw (erv v) (v_raw (erv v))) with (erv (set_raw v (v_raw v))).
      cbv zeta. rewrite psc_erv, visit_def_erv. reflexivity.
    - simpl v_raw at 1. rewrite sig_end_erraw.
      destruct (sig_end (Z.to_nat (f_body_lineno f - me)) me (f_body_lineno f) (v_raw v)) as [en raw1]. simpl fst. simpl snd.
      change (set_raw (erv v) (erraw raw1)) with (erv (set_raw v raw1)).
      cbv zeta. rewrite psc_erv, visit_def_erv. reflexivity.
  Qed.

  Lemma fold_psc_erv : forall (types : list (Z * Z)) v,
    fold_left (fun v t => psc v true (fst t) (snd t)) types (erv v) =
    erv (fold_left (fun v t => psc v true (fst t) (snd t)) types v).
  Proof. induction types; simpl; intros; [reflexivity|]. rewrite psc_erv. apply IHtypes. Qed.

  Lemma call_visitor_erv : forall v n, call_visitor (erv v) n = erv (call_visitor v n).
  Proof.
    intros v n. destruct n; simpl.
    - apply psc_erv.
    - apply psc_erv.
    - destruct has_value; [|reflexivity]. rewrite <- psc_erv. reflexivity.
    - rewrite <- psc_erv. reflexivity.
    - apply fold_psc_erv.
    - rewrite <- psc_erv. destruct (v_depth v =? 1); reflexivity.
    - reflexivity.
    - apply visit_def_erv.
    - apply visit_function_def_erv.
  Qed.

  Lemma visit_erv : forall n v, visit (erv v) n = erv (visit v n).
  Proof.
    apply (node_ind' (fun n => forall v, visit (erv v) n = erv (visit v n))).
    intros n IH v. rewrite !visit_eq.
    assert (E : enter (erv v) n = erv (enter v n)) by (destruct n; reflexivity).
    assert (G : forall ks, Forall (fun n => forall v, visit (erv v) n = erv (visit v n)) ks ->
                forall v, fold_left visit ks (erv v) = erv (fold_left visit ks v)).
    { induction 1; simpl; intros; [reflexivity|]. rewrite H. apply IHForall. }
    rewrite E, (G _ IH), call_visitor_erv. destruct n; reflexivity.
  Qed.

  Theorem parse_erase : forall raw body, parse (erraw raw) body = erv (parse raw body).
  Proof.
    intros. unfold parse, visit_all.
    assert (I : init_state (erraw raw) = erv (init_state raw)).
    { unfold init_state, erv. simpl. f_equal. unfold erraw, erd. rewrite !map_map. reflexivity. }
    rewrite I. generalize (init_state raw). induction body; simpl; intros; [reflexivity|].
    rewrite visit_erv. apply IHbody.
  Qed.
End Erase.

(* ---------- from erasure to [inserted] on the Director's events ---------- *)
Lemma inserted_filter : forall {A} (p : A -> bool) l,
  inserted (fun x => p x = false) (filter p l) l (filter (fun x => negb (p x)) l).
Proof.
  induction l as [|x r IH]; simpl; [constructor|].
  destruct (p x) eqn:E; simpl; [apply ins_keep; exact IH|apply ins_add; [exact E|exact IH]].
Qed.
Lemma inserted_map_in : forall {A B} (f : A -> B) (P : A -> Prop) (Q : B -> Prop) D D' Ad,
  inserted P D D' Ad -> (forall x, In x D' -> P x -> Q (f x)) ->
  inserted Q (map f D) (map f D') (map f Ad).
Proof.
  induction 1; simpl; intros HQ; [constructor| |].
  - apply ins_keep. apply IHinserted. intros; apply HQ; auto.
  - apply ins_add; [apply HQ; auto|]. apply IHinserted. intros; apply HQ; auto.
Qed.

Definition pevents (d : groups) : list (key * pcomment) :=
  flat_map (fun kv => map (fun x => (fst kv, x)) (snd kv)) d.
Definition to_event (kx : key * pcomment) : event :=
  mkE (k_call (fst kx)) (k_s (fst kx)) (k_e (fst kx)) (pc_c (snd kx)).

Lemma events_pevents : forall d, events_of (map to_group d) = map to_event (pevents d).
Proof.
  unfold events_of, pevents. induction d as [|[k v] r IH]; simpl; [reflexivity|].
  rewrite map_app, IH. f_equal. unfold to_group. simpl. rewrite !map_map. reflexivity.
Qed.

Lemma pevents_erd : forall c d, pevents (erd c d) = filter (fun kx => keepb c (snd kx)) (pevents d).
Proof.
  intros c. unfold pevents. induction d as [|[k v] r IH]; simpl; [reflexivity|].
  rewrite filter_app, IH. f_equal. unfold er. clear IH.
  induction v as [|x v IHv]; simpl; [reflexivity|]. destruct (keepb c x); simpl; rewrite IHv; reflexivity.
Qed.

Lemma pevents_In : forall d k x, In (k, x) (pevents d) -> exists v, In (k, v) d /\ In x v.
Proof.
  unfold pevents. intros d k x H. apply in_flat_map in H as ([k' v] & H1 & H2). simpl in H2.
  apply in_map_iff in H2 as (y & E & H3). inversion E; subst. eauto.
Qed.

(* [raw'] is the tokenizer's map of the source WITH the trailing comment [c]; [erraw c raw'] that of the same
   source with that comment's text blanked (the comment token stays, so its line keeps its — possibly empty —
   entry).  [Hdata]: the harness numbers (tool, data) texts injectively, so equal texts have equal bodies. *)
Theorem parse_trailing_inserted : forall raw' body c, raw_ok raw' -> pc_open c = false ->
  (forall x, In x (all_comments raw') -> pc_eqb x c = true -> pc_c x = pc_c c) ->
  exists Ad,
    inserted (fun ev => ev_comment ev = pc_c c /\ ev_start ev <= c_line (pc_c c) <= ev_end ev)
             (events_of (director_groups (parse (erraw c raw') body)))
             (events_of (director_groups (parse raw' body))) Ad.
Proof.
  intros raw' body c R O Hd. unfold director_groups.
  rewrite (parse_erase c O raw' body). simpl v_groups. rewrite !events_pevents, pevents_erd.
  eexists. eapply inserted_map_in; [apply inserted_filter|].
  intros [k x] I E. simpl in E. unfold keepb in E. apply negb_false_iff in E.
  apply pevents_In in I as (v & I1 & I2).
  destruct (parse_event_lines raw' body k v x R I1 I2) as (Rg & A & _).
  simpl. rewrite (Hd x A E). split; [reflexivity|].
  assert (L : pc_line x = pc_line c).
  { unfold pc_eqb in E. apply andb_true_iff in E as [E _]. apply andb_true_iff in E as [E _]. apply Z.eqb_eq. exact E. }
  unfold pc_line in L. rewrite <- L. exact Rg.
Qed.
