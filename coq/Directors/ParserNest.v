(* C03 — every statement range of the tree that holds a comment line is covered by a statement-range group of
   the visitor's output (the range itself or a larger one that absorbed it). *)
From Coq Require Import ZArith List Bool Arith NArith Lia Sorting.Sorted Sorting.Permutation.
From PV Require Import Directors.Model Directors.Parser Directors.ParserSpec Directors.ParserProofs Directors.ParserOrder.
Import ListNotations.
Open Scope Z_scope.

(* the statement ranges the visitor asks for (function signatures, whose end depends on the comments, are
   treated separately) *)
(* the end of a function signature as _visit_function_def computes it, read off the tokenizer's comment map *)
Definition eff_comments (raw : rawmap) (i : Z) : list pcomment :=
  match raw_get i raw with Some cs => cs | None => [] end.
Fixpoint sig_spec (raw : rawmap) (n : nat) (i body_lineno : Z) : Z :=
  match n with
  | O => body_lineno - 1
  | S m => if existsb (fun c => is_type_tool c && pc_open c) (eff_comments raw i) then i - 1
           else sig_spec raw m (i + 1) body_lineno
  end.
Definition sig_line (raw : rawmap) (f : fdef) : Z :=
  let maybe_end := match f_returns_end f with
                   | Some r => r
                   | None => match f_last_arg_end f with Some a => a | None => f_lineno f end
                   end in
  if f_body_lineno f <=? maybe_end then maybe_end
  else sig_spec raw (Z.to_nat (f_body_lineno f - maybe_end)) maybe_end (f_body_lineno f).

Definition own_reqs (raw : rawmap) (n : node) : list (Z * Z) :=
  match n with
  | NStmt s e _ | NReturn s e _ => [(s, e)]
  | NAnn s e hv _ => if hv then [(s, e)] else []
  | NWith s _ ve ce _ => [(s, match ve with Some x => x | None => ce end)]
  | NTry types _ => types
  | NClass _ decs _ => decs
  | NFunc f _ => (f_lineno f, sig_line raw f) :: f_decs f
  | NCall _ _ _ | NMatch _ _ _ _ => []
  end.
Fixpoint reqs_of (raw : rawmap) (n : node) : list (Z * Z) :=
  let kids := match n with
              | NCall _ _ k | NStmt _ _ k | NAnn _ _ _ k | NReturn _ _ k | NTry _ k | NWith _ _ _ _ k
              | NMatch _ _ _ k | NClass _ _ k | NFunc _ k => flat_map (reqs_of raw) k
              end in
  kids ++ own_reqs raw n.

Definition covers (s e : Z) (d : groups) : Prop :=
  exists k, In k (keys d) /\ k_call k = false /\ k_s k <= s /\ e <= k_e k.

Lemma reqs_of_eq : forall raw n, reqs_of raw n = flat_map (reqs_of raw) (kids_of n) ++ own_reqs raw n.
Proof. destruct n; reflexivity. Qed.

Lemma find_true_covers : forall rd s e, find_containing rd s e = true -> covers s e rd.
Proof.
  induction rd as [|[k v] r IH]; simpl; intros s e F; [discriminate|].
  assert (L : covers s e r -> covers s e ((k, v) :: r)).
  { intros (k0 & I & H). exists k0. split; [right; exact I|exact H]. }
  destruct (k_call k) eqn:KC; [auto|].
  destruct ((k_s k <=? s) && (e <=? k_e k)) eqn:C.
  - apply andb_true_iff in C as [C1 C2]. exists k. simpl. repeat split; auto; lia.
  - destruct (k_e k <? s); [discriminate|auto].
Qed.

Lemma covers_rev : forall s e d, covers s e (rev d) -> covers s e d.
Proof. intros s e d (k & I & H). exists k. split; [|exact H]. rewrite keys_rev in I. apply in_rev in I. exact I. Qed.

Lemma in_result_keys : forall d base s e k, tinv d -> (base && find_containing (rev d) s e) = false ->
  let sc := scanned (keys (rev d)) base s e in
  In k (if kin (mkK (negb base) s e) (keys d) then keys d else keys d ++ [mkK (negb base) s e]) ->
  ~ In k (filter (absorbed base s e) sc) ->
  In k (keys (add_group d base s e)).
Proof.
  intros d base s e k T NF sc I NA. rewrite (add_group_keys d base s e T NF). fold sc.
  destruct (kin k (rev (filter (notabs base s e) sc))) eqn:M.
  - apply in_or_app. right. apply kin_In. exact M.
  - apply in_or_app. left. apply filter_In. split; [apply filter_In; split; [exact I|]|].
    + unfold notin. apply negb_true_iff, kin_false. intro J. apply in_rev in J. contradiction.
    + unfold notin. rewrite M. reflexivity.
Qed.

Lemma add_group_newkey : forall d s e, tinv d -> s <= e -> covers s e (add_group d true s e).
Proof.
  intros d s e T Hse. destruct (find_containing (rev d) s e) eqn:F.
  - unfold add_group. simpl. rewrite F. apply covers_rev. apply find_true_covers. exact F.
  - exists (mkK false s e). split; [|simpl; repeat split; lia].
    pose proof (notfound_new d true s e T eq_refl F) as NEW. simpl in NEW.
    apply in_result_keys; [exact T|simpl; exact F| |].
    + simpl. rewrite NEW. apply in_or_app. right. left. reflexivity.
    + intro I. apply filter_In in I as [I _]. apply kin_false in NEW. apply NEW.
      apply (sc_in_d d true s e T). exact I.
Qed.

Lemma add_group_covers : forall d base s' e' s e, tinv d -> s' <= e' -> covers s e d ->
  covers s e (add_group d base s' e').
Proof.
  intros d base s' e' s e T Hse (k0 & I0 & KC & A & B).
  destruct (base && find_containing (rev d) s' e') eqn:NF.
  { unfold add_group. rewrite NF. exists k0. auto. }
  destruct (kin k0 (filter (absorbed base s' e') (scanned (keys (rev d)) base s' e'))) eqn:AB.
  - (* the covering group is absorbed by the new, larger one *)
    apply kin_In in AB. apply filter_In in AB as [_ AB]. unfold absorbed, cond1 in AB.
    apply andb_true_iff in AB as [AB _]. apply andb_true_iff in AB as [AB C3]. apply andb_true_iff in AB as [Bb C2].
    subst base. simpl in NF.
    destruct (add_group_newkey d s' e' T Hse) as (k & I & KC' & A' & B').
    assert (E : k = mkK false s' e' \/ True) by auto.
    exists (mkK false s' e'). split; [|simpl; repeat split; lia].
    pose proof (notfound_new d true s' e' T eq_refl NF) as NEW. simpl in NEW.
    apply in_result_keys; [exact T|simpl; exact NF| |].
    + simpl. rewrite NEW. apply in_or_app. right. left. reflexivity.
    + intro J. apply filter_In in J as [J _]. apply kin_false in NEW. apply NEW. apply (sc_in_d d true s' e' T). exact J.
  - exists k0. split; [|auto]. apply in_result_keys; [exact T|exact NF| |].
    + destruct (kin _ (keys d)); [exact I0|apply in_or_app; auto].
    + apply kin_false. exact AB.
Qed.

Definition cinv (s e : Z) (d : groups) : Prop := tinv d /\ covers s e d.

Lemma covers_replace : forall s e k v d, covers s e d -> covers s e (od_replace k v d).
Proof. intros s e k v d (k0 & I & H). exists k0. rewrite keys_replace. auto. Qed.

Lemma psc_loop_cinv : forall s e it b s' e' have d, cinv s e d -> cinv s e (psc_loop it b s' e' have d).
Proof.
  induction it as [|[l cs] r IH]; simpl; intros b s' e' have d P; [assumption|].
  destruct (e' <? l) eqn:C1; [assumption|]. destruct (l <? s') eqn:C2; [apply IH; assumption|].
  apply IH.
  assert (P1 : cinv s e (if negb have || b then add_group d b s' e' else d)).
  { destruct (negb have || b); [|assumption]. destruct P as [T Q]. split.
    - apply add_group_tinv; [assumption|lia].
    - apply add_group_covers; [assumption|lia|assumption]. }
  destruct b; [assumption|]. destruct (od_get _ _); [|assumption].
  destruct P1 as [T Q]. split; [apply tinv_replace; assumption|apply covers_replace; assumption].
Qed.

(* the request itself: as soon as the loop reaches a comment line inside the range the range is covered *)
Lemma psc_loop_creates : forall s e it d, tinv d -> reach s e it = true ->
  cinv s e (psc_loop it true s e false d).
Proof.
  induction it as [|[l cs] r IH]; simpl; intros d T R; [discriminate|].
  destruct (e <? l) eqn:C1; [discriminate|]. destruct (l <? s) eqn:C2; [apply IH; assumption|]. simpl.
  apply psc_loop_cinv. split; [apply add_group_tinv; [assumption|lia]|apply add_group_newkey; [assumption|lia]].
Qed.

Section Covered.
  Variable raw0 : rawmap.
  Hypothesis Hraw : raw_ok raw0.
  Variables s e l : Z.
  Variable cs : list pcomment.
  Hypothesis Hl : In (l, cs) raw0.
  Hypothesis Hr : in_range s e l = true.

  Definition pre (v : vstate) : Prop := inv raw0 v /\ tinv (v_groups v).
  Definition post (v : vstate) : Prop := cinv s e (v_groups v).

  Lemma HJc : forall raw d b s' e', cinv s e d -> cinv s e (psc_loop raw b s' e' false d).
  Proof. intros. apply psc_loop_cinv. assumption. Qed.
  Lemma HJt : forall raw d b s' e', tinv d -> tinv (psc_loop raw b s' e' false d).
  Proof. intros. apply psc_loop_tinv. assumption. Qed.

  Lemma psc_pre : forall v b s' e', pre v -> pre (psc v b s' e').
  Proof. intros v b s' e' [I T]. split; [apply psc_inv; assumption|apply (psc_J tinv HJt); assumption]. Qed.

  Lemma psc_creates : forall v, pre v -> post (psc v true s e).
  Proof.
    intros v [[(t & R & Te) _] T]. unfold post, psc. simpl. rewrite R.
    apply psc_loop_creates; [assumption|]. eapply reach_sorted; eassumption.
  Qed.

  (* in a fold of steps, one of which creates and all of which preserve *)
  Lemma fold_post : forall {A} (step : vstate -> A -> vstate) (xs : list A),
    (forall v a, post v -> post (step v a)) -> forall v, post v -> post (fold_left step xs v).
  Proof. intros A step xs Hq. induction xs; simpl; auto. Qed.

  Lemma fold_creates : forall {A} (step : vstate -> A -> vstate) (xs : list A) (x : A),
    In x xs -> (forall v a, pre v -> pre (step v a)) -> (forall v a, post v -> post (step v a)) ->
    (forall v, pre v -> post (step v x)) -> forall v, pre v -> post (fold_left step xs v).
  Proof.
    intros A step xs x I Hp Hq Hc. induction xs as [|a r IH]; simpl; intros v P; [contradiction|].
    destruct I as [->|I].
    - apply fold_post; [assumption|]. apply Hc. assumption.
    - apply IH; [assumption|apply Hp; assumption].
  Qed.

  Lemma dec_step_pre : forall ln v d, pre v -> pre (dec_step ln v d).
  Proof. intros ln v d P. destruct (psc_pre v true (fst d) (snd d) P) as [I T]. split; [|exact T]. apply dec_step_inv; [assumption|apply P]. Qed.
  Lemma dec_step_post : forall ln v d, post v -> post (dec_step ln v d).
  Proof. intros ln v d P. unfold dec_step. apply (psc_J (cinv s e) HJc v true (fst d) (snd d)). exact P. Qed.

  Lemma decorators_create : forall decs ln v, In (s, e) decs -> pre v -> post (visit_decorators v ln decs).
  Proof.
    intros decs ln v I P. unfold visit_decorators.
    apply (fold_creates (dec_step ln) decs (s, e) I); [apply dec_step_pre|apply dec_step_post| |assumption].
    intros v0 P0. unfold dec_step. simpl. apply (psc_creates v0 P0).
  Qed.

  Lemma pre_same : forall v v', v_raw v' = v_raw v -> v_groups v' = v_groups v -> pre v -> pre v'.
  Proof. intros v v' R G [I T]. split; [eapply inv_same; eassumption|rewrite G; exact T]. Qed.

  Lemma raw_get_app : forall i (a b : rawmap),
    raw_get i (a ++ b) = match raw_get i a with Some c => Some c | None => raw_get i b end.
  Proof. induction a as [|[k v] r IH]; simpl; intros; [reflexivity|]. destruct (k =? i); auto. Qed.
  Lemma raw_get_empties : forall i (t : rawmap) c, Forall (fun lc => snd lc = []) t -> raw_get i t = Some c -> c = [].
  Proof.
    induction t as [|[k v] r IH]; simpl; intros c F G; [discriminate|]. inversion F; subst. simpl in *.
    destruct (k =? i); [inversion G; subst; reflexivity|auto].
  Qed.
  Lemma eff_touch : forall i t, Forall (fun lc => snd lc = []) t ->
    match raw_get i (raw_touch i (raw0 ++ t)) with Some c => c | None => [] end = eff_comments raw0 i.
  Proof.
    intros i t T. unfold raw_touch, eff_comments.
    destruct (raw_get i (raw0 ++ t)) as [c|] eqn:G.
    - rewrite G. rewrite raw_get_app in G. destruct (raw_get i raw0); [inversion G; reflexivity|].
      apply (raw_get_empties i t c T G).
    - rewrite raw_get_app, G. simpl. rewrite Z.eqb_refl.
      rewrite raw_get_app in G. destruct (raw_get i raw0); [discriminate|reflexivity].
  Qed.
  Lemma sig_end_fst : forall n i b raw, (exists t, raw = raw0 ++ t /\ Forall (fun lc => snd lc = []) t) ->
    fst (sig_end n i b raw) = sig_spec raw0 n i b.
  Proof.
    induction n; simpl; intros i b raw X; [reflexivity|].
    pose proof X as (t & -> & T). rewrite (eff_touch i t T).
    destruct (existsb _ (eff_comments raw0 i)); [reflexivity|].
    apply IHn. apply touch_ext. exists t. auto.
  Qed.

  Lemma call_visitor_creates : forall v n, pre v -> In (s, e) (own_reqs raw0 n) -> post (call_visitor v n).
  Proof.
    intros v n P I. destruct n; simpl in I; try contradiction.
    - destruct I as [I|[]]. inversion I; subst. apply psc_creates. assumption.
    - destruct has_value; [|contradiction]. destruct I as [I|[]]. inversion I; subst. simpl.
      apply psc_creates. eapply pre_same; [| |exact P]; reflexivity.
    - destruct I as [I|[]]. inversion I; subst. simpl. apply psc_creates. eapply pre_same; [| |exact P]; reflexivity.
    - simpl. apply (fold_creates (fun v t => psc v true (fst t) (snd t)) types (s, e) I).
      + intros. apply psc_pre. assumption.
      + intros v0 a Q. apply (psc_J (cinv s e) HJc). exact Q.
      + intros v0 P0. apply (psc_creates v0 P0).
      + assumption.
    - destruct I as [I|[]]. injection I as Hs He. subst s0. simpl. rewrite He. apply psc_creates.
      destruct (v_depth v =? 1); [eapply pre_same; [| |exact P]; reflexivity|exact P].
    - simpl. unfold visit_def. apply (decorators_create decs lineno v I P).
    - simpl. unfold visit_function_def.
      destruct (if f_body_lineno f <=? _ then _ else _) as [en raw1] eqn:E. cbv zeta.
      assert (P1 : pre (set_raw v raw1)).
      { destruct P as [Iv T]. split; [|exact T]. destruct Iv as [X F]. split; [|exact F]. simpl.
        destruct (f_body_lineno f <=? _).
        - inversion E; subst. exact X.
        - match type of E with sig_end ?n ?i ?b ?r = _ => pose proof (sig_end_ext raw0 n i b r X) as Y end.
          rewrite E in Y. exact Y. }
      unfold visit_def. unfold post. simpl.
      destruct I as [I|I].
      + (* the signature range itself *)
        assert (EN : en = sig_line raw0 f).
        { unfold sig_line. destruct P as [[X _] _]. destruct (f_body_lineno f <=? _).
          - inversion E; reflexivity.
          - match type of E with sig_end ?n ?i ?b ?r = _ => pose proof (sig_end_fst n i b r X) as Y end.
            rewrite E in Y. exact Y. }
        injection I as Hs He. rewrite EN, Hs, He.
        apply (visit_decorators_J (cinv s e) HJc). apply psc_creates. exact P1.
      + apply (decorators_create (f_decs f) (f_lineno f) (psc (set_raw v raw1) true (f_lineno f) en) I).
        apply psc_pre. exact P1.
  Qed.

  Lemma visit_pre : forall n v, pre v -> pre (visit v n).
  Proof. intros n v [I T]. split; [apply visit_inv; assumption|apply (visit_J tinv HJt); assumption]. Qed.

  Lemma visit_covers : forall n v, pre v -> In (s, e) (reqs_of raw0 n) -> post (visit v n).
  Proof.
    apply (node_ind' (fun n => forall v, pre v -> In (s, e) (reqs_of raw0 n) -> post (visit v n))).
    intros n IH v P I. rewrite visit_eq. rewrite (reqs_of_eq raw0) in I.
    assert (L : forall v n, post v -> post (leave v n)) by (intros ? []; auto).
    assert (PE : pre (enter v n)) by (destruct n; exact P).
    apply L. apply in_app_or in I as [I|I].
    - apply (call_visitor_J (cinv s e) HJc).
      assert (G : forall ks, Forall (fun n => forall v, pre v -> In (s, e) (reqs_of raw0 n) -> post (visit v n)) ks ->
                  forall v, pre v -> In (s, e) (flat_map (reqs_of raw0) ks) -> post (fold_left visit ks v)).
      { induction 1 as [|x r Hx Hr' IHr]; simpl; intros v0 P0 C0; [contradiction|].
        apply in_app_or in C0 as [C0|C0].
        - apply (fold_visit_J (cinv s e) HJc). apply Hx; assumption.
        - apply IHr; [apply visit_pre; assumption|assumption]. }
      apply G; assumption.
    - apply call_visitor_creates; [|exact I].
      assert (G : forall ks v, pre v -> pre (fold_left visit ks v)) by (induction ks; simpl; auto using visit_pre).
      apply G. exact PE.
  Qed.
End Covered.

Theorem parse_statement_covered : forall raw body s e l cs, raw_ok raw ->
  In (s, e) (flat_map (reqs_of raw) body) -> In (l, cs) raw -> in_range s e l = true ->
  covers s e (v_groups (parse raw body)).
Proof.
  intros raw body s e l cs R I Hl Hr. unfold parse, visit_all.
  assert (G : forall ks v, pre raw v -> In (s, e) (flat_map (reqs_of raw) ks) -> post s e (fold_left visit ks v)).
  { induction ks as [|x r IHr]; simpl; intros v0 P0 C0; [contradiction|].
    apply in_app_or in C0 as [C0|C0].
    - apply (fold_visit_J (cinv s e) (HJc s e)). eapply visit_covers; eassumption.
    - apply IHr; [apply visit_pre; assumption|assumption]. }
  apply G; [|assumption]. split; [apply init_inv; assumption|apply init_tinv; assumption].
Qed.

(* statement-range groups that do not share a line *)
Definition base_disjoint (d : groups) : Prop :=
  forall k1 k2, In k1 (keys d) -> In k2 (keys d) -> k_call k1 = false -> k_call k2 = false -> k1 <> k2 ->
    k_e k1 < k_s k2 \/ k_e k2 < k_s k1.

Theorem parse_comment_with_statement : forall raw body s e l cs c, raw_ok raw ->
  In (s, e) (flat_map (reqs_of raw) body) -> In (l, cs) raw -> In c cs -> in_range s e l = true ->
  base_disjoint (v_groups (parse raw body)) ->
  exists k v, In (k, v) (v_groups (parse raw body)) /\ k_call k = false /\ In c v /\ k_s k <= s /\ e <= k_e k.
Proof.
  intros raw body s e l cs c R I Hl Hc Hr D.
  assert (Lc : pc_line c = l) by (eapply raw_lines; eassumption).
  assert (Ac : In c (all_comments raw)) by (unfold all_comments; apply in_flat_map; exists (l, cs); auto).
  destruct (parse_base_containment raw body c R Ac) as (k & v & I1 & KC & I2 & Rg).
  destruct (parse_statement_covered raw body s e l cs R I Hl Hr) as (k' & I' & KC' & A & B).
  exists k, v. split; [assumption|]. split; [assumption|]. split; [assumption|].
  unfold in_range in Hr. apply andb_true_iff in Hr as [H1 H2].
  destruct (key_eqb k k') eqn:E.
  - apply key_eqb_eq in E. subst k'. split; assumption.
  - exfalso. assert (NE : k <> k') by (intro; subst; rewrite key_eqb_refl in E; discriminate).
    assert (Ik : In k (keys (v_groups (parse raw body)))) by (apply in_map_iff; exists (k, v); auto).
    destruct (D k k' Ik I' KC KC' NE); lia.
Qed.

Definition base_disjointb (d : groups) : bool :=
  forallb (fun k1 => forallb (fun k2 =>
    k_call k1 || k_call k2 || key_eqb k1 k2 || (k_e k1 <? k_s k2) || (k_e k2 <? k_s k1)) (keys d)) (keys d).
Lemma base_disjointb_sound : forall d, base_disjointb d = true -> base_disjoint d.
Proof.
  intros d H k1 k2 I1 I2 C1 C2 NE. unfold base_disjointb in H.
  rewrite forallb_forall in H. specialize (H _ I1). rewrite forallb_forall in H. specialize (H _ I2).
  rewrite C1, C2 in H. simpl in H.
  destruct (key_eqb k1 k2) eqn:E; [apply key_eqb_eq in E; contradiction|]. simpl in H.
  apply orb_true_iff in H as [H|H]; [left|right]; lia.
Qed.
