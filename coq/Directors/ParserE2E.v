(* C03 — the guarantee quoted in directors.py, stated on the SOURCE-level model (parser model followed by the
   Director model): no hypothesis about the parser's output is left. *)
From Coq Require Import ZArith List Bool Arith NArith Lia.
From PV Require Import Generated.C03_ErrorClasses Directors.Model Directors.Spec Directors.Proofs.
From PV Require Import Directors.Parser Directors.ParserSpec Directors.ParserProofs Directors.ParserOrder.
Import ListNotations.
Open Scope Z_scope.

Theorem source_trailing_disable_silences : forall g raw body c L E st rl e l0 lr,
  raw_ok raw -> In c (all_comments raw) -> pc_c c = trailing_disable L E ->
  accepted_name E = true ->
  Forall (fun ev => trailing_enable_of E (ev_comment ev) = false)
         (events_of (director_groups (parse raw body))) ->
  build g (v_fr (parse raw body)) (director_groups (parse raw body)) = Ok st ->
  e_same_file e = true -> e_line e = Some l0 -> e_name e = E ->
  reported_line st rl e l0 = Ok lr -> eff_line lr = L ->
  filter_error st rl e = Ok (false, Some lr).
Proof.
  intros g raw body c L E st rl e l0 lr R I C A NoEn B SF EL EN RL EQ.
  destruct (parse_base_event raw body c R I) as (ev & Iev & Call & Com & _).
  apply in_split in Iev as (D1 & D2 & Split).
  unfold build in B. rewrite Split in B, NoEn.
  apply Forall_app in NoEn as [_ NoEn]. apply Forall_inv_tail in NoEn.
  apply (silences_lemma g (v_fr (parse raw body)) rl D1 D2 ev st e l0 lr L E).
  - rewrite Com. exact C.
  - exact A.
  - rewrite Call. reflexivity.
  - exact NoEn.
  - exact B.
  - exact SF.
  - exact EL.
  - exact EN.
  - exact RL.
  - left. exact EQ.
Qed.
