(* C03 — executable model of the ast-level logic of pytype/directors/parser.py (_ParseVisitor, _BlockReturns,
   _Matches) driven by pytype/ast/visitor.py's post-order traversal.  Model only (no proofs).

   Input: (1) the raw structured comments, i.e. the value of parser._process_comments (tokenizer, NOT modelled):
   an insertion-ordered dict  line -> comments of that line;  (2) a mini tree: Python's `ast` projected to the
   node kinds the visitor distinguishes, children in the order BaseVisitor._children yields them (nodes without
   any action are spliced out by the projection, their children take their place).
   Output: everything Director._parse_src_tree reads from the visitor: structured_comment_groups (ordered),
   function_ranges (dict items in insertion order), block_returns, decorators, defs_start, variable/param
   annotation ranges, matches.

   Python objects modelled: OrderedDict / dict = association list in insertion order with unique keys
   (assignment to an existing key keeps its position); the defaultdict `_raw_structured_comments` grows an
   empty entry when _visit_function_def reads a missing line (modelled: [raw_touch]). *)
From Coq Require Import ZArith List Bool Arith NArith.
From PV Require Import Directors.Model.
Import ListNotations.
Open Scope Z_scope.

(* ---------- structured comments ---------- *)
(* a _StructuredComment: the director-level view (line, body, open_ended) + an id of its (tool, data) text.
   dataclass equality = (line, tool, data, open_ended); the harness numbers distinct (tool, data) pairs. *)
Record pcomment := mkPC { pc_c : comment; pc_data : N }.
Definition pc_line (c : pcomment) : Z := c_line (pc_c c).
Definition pc_open (c : pcomment) : bool := c_open (pc_c c).
Definition pc_eqb (a b : pcomment) : bool :=
  (pc_line a =? pc_line b) && (pc_data a =? pc_data b)%N && Bool.eqb (pc_open a) (pc_open b).
Definition pc_mem (c : pcomment) (g : list pcomment) : bool := existsb (pc_eqb c) g.
Definition is_type_tool (c : pcomment) : bool :=
  match c_body (pc_c c) with Pytype _ => false | _ => true end.
(* should_add of _process_structured_comments, without the `comment in group` test *)
Definition directive_like (c : pcomment) : bool :=
  negb (pc_open c) &&
  match c_body (pc_c c) with Pytype _ => true | TypeIgnore => true | TypeOther => false end.

Definition rawmap := list (Z * list pcomment).

Fixpoint raw_get (l : Z) (raw : rawmap) : option (list pcomment) :=
  match raw with
  | [] => None
  | (k, v) :: r => if k =? l then Some v else raw_get l r
  end.
(* self._raw_structured_comments[i] on a defaultdict(list): a missing key is inserted (at the end) *)
Definition raw_touch (l : Z) (raw : rawmap) : rawmap :=
  match raw_get l raw with Some _ => raw | None => raw ++ [(l, [])] end.

(* ---------- line-range keys and the ordered dict of groups ---------- *)
Record key := mkK { k_call : bool; k_s : Z; k_e : Z }.
Definition key_eqb (a b : key) : bool :=
  Bool.eqb (k_call a) (k_call b) && (k_s a =? k_s b) && (k_e a =? k_e b).
Definition groups := list (key * list pcomment).

Fixpoint od_get (k : key) (d : groups) : option (list pcomment) :=
  match d with
  | [] => None
  | (k', v) :: r => if key_eqb k k' then Some v else od_get k r
  end.
Definition od_has (k : key) (d : groups) : bool :=
  match od_get k d with Some _ => true | None => false end.
Fixpoint od_replace (k : key) (v : list pcomment) (d : groups) : groups :=
  match d with
  | [] => []
  | (k', v') :: r => if key_eqb k k' then (k', v) :: r else (k', v') :: od_replace k v r
  end.
(* d[k] = v *)
Definition od_set (k : key) (v : list pcomment) (d : groups) : groups :=
  if od_has k d then od_replace k v d else d ++ [(k, v)].
Definition od_del (k : key) (d : groups) : groups :=
  filter (fun kv => negb (key_eqb k (fst kv))) d.
Definition od_move_to_end (k : key) (d : groups) : groups :=
  match od_get k d with
  | Some v => od_del k d ++ [(k, v)]
  | None => d                                   (* KeyError in Python; never reached: k was just read from d *)
  end.

(* ---------- _add_structured_comment_group ---------- *)
(* the reverse search for an existing statement range containing (s, e); [rd] = reversed items *)
Fixpoint find_containing (rd : groups) (s e : Z) : bool :=
  match rd with
  | [] => false
  | (k, _) :: r =>
    if k_call k then find_containing r s e
    else if (k_s k <=? s) && (e <=? k_e k) then true
    else if k_e k <? s then false
    else find_containing r s e
  end.

(* the reverse scan: (keys_to_absorb, keys_to_move), both in the order they are met (= reverse dict order) *)
Fixpoint scan_keys (rd : groups) (base : bool) (s e : Z) : list key * list key :=
  match rd with
  | [] => ([], [])
  | (k, _) :: r =>
    if base && (s <=? k_s k) && (k_e k <=? e) then
      let '(ab, mv) := scan_keys r base s e in
      if k_call k then (ab, k :: mv) else (k :: ab, mv)
    else if s <? k_s k then
      let '(ab, mv) := scan_keys r base s e in (ab, k :: mv)
    else ([], [])
  end.

(* for k in reversed(keys_to_absorb): new_group.extend(d[k]); del d[k]
   ([ng] is the list object bound to d[newk]; when k is newk itself the list is extended by itself) *)
Fixpoint absorb_all (newk : key) (ks : list key) (d : groups) (ng : list pcomment)
    : groups * list pcomment :=
  match ks with
  | [] => (d, ng)
  | k :: r =>
    let v := if key_eqb k newk then ng else match od_get k d with Some v => v | None => [] end in
    absorb_all newk r (od_del k d) (ng ++ v)
  end.

(* returns the new dict; for a Call range the group object is d[Call(s, e)] *)
Definition add_group (d : groups) (base : bool) (s e : Z) : groups :=
  if base && find_containing (rev d) s e then d
  else
    let '(ab, mv) := scan_keys (rev d) base s e in
    let newk := mkK (negb base) s e in
    let d1 := od_set newk [] d in
    let '(d2, ng) := absorb_all newk (rev ab) d1 [] in
    let d3 := fold_left (fun d k => od_move_to_end k d) (rev mv) d2 in
    if od_has newk d3 then od_replace newk ng d3 else d3.

(* group.extend(c for c in comments if should_add(c, group)) — the generator sees the growing list *)
Fixpoint extend_new (g : list pcomment) (cs : list pcomment) : list pcomment :=
  match cs with
  | [] => g
  | c :: r => if directive_like c && negb (pc_mem c g) then extend_new (g ++ [c]) r else extend_new g r
  end.

(* ---------- _process_structured_comments ---------- *)
(* the loop over self._raw_structured_comments.items(); [have] = `group is not None` *)
Fixpoint psc_loop (it : rawmap) (base : bool) (s e : Z) (have : bool) (d : groups) : groups :=
  match it with
  | [] => d
  | (l, cs) :: r =>
    if e <? l then d                                   (* break *)
    else if l <? s then psc_loop r base s e have d     (* continue *)
    else
      let d1 := if negb have || base then add_group d base s e else d in
      let d2 := if base then d1
                else let k := mkK true s e in
                     match od_get k d1 with
                     | Some g => od_replace k (extend_new g cs) d1
                     | None => d1
                     end in
      psc_loop r base s e true d2
  end.

(* ---------- visitor state ---------- *)
Record mcase := mkMC { mc_s : Z; mc_e : Z; mc_name : option N; mc_under : bool; mc_line : Z }.
Record vstate := mkV {
  v_raw : rawmap;
  v_groups : groups;
  v_fr : list (Z * Z);                 (* function_ranges: dict start -> end_lineno *)
  v_blocks : list (Z * Z);             (* block_returns._block_ranges *)
  v_returns : list Z;                  (* block_returns._returns *)
  v_depth : Z;                         (* block_depth *)
  v_defs_start : option Z;
  v_decorators : list (Z * list Z);    (* decorators: def line -> decorator lines (names not modelled) *)
  v_var_annots : list (Z * Z);
  v_param_annots : list (Z * Z);
  v_matches : list (Z * Z * list mcase)
}.

Definition set_groups (v : vstate) (g : groups) : vstate :=
  mkV (v_raw v) g (v_fr v) (v_blocks v) (v_returns v) (v_depth v) (v_defs_start v) (v_decorators v)
      (v_var_annots v) (v_param_annots v) (v_matches v).
Definition set_raw (v : vstate) (r : rawmap) : vstate :=
  mkV r (v_groups v) (v_fr v) (v_blocks v) (v_returns v) (v_depth v) (v_defs_start v) (v_decorators v)
      (v_var_annots v) (v_param_annots v) (v_matches v).
Definition set_depth (v : vstate) (n : Z) : vstate :=
  mkV (v_raw v) (v_groups v) (v_fr v) (v_blocks v) (v_returns v) n (v_defs_start v) (v_decorators v)
      (v_var_annots v) (v_param_annots v) (v_matches v).

Definition psc (v : vstate) (base : bool) (s e : Z) : vstate :=
  set_groups v (psc_loop (v_raw v) base s e false (v_groups v)).

(* plain dict item assignment on int keys *)
Fixpoint zd_has {V} (k : Z) (d : list (Z * V)) : bool :=
  match d with [] => false | (k', _) :: r => (k =? k') || zd_has k r end.
Fixpoint zd_replace {V} (k : Z) (v : V) (d : list (Z * V)) : list (Z * V) :=
  match d with
  | [] => []
  | (k', v') :: r => if k =? k' then (k', v) :: r else (k', v') :: zd_replace k v r
  end.
Definition zd_set {V} (k : Z) (v : V) (d : list (Z * V)) : list (Z * V) :=
  if zd_has k d then zd_replace k v d else d ++ [(k, v)].
Fixpoint zd_get {V} (k : Z) (d : list (Z * V)) : option V :=
  match d with [] => None | (k', v) :: r => if k =? k' then Some v else zd_get k r end.

(* ---------- the mini tree ---------- *)
Inductive pat := PAs (name : option N) (inner : option pat) | POther.
Fixpoint is_underscore (p : pat) : bool :=
  match p with
  | POther => false
  | PAs _ None => true
  | PAs _ (Some q) => is_underscore q
  end.
Definition as_name (p : pat) : option N := match p with PAs n _ => n | POther => None end.

Record fdef := mkF {
  f_lineno : Z; f_end : Z;
  f_returns_end : option Z;            (* node.returns.end_lineno *)
  f_last_arg_end : option Z;           (* node.args.args[-1].end_lineno *)
  f_body_lineno : Z;                   (* node.body[0].lineno *)
  f_decs : list (Z * Z)                (* decorator (lineno, end_lineno) in order *)
}.

Inductive node :=
| NCall (s e : Z) (kids : list node)                 (* Call / Compare / Subscript *)
| NStmt (s e : Z) (kids : list node)                 (* statement handled by generic_visit; for a statement
                                                        with a body, e = end of the field preceding `body` *)
| NAnn (s e : Z) (has_value : bool) (kids : list node)
| NReturn (s e : Z) (kids : list node)
| NTry (types : list (Z * Z)) (kids : list node)     (* handler.type ranges of the handlers that have a type *)
| NWith (s e : Z) (vars_end : option Z) (ctx_end : Z) (kids : list node)   (* of items[-1] *)
| NMatch (s e : Z) (cases : list (Z * Z * pat)) (kids : list node)
| NClass (lineno : Z) (decs : list (Z * Z)) (kids : list node)
| NFunc (f : fdef) (kids : list node).

(* ---------- visit methods ---------- *)
Definition dec_step (lineno : Z) (v : vstate) (d : Z * Z) : vstate :=
  let v1 := psc v true (fst d) (snd d) in
  let old := match zd_get lineno (v_decorators v1) with Some l => l | None => [] end in
  mkV (v_raw v1) (v_groups v1) (v_fr v1) (v_blocks v1) (v_returns v1) (v_depth v1) (v_defs_start v1)
      (zd_set lineno (old ++ [fst d]) (v_decorators v1))
      (v_var_annots v1) (v_param_annots v1) (v_matches v1).
Definition visit_decorators (v : vstate) (lineno : Z) (decs : list (Z * Z)) : vstate :=
  fold_left (dec_step lineno) decs v.

Definition visit_def (v : vstate) (lineno : Z) (decs : list (Z * Z)) : vstate :=
  let v1 := visit_decorators v lineno decs in
  let ds := match v_defs_start v1 with
            | None => Some lineno
            | Some d => if (d =? 0) || (lineno <? d) then Some lineno else Some d    (* `not self.defs_start` *)
            end in
  mkV (v_raw v1) (v_groups v1) (v_fr v1) (v_blocks v1) (v_returns v1) (v_depth v1) ds (v_decorators v1)
      (v_var_annots v1) (v_param_annots v1) (v_matches v1).

(* for i in range(maybe_end, body_lineno): if any(type & open_ended in raw[i]): end = i - 1; break
   else: end = body_lineno - 1.   [n] = number of lines still to look at.  raw[i] touches the defaultdict. *)
Fixpoint sig_end (n : nat) (i body_lineno : Z) (raw : rawmap) : Z * rawmap :=
  match n with
  | O => (body_lineno - 1, raw)
  | S m =>
    let raw1 := raw_touch i raw in
    let cs := match raw_get i raw1 with Some cs => cs | None => [] end in
    if existsb (fun c => is_type_tool c && pc_open c) cs then (i - 1, raw1)
    else sig_end m (i + 1) body_lineno raw1
  end.

Definition min_list (x : Z) (l : list Z) : Z := fold_left Z.min l x.

Definition visit_function_def (v : vstate) (f : fdef) : vstate :=
  let start := f_lineno f in
  let maybe_end := match f_returns_end f with
                   | Some r => r
                   | None => match f_last_arg_end f with Some a => a | None => start end
                   end in
  let '(end_lineno, raw1) :=
    if f_body_lineno f <=? maybe_end then (maybe_end, v_raw v)
    else sig_end (Z.to_nat (f_body_lineno f - maybe_end)) maybe_end (f_body_lineno f) (v_raw v) in
  let v1 := psc (set_raw v raw1) true start end_lineno in
  let v2 := visit_def v1 start (f_decs f) in
  let fstart := match f_decs f with
                | [] => start
                | d :: r => min_list (fst d) (map fst r)
                end in
  mkV (v_raw v2) (v_groups v2) (zd_set fstart (f_end f) (v_fr v2)) (v_blocks v2) (v_returns v2) (v_depth v2)
      (v_defs_start v2) (v_decorators v2) (v_var_annots v2)
      (v_param_annots v2 ++ [(f_lineno f, f_end f)]) (v_matches v2).

Definition enter (v : vstate) (n : node) : vstate :=
  match n with NWith _ _ _ _ _ => set_depth v (v_depth v + 1) | _ => v end.
Definition leave (v : vstate) (n : node) : vstate :=
  match n with NWith _ _ _ _ _ => set_depth v (v_depth v - 1) | _ => v end.

Definition call_visitor (v : vstate) (n : node) : vstate :=
  match n with
  | NCall s e _ => psc v false s e
  | NStmt s e _ => psc v true s e
  | NAnn s e hv _ =>
    if hv then
      let v1 := mkV (v_raw v) (v_groups v) (v_fr v) (v_blocks v) (v_returns v) (v_depth v) (v_defs_start v)
                    (v_decorators v) (v_var_annots v ++ [(s, e)]) (v_param_annots v) (v_matches v) in
      psc v1 true s e
    else v
  | NReturn s e _ =>
    let v1 := mkV (v_raw v) (v_groups v) (v_fr v) (v_blocks v) (v_returns v ++ [s]) (v_depth v)
                  (v_defs_start v) (v_decorators v) (v_var_annots v) (v_param_annots v) (v_matches v) in
    psc v1 true s e
  | NTry types _ => fold_left (fun v t => psc v true (fst t) (snd t)) types v
  | NWith s e vars_end ctx_end _ =>
    let hend := match vars_end with Some x => x | None => ctx_end end in
    let v1 := if v_depth v =? 1
              then mkV (v_raw v) (v_groups v) (v_fr v) (v_blocks v ++ [(s, e)]) (v_returns v) (v_depth v)
                       (v_defs_start v) (v_decorators v) (v_var_annots v) (v_param_annots v) (v_matches v)
              else v in
    psc v1 true s hend
  | NMatch s e cases _ =>
    let cs := map (fun c => match c with (ps, pe, p) => mkMC ps pe (as_name p) (is_underscore p) s end) cases in
    mkV (v_raw v) (v_groups v) (v_fr v) (v_blocks v) (v_returns v) (v_depth v) (v_defs_start v)
        (v_decorators v) (v_var_annots v) (v_param_annots v) (v_matches v ++ [(s, e, cs)])
  | NClass lineno decs _ => visit_def v lineno decs
  | NFunc f _ => visit_function_def v f
  end.

Definition kids_of (n : node) : list node :=
  match n with
  | NCall _ _ k | NStmt _ _ k | NAnn _ _ _ k | NReturn _ _ k | NTry _ k | NWith _ _ _ _ k
  | NMatch _ _ _ k | NClass _ _ k | NFunc _ k => k
  end.

(* BaseVisitor.visit: enter, children, visit_X, leave *)
Fixpoint visit (v : vstate) (n : node) {struct n} : vstate :=
  let v1 := enter v n in
  let v2 := match n with
            | NCall _ _ k | NStmt _ _ k | NAnn _ _ _ k | NReturn _ _ k | NTry _ k | NWith _ _ _ _ k
            | NMatch _ _ _ k | NClass _ _ k | NFunc _ k => fold_left visit k v1
            end in
  leave (call_visitor v2 n) n.

Definition visit_all (v : vstate) (l : list node) : vstate := fold_left visit l v.

(* __init__: one single-line group per raw entry *)
Definition init_state (raw : rawmap) : vstate :=
  mkV raw (map (fun lc => (mkK false (fst lc) (fst lc), snd lc)) raw) [] [] [] 0 None [] [] [] [].

(* visit_src_tree on a Module whose body projects to [body] *)
Definition parse (raw : rawmap) (body : list node) : vstate := visit_all (init_state raw) body.

(* _BlockReturns.finalize: dict start_line -> sorted(returns inside the block) *)
Definition block_returns (v : vstate) : list (Z * list Z) :=
  fold_left (fun d br =>
    zd_set (fst br) (sort_z (filter (fun r => (fst br <=? r) && (r <=? snd br)) (v_returns v))) d)
    (v_blocks v) [].

(* ---------- hand-over to the Director model ---------- *)
Definition to_group (kv : key * list pcomment) : group :=
  mkG (k_call (fst kv)) (k_s (fst kv)) (k_e (fst kv)) (map pc_c (snd kv)).
Definition director_groups (v : vstate) : list group := map to_group (v_groups v).

(* Director built from source: parser model followed by the Director model *)
Definition verdict_src (disable : list N) (raw : rawmap) (body : list node) (e : err) : res (bool * option Z) :=
  let v := parse raw body in
  verdict disable (v_fr v) (v_returns v) (director_groups v) e.
