(* C03 — order invariants of the parser model's group dict (keys distinct, ascending by start line, ranges
   non-empty) and, from them, that no comment is ever lost or duplicated among the statement-range groups. *)
From Coq Require Import ZArith List Bool Arith NArith Lia Sorting.Sorted Sorting.Permutation.
From PV Require Import Directors.Model Directors.Parser Directors.ParserSpec Directors.ParserProofs.
Import ListNotations.
Open Scope Z_scope.

Definition keys (d : groups) : list key := map fst d.
Definition kle (a b : key) : Prop := k_s a <= k_s b.
Definition ksorted (ks : list key) : Prop := StronglySorted kle ks.
Definition kin (k : key) (ks : list key) : bool := existsb (key_eqb k) ks.
Definition wfk (k : key) : Prop := k_s k <= k_e k.

Lemma kin_In : forall k ks, kin k ks = true <-> In k ks.
Proof.
  intros k ks. unfold kin. rewrite existsb_exists. split.
  - intros (x & I & E). apply key_eqb_eq in E. subst. assumption.
  - intros I. exists k. split; [assumption|apply key_eqb_refl].
Qed.
Lemma kin_false : forall k ks, kin k ks = false <-> ~ In k ks.
Proof.
  intros. rewrite <- kin_In. destruct (kin k ks); split; intro H; try congruence; try discriminate.
  all: try (exfalso; apply H; reflexivity).
Qed.

Lemma od_has_kin : forall k d, od_has k d = kin k (keys d).
Proof.
  unfold od_has, kin. induction d as [|[k' v] r IH]; simpl; [reflexivity|].
  destruct (key_eqb k k'); [reflexivity|apply IH].
Qed.

(* ---------- keys after each dict operation ---------- *)
Lemma keys_replace : forall k v d, keys (od_replace k v d) = keys d.
Proof. induction d as [|[k' v'] r IH]; simpl; [reflexivity|]. destruct (key_eqb k k'); simpl; congruence. Qed.
Lemma keys_set : forall k v d, keys (od_set k v d) = if kin k (keys d) then keys d else keys d ++ [k].
Proof.
  intros. unfold od_set. rewrite od_has_kin. destruct (kin k (keys d)); [apply keys_replace|].
  unfold keys. rewrite map_app. reflexivity.
Qed.
Definition kneq (k : key) (k' : key) : bool := negb (key_eqb k k').
Lemma keys_del : forall k d, keys (od_del k d) = filter (kneq k) (keys d).
Proof.
  unfold od_del, kneq. induction d as [|[k' v'] r IH]; simpl; [reflexivity|].
  destruct (key_eqb k k'); simpl; congruence.
Qed.
Lemma keys_move : forall k d, keys (od_move_to_end k d) =
  if kin k (keys d) then filter (kneq k) (keys d) ++ [k] else keys d.
Proof.
  intros. unfold od_move_to_end. rewrite <- od_has_kin. unfold od_has.
  destruct (od_get k d); [|reflexivity]. unfold keys. rewrite map_app. fold (keys (od_del k d)).
  rewrite keys_del. reflexivity.
Qed.

Definition notin (ks : list key) (k' : key) : bool := negb (kin k' ks).

Lemma filter_filter_and : forall {A} (f g : A -> bool) l,
  filter f (filter g l) = filter (fun x => g x && f x) l.
Proof.
  induction l as [|x r IH]; simpl; [reflexivity|]. destruct (g x); simpl; [destruct (f x)|]; congruence.
Qed.
Lemma filter_ext_in' : forall {A} (f g : A -> bool) l, (forall x, In x l -> f x = g x) -> filter f l = filter g l.
Proof.
  induction l as [|x r IH]; simpl; intros H; [reflexivity|].
  rewrite (H x) by auto. rewrite IH by auto. reflexivity.
Qed.

Lemma filter_notin_nil : forall l, filter (notin []) l = l.
Proof. induction l; simpl; congruence. Qed.

Lemma keys_absorb : forall newk ks d ng,
  keys (fst (absorb_all newk ks d ng)) = filter (notin ks) (keys d).
Proof.
  induction ks as [|k r IH]; simpl; intros d ng.
  - symmetry. apply filter_notin_nil.
  - rewrite IH, keys_del, filter_filter_and. apply filter_ext_in'. intros x _.
    unfold notin, kneq, kin. simpl. rewrite (key_eqb_sym x k). rewrite negb_orb. reflexivity.
Qed.

Lemma NoDup_filter' : forall {A} (f : A -> bool) l, NoDup l -> NoDup (filter f l).
Proof.
  induction 1; simpl; [constructor|]. destruct (f x); [|assumption].
  constructor; [|assumption]. intro I. apply filter_In in I as [I _]. contradiction.
Qed.

Lemma keys_fold_move : forall ks d, NoDup ks -> (forall k, In k ks -> In k (keys d)) ->
  keys (fold_left (fun d k => od_move_to_end k d) ks d) = filter (notin ks) (keys d) ++ ks.
Proof.
  induction ks as [|k r IH]; simpl; intros d ND Sub.
  - rewrite app_nil_r. symmetry. apply filter_notin_nil.
  - inversion ND as [|? ? NI ND']; subst.
    assert (Hk : kin k (keys d) = true) by (apply kin_In; auto).
    rewrite IH; [|assumption|].
    + rewrite keys_move, Hk. rewrite filter_app. simpl.
      assert (E : notin r k = true) by (unfold notin; apply negb_true_iff, kin_false; assumption).
      rewrite E. rewrite filter_filter_and. rewrite <- app_assoc. simpl. f_equal.
      apply filter_ext_in'. intros x _. unfold notin, kneq, kin. simpl.
      rewrite (key_eqb_sym x k), negb_orb. reflexivity.
    + intros k' I. rewrite keys_move, Hk. apply in_or_app. left. apply filter_In. split; [auto|].
      unfold kneq. apply negb_true_iff. destruct (key_eqb k k') eqn:E; [|reflexivity].
      apply key_eqb_eq in E. subst. contradiction.
Qed.

(* ---------- the scan ---------- *)
Definition cond1 (base : bool) (s e : Z) (k : key) : bool := base && (s <=? k_s k) && (k_e k <=? e).
Definition taken (base : bool) (s e : Z) (k : key) : bool := cond1 base s e k || (s <? k_s k).
Definition absorbed (base : bool) (s e : Z) (k : key) : bool := cond1 base s e k && negb (k_call k).
Definition notabs (base : bool) (s e : Z) (k : key) : bool := negb (absorbed base s e k).

Fixpoint scanned (rk : list key) (base : bool) (s e : Z) : list key :=
  match rk with
  | [] => []
  | k :: r => if taken base s e k then k :: scanned r base s e else []
  end.

Arguments cond1 : simpl never.
Arguments taken : simpl never.
Arguments absorbed : simpl never.
Arguments notabs : simpl never.

Lemma scan_keys_spec : forall rd base s e,
  scan_keys rd base s e = (filter (absorbed base s e) (scanned (keys rd) base s e),
                           filter (notabs base s e) (scanned (keys rd) base s e)).
Proof.
  induction rd as [|[k v] r IH]; simpl; intros; [reflexivity|].
  fold (keys r). change (base && (s <=? k_s k) && (k_e k <=? e)) with (cond1 base s e k).
  destruct (cond1 base s e k) eqn:C1.
  - assert (TK : taken base s e k = true) by (unfold taken; rewrite C1; reflexivity).
    assert (A : absorbed base s e k = negb (k_call k)) by (unfold absorbed; rewrite C1; reflexivity).
    assert (N : notabs base s e k = k_call k) by (unfold notabs; rewrite A; apply negb_involutive).
    rewrite TK. simpl. rewrite A, N, IH. destruct (k_call k); reflexivity.
  - assert (A : absorbed base s e k = false) by (unfold absorbed; rewrite C1; reflexivity).
    assert (N : notabs base s e k = true) by (unfold notabs; rewrite A; reflexivity).
    assert (TK : taken base s e k = (s <? k_s k)) by (unfold taken; rewrite C1; reflexivity).
    rewrite TK. destruct (s <? k_s k); simpl; [|reflexivity]. rewrite A, N, IH. reflexivity.
Qed.

Lemma scanned_split : forall rk base s e, exists rest,
  rk = scanned rk base s e ++ rest /\ match rest with [] => True | k :: _ => k_s k <= s end.
Proof.
  induction rk as [|k r IH]; simpl; intros.
  - exists []. auto.
  - destruct (taken base s e k) eqn:T.
    + destruct (IH base s e) as (rest & E & H). exists rest. simpl. rewrite <- E. auto.
    + exists (k :: r). split; [reflexivity|]. unfold taken in T. apply orb_false_iff in T as [_ T]. lia.
Qed.

Lemma scanned_ge : forall rk base s e, Forall (fun k => s <= k_s k) (scanned rk base s e).
Proof.
  induction rk as [|k r IH]; simpl; intros; [constructor|].
  destruct (taken base s e k) eqn:T; [|constructor]. constructor; [|apply IH].
  unfold taken, cond1 in T. apply orb_true_iff in T as [T|T]; [|lia].
  apply andb_true_iff in T as [T _]. apply andb_true_iff in T as [_ T]. lia.
Qed.

(* ---------- sortedness helpers ---------- *)
Lemma ksorted_app : forall a b, ksorted a -> ksorted b ->
  (forall x y, In x a -> In y b -> kle x y) -> ksorted (a ++ b).
Proof.
  induction a as [|x r IH]; simpl; intros b A B H; [assumption|].
  inversion A; subst. constructor.
  - apply IH; auto.
  - apply Forall_app. split; [assumption|]. apply Forall_forall. intros y Hy. apply H; auto.
Qed.
Lemma ksorted_app_inv : forall a b, ksorted (a ++ b) ->
  ksorted a /\ ksorted b /\ (forall x y, In x a -> In y b -> kle x y).
Proof.
  induction a as [|x r IH]; simpl; intros b H.
  - split; [constructor|]. split; [assumption|]. intros ? ? [].
  - inversion H; subst. destruct (IH _ H2) as (A & B & C). apply Forall_app in H3 as [F1 F2].
    split; [constructor; assumption|]. split; [assumption|].
    intros x0 y [->|I] Hy; [rewrite Forall_forall in F2; auto | auto].
Qed.
Lemma ksorted_filter : forall f l, ksorted l -> ksorted (filter f l).
Proof.
  induction 1; simpl; [constructor|]. destruct (f a); [|assumption].
  constructor; [assumption|]. apply Forall_forall. intros y Hy. apply filter_In in Hy as [Hy _].
  rewrite Forall_forall in H0. auto.
Qed.
Lemma ksorted_rev_inv : forall x rest, ksorted (rev (x :: rest)) -> forall y, In y rest -> k_s y <= k_s x.
Proof.
  intros x rest H y Hy. simpl in H. apply ksorted_app_inv in H as (_ & _ & C).
  apply C; [apply -> in_rev; assumption | left; reflexivity].
Qed.

Lemma ssorted_snoc : forall {A} (R : A -> A -> Prop) l a,
  StronglySorted R l -> Forall (fun x => R x a) l -> StronglySorted R (l ++ [a]).
Proof.
  induction l as [|x r IH]; simpl; intros a S F; [constructor; constructor|].
  inversion S; subst. inversion F; subst. constructor; [apply IH; assumption|].
  apply Forall_app. split; [assumption|constructor; [assumption|constructor]].
Qed.
Lemma ksorted_rev_desc : forall l, ksorted l -> StronglySorted (fun a b => k_s b <= k_s a) (rev l).
Proof.
  induction 1; simpl; [constructor|]. apply ssorted_snoc; [assumption|].
  apply Forall_rev. exact H0.
Qed.

Lemma NoDup_app_r : forall {A} (a b : list A), NoDup (a ++ b) -> NoDup b.
Proof. induction a; simpl; intros b H; [assumption|]. inversion H; auto. Qed.
Lemma NoDup_app_l : forall {A} (a b : list A), NoDup (a ++ b) -> NoDup a.
Proof.
  induction a; simpl; intros b H; [constructor|]. inversion H; subst. constructor; [|eauto].
  intro I. apply H2. apply in_or_app. auto.
Qed.
Lemma NoDup_app_disj : forall {A} (a b : list A) x, NoDup (a ++ b) -> In x a -> In x b -> False.
Proof.
  induction a; simpl; intros b x H I J; [contradiction|]. inversion H; subst. destruct I as [->|I]; [|eauto].
  apply H2. apply in_or_app. auto.
Qed.

(* ---------- the invariant ---------- *)
Definition tinv (d : groups) : Prop :=
  NoDup (keys d) /\ ksorted (keys d) /\ Forall wfk (keys d).

Lemma keys_rev : forall d, keys (rev d) = rev (keys d).
Proof. intros. unfold keys. apply map_rev. Qed.

Lemma key_eqb_fields : forall c s e k, key_eqb (mkK c s e) k = true -> k_call k = c /\ k_s k = s /\ k_e k = e.
Proof. intros c s e k E. apply key_eqb_eq in E. subst k. auto. Qed.

(* with ascending starts the reverse search cannot miss an existing equal statement range *)
Lemma find_false_new : forall rd s e,
  StronglySorted (fun a b => k_s b <= k_s a) (keys rd) -> Forall wfk (keys rd) ->
  find_containing rd s e = false -> kin (mkK false s e) (keys rd) = false.
Proof.
  induction rd as [|[k v] r IH]; simpl; intros s e S W F; [reflexivity|].
  inversion S as [|? ? S' SF]; subst. inversion W as [|? ? Wk W']; subst.
  destruct (k_call k) eqn:KC.
  - destruct (key_eqb (mkK false s e) k) eqn:E; [destruct (key_eqb_fields _ _ _ _ E); congruence|]. simpl. apply IH; assumption.
  - destruct ((k_s k <=? s) && (e <=? k_e k)) eqn:C; [discriminate|].
    destruct (key_eqb (mkK false s e) k) eqn:E.
    { destruct (key_eqb_fields _ _ _ _ E) as (_ & A & B). rewrite A, B, !Z.leb_refl in C. discriminate. }
    simpl. destruct (k_e k <? s) eqn:C2; [|apply IH; assumption].
    apply kin_false. intro I. rewrite Forall_forall in SF. specialize (SF _ I). simpl in SF.
    unfold wfk in Wk. lia.
Qed.

Section AddGroup.
  Variables (d : groups) (base : bool) (s e : Z).
  Hypothesis T : tinv d.
  Hypothesis Hse : s <= e.
  Let K := mkK (negb base) s e.
  Let sc := scanned (keys (rev d)) base s e.
  Let ab := filter (absorbed base s e) sc.
  Let mv := filter (notabs base s e) sc.

  Lemma sc_rest : exists rest, keys d = rev rest ++ rev sc /\ Forall (fun k => k_s k <= s) rest.
  Proof.
    destruct (scanned_split (keys (rev d)) base s e) as (rest & E & H). fold sc in E.
    exists rest. split.
    - rewrite keys_rev in E. apply (f_equal (@rev key)) in E. rewrite rev_involutive, rev_app_distr in E. exact E.
    - destruct rest as [|x r]; [constructor|]. constructor; [assumption|].
      destruct T as (_ & S & _). rewrite keys_rev in E. apply (f_equal (@rev key)) in E.
      rewrite rev_involutive, rev_app_distr in E. rewrite E in S. apply ksorted_app_inv in S as (S1 & _ & _).
      apply Forall_forall. intros y Hy. pose proof (ksorted_rev_inv x r S1 y Hy). lia.
  Qed.

  Lemma sc_in_d : forall k, In k sc -> In k (keys d).
  Proof.
    intros k I. destruct sc_rest as (rest & E & _). rewrite E. apply in_or_app. right. apply -> in_rev. assumption.
  Qed.
  Lemma sc_nodup : NoDup sc.
  Proof.
    destruct sc_rest as (rest & E & _). destruct T as (N & _ & _). rewrite E in N.
    apply NoDup_app_r in N. apply NoDup_rev in N. rewrite rev_involutive in N. exact N.
  Qed.
  Lemma ab_mv_partition : forall k, In k sc -> In k ab \/ In k mv.
  Proof.
    intros k I. unfold ab, mv, notabs. destruct (absorbed base s e k) eqn:A; [left|right]; apply filter_In; split; auto.
    rewrite A. reflexivity.
  Qed.
  Lemma ab_mv_disjoint : forall k, In k ab -> In k mv -> False.
  Proof.
    intros k A M. apply filter_In in A as [_ A]. apply filter_In in M as [_ M]. unfold notabs in M. rewrite A in M. discriminate.
  Qed.
  Lemma K_not_mv : ~ In K mv.
  Proof.
    intro I. apply filter_In in I as [I N]. unfold notabs, absorbed, cond1 in N. subst K. simpl in N.
    destruct base; simpl in N.
    - rewrite !Z.leb_refl in N. discriminate.
    - (* a call key: it was taken by the strict comparison, impossible for start = s *)
      pose proof (scanned_ge (keys (rev d)) false s e) as G. fold sc in G.
      assert (TK : taken false s e (mkK true s e) = true).
      { clear -I. unfold sc in I. induction (keys (rev d)) as [|k r IH]; simpl in I; [contradiction|].
        destruct (taken false s e k) eqn:TT; [|contradiction]. destruct I as [->|I]; auto. }
      unfold taken, cond1 in TK. simpl in TK. lia.
  Qed.

  (* keys of the result when the range is not found among the statement ranges *)
  Lemma add_group_keys : (base && find_containing (rev d) s e) = false ->
    keys (add_group d base s e) =
    filter (notin (rev mv)) (filter (notin (rev ab)) (if kin K (keys d) then keys d else keys d ++ [K])) ++ rev mv.
  Proof.
    intros NF. unfold add_group. rewrite NF, scan_keys_spec. fold sc. fold ab. fold mv. fold K.
    pose proof (keys_absorb K (rev ab) (od_set K [] d) []) as KA.
    destruct (absorb_all K (rev ab) (od_set K [] d) []) as [d2 ng]. simpl in KA.
    assert (KM : keys (fold_left (fun d k => od_move_to_end k d) (rev mv) d2) =
                 filter (notin (rev mv)) (keys d2) ++ rev mv).
    { apply keys_fold_move.
      - apply NoDup_rev. unfold mv. apply NoDup_filter'. apply sc_nodup.
      - intros k I. apply in_rev in I. rewrite KA. apply filter_In. split.
        + rewrite keys_set. assert (In k (keys d)) by (apply sc_in_d; apply filter_In in I as [I _]; exact I).
          destruct (kin K (keys d)); [assumption|apply in_or_app; auto].
        + unfold notin. apply negb_true_iff, kin_false. intro I2. apply in_rev in I2.
          eapply ab_mv_disjoint; eassumption. }
    rewrite KA, keys_set in KM.
    destruct (od_has K _); [rewrite keys_replace|]; exact KM.
  Qed.

  Lemma notfound_new : base = true -> find_containing (rev d) s e = false -> kin K (keys d) = false.
  Proof.
    intros B F. subst K. rewrite B. simpl. destruct T as (N & S & W).
    pose proof (find_false_new (rev d) s e) as L. rewrite keys_rev in L.
    assert (Q : kin (mkK false s e) (rev (keys d)) = false).
    { apply L; [| |assumption].
      - apply ksorted_rev_desc. assumption.
      - apply Forall_rev. assumption. }
    apply kin_false. apply kin_false in Q. intro I. apply Q. apply -> in_rev. assumption.
  Qed.
End AddGroup.

(* ---------- the invariant is preserved ---------- *)
Lemma filter_rev' : forall {A} (f : A -> bool) l, filter f (rev l) = rev (filter f l).
Proof.
  induction l as [|x r IH]; simpl; [reflexivity|]. rewrite filter_app, IH. simpl.
  destruct (f x); simpl; [reflexivity|apply app_nil_r].
Qed.
Lemma NoDup_app_intro : forall {A} (a b : list A), NoDup a -> NoDup b ->
  (forall x, In x a -> In x b -> False) -> NoDup (a ++ b).
Proof.
  induction a as [|x r IH]; simpl; intros b Ha Hb H; [assumption|]. inversion Ha; subst.
  constructor; [|apply IH; eauto]. intro I. apply in_app_or in I as [I|I]; [contradiction|eauto].
Qed.

Lemma add_group_tinv : forall d base s e, tinv d -> s <= e -> tinv (add_group d base s e).
Proof.
  intros d base s e T Hse.
  destruct (base && find_containing (rev d) s e) eqn:NF.
  { unfold add_group. rewrite NF. assumption. }
  pose proof (add_group_keys d base s e T NF) as KE.
  set (K := mkK (negb base) s e) in *.
  set (sc := scanned (keys (rev d)) base s e) in *.
  set (ab := filter (absorbed base s e) sc) in *.
  set (mv := filter (notabs base s e) sc) in *.
  set (X := if kin K (keys d) then keys d else keys d ++ [K]) in *.
  set (f := fun x => notin (rev ab) x && notin (rev mv) x).
  rewrite filter_filter_and in KE. fold f in KE.
  destruct (sc_rest d base s e T) as (rest & ED & RL). fold sc in ED.
  pose proof T as T0. destruct T as (ND & SD & WD).
  assert (XND : NoDup X).
  { unfold X. destruct (kin K (keys d)) eqn:E; [assumption|].
    apply NoDup_app_intro; [assumption|constructor; [intros []|constructor]|].
    intros x I [<-|[]]. apply kin_false in E. contradiction. }
  assert (Xin : forall x, In x X -> In x (keys d) \/ x = K).
  { unfold X. intros x I. destruct (kin K (keys d)); [auto|]. apply in_app_or in I as [I|[I|[]]]; auto. }
  assert (LOW : forall x, In x (filter f X) -> k_s x <= s).
  { intros x I. apply filter_In in I as [I F]. unfold f in F. apply andb_true_iff in F as [F1 F2].
    unfold notin in F1, F2. apply negb_true_iff in F1, F2. apply kin_false in F1, F2.
    destruct (Xin _ I) as [I2| ->]; [|simpl; lia].
    rewrite ED in I2. apply in_app_or in I2 as [I2|I2].
    - apply in_rev in I2. rewrite Forall_forall in RL. auto.
    - apply in_rev in I2. destruct (ab_mv_partition d base s e x I2) as [Q|Q]; exfalso;
        [apply F1|apply F2]; apply -> in_rev; exact Q. }
  assert (MVsub : forall y, In y (rev mv) -> In y sc) by (intros y I; apply in_rev in I; apply filter_In in I as [I _]; exact I).
  assert (SCS : ksorted (rev sc)) by (rewrite ED in SD; apply ksorted_app_inv in SD as (_ & S2 & _); exact S2).
  unfold tinv. rewrite KE. split; [|split].
  - apply NoDup_app_intro.
    + apply NoDup_filter'. assumption.
    + apply NoDup_rev. unfold mv. apply NoDup_filter'. apply (sc_nodup d base s e). exact T0.
    + intros x I J. apply filter_In in I as [_ F]. unfold f in F. apply andb_true_iff in F as [_ F2].
      unfold notin in F2. apply negb_true_iff, kin_false in F2. contradiction.
  - apply ksorted_app.
    + unfold X. destruct (kin K (keys d)) eqn:E.
      * apply ksorted_filter. assumption.
      * rewrite filter_app. apply ksorted_app.
        -- apply ksorted_filter. assumption.
        -- simpl. destruct (f K); repeat constructor.
        -- intros x y I J. assert (y = K) by (simpl in J; destruct (f K); [destruct J as [<-|[]]; reflexivity|destruct J]).
           subst y. unfold kle. simpl. apply LOW. unfold X. try rewrite E. cbv iota. rewrite filter_app. apply in_or_app. auto.
    + unfold mv. rewrite <- filter_rev'. apply ksorted_filter. assumption.
    + intros x y I J. unfold kle. specialize (LOW _ I).
      pose proof (scanned_ge (keys (rev d)) base s e) as G. fold sc in G. rewrite Forall_forall in G.
      specialize (G _ (MVsub _ J)). lia.
  - apply Forall_app. split.
    + apply Forall_forall. intros x I. apply filter_In in I as [I _]. destruct (Xin _ I) as [I2| ->].
      * rewrite Forall_forall in WD. auto.
      * unfold wfk, K. simpl. exact Hse.
    + apply Forall_forall. intros y J. rewrite Forall_forall in WD. apply WD.
      apply (sc_in_d d base s e T0). fold sc. auto.
Qed.

Lemma tinv_replace : forall k v d, tinv d -> tinv (od_replace k v d).
Proof. intros. unfold tinv. rewrite keys_replace. assumption. Qed.

Lemma psc_loop_tinv : forall it b s e have d, tinv d -> tinv (psc_loop it b s e have d).
Proof.
  induction it as [|[l cs] r IH]; simpl; intros b s e have d T; [assumption|].
  destruct (e <? l) eqn:C1; [assumption|]. destruct (l <? s) eqn:C2; [apply IH; assumption|].
  apply IH.
  assert (T1 : tinv (if negb have || b then add_group d b s e else d)).
  { destruct (negb have || b); [apply add_group_tinv; [assumption|lia]|assumption]. }
  destruct b; [assumption|]. destruct (od_get _ _); [apply tinv_replace|]; assumption.
Qed.

Lemma init_tinv : forall raw, raw_ok raw -> tinv (v_groups (init_state raw)).
Proof.
  intros raw R. simpl. unfold raw_ok in R.
  assert (G : forall r b, raw_sorted_from b r ->
            tinv (map (fun lc => (mkK false (fst lc) (fst lc), snd lc)) r) /\
            Forall (fun k => b < k_s k) (keys (map (fun lc => (mkK false (fst lc) (fst lc), snd lc)) r))).
  { induction r as [|[l cs] r IH]; simpl; intros b H.
    - split; [split; [constructor|split; constructor]|constructor].
    - destruct H as (H1 & _ & H3). destruct (IH _ H3) as [(N & S & W) F]. split.
      + split; [|split].
        * constructor; [|assumption]. intro I. rewrite Forall_forall in F. specialize (F _ I). simpl in F. lia.
        * constructor; [assumption|]. eapply Forall_impl; [|exact F]. unfold kle. simpl. intros; lia.
        * constructor; [unfold wfk; simpl; lia|assumption].
      + constructor; [simpl; assumption|]. eapply Forall_impl; [|exact F]. simpl. intros; lia. }
  apply (G raw 0 R).
Qed.

Theorem parse_tinv : forall raw body, raw_ok raw -> tinv (v_groups (parse raw body)).
Proof.
  intros raw body R. unfold parse, visit_all.
  apply (fold_visit_J tinv); [|apply init_tinv; assumption].
  intros. apply psc_loop_tinv. assumption.
Qed.

(* ====================================================================================================
   no comment is lost or duplicated among the statement-range groups *)
Definition bc (d : groups) : list pcomment :=
  flat_map snd (filter (fun kv => negb (k_call (fst kv))) d).

Lemma bc_cons : forall k v d, bc ((k, v) :: d) = if k_call k then bc d else v ++ bc d.
Proof. intros. unfold bc. simpl. destruct (k_call k); reflexivity. Qed.
Lemma bc_app : forall a b, bc (a ++ b) = bc a ++ bc b.
Proof. intros. unfold bc. rewrite filter_app, flat_map_app. reflexivity. Qed.

Lemma bc_replace_call : forall k v d, k_call k = true -> bc (od_replace k v d) = bc d.
Proof.
  induction d as [|[k' v'] r IH]; simpl; intros KC; [reflexivity|].
  destruct (key_eqb k k') eqn:E.
  - apply key_eqb_eq in E. subst k'. rewrite !bc_cons, KC. reflexivity.
  - rewrite !bc_cons, IH by assumption. reflexivity.
Qed.

Lemma bc_replace_base : forall K v v0 d, k_call K = false -> od_get K d = Some v0 ->
  Permutation (bc (od_replace K v d) ++ v0) (bc d ++ v).
Proof.
  induction d as [|[k' v'] r IH]; simpl; intros KC G; [discriminate|].
  destruct (key_eqb K k') eqn:E.
  - apply key_eqb_eq in E. subst k'. inversion G; subst v'. rewrite !bc_cons, KC.
    rewrite <- !app_assoc. etransitivity; [apply Permutation_app_comm|]. rewrite <- app_assoc.
    apply Permutation_app_swap_app.
  - rewrite !bc_cons. destruct (k_call k'); [apply IH; assumption|].
    rewrite <- !app_assoc. apply Permutation_app_head. apply IH; assumption.
Qed.

Lemma od_del_notin : forall k d, ~ In k (keys d) -> od_del k d = d.
Proof.
  induction d as [|[k' v'] r IH]; simpl; intros N; [reflexivity|].
  destruct (key_eqb k k') eqn:E.
  - apply key_eqb_eq in E. subst. exfalso. apply N. auto.
  - simpl. f_equal. apply IH. intro I. apply N. auto.
Qed.

Lemma bc_del_base : forall k v d, NoDup (keys d) -> od_get k d = Some v -> k_call k = false ->
  Permutation (bc d) (v ++ bc (od_del k d)).
Proof.
  induction d as [|[k' v'] r IH]; simpl; intros N G KC; [discriminate|].
  inversion N as [|? ? NI N']; subst.
  destruct (key_eqb k k') eqn:E; simpl.
  - apply key_eqb_eq in E. subst k'. inversion G; subst v'. rewrite bc_cons, KC.
    fold (od_del k r). rewrite od_del_notin by assumption. reflexivity.
  - fold (od_del k r). rewrite !bc_cons. destruct (k_call k'); [apply IH; assumption|].
    etransitivity; [apply Permutation_app_head; apply IH; assumption|]. apply Permutation_app_swap_app.
Qed.

Lemma bc_del_call : forall k d, k_call k = true -> bc (od_del k d) = bc d.
Proof.
  induction d as [|[k' v'] r IH]; simpl; intros KC; [reflexivity|].
  destruct (key_eqb k k') eqn:E; simpl; fold (od_del k r).
  - apply key_eqb_eq in E. subst k'. rewrite bc_cons, KC. apply IH; assumption.
  - rewrite !bc_cons, IH by assumption. reflexivity.
Qed.

Lemma od_get_none_notin : forall k d, od_get k d = None -> ~ In k (keys d).
Proof. intros k d G. apply kin_false. rewrite <- od_has_kin. unfold od_has. rewrite G. reflexivity. Qed.

Lemma od_get_del_other : forall K k d, key_eqb K k = false -> od_get K (od_del k d) = od_get K d.
Proof.
  induction d as [|[k' v'] r IH]; simpl; intros NE; [reflexivity|].
  destruct (key_eqb k k') eqn:E; simpl; fold (od_del k r).
  - apply key_eqb_eq in E. subst k'. rewrite NE. apply IH; assumption.
  - destruct (key_eqb K k'); [reflexivity|apply IH; assumption].
Qed.
Lemma od_get_app : forall K a b, od_get K (a ++ b) = match od_get K a with Some v => Some v | None => od_get K b end.
Proof. induction a as [|[k' v'] r IH]; simpl; intros; [reflexivity|]. destruct (key_eqb K k'); auto. Qed.
Lemma od_get_move_other : forall K k d, key_eqb K k = false -> od_get K (od_move_to_end k d) = od_get K d.
Proof.
  intros K k d NE. unfold od_move_to_end. destruct (od_get k d) eqn:G; [|reflexivity].
  rewrite od_get_app, od_get_del_other by assumption. simpl. rewrite NE. destruct (od_get K d); reflexivity.
Qed.

Lemma NoDup_keys_del : forall k d, NoDup (keys d) -> NoDup (keys (od_del k d)).
Proof. intros. rewrite keys_del. apply NoDup_filter'. assumption. Qed.
Lemma NoDup_keys_move : forall k d, NoDup (keys d) -> NoDup (keys (od_move_to_end k d)).
Proof.
  intros k d N. rewrite keys_move. destruct (kin k (keys d)); [|assumption].
  apply NoDup_app_intro; [apply NoDup_filter'; assumption | constructor; [intros []|constructor] |].
  intros x I [<-|[]]. apply filter_In in I as [_ I]. unfold kneq in I. rewrite key_eqb_refl in I. discriminate.
Qed.

Lemma bc_move : forall k d, NoDup (keys d) -> Permutation (bc (od_move_to_end k d)) (bc d).
Proof.
  intros k d N. unfold od_move_to_end. destruct (od_get k d) eqn:G; [|reflexivity].
  rewrite bc_app, bc_cons. destruct (k_call k) eqn:KC.
  - rewrite bc_del_call by assumption. simpl. rewrite app_nil_r. reflexivity.
  - unfold bc at 2. simpl. rewrite app_nil_r. etransitivity; [apply Permutation_app_comm|].
    symmetry. apply bc_del_base; assumption.
Qed.

Lemma key_neq_eqb : forall a b, a <> b -> key_eqb a b = false.
Proof. intros a b N. destruct (key_eqb a b) eqn:E; [|reflexivity]. apply key_eqb_eq in E. contradiction. Qed.

Lemma absorb_perm : forall K ks d ng, NoDup (keys d) -> Forall (fun k => k_call k = false) ks -> ~ In K ks ->
  Permutation (bc (fst (absorb_all K ks d ng)) ++ snd (absorb_all K ks d ng)) (bc d ++ ng) /\
  NoDup (keys (fst (absorb_all K ks d ng))) /\
  od_get K (fst (absorb_all K ks d ng)) = od_get K d.
Proof.
  induction ks as [|k r IH]; simpl; intros d ng N F NI; [auto|].
  inversion F as [|? ? KC F']; subst.
  assert (NE : key_eqb k K = false) by (apply key_neq_eqb; intro; subst; apply NI; auto).
  rewrite NE.
  destruct (IH (od_del k d) (ng ++ match od_get k d with Some v => v | None => [] end)
              (NoDup_keys_del _ _ N) F' (fun I => NI (or_intror I))) as (P & N2 & G2).
  split; [|split; [assumption|]].
  - etransitivity; [exact P|]. destruct (od_get k d) as [v|] eqn:G.
    + symmetry. etransitivity; [apply Permutation_app_tail; apply bc_del_base; eassumption|].
      rewrite <- app_assoc. etransitivity; [apply Permutation_app_comm|]. rewrite <- app_assoc. reflexivity.
    + rewrite app_nil_r. rewrite od_del_notin; [reflexivity|]. apply od_get_none_notin. assumption.
  - rewrite G2. apply od_get_del_other. rewrite key_eqb_sym. assumption.
Qed.

Lemma fold_move_perm : forall K ks d, NoDup (keys d) -> ~ In K ks ->
  Permutation (bc (fold_left (fun d k => od_move_to_end k d) ks d)) (bc d) /\
  od_get K (fold_left (fun d k => od_move_to_end k d) ks d) = od_get K d.
Proof.
  induction ks as [|k r IH]; simpl; intros d N NI; [auto|].
  destruct (IH (od_move_to_end k d) (NoDup_keys_move _ _ N) (fun I => NI (or_intror I))) as [P G].
  split.
  - etransitivity; [exact P|]. apply bc_move. assumption.
  - rewrite G. apply od_get_move_other. apply key_neq_eqb. intro; subst. apply NI. auto.
Qed.

Lemma absorbed_call_nil : forall s e l, filter (absorbed false s e) l = [].
Proof. induction l; simpl; [reflexivity|]. unfold absorbed at 1, cond1. simpl. assumption. Qed.

Lemma add_group_perm : forall d base s e, tinv d -> s <= e -> Permutation (bc (add_group d base s e)) (bc d).
Proof.
  intros d base s e T Hse.
  destruct (base && find_containing (rev d) s e) eqn:NF.
  { unfold add_group. rewrite NF. reflexivity. }
  pose proof (K_not_mv d base s e) as KM.
  unfold add_group. rewrite NF, scan_keys_spec.
  set (K := mkK (negb base) s e) in *.
  set (sc := scanned (keys (rev d)) base s e) in *.
  set (ab := filter (absorbed base s e) sc) in *.
  set (mv := filter (notabs base s e) sc) in *.
  destruct T as (ND & SD & WD).
  assert (KMr : ~ In K (rev mv)) by (intro I; apply in_rev in I; contradiction).
  destruct base.
  - (* a statement range: the key is new *)
    assert (NEW : kin K (keys d) = false).
    { apply (notfound_new d true s e); [split; [|split]; assumption|reflexivity|]. simpl in NF. exact NF. }
    assert (D1 : od_set K [] d = d ++ [(K, [])]) by (unfold od_set; rewrite od_has_kin, NEW; reflexivity).
    assert (N1 : NoDup (keys (d ++ [(K, [])]))).
    { unfold keys. rewrite map_app. apply NoDup_app_intro; [assumption|constructor; [intros []|constructor]|].
      intros x I [<-|[]]. apply kin_false in NEW. contradiction. }
    assert (KA : ~ In K (rev ab)).
    { intro I. apply in_rev in I. apply filter_In in I as [I _]. apply kin_false in NEW. apply NEW.
      apply (sc_in_d d true s e); [split; [|split]; assumption|exact I]. }
    assert (FA : Forall (fun k => k_call k = false) (rev ab)).
    { apply Forall_forall. intros x I. apply in_rev in I. apply filter_In in I as [_ A].
      unfold absorbed in A. apply andb_true_iff in A as [_ A]. apply negb_true_iff in A. exact A. }
    rewrite D1.
    destruct (absorb_perm K (rev ab) (d ++ [(K, [])]) [] N1 FA KA) as (P2 & N2 & G2).
    destruct (absorb_all K (rev ab) (d ++ [(K, [])]) []) as [d2 ng]. simpl in P2, N2, G2.
    destruct (fold_move_perm K (rev mv) d2 N2 KMr) as (P3 & G3).
    assert (GK : od_get K (fold_left (fun d k => od_move_to_end k d) (rev mv) d2) = Some []).
    { rewrite G3, G2, od_get_app. rewrite (proj2 (iff_sym (kin_false K (keys d)) ) ) || idtac.
      destruct (od_get K d) eqn:GD.
      - exfalso. apply od_get_In in GD. apply kin_false in NEW. apply NEW. apply in_map_iff. exists (K, l). auto.
      - simpl. rewrite key_eqb_refl. reflexivity. }
    unfold od_has. rewrite GK.
    pose proof (bc_replace_base K ng [] _ eq_refl GK) as P4. rewrite app_nil_r in P4.
    etransitivity; [exact P4|]. etransitivity; [apply Permutation_app_tail; exact P3|].
    etransitivity; [exact P2|]. rewrite app_nil_r, bc_app. unfold bc at 2. simpl. apply app_nil_r_perm || (rewrite app_nil_r; reflexivity).
  - (* a call range: statement groups are only moved *)
    unfold ab. rewrite absorbed_call_nil. simpl.
    assert (B1 : bc (od_set K [] d) = bc d).
    { unfold od_set. destruct (od_has K d); [apply bc_replace_call; reflexivity|].
      rewrite bc_app. unfold bc at 2. simpl. apply app_nil_r. }
    assert (N1 : NoDup (keys (od_set K [] d))).
    { rewrite keys_set. destruct (kin K (keys d)) eqn:E; [assumption|].
      apply NoDup_app_intro; [assumption|constructor; [intros []|constructor]|].
      intros x I [<-|[]]. apply kin_false in E. contradiction. }
    destruct (fold_move_perm K (rev mv) _ N1 KMr) as (P3 & _).
    destruct (od_has K _); [rewrite bc_replace_call by reflexivity|]; rewrite <- B1; exact P3.
Qed.

Definition pinv (C : list pcomment) (d : groups) : Prop := tinv d /\ Permutation (bc d) C.

Lemma psc_loop_pinv : forall C it b s e have d, pinv C d -> pinv C (psc_loop it b s e have d).
Proof.
  induction it as [|[l cs] r IH]; simpl; intros b s e have d P; [assumption|].
  destruct (e <? l) eqn:C1; [assumption|]. destruct (l <? s) eqn:C2; [apply IH; assumption|].
  apply IH.
  assert (P1 : pinv C (if negb have || b then add_group d b s e else d)).
  { destruct (negb have || b); [|assumption]. destruct P as [T Q]. split.
    - apply add_group_tinv; [assumption|lia].
    - etransitivity; [apply add_group_perm; [assumption|lia]|assumption]. }
  destruct b; [assumption|]. destruct (od_get _ _); [|assumption].
  destruct P1 as [T Q]. split; [apply tinv_replace; assumption|].
  rewrite bc_replace_call by reflexivity. assumption.
Qed.

Lemma bc_init : forall raw, bc (v_groups (init_state raw)) = all_comments raw.
Proof.
  intros raw. simpl. unfold all_comments. induction raw as [|[l cs] r IH]; simpl; [reflexivity|].
  rewrite bc_cons. simpl. rewrite IH. reflexivity.
Qed.

Theorem parse_partition : forall raw body, raw_ok raw ->
  Permutation (bc (v_groups (parse raw body))) (all_comments raw).
Proof.
  intros raw body R. unfold parse, visit_all.
  apply (fold_visit_J (pinv (all_comments raw))).
  - intros. apply psc_loop_pinv. assumption.
  - split; [apply init_tinv; assumption|]. rewrite bc_init. reflexivity.
Qed.

(* ---------- consequences ---------- *)
Lemma bc_In : forall c d, In c (bc d) -> exists k v, In (k, v) d /\ k_call k = false /\ In c v.
Proof.
  intros c d H. unfold bc in H. apply in_flat_map in H as ([k v] & H1 & H2).
  apply filter_In in H1 as [H1 H3]. simpl in *. apply negb_true_iff in H3. eauto.
Qed.

(* every comment of the file sits in a statement-range group whose range contains its line *)
Theorem parse_base_containment : forall raw body c, raw_ok raw -> In c (all_comments raw) ->
  exists k v, In (k, v) (v_groups (parse raw body)) /\ k_call k = false /\ In c v /\
              k_s k <= pc_line c <= k_e k.
Proof.
  intros raw body c R I.
  pose proof (parse_partition raw body R) as P. apply Permutation_sym in P.
  apply (Permutation_in _ P) in I. apply bc_In in I as (k & v & I1 & KC & I2).
  exists k, v. repeat split; try assumption; apply (parse_event_lines raw body k v c R I1 I2).
Qed.

(* the same for the Director's input: every comment yields a statement-range event around its line *)
Theorem parse_base_event : forall raw body c, raw_ok raw -> In c (all_comments raw) ->
  exists ev, In ev (events_of (director_groups (parse raw body))) /\ ev_call ev = false /\
             ev_comment ev = pc_c c /\ ev_start ev <= c_line (pc_c c) <= ev_end ev.
Proof.
  intros raw body c R I. destruct (parse_base_containment raw body c R I) as (k & v & I1 & KC & I2 & Rg).
  exists (mkE (k_call k) (k_s k) (k_e k) (pc_c c)). split; [|rewrite KC; auto].
  unfold events_of, director_groups. apply in_flat_map. exists (to_group (k, v)). split.
  - apply in_map. assumption.
  - unfold to_group. simpl. apply in_map. apply in_map. assumption.
Qed.
