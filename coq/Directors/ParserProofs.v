(* C03 — proofs about the parser model (Directors/Parser.v). *)
From Coq Require Import ZArith List Bool Arith NArith Lia.
From PV Require Import Directors.Model Directors.Parser Directors.ParserSpec.
Import ListNotations.
Open Scope Z_scope.

(* ---------- induction over the mini tree ---------- *)
Section NodeInd.
  Variable P : node -> Prop.
  Hypothesis H : forall n, Forall P (kids_of n) -> P n.
  Fixpoint node_ind' (n : node) : P n :=
    let go := fix go (l : list node) : Forall P l :=
      match l with
      | [] => Forall_nil P
      | x :: r => @Forall_cons _ P x r (node_ind' x) (go r)
      end in
    H n (match n return Forall P (kids_of n) with
         | NCall _ _ k | NStmt _ _ k | NAnn _ _ _ k | NReturn _ _ k | NTry _ k | NWith _ _ _ _ k
         | NMatch _ _ _ k | NClass _ _ k | NFunc _ k => go k
         end).
End NodeInd.

Lemma visit_eq : forall v n,
  visit v n = leave (call_visitor (fold_left visit (kids_of n) (enter v n)) n) n.
Proof. intros v n. destruct n; reflexivity. Qed.

(* a statement about every visit lifts to the fold over a list of nodes *)
Lemma fold_visit_ind : forall (Q : vstate -> Prop) l,
  Forall (fun x => forall v, Q v -> Q (visit v x)) l -> forall v, Q v -> Q (fold_left visit l v).
Proof. induction 1; simpl; auto. Qed.

(* ---------- fields the comment machinery never touches ---------- *)
Lemma psc_returns : forall v b s e, v_returns (psc v b s e) = v_returns v.
Proof. reflexivity. Qed.
Lemma psc_fr : forall v b s e, v_fr (psc v b s e) = v_fr v.
Proof. reflexivity. Qed.

Lemma visit_decorators_rf : forall decs v l,
  v_returns (visit_decorators v l decs) = v_returns v /\ v_fr (visit_decorators v l decs) = v_fr v.
Proof.
  unfold visit_decorators. induction decs as [|d r IH]; intros v l; simpl; [auto|].
  destruct (IH (dec_step l v d) l) as [A B]. rewrite A, B. split; reflexivity.
Qed.

Lemma visit_def_rf : forall v l decs,
  v_returns (visit_def v l decs) = v_returns v /\ v_fr (visit_def v l decs) = v_fr v.
Proof. intros. unfold visit_def. simpl. apply visit_decorators_rf. Qed.

Lemma fold_psc_rf : forall (types : list (Z * Z)) v,
  v_returns (fold_left (fun v t => psc v true (fst t) (snd t)) types v) = v_returns v /\
  v_fr (fold_left (fun v t => psc v true (fst t) (snd t)) types v) = v_fr v.
Proof. induction types; intros; simpl; auto. destruct (IHtypes (psc v true (fst a) (snd a))). auto. Qed.

Definition own_return (n : node) : list Z := match n with NReturn s _ _ => [s] | _ => [] end.
Definition own_func (n : node) : list (Z * Z) := match n with NFunc f _ => [(fstart f, f_end f)] | _ => [] end.

Lemma visit_function_def_rf : forall v f,
  v_returns (visit_function_def v f) = v_returns v /\
  v_fr (visit_function_def v f) = zd_set (fstart f) (f_end f) (v_fr v).
Proof.
  intros v f. unfold visit_function_def.
  destruct (if f_body_lineno f <=? _ then _ else _) as [en raw1].
  cbv zeta. cbn [v_returns v_fr]. destruct (visit_def_rf (psc (set_raw v raw1) true (f_lineno f) en) (f_lineno f) (f_decs f)) as [A B].
  rewrite A, B. split; reflexivity.
Qed.

Lemma call_visitor_returns : forall v n, v_returns (call_visitor v n) = v_returns v ++ own_return n.
Proof.
  intros v n. destruct n; simpl; try (rewrite app_nil_r; reflexivity).
  - destruct has_value; simpl; rewrite app_nil_r; reflexivity.
  - reflexivity.
  - rewrite app_nil_r. apply fold_psc_rf.
  - rewrite app_nil_r. destruct (v_depth v =? 1); reflexivity.
  - rewrite app_nil_r. apply visit_def_rf.
  - rewrite app_nil_r. apply visit_function_def_rf.
Qed.

Lemma call_visitor_fr : forall v n,
  v_fr (call_visitor v n) = fold_left (fun d p => zd_set (fst p) (snd p) d) (own_func n) (v_fr v).
Proof.
  intros v n. destruct n; simpl; try reflexivity.
  - destruct has_value; reflexivity.
  - apply fold_psc_rf.
  - destruct (v_depth v =? 1); reflexivity.
  - apply visit_def_rf.
  - apply visit_function_def_rf.
Qed.

Lemma enter_rf : forall v n, v_returns (enter v n) = v_returns v /\ v_fr (enter v n) = v_fr v.
Proof. destruct n; auto. Qed.
Lemma leave_rf : forall v n, v_returns (leave v n) = v_returns v /\ v_fr (leave v n) = v_fr v.
Proof. destruct n; auto. Qed.

Lemma returns_of_eq : forall n, returns_of n = flat_map returns_of (kids_of n) ++ own_return n.
Proof. destruct n; simpl; try rewrite app_nil_r; reflexivity. Qed.
Lemma funcs_of_eq : forall n, funcs_of n = flat_map funcs_of (kids_of n) ++ own_func n.
Proof. destruct n; simpl; try rewrite app_nil_r; reflexivity. Qed.

Lemma visit_returns : forall n v, v_returns (visit v n) = v_returns v ++ returns_of n.
Proof.
  apply (node_ind' (fun n => forall v, v_returns (visit v n) = v_returns v ++ returns_of n)).
  intros n IH v. rewrite visit_eq, returns_of_eq.
  rewrite (proj1 (leave_rf _ _)), call_visitor_returns.
  assert (G : forall l, Forall (fun n => forall v, v_returns (visit v n) = v_returns v ++ returns_of n) l ->
              forall v, v_returns (fold_left visit l v) = v_returns v ++ flat_map returns_of l).
  { induction 1; intros; simpl; [rewrite app_nil_r; reflexivity|]. rewrite IHForall, H, app_assoc. reflexivity. }
  rewrite (G _ IH), (proj1 (enter_rf _ _)), app_assoc. reflexivity.
Qed.

Lemma visit_fr : forall n v,
  v_fr (visit v n) = fold_left (fun d p => zd_set (fst p) (snd p) d) (funcs_of n) (v_fr v).
Proof.
  apply (node_ind' (fun n => forall v, v_fr (visit v n) =
           fold_left (fun d p => zd_set (fst p) (snd p) d) (funcs_of n) (v_fr v))).
  intros n IH v. rewrite visit_eq, funcs_of_eq, fold_left_app.
  rewrite (proj2 (leave_rf _ _)), call_visitor_fr. f_equal.
  assert (G : forall l, Forall (fun n => forall v, v_fr (visit v n) =
                fold_left (fun d p => zd_set (fst p) (snd p) d) (funcs_of n) (v_fr v)) l ->
              forall v, v_fr (fold_left visit l v) =
                fold_left (fun d p => zd_set (fst p) (snd p) d) (flat_map funcs_of l) (v_fr v)).
  { induction 1; intros; simpl; [reflexivity|]. rewrite IHForall, H, fold_left_app. reflexivity. }
  rewrite (G _ IH), (proj2 (enter_rf _ _)). reflexivity.
Qed.

Lemma parse_returns : forall raw body, v_returns (parse raw body) = flat_map returns_of body.
Proof.
  intros. unfold parse, visit_all.
  assert (G : forall l v, v_returns (fold_left visit l v) = v_returns v ++ flat_map returns_of l).
  { induction l; intros; simpl; [rewrite app_nil_r; reflexivity|]. rewrite IHl, visit_returns, app_assoc. reflexivity. }
  rewrite G. reflexivity.
Qed.

Lemma parse_fr : forall raw body, v_fr (parse raw body) = dict_of (flat_map funcs_of body).
Proof.
  intros. unfold parse, visit_all, dict_of.
  assert (G : forall l v, v_fr (fold_left visit l v) =
              fold_left (fun d p => zd_set (fst p) (snd p) d) (flat_map funcs_of l) (v_fr v)).
  { induction l; intros; simpl; [reflexivity|]. rewrite IHl, visit_fr, fold_left_app. reflexivity. }
  rewrite G. reflexivity.
Qed.

(* ====================================================================================================
   the groups: every call-range group is exact, every statement-range group holds comments of its lines *)

Lemma key_eqb_eq : forall a b, key_eqb a b = true -> a = b.
Proof.
  intros [c1 s1 e1] [c2 s2 e2]. unfold key_eqb; simpl. intro H.
  apply andb_true_iff in H as [H H3]. apply andb_true_iff in H as [H1 H2].
  apply Bool.eqb_prop in H1. apply Z.eqb_eq in H2. apply Z.eqb_eq in H3. subst. reflexivity.
Qed.
Lemma key_eqb_refl : forall a, key_eqb a a = true.
Proof. intros [c s e]. unfold key_eqb; simpl. rewrite Bool.eqb_reflx, !Z.eqb_refl. reflexivity. Qed.

Lemma od_get_In : forall k d v, od_get k d = Some v -> In (k, v) d.
Proof.
  induction d as [|[k' v'] r IH]; simpl; intros v H; [discriminate|].
  destruct (key_eqb k k') eqn:E.
  - apply key_eqb_eq in E. inversion H. subst. auto.
  - auto.
Qed.

Section GroupInv.
  Variable raw0 : rawmap.
  Let ok := group_ok raw0.

  Lemma od_replace_ok : forall k v d, Forall ok d -> ok (k, v) -> Forall ok (od_replace k v d).
  Proof.
    induction d as [|[k' v'] r IH]; simpl; intros F O; [constructor|].
    inversion F; subst. destruct (key_eqb k k') eqn:E.
    - apply key_eqb_eq in E. subst. constructor; assumption.
    - constructor; auto.
  Qed.
  Lemma od_set_ok : forall k v d, Forall ok d -> ok (k, v) -> Forall ok (od_set k v d).
  Proof.
    intros. unfold od_set. destruct (od_has k d).
    - apply od_replace_ok; assumption.
    - apply Forall_app. split; [assumption | constructor; [assumption | constructor]].
  Qed.
  Lemma od_del_ok : forall k d, Forall ok d -> Forall ok (od_del k d).
  Proof.
    intros k d F. unfold od_del. apply Forall_forall. intros x Hx. apply filter_In in Hx as [Hx _].
    revert x Hx. apply Forall_forall. assumption.
  Qed.
  Lemma od_move_ok : forall k d, Forall ok d -> Forall ok (od_move_to_end k d).
  Proof.
    intros k d F. unfold od_move_to_end. destruct (od_get k d) eqn:G; [|assumption].
    apply Forall_app. split; [apply od_del_ok; assumption|].
    constructor; [|constructor]. apply od_get_In in G. revert G. apply Forall_forall. assumption.
  Qed.
  Lemma fold_move_ok : forall ks d, Forall ok d -> Forall ok (fold_left (fun d k => od_move_to_end k d) ks d).
  Proof. induction ks; simpl; intros; auto using od_move_ok. Qed.

  (* ---- a statement range ---- *)
  Lemma scan_ab_props : forall rd s e ab mv, scan_keys rd true s e = (ab, mv) ->
    Forall (fun k => k_call k = false /\ s <= k_s k /\ k_e k <= e) ab.
  Proof.
    induction rd as [|[k v] r IH]; simpl; intros s e ab mv H.
    - inversion H. constructor.
    - destruct ((s <=? k_s k) && (k_e k <=? e)) eqn:C.
      + destruct (scan_keys r true s e) as [ab' mv'] eqn:S. specialize (IH _ _ _ _ S).
        destruct (k_call k) eqn:KC; inversion H; subst; [assumption|].
        constructor; [|assumption]. apply andb_true_iff in C as [C1 C2]. split; [assumption|]. lia.
      + destruct (s <? k_s k).
        * destruct (scan_keys r true s e) as [ab' mv'] eqn:S. inversion H; subst. eapply IH; eassumption.
        * inversion H. constructor.
  Qed.

  Definition cin (s e : Z) (c : pcomment) : Prop :=
    in_range s e (pc_line c) = true /\ In c (all_comments raw0).

  Lemma absorb_all_ok : forall newk s e ks d ng,
    Forall ok d -> Forall (cin s e) ng ->
    Forall (fun k => k_call k = false /\ s <= k_s k /\ k_e k <= e) ks ->
    Forall ok (fst (absorb_all newk ks d ng)) /\ Forall (cin s e) (snd (absorb_all newk ks d ng)).
  Proof.
    induction ks as [|k r IH]; simpl; intros d ng F N K; [auto|].
    inversion K as [|? ? [KC [K1 K2]] K']; subst.
    apply IH; [apply od_del_ok; assumption | | assumption].
    apply Forall_app. split; [assumption|].
    destruct (key_eqb k newk); [assumption|].
    destruct (od_get k d) as [v|] eqn:G; [|constructor].
    apply od_get_In in G. assert (O : ok (k, v)) by (revert G; apply Forall_forall; assumption).
    unfold ok, group_ok in O. simpl in O. rewrite KC in O.
    eapply Forall_impl; [|exact O]. intros c [R I]. split; [|assumption].
    unfold in_range in *. apply andb_true_iff in R as [R1 R2]. apply andb_true_iff. split; lia.
  Qed.

  Lemma add_group_base_ok : forall d s e, Forall ok d -> Forall ok (add_group d true s e).
  Proof.
    intros d s e F. unfold add_group. simpl.
    destruct (find_containing (rev d) s e); [assumption|].
    destruct (scan_keys (rev d) true s e) as [ab mv] eqn:S.
    pose proof (scan_ab_props _ _ _ _ _ S) as AB.
    assert (F1 : Forall ok (od_set (mkK false s e) [] d)).
    { apply od_set_ok; [assumption|]. unfold ok, group_ok; simpl. constructor. }
    assert (AB' : Forall (fun k => k_call k = false /\ s <= k_s k /\ k_e k <= e) (rev ab)).
    { apply Forall_forall. intros x Hx. apply in_rev in Hx. revert x Hx. apply Forall_forall. assumption. }
    pose proof (absorb_all_ok (mkK false s e) s e (rev ab) _ [] F1 (Forall_nil _) AB') as [A1 A2].
    destruct (absorb_all (mkK false s e) (rev ab) (od_set (mkK false s e) [] d) []) as [d2 ng].
    simpl in A1, A2.
    pose proof (fold_move_ok (rev mv) d2 A1) as F3.
    destruct (od_has (mkK false s e) _); [|assumption].
    apply od_replace_ok; [assumption|]. unfold ok, group_ok; simpl. exact A2.
  Qed.

  Lemma psc_loop_base_ok : forall it s e have d, Forall ok d -> Forall ok (psc_loop it true s e have d).
  Proof.
    induction it as [|[l cs] r IH]; simpl; intros s e have d F; [assumption|].
    destruct (e <? l); [assumption|]. destruct (l <? s); [apply IH; assumption|].
    apply IH. rewrite orb_true_r. apply add_group_base_ok. assumption.
  Qed.

  (* ---- a call range ---- *)
  Section CallLoop.
    Variables s e : Z.
    Let K := mkK true s e.
    (* the dict holds K exactly once "in front" with value g, everything else is fine *)
    Definition st (g : list pcomment) (d : groups) : Prop :=
      exists a b, d = a ++ (K, g) :: b /\ od_get K a = None /\ Forall ok a /\ Forall ok b.

    Lemma od_get_app_none : forall k a b, od_get k a = None -> od_get k (a ++ b) = od_get k b.
    Proof. induction a as [|[k' v'] r IH]; simpl; intros; [reflexivity|]. destruct (key_eqb k k'); [discriminate|auto]. Qed.
    Lemma od_replace_app_none : forall k v a b, od_get k a = None -> od_replace k v (a ++ b) = a ++ od_replace k v b.
    Proof.
      induction a as [|[k' v'] r IH]; simpl; intros; [reflexivity|].
      destruct (key_eqb k k'); [discriminate|]. f_equal. auto.
    Qed.

    Lemma st_get : forall g d, st g d -> od_get K d = Some g.
    Proof. intros g d (a & b & -> & N & _). rewrite od_get_app_none by assumption. simpl. rewrite key_eqb_refl. reflexivity. Qed.
    Lemma st_replace : forall g g' d, st g d -> st g' (od_replace K g' d).
    Proof.
      intros g g' d (a & b & -> & N & Fa & Fb). exists a, b. split; [|auto].
      rewrite od_replace_app_none by assumption. simpl. rewrite key_eqb_refl. reflexivity.
    Qed.
    Lemma st_ok : forall g d, st g d -> ok (K, g) -> Forall ok d.
    Proof. intros g d (a & b & -> & N & Fa & Fb) O. apply Forall_app. split; [assumption|]. constructor; assumption. Qed.

    Lemma od_get_split : forall k d v, od_get k d = Some v ->
      exists a b, d = a ++ (k, v) :: b /\ od_get k a = None.
    Proof.
      induction d as [|[k' v'] r IH]; simpl; intros v H; [discriminate|].
      destruct (key_eqb k k') eqn:E.
      - apply key_eqb_eq in E. inversion H. subst. exists [], r. auto.
      - destruct (IH _ H) as (a & b & -> & N). exists ((k', v') :: a), b. simpl. rewrite E. auto.
    Qed.

    Lemma od_set_st : forall d, Forall ok d -> st [] (od_set K [] d).
    Proof.
      intros d F. unfold od_set, od_has. destruct (od_get K d) as [v|] eqn:G.
      - destruct (od_get_split _ _ _ G) as (a & b & -> & N).
        apply Forall_app in F as [Fa Fb]. inversion Fb; subst.
        exists a, b. split; [|auto]. rewrite od_replace_app_none by assumption. simpl. rewrite key_eqb_refl. reflexivity.
      - exists d, []. auto.
    Qed.

    Lemma od_get_del_none : forall k k' a, od_get k a = None -> od_get k (od_del k' a) = None.
    Proof.
      induction a as [|[k2 v2] r IH]; simpl; intros H; [reflexivity|].
      destruct (key_eqb k k2) eqn:E; [discriminate|].
      destruct (negb (key_eqb k' k2)); simpl; [rewrite E|]; auto.
    Qed.

    Lemma st_move : forall g d k, st g d -> s < k_s k -> st g (od_move_to_end k d).
    Proof.
      intros g d k S Hk. pose proof S as (a & b & -> & N & Fa & Fb).
      unfold od_move_to_end. destruct (od_get k (a ++ (K, g) :: b)) as [v|] eqn:G; [|assumption].
      assert (NE : key_eqb k K = false).
      { destruct (key_eqb k K) eqn:E; [|reflexivity]. apply key_eqb_eq in E. subst k. simpl in Hk. lia. }
      exists (od_del k a), (od_del k b ++ [(k, v)]). split.
      - unfold od_del. rewrite filter_app. simpl. rewrite NE. simpl. rewrite <- app_assoc. reflexivity.
      - split; [apply od_get_del_none; assumption|]. split; [apply od_del_ok; assumption|].
        apply Forall_app. split; [apply od_del_ok; assumption|]. constructor; [|constructor].
        apply od_get_In in G. apply in_app_or in G as [G|[G|G]].
        + revert G. apply Forall_forall. assumption.
        + inversion G. subst k. rewrite key_eqb_refl in NE. discriminate.
        + revert G. apply Forall_forall. assumption.
    Qed.

    Lemma scan_false : forall rd ab mv, scan_keys rd false s e = (ab, mv) ->
      ab = [] /\ Forall (fun k => s < k_s k) mv.
    Proof.
      induction rd as [|[k v] r IH]; simpl; intros ab mv H.
      - inversion H. auto.
      - destruct (s <? k_s k) eqn:C.
        + destruct (scan_keys r false s e) as [ab' mv'] eqn:S. destruct (IH _ _ eq_refl) as [-> M].
          inversion H; subst. split; [reflexivity|]. constructor; [lia|assumption].
        + inversion H. auto.
    Qed.

    Lemma add_group_call_st : forall d, Forall ok d -> st [] (add_group d false s e).
    Proof.
      intros d F. unfold add_group. simpl.
      destruct (scan_keys (rev d) false s e) as [ab mv] eqn:S.
      destruct (scan_false _ _ _ S) as [-> M]. simpl.
      assert (S3 : st [] (fold_left (fun d k => od_move_to_end k d) (rev mv) (od_set K [] d))).
      { assert (M' : Forall (fun k => s < k_s k) (rev mv)).
        { apply Forall_forall. intros x Hx. apply in_rev in Hx. revert x Hx. apply Forall_forall. assumption. }
        generalize (od_set_st d F). generalize (od_set K [] d). induction M'; simpl; intros d0 S0; [assumption|].
        apply IHM'. apply st_move; assumption. }
      fold K. unfold od_has. rewrite (st_get _ _ S3). apply st_replace with (g := []). assumption.
    Qed.

    (* the comments the loop looks at *)
    Fixpoint vis (it : rawmap) : list pcomment :=
      match it with
      | [] => []
      | (l, cs) :: r => if e <? l then [] else if l <? s then vis r else cs ++ vis r
      end.

    Lemma extend_new_app : forall cs g rest, extend_new g (cs ++ rest) = extend_new (extend_new g cs) rest.
    Proof.
      induction cs as [|c r IH]; simpl; intros; [reflexivity|].
      destruct (directive_like c && negb (pc_mem c g)); apply IH.
    Qed.

    Lemma loop_have : forall it g d, st g d -> st (extend_new g (vis it)) (psc_loop it false s e true d).
    Proof.
      induction it as [|[l cs] r IH]; simpl; intros g d S; [assumption|].
      destruct (e <? l); [assumption|]. destruct (l <? s); [apply IH; assumption|]. simpl.
      fold K. rewrite (st_get _ _ S). rewrite extend_new_app. apply IH. apply st_replace with (g := g). assumption.
    Qed.

    Lemma loop_nohave : forall it d, Forall ok d ->
      psc_loop it false s e false d = d \/ st (extend_new [] (vis it)) (psc_loop it false s e false d).
    Proof.
      induction it as [|[l cs] r IH]; simpl; intros d F; [auto|].
      destruct (e <? l); [auto|]. destruct (l <? s); [apply IH; assumption|]. simpl. right.
      pose proof (add_group_call_st d F) as S. fold K. rewrite (st_get _ _ S).
      rewrite extend_new_app. apply loop_have. apply st_replace with (g := []). assumption.
    Qed.

    Lemma sorted_above : forall r b, raw_sorted_from b r -> Forall (fun lc => b < fst lc) r.
    Proof.
      induction r as [|[l cs] r IH]; simpl; intros b H; [constructor|].
      destruct H as (H1 & _ & H3). constructor; [assumption|].
      eapply Forall_impl; [|apply IH; exact H3]. simpl. intros; lia.
    Qed.

    Lemma vis_sorted : forall r0 b t, raw_sorted_from b r0 -> Forall (fun lc => snd lc = []) t ->
      vis (r0 ++ t) = flat_map snd (filter (fun lc => in_range s e (fst lc)) r0).
    Proof.
      induction r0 as [|[l cs] r IH]; simpl; intros b t H T.
      - induction T as [|[l cs] t Hx T IHT]; simpl; [reflexivity|]. simpl in Hx. subst cs.
        destruct (e <? l); [reflexivity|]. destruct (l <? s); assumption.
      - destruct H as (H1 & _ & H3). unfold in_range at 1. simpl.
        destruct (e <? l) eqn:C1.
        + assert (Z : (l <=? e) = false) by lia. rewrite Z, andb_false_r.
          pose proof (sorted_above _ _ H3) as A. clear IH H3.
          induction r as [|[l2 c2] r IHr]; simpl; [reflexivity|]. inversion A; subst. simpl in *.
          unfold in_range. simpl. assert (Z2 : (l2 <=? e) = false) by lia. rewrite Z2, andb_false_r. auto.
        + destruct (l <? s) eqn:C2.
          * assert (Z : (s <=? l) = false) by lia. rewrite Z. simpl. eapply IH; eassumption.
          * assert (Z : (s <=? l) = true) by lia. assert (Z2 : (l <=? e) = true) by lia. rewrite Z, Z2. simpl.
            f_equal. eapply IH; eassumption.
    Qed.

    Lemma psc_loop_call_ok : forall t d, raw_ok raw0 -> Forall (fun lc => snd lc = []) t ->
      Forall ok d -> Forall ok (psc_loop (raw0 ++ t) false s e false d).
    Proof.
      intros t d R T F. destruct (loop_nohave (raw0 ++ t) d F) as [E|S]; [rewrite E; assumption|].
      eapply st_ok; [exact S|]. unfold ok, group_ok. simpl. unfold call_content.
      rewrite (vis_sorted raw0 0 t R T). reflexivity.
    Qed.
  End CallLoop.

  (* ---- the visitor ---- *)
  Definition inv (v : vstate) : Prop :=
    (exists t, v_raw v = raw0 ++ t /\ Forall (fun lc => snd lc = []) t) /\ Forall ok (v_groups v).

  Hypothesis Hraw : raw_ok raw0.

  Lemma psc_inv : forall v b s e, inv v -> inv (psc v b s e).
  Proof.
    intros v b s e [(t & R & T) F]. split; [exists t; auto|]. unfold psc. simpl. rewrite R.
    destruct b; [apply psc_loop_base_ok; assumption | apply psc_loop_call_ok; assumption].
  Qed.

  Lemma touch_ext : forall l raw, (exists t, raw = raw0 ++ t /\ Forall (fun lc => snd lc = []) t) ->
    exists t, raw_touch l raw = raw0 ++ t /\ Forall (fun lc => snd lc = []) t.
  Proof.
    intros l raw (t & -> & T). unfold raw_touch. destruct (raw_get l (raw0 ++ t)); [eauto|].
    exists (t ++ [(l, [])]). rewrite app_assoc. split; [reflexivity|]. apply Forall_app. split; [assumption|].
    constructor; [reflexivity|constructor].
  Qed.

  Lemma sig_end_ext : forall n i b raw, (exists t, raw = raw0 ++ t /\ Forall (fun lc => snd lc = []) t) ->
    exists t, snd (sig_end n i b raw) = raw0 ++ t /\ Forall (fun lc => snd lc = []) t.
  Proof.
    induction n; simpl; intros i b raw H; [assumption|].
    destruct (existsb _ _); simpl; [apply touch_ext; assumption|]. apply IHn. apply touch_ext. assumption.
  Qed.

  Lemma inv_same : forall v v', v_raw v' = v_raw v -> v_groups v' = v_groups v -> inv v -> inv v'.
  Proof. intros v v' R G I. unfold inv. rewrite R, G. exact I. Qed.

  Lemma dec_step_inv : forall l v d, inv v -> inv (dec_step l v d).
  Proof. intros. unfold dec_step. eapply inv_same; [| |apply psc_inv; eassumption]; reflexivity. Qed.
  Lemma visit_decorators_inv : forall decs v l, inv v -> inv (visit_decorators v l decs).
  Proof. unfold visit_decorators. induction decs; simpl; intros; auto using dec_step_inv. Qed.
  Lemma visit_def_inv : forall v l decs, inv v -> inv (visit_def v l decs).
  Proof. intros. unfold visit_def. eapply inv_same; [| |apply visit_decorators_inv; eassumption]; reflexivity. Qed.

  Lemma visit_function_def_inv : forall v f, inv v -> inv (visit_function_def v f).
  Proof.
    intros v f I. unfold visit_function_def.
    destruct (if f_body_lineno f <=? _ then _ else _) as [en raw1] eqn:E.
    assert (I1 : inv (set_raw v raw1)).
    { destruct I as [X F]. split; [|exact F]. simpl.
      destruct (f_body_lineno f <=? _).
      - inversion E; subst. exact X.
      - match type of E with sig_end ?n ?i ?b ?r = _ => pose proof (sig_end_ext n i b r X) as Y end.
        rewrite E in Y. exact Y. }
    cbv zeta. eapply inv_same; [| |apply visit_def_inv; apply psc_inv; exact I1]; reflexivity.
  Qed.

  Lemma fold_psc_inv : forall (types : list (Z * Z)) v, inv v ->
    inv (fold_left (fun v t => psc v true (fst t) (snd t)) types v).
  Proof. induction types; simpl; intros; auto using psc_inv. Qed.

  Lemma call_visitor_inv : forall v n, inv v -> inv (call_visitor v n).
  Proof.
    intros v n I. destruct n; simpl.
    - apply psc_inv; assumption.
    - apply psc_inv; assumption.
    - destruct has_value; [|assumption]. apply psc_inv. eapply inv_same; [| |exact I]; reflexivity.
    - apply psc_inv. eapply inv_same; [| |exact I]; reflexivity.
    - apply fold_psc_inv; assumption.
    - apply psc_inv. destruct (v_depth v =? 1); [|assumption]. eapply inv_same; [| |exact I]; reflexivity.
    - eapply inv_same; [| |exact I]; reflexivity.
    - apply visit_def_inv; assumption.
    - apply visit_function_def_inv; assumption.
  Qed.

  Lemma enter_inv : forall v n, inv v -> inv (enter v n).
  Proof. intros v n I. destruct n; exact I. Qed.
  Lemma leave_inv : forall v n, inv v -> inv (leave v n).
  Proof. intros v n I. destruct n; exact I. Qed.

  Lemma visit_inv : forall n v, inv v -> inv (visit v n).
  Proof.
    apply (node_ind' (fun n => forall v, inv v -> inv (visit v n))).
    intros n IH v I. rewrite visit_eq. apply leave_inv, call_visitor_inv.
    apply (fold_visit_ind inv _ IH). apply enter_inv. assumption.
  Qed.

  Lemma init_inv : inv (init_state raw0).
  Proof.
    split; [exists []; rewrite app_nil_r; auto|]. simpl.
    assert (G : forall r b, raw_sorted_from b r -> (forall c, In c (all_comments r) -> In c (all_comments raw0)) ->
              Forall ok (map (fun lc => (mkK false (fst lc) (fst lc), snd lc)) r)).
    { induction r as [|[l cs] r IH]; simpl; intros b0 Hs Sub; [constructor|].
      destruct Hs as (H1 & H2 & H3). constructor.
      - unfold ok, group_ok. simpl. apply Forall_forall. intros c Hc. split.
        + rewrite Forall_forall in H2. rewrite (H2 _ Hc). unfold in_range. lia.
        + apply Sub. apply in_or_app. auto.
      - eapply IH; [exact H3|]. intros c Hc. apply Sub. apply in_or_app. auto. }
    eapply (G raw0 0); [exact Hraw | auto].
  Qed.

  Lemma parse_inv : forall body, inv (parse raw0 body).
  Proof.
    intros body. unfold parse, visit_all.
    apply (fold_visit_ind inv); [|apply init_inv].
    apply Forall_forall. intros n _ v I. apply visit_inv. assumption.
  Qed.
End GroupInv.

Theorem parse_groups_ok : forall raw body, raw_ok raw -> Forall (group_ok raw) (v_groups (parse raw body)).
Proof. intros raw body H. apply (parse_inv raw H body). Qed.

(* ---------- consequences for the Director's input ---------- *)
Lemma extend_new_In : forall cs g c, In c (extend_new g cs) -> In c g \/ (In c cs /\ directive_like c = true).
Proof.
  induction cs as [|x r IH]; simpl; intros g c H; [auto|].
  destruct (directive_like x && negb (pc_mem x g)) eqn:E.
  - apply IH in H as [H|[H D]]; [|auto]. apply in_app_or in H as [H|[H|[]]]; [auto|]. subst x.
    apply andb_true_iff in E as [E _]. auto.
  - apply IH in H as [H|[H D]]; auto.
Qed.

Lemma raw_lines : forall r b l cs c, raw_sorted_from b r -> In (l, cs) r -> In c cs -> pc_line c = l.
Proof.
  induction r as [|[l0 cs0] r IH]; simpl; intros b l cs c H I C; [contradiction|].
  destruct H as (_ & H2 & H3). destruct I as [I|I].
  - inversion I; subst. rewrite Forall_forall in H2. auto.
  - eapply IH; eassumption.
Qed.

Lemma call_content_props : forall raw s e c, raw_ok raw -> In c (call_content raw s e) ->
  in_range s e (pc_line c) = true /\ directive_like c = true /\ In c (all_comments raw).
Proof.
  intros raw s e c R H. unfold call_content in H. apply extend_new_In in H as [[]|[H D]].
  apply in_flat_map in H as ([l cs] & H1 & H2). apply filter_In in H1 as [H1 H3]. simpl in *.
  rewrite (raw_lines _ _ _ _ _ R H1 H2). split; [assumption|]. split; [assumption|].
  unfold all_comments. apply in_flat_map. exists (l, cs). auto.
Qed.

Lemma parse_event_lines : forall raw body k v c, raw_ok raw ->
  In (k, v) (v_groups (parse raw body)) -> In c v ->
  k_s k <= pc_line c <= k_e k /\ In c (all_comments raw) /\ (k_call k = true -> directive_like c = true).
Proof.
  intros raw body k v c R I C.
  pose proof (parse_groups_ok raw body R) as F. rewrite Forall_forall in F. specialize (F _ I).
  unfold group_ok in F. simpl in F. destruct (k_call k) eqn:KC.
  - subst v. apply call_content_props in C as (A & B & D); [|assumption].
    unfold in_range in A. apply andb_true_iff in A as [A1 A2]. split; [lia|]. auto.
  - rewrite Forall_forall in F. destruct (F _ C) as [A B].
    unfold in_range in A. apply andb_true_iff in A as [A1 A2]. split; [lia|]. split; [assumption|discriminate].
Qed.

(* the flattened (range, comment) events the Director model consumes *)
Lemma parse_director_events : forall raw body ev, raw_ok raw ->
  In ev (events_of (director_groups (parse raw body))) ->
  ev_start ev <= c_line (ev_comment ev) <= ev_end ev /\
  (ev_call ev = true -> c_open (ev_comment ev) = false /\ c_body (ev_comment ev) <> TypeOther).
Proof.
  intros raw body ev R H. unfold events_of, director_groups in H.
  apply in_flat_map in H as (g & Hg & He). apply in_map_iff in Hg as ([k v] & <- & Hkv).
  unfold to_group in He. simpl in He. apply in_map_iff in He as (c0 & <- & Hc). simpl.
  apply in_map_iff in Hc as (pc & <- & Hpc).
  destruct (parse_event_lines raw body k v pc R Hkv Hpc) as (A & _ & D). split; [exact A|].
  intro KC. specialize (D KC). unfold directive_like, pc_open in D. apply andb_true_iff in D as [D1 D2].
  split; [destruct (c_open (pc_c pc)); [discriminate|reflexivity]|].
  destruct (c_body (pc_c pc)); [discriminate|discriminate|discriminate].
Qed.

(* ====================================================================================================
   a call range with a comment line inside it gets a group, and keeps it *)

(* any property of the groups that every _process_structured_comments call preserves survives the visit *)
Section GroupsPreserved.
  Variable J : groups -> Prop.
  Hypothesis Hpsc : forall raw d b s e, J d -> J (psc_loop raw b s e false d).
  Let Jv (v : vstate) := J (v_groups v).

  Lemma psc_J : forall v b s e, Jv v -> Jv (psc v b s e).
  Proof. intros. unfold Jv, psc. simpl. apply Hpsc. assumption. Qed.
  Lemma visit_decorators_J : forall decs v l, Jv v -> Jv (visit_decorators v l decs).
  Proof.
    unfold visit_decorators. induction decs; simpl; intros; [assumption|]. apply IHdecs.
    unfold dec_step. apply (psc_J v true (fst a) (snd a)). assumption.
  Qed.
  Lemma visit_def_J : forall v l decs, Jv v -> Jv (visit_def v l decs).
  Proof. intros. unfold visit_def. apply (visit_decorators_J decs v l). assumption. Qed.
  Lemma visit_function_def_J : forall v f, Jv v -> Jv (visit_function_def v f).
  Proof.
    intros v f I. unfold visit_function_def.
    destruct (if f_body_lineno f <=? _ then _ else _) as [en raw1]. cbv zeta.
    apply (visit_def_J (psc (set_raw v raw1) true (f_lineno f) en) (f_lineno f) (f_decs f)).
    apply psc_J. exact I.
  Qed.
  Lemma fold_psc_J : forall (types : list (Z * Z)) v, Jv v ->
    Jv (fold_left (fun v t => psc v true (fst t) (snd t)) types v).
  Proof. induction types; simpl; intros; auto using psc_J. Qed.
  Lemma call_visitor_J : forall v n, Jv v -> Jv (call_visitor v n).
  Proof.
    intros v n I. destruct n; simpl.
    - apply psc_J; assumption.
    - apply psc_J; assumption.
    - destruct has_value; [|assumption]. apply psc_J. exact I.
    - apply psc_J. exact I.
    - apply fold_psc_J; assumption.
    - apply psc_J. destruct (v_depth v =? 1); exact I.
    - exact I.
    - apply visit_def_J; assumption.
    - apply visit_function_def_J; assumption.
  Qed.
  Lemma visit_J : forall n v, Jv v -> Jv (visit v n).
  Proof.
    apply (node_ind' (fun n => forall v, Jv v -> Jv (visit v n))).
    intros n IH v I. rewrite visit_eq.
    assert (L : forall v n, Jv v -> Jv (leave v n)) by (intros ? []; auto).
    assert (E : forall v n, Jv v -> Jv (enter v n)) by (intros ? []; auto).
    apply L, call_visitor_J. apply (fold_visit_ind Jv _ IH). apply E. assumption.
  Qed.
  Lemma fold_visit_J : forall l v, Jv v -> Jv (fold_left visit l v).
  Proof. induction l; simpl; intros; auto using visit_J. Qed.
End GroupsPreserved.

Lemma od_has_app : forall k a b, od_has k (a ++ b) = od_has k a || od_has k b.
Proof.
  unfold od_has. induction a as [|[k' v'] r IH]; simpl; intros; [reflexivity|].
  destruct (key_eqb k k'); [reflexivity|apply IH].
Qed.
Lemma od_has_replace : forall K k v d, od_has K (od_replace k v d) = od_has K d.
Proof.
  unfold od_has. induction d as [|[k' v'] r IH]; simpl; [reflexivity|].
  destruct (key_eqb k k'); simpl; destruct (key_eqb K k'); auto.
Qed.
Lemma od_has_set : forall K k v d, od_has K d = true -> od_has K (od_set k v d) = true.
Proof.
  intros. unfold od_set. destruct (od_has k d); [rewrite od_has_replace; assumption|].
  rewrite od_has_app, H. reflexivity.
Qed.
Lemma key_eqb_sym : forall a b, key_eqb a b = key_eqb b a.
Proof.
  intros a b. destruct (key_eqb a b) eqn:E.
  - apply key_eqb_eq in E. subst. symmetry. apply key_eqb_refl.
  - destruct (key_eqb b a) eqn:E2; [|reflexivity]. apply key_eqb_eq in E2. subst.
    rewrite key_eqb_refl in E. discriminate.
Qed.
Lemma od_has_del : forall K k d, key_eqb K k = false -> od_has K (od_del k d) = od_has K d.
Proof.
  unfold od_has, od_del. induction d as [|[k' v'] r IH]; simpl; intros NE; [reflexivity|].
  destruct (key_eqb k k') eqn:E; simpl.
  - apply key_eqb_eq in E. subst k'. rewrite NE. auto.
  - destruct (key_eqb K k'); auto.
Qed.
Lemma od_has_move : forall K k d, od_has K d = true -> od_has K (od_move_to_end k d) = true.
Proof.
  intros K k d H. unfold od_move_to_end. destruct (od_get k d) eqn:G; [|assumption].
  rewrite od_has_app. destruct (key_eqb K k) eqn:E.
  - unfold od_has at 2. simpl. rewrite E. apply orb_true_r.
  - rewrite od_has_del, H by assumption. reflexivity.
Qed.
Lemma fold_move_has : forall K ks d, od_has K d = true ->
  od_has K (fold_left (fun d k => od_move_to_end k d) ks d) = true.
Proof. induction ks; simpl; intros; auto using od_has_move. Qed.

Lemma scan_ab_base : forall rd base s e ab mv, scan_keys rd base s e = (ab, mv) ->
  Forall (fun k => k_call k = false) ab.
Proof.
  induction rd as [|[k v] r IH]; simpl; intros base s e ab mv H.
  - inversion H. constructor.
  - destruct (base && (s <=? k_s k) && (k_e k <=? e)).
    + destruct (scan_keys r base s e) as [ab' mv'] eqn:S. specialize (IH _ _ _ _ _ S).
      destruct (k_call k) eqn:KC; inversion H; subst; [assumption|]. constructor; assumption.
    + destruct (s <? k_s k).
      * destruct (scan_keys r base s e) as [ab' mv'] eqn:S. inversion H; subst. eapply IH; eassumption.
      * inversion H. constructor.
Qed.

Lemma absorb_all_has : forall K newk ks d ng, k_call K = true ->
  Forall (fun k => k_call k = false) ks -> od_has K d = true ->
  od_has K (fst (absorb_all newk ks d ng)) = true.
Proof.
  induction ks as [|k r IH]; simpl; intros d ng KC F H; [assumption|].
  inversion F; subst. apply IH; [assumption|assumption|].
  rewrite od_has_del; [assumption|].
  destruct (key_eqb K k) eqn:E; [|reflexivity]. apply key_eqb_eq in E. subst. congruence.
Qed.

Lemma add_group_has : forall K d b s e, k_call K = true -> od_has K d = true -> od_has K (add_group d b s e) = true.
Proof.
  intros K d b s e KC H. unfold add_group.
  destruct (b && find_containing (rev d) s e); [assumption|].
  destruct (scan_keys (rev d) b s e) as [ab mv] eqn:S.
  pose proof (scan_ab_base _ _ _ _ _ _ S) as AB.
  assert (AB' : Forall (fun k => k_call k = false) (rev ab)).
  { apply Forall_forall. intros x Hx. apply in_rev in Hx. revert x Hx. apply Forall_forall. assumption. }
  pose proof (absorb_all_has K (mkK (negb b) s e) (rev ab) (od_set (mkK (negb b) s e) [] d) [] KC AB'
                (od_has_set _ _ _ _ H)) as A.
  destruct (absorb_all (mkK (negb b) s e) (rev ab) (od_set (mkK (negb b) s e) [] d) []) as [d2 ng].
  simpl in A. pose proof (fold_move_has K (rev mv) d2 A) as M.
  destruct (od_has (mkK (negb b) s e) _); [rewrite od_has_replace|]; assumption.
Qed.

Lemma psc_loop_has : forall K it b s e have d, k_call K = true -> od_has K d = true ->
  od_has K (psc_loop it b s e have d) = true.
Proof.
  induction it as [|[l cs] r IH]; simpl; intros b s e have d KC H; [assumption|].
  destruct (e <? l); [assumption|]. destruct (l <? s); [apply IH; assumption|].
  apply IH; [assumption|].
  assert (H1 : od_has K (if negb have || b then add_group d b s e else d) = true).
  { destruct (negb have || b); [apply add_group_has|]; assumption. }
  destruct b; [assumption|].
  destruct (od_get (mkK true s e) _); [rewrite od_has_replace|]; assumption.
Qed.

Section CallExists.
  Variables s e : Z.
  Let K := mkK true s e.

  Lemma add_group_call_creates : forall d, od_has K (add_group d false s e) = true.
  Proof.
    intros d. unfold add_group. simpl.
    destruct (scan_keys (rev d) false s e) as [ab mv] eqn:S.
    destruct (scan_false s e _ _ _ S) as [-> M]. simpl.
    assert (H0 : od_has K (od_set K [] d) = true).
    { unfold od_set. destruct (od_has K d) eqn:E; [rewrite od_has_replace; assumption|].
      rewrite od_has_app. unfold od_has at 2. simpl. rewrite key_eqb_refl. apply orb_true_r. }
    pose proof (fold_move_has K (rev mv) _ H0) as M2. fold K. fold K in M2.
    rewrite M2. rewrite od_has_replace. assumption.
  Qed.

  Fixpoint reach (it : rawmap) : bool :=
    match it with
    | [] => false
    | (l, _) :: r => if e <? l then false else if l <? s then reach r else true
    end.

  Lemma loop_creates : forall it d, reach it = true -> od_has K (psc_loop it false s e false d) = true.
  Proof.
    induction it as [|[l cs] r IH]; simpl; intros d H; [discriminate|].
    destruct (e <? l); [discriminate|]. destruct (l <? s); [apply IH; assumption|]. simpl.
    apply psc_loop_has; [reflexivity|].
    pose proof (add_group_call_creates d) as A. fold K.
    destruct (od_get K (add_group d false s e)); [rewrite od_has_replace|]; assumption.
  Qed.

  Lemma reach_sorted : forall r0 b t l cs, raw_sorted_from b r0 -> In (l, cs) r0 -> in_range s e l = true ->
    reach (r0 ++ t) = true.
  Proof.
    induction r0 as [|[l0 cs0] r IH]; simpl; intros b t l cs H I R; [contradiction|].
    destruct H as (H1 & _ & H3). unfold in_range in R. apply andb_true_iff in R as [R1 R2].
    destruct I as [I|I].
    - inversion I; subst. assert (Z1 : (e <? l) = false) by lia. assert (Z2 : (l <? s) = false) by lia.
      rewrite Z1, Z2. reflexivity.
    - pose proof (sorted_above _ _ H3) as A. rewrite Forall_forall in A. specialize (A _ I). simpl in A.
      assert (Z1 : (e <? l0) = false) by lia. rewrite Z1. destruct (l0 <? s); [|reflexivity].
      eapply IH; [exact H3 | exact I |]. unfold in_range. apply andb_true_iff. split; assumption.
  Qed.
End CallExists.

Lemma own_call_eq : forall n, calls_of n = flat_map calls_of (kids_of n) ++ match n with NCall s e _ => [(s, e)] | _ => [] end.
Proof. destruct n; simpl; try rewrite app_nil_r; reflexivity. Qed.

Lemma visit_creates_call : forall raw0 s e l cs, raw_ok raw0 -> In (l, cs) raw0 -> in_range s e l = true ->
  forall n v, inv raw0 v -> In (s, e) (calls_of n) -> od_has (mkK true s e) (v_groups (visit v n)) = true.
Proof.
  intros raw0 s e l cs R I Rg.
  set (J := fun d => od_has (mkK true s e) d = true).
  assert (HJ : forall raw d b s' e', J d -> J (psc_loop raw b s' e' false d)).
  { intros. apply psc_loop_has; [reflexivity|assumption]. }
  apply (node_ind' (fun n => forall v, inv raw0 v -> In (s, e) (calls_of n) ->
                              od_has (mkK true s e) (v_groups (visit v n)) = true)).
  intros n IH v Iv C. rewrite visit_eq. rewrite own_call_eq in C. apply in_app_or in C as [C|C].
  - assert (L : forall v n, J (v_groups v) -> J (v_groups (leave v n))) by (intros ? []; auto).
    apply L. apply (call_visitor_J J HJ).
    assert (G : forall ks, Forall (fun n => forall v, inv raw0 v -> In (s, e) (calls_of n) ->
                   od_has (mkK true s e) (v_groups (visit v n)) = true) ks ->
                forall v, inv raw0 v -> In (s, e) (flat_map calls_of ks) -> J (v_groups (fold_left visit ks v))).
    { induction 1 as [|x r Hx Hr IHr]; simpl; intros v0 I0 C0; [contradiction|].
      apply in_app_or in C0 as [C0|C0].
      - apply (fold_visit_J J HJ). apply Hx; assumption.
      - apply IHr; [apply visit_inv; assumption | assumption]. }
    apply G; [exact IH | apply enter_inv; assumption | exact C].
  - destruct n; try contradiction. destruct C as [C|[]]. inversion C; subst s0 e0. simpl.
    unfold psc. simpl.
    assert (Iv2 : inv raw0 (fold_left visit kids v)).
    { apply (fold_visit_ind (inv raw0)); [|assumption]. apply Forall_forall. intros. apply visit_inv; assumption. }
    destruct Iv2 as [(t & -> & T) _]. apply loop_creates. eapply reach_sorted; eassumption.
Qed.

Theorem parse_call_group_exists : forall raw body s e l cs, raw_ok raw ->
  In (s, e) (flat_map calls_of body) -> In (l, cs) raw -> in_range s e l = true ->
  od_has (mkK true s e) (v_groups (parse raw body)) = true.
Proof.
  intros raw body s e l cs R C I Rg. unfold parse, visit_all.
  set (J := fun d => od_has (mkK true s e) d = true).
  assert (HJ : forall raw d b s' e', J d -> J (psc_loop raw b s' e' false d)).
  { intros. apply psc_loop_has; [reflexivity|assumption]. }
  assert (G : forall ks v, inv raw v -> In (s, e) (flat_map calls_of ks) -> J (v_groups (fold_left visit ks v))).
  { induction ks as [|x r IHr]; simpl; intros v0 I0 C0; [contradiction|].
    apply in_app_or in C0 as [C0|C0].
    - apply (fold_visit_J J HJ). eapply visit_creates_call; eassumption.
    - apply IHr; [apply visit_inv; assumption | assumption]. }
  apply G; [apply init_inv; assumption | assumption].
Qed.
