(* C03 — vocabulary of the property theorems (definitions only, no proofs): the directive comments the
   property talks about, "D' is D with these comment events added", the set of lines a trailing directive
   writes to, and the side conditions. *)
From Coq Require Import ZArith List Bool Arith NArith.
From PV Require Import Generated.C03_ErrorClasses Directors.Model.
Import ListNotations.
Open Scope Z_scope.

(* what the parser produces for an appended "  # pytype: disable=E" / "  # type: ignore" on line L and for
   the same text on a line of its own *)
Definition trailing_disable (L : Z) (E : N) : comment := mkC L (Pytype [CDisable [E]]) false.
Definition trailing_ignore (L : Z) : comment := mkC L TypeIgnore false.
Definition standalone_disable (L : Z) (E : N) : comment := mkC L (Pytype [CDisable [E]]) true.
Definition standalone_enable (L : Z) (E : N) : comment := mkC L (Pytype [CEnable [E]]) true.
Definition standalone_ignore (L : Z) : comment := mkC L TypeIgnore true.

(* [inserted P D D' A]: the event sequence D' is D with the events A (each satisfying P) inserted, the
   relative order of everything else unchanged.  This is how the parser's flattened output changes when one
   comment is added to the source (monitored on the real parser by the check). *)
Inductive inserted {A : Type} (P : A -> Prop) : list A -> list A -> list A -> Prop :=
| ins_nil : inserted P [] [] []
| ins_keep : forall x D D' Ad, inserted P D D' Ad -> inserted P (x :: D) (x :: D') Ad
| ins_add : forall x D D' Ad, P x -> inserted P D D' Ad -> inserted P D (x :: D') (x :: Ad).

(* filter_error treats line 0 as below the file *)
Definition eff_line (l : Z) : Z := if l =? 0 then maxsize else l.

(* the lines of class E's line set that the added copies of a trailing disable=E on line L write to:
   L itself and the start line of every range (statement, or call for function-call classes) it sits in *)
Definition touched_disable (E : N) (L : Z) (added : list event) : list Z :=
  flat_map (fun ev => if accepted_name E && keep (ev_call ev) E
                      then [L; adjust_line L E (ev_start ev)] else []) added.
Definition touched_ignore (L : Z) (added : list event) : list Z :=
  flat_map (fun ev => [L; ev_start ev]) added.

(* a comment that can write False for class E into the per-line dict: a trailing enable naming E *)
Definition cmd_enables (E : N) (c : cmd) : bool :=
  match c with CEnable ns => mem_n E ns | _ => false end.
Definition trailing_enable_of (E : N) (c : comment) : bool :=
  negb (c_open c) &&
  match c_body c with Pytype cmds => existsb (cmd_enables E) cmds | _ => false end.

(* a stand-alone disable=/enable= naming E *)
Definition cmd_mentions (E : N) (c : cmd) : bool :=
  match c with CEnable ns => mem_n E ns | CDisable ns => mem_n E ns | _ => false end.
Definition open_directive_of (E : N) (c : comment) : bool :=
  c_open c &&
  match c_body c with Pytype cmds => existsb (cmd_mentions E) cmds | _ => false end.

(* stand-alone comments are seen in non-decreasing line order, all at lines >= b *)
Fixpoint open_mono (b : Z) (evs : list event) : Prop :=
  match evs with
  | [] => True
  | ev :: r =>
    if c_open (ev_comment ev)
    then b <= c_line (ev_comment ev) /\ open_mono (c_line (ev_comment ev)) r
    else open_mono b r
  end.

(* the error as filter_error sees it *)
Definition same_file_err (l : Z) (n : N) (ret_op : bool) : err := mkErr true (Some l) n ret_op.

(* an error whose line filter_error never rewrites *)
Definition plain_error (rl : list Z) (e : err) (l : Z) : Prop :=
  ((e_name e =? implicit_return_error)%N && e_ret_op e && negb (mem_z l rl))%bool = false.

(* characterisation of _LineSet membership by the history of calls *)
Inductive lsop := OSet (l : Z) (m : bool) | ORange (l : Z) (m : bool).
Definition apply_op (ls : lineset) (o : lsop) : res lineset :=
  match o with OSet l m => Ok (set_line ls l m) | ORange l m => start_range ls l m end.
Fixpoint run_ops (ls : lineset) (ops : list lsop) : res lineset :=
  match ops with
  | [] => Ok ls
  | o :: r => bind (apply_op ls o) (fun ls' => run_ops ls' r)
  end.
(* the membership of the last set_line(l, _) *)
Fixpoint last_set (ops : list lsop) (l : Z) : option bool :=
  match ops with
  | [] => None
  | OSet l' m :: r => match last_set r l with Some b => Some b | None => if l =? l' then Some m else None end
  | ORange _ _ :: r => last_set r l
  end.
(* the membership of the last start_range(p, _) with p <= l *)
Fixpoint range_last (ops : list lsop) (l : Z) : option bool :=
  match ops with
  | [] => None
  | ORange p m :: r => match range_last r l with Some b => Some b | None => if p <=? l then Some m else None end
  | OSet _ _ :: r => range_last r l
  end.
(* start_range lines are non-decreasing and >= b *)
Fixpoint mono_from (b : Z) (ops : list lsop) : Prop :=
  match ops with
  | [] => True
  | OSet _ _ :: r => mono_from b r
  | ORange p _ :: r => b <= p /\ mono_from p r
  end.

(* the whole pipeline on a flattened event sequence *)
Definition verdict_events (disable : list N) (fr_items : list (Z * Z)) (return_lines : list Z)
    (evs : list event) (e : err) : res (bool * option Z) :=
  bind (build_events disable fr_items evs) (fun st => filter_error st return_lines e).
