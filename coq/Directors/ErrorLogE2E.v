(* C03 — the directors.py guarantee lifted from "the Director says filtered" to "absent from the final report",
   and the witnesses that show which hypotheses are necessary. *)
From Coq Require Import ZArith List Bool Arith NArith Lia.
From PV Require Import Generated.C03_ErrorClasses Directors.Model Directors.Spec Directors.Proofs.
From PV Require Import Directors.Parser Directors.ParserSpec Directors.ParserProofs Directors.ParserOrder Directors.ParserE2E.
From PV Require Import Directors.ErrorLog Directors.ErrorLogProofs.
Import ListNotations.
Open Scope Z_scope.

Definition is_target (L : Z) (E : N) (e : err) : Prop :=
  e_same_file e = true /\ e_name e = E /\ exists lr, e_line e = Some lr /\ eff_line lr = L.

Lemma source_report_silenced_lemma : forall g raw body c L E st rl pre post lst,
  raw_ok raw -> In c (all_comments raw) -> pc_c c = trailing_disable L E ->
  accepted_name E = true ->
  Forall (fun ev => trailing_enable_of E (ev_comment ev) = false)
         (events_of (director_groups (parse raw body))) ->
  build g (v_fr (parse raw body)) (director_groups (parse raw body)) = Ok st ->
  no_setfilter post ->
  run l_empty (program_history pre (filter_error st rl) post) = Ok lst ->
  Forall (fun e => In e pre \/ ~ is_target L E e) (l_errors lst).
Proof.
  intros g raw body c L E st rl pre post lst R I C A NoEn B NS H.
  eapply Forall_impl; [|eapply program_invariant_lemma; eauto].
  intros e [Ipre|(e0 & Hf & EQ)]; [left; exact Ipre|right].
  intros (SF & EN & lr & EL & EF). rewrite EL in Hf.
  assert (SF0 : e_same_file e0 = true) by (rewrite EQ in SF; exact SF).
  destruct (director_filter_inv _ _ _ _ _ Hf SF0) as (l0 & EL0 & RL).
  assert (EN0 : e_name e0 = E) by (rewrite EQ in EN; exact EN).
  pose proof (source_trailing_disable_silences g raw body c L E st rl e0 l0 lr R I C A NoEn B SF0 EL0 EN0 RL EF) as X.
  rewrite X in Hf. discriminate Hf.
Qed.

(* errors logged before the filter is installed stay in the report whatever the filter says *)
Lemma prefilter_escape_lemma :
  exists D st e lst,
    build_events [] [] D = Ok st /\
    run l_empty (program_history [e] (filter_error st []) []) = Ok lst /\
    In e (l_errors lst) /\ e_same_file e = true /\
    filter_error st [] e = Ok (false, e_line e).
Proof.
  exists [mkE false 1 1 (trailing_disable 1 witness_class)].
  eexists. exists (same_file_err 1 witness_class false). eexists.
  split; [vm_compute; reflexivity|]. split; [vm_compute; reflexivity|].
  split; [left; reflexivity|]. split; [reflexivity|vm_compute; reflexivity].
Qed.

(* the frame theorem needs "copied records hold no error of this file" *)
Definition wt (e : err) : bool :=
  e_same_file e && (e_name e =? 1)%N && match e_line e with Some l => l =? 5 | None => false end.
Definition wf : flt := fun e => Ok (true, e_line e).
Definition wf' : flt := fun e => Ok (negb (wt e), e_line e).
Definition wops : list lop :=
  [LCheckpoint; LAdd (mkErr true (Some 5) 1%N false); LRevert; LCopyRec (mkP true 9 false)].

Lemma frame_copy_refuted_lemma :
  (forall e, wt e = true -> e_same_file e = true) /\ narrows wt wf wf' /\ no_setfilter wops /\
  exists st st', run (mkL [] (Some wf) [] []) wops = Ok st /\ run (mkL [] (Some wf') [] []) wops = Ok st' /\
    l_errors st = [mkErr true (Some 9) 1%N false] /\ l_errors st' = [] /\
    wt (mkErr true (Some 9) 1%N false) = false /\ ~ dropped wt (l_errors st') (l_errors st).
Proof.
  split. { intros e H. unfold wt in H. destruct (e_same_file e); [reflexivity|discriminate H]. }
  split.
  { intros e b l H. unfold wf in H. inversion H; subst. unfold wf'.
    assert (wt (set_eline e (e_line e)) = wt e) by reflexivity.
    destruct (wt e) eqn:W; simpl; [right|left; reflexivity]. repeat split; auto. }
  split. { repeat constructor. }
  eexists. eexists. split; [vm_compute; reflexivity|]. split; [vm_compute; reflexivity|].
  split; [reflexivity|]. split; [reflexivity|]. split; [reflexivity|].
  simpl. intro D. inversion D; subst. discriminate.
Qed.
