(* C03 — executable model of the ERROR-LOG side of the property: pytype/errors/errors.py ErrorLog (_add with the
   filter, set_error_filter, error(line=...), checkpoint / CheckPoint.revert, copy_from) and of the errors the
   Director logs itself while it is being constructed (directors.py _parse_src_tree / _process_type /
   _process_disable: invalid-directive, ignored-type-comment, late-directive), which reach the log BEFORE
   vm.VirtualMachine.run_program calls errorlog.set_error_filter(director.filter_error).
   Model only (no proofs).

   An error is Model.err: (error.filename == director._filename, error.line, class, "raised by a RETURN opcode").
   The filter is any function err -> res (kept?, line the error carries afterwards): Director.filter_error may
   rewrite the line (Error.set_line) and may raise; theorems instantiate it with Model.filter_error st rl.

   Two state representations:
   * [lstate]/[step]/[run]: what the Python code does — ONE list self._errors, a CheckPoint remembers
     len(self._errors), revert() slices the list at that position;
   * [sstate]/[sstep]/[srun]: the same log kept as a stack of segments (one per open checkpoint).  ErrorLogProofs.v
     proves the two agree on every history ([run_srun]); the frame theorem is proved on the segments. *)
From Coq Require Import ZArith List Bool Arith NArith.
From PV Require Import Generated.C03_ErrorClasses Directors.Model.
Import ListNotations.
Open Scope Z_scope.

Definition flt := err -> res (bool * option Z).

(* Error.set_line *)
Definition set_eline (e : err) (l : option Z) : err := mkErr (e_same_file e) l (e_name e) (e_ret_op e).

(* the position Error.with_stack takes from stack[-1].current_opcode (filename, line, opcode class);
   an empty stack gives filename None, line 0 *)
Record pos := mkP { p_same_file : bool; p_line : Z; p_ret_op : bool }.
Definition at_pos (p : pos) (n : N) : err := mkErr (p_same_file p) (Some (p_line p)) n (p_ret_op p).

(* ErrorLog.error(..., line=line):  if line: err.set_line(line)   — BEFORE self._add(err) *)
Definition at_line (e : err) (line : Z) : err := if line =? 0 then e else set_eline e (Some line).

(* ErrorLog._add:  if self._filter is None or self._filter(error): self._errors.append(error)
   (the filter's set_line is visible on the appended object) *)
Definition add1 (f : option flt) (errors : list err) (e : err) : res (list err) :=
  match f with
  | None => Ok (errors ++ [e])
  | Some f => bind (f e) (fun r => if fst r then Ok (errors ++ [set_eline e (snd r)]) else Ok errors)
  end.

(* ErrorLog.copy_from(errors, stack): for e in errors: with bind(e.name): self.error(stack, e._message, ...) *)
Fixpoint copy_all (f : option flt) (errors : list err) (es : list err) (p : pos) : res (list err) :=
  match es with
  | [] => Ok errors
  | e :: r => bind (add1 f errors (at_pos p (e_name e))) (fun errors' => copy_all f errors' r p)
  end.

Inductive lop :=
| LAdd (e : err)                        (* any logging method: Error.with_stack(...) / Error(...), then _add *)
| LAddAt (e : err) (line : Z)           (* ErrorLog.error(..., line=line)  (incomplete-match) *)
| LSetFilter (f : option flt)           (* set_error_filter *)
| LCheckpoint                           (* with errorlog.checkpoint() as record:  — CheckPoint.__init__ *)
| LRevert                               (* leaving the with block — CheckPoint.revert; record.errors is kept *)
| LCopyRec (p : pos)                    (* copy_from(record.errors, stack) with the record of the latest revert *)
| LCopyFrom (es : list err) (p : pos).  (* copy_from(errors, stack) with any list *)

Record lstate := mkL {
  l_errors : list err;         (* self._errors *)
  l_filter : option flt;       (* self._filter *)
  l_cps : list nat;            (* positions of the open CheckPoints, innermost first *)
  l_rec : list err             (* record.errors of the latest revert *)
}.
Definition l_empty : lstate := mkL [] None [] [].

Definition with_errors (st : lstate) (es : list err) : lstate := mkL es (l_filter st) (l_cps st) (l_rec st).

Definition step (st : lstate) (o : lop) : res lstate :=
  match o with
  | LAdd e => bind (add1 (l_filter st) (l_errors st) e) (fun es => Ok (with_errors st es))
  | LAddAt e line => bind (add1 (l_filter st) (l_errors st) (at_line e line)) (fun es => Ok (with_errors st es))
  | LSetFilter f => Ok (mkL (l_errors st) f (l_cps st) (l_rec st))
  | LCheckpoint => Ok (mkL (l_errors st) (l_filter st) (length (l_errors st) :: l_cps st) (l_rec st))
  | LRevert =>
    match l_cps st with
    | [] => Ok st     (* cannot happen: revert is only called on leaving a checkpoint (see [balanced]) *)
    | p :: r => Ok (mkL (firstn p (l_errors st)) (l_filter st) r (skipn p (l_errors st)))
    end
  | LCopyRec p => bind (copy_all (l_filter st) (l_errors st) (l_rec st) p) (fun es => Ok (with_errors st es))
  | LCopyFrom es0 p => bind (copy_all (l_filter st) (l_errors st) es0 p) (fun es => Ok (with_errors st es))
  end.

Fixpoint run (st : lstate) (ops : list lop) : res lstate :=
  match ops with
  | [] => Ok st
  | o :: r => bind (step st o) (fun st' => run st' r)
  end.

(* every revert closes an open checkpoint and none is left open: what `with` guarantees *)
Fixpoint balanced (depth : nat) (ops : list lop) : bool :=
  match ops with
  | [] => (depth =? 0)%nat
  | LCheckpoint :: r => balanced (S depth) r
  | LRevert :: r => match depth with O => false | S d => balanced d r end
  | _ :: r => balanced depth r
  end.

Definition is_setfilter (o : lop) : bool := match o with LSetFilter _ => true | _ => false end.
Definition no_setfilter (ops : list lop) : Prop := Forall (fun o => is_setfilter o = false) ops.

(* ---------- the same log as a stack of segments ---------- *)
Record sstate := mkS {
  s_top : list err;              (* errors logged since the innermost open checkpoint *)
  s_below : list (list err);     (* the segments under it, nearest first; the last one is the base *)
  s_filter : option flt;
  s_rec : list err
}.
Fixpoint base_of (below : list (list err)) : list err :=
  match below with [] => [] | b :: r => base_of r ++ b end.
Definition flat (ss : sstate) : list err := base_of (s_below ss) ++ s_top ss.

Definition with_top (ss : sstate) (t : list err) : sstate := mkS t (s_below ss) (s_filter ss) (s_rec ss).

Definition sstep (ss : sstate) (o : lop) : res sstate :=
  match o with
  | LAdd e => bind (add1 (s_filter ss) (s_top ss) e) (fun t => Ok (with_top ss t))
  | LAddAt e line => bind (add1 (s_filter ss) (s_top ss) (at_line e line)) (fun t => Ok (with_top ss t))
  | LSetFilter f => Ok (mkS (s_top ss) (s_below ss) f (s_rec ss))
  | LCheckpoint => Ok (mkS [] (s_top ss :: s_below ss) (s_filter ss) (s_rec ss))
  | LRevert =>
    match s_below ss with
    | [] => Ok ss
    | b :: r => Ok (mkS b r (s_filter ss) (s_top ss))
    end
  | LCopyRec p => bind (copy_all (s_filter ss) (s_top ss) (s_rec ss) p) (fun t => Ok (with_top ss t))
  | LCopyFrom es0 p => bind (copy_all (s_filter ss) (s_top ss) es0 p) (fun t => Ok (with_top ss t))
  end.

Fixpoint srun (ss : sstate) (ops : list lop) : res sstate :=
  match ops with
  | [] => Ok ss
  | o :: r => bind (sstep ss o) (fun ss' => srun ss' r)
  end.

(* ---------- vocabulary of the theorems ---------- *)

(* [accepted f e']: e' is an error the filter f let through, carrying the line f gave it *)
Definition accepted (f : flt) (e' : err) : Prop :=
  exists e0, f e0 = Ok (true, e_line e') /\ e' = set_eline e0 (e_line e').

(* what "satisfies the Director's filter for (line, class)" means for a logged error: it is of another file or
   has no line, or its line (0 = below the file) is in none of the three line sets *)
Definition clear_of (st : dstate) (e : err) : Prop :=
  e_same_file e = false \/ e_line e = None \/
  exists l, e_line e = Some l /\
    contains (d_ignore st) (if l =? 0 then maxsize else l) = false /\
    contains (dis_get (d_dis st) all_errors) (if l =? 0 then maxsize else l) = false /\
    contains (dis_get (d_dis st) (e_name e)) (if l =? 0 then maxsize else l) = false.

(* "e2 is e1 with some elements satisfying tgt removed" *)
Inductive dropped (tgt : err -> bool) : list err -> list err -> Prop :=
| dr_nil : dropped tgt [] []
| dr_keep : forall x a b, dropped tgt a b -> dropped tgt (x :: a) (x :: b)
| dr_drop : forall x a b, tgt x = true -> dropped tgt a b -> dropped tgt a (x :: b).

(* f' is f except that it additionally rejects some errors whose logged form satisfies tgt; lines agree *)
Definition narrows (tgt : err -> bool) (f f' : flt) : Prop :=
  forall e b l, f e = Ok (b, l) ->
    f' e = Ok (b, l) \/ (b = true /\ f' e = Ok (false, l) /\ tgt (set_eline e l) = true).

(* whenever the history copies the latest record, that record holds no error of this file (true of
   abstract_utils.eval_expr: the expression is compiled without a filename).  Computed along the run. *)
Fixpoint copies_foreign (ss : sstate) (ops : list lop) : Prop :=
  match ops with
  | [] => True
  | o :: r =>
    (match o with LCopyRec _ => Forall (fun e => e_same_file e = false) (s_rec ss) | _ => True end) /\
    match sstep ss o with Ok ss' => copies_foreign ss' r | Raise _ => True end
  end.

(* boolean version for the generated cases *)
Fixpoint copies_foreignb (ss : sstate) (ops : list lop) : bool :=
  match ops with
  | [] => true
  | o :: r =>
    (match o with LCopyRec _ => forallb (fun e => negb (e_same_file e)) (s_rec ss) | _ => true end) &&
    match sstep ss o with Ok ss' => copies_foreignb ss' r | Raise _ => true end
  end.

Definition s_of (f : option flt) : sstate := mkS [] [] f [].

(* vm.run_program: Director(...) logs [pre]; set_error_filter(director.filter_error); then the analysis [post] *)
Definition program_history (pre : list err) (f : flt) (post : list lop) : list lop :=
  map LAdd pre ++ LSetFilter (Some f) :: post.
