(* C03 — helper for the generated error-log cases (no proofs): decode a recorded operation history of the real
   ErrorLog, replay it on the model log under the MODEL Director built from the real parser's output, and
   compare the final log.  Result: [code; foreign] with code 0 = agree (see harness/props/c03_log.py CODES) and
   foreign = 1 iff every copied record held only errors of other files (the hypothesis of report_frame_partial). *)
From Coq Require Import ZArith List Bool Arith NArith.
From PV Require Import Generated.C03_ErrorClasses Directors.Model Directors.ErrorLog.
Import ListNotations.
Open Scope Z_scope.

Inductive rop :=
| RAdd (sf : bool) (l : Z) (n : N) (ret : bool) (at_ : Z)
| RSetDir | RSetNone | RSetOther
| RCp | RRevert
| RCopyRec (sf : bool) (l : Z) (ret : bool)
| RCopyFrom (ns : list N) (sf : bool) (l : Z) (ret : bool).

Definition decode (f : flt) (o : rop) : lop :=
  match o with
  | RAdd sf l n r a => LAddAt (mkErr sf (Some l) n r) a
  | RSetDir => LSetFilter (Some f)
  | RSetNone => LSetFilter None
  | RSetOther => LSetFilter None
  | RCp => LCheckpoint
  | RRevert => LRevert
  | RCopyRec sf l r => LCopyRec (mkP sf l r)
  | RCopyFrom ns sf l r => LCopyFrom (map (fun n => mkErr false None n false) ns) (mkP sf l r)
  end.

Definition has_other (ops : list rop) : bool :=
  existsb (fun o => match o with RSetOther => true | _ => false end) ops.

Definition view (e : err) : bool * Z * N :=
  (e_same_file e, match e_line e with Some l => l | None => -1 end, e_name e).

Fixpoint same_view (a : list (bool * Z * N)) (b : list (bool * Z * N)) : bool :=
  match a, b with
  | [], [] => true
  | (s1, l1, n1) :: ra, (s2, l2, n2) :: rb => Bool.eqb s1 s2 && (l1 =? l2) && (n1 =? n2)%N && same_view ra rb
  | _, _ => false
  end.

Definition log_case (disable : list N) (fr : list (Z * Z)) (rl : list Z) (gs : list group)
    (ops : list rop) (expected : list (bool * Z * N)) : list nat :=
  match build disable fr gs with
  | Raise _ => [1%nat; 1%nat]
  | Ok st =>
    let f := filter_error st rl in
    let lops := map (decode f) ops in
    let foreign := if copies_foreignb (s_of None) lops then 1%nat else 0%nat in
    if has_other ops then [5%nat; foreign]
    else if negb (balanced 0 lops) then [4%nat; foreign]
    else match run l_empty lops with
         | Raise _ => [2%nat; foreign]
         | Ok lst => if same_view (map view (l_errors lst)) expected then [0%nat; foreign] else [3%nat; foreign]
         end
  end.
