(* C03 — executable model of pytype/directors/directors.py: _LineSet, _BlockRanges, the part of Director
   that turns the parser's grouped structured comments into line sets, and Director.filter_error.
   Model only (no proofs).  The error-class tables come from Generated/C03_ErrorClasses.v, which the check
   regenerates from the source on every run; nothing below looks inside them.

   Input of the model = what pytype/directors/parser.py hands to Director._parse_src_tree:
     structured_comment_groups (ordered), function_ranges (dict items, insertion order), return_lines,
   plus the `disable` option.  The comment text is tokenised on the harness side (str.split only):
   a "pytype:" comment is the list of its whitespace-separated options, each classified as
   disable=…/enable=… (with its comma-separated names), an option that is accepted without touching the
   line sets (valid pragma=/features=), or one that raises _DirectiveError. *)
From Coq Require Import ZArith List Bool Arith NArith.
From PV Require Import Generated.C03_ErrorClasses.
Import ListNotations.
Open Scope Z_scope.

(* ---------- exceptions ---------- *)
Inductive exn := ValueError | IndexError | KeyError.
Inductive res (A : Type) := Ok (a : A) | Raise (x : exn).
Arguments Ok {A} a.
Arguments Raise {A} x.
Definition bind {A B} (r : res A) (f : A -> res B) : res B :=
  match r with Ok a => f a | Raise x => Raise x end.

(* ---------- Python dict with int keys: newest binding first, lookups see the newest ---------- *)
Fixpoint dict_get {V} (k : Z) (d : list (Z * V)) : option V :=
  match d with
  | [] => None
  | (k', v) :: r => if k =? k' then Some v else dict_get k r
  end.
Definition dict_set {V} (k : Z) (v : V) (d : list (Z * V)) : list (Z * V) := (k, v) :: d.
Definition dict_del {V} (k : Z) (d : list (Z * V)) : list (Z * V) :=
  filter (fun kv => negb (fst kv =? k)) d.

(* ---------- bisect (CPython Lib/bisect.py: the binary search itself) ---------- *)
Fixpoint bisect_right_go (fuel : nat) (a : list Z) (x : Z) (lo hi : nat) : nat :=
  match fuel with
  | O => lo
  | S f =>
    if (lo <? hi)%nat then
      let mid := ((lo + hi) / 2)%nat in
      if x <? nth mid a 0 then bisect_right_go f a x lo mid
      else bisect_right_go f a x (S mid) hi
    else lo
  end.
Definition bisect_right (a : list Z) (x : Z) : nat :=
  bisect_right_go (S (length a)) a x 0 (length a).

Fixpoint bisect_left_go (fuel : nat) (a : list Z) (x : Z) (lo hi : nat) : nat :=
  match fuel with
  | O => lo
  | S f =>
    if (lo <? hi)%nat then
      let mid := ((lo + hi) / 2)%nat in
      if nth mid a 0 <? x then bisect_left_go f a x (S mid) hi
      else bisect_left_go f a x lo mid
    else lo
  end.
Definition bisect_left (a : list Z) (x : Z) : nat :=
  bisect_left_go (S (length a)) a x 0 (length a).

(* ---------- _LineSet ---------- *)
Record lineset := mkLS {
  ls_lines : list (Z * bool);   (* self._lines : dict line -> bool *)
  ls_trans : list Z             (* self._transitions, in list order *)
}.
Definition ls_empty : lineset := mkLS [] [].

Definition set_line (ls : lineset) (l : Z) (m : bool) : lineset :=
  mkLS (dict_set l m (ls_lines ls)) (ls_trans ls).

Definition start_range (ls : lineset) (l : Z) (m : bool) : res lineset :=
  let t := ls_trans ls in
  let lst := last t (-1) in                       (* self._transitions[-1] if self._transitions else -1 *)
  if l <? lst then Raise ValueError
  else
    let previous := Nat.odd (length t) in
    if Bool.eqb m previous then Ok ls              (* redundant *)
    else if l =? lst then                          (* cancel: self._transitions.pop() *)
      match t with
      | [] => Raise IndexError                     (* pop from empty list (line = -1) *)
      | _ => Ok (mkLS (ls_lines ls) (removelast t))
      end
    else Ok (mkLS (ls_lines ls) (t ++ [l])).

Definition contains (ls : lineset) (l : Z) : bool :=
  match dict_get l (ls_lines ls) with
  | Some b => b
  | None => Nat.odd (bisect_right (ls_trans ls) l)
  end.

(* ---------- _BlockRanges ---------- *)
Record branges := mkBR {
  br_starts : list Z;            (* sorted(start_to_end_mapping), never updated *)
  br_s2e : list (Z * Z);
  br_e2s : list (Z * Z)
}.
Fixpoint insert_sorted (x : Z) (l : list Z) : list Z :=
  match l with
  | [] => [x]
  | h :: t => if x <=? h then x :: l else h :: insert_sorted x t
  end.
Definition sort_z (l : list Z) : list Z := fold_right insert_sorted [] l.

(* items = list(start_to_end_mapping.items()) (keys distinct, insertion order);
   {v: k for k, v in items}: later items overwrite earlier ones *)
Definition mk_branges (items : list (Z * Z)) : branges :=
  mkBR (sort_z (map fst items))
       (fold_left (fun d kv => dict_set (fst kv) (snd kv) d) items [])
       (fold_left (fun d kv => dict_set (snd kv) (fst kv) d) items []).

Definition has_end (br : branges) (l : Z) : bool :=
  match dict_get l (br_e2s br) with Some _ => true | None => false end.

Definition adjust_end (br : branges) (old_end new_end : Z) : res branges :=
  match dict_get old_end (br_e2s br) with
  | None => Raise KeyError
  | Some st =>
    Ok (mkBR (br_starts br)
             (dict_set st new_end (br_s2e br))
             (dict_set new_end st (dict_del old_end (br_e2s br))))
  end.

(* while 1 < i <= num_intervals and start_to_end[starts[i-1]] < line: i -= 1   (fuel = i suffices) *)
Fixpoint skip_nested (fuel : nat) (br : branges) (line : Z) (i : nat) : res nat :=
  match fuel with
  | O => Ok i
  | S f =>
    if ((1 <? i) && (i <=? length (br_starts br)))%nat then
      match dict_get (nth (i - 1) (br_starts br) 0) (br_s2e br) with
      | None => Raise KeyError
      | Some en => if en <? line then skip_nested f br line (i - 1)%nat else Ok i
      end
    else Ok i
  end.

Definition find_outermost (br : branges) (line : Z) : res (option (Z * Z)) :=
  let starts := br_starts br in
  let i := bisect_left starts line in
  let n := length starts in
  match starts with
  | [] => Ok None                  (* `if not self._starts: return None, None` (fix ba484d5; before it: IndexError) *)
  | s0 :: _ =>
    if negb (i =? 0)%nat || (line =? s0) then
      bind (if ((i <? n)%nat && (nth i starts 0 =? line))%bool then Ok (nth i starts 0)
            else bind (skip_nested i br line i) (fun i' => Ok (nth (i' - 1) starts 0)))
           (fun start =>
              match dict_get start (br_s2e br) with
              | None => Raise KeyError
              | Some en =>
                if (start <=? line) && (line <? en) then Ok (Some (start, en)) else Ok None
              end)
    else Ok None
  end.

(* ---------- the parser's output ---------- *)
Inductive cmd :=
| CDisable (names : list N)
| CEnable (names : list N)
| CNoop          (* pragma=/features= with valid values: accepted, no effect on the line sets *)
| CRaise.        (* anything for which _process_pytype raises _DirectiveError *)

Inductive cbody :=
| TypeIgnore                 (* tool "type", data matches IGNORE_RE *)
| TypeOther                  (* tool "type", any other data *)
| Pytype (opts : list cmd).  (* tool "pytype": data.split() in order; empty data = [CRaise] *)

Record comment := mkC { c_line : Z; c_body : cbody; c_open : bool }.
Record group := mkG { g_call : bool; g_start : Z; g_end : Z; g_comments : list comment }.

(* one iteration of the inner loop of _parse_src_tree: (line_range, comment) *)
Record event := mkE { ev_call : bool; ev_start : Z; ev_end : Z; ev_comment : comment }.
Definition events_of (gs : list group) : list event :=
  flat_map (fun g => map (mkE (g_call g) (g_start g) (g_end g)) (g_comments g)) gs.

(* ---------- error classes ---------- *)
Definition mem_n (n : N) (l : list N) : bool := existsb (N.eqb n) l.
Definition is_fce (n : N) : bool := mem_n n function_call_errors.
Definition is_adjustable (n : N) : bool := mem_n n all_adjustable_errors.
Definition is_valid_name (n : N) : bool := mem_n n known_error_names.
Definition accepted_name (n : N) : bool := (n =? all_errors)%N || is_valid_name n.

(* ---------- Director state relevant to filter_error ---------- *)
Record dstate := mkD {
  d_ignore : lineset;
  d_dis : list (N * lineset);     (* self._disables (defaultdict(_LineSet)), newest binding first *)
  d_fr : branges
}.
Fixpoint dis_get (d : list (N * lineset)) (n : N) : lineset :=
  match d with
  | [] => ls_empty
  | (n', ls) :: r => if (n =? n')%N then ls else dis_get r n
  end.
Definition dis_set (d : list (N * lineset)) (n : N) (ls : lineset) := (n, ls) :: d.

(* keep(error_name) of _process_disable *)
Definition keep (is_call : bool) (n : N) : bool := if is_call then is_fce n else true.
(* _adjust_line_number_for_pytype_directive *)
Definition adjust_line (line : Z) (n : N) (range_start : Z) : Z :=
  if is_adjustable n then range_start else line.

Definition process_name (is_call : bool) (range_start line : Z) (open dis : bool)
    (d : list (N * lineset)) (n : N) : res (list (N * lineset)) :=
  if accepted_name n then
    if negb (keep is_call n) then Ok d
    else
      let ls := dis_get d n in
      if open then bind (start_range ls line dis) (fun ls' => Ok (dis_set d n ls'))
      else
        let final := adjust_line line n range_start in
        let ls1 := if negb (final =? line) then set_line ls line dis else ls in
        Ok (dis_set d n (set_line ls1 final dis))
  else Ok d.   (* invalid_directive is logged; nothing else happens *)

Fixpoint process_names (is_call : bool) (range_start line : Z) (open dis : bool)
    (names : list N) (d : list (N * lineset)) : res (list (N * lineset)) :=
  match names with
  | [] => Ok d
  | n :: r => bind (process_name is_call range_start line open dis d n)
                   (process_names is_call range_start line open dis r)
  end.

Definition nodup_n := nodup N.eq_dec.    (* values = set(values) *)

Fixpoint process_cmds (is_call : bool) (range_start line : Z) (open : bool)
    (cmds : list cmd) (d : list (N * lineset)) : res (list (N * lineset)) :=
  match cmds with
  | [] => Ok d
  | CDisable ns :: r =>
    bind (process_names is_call range_start line open true (nodup_n ns) d)
         (process_cmds is_call range_start line open r)
  | CEnable ns :: r =>
    bind (process_names is_call range_start line open false (nodup_n ns) d)
         (process_cmds is_call range_start line open r)
  | CNoop :: r => process_cmds is_call range_start line open r d
  | CRaise :: _ => Ok d          (* _DirectiveError: caught in _parse_src_tree, the rest is skipped *)
  end.

Definition process_event (st : dstate) (ev : event) : res dstate :=
  let c := ev_comment ev in
  bind
    (match c_body c with
     | TypeIgnore =>
       if c_open c then
         bind (start_range (d_ignore st) (c_line c) true)
              (fun ig => Ok (mkD ig (d_dis st) (d_fr st)))
       else
         Ok (mkD (set_line (set_line (d_ignore st) (c_line c) true) (ev_start ev) true)
                 (d_dis st) (d_fr st))
     | TypeOther => Ok st
     | Pytype cmds =>
       bind (process_cmds (ev_call ev) (ev_start ev) (c_line c) (c_open c) cmds (d_dis st))
            (fun d' => Ok (mkD (d_ignore st) d' (d_fr st)))
     end)
    (fun st1 =>
       (* "Make sure the function range ends at the last interesting line" — inside the comment loop *)
       if negb (ev_call ev) && has_end (d_fr st1) (ev_end ev) then
         bind (adjust_end (d_fr st1) (ev_end ev) (ev_start ev))
              (fun fr' => Ok (mkD (d_ignore st1) (d_dis st1) fr'))
       else Ok st1).

Fixpoint process_events (st : dstate) (evs : list event) : res dstate :=
  match evs with
  | [] => Ok st
  | ev :: r => bind (process_event st ev) (fun st' => process_events st' r)
  end.

(* for error_name in disable: self._disables[error_name].start_range(0, True) *)
Fixpoint global_disable (names : list N) (d : list (N * lineset)) : res (list (N * lineset)) :=
  match names with
  | [] => Ok d
  | n :: r => bind (start_range (dis_get d n) 0 true) (fun ls => global_disable r (dis_set d n ls))
  end.

Definition build_events (disable : list N) (fr_items : list (Z * Z)) (evs : list event) : res dstate :=
  bind (global_disable disable [])
       (fun d => process_events (mkD ls_empty d (mk_branges fr_items)) evs).

Definition build (disable : list N) (fr_items : list (Z * Z)) (gs : list group) : res dstate :=
  build_events disable fr_items (events_of gs).

(* ---------- filter_error ---------- *)
Record err := mkErr {
  e_same_file : bool;      (* error.filename == self._filename *)
  e_line : option Z;       (* error.line *)
  e_name : N;
  e_ret_op : bool          (* error.opcode_name in ("RETURN_VALUE", "RETURN_CONST") *)
}.

Definition maxsize : Z := 9223372036854775807.

Definition mem_z (x : Z) (l : list Z) : bool := existsb (Z.eqb x) l.

(* the line the error carries after filter_error (error.set_line) *)
Definition reported_line (st : dstate) (return_lines : list Z) (e : err) (line : Z) : res Z :=
  if ((e_name e =? implicit_return_error)%N && e_ret_op e && negb (mem_z line return_lines))%bool then
    bind (find_outermost (d_fr st) line)
         (fun r => match r with
                   | Some (_, en) => if en =? 0 then Ok line else Ok en     (* if end: *)
                   | None => Ok line
                   end)
  else Ok line.

(* result: (True iff the error is logged, error.line afterwards) *)
Definition filter_error (st : dstate) (return_lines : list Z) (e : err) : res (bool * option Z) :=
  match e_line e with
  | None => Ok (true, None)
  | Some line0 =>
    if negb (e_same_file e) then Ok (true, Some line0)
    else
      bind (reported_line st return_lines e line0)
           (fun line1 =>
              let line := if line1 =? 0 then maxsize else line1 in
              Ok (negb (contains (d_ignore st) line)
                  && negb (contains (dis_get (d_dis st) all_errors) line)
                  && negb (contains (dis_get (d_dis st) (e_name e)) line),
                  Some line1))
  end.

(* the whole pipeline on the parser's output *)
Definition verdict (disable : list N) (fr_items : list (Z * Z)) (return_lines : list Z)
    (gs : list group) (e : err) : res (bool * option Z) :=
  bind (build disable fr_items gs) (fun st => filter_error st return_lines e).
