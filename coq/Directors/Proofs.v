(* C03 — lemmas about the director model (coq/Directors/Model.v).  Property theorems: Props/C03.v. *)
From Coq Require Import ZArith List Bool Arith NArith Lia Sorting.Sorted ZifyNat ZifyBool ZifyN.
From PV Require Import Generated.C03_ErrorClasses Directors.Model Directors.Spec.
Import ListNotations.
Open Scope Z_scope.
Ltac Zify.zify_post_hook ::= Z.div_mod_to_equations.

(* ------------------------------------------------------------------------------------------------ *)
(* bisect on a sorted list counts the elements <= x                                                 *)

Definition count_le (a : list Z) (x : Z) : nat := length (filter (fun t => t <=? x) a).

Lemma sorted_nth : forall a, StronglySorted Z.lt a ->
  forall i j, (i < j < length a)%nat -> nth i a 0 < nth j a 0.
Proof.
  induction 1 as [|h t Hs IH Hall]; intros i j Hij; simpl in Hij; [lia|].
  destruct j as [|j]; [lia|]. destruct i as [|i].
  - simpl. rewrite Forall_forall in Hall. apply Hall. apply nth_In. lia.
  - simpl. apply IH. lia.
Qed.

Lemma bisect_right_go_spec : forall a x, StronglySorted Z.lt a ->
  forall fuel lo hi, (lo <= hi <= length a)%nat -> (hi - lo < fuel)%nat ->
  (forall i, (i < lo)%nat -> nth i a 0 <= x) ->
  (forall i, (hi <= i < length a)%nat -> x < nth i a 0) ->
  let r := bisect_right_go fuel a x lo hi in
  (r <= length a)%nat /\ (forall i, (i < r)%nat -> nth i a 0 <= x) /\
  (forall i, (r <= i < length a)%nat -> x < nth i a 0).
Proof.
  intros a x Hs. induction fuel as [|f IH]; intros lo hi Hb Hf Hlo Hhi; [lia|].
  cbn [bisect_right_go].
  destruct (lo <? hi)%nat eqn:Hlt.
  - apply Nat.ltb_lt in Hlt.
    assert (Hmid : (lo <= (lo + hi) / 2 < hi)%nat).
    { split; [apply Nat.div_le_lower_bound; lia | apply Nat.div_lt_upper_bound; lia]. }
    set (mid := ((lo + hi) / 2)%nat) in *.
    destruct (x <? nth mid a 0) eqn:Hx.
    + apply Z.ltb_lt in Hx. apply IH; try lia; auto.
      intros i Hi. destruct (Nat.eq_dec i mid) as [->|Hne]; [exact Hx|].
      destruct (Nat.lt_ge_cases i hi) as [Hih|Hih].
      * assert (nth mid a 0 < nth i a 0) by (apply sorted_nth; auto; lia). lia.
      * apply Hhi. lia.
    + apply Z.ltb_ge in Hx. apply IH; try lia; auto.
      intros i Hi. destruct (Nat.eq_dec i mid) as [->|Hne]; [exact Hx|].
      destruct (Nat.lt_ge_cases i lo) as [Hil|Hil]; [apply Hlo; lia|].
      assert (nth i a 0 < nth mid a 0) by (apply sorted_nth; auto; lia). lia.
  - apply Nat.ltb_ge in Hlt. assert (lo = hi) by lia. subst hi.
    split; [lia|]. split; auto.
Qed.

Lemma split_count : forall a x r, (r <= length a)%nat ->
  (forall i, (i < r)%nat -> nth i a 0 <= x) ->
  (forall i, (r <= i < length a)%nat -> x < nth i a 0) ->
  count_le a x = r.
Proof.
  unfold count_le. induction a as [|h t IH]; intros x r Hr H1 H2; simpl in *; [lia|].
  destruct r as [|r].
  - assert (x < h) by (apply (H2 0%nat); lia).
    destruct (h <=? x) eqn:E; [apply Z.leb_le in E; lia|].
    apply (IH x 0%nat); [lia | intros; lia |].
    intros i Hi. apply (H2 (S i)). lia.
  - assert (h <= x) by (apply (H1 0%nat); lia).
    destruct (h <=? x) eqn:E; [|apply Z.leb_gt in E; lia].
    simpl. f_equal. apply IH; [lia | |].
    + intros i Hi. apply (H1 (S i)). lia.
    + intros i Hi. apply (H2 (S i)). lia.
Qed.

Lemma bisect_right_count : forall a x, StronglySorted Z.lt a -> bisect_right a x = count_le a x.
Proof.
  intros a x Hs. unfold bisect_right.
  destruct (bisect_right_go_spec a x Hs (S (length a)) 0%nat (length a)) as (H1 & H2 & H3);
    try lia; try (intros; lia).
  symmetry. apply split_count; auto.
Qed.

(* ------------------------------------------------------------------------------------------------ *)
(* _LineSet: what a history of set_line / start_range calls means                                   *)

Definition sem (ls : lineset) (l : Z) : bool := Nat.odd (count_le (ls_trans ls) l).

Definition inv_b (b : Z) (ls : lineset) : Prop :=
  StronglySorted Z.lt (ls_trans ls) /\ Forall (fun t => t <= b) (ls_trans ls).

Lemma count_le_app : forall a b x, count_le (a ++ b) x = (count_le a x + count_le b x)%nat.
Proof. intros. unfold count_le. rewrite filter_app, app_length. reflexivity. Qed.

Lemma count_le_all : forall t l, Forall (fun x => x <= l) t -> count_le t l = length t.
Proof.
  unfold count_le. induction 1; simpl; auto.
  destruct (x <=? l) eqn:E; [simpl; congruence | apply Z.leb_gt in E; lia].
Qed.

Lemma count_le_single : forall p l, count_le [p] l = if p <=? l then 1%nat else 0%nat.
Proof. intros. unfold count_le. simpl. destruct (p <=? l); reflexivity. Qed.

Lemma sorted_le_last : forall t, StronglySorted Z.lt t -> forall x d, In x t -> x <= last t d.
Proof.
  induction 1 as [|h t Hs IH Hall]; intros x d Hin; [inversion Hin|].
  destruct t as [|h2 t2].
  - destruct Hin as [<-|[]]. simpl. lia.
  - change (last (h :: h2 :: t2) d) with (last (h2 :: t2) d).
    destruct Hin as [<-|Hin]; [|apply IH; exact Hin].
    rewrite Forall_forall in Hall.
    assert (h < last (h2 :: t2) d). { apply Hall. destruct (exists_last (l:=h2::t2)) as (l' & a & E); [discriminate|]. rewrite E, last_last. apply in_or_app. right. left. reflexivity. }
    lia.
Qed.

Lemma sorted_app_last : forall t p, StronglySorted Z.lt t -> Forall (fun x => x < p) t ->
  StronglySorted Z.lt (t ++ [p]).
Proof.
  induction 1 as [|h t Hs IH Hall]; intros Hp; simpl.
  - constructor; constructor.
  - inversion Hp; subst. constructor; [apply IH; assumption|].
    apply Forall_app. split; [assumption | constructor; [assumption | constructor]].
Qed.

Lemma sorted_app_l : forall a b, StronglySorted Z.lt (a ++ b) -> StronglySorted Z.lt a.
Proof.
  induction a as [|h t IH]; intros b H; [constructor|].
  simpl in H. inversion H; subst. constructor; [eapply IH; eassumption|].
  apply Forall_app in H3. tauto.
Qed.

Lemma odd_flip : forall n, Nat.odd (S n) = negb (Nat.odd n).
Proof. intros. rewrite Nat.odd_succ, <- Nat.negb_odd. reflexivity. Qed.

Lemma start_range_sem : forall ls b p m, 0 <= b -> b <= p -> inv_b b ls ->
  exists ls', start_range ls p m = Ok ls' /\ ls_lines ls' = ls_lines ls /\ inv_b p ls' /\
              forall l, sem ls' l = if p <=? l then m else sem ls l.
Proof.
  intros [lines t] b p m Hb Hbp [Hs Hall]. unfold start_range, sem, inv_b in *. cbn [ls_trans ls_lines] in *.
  assert (Hlast : last t (-1) <= p).
  { destruct t as [|h t']; [simpl; lia|].
    assert (In (last (h :: t') (-1)) (h :: t')).
    { destruct (exists_last (l:=h::t')) as (l' & a & E); [discriminate|]. rewrite E, last_last. apply in_or_app. right. left. reflexivity. }
    rewrite Forall_forall in Hall. specialize (Hall _ H). lia. }
  assert (HallP : Forall (fun x => x <= p) t).
  { eapply Forall_impl; [|exact Hall]. simpl. intros. lia. }
  destruct (p <? last t (-1)) eqn:E1; [apply Z.ltb_lt in E1; lia|].
  assert (Hfull : forall l, p <= l -> count_le t l = length t).
  { intros l Hl. apply count_le_all. eapply Forall_impl; [|exact HallP]. simpl. intros. lia. }
  destruct (Bool.eqb m (Nat.odd (length t))) eqn:E2.
  - apply eqb_prop in E2. eexists. split; [reflexivity|]. cbn [ls_trans ls_lines]. repeat split; auto.
    intros l. destruct (p <=? l) eqn:E3; [|reflexivity]. apply Z.leb_le in E3. rewrite Hfull; auto.
  - apply eqb_false_iff in E2.
    destruct (p =? last t (-1)) eqn:E3.
    + apply Z.eqb_eq in E3.
      destruct t as [|h t']; [simpl in E3; lia|].
      destruct (exists_last (l:=h::t')) as (t0 & a & E); [discriminate|].
      rewrite E in *. rewrite last_last in E3. subst a. rewrite removelast_last.
      eexists. split; [reflexivity|]. cbn [ls_trans ls_lines].
      split; [reflexivity|]. split.
      * split; [eapply sorted_app_l; eassumption|]. apply Forall_app in HallP. tauto.
      * intros l. rewrite app_length in E2. simpl in E2. rewrite Nat.add_1_r, odd_flip in E2.
        destruct (p <=? l) eqn:E4.
        -- apply Z.leb_le in E4. rewrite count_le_all.
           ++ destruct m, (Nat.odd (length t0)); simpl in *; congruence.
           ++ apply Forall_app in HallP. destruct HallP as [H0 _].
              eapply Forall_impl; [|exact H0]. simpl. intros. lia.
        -- rewrite count_le_app, count_le_single, E4, Nat.add_0_r. reflexivity.
    + apply Z.eqb_neq in E3.
      eexists. split; [reflexivity|]. cbn [ls_trans ls_lines].
      split; [reflexivity|]. split.
      * split.
        -- apply sorted_app_last; auto. rewrite Forall_forall. intros x Hx.
           pose proof (sorted_le_last t Hs x (-1) Hx). lia.
        -- apply Forall_app. split; [exact HallP | constructor; [lia | constructor]].
      * intros l. rewrite count_le_app, count_le_single.
        destruct (p <=? l) eqn:E4.
        -- apply Z.leb_le in E4. rewrite Hfull; auto. rewrite Nat.add_1_r, odd_flip.
           destruct m, (Nat.odd (length t)); simpl in *; congruence.
        -- rewrite Nat.add_0_r. reflexivity.
Qed.

Lemma inv_b_weaken : forall b b' ls, b <= b' -> inv_b b ls -> inv_b b' ls.
Proof.
  intros b b' ls Hb [Hs Ha]. split; auto. eapply Forall_impl; [|exact Ha]. simpl. intros. lia.
Qed.

(* the per-line dict after a history (no side condition) *)
Lemma run_ops_lines : forall ops ls ls', run_ops ls ops = Ok ls' ->
  forall l, dict_get l (ls_lines ls') =
            match last_set ops l with Some v => Some v | None => dict_get l (ls_lines ls) end.
Proof.
  induction ops as [|o r IH]; intros ls ls' H l; simpl in H.
  - inversion H. reflexivity.
  - destruct o as [l' m|p m]; simpl in H.
    + rewrite (IH _ _ H l). simpl. destruct (last_set r l); auto.
      destruct (l =? l'); reflexivity.
    + destruct (start_range ls p m) as [ls1|x] eqn:E; simpl in H; [|discriminate].
      rewrite (IH _ _ H l). simpl.
      assert (ls_lines ls1 = ls_lines ls).
      { unfold start_range in E.
        destruct (p <? _); [discriminate|]. destruct (Bool.eqb _ _); [inversion E; reflexivity|].
        destruct (p =? _).
        - destruct (ls_trans ls); [discriminate|]. inversion E. reflexivity.
        - inversion E. reflexivity. }
      rewrite H0. reflexivity.
Qed.

(* the ranges after a monotone history; such a history never raises *)
Fixpoint last_bound (b : Z) (ops : list lsop) : Z :=
  match ops with
  | [] => b
  | OSet _ _ :: r => last_bound b r
  | ORange p _ :: r => last_bound p r
  end.

Lemma run_ops_sem : forall ops ls b, 0 <= b -> inv_b b ls -> mono_from b ops ->
  exists ls', run_ops ls ops = Ok ls' /\ b <= last_bound b ops /\ inv_b (last_bound b ops) ls' /\
    forall l, sem ls' l = match range_last ops l with Some m => m | None => sem ls l end.
Proof.
  induction ops as [|o r IH]; intros ls b Hb Hinv Hm.
  - exists ls. simpl. split; [reflexivity|]. split; [lia|]. split; [exact Hinv|]. reflexivity.
  - destruct o as [l' m|p m]; simpl in Hm.
    + destruct (IH (set_line ls l' m) b Hb) as (ls' & H1 & H2 & H3 & H4); auto.
      exists ls'. simpl. split; [exact H1|]. split; [exact H2|]. split; [exact H3|]. exact H4.
    + destruct Hm as [Hbp Hm].
      destruct (start_range_sem ls b p m Hb Hbp Hinv) as (ls1 & E & _ & Hinv1 & Hsem1).
      destruct (IH ls1 p) as (ls' & H1 & H2 & H3 & H4); auto; [lia|].
      exists ls'. simpl. rewrite E. simpl. split; [exact H1|]. split; [lia|]. split; [exact H3|].
      intros l. rewrite H4, Hsem1. destruct (range_last r l); [reflexivity|]. destruct (p <=? l); reflexivity.
Qed.

Lemma contains_sem : forall ls l, StronglySorted Z.lt (ls_trans ls) ->
  contains ls l = match dict_get l (ls_lines ls) with Some b => b | None => sem ls l end.
Proof.
  intros ls l Hs. unfold contains, sem. rewrite bisect_right_count; auto.
Qed.

Lemma inv_b_empty : forall b, inv_b b ls_empty.
Proof. intros. split; constructor. Qed.

Lemma lineset_spec_lemma : forall ops ls l, mono_from 0 ops -> run_ops ls_empty ops = Ok ls ->
  contains ls l =
  match last_set ops l with
  | Some b => b
  | None => match range_last ops l with Some m => m | None => false end
  end.
Proof.
  intros ops ls l Hm Hr.
  destruct (run_ops_sem ops ls_empty 0) as (ls' & H1 & H2 & H3 & H4); auto; [lia | apply inv_b_empty|].
  rewrite Hr in H1. inversion H1; subst ls'.
  rewrite contains_sem; [|apply H3].
  rewrite (run_ops_lines _ _ _ Hr l), H4. simpl.
  destruct (last_set ops l); auto.
Qed.

Lemma lineset_total_lemma : forall ops, mono_from 0 ops -> exists ls, run_ops ls_empty ops = Ok ls.
Proof.
  intros ops Hm.
  destruct (run_ops_sem ops ls_empty 0) as (ls' & H1 & _); auto; [lia | apply inv_b_empty|].
  eauto.
Qed.

(* ------------------------------------------------------------------------------------------------ *)
(* Director: every line set of the final state is the result of a history of _LineSet calls that is a *)
(* function of the parser's output alone                                                            *)

Inductive target := TIgn | TDis (n : N).
Definition ls_of (st : dstate) (T : target) : lineset :=
  match T with TIgn => d_ignore st | TDis n => dis_get (d_dis st) n end.

Definition name_ops (ic : bool) (s line : Z) (op dis : bool) (n : N) : list lsop :=
  if accepted_name n && keep ic n then
    if op then [ORange line dis]
    else if negb (adjust_line line n s =? line)
         then [OSet line dis; OSet (adjust_line line n s) dis]
         else [OSet (adjust_line line n s) dis]
  else [].

Definition names_ops (ic : bool) (s line : Z) (op dis : bool) (names : list N) (m : N) : list lsop :=
  flat_map (fun n => if (m =? n)%N then name_ops ic s line op dis n else []) names.

Fixpoint cmds_ops (ic : bool) (s line : Z) (op : bool) (cmds : list cmd) (m : N) : list lsop :=
  match cmds with
  | [] => []
  | CDisable ns :: r => names_ops ic s line op true (nodup_n ns) m ++ cmds_ops ic s line op r m
  | CEnable ns :: r => names_ops ic s line op false (nodup_n ns) m ++ cmds_ops ic s line op r m
  | CNoop :: r => cmds_ops ic s line op r m
  | CRaise :: _ => []
  end.

Definition event_ops (ev : event) (T : target) : list lsop :=
  let c := ev_comment ev in
  match c_body c, T with
  | TypeIgnore, TIgn =>
    if c_open c then [ORange (c_line c) true] else [OSet (c_line c) true; OSet (ev_start ev) true]
  | Pytype cmds, TDis m => cmds_ops (ev_call ev) (ev_start ev) (c_line c) (c_open c) cmds m
  | _, _ => []
  end.

Definition events_ops (evs : list event) (T : target) : list lsop :=
  flat_map (fun ev => event_ops ev T) evs.

Definition global_ops (names : list N) (T : target) : list lsop :=
  match T with
  | TIgn => []
  | TDis m => flat_map (fun n => if (m =? n)%N then [ORange 0 true] else []) names
  end.

Definition all_ops (g : list N) (evs : list event) (T : target) : list lsop :=
  global_ops g T ++ events_ops evs T.

Lemma run_ops_app : forall a b ls, run_ops ls (a ++ b) = bind (run_ops ls a) (fun ls' => run_ops ls' b).
Proof.
  induction a as [|o r IH]; intros b ls; simpl; [reflexivity|].
  destruct (apply_op ls o); simpl; auto.
Qed.

Lemma run_ops_app_ok : forall a b ls ls1 ls2,
  run_ops ls a = Ok ls1 -> run_ops ls1 b = Ok ls2 -> run_ops ls (a ++ b) = Ok ls2.
Proof. intros. rewrite run_ops_app, H. simpl. exact H0. Qed.

Lemma dis_get_set : forall d n ls m, dis_get (dis_set d n ls) m = if (m =? n)%N then ls else dis_get d m.
Proof. reflexivity. Qed.

Lemma process_name_ops : forall ic s line op dis d n d',
  process_name ic s line op dis d n = Ok d' ->
  forall m, run_ops (dis_get d m) (if (m =? n)%N then name_ops ic s line op dis n else []) = Ok (dis_get d' m).
Proof.
  intros ic s line op dis d n d' H m. unfold process_name in H. unfold name_ops.
  destruct (accepted_name n); simpl in *.
  2:{ inversion H; subst. destruct (m =? n)%N; reflexivity. }
  destruct (keep ic n); simpl in *.
  2:{ inversion H; subst. destruct (m =? n)%N; reflexivity. }
  destruct op.
  - destruct (start_range (dis_get d n) line dis) as [ls'|x] eqn:E; simpl in H; [|discriminate].
    inversion H; subst. rewrite dis_get_set.
    destruct (m =? n)%N eqn:Emn; [|reflexivity].
    apply N.eqb_eq in Emn. subst m. simpl. rewrite E. reflexivity.
  - inversion H; subst. rewrite dis_get_set.
    destruct (m =? n)%N eqn:Emn; [|reflexivity].
    apply N.eqb_eq in Emn. subst m.
    destruct (negb (adjust_line line n s =? line)); reflexivity.
Qed.

Lemma process_names_ops : forall ic s line op dis names d d',
  process_names ic s line op dis names d = Ok d' ->
  forall m, run_ops (dis_get d m) (names_ops ic s line op dis names m) = Ok (dis_get d' m).
Proof.
  induction names as [|n r IH]; intros d d' H m; simpl in H.
  - inversion H. reflexivity.
  - destruct (process_name ic s line op dis d n) as [d1|x] eqn:E; simpl in H; [|discriminate].
    unfold names_ops. simpl. eapply run_ops_app_ok.
    + eapply process_name_ops. exact E.
    + apply IH. exact H.
Qed.

Lemma process_cmds_ops : forall ic s line op cmds d d',
  process_cmds ic s line op cmds d = Ok d' ->
  forall m, run_ops (dis_get d m) (cmds_ops ic s line op cmds m) = Ok (dis_get d' m).
Proof.
  induction cmds as [|c r IH]; intros d d' H m; simpl in H.
  - inversion H. reflexivity.
  - destruct c as [ns|ns| |]; simpl.
    + destruct (process_names ic s line op true (nodup_n ns) d) as [d1|x] eqn:E; simpl in H; [|discriminate].
      eapply run_ops_app_ok; [eapply process_names_ops; exact E | apply IH; exact H].
    + destruct (process_names ic s line op false (nodup_n ns) d) as [d1|x] eqn:E; simpl in H; [|discriminate].
      eapply run_ops_app_ok; [eapply process_names_ops; exact E | apply IH; exact H].
    + apply IH. exact H.
    + inversion H. reflexivity.
Qed.

(* the function-range component evolves independently of the line sets *)
Definition fr_step (fr : branges) (ev : event) : res branges :=
  if negb (ev_call ev) && has_end fr (ev_end ev) then adjust_end fr (ev_end ev) (ev_start ev) else Ok fr.

Lemma process_event_ops : forall st ev st', process_event st ev = Ok st' ->
  (forall T, run_ops (ls_of st T) (event_ops ev T) = Ok (ls_of st' T)) /\
  fr_step (d_fr st) ev = Ok (d_fr st').
Proof.
  intros st ev st' H. unfold process_event in H.
  match type of H with bind ?X _ = _ => destruct X as [st1|x] eqn:E1; simpl in H; [|discriminate] end.
  assert (Hfr1 : d_fr st1 = d_fr st /\
          forall T, run_ops (ls_of st T) (event_ops ev T) = Ok (ls_of st1 T)).
  { unfold event_ops. destruct (c_body (ev_comment ev)) as [| |cmds].
    - destruct (c_open (ev_comment ev)).
      + destruct (start_range (d_ignore st) (c_line (ev_comment ev)) true) as [ig|x] eqn:E; simpl in E1; [|discriminate].
        inversion E1; subst. split; [reflexivity|]. intros [|n]; simpl; [rewrite E|]; reflexivity.
      + inversion E1; subst. split; [reflexivity|]. intros [|n]; reflexivity.
    - inversion E1; subst. split; [reflexivity|]. intros [|n]; reflexivity.
    - match type of E1 with bind ?X _ = _ => destruct X as [d'|x] eqn:E; simpl in E1; [|discriminate] end.
      inversion E1; subst. split; [reflexivity|]. intros [|n]; simpl; [reflexivity|].
      eapply process_cmds_ops. exact E. }
  destruct Hfr1 as [Hfr1 Hops]. unfold fr_step. rewrite <- Hfr1.
  destruct (negb (ev_call ev) && has_end (d_fr st1) (ev_end ev)).
  - destruct (adjust_end (d_fr st1) (ev_end ev) (ev_start ev)) as [fr'|x] eqn:E; simpl in H; [|discriminate].
    inversion H; subst. split; [|reflexivity]. intros T. rewrite Hops. destruct T; reflexivity.
  - inversion H; subst. split; [exact Hops | reflexivity].
Qed.

Fixpoint fr_steps (fr : branges) (evs : list event) : res branges :=
  match evs with
  | [] => Ok fr
  | ev :: r => bind (fr_step fr ev) (fun fr' => fr_steps fr' r)
  end.

Lemma process_events_ops : forall evs st st', process_events st evs = Ok st' ->
  (forall T, run_ops (ls_of st T) (events_ops evs T) = Ok (ls_of st' T)) /\
  fr_steps (d_fr st) evs = Ok (d_fr st').
Proof.
  induction evs as [|ev r IH]; intros st st' H; simpl in H.
  - inversion H. split; reflexivity.
  - destruct (process_event st ev) as [st1|x] eqn:E; simpl in H; [|discriminate].
    destruct (process_event_ops _ _ _ E) as [Ho Hf]. destruct (IH _ _ H) as [Ho2 Hf2].
    split.
    + intros T. unfold events_ops. simpl. eapply run_ops_app_ok; [apply Ho | apply Ho2].
    + simpl. rewrite Hf. simpl. exact Hf2.
Qed.

Lemma global_disable_ops : forall names d d', global_disable names d = Ok d' ->
  forall m, run_ops (dis_get d m) (global_ops names (TDis m)) = Ok (dis_get d' m).
Proof.
  induction names as [|n r IH]; intros d d' H m; simpl in H.
  - inversion H. reflexivity.
  - destruct (start_range (dis_get d n) 0 true) as [ls|x] eqn:E; simpl in H; [|discriminate].
    simpl. eapply run_ops_app_ok; [|apply (IH _ _ H)].
    rewrite dis_get_set. destruct (m =? n)%N eqn:Emn; [|reflexivity].
    apply N.eqb_eq in Emn. subst. simpl. rewrite E. reflexivity.
Qed.

Lemma build_ops : forall g fr evs st, build_events g fr evs = Ok st ->
  (forall T, run_ops ls_empty (all_ops g evs T) = Ok (ls_of st T)) /\
  fr_steps (mk_branges fr) evs = Ok (d_fr st).
Proof.
  intros g fr evs st H. unfold build_events in H.
  destruct (global_disable g []) as [d|x] eqn:E; simpl in H; [|discriminate].
  destruct (process_events_ops _ _ _ H) as [Ho Hf]. split; [|exact Hf].
  intros T. unfold all_ops. eapply run_ops_app_ok; [|apply Ho].
  destruct T as [|m]; [reflexivity|]. simpl ls_of. apply (global_disable_ops _ _ _ E m).
Qed.

(* ------------------------------------------------------------------------------------------------ *)
(* A trailing disable / type: ignore silences                                                       *)

Definition sets_to (v : bool) (ops : list lsop) : Prop :=
  Forall (fun o => match o with OSet _ m => m = v | ORange _ _ => True end) ops.

Lemma last_set_app : forall a b l,
  last_set (a ++ b) l = match last_set b l with Some v => Some v | None => last_set a l end.
Proof.
  induction a as [|o r IH]; intros b l; simpl.
  - destruct (last_set b l); reflexivity.
  - destruct o as [l' m|p m]; rewrite IH; destruct (last_set b l); reflexivity.
Qed.

Lemma sets_to_last : forall v ops l w, sets_to v ops -> last_set ops l = Some w -> w = v.
Proof.
  induction ops as [|o r IH]; intros l w H E; simpl in E; [discriminate|].
  inversion H; subst. destruct o as [l' m|p m].
  - destruct (last_set r l) eqn:E2.
    + inversion E; subst. eapply IH; eauto.
    + destruct (l =? l'); inversion E; subst. reflexivity.
  - eapply IH; eauto.
Qed.

Lemma sets_to_app : forall v a b, sets_to v a -> sets_to v b -> sets_to v (a ++ b).
Proof. intros. apply Forall_app. split; assumption. Qed.

Lemma name_ops_sets : forall ic s line op dis n, sets_to dis (name_ops ic s line op dis n).
Proof.
  intros. unfold name_ops, sets_to.
  destruct (accepted_name n && keep ic n); [|constructor].
  destruct op; [repeat constructor|].
  destruct (negb (adjust_line line n s =? line)); repeat constructor.
Qed.

Lemma names_ops_sets : forall ic s line op dis names m, sets_to dis (names_ops ic s line op dis names m).
Proof.
  induction names as [|n r IH]; intros m; unfold names_ops; simpl; [constructor|].
  apply sets_to_app; [|apply IH]. destruct (m =? n)%N; [apply name_ops_sets | constructor].
Qed.

Lemma name_ops_open : forall ic s line dis n, sets_to true (name_ops ic s line true dis n).
Proof.
  intros. unfold name_ops, sets_to. destruct (accepted_name n && keep ic n); repeat constructor.
Qed.

Lemma names_ops_open : forall ic s line dis names m, sets_to true (names_ops ic s line true dis names m).
Proof.
  induction names as [|n r IH]; intros m; unfold names_ops; simpl; [constructor|].
  apply sets_to_app; [|apply IH]. destruct (m =? n)%N; [apply name_ops_open | constructor].
Qed.

Lemma mem_n_in : forall x l, mem_n x l = true <-> In x l.
Proof.
  intros. unfold mem_n. rewrite existsb_exists. split.
  - intros (y & Hy & E). apply N.eqb_eq in E. subst. exact Hy.
  - intros H. exists x. split; [exact H | apply N.eqb_refl].
Qed.

Lemma names_ops_notin : forall ic s line op dis names m, ~ In m names ->
  names_ops ic s line op dis names m = [].
Proof.
  induction names as [|n r IH]; intros m H; unfold names_ops; simpl; [reflexivity|].
  destruct (m =? n)%N eqn:E.
  - apply N.eqb_eq in E. subst. exfalso. apply H. left. reflexivity.
  - simpl. apply IH. intros Hin. apply H. right. exact Hin.
Qed.

Lemma names_ops_notmem : forall ic s line op dis ns m, mem_n m ns = false ->
  names_ops ic s line op dis (nodup_n ns) m = [].
Proof.
  intros. apply names_ops_notin. intros Hin. unfold nodup_n in Hin. apply nodup_In in Hin.
  apply mem_n_in in Hin. congruence.
Qed.

Lemma cmds_ops_open : forall ic s line cmds m, sets_to true (cmds_ops ic s line true cmds m).
Proof.
  induction cmds as [|c r IH]; intros m; simpl; [constructor|].
  destruct c; try (apply sets_to_app; [apply names_ops_open | apply IH]); [apply IH | constructor].
Qed.

Lemma cmds_ops_noenable : forall ic s line op cmds m, existsb (cmd_enables m) cmds = false ->
  sets_to true (cmds_ops ic s line op cmds m).
Proof.
  induction cmds as [|c r IH]; intros m H; simpl in *; [constructor|].
  apply orb_false_iff in H. destruct H as [H1 H2].
  destruct c as [ns|ns| |]; simpl in *.
  - apply sets_to_app; [apply names_ops_sets | apply IH; exact H2].
  - rewrite names_ops_notmem; [|exact H1]. simpl. apply IH. exact H2.
  - apply IH. exact H2.
  - constructor.
Qed.

Lemma event_ops_noenable : forall ev E, trailing_enable_of E (ev_comment ev) = false ->
  sets_to true (event_ops ev (TDis E)).
Proof.
  intros ev E H. unfold event_ops, trailing_enable_of in *.
  destruct (c_body (ev_comment ev)) as [| |cmds]; try constructor.
  destruct (c_open (ev_comment ev)); simpl in H.
  - apply cmds_ops_open.
  - apply cmds_ops_noenable. exact H.
Qed.

Lemma events_ops_noenable : forall D E,
  Forall (fun ev => trailing_enable_of E (ev_comment ev) = false) D ->
  sets_to true (events_ops D (TDis E)).
Proof.
  induction 1; unfold events_ops; simpl; [constructor|].
  apply sets_to_app; [apply event_ops_noenable; assumption | assumption].
Qed.

Lemma event_ops_ign_true : forall ev, sets_to true (event_ops ev TIgn).
Proof.
  intros ev. unfold event_ops. destruct (c_body (ev_comment ev)); try constructor.
  destruct (c_open (ev_comment ev)); repeat constructor.
Qed.

Lemma events_ops_ign_true : forall D, sets_to true (events_ops D TIgn).
Proof.
  induction D; unfold events_ops; simpl; [constructor|].
  apply sets_to_app; [apply event_ops_ign_true | assumption].
Qed.

Lemma events_ops_app : forall a b T, events_ops (a ++ b) T = events_ops a T ++ events_ops b T.
Proof. intros. unfold events_ops. apply flat_map_app. Qed.

Lemma events_ops_cons : forall ev b T, events_ops (ev :: b) T = event_ops ev T ++ events_ops b T.
Proof. reflexivity. Qed.

Lemma trailing_disable_ops : forall ev L E, ev_comment ev = trailing_disable L E ->
  event_ops ev (TDis E) = name_ops (ev_call ev) (ev_start ev) L false true E.
Proof.
  intros ev L E H. unfold event_ops. rewrite H. simpl.
  unfold nodup_n. simpl. unfold names_ops. simpl. rewrite N.eqb_refl. rewrite !app_nil_r. reflexivity.
Qed.

Lemma contains_dict : forall ls l b, dict_get l (ls_lines ls) = Some b -> contains ls l = b.
Proof. intros. unfold contains. rewrite H. reflexivity. Qed.

Lemma filter_error_unfold : forall st rl e l0 lr,
  e_same_file e = true -> e_line e = Some l0 -> reported_line st rl e l0 = Ok lr ->
  filter_error st rl e =
  Ok (negb (contains (d_ignore st) (eff_line lr))
      && negb (contains (dis_get (d_dis st) all_errors) (eff_line lr))
      && negb (contains (dis_get (d_dis st) (e_name e)) (eff_line lr)), Some lr).
Proof.
  intros st rl e l0 lr H1 H2 H3. unfold filter_error. rewrite H2, H1, H3. reflexivity.
Qed.

Lemma silences_lemma : forall g fr rl D1 D2 cev st e l0 lr L E,
  ev_comment cev = trailing_disable L E ->
  accepted_name E = true -> keep (ev_call cev) E = true ->
  Forall (fun ev => trailing_enable_of E (ev_comment ev) = false) D2 ->
  build_events g fr (D1 ++ cev :: D2) = Ok st ->
  e_same_file e = true -> e_line e = Some l0 -> e_name e = E ->
  reported_line st rl e l0 = Ok lr ->
  (eff_line lr = L \/ eff_line lr = adjust_line L E (ev_start cev)) ->
  filter_error st rl e = Ok (false, Some lr).
Proof.
  intros g fr rl D1 D2 cev st e l0 lr L E Hc Hacc Hkeep HD2 Hb Hsf Hl Hn Hr Hlr.
  rewrite (filter_error_unfold _ _ _ _ _ Hsf Hl Hr).
  destruct (build_ops _ _ _ _ Hb) as [Hops _]. specialize (Hops (TDis E)). simpl in Hops.
  assert (Hd : dict_get (eff_line lr) (ls_lines (dis_get (d_dis st) E)) = Some true).
  { rewrite (run_ops_lines _ _ _ Hops). unfold all_ops.
    rewrite events_ops_app, events_ops_cons, !last_set_app.
    destruct (last_set (events_ops D2 (TDis E)) (eff_line lr)) as [w|] eqn:E2.
    - f_equal. eapply sets_to_last; [|exact E2]. apply events_ops_noenable. exact HD2.
    - rewrite (trailing_disable_ops _ _ _ Hc). unfold name_ops. rewrite Hacc, Hkeep. simpl.
      destruct (adjust_line L E (ev_start cev) =? L) eqn:E3; simpl.
      + apply Z.eqb_eq in E3. rewrite E3 in *.
        assert (eff_line lr = L) by (destruct Hlr; assumption). rewrite H, Z.eqb_refl. reflexivity.
      + destruct Hlr as [H|H]; rewrite H.
        * rewrite Z.eqb_refl. destruct (L =? adjust_line L E (ev_start cev)); reflexivity.
        * rewrite Z.eqb_refl. reflexivity. }
  rewrite Hn. rewrite (contains_dict _ _ _ Hd). simpl. rewrite andb_false_r. reflexivity.
Qed.

Lemma ignore_silences_lemma : forall g fr rl D1 D2 cev st e l0 lr L,
  ev_comment cev = trailing_ignore L ->
  build_events g fr (D1 ++ cev :: D2) = Ok st ->
  e_same_file e = true -> e_line e = Some l0 ->
  reported_line st rl e l0 = Ok lr ->
  (eff_line lr = L \/ eff_line lr = ev_start cev) ->
  filter_error st rl e = Ok (false, Some lr).
Proof.
  intros g fr rl D1 D2 cev st e l0 lr L Hc Hb Hsf Hl Hr Hlr.
  rewrite (filter_error_unfold _ _ _ _ _ Hsf Hl Hr).
  destruct (build_ops _ _ _ _ Hb) as [Hops _]. specialize (Hops TIgn). simpl in Hops.
  assert (Hd : dict_get (eff_line lr) (ls_lines (d_ignore st)) = Some true).
  { rewrite (run_ops_lines _ _ _ Hops). unfold all_ops. simpl.
    rewrite events_ops_app, events_ops_cons, !last_set_app.
    destruct (last_set (events_ops D2 TIgn) (eff_line lr)) as [w|] eqn:E2.
    - f_equal. eapply sets_to_last; [|exact E2]. apply events_ops_ign_true.
    - unfold event_ops. rewrite Hc. simpl.
      destruct Hlr as [H|H]; rewrite H.
      + rewrite Z.eqb_refl. destruct (L =? ev_start cev); reflexivity.
      + rewrite Z.eqb_refl. reflexivity. }
  rewrite (contains_dict _ _ _ Hd). reflexivity.
Qed.

(* ------------------------------------------------------------------------------------------------ *)
(* Frame: adding non-open-ended comments changes only the per-line entries they write               *)

Definition ls_rel (P : Z -> Prop) (a b : lineset) : Prop :=
  ls_trans a = ls_trans b /\
  forall l, ~ P l -> dict_get l (ls_lines a) = dict_get l (ls_lines b).

Lemma ls_rel_refl : forall P a, ls_rel P a a.
Proof. intros. split; auto. Qed.

Lemma contains_rel : forall P a b l, ls_rel P a b -> ~ P l -> contains a l = contains b l.
Proof. intros P a b l [Ht Hl] Hn. unfold contains. rewrite (Hl l Hn), Ht. reflexivity. Qed.

Lemma start_range_rel : forall a b p m a', ls_trans a = ls_trans b -> start_range a p m = Ok a' ->
  exists b', start_range b p m = Ok b' /\ ls_trans a' = ls_trans b' /\
             ls_lines a' = ls_lines a /\ ls_lines b' = ls_lines b.
Proof.
  intros a b p m a' Ht H. unfold start_range in *. rewrite <- Ht.
  destruct (p <? last (ls_trans a) (-1)); [discriminate|].
  destruct (Bool.eqb m (Nat.odd (length (ls_trans a)))).
  - inversion H; subst. exists b. auto.
  - destruct (p =? last (ls_trans a) (-1)).
    + destruct (ls_trans a) eqn:E; [discriminate|]. inversion H; subst. eexists. split; [reflexivity|]. auto.
    + inversion H; subst. eexists. split; [reflexivity|]. auto.
Qed.

Definition writes_in (P : Z -> Prop) (o : lsop) : Prop := exists l m, o = OSet l m /\ P l.

Lemma run_ops_inserted : forall P ops ops' Ad, inserted (writes_in P) ops ops' Ad ->
  forall ls ls' a, ls_rel P ls ls' -> run_ops ls ops = Ok a ->
  exists b, run_ops ls' ops' = Ok b /\ ls_rel P a b.
Proof.
  induction 1 as [|o D D' Ad Hins IH|o D D' Ad Ho Hins IH]; intros ls ls' a Hrel Hrun.
  - simpl in *. inversion Hrun; subst. eauto.
  - simpl in *. destruct o as [l m|p m]; simpl in *.
    + apply (IH (set_line ls l m) (set_line ls' l m)); auto.
      destruct Hrel as [Ht Hl]. split; [exact Ht|]. intros l1 Hn. simpl. unfold dict_set. simpl.
      destruct (l1 =? l); auto.
    + destruct (start_range ls p m) as [ls1|x] eqn:E; simpl in Hrun; [|discriminate].
      destruct Hrel as [Ht Hl].
      destruct (start_range_rel _ _ _ _ _ Ht E) as (ls1' & E' & Ht1 & Hl1 & Hl1').
      rewrite E'. simpl. apply (IH ls1 ls1'); auto.
      split; [exact Ht1|]. intros l1 Hn. rewrite Hl1, Hl1'. auto.
  - destruct Ho as (l & m & -> & HP). simpl. apply (IH ls (set_line ls' l m)); auto.
    destruct Hrel as [Ht Hl]. split; [exact Ht|]. intros l1 Hn. simpl. unfold dict_set. simpl.
    destruct (l1 =? l) eqn:E; auto. apply Z.eqb_eq in E. subst. contradiction.
Qed.

Lemma inserted_refl : forall {A} (P : A -> Prop) l, inserted P l l [].
Proof. induction l; constructor; auto. Qed.

Lemma inserted_all : forall {A} (P : A -> Prop) l, Forall P l -> inserted P [] l l.
Proof. induction 1; constructor; auto. Qed.

Lemma inserted_app : forall {A} (P : A -> Prop) a a' x b b' y,
  inserted P a a' x -> inserted P b b' y -> inserted P (a ++ b) (a' ++ b') (x ++ y).
Proof. induction 1; intros; simpl; auto; constructor; auto. Qed.

Lemma inserted_weaken : forall {A} (P Q : A -> Prop) a a' x,
  (forall e, P e -> Q e) -> inserted P a a' x -> inserted Q a a' x.
Proof. induction 2; constructor; auto. Qed.

Lemma inserted_in : forall {A} (P : A -> Prop) a a' x, inserted P a a' x ->
  forall x0, incl x x0 -> inserted (fun e => P e /\ In e x0) a a' x.
Proof.
  induction 1; intros x0 Hi; constructor; auto.
  - split; auto. apply Hi. left. reflexivity.
  - apply IHinserted. intros e He. apply Hi. right. exact He.
Qed.

Lemma events_ops_inserted : forall (Pev : event -> Prop) Q T D D' Ad,
  (forall ev, Pev ev -> Forall Q (event_ops ev T)) ->
  inserted Pev D D' Ad ->
  exists Ad', inserted Q (events_ops D T) (events_ops D' T) Ad'.
Proof.
  intros Pev Q T D D' Ad HP. induction 1 as [|ev D D' Ad Hins [Ad' IH]|ev D D' Ad Hev Hins [Ad' IH]].
  - exists []. constructor.
  - exists ([] ++ Ad'). rewrite !events_ops_cons. apply inserted_app; [apply inserted_refl | exact IH].
  - exists (event_ops ev T ++ Ad'). rewrite events_ops_cons.
    change (events_ops D T) with ([] ++ events_ops D T).
    apply inserted_app; [apply inserted_all; apply HP; exact Hev | exact IH].
Qed.

Lemma frame_rel : forall (Pev : event -> Prop) P T g fr D D' Ad st st',
  (forall ev, Pev ev -> Forall (writes_in P) (event_ops ev T)) ->
  inserted Pev D D' Ad ->
  build_events g fr D = Ok st -> build_events g fr D' = Ok st' ->
  ls_rel P (ls_of st T) (ls_of st' T).
Proof.
  intros Pev P T g fr D D' Ad st st' HP Hins Hb Hb'.
  destruct (build_ops _ _ _ _ Hb) as [Ho _]. destruct (build_ops _ _ _ _ Hb') as [Ho' _].
  specialize (Ho T). specialize (Ho' T). unfold all_ops in *.
  destruct (events_ops_inserted Pev (writes_in P) T D D' Ad HP Hins) as [Ad' Hi].
  assert (Hi2 : inserted (writes_in P) (global_ops g T ++ events_ops D T) (global_ops g T ++ events_ops D' T) ([] ++ Ad')).
  { apply inserted_app; [apply inserted_refl | exact Hi]. }
  destruct (run_ops_inserted _ _ _ _ Hi2 ls_empty ls_empty _ (ls_rel_refl _ _) Ho) as (b & Hb2 & Hrel).
  rewrite Ho' in Hb2. inversion Hb2; subst. exact Hrel.
Qed.

(* adding events never makes the construction raise *)
Lemma run_ops_deterministic : forall ls ops a b, run_ops ls ops = Ok a -> run_ops ls ops = Ok b -> a = b.
Proof. intros. congruence. Qed.

Lemma trailing_disable_event_writes : forall ev L E Ad n,
  ev_comment ev = trailing_disable L E -> In ev Ad ->
  Forall (writes_in (fun l => n = E /\ In l (touched_disable E L Ad))) (event_ops ev (TDis n)).
Proof.
  intros ev L E Ad n Hc Hin. destruct (N.eq_dec n E) as [->|Hne].
  - rewrite (trailing_disable_ops _ _ _ Hc). unfold name_ops.
    assert (Ht : forall l, accepted_name E && keep (ev_call ev) E = true ->
                 In l [L; adjust_line L E (ev_start ev)] -> In l (touched_disable E L Ad)).
    { intros l Hk Hl. unfold touched_disable. apply in_flat_map. exists ev. split; [exact Hin|]. rewrite Hk. exact Hl. }
    destruct (accepted_name E && keep (ev_call ev) E) eqn:Hk; [|constructor].
    destruct (negb (adjust_line L E (ev_start ev) =? L)); repeat constructor;
      eexists; eexists; (split; [reflexivity|]); (split; [reflexivity|]); apply Ht; simpl; auto.
  - unfold event_ops. rewrite Hc. simpl. unfold nodup_n. simpl. unfold names_ops. simpl.
    destruct (n =? E)%N eqn:E1; [apply N.eqb_eq in E1; contradiction|]. constructor.
Qed.

Lemma trailing_disable_event_ign : forall ev L E (P : Z -> Prop),
  ev_comment ev = trailing_disable L E -> Forall (writes_in P) (event_ops ev TIgn).
Proof. intros ev L E P Hc. unfold event_ops. rewrite Hc. constructor. Qed.

Lemma trailing_ignore_event_writes : forall ev L Ad,
  ev_comment ev = trailing_ignore L -> In ev Ad ->
  Forall (writes_in (fun l => In l (touched_ignore L Ad))) (event_ops ev TIgn).
Proof.
  intros ev L Ad Hc Hin. unfold event_ops. rewrite Hc. simpl.
  assert (Ht : forall l, In l [L; ev_start ev] -> In l (touched_ignore L Ad)).
  { intros l Hl. unfold touched_ignore. apply in_flat_map. exists ev. split; assumption. }
  repeat constructor; eexists; eexists; (split; [reflexivity|]); apply Ht; simpl; auto.
Qed.

Lemma trailing_ignore_event_dis : forall ev L n (P : Z -> Prop),
  ev_comment ev = trailing_ignore L -> Forall (writes_in P) (event_ops ev (TDis n)).
Proof. intros ev L n P Hc. unfold event_ops. rewrite Hc. constructor. Qed.

Lemma disable_frame_lemma : forall g fr rl D D' Ad L E st st',
  inserted (fun ev => ev_comment ev = trailing_disable L E) D D' Ad ->
  build_events g fr D = Ok st -> build_events g fr D' = Ok st' ->
  forall e l0 lr, e_same_file e = true -> e_line e = Some l0 ->
    reported_line st rl e l0 = Ok lr -> reported_line st' rl e l0 = Ok lr ->
    (e_name e <> E /\ E <> all_errors) \/ ~ In (eff_line lr) (touched_disable E L Ad) ->
    filter_error st' rl e = filter_error st rl e.
Proof.
  intros g fr rl D D' Ad L E st st' Hins Hb Hb' e l0 lr Hsf Hl Hr Hr' Hcase.
  rewrite (filter_error_unfold _ _ _ _ _ Hsf Hl Hr), (filter_error_unfold _ _ _ _ _ Hsf Hl Hr').
  pose proof (inserted_in _ _ _ _ Hins Ad (incl_refl _)) as Hins2.
  assert (Hign : contains (d_ignore st) (eff_line lr) = contains (d_ignore st') (eff_line lr)).
  { apply (contains_rel (fun _ => False)); [|tauto].
    apply (frame_rel _ _ TIgn g fr D D' Ad st st') with (2 := Hins2); auto.
    intros ev [Hc _]. eapply trailing_disable_event_ign. exact Hc. }
  assert (Hdis : forall n, n <> E \/ ~ In (eff_line lr) (touched_disable E L Ad) ->
            contains (dis_get (d_dis st) n) (eff_line lr) = contains (dis_get (d_dis st') n) (eff_line lr)).
  { intros n Hn. apply (contains_rel (fun l => n = E /\ In l (touched_disable E L Ad))); [|tauto].
    apply (frame_rel _ _ (TDis n) g fr D D' Ad st st') with (2 := Hins2); auto.
    intros ev [Hc Hin]. apply trailing_disable_event_writes; assumption. }
  rewrite Hign, (Hdis all_errors), (Hdis (e_name e)); [reflexivity | |].
  - destruct Hcase as [[H1 H2]|H]; auto.
  - destruct Hcase as [[H1 H2]|H]; auto.
Qed.

Lemma ignore_frame_lemma : forall g fr rl D D' Ad L st st',
  inserted (fun ev => ev_comment ev = trailing_ignore L) D D' Ad ->
  build_events g fr D = Ok st -> build_events g fr D' = Ok st' ->
  forall e l0 lr, e_same_file e = true -> e_line e = Some l0 ->
    reported_line st rl e l0 = Ok lr -> reported_line st' rl e l0 = Ok lr ->
    ~ In (eff_line lr) (touched_ignore L Ad) ->
    filter_error st' rl e = filter_error st rl e.
Proof.
  intros g fr rl D D' Ad L st st' Hins Hb Hb' e l0 lr Hsf Hl Hr Hr' Hcase.
  rewrite (filter_error_unfold _ _ _ _ _ Hsf Hl Hr), (filter_error_unfold _ _ _ _ _ Hsf Hl Hr').
  pose proof (inserted_in _ _ _ _ Hins Ad (incl_refl _)) as Hins2.
  assert (Hign : contains (d_ignore st) (eff_line lr) = contains (d_ignore st') (eff_line lr)).
  { apply (contains_rel (fun l => In l (touched_ignore L Ad))); [|exact Hcase].
    apply (frame_rel _ _ TIgn g fr D D' Ad st st') with (2 := Hins2); auto.
    intros ev [Hc Hin]. apply trailing_ignore_event_writes; assumption. }
  assert (Hdis : forall n,
            contains (dis_get (d_dis st) n) (eff_line lr) = contains (dis_get (d_dis st') n) (eff_line lr)).
  { intros n. apply (contains_rel (fun _ => False)); [|tauto].
    apply (frame_rel _ _ (TDis n) g fr D D' Ad st st') with (2 := Hins2); auto.
    intros ev [Hc _]. eapply trailing_ignore_event_dis. exact Hc. }
  rewrite Hign, (Hdis all_errors), (Hdis (e_name e)). reflexivity.
Qed.

Lemma plain_reported : forall st rl e l0, plain_error rl e l0 -> reported_line st rl e l0 = Ok l0.
Proof. intros st rl e l0 H. unfold reported_line, plain_error in *. rewrite H. reflexivity. Qed.

(* ------------------------------------------------------------------------------------------------ *)
(* Converse of the decomposition: the construction raises only if some line-set history raises      *)

Lemma run_ops_app_raise_l : forall a b ls x, run_ops ls a = Raise x -> run_ops ls (a ++ b) = Raise x.
Proof. intros. rewrite run_ops_app, H. reflexivity. Qed.

Lemma run_ops_app_raise_r : forall a b ls ls1 x,
  run_ops ls a = Ok ls1 -> run_ops ls1 b = Raise x -> run_ops ls (a ++ b) = Raise x.
Proof. intros. rewrite run_ops_app, H. simpl. exact H0. Qed.

Lemma process_name_raise : forall ic s line op dis d n x,
  process_name ic s line op dis d n = Raise x ->
  run_ops (dis_get d n) (name_ops ic s line op dis n) = Raise x.
Proof.
  intros ic s line op dis d n x H. unfold process_name in H. unfold name_ops.
  destruct (accepted_name n); simpl in *; [|discriminate].
  destruct (keep ic n); simpl in *; [|discriminate].
  destruct op; [|discriminate].
  destruct (start_range (dis_get d n) line dis) as [ls'|y] eqn:E; simpl in H; [discriminate|].
  inversion H; subst. simpl. rewrite E. reflexivity.
Qed.

Lemma process_names_raise : forall ic s line op dis names d x,
  process_names ic s line op dis names d = Raise x ->
  exists m, run_ops (dis_get d m) (names_ops ic s line op dis names m) = Raise x.
Proof.
  induction names as [|n r IH]; intros d x H; simpl in H; [discriminate|].
  destruct (process_name ic s line op dis d n) as [d1|y] eqn:E; simpl in H.
  - destruct (IH _ _ H) as [m Hm]. exists m. unfold names_ops. simpl.
    eapply run_ops_app_raise_r; [eapply process_name_ops; exact E | exact Hm].
  - inversion H; subst. exists n. unfold names_ops. simpl. rewrite N.eqb_refl.
    apply run_ops_app_raise_l. apply process_name_raise. exact E.
Qed.

Lemma process_cmds_raise : forall ic s line op cmds d x,
  process_cmds ic s line op cmds d = Raise x ->
  exists m, run_ops (dis_get d m) (cmds_ops ic s line op cmds m) = Raise x.
Proof.
  induction cmds as [|c r IH]; intros d x H; simpl in H; [discriminate|].
  destruct c as [ns|ns| |]; simpl.
  - destruct (process_names ic s line op true (nodup_n ns) d) as [d1|y] eqn:E; simpl in H.
    + destruct (IH _ _ H) as [m Hm]. exists m.
      eapply run_ops_app_raise_r; [eapply process_names_ops; exact E | exact Hm].
    + inversion H; subst. destruct (process_names_raise _ _ _ _ _ _ _ _ E) as [m Hm]. exists m.
      apply run_ops_app_raise_l. exact Hm.
  - destruct (process_names ic s line op false (nodup_n ns) d) as [d1|y] eqn:E; simpl in H.
    + destruct (IH _ _ H) as [m Hm]. exists m.
      eapply run_ops_app_raise_r; [eapply process_names_ops; exact E | exact Hm].
    + inversion H; subst. destruct (process_names_raise _ _ _ _ _ _ _ _ E) as [m Hm]. exists m.
      apply run_ops_app_raise_l. exact Hm.
  - apply IH. exact H.
  - discriminate.
Qed.

Lemma adjust_end_ok : forall fr e s, has_end fr e = true -> exists fr', adjust_end fr e s = Ok fr'.
Proof.
  intros fr e s H. unfold has_end, adjust_end in *. destruct (dict_get e (br_e2s fr)); [eauto | discriminate].
Qed.

Lemma process_event_raise : forall st ev x, process_event st ev = Raise x ->
  exists T, run_ops (ls_of st T) (event_ops ev T) = Raise x.
Proof.
  intros st ev x H. unfold process_event in H.
  match type of H with bind ?X _ = _ => destruct X as [st1|y] eqn:E1; simpl in H end.
  - destruct (negb (ev_call ev) && has_end (d_fr st1) (ev_end ev)) eqn:Eg; [|discriminate].
    apply andb_true_iff in Eg. destruct Eg as [_ Eg].
    destruct (adjust_end_ok _ _ (ev_start ev) Eg) as [fr' Efr]. rewrite Efr in H. discriminate.
  - inversion H; subst. unfold event_ops. destruct (c_body (ev_comment ev)) as [| |cmds].
    + destruct (c_open (ev_comment ev)); [|discriminate].
      destruct (start_range (d_ignore st) (c_line (ev_comment ev)) true) as [ig|z] eqn:E; simpl in E1; [discriminate|].
      inversion E1; subst. exists TIgn. simpl. rewrite E. reflexivity.
    + discriminate.
    + match type of E1 with bind ?X _ = _ => destruct X as [d'|z] eqn:E; simpl in E1; [discriminate|] end.
      inversion E1; subst. destruct (process_cmds_raise _ _ _ _ _ _ _ E) as [m Hm]. exists (TDis m). exact Hm.
Qed.

Lemma process_events_raise : forall evs st x, process_events st evs = Raise x ->
  exists T, run_ops (ls_of st T) (events_ops evs T) = Raise x.
Proof.
  induction evs as [|ev r IH]; intros st x H; simpl in H; [discriminate|].
  destruct (process_event st ev) as [st1|y] eqn:E; simpl in H.
  - destruct (IH _ _ H) as [T HT]. exists T. rewrite events_ops_cons.
    eapply run_ops_app_raise_r; [|exact HT]. apply (proj1 (process_event_ops _ _ _ E)).
  - inversion H; subst. destruct (process_event_raise _ _ _ E) as [T HT]. exists T.
    rewrite events_ops_cons. apply run_ops_app_raise_l. exact HT.
Qed.

Lemma global_disable_raise : forall names d x, global_disable names d = Raise x ->
  exists m, run_ops (dis_get d m) (global_ops names (TDis m)) = Raise x.
Proof.
  induction names as [|n r IH]; intros d x H; simpl in H; [discriminate|].
  destruct (start_range (dis_get d n) 0 true) as [ls|y] eqn:E; simpl in H.
  - destruct (IH _ _ H) as [m Hm]. exists m. simpl. eapply run_ops_app_raise_r; [|exact Hm].
    rewrite dis_get_set. destruct (m =? n)%N eqn:Emn; [|reflexivity].
    apply N.eqb_eq in Emn. subst. simpl. rewrite E. reflexivity.
  - inversion H; subst. exists n. simpl. rewrite N.eqb_refl. apply run_ops_app_raise_l. simpl. rewrite E. reflexivity.
Qed.

Lemma build_raise : forall g fr evs x, build_events g fr evs = Raise x ->
  exists T, run_ops ls_empty (all_ops g evs T) = Raise x.
Proof.
  intros g fr evs x H. unfold build_events in H.
  destruct (global_disable g []) as [d|y] eqn:E; simpl in H.
  - destruct (process_events_raise _ _ _ H) as [T HT]. exists T. unfold all_ops.
    eapply run_ops_app_raise_r; [|exact HT].
    destruct T as [|m]; [reflexivity|]. simpl ls_of. apply (global_disable_ops _ _ _ E m).
  - inversion H; subst. destruct (global_disable_raise _ _ _ E) as [m Hm]. exists (TDis m).
    unfold all_ops. apply run_ops_app_raise_l. exact Hm.
Qed.

(* inserting events that only call set_line keeps the construction defined *)
Lemma insert_sets_builds : forall (Pev : event -> Prop) g fr D D' Ad st,
  (forall ev T, Pev ev -> Forall (writes_in (fun _ => True)) (event_ops ev T)) ->
  inserted Pev D D' Ad -> build_events g fr D = Ok st ->
  exists st', build_events g fr D' = Ok st'.
Proof.
  intros Pev g fr D D' Ad st HP Hins Hb.
  destruct (build_events g fr D') as [st'|x] eqn:E; [eauto|]. exfalso.
  destruct (build_raise _ _ _ _ E) as [T HT].
  destruct (build_ops _ _ _ _ Hb) as [Ho _]. specialize (Ho T). unfold all_ops in *.
  destruct (events_ops_inserted Pev (writes_in (fun _ => True)) T D D' Ad (fun ev H => HP ev T H) Hins) as [Ad' Hi].
  assert (Hi2 : inserted (writes_in (fun _ => True)) (global_ops g T ++ events_ops D T) (global_ops g T ++ events_ops D' T) ([] ++ Ad')).
  { apply inserted_app; [apply inserted_refl | exact Hi]. }
  destruct (run_ops_inserted _ _ _ _ Hi2 ls_empty ls_empty _ (ls_rel_refl _ _) Ho) as (b & Hb2 & _).
  congruence.
Qed.

Lemma writes_in_weaken : forall (P Q : Z -> Prop) ops, (forall l, P l -> Q l) ->
  Forall (writes_in P) ops -> Forall (writes_in Q) ops.
Proof.
  intros P Q ops H. apply Forall_impl. intros o (l & m & -> & HP). exists l, m. auto.
Qed.

Lemma trailing_disable_builds : forall g fr D D' Ad L E st,
  inserted (fun ev => ev_comment ev = trailing_disable L E) D D' Ad ->
  build_events g fr D = Ok st -> exists st', build_events g fr D' = Ok st'.
Proof.
  intros g fr D D' Ad L E st Hins Hb.
  pose proof (inserted_in _ _ _ _ Hins Ad (incl_refl _)) as Hins2.
  eapply insert_sets_builds with (2 := Hins2); [|exact Hb].
  intros ev [|n] [Hc Hin].
  - eapply trailing_disable_event_ign. exact Hc.
  - eapply writes_in_weaken; [|apply (trailing_disable_event_writes ev L E Ad n Hc Hin)]. auto.
Qed.

Lemma trailing_ignore_builds : forall g fr D D' Ad L st,
  inserted (fun ev => ev_comment ev = trailing_ignore L) D D' Ad ->
  build_events g fr D = Ok st -> exists st', build_events g fr D' = Ok st'.
Proof.
  intros g fr D D' Ad L st Hins Hb.
  pose proof (inserted_in _ _ _ _ Hins Ad (incl_refl _)) as Hins2.
  eapply insert_sets_builds with (2 := Hins2); [|exact Hb].
  intros ev [|n] [Hc Hin].
  - eapply writes_in_weaken; [|apply (trailing_ignore_event_writes ev L Ad Hc Hin)]. auto.
  - eapply trailing_ignore_event_dis. exact Hc.
Qed.

(* ------------------------------------------------------------------------------------------------ *)
(* Stand-alone directives                                                                           *)

Definition sets_only (ops : list lsop) : Prop :=
  Forall (fun o => match o with OSet _ _ => True | ORange _ _ => False end) ops.
Definition ranges_at (p : Z) (ops : list lsop) : Prop :=
  Forall (fun o => exists m, o = ORange p m) ops.

Lemma range_last_app : forall a b l,
  range_last (a ++ b) l = match range_last b l with Some v => Some v | None => range_last a l end.
Proof.
  induction a as [|o r IH]; intros b l; simpl.
  - destruct (range_last b l); reflexivity.
  - destruct o as [l' m|p m]; rewrite IH; destruct (range_last b l); reflexivity.
Qed.

Lemma mono_weaken : forall ops b b', b <= b' -> mono_from b' ops -> mono_from b ops.
Proof.
  induction ops as [|o r IH]; intros b b' Hb H; simpl in *; auto.
  destruct o; [eapply IH; eauto|]. destruct H. split; [lia | assumption].
Qed.

Lemma mono_from_app : forall a c b, mono_from b (a ++ c) <-> mono_from b a /\ mono_from (last_bound b a) c.
Proof.
  induction a as [|o r IH]; intros c b; simpl.
  - tauto.
  - destruct o; [apply IH|]. rewrite IH. tauto.
Qed.

Lemma last_bound_ge : forall ops b, mono_from b ops -> b <= last_bound b ops.
Proof.
  induction ops as [|o r IH]; intros b H; simpl in *; [lia|].
  destruct o; [apply IH; assumption|]. destruct H. specialize (IH _ H0). lia.
Qed.

Lemma mono_range_none : forall ops b l, mono_from b ops -> l < b -> range_last ops l = None.
Proof.
  induction ops as [|o r IH]; intros b l H Hl; simpl in *; [reflexivity|].
  destruct o as [l' m|p m]; [eapply IH; eauto|]. destruct H as [Hbp H].
  rewrite (IH p l H); [|lia]. destruct (p <=? l) eqn:E; [apply Z.leb_le in E; lia | reflexivity].
Qed.

Lemma sets_only_range : forall ops l, sets_only ops -> range_last ops l = None.
Proof.
  induction 1 as [|o r Ho Hr IH]; simpl; [reflexivity|]. destruct o; [exact IH | contradiction].
Qed.

Lemma sets_only_bound : forall ops b, sets_only ops -> last_bound b ops = b.
Proof.
  induction 1 as [|o r Ho Hr IH]; simpl; [reflexivity|]. destruct o; [exact IH | contradiction].
Qed.

Lemma sets_only_mono : forall ops b, sets_only ops -> mono_from b ops.
Proof.
  induction 1 as [|o r Ho Hr IH]; simpl; [exact I|]. destruct o; [exact IH | contradiction].
Qed.

Lemma last_set_range_skip : forall a p m b l, last_set (a ++ ORange p m :: b) l = last_set (a ++ b) l.
Proof. intros. rewrite !last_set_app. simpl. reflexivity. Qed.

Definition rl_or (ops : list lsop) (l : Z) : bool :=
  match range_last ops l with Some m => m | None => false end.

Lemma run_from_empty : forall ops ls, mono_from 0 ops -> run_ops ls_empty ops = Ok ls ->
  inv_b (last_bound 0 ops) ls /\ (forall l, sem ls l = rl_or ops l) /\
  (forall l, dict_get l (ls_lines ls) = last_set ops l).
Proof.
  intros ops ls Hm Hr.
  destruct (run_ops_sem ops ls_empty 0) as (ls' & H1 & H2 & H3 & H4); auto; [lia | apply inv_b_empty|].
  rewrite Hr in H1. inversion H1; subst ls'. split; [exact H3|]. split.
  - intros l. rewrite H4. unfold rl_or. destruct (range_last ops l); reflexivity.
  - intros l. rewrite (run_ops_lines _ _ _ Hr l). simpl. destruct (last_set ops l); reflexivity.
Qed.

Lemma contains_from_empty : forall ops ls l, mono_from 0 ops -> run_ops ls_empty ops = Ok ls ->
  contains ls l = match last_set ops l with Some b => b | None => rl_or ops l end.
Proof.
  intros ops ls l Hm Hr. destruct (run_from_empty _ _ Hm Hr) as (Hi & Hs & Hd).
  rewrite contains_sem; [|apply Hi]. rewrite Hd, Hs. reflexivity.
Qed.

(* disable at L ... enable at M *)
Lemma ops_core_pair : forall X Omid O2 L M ls1 a b,
  mono_from 0 (X ++ ORange L true :: Omid ++ ORange M false :: O2) ->
  sets_only Omid -> L < M ->
  run_ops ls_empty X = Ok ls1 -> Nat.odd (length (ls_trans ls1)) = false ->
  run_ops ls_empty (X ++ Omid ++ O2) = Ok a ->
  run_ops ls_empty (X ++ ORange L true :: Omid ++ ORange M false :: O2) = Ok b ->
  forall l, contains b l =
    if (L <=? l) && (l <? M)
    then match dict_get l (ls_lines a) with Some v => v | None => true end
    else contains a l.
Proof.
  intros X Omid O2 L M ls1 a b Hm Hso HLM Hr1 Hoff Hra Hrb l.
  pose proof Hm as Hm0.
  apply mono_from_app in Hm. destruct Hm as [HmX Hm]. simpl in Hm. destruct Hm as [HbX Hm].
  apply mono_from_app in Hm. destruct Hm as [_ Hm]. rewrite (sets_only_bound _ _ Hso) in Hm.
  simpl in Hm. destruct Hm as [_ HmO2].
  assert (HmA : mono_from 0 (X ++ Omid ++ O2)).
  { apply mono_from_app. split; [exact HmX|]. apply mono_from_app. split; [apply sets_only_mono; exact Hso|].
    rewrite (sets_only_bound _ _ Hso). eapply mono_weaken; [|exact HmO2]. lia. }
  destruct (run_from_empty _ _ HmX Hr1) as (Hi1 & Hs1 & _).
  assert (HoffX : forall l', L <= l' -> rl_or X l' = false).
  { intros l' Hl'. rewrite <- Hs1. unfold sem. rewrite count_le_all; [exact Hoff|].
    destruct Hi1 as [_ Hall]. eapply Forall_impl; [|exact Hall]. simpl. intros. lia. }
  destruct (run_from_empty _ _ HmA Hra) as (_ & _ & Hda).
  rewrite (contains_from_empty _ _ l Hm0 Hrb), (contains_from_empty _ _ l HmA Hra), Hda.
  replace (last_set (X ++ ORange L true :: Omid ++ ORange M false :: O2) l)
    with (last_set (X ++ Omid ++ O2) l).
  2:{ rewrite last_set_range_skip. rewrite !app_assoc. rewrite last_set_range_skip. reflexivity. }
  destruct (last_set (X ++ Omid ++ O2) l) as [v|]; [destruct ((L <=? l) && (l <? M)); reflexivity|].
  unfold rl_or.
  change (X ++ ORange L true :: Omid ++ ORange M false :: O2)
    with (X ++ [ORange L true] ++ Omid ++ [ORange M false] ++ O2).
  rewrite !range_last_app. rewrite (sets_only_range _ l Hso). simpl.
  destruct (L <=? l) eqn:E1; destruct (l <? M) eqn:E2; simpl.
  - apply Z.ltb_lt in E2. rewrite (mono_range_none _ _ _ HmO2 E2).
    destruct (M <=? l) eqn:E3; [apply Z.leb_le in E3; lia|]. reflexivity.
  - apply Z.ltb_ge in E2. apply Z.leb_le in E1.
    destruct (range_last O2 l); [reflexivity|].
    destruct (M <=? l) eqn:E3; [|apply Z.leb_gt in E3; lia].
    specialize (HoffX l E1). unfold rl_or in HoffX. rewrite HoffX. reflexivity.
  - apply Z.ltb_lt in E2. rewrite (mono_range_none _ _ _ HmO2 E2).
    destruct (M <=? l) eqn:E3; [apply Z.leb_le in E3; lia|]. reflexivity.
  - apply Z.ltb_ge in E2. apply Z.leb_gt in E1. lia.
Qed.

(* disable (or type: ignore) at L with nothing that ends it *)
Lemma ops_core_eof : forall X O2 L a b,
  mono_from 0 (X ++ ORange L true :: O2) ->
  (forall l m, range_last O2 l = Some m -> m = true) ->
  run_ops ls_empty (X ++ O2) = Ok a ->
  run_ops ls_empty (X ++ ORange L true :: O2) = Ok b ->
  forall l, contains b l =
    if L <=? l
    then match dict_get l (ls_lines a) with Some v => v | None => true end
    else contains a l.
Proof.
  intros X O2 L a b Hm Htrue Hra Hrb l.
  pose proof Hm as Hm0.
  apply mono_from_app in Hm. destruct Hm as [HmX Hm]. simpl in Hm. destruct Hm as [HbX HmO2].
  assert (HmA : mono_from 0 (X ++ O2)).
  { apply mono_from_app. split; [exact HmX|]. eapply mono_weaken; [|exact HmO2]. exact HbX. }
  destruct (run_from_empty _ _ HmA Hra) as (_ & _ & Hda).
  rewrite (contains_from_empty _ _ l Hm0 Hrb), (contains_from_empty _ _ l HmA Hra), Hda.
  rewrite last_set_range_skip.
  destruct (last_set (X ++ O2) l) as [v|]; [destruct (L <=? l); reflexivity|].
  unfold rl_or. change (X ++ ORange L true :: O2) with (X ++ [ORange L true] ++ O2).
  rewrite !range_last_app. simpl.
  destruct (L <=? l) eqn:E1.
  - destruct (range_last O2 l) as [m|] eqn:E2; [apply (Htrue _ _ E2) | reflexivity].
  - apply Z.leb_gt in E1. rewrite (mono_range_none _ _ _ HmO2 E1). reflexivity.
Qed.

(* shapes of the histories produced by one comment *)
Lemma name_ops_shape_open : forall ic s line dis n, ranges_at line (name_ops ic s line true dis n).
Proof.
  intros. unfold name_ops, ranges_at. destruct (accepted_name n && keep ic n); repeat constructor. eauto.
Qed.
Lemma name_ops_shape_closed : forall ic s line dis n, sets_only (name_ops ic s line false dis n).
Proof.
  intros. unfold name_ops, sets_only. destruct (accepted_name n && keep ic n); [|constructor].
  destruct (negb (adjust_line line n s =? line)); repeat constructor.
Qed.
Lemma names_ops_shape_open : forall ic s line dis names m, ranges_at line (names_ops ic s line true dis names m).
Proof.
  induction names as [|n r IH]; intros m; unfold names_ops; simpl; [constructor|].
  apply Forall_app. split; [|apply IH]. destruct (m =? n)%N; [apply name_ops_shape_open | constructor].
Qed.
Lemma names_ops_shape_closed : forall ic s line dis names m, sets_only (names_ops ic s line false dis names m).
Proof.
  induction names as [|n r IH]; intros m; unfold names_ops; simpl; [constructor|].
  apply Forall_app. split; [|apply IH]. destruct (m =? n)%N; [apply name_ops_shape_closed | constructor].
Qed.
Lemma cmds_ops_shape_open : forall ic s line cmds m, ranges_at line (cmds_ops ic s line true cmds m).
Proof.
  induction cmds as [|c r IH]; intros m; simpl; [constructor|].
  destruct c; try (apply Forall_app; split; [apply names_ops_shape_open | apply IH]); [apply IH | constructor].
Qed.
Lemma cmds_ops_shape_closed : forall ic s line cmds m, sets_only (cmds_ops ic s line false cmds m).
Proof.
  induction cmds as [|c r IH]; intros m; simpl; [constructor|].
  destruct c; try (apply Forall_app; split; [apply names_ops_shape_closed | apply IH]); [apply IH | constructor].
Qed.

Lemma event_ops_shape_open : forall ev T, c_open (ev_comment ev) = true ->
  ranges_at (c_line (ev_comment ev)) (event_ops ev T).
Proof.
  intros ev T H. unfold event_ops. rewrite H.
  destruct (c_body (ev_comment ev)), T; try constructor; eauto; try constructor.
  apply cmds_ops_shape_open.
Qed.
Lemma event_ops_shape_closed : forall ev T, c_open (ev_comment ev) = false -> sets_only (event_ops ev T).
Proof.
  intros ev T H. unfold event_ops. rewrite H.
  destruct (c_body (ev_comment ev)), T; try constructor; try constructor; try constructor.
  apply cmds_ops_shape_closed.
Qed.

Lemma mono_ranges_at : forall ops p rest b, ranges_at p ops -> b <= p -> mono_from p rest ->
  mono_from b (ops ++ rest).
Proof.
  induction ops as [|o r IH]; intros p rest b H Hb Hr; simpl.
  - eapply mono_weaken; eauto.
  - inversion H; subst. destruct H2 as [m ->]. split; [exact Hb|]. eapply IH; eauto. lia.
Qed.

Lemma mono_sets : forall ops rest b, sets_only ops -> mono_from b rest -> mono_from b (ops ++ rest).
Proof.
  intros. apply mono_from_app. split; [apply sets_only_mono; assumption|].
  rewrite sets_only_bound; assumption.
Qed.

Lemma events_mono : forall T evs b, open_mono b evs -> mono_from b (events_ops evs T).
Proof.
  induction evs as [|ev r IH]; intros b H; [exact I|].
  rewrite events_ops_cons. simpl in H. destruct (c_open (ev_comment ev)) eqn:E.
  - destruct H as [Hb H]. eapply mono_ranges_at; [apply event_ops_shape_open; exact E | exact Hb | apply IH; exact H].
  - apply mono_sets; [apply event_ops_shape_closed; exact E | apply IH; exact H].
Qed.

Lemma global_ops_shape : forall g T, ranges_at 0 (global_ops g T).
Proof.
  intros g [|m]; simpl; [constructor|]. induction g as [|n r IH]; simpl; [constructor|].
  apply Forall_app. split; [|exact IH]. destruct (m =? n)%N; repeat constructor. eauto.
Qed.

Lemma all_ops_mono : forall g evs T, open_mono 0 evs -> mono_from 0 (all_ops g evs T).
Proof.
  intros. unfold all_ops. eapply mono_ranges_at; [apply global_ops_shape | lia | apply events_mono; assumption].
Qed.

Lemma open_mono_app : forall a c b, open_mono b (a ++ c) -> open_mono b a.
Proof.
  induction a as [|ev r IH]; intros c b H; simpl in *; [exact I|].
  destruct (c_open (ev_comment ev)); [destruct H; split; eauto | eauto].
Qed.

Lemma cmds_ops_nomention : forall ic s line op cmds m, existsb (cmd_mentions m) cmds = false ->
  cmds_ops ic s line op cmds m = [].
Proof.
  induction cmds as [|c r IH]; intros m H; simpl in *; [reflexivity|].
  apply orb_false_iff in H. destruct H as [H1 H2].
  destruct c as [ns|ns| |]; simpl in *; try reflexivity.
  - rewrite names_ops_notmem; [|exact H1]. simpl. apply IH. exact H2.
  - rewrite names_ops_notmem; [|exact H1]. simpl. apply IH. exact H2.
  - apply IH. exact H2.
Qed.

Lemma event_ops_no_open_directive : forall ev E, open_directive_of E (ev_comment ev) = false ->
  sets_only (event_ops ev (TDis E)).
Proof.
  intros ev E H. destruct (c_open (ev_comment ev)) eqn:Eo; [|apply event_ops_shape_closed; exact Eo].
  unfold open_directive_of in H. rewrite Eo in H. simpl in H. unfold event_ops.
  destruct (c_body (ev_comment ev)); try constructor.
  rewrite cmds_ops_nomention; [constructor | exact H].
Qed.

Lemma events_ops_no_open_directive : forall D E,
  Forall (fun ev => open_directive_of E (ev_comment ev) = false) D -> sets_only (events_ops D (TDis E)).
Proof.
  induction 1; unfold events_ops; simpl; [constructor|].
  apply Forall_app. split; [apply event_ops_no_open_directive; assumption | assumption].
Qed.

Lemma standalone_event_ops : forall s e L E (dis : bool) T,
  accepted_name E = true ->
  event_ops (mkE false s e (mkC L (Pytype [if dis then CDisable [E] else CEnable [E]]) true)) T =
  match T with TDis n => if (n =? E)%N then [ORange L dis] else [] | TIgn => [] end.
Proof.
  intros s e L E dis T Hacc. unfold event_ops. simpl. destruct T as [|n]; [destruct dis; reflexivity|].
  destruct dis; simpl; unfold nodup_n; simpl; unfold names_ops; simpl;
    (destruct (n =? E)%N eqn:E1; [|reflexivity]); apply N.eqb_eq in E1; subst;
    unfold name_ops; rewrite Hacc; reflexivity.
Qed.

Lemma all_ops_app : forall g a b T, all_ops g (a ++ b) T = all_ops g a T ++ events_ops b T.
Proof. intros. unfold all_ops. rewrite events_ops_app, app_assoc. reflexivity. Qed.

Lemma target_neq : forall n E, TDis n <> TDis E -> (n =? E)%N = false.
Proof. intros. apply N.eqb_neq. intros ->. apply H. reflexivity. Qed.

(* state-level statement: stand-alone disable=E at L ... enable=E at M *)
Lemma standalone_pair_state : forall g fr D1 Dmid D2 L M E sL eL sM eM st1 st st',
  accepted_name E = true -> L < M ->
  let evL := mkE false sL eL (standalone_disable L E) in
  let evM := mkE false sM eM (standalone_enable M E) in
  open_mono 0 (D1 ++ evL :: Dmid ++ evM :: D2) ->
  Forall (fun ev => open_directive_of E (ev_comment ev) = false) Dmid ->
  build_events g fr D1 = Ok st1 ->
  Nat.odd (length (ls_trans (dis_get (d_dis st1) E))) = false ->
  build_events g fr (D1 ++ Dmid ++ D2) = Ok st ->
  build_events g fr (D1 ++ evL :: Dmid ++ evM :: D2) = Ok st' ->
  (forall T, T <> TDis E -> ls_of st' T = ls_of st T) /\
  (forall l, contains (dis_get (d_dis st') E) l =
     if (L <=? l) && (l <? M)
     then match dict_get l (ls_lines (dis_get (d_dis st) E)) with Some v => v | None => true end
     else contains (dis_get (d_dis st) E) l).
Proof.
  intros g fr D1 Dmid D2 L M E sL eL sM eM st1 st st' Hacc HLM evL evM Hmono Hmid Hb1 Hoff Hb Hb'.
  destruct (build_ops _ _ _ _ Hb1) as [Ho1 _].
  destruct (build_ops _ _ _ _ Hb) as [Ho _].
  destruct (build_ops _ _ _ _ Hb') as [Ho' _].
  assert (HevL : forall T, event_ops evL T = match T with TDis n => if (n =? E)%N then [ORange L true] else [] | TIgn => [] end).
  { intros T. apply (standalone_event_ops sL eL L E true T Hacc). }
  assert (HevM : forall T, event_ops evM T = match T with TDis n => if (n =? E)%N then [ORange M false] else [] | TIgn => [] end).
  { intros T. apply (standalone_event_ops sM eM M E false T Hacc). }
  assert (Hall' : forall T, all_ops g (D1 ++ evL :: Dmid ++ evM :: D2) T =
            all_ops g D1 T ++ event_ops evL T ++ events_ops Dmid T ++ event_ops evM T ++ events_ops D2 T).
  { intros T. rewrite all_ops_app, events_ops_cons, events_ops_app, events_ops_cons. reflexivity. }
  assert (Hall : forall T, all_ops g (D1 ++ Dmid ++ D2) T = all_ops g D1 T ++ events_ops Dmid T ++ events_ops D2 T).
  { intros T. rewrite all_ops_app, events_ops_app. reflexivity. }
  split.
  - intros T HT. specialize (Ho T). specialize (Ho' T). rewrite Hall in Ho. rewrite Hall', HevL, HevM in Ho'.
    destruct T as [|n]; [cbn [app] in Ho'; congruence|].
    rewrite (target_neq _ _ HT) in Ho'. cbn [app] in Ho'. congruence.
  - specialize (Ho (TDis E)). specialize (Ho' (TDis E)). specialize (Ho1 (TDis E)).
    rewrite Hall in Ho. rewrite Hall', HevL, HevM, N.eqb_refl in Ho'. cbn [app] in Ho'. simpl ls_of in *.
    apply (ops_core_pair (all_ops g D1 (TDis E)) (events_ops Dmid (TDis E)) (events_ops D2 (TDis E)) L M
             (dis_get (d_dis st1) E)); auto.
    + pose proof (all_ops_mono g _ (TDis E) Hmono) as Hm. rewrite Hall', HevL, HevM, N.eqb_refl in Hm. exact Hm.
    + apply events_ops_no_open_directive. exact Hmid.
Qed.

(* stand-alone disable=E at L that nothing ends *)
Lemma standalone_eof_state : forall g fr D1 D2 L E sL eL st st',
  accepted_name E = true ->
  let evL := mkE false sL eL (standalone_disable L E) in
  open_mono 0 (D1 ++ evL :: D2) ->
  Forall (fun ev => open_directive_of E (ev_comment ev) = false) D2 ->
  build_events g fr (D1 ++ D2) = Ok st ->
  build_events g fr (D1 ++ evL :: D2) = Ok st' ->
  (forall T, T <> TDis E -> ls_of st' T = ls_of st T) /\
  (forall l, contains (dis_get (d_dis st') E) l =
     if L <=? l
     then match dict_get l (ls_lines (dis_get (d_dis st) E)) with Some v => v | None => true end
     else contains (dis_get (d_dis st) E) l).
Proof.
  intros g fr D1 D2 L E sL eL st st' Hacc evL Hmono HD2 Hb Hb'.
  destruct (build_ops _ _ _ _ Hb) as [Ho _].
  destruct (build_ops _ _ _ _ Hb') as [Ho' _].
  assert (HevL : forall T, event_ops evL T = match T with TDis n => if (n =? E)%N then [ORange L true] else [] | TIgn => [] end).
  { intros T. apply (standalone_event_ops sL eL L E true T Hacc). }
  assert (Hall' : forall T, all_ops g (D1 ++ evL :: D2) T = all_ops g D1 T ++ event_ops evL T ++ events_ops D2 T).
  { intros T. rewrite all_ops_app, events_ops_cons. reflexivity. }
  split.
  - intros T HT. specialize (Ho T). specialize (Ho' T). rewrite all_ops_app in Ho. rewrite Hall', HevL in Ho'.
    destruct T as [|n]; [cbn [app] in Ho'; congruence|].
    rewrite (target_neq _ _ HT) in Ho'. cbn [app] in Ho'. congruence.
  - specialize (Ho (TDis E)). specialize (Ho' (TDis E)).
    rewrite all_ops_app in Ho. rewrite Hall', HevL, N.eqb_refl in Ho'. cbn [app] in Ho'. simpl ls_of in *.
    apply (ops_core_eof (all_ops g D1 (TDis E)) (events_ops D2 (TDis E)) L); auto.
    + pose proof (all_ops_mono g _ (TDis E) Hmono) as Hm. rewrite Hall', HevL, N.eqb_refl in Hm. exact Hm.
    + intros l m H. rewrite sets_only_range in H; [discriminate|]. apply events_ops_no_open_directive. exact HD2.
Qed.

(* stand-alone "# type: ignore" at L: every line from L on is ignored, nothing before changes *)
Lemma ign_ranges_true : forall D l m, range_last (events_ops D TIgn) l = Some m -> m = true.
Proof.
  induction D as [|ev r IH]; intros l m H; [discriminate|].
  rewrite events_ops_cons, range_last_app in H.
  destruct (range_last (events_ops r TIgn) l) eqn:E; [inversion H; subst; eapply IH; eauto|].
  unfold event_ops in H. destruct (c_body (ev_comment ev)); try discriminate.
  destruct (c_open (ev_comment ev)); simpl in H; [|discriminate].
  destruct (c_line (ev_comment ev) <=? l); inversion H. reflexivity.
Qed.

Lemma standalone_ignore_state : forall g fr D1 D2 L sL eL st st',
  let evL := mkE false sL eL (standalone_ignore L) in
  open_mono 0 (D1 ++ evL :: D2) ->
  build_events g fr (D1 ++ D2) = Ok st ->
  build_events g fr (D1 ++ evL :: D2) = Ok st' ->
  (forall n, dis_get (d_dis st') n = dis_get (d_dis st) n) /\
  (forall l, contains (d_ignore st') l = if L <=? l then true else contains (d_ignore st) l).
Proof.
  intros g fr D1 D2 L sL eL st st' evL Hmono Hb Hb'.
  destruct (build_ops _ _ _ _ Hb) as [Ho _].
  destruct (build_ops _ _ _ _ Hb') as [Ho' _].
  assert (Hall' : forall T, all_ops g (D1 ++ evL :: D2) T = all_ops g D1 T ++ event_ops evL T ++ events_ops D2 T).
  { intros T. rewrite all_ops_app, events_ops_cons. reflexivity. }
  split.
  - intros n. specialize (Ho (TDis n)). specialize (Ho' (TDis n)). rewrite all_ops_app in Ho.
    rewrite Hall' in Ho'. change (event_ops evL (TDis n)) with (@nil lsop) in Ho'. cbn [app] in Ho'.
    simpl ls_of in Ho, Ho'. congruence.
  - intros l. specialize (Ho TIgn). specialize (Ho' TIgn). rewrite all_ops_app in Ho. rewrite Hall' in Ho'.
    change (event_ops evL TIgn) with [ORange L true] in Ho'. cbn [app] in Ho'. simpl ls_of in Ho, Ho'.
    rewrite (ops_core_eof (all_ops g D1 TIgn) (events_ops D2 TIgn) L (d_ignore st) (d_ignore st')); auto.
    + destruct (L <=? l); [|reflexivity].
      destruct (dict_get l (ls_lines (d_ignore st))) as [v|] eqn:Ed; [|reflexivity].
      rewrite (run_ops_lines _ _ _ Ho l) in Ed. cbn [ls_empty ls_lines dict_get] in Ed.
      destruct (last_set (all_ops g D1 TIgn ++ events_ops D2 TIgn) l) as [w|] eqn:Ew; [|discriminate].
      inversion Ed; subst. eapply sets_to_last; [|exact Ew].
      apply sets_to_app; [|apply events_ops_ign_true].
      unfold all_ops. apply sets_to_app; [constructor | apply events_ops_ign_true].
    + pose proof (all_ops_mono g _ TIgn Hmono) as Hm. rewrite Hall' in Hm. exact Hm.
    + apply ign_ranges_true.
Qed.

(* ------------------------------------------------------------------------------------------------ *)
(* filter_error-level statements for stand-alone directives                                         *)

Lemma standalone_pair_filter : forall g fr rl D1 Dmid D2 L M E sL eL sM eM st1 st st',
  accepted_name E = true -> L < M ->
  let evL := mkE false sL eL (standalone_disable L E) in
  let evM := mkE false sM eM (standalone_enable M E) in
  open_mono 0 (D1 ++ evL :: Dmid ++ evM :: D2) ->
  Forall (fun ev => open_directive_of E (ev_comment ev) = false) Dmid ->
  build_events g fr D1 = Ok st1 ->
  Nat.odd (length (ls_trans (dis_get (d_dis st1) E))) = false ->
  build_events g fr (D1 ++ Dmid ++ D2) = Ok st ->
  build_events g fr (D1 ++ evL :: Dmid ++ evM :: D2) = Ok st' ->
  forall e l0 lr, e_same_file e = true -> e_line e = Some l0 ->
    reported_line st rl e l0 = Ok lr -> reported_line st' rl e l0 = Ok lr ->
    ((e_name e <> E /\ E <> all_errors) \/ ~ (L <= eff_line lr < M) ->
       filter_error st' rl e = filter_error st rl e) /\
    ((e_name e = E \/ E = all_errors) -> L <= eff_line lr < M ->
       dict_get (eff_line lr) (ls_lines (dis_get (d_dis st) E)) <> Some false ->
       filter_error st' rl e = Ok (false, Some lr)).
Proof.
  intros g fr rl D1 Dmid D2 L M E sL eL sM eM st1 st st' Hacc HLM evL evM Hmono Hmid Hb1 Hoff Hb Hb'
         e l0 lr Hsf Hl Hr Hr'.
  destruct (standalone_pair_state g fr D1 Dmid D2 L M E sL eL sM eM st1 st st' Hacc HLM Hmono Hmid Hb1 Hoff Hb Hb')
    as [Hother HE].
  rewrite (filter_error_unfold _ _ _ _ _ Hsf Hl Hr), (filter_error_unfold _ _ _ _ _ Hsf Hl Hr').
  assert (Hign : d_ignore st' = d_ignore st) by (apply (Hother TIgn); discriminate).
  assert (Hn : forall n, n <> E -> dis_get (d_dis st') n = dis_get (d_dis st) n).
  { intros n Hne. apply (Hother (TDis n)). intros H. inversion H. contradiction. }
  set (l := eff_line lr) in *.
  split.
  - intros Hcase. rewrite Hign.
    assert (Hc : forall n, n <> E \/ ~ (L <= l < M) ->
              contains (dis_get (d_dis st') n) l = contains (dis_get (d_dis st) n) l).
    { intros n [Hne|Hout]; [rewrite Hn; auto|].
      destruct (N.eq_dec n E) as [->|Hne]; [|rewrite Hn; auto].
      rewrite HE. destruct ((L <=? l) && (l <? M)) eqn:Eb; [|reflexivity].
      apply andb_true_iff in Eb. destruct Eb as [E1 E2]. apply Z.leb_le in E1. apply Z.ltb_lt in E2. lia. }
    rewrite (Hc all_errors), (Hc (e_name e)); [reflexivity | |]; destruct Hcase as [[H1 H2]|H]; auto.
  - intros Hname Hin Hd.
    assert (Hc : contains (dis_get (d_dis st') E) l = true).
    { rewrite HE. replace ((L <=? l) && (l <? M)) with true.
      - destruct (dict_get l (ls_lines (dis_get (d_dis st) E))) as [[|]|]; auto; congruence.
      - symmetry. apply andb_true_iff. split; [apply Z.leb_le | apply Z.ltb_lt]; lia. }
    destruct Hname as [Hname|Hname].
    + rewrite Hname, Hc. rewrite andb_false_r. reflexivity.
    + rewrite <- Hname, Hc. simpl. rewrite andb_false_r. reflexivity.
Qed.

Lemma standalone_eof_filter : forall g fr rl D1 D2 L E sL eL st st',
  accepted_name E = true ->
  let evL := mkE false sL eL (standalone_disable L E) in
  open_mono 0 (D1 ++ evL :: D2) ->
  Forall (fun ev => open_directive_of E (ev_comment ev) = false) D2 ->
  build_events g fr (D1 ++ D2) = Ok st ->
  build_events g fr (D1 ++ evL :: D2) = Ok st' ->
  forall e l0 lr, e_same_file e = true -> e_line e = Some l0 ->
    reported_line st rl e l0 = Ok lr -> reported_line st' rl e l0 = Ok lr ->
    ((e_name e <> E /\ E <> all_errors) \/ eff_line lr < L ->
       filter_error st' rl e = filter_error st rl e) /\
    ((e_name e = E \/ E = all_errors) -> L <= eff_line lr ->
       dict_get (eff_line lr) (ls_lines (dis_get (d_dis st) E)) <> Some false ->
       filter_error st' rl e = Ok (false, Some lr)).
Proof.
  intros g fr rl D1 D2 L E sL eL st st' Hacc evL Hmono HD2 Hb Hb' e l0 lr Hsf Hl Hr Hr'.
  destruct (standalone_eof_state g fr D1 D2 L E sL eL st st' Hacc Hmono HD2 Hb Hb') as [Hother HE].
  rewrite (filter_error_unfold _ _ _ _ _ Hsf Hl Hr), (filter_error_unfold _ _ _ _ _ Hsf Hl Hr').
  assert (Hign : d_ignore st' = d_ignore st) by (apply (Hother TIgn); discriminate).
  assert (Hn : forall n, n <> E -> dis_get (d_dis st') n = dis_get (d_dis st) n).
  { intros n Hne. apply (Hother (TDis n)). intros H. inversion H. contradiction. }
  set (l := eff_line lr) in *.
  split.
  - intros Hcase. rewrite Hign.
    assert (Hc : forall n, n <> E \/ l < L ->
              contains (dis_get (d_dis st') n) l = contains (dis_get (d_dis st) n) l).
    { intros n [Hne|Hout]; [rewrite Hn; auto|].
      destruct (N.eq_dec n E) as [->|Hne]; [|rewrite Hn; auto].
      rewrite HE. destruct (L <=? l) eqn:Eb; [|reflexivity]. apply Z.leb_le in Eb. lia. }
    rewrite (Hc all_errors), (Hc (e_name e)); [reflexivity | |]; destruct Hcase as [[H1 H2]|H]; auto.
  - intros Hname Hin Hd.
    assert (Hc : contains (dis_get (d_dis st') E) l = true).
    { rewrite HE. replace (L <=? l) with true.
      - destruct (dict_get l (ls_lines (dis_get (d_dis st) E))) as [[|]|]; auto; congruence.
      - symmetry. apply Z.leb_le. lia. }
    destruct Hname as [Hname|Hname].
    + rewrite Hname, Hc. rewrite andb_false_r. reflexivity.
    + rewrite <- Hname, Hc. simpl. rewrite andb_false_r. reflexivity.
Qed.

Lemma standalone_ignore_filter : forall g fr rl D1 D2 L sL eL st st',
  let evL := mkE false sL eL (standalone_ignore L) in
  open_mono 0 (D1 ++ evL :: D2) ->
  build_events g fr (D1 ++ D2) = Ok st ->
  build_events g fr (D1 ++ evL :: D2) = Ok st' ->
  forall e l0 lr, e_same_file e = true -> e_line e = Some l0 ->
    reported_line st rl e l0 = Ok lr -> reported_line st' rl e l0 = Ok lr ->
    (eff_line lr < L -> filter_error st' rl e = filter_error st rl e) /\
    (L <= eff_line lr -> filter_error st' rl e = Ok (false, Some lr)).
Proof.
  intros g fr rl D1 D2 L sL eL st st' evL Hmono Hb Hb' e l0 lr Hsf Hl Hr Hr'.
  destruct (standalone_ignore_state g fr D1 D2 L sL eL st st' Hmono Hb Hb') as [Hdis Hign].
  rewrite (filter_error_unfold _ _ _ _ _ Hsf Hl Hr), (filter_error_unfold _ _ _ _ _ Hsf Hl Hr').
  rewrite !Hdis, Hign. split; intros H.
  - destruct (L <=? eff_line lr) eqn:Eb; [apply Z.leb_le in Eb; lia | reflexivity].
  - replace (L <=? eff_line lr) with true; [reflexivity|]. symmetry. apply Z.leb_le. exact H.
Qed.

(* ------------------------------------------------------------------------------------------------ *)
(* The full statement "changes nothing else": partial version and the refutations                   *)

Lemma inserted_added_in : forall {A} (P : A -> Prop) D D' Ad, inserted P D D' Ad -> incl Ad D'.
Proof.
  induction 1 as [|y D D' Ad Hi IH|y D D' Ad Hy Hi IH]; intros z Hz; [inversion Hz | right; auto |].
  destruct Hz as [<-|Hz]; [left; reflexivity | right; auto].
Qed.

Lemma inserted_added_P : forall {A} (P : A -> Prop) D D' Ad, inserted P D D' Ad -> Forall P Ad.
Proof. induction 1; auto. Qed.

Lemma exactly_partial_lemma : forall g fr rl D D' Ad L E st,
  inserted (fun ev => ev_comment ev = trailing_disable L E /\
                      (is_adjustable E = false \/ ev_start ev = L)) D D' Ad ->
  (exists cev, In cev Ad /\ ev_call cev = false) ->
  Forall (fun ev => trailing_enable_of E (ev_comment ev) = false) D' ->
  accepted_name E = true -> E <> all_errors ->
  build_events g fr D = Ok st ->
  exists st', build_events g fr D' = Ok st' /\
    forall e l0 lr, e_same_file e = true -> e_line e = Some l0 ->
      reported_line st rl e l0 = Ok lr -> reported_line st' rl e l0 = Ok lr ->
      (e_name e = E /\ eff_line lr = L -> filter_error st' rl e = Ok (false, Some lr)) /\
      (~ (e_name e = E /\ eff_line lr = L) -> filter_error st' rl e = filter_error st rl e).
Proof.
  intros g fr rl D D' Ad L E st Hins [cev [HcevIn Hbase]] Hnoen Hacc HnotAll Hb.
  assert (Hins0 : inserted (fun ev => ev_comment ev = trailing_disable L E) D D' Ad).
  { eapply inserted_weaken; [|exact Hins]. simpl. tauto. }
  destruct (trailing_disable_builds _ _ _ _ _ _ _ _ Hins0 Hb) as [st' Hb'].
  exists st'. split; [exact Hb'|].
  pose proof (inserted_added_P _ _ _ _ Hins) as HadP. rewrite Forall_forall in HadP.
  assert (Htouched : forall l, In l (touched_disable E L Ad) -> l = L).
  { intros l Hl. unfold touched_disable in Hl. apply in_flat_map in Hl. destruct Hl as (ev & HevIn & Hl).
    destruct (HadP _ HevIn) as [_ Hsingle].
    destruct (accepted_name E && keep (ev_call ev) E); [|inversion Hl].
    assert (adjust_line L E (ev_start ev) = L).
    { unfold adjust_line. destruct Hsingle as [Hna|Hs]; [rewrite Hna; reflexivity | rewrite Hs; destruct (is_adjustable E); reflexivity]. }
    rewrite H in Hl. simpl in Hl. intuition. }
  intros e l0 lr Hsf Hl Hr Hr'. split.
  - intros [Hname HlL].
    pose proof (inserted_added_in _ _ _ _ Hins cev HcevIn) as HcevD'.
    destruct (in_split _ _ HcevD') as (D1 & D2 & HD').
    rewrite HD' in Hb', Hnoen. apply Forall_app in Hnoen. destruct Hnoen as [_ Hnoen]. inversion Hnoen; subst.
    destruct (HadP _ HcevIn) as [Hc _].
    eapply silences_lemma with (cev := cev) (D1 := D1) (D2 := D2); eauto.
    unfold keep. rewrite Hbase. reflexivity.
  - intros Hnot. eapply disable_frame_lemma; eauto.
    destruct (N.eq_dec (e_name e) E) as [Hn|Hn]; [|left; auto].
    right. intros Hin. apply Htouched in Hin. tauto.
Qed.

(* refutation of the full statement: for every adjustable class E, a trailing disable=E on the last line
   of a two-line statement also silences class E on the statement's first line *)
Lemma exactly_refuted_lemma : forall E, is_adjustable E = true -> accepted_name E = true ->
  let D := @nil event in
  let D' := [mkE false 3 4 (trailing_disable 4 E)] in
  let e2 := same_file_err 3 E false in
  inserted (fun ev => ev_comment ev = trailing_disable 4 E /\ ev_start ev <= 4 <= ev_end ev) D D' D' /\
  verdict_events [] [] [] D e2 = Ok (true, Some 3) /\
  verdict_events [] [] [] D' e2 = Ok (false, Some 3).
Proof.
  intros E Hadj Hacc D D' e2. split; [|split].
  - constructor; [|constructor]. simpl. split; [reflexivity | lia].
  - unfold verdict_events. simpl.
    rewrite (filter_error_unfold _ _ e2 3 3); try reflexivity.
    apply plain_reported. unfold plain_error, e2. simpl. rewrite andb_false_r. reflexivity.
  - unfold verdict_events.
    assert (Hins : inserted (fun ev => ev_comment ev = trailing_disable 4 E) D D' D').
    { constructor; [reflexivity | constructor]. }
    destruct (trailing_disable_builds [] [] D D' D' 4 E _ Hins eq_refl) as [st' Hb']. rewrite Hb'. simpl.
    apply (silences_lemma [] [] [] [] [] (mkE false 3 4 (trailing_disable 4 E)) st' e2 3 3 4 E); auto.
    + apply plain_reported. unfold plain_error, e2. simpl. rewrite andb_false_r. reflexivity.
    + right. unfold adjust_line. rewrite Hadj. reflexivity.
Qed.

Lemma disable_frame_full : forall g fr rl D D' Ad L E st,
  inserted (fun ev => ev_comment ev = trailing_disable L E) D D' Ad ->
  build_events g fr D = Ok st ->
  exists st', build_events g fr D' = Ok st' /\
    forall e l0 lr, e_same_file e = true -> e_line e = Some l0 ->
      reported_line st rl e l0 = Ok lr -> reported_line st' rl e l0 = Ok lr ->
      (e_name e <> E /\ E <> all_errors) \/ ~ In (eff_line lr) (touched_disable E L Ad) ->
      filter_error st' rl e = filter_error st rl e.
Proof.
  intros g fr rl D D' Ad L E st Hins Hb.
  destruct (trailing_disable_builds _ _ _ _ _ _ _ _ Hins Hb) as [st' Hb'].
  exists st'. split; [exact Hb'|]. intros. eapply disable_frame_lemma; eauto.
Qed.

Lemma ignore_frame_full : forall g fr rl D D' Ad L st,
  inserted (fun ev => ev_comment ev = trailing_ignore L) D D' Ad ->
  build_events g fr D = Ok st ->
  exists st', build_events g fr D' = Ok st' /\
    forall e l0 lr, e_same_file e = true -> e_line e = Some l0 ->
      reported_line st rl e l0 = Ok lr -> reported_line st' rl e l0 = Ok lr ->
      ~ In (eff_line lr) (touched_ignore L Ad) ->
      filter_error st' rl e = filter_error st rl e.
Proof.
  intros g fr rl D D' Ad L st Hins Hb.
  destruct (trailing_ignore_builds _ _ _ _ _ _ _ Hins Hb) as [st' Hb'].
  exists st'. split; [exact Hb'|]. intros. eapply ignore_frame_lemma; eauto.
Qed.

(* a class that is valid, adjustable, a function-call class and not the implicit-return class *)
Definition witness_class : N :=
  hd 0%N (filter (fun n => accepted_name n && is_fce n && negb (n =? implicit_return_error)%N && negb (n =? all_errors)%N)
                 all_adjustable_errors).

(* a trailing enable=E on a later line of the same statement undoes the disable on the statement's first line *)
Lemma silences_refuted_lemma :
  exists E D1 cev D2,
    is_adjustable E = true /\ accepted_name E = true /\
    ev_comment cev = trailing_disable 2 E /\ ev_call cev = false /\ ev_start cev <= 2 <= ev_end cev /\
    verdict_events [] [] [] (D1 ++ cev :: D2) (same_file_err 2 E false) = Ok (true, Some 2).
Proof.
  exists witness_class, [], (mkE false 2 3 (trailing_disable 2 witness_class)),
         [mkE false 2 3 (mkC 3 (Pytype [CEnable [witness_class]]) false)].
  vm_compute. repeat split; try reflexivity; discriminate.
Qed.

(* the function-range adjustment moves an implicit-return error of another class to another line *)
Lemma frame_line_refuted_lemma :
  exists E L fr D D' Ad e l1 l2,
    E <> all_errors /\ e_name e <> E /\
    inserted (fun ev => ev_comment ev = trailing_disable L E /\ ev_start ev <= L <= ev_end ev) D D' Ad /\
    verdict_events [] fr [] D e = Ok (true, Some l1) /\
    verdict_events [] fr [] D' e = Ok (true, Some l2) /\ l1 <> l2.
Proof.
  exists witness_class, 4, [(2, 4)], [], [mkE false 3 4 (trailing_disable 4 witness_class)],
         [mkE false 3 4 (trailing_disable 4 witness_class)],
         (mkErr true (Some 3) implicit_return_error true), 4, 3.
  split; [vm_compute; discriminate|]. split; [vm_compute; discriminate|].
  split; [constructor; [split; [reflexivity | simpl; lia] | constructor]|].
  split; [vm_compute; reflexivity|]. split; [vm_compute; reflexivity | discriminate].
Qed.
