(* C03 — lemmas about the director model (coq/Directors/Model.v).  Property theorems: Props/C03.v. *)
From Coq Require Import ZArith List Bool Arith NArith Lia Sorting.Sorted ZifyNat ZifyBool ZifyN.
From PV Require Import Generated.C03_ErrorClasses Directors.Model Directors.Spec.
Import ListNotations.
Open Scope Z_scope.
Ltac Zify.zify_post_hook ::= Z.div_mod_to_equations.

(* ------------------------------------------------------------------------------------------------ *)
(* bisect on a sorted list counts the elements <= x                                                 *)

Definition count_le (a : list Z) (x : Z) : nat := length (filter (fun t => t <=? x) a).

Lemma sorted_nth : forall a, StronglySorted Z.lt a ->
  forall i j, (i < j < length a)%nat -> nth i a 0 < nth j a 0.
Proof.
  induction 1 as [|h t Hs IH Hall]; intros i j Hij; simpl in Hij; [lia|].
  destruct j as [|j]; [lia|]. destruct i as [|i].
  - simpl. rewrite Forall_forall in Hall. apply Hall. apply nth_In. lia.
  - simpl. apply IH. lia.
Qed.

Lemma bisect_right_go_spec : forall a x, StronglySorted Z.lt a ->
  forall fuel lo hi, (lo <= hi <= length a)%nat -> (hi - lo < fuel)%nat ->
  (forall i, (i < lo)%nat -> nth i a 0 <= x) ->
  (forall i, (hi <= i < length a)%nat -> x < nth i a 0) ->
  let r := bisect_right_go fuel a x lo hi in
  (r <= length a)%nat /\ (forall i, (i < r)%nat -> nth i a 0 <= x) /\
  (forall i, (r <= i < length a)%nat -> x < nth i a 0).
Proof.
  intros a x Hs. induction fuel as [|f IH]; intros lo hi Hb Hf Hlo Hhi; [lia|].
  cbn [bisect_right_go].
  destruct (lo <? hi)%nat eqn:Hlt.
  - apply Nat.ltb_lt in Hlt.
    assert (Hmid : (lo <= (lo + hi) / 2 < hi)%nat).
    { split; [apply Nat.div_le_lower_bound; lia | apply Nat.div_lt_upper_bound; lia]. }
    set (mid := ((lo + hi) / 2)%nat) in *.
    destruct (x <? nth mid a 0) eqn:Hx.
    + apply Z.ltb_lt in Hx. apply IH; try lia; auto.
      intros i Hi. destruct (Nat.eq_dec i mid) as [->|Hne]; [exact Hx|].
      destruct (Nat.lt_ge_cases i hi) as [Hih|Hih].
      * assert (nth mid a 0 < nth i a 0) by (apply sorted_nth; auto; lia). lia.
      * apply Hhi. lia.
    + apply Z.ltb_ge in Hx. apply IH; try lia; auto.
      intros i Hi. destruct (Nat.eq_dec i mid) as [->|Hne]; [exact Hx|].
      destruct (Nat.lt_ge_cases i lo) as [Hil|Hil]; [apply Hlo; lia|].
      assert (nth i a 0 < nth mid a 0) by (apply sorted_nth; auto; lia). lia.
  - apply Nat.ltb_ge in Hlt. assert (lo = hi) by lia. subst hi.
    split; [lia|]. split; auto.
Qed.

Lemma split_count : forall a x r, (r <= length a)%nat ->
  (forall i, (i < r)%nat -> nth i a 0 <= x) ->
  (forall i, (r <= i < length a)%nat -> x < nth i a 0) ->
  count_le a x = r.
Proof.
  unfold count_le. induction a as [|h t IH]; intros x r Hr H1 H2; simpl in *; [lia|].
  destruct r as [|r].
  - assert (x < h) by (apply (H2 0%nat); lia).
    destruct (h <=? x) eqn:E; [apply Z.leb_le in E; lia|].
    apply (IH x 0%nat); [lia | intros; lia |].
    intros i Hi. apply (H2 (S i)). lia.
  - assert (h <= x) by (apply (H1 0%nat); lia).
    destruct (h <=? x) eqn:E; [|apply Z.leb_gt in E; lia].
    simpl. f_equal. apply IH; [lia | |].
    + intros i Hi. apply (H1 (S i)). lia.
    + intros i Hi. apply (H2 (S i)). lia.
Qed.

Lemma bisect_right_count : forall a x, StronglySorted Z.lt a -> bisect_right a x = count_le a x.
Proof.
  intros a x Hs. unfold bisect_right.
  destruct (bisect_right_go_spec a x Hs (S (length a)) 0%nat (length a)) as (H1 & H2 & H3);
    try lia; try (intros; lia).
  symmetry. apply split_count; auto.
Qed.

(* ------------------------------------------------------------------------------------------------ *)
(* _LineSet: what a history of set_line / start_range calls means                                   *)

Definition sem (ls : lineset) (l : Z) : bool := Nat.odd (count_le (ls_trans ls) l).

Definition inv_b (b : Z) (ls : lineset) : Prop :=
  StronglySorted Z.lt (ls_trans ls) /\ Forall (fun t => t <= b) (ls_trans ls).

Lemma count_le_app : forall a b x, count_le (a ++ b) x = (count_le a x + count_le b x)%nat.
Proof. intros. unfold count_le. rewrite filter_app, app_length. reflexivity. Qed.

Lemma count_le_all : forall t l, Forall (fun x => x <= l) t -> count_le t l = length t.
Proof.
  unfold count_le. induction 1; simpl; auto.
  destruct (x <=? l) eqn:E; [simpl; congruence | apply Z.leb_gt in E; lia].
Qed.

Lemma count_le_single : forall p l, count_le [p] l = if p <=? l then 1%nat else 0%nat.
Proof. intros. unfold count_le. simpl. destruct (p <=? l); reflexivity. Qed.

Lemma sorted_le_last : forall t, StronglySorted Z.lt t -> forall x d, In x t -> x <= last t d.
Proof.
  induction 1 as [|h t Hs IH Hall]; intros x d Hin; [inversion Hin|].
  destruct t as [|h2 t2].
  - destruct Hin as [<-|[]]. simpl. lia.
  - change (last (h :: h2 :: t2) d) with (last (h2 :: t2) d).
    destruct Hin as [<-|Hin]; [|apply IH; exact Hin].
    rewrite Forall_forall in Hall.
    assert (h < last (h2 :: t2) d). { apply Hall. destruct (exists_last (l:=h2::t2)) as (l' & a & E); [discriminate|]. rewrite E, last_last. apply in_or_app. right. left. reflexivity. }
    lia.
Qed.

Lemma sorted_app_last : forall t p, StronglySorted Z.lt t -> Forall (fun x => x < p) t ->
  StronglySorted Z.lt (t ++ [p]).
Proof.
  induction 1 as [|h t Hs IH Hall]; intros Hp; simpl.
  - constructor; constructor.
  - inversion Hp; subst. constructor; [apply IH; assumption|].
    apply Forall_app. split; [assumption | constructor; [assumption | constructor]].
Qed.

Lemma sorted_app_l : forall a b, StronglySorted Z.lt (a ++ b) -> StronglySorted Z.lt a.
Proof.
  induction a as [|h t IH]; intros b H; [constructor|].
  simpl in H. inversion H; subst. constructor; [eapply IH; eassumption|].
  apply Forall_app in H3. tauto.
Qed.

Lemma odd_flip : forall n, Nat.odd (S n) = negb (Nat.odd n).
Proof. intros. rewrite Nat.odd_succ, <- Nat.negb_odd. reflexivity. Qed.

Lemma start_range_sem : forall ls b p m, 0 <= b -> b <= p -> inv_b b ls ->
  exists ls', start_range ls p m = Ok ls' /\ ls_lines ls' = ls_lines ls /\ inv_b p ls' /\
              forall l, sem ls' l = if p <=? l then m else sem ls l.
Proof.
  intros [lines t] b p m Hb Hbp [Hs Hall]. unfold start_range, sem, inv_b in *. cbn [ls_trans ls_lines] in *.
  assert (Hlast : last t (-1) <= p).
  { destruct t as [|h t']; [simpl; lia|].
    assert (In (last (h :: t') (-1)) (h :: t')).
    { destruct (exists_last (l:=h::t')) as (l' & a & E); [discriminate|]. rewrite E, last_last. apply in_or_app. right. left. reflexivity. }
    rewrite Forall_forall in Hall. specialize (Hall _ H). lia. }
  assert (HallP : Forall (fun x => x <= p) t).
  { eapply Forall_impl; [|exact Hall]. simpl. intros. lia. }
  destruct (p <? last t (-1)) eqn:E1; [apply Z.ltb_lt in E1; lia|].
  assert (Hfull : forall l, p <= l -> count_le t l = length t).
  { intros l Hl. apply count_le_all. eapply Forall_impl; [|exact HallP]. simpl. intros. lia. }
  destruct (Bool.eqb m (Nat.odd (length t))) eqn:E2.
  - apply eqb_prop in E2. eexists. split; [reflexivity|]. cbn [ls_trans ls_lines]. repeat split; auto.
    intros l. destruct (p <=? l) eqn:E3; [|reflexivity]. apply Z.leb_le in E3. rewrite Hfull; auto.
  - apply eqb_false_iff in E2.
    destruct (p =? last t (-1)) eqn:E3.
    + apply Z.eqb_eq in E3.
      destruct t as [|h t']; [simpl in E3; lia|].
      destruct (exists_last (l:=h::t')) as (t0 & a & E); [discriminate|].
      rewrite E in *. rewrite last_last in E3. subst a. rewrite removelast_last.
      eexists. split; [reflexivity|]. cbn [ls_trans ls_lines].
      split; [reflexivity|]. split.
      * split; [eapply sorted_app_l; eassumption|]. apply Forall_app in HallP. tauto.
      * intros l. rewrite app_length in E2. simpl in E2. rewrite Nat.add_1_r, odd_flip in E2.
        destruct (p <=? l) eqn:E4.
        -- apply Z.leb_le in E4. rewrite count_le_all.
           ++ destruct m, (Nat.odd (length t0)); simpl in *; congruence.
           ++ apply Forall_app in HallP. destruct HallP as [H0 _].
              eapply Forall_impl; [|exact H0]. simpl. intros. lia.
        -- rewrite count_le_app, count_le_single, E4, Nat.add_0_r. reflexivity.
    + apply Z.eqb_neq in E3.
      eexists. split; [reflexivity|]. cbn [ls_trans ls_lines].
      split; [reflexivity|]. split.
      * split.
        -- apply sorted_app_last; auto. rewrite Forall_forall. intros x Hx.
           pose proof (sorted_le_last t Hs x (-1) Hx). lia.
        -- apply Forall_app. split; [exact HallP | constructor; [lia | constructor]].
      * intros l. rewrite count_le_app, count_le_single.
        destruct (p <=? l) eqn:E4.
        -- apply Z.leb_le in E4. rewrite Hfull; auto. rewrite Nat.add_1_r, odd_flip.
           destruct m, (Nat.odd (length t)); simpl in *; congruence.
        -- rewrite Nat.add_0_r. reflexivity.
Qed.

Lemma inv_b_weaken : forall b b' ls, b <= b' -> inv_b b ls -> inv_b b' ls.
Proof.
  intros b b' ls Hb [Hs Ha]. split; auto. eapply Forall_impl; [|exact Ha]. simpl. intros. lia.
Qed.

(* the per-line dict after a history (no side condition) *)
Lemma run_ops_lines : forall ops ls ls', run_ops ls ops = Ok ls' ->
  forall l, dict_get l (ls_lines ls') =
            match last_set ops l with Some v => Some v | None => dict_get l (ls_lines ls) end.
Proof.
  induction ops as [|o r IH]; intros ls ls' H l; simpl in H.
  - inversion H. reflexivity.
  - destruct o as [l' m|p m]; simpl in H.
    + rewrite (IH _ _ H l). simpl. destruct (last_set r l); auto.
      destruct (l =? l'); reflexivity.
    + destruct (start_range ls p m) as [ls1|x] eqn:E; simpl in H; [|discriminate].
      rewrite (IH _ _ H l). simpl.
      assert (ls_lines ls1 = ls_lines ls).
      { unfold start_range in E.
        destruct (p <? _); [discriminate|]. destruct (Bool.eqb _ _); [inversion E; reflexivity|].
        destruct (p =? _).
        - destruct (ls_trans ls); [discriminate|]. inversion E. reflexivity.
        - inversion E. reflexivity. }
      rewrite H0. reflexivity.
Qed.

(* the ranges after a monotone history; such a history never raises *)
Fixpoint last_bound (b : Z) (ops : list lsop) : Z :=
  match ops with
  | [] => b
  | OSet _ _ :: r => last_bound b r
  | ORange p _ :: r => last_bound p r
  end.

Lemma run_ops_sem : forall ops ls b, 0 <= b -> inv_b b ls -> mono_from b ops ->
  exists ls', run_ops ls ops = Ok ls' /\ b <= last_bound b ops /\ inv_b (last_bound b ops) ls' /    forall l, sem ls' l = match range_last ops l with Some m => m | None => sem ls l end.
Proof.
  induction ops as [|o r IH]; intros ls b Hb Hinv Hm.
  - exists ls. simpl. split; [reflexivity|]. split; [lia|]. split; [exact Hinv|]. reflexivity.
  - destruct o as [l' m|p m]; simpl in Hm.
    + destruct (IH (set_line ls l' m) b Hb) as (ls' & H1 & H2 & H3 & H4); auto.
      exists ls'. simpl. split; [exact H1|]. split; [exact H2|]. split; [exact H3|]. exact H4.
    + destruct Hm as [Hbp Hm].
      destruct (start_range_sem ls b p m Hb Hbp Hinv) as (ls1 & E & _ & Hinv1 & Hsem1).
      destruct (IH ls1 p) as (ls' & H1 & H2 & H3 & H4); auto; [lia|].
      exists ls'. simpl. rewrite E. simpl. split; [exact H1|]. split; [lia|]. split; [exact H3|].
      intros l. rewrite H4, Hsem1. destruct (range_last r l); [reflexivity|]. destruct (p <=? l); reflexivity.
Qed.

Lemma contains_sem : forall ls l, StronglySorted Z.lt (ls_trans ls) ->
  contains ls l = match dict_get l (ls_lines ls) with Some b => b | None => sem ls l end.
Proof.
  intros ls l Hs. unfold contains, sem. rewrite bisect_right_count; auto.
Qed.

Lemma inv_b_empty : forall b, inv_b b ls_empty.
Proof. intros. split; constructor. Qed.

Lemma lineset_spec_lemma : forall ops ls l, mono_from 0 ops -> run_ops ls_empty ops = Ok ls ->
  contains ls l =
  match last_set ops l with
  | Some b => b
  | None => match range_last ops l with Some m => m | None => false end
  end.
Proof.
  intros ops ls l Hm Hr.
  destruct (run_ops_sem ops ls_empty 0) as (ls' & H1 & H2 & H3 & H4); auto; [lia | apply inv_b_empty|].
  rewrite Hr in H1. inversion H1; subst ls'.
  rewrite contains_sem; [|apply H3].
  rewrite (run_ops_lines _ _ _ Hr l), H4. simpl.
  destruct (last_set ops l); auto.
Qed.

Lemma lineset_total_lemma : forall ops, mono_from 0 ops -> exists ls, run_ops ls_empty ops = Ok ls.
Proof.
  intros ops Hm.
  destruct (run_ops_sem ops ls_empty 0) as (ls' & H1 & _); auto; [lia | apply inv_b_empty|].
  eauto.
Qed.

(* ------------------------------------------------------------------------------------------------ *)
(* Director: every line set of the final state is the result of a history of _LineSet calls that is a *)
(* function of the parser's output alone                                                            *)

Inductive target := TIgn | TDis (n : N).
Definition ls_of (st : dstate) (T : target) : lineset :=
  match T with TIgn => d_ignore st | TDis n => dis_get (d_dis st) n end.

Definition name_ops (ic : bool) (s line : Z) (op dis : bool) (n : N) : list lsop :=
  if accepted_name n && keep ic n then
    if op then [ORange line dis]
    else if negb (adjust_line line n s =? line)
         then [OSet line dis; OSet (adjust_line line n s) dis]
         else [OSet (adjust_line line n s) dis]
  else [].

Definition names_ops (ic : bool) (s line : Z) (op dis : bool) (names : list N) (m : N) : list lsop :=
  flat_map (fun n => if (m =? n)%N then name_ops ic s line op dis n else []) names.

Fixpoint cmds_ops (ic : bool) (s line : Z) (op : bool) (cmds : list cmd) (m : N) : list lsop :=
  match cmds with
  | [] => []
  | CDisable ns :: r => names_ops ic s line op true (nodup_n ns) m ++ cmds_ops ic s line op r m
  | CEnable ns :: r => names_ops ic s line op false (nodup_n ns) m ++ cmds_ops ic s line op r m
  | CNoop :: r => cmds_ops ic s line op r m
  | CRaise :: _ => []
  end.

Definition event_ops (ev : event) (T : target) : list lsop :=
  let c := ev_comment ev in
  match c_body c, T with
  | TypeIgnore, TIgn =>
    if c_open c then [ORange (c_line c) true] else [OSet (c_line c) true; OSet (ev_start ev) true]
  | Pytype cmds, TDis m => cmds_ops (ev_call ev) (ev_start ev) (c_line c) (c_open c) cmds m
  | _, _ => []
  end.

Definition events_ops (evs : list event) (T : target) : list lsop :=
  flat_map (fun ev => event_ops ev T) evs.

Definition global_ops (names : list N) (T : target) : list lsop :=
  match T with
  | TIgn => []
  | TDis m => flat_map (fun n => if (m =? n)%N then [ORange 0 true] else []) names
  end.

Definition all_ops (g : list N) (evs : list event) (T : target) : list lsop :=
  global_ops g T ++ events_ops evs T.

Lemma run_ops_app : forall a b ls, run_ops ls (a ++ b) = bind (run_ops ls a) (fun ls' => run_ops ls' b).
Proof.
  induction a as [|o r IH]; intros b ls; simpl; [reflexivity|].
  destruct (apply_op ls o); simpl; auto.
Qed.

Lemma run_ops_app_ok : forall a b ls ls1 ls2,
  run_ops ls a = Ok ls1 -> run_ops ls1 b = Ok ls2 -> run_ops ls (a ++ b) = Ok ls2.
Proof. intros. rewrite run_ops_app, H. simpl. exact H0. Qed.

Lemma dis_get_set : forall d n ls m, dis_get (dis_set d n ls) m = if (m =? n)%N then ls else dis_get d m.
Proof. reflexivity. Qed.

Lemma process_name_ops : forall ic s line op dis d n d',
  process_name ic s line op dis d n = Ok d' ->
  forall m, run_ops (dis_get d m) (if (m =? n)%N then name_ops ic s line op dis n else []) = Ok (dis_get d' m).
Proof.
  intros ic s line op dis d n d' H m. unfold process_name in H. unfold name_ops.
  destruct (accepted_name n); simpl in *.
  2:{ inversion H; subst. destruct (m =? n)%N; reflexivity. }
  destruct (keep ic n); simpl in *.
  2:{ inversion H; subst. destruct (m =? n)%N; reflexivity. }
  destruct op.
  - destruct (start_range (dis_get d n) line dis) as [ls'|x] eqn:E; simpl in H; [|discriminate].
    inversion H; subst. rewrite dis_get_set.
    destruct (m =? n)%N eqn:Emn; [|reflexivity].
    apply N.eqb_eq in Emn. subst m. simpl. rewrite E. reflexivity.
  - inversion H; subst. rewrite dis_get_set.
    destruct (m =? n)%N eqn:Emn; [|reflexivity].
    apply N.eqb_eq in Emn. subst m.
    destruct (negb (adjust_line line n s =? line)); reflexivity.
Qed.

Lemma process_names_ops : forall ic s line op dis names d d',
  process_names ic s line op dis names d = Ok d' ->
  forall m, run_ops (dis_get d m) (names_ops ic s line op dis names m) = Ok (dis_get d' m).
Proof.
  induction names as [|n r IH]; intros d d' H m; simpl in H.
  - inversion H. reflexivity.
  - destruct (process_name ic s line op dis d n) as [d1|x] eqn:E; simpl in H; [|discriminate].
    unfold names_ops. simpl. eapply run_ops_app_ok.
    + eapply process_name_ops. exact E.
    + apply IH. exact H.
Qed.

Lemma process_cmds_ops : forall ic s line op cmds d d',
  process_cmds ic s line op cmds d = Ok d' ->
  forall m, run_ops (dis_get d m) (cmds_ops ic s line op cmds m) = Ok (dis_get d' m).
Proof.
  induction cmds as [|c r IH]; intros d d' H m; simpl in H.
  - inversion H. reflexivity.
  - destruct c as [ns|ns| |]; simpl.
    + destruct (process_names ic s line op true (nodup_n ns) d) as [d1|x] eqn:E; simpl in H; [|discriminate].
      eapply run_ops_app_ok; [eapply process_names_ops; exact E | apply IH; exact H].
    + destruct (process_names ic s line op false (nodup_n ns) d) as [d1|x] eqn:E; simpl in H; [|discriminate].
      eapply run_ops_app_ok; [eapply process_names_ops; exact E | apply IH; exact H].
    + apply IH. exact H.
    + inversion H. reflexivity.
Qed.

(* the function-range component evolves independently of the line sets *)
Definition fr_step (fr : branges) (ev : event) : res branges :=
  if negb (ev_call ev) && has_end fr (ev_end ev) then adjust_end fr (ev_end ev) (ev_start ev) else Ok fr.

Lemma process_event_ops : forall st ev st', process_event st ev = Ok st' ->
  (forall T, run_ops (ls_of st T) (event_ops ev T) = Ok (ls_of st' T)) /\
  fr_step (d_fr st) ev = Ok (d_fr st').
Proof.
  intros st ev st' H. unfold process_event in H.
  match type of H with bind ?X _ = _ => destruct X as [st1|x] eqn:E1; simpl in H; [|discriminate] end.
  assert (Hfr1 : d_fr st1 = d_fr st /\
          forall T, run_ops (ls_of st T) (event_ops ev T) = Ok (ls_of st1 T)).
  { unfold event_ops. destruct (c_body (ev_comment ev)) as [| |cmds].
    - destruct (c_open (ev_comment ev)).
      + destruct (start_range (d_ignore st) (c_line (ev_comment ev)) true) as [ig|x] eqn:E; simpl in E1; [|discriminate].
        inversion E1; subst. split; [reflexivity|]. intros [|n]; simpl; [rewrite E|]; reflexivity.
      + inversion E1; subst. split; [reflexivity|]. intros [|n]; reflexivity.
    - inversion E1; subst. split; [reflexivity|]. intros [|n]; reflexivity.
    - match type of E1 with bind ?X _ = _ => destruct X as [d'|x] eqn:E; simpl in E1; [|discriminate] end.
      inversion E1; subst. split; [reflexivity|]. intros [|n]; simpl; [reflexivity|].
      eapply process_cmds_ops. exact E. }
  destruct Hfr1 as [Hfr1 Hops]. unfold fr_step. rewrite <- Hfr1.
  destruct (negb (ev_call ev) && has_end (d_fr st1) (ev_end ev)).
  - destruct (adjust_end (d_fr st1) (ev_end ev) (ev_start ev)) as [fr'|x] eqn:E; simpl in H; [|discriminate].
    inversion H; subst. split; [|reflexivity]. intros T. rewrite Hops. destruct T; reflexivity.
  - inversion H; subst. split; [exact Hops | reflexivity].
Qed.

Fixpoint fr_steps (fr : branges) (evs : list event) : res branges :=
  match evs with
  | [] => Ok fr
  | ev :: r => bind (fr_step fr ev) (fun fr' => fr_steps fr' r)
  end.

Lemma process_events_ops : forall evs st st', process_events st evs = Ok st' ->
  (forall T, run_ops (ls_of st T) (events_ops evs T) = Ok (ls_of st' T)) /\
  fr_steps (d_fr st) evs = Ok (d_fr st').
Proof.
  induction evs as [|ev r IH]; intros st st' H; simpl in H.
  - inversion H. split; reflexivity.
  - destruct (process_event st ev) as [st1|x] eqn:E; simpl in H; [|discriminate].
    destruct (process_event_ops _ _ _ E) as [Ho Hf]. destruct (IH _ _ H) as [Ho2 Hf2].
    split.
    + intros T. unfold events_ops. simpl. eapply run_ops_app_ok; [apply Ho | apply Ho2].
    + simpl. rewrite Hf. simpl. exact Hf2.
Qed.

Lemma global_disable_ops : forall names d d', global_disable names d = Ok d' ->
  forall m, run_ops (dis_get d m) (global_ops names (TDis m)) = Ok (dis_get d' m).
Proof.
  induction names as [|n r IH]; intros d d' H m; simpl in H.
  - inversion H. reflexivity.
  - destruct (start_range (dis_get d n) 0 true) as [ls|x] eqn:E; simpl in H; [|discriminate].
    simpl. eapply run_ops_app_ok; [|apply (IH _ _ H)].
    rewrite dis_get_set. destruct (m =? n)%N eqn:Emn; [|reflexivity].
    apply N.eqb_eq in Emn. subst. simpl. rewrite E. reflexivity.
Qed.

Lemma build_ops : forall g fr evs st, build_events g fr evs = Ok st ->
  (forall T, run_ops ls_empty (all_ops g evs T) = Ok (ls_of st T)) /\
  fr_steps (mk_branges fr) evs = Ok (d_fr st).
Proof.
  intros g fr evs st H. unfold build_events in H.
  destruct (global_disable g []) as [d|x] eqn:E; simpl in H; [|discriminate].
  destruct (process_events_ops _ _ _ H) as [Ho Hf]. split; [|exact Hf].
  intros T. unfold all_ops. eapply run_ops_app_ok; [|apply Ho].
  destruct T as [|m]; [reflexivity|]. simpl ls_of. apply (global_disable_ops _ _ _ E m).
Qed.
