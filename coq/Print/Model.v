(* C05 model: token-level model of pytype's stub printer (pytype/pytd/printer.py, PrintVisitor's type and
   signature methods) and of the stub parser restricted to the expression subset the printer emits
   (pytype/pyi/parser.py _AnnotationVisitor, pytype/pyi/definitions.py new_type/_parameterized_type/
   _pytd_literal, pytype/pytd/codegen/pytdgen.py pytd_callable, pytype/pytd/pep484.py ConvertTypingToNative,
   pytype/pytd/pytd.py _FlattenTypes, pytype/pytd/pytd_utils.py JoinTypes, pytype/pyi/function.py).
   Characters and Python's tokenizer are NOT modelled: the printer produces a list of tokens (the harness
   tokenises the real text with Python's `tokenize`, merges dotted names and signed numbers into one token and
   maps identifier strings to ids).  Import bookkeeping, name-collision renaming and the module/class layout
   are outside this model (they are exercised by the end-to-end oracle in harness/props/c05.py).
   Definitions only (no proofs) so that the model still evaluates when a proof breaks. *)
From Coq Require Import List BinNat BinInt Bool Arith.
Import ListNotations.

(* ------------------------------------------------------------------------------------------------ *)
(* identifiers: every identifier string (dotted names included) is an id; the ones the code treats
   specially are fixed.  ids 32..63 are the remaining members of `typing` that the stub imports with
   `from typing import X` (Sequence, Iterable, Generic, ...); ids >= 64 are ordinary names. *)
Definition id_NoneType : N := 0.
Definition id_Any : N := 1.
Definition id_Optional : N := 2.
Definition id_Union : N := 3.
Definition id_Literal : N := 4.
Definition id_Callable : N := 5.
Definition id_tuple : N := 6.
Definition id_Never : N := 7.
Definition id_nothing : N := 8.
Definition id_Annotated : N := 9.
Definition id_int : N := 10.
Definition id_float : N := 11.
Definition id_complex : N := 12.
Definition id_bytearray : N := 13.
Definition id_bytes : N := 14.
Definition id_memoryview : N := 15.
Definition id_self : N := 16.
Definition id_cls : N := 17.
Definition id_type : N := 18.
Definition id_Type : N := 19.
Definition id_dict : N := 20.
Definition id_str : N := 21.

(* does the bare identifier resolve to typing.<id> when the stub is read (through the stub's own
   `from typing import ...` line; the import block itself is not modelled) *)
Definition is_typing (i : N) : bool :=
  (i =? id_Any)%N || (i =? id_Optional)%N || (i =? id_Union)%N || (i =? id_Literal)%N ||
  (i =? id_Callable)%N || (i =? id_Never)%N || (i =? id_Annotated)%N || (i =? id_Type)%N ||
  ((32 <=? i)%N && (i <? 64)%N).

(* identifiers with a special meaning as a type name; an ordinary class may not carry one of them *)
Definition is_special (i : N) : bool :=
  (i =? id_Any)%N || (i =? id_Optional)%N || (i =? id_Union)%N || (i =? id_Literal)%N ||
  (i =? id_nothing)%N || (i =? id_Annotated)%N || (i =? id_Type)%N.

(* pytd.NamedType / ClassType names: "builtins.<id>", "typing.<id>", or any other (possibly dotted) name *)
Inductive name := NB (i : N) | NT (i : N) | NP (i : N).
Definition name_id (n : name) : N := match n with NB i | NT i | NP i => i end.
Definition name_eqb (a b : name) : bool :=
  match a, b with
  | NB i, NB j | NT i, NT j | NP i, NP j => (i =? j)%N
  | _, _ => false
  end.

(* pytd.Literal values.  LBool true b is the representation output.py emits (a pytd.Constant
   builtins.True/False); LBool false b is the one the stub parser builds (the Python bool itself, which
   Python's == and hash identify with the int 1/0). *)
Inductive lit := LInt (z : Z) | LBool (is_const : bool) (b : bool) | LStr (i : N) | LEnum (i : N).

Inductive ty :=
| Named (n : name)                      (* NamedType / ClassType *)
| AnyT                                  (* AnythingType *)
| NothingT                              (* NothingType *)
| TParam (i : N)                        (* TypeParameter *)
| Lit (v : lit)                         (* Literal *)
| Generic (b : name) (ps : list ty)     (* GenericType *)
| TupleT (b : name) (ps : list ty)      (* TupleType (heterogeneous) *)
| CallableT (b : name) (ps : list ty)   (* CallableType: argument types followed by the return type *)
| Union (ts : list ty)                  (* UnionType *)
| Annot (t : ty) (anns : list N).       (* Annotated; annotations are string literals *)

Inductive token :=
| TName (i : N) | TNone | TEllipsis
| TInt (z : Z) | TStr (i : N) | TBool (b : bool)
| TLBr | TRBr | TLPar | TRPar | TComma
| TColon | TEq | TStar | TDStar | TSlash | TArrow | TNewline.

Definition token_eq_dec : forall a b : token, {a = b} + {a <> b}.
Proof. decide equality; try apply N.eq_dec; try apply Z.eq_dec; apply bool_dec. Defined.
Definition tokens_eqb (a b : list token) : bool :=
  if list_eq_dec token_eq_dec a b then true else false.

(* the printer context that matters for types and parameters *)
Record ctx := mkCtx { in_param : bool;            (* PrintVisitor.in_parameter *)
                      cls_name : option N }.      (* innermost entry of PrintVisitor.class_names, generics stripped *)

(* ------------------------------------------------------------------------------------------------ *)
(* generic helpers *)

(* dict.fromkeys(xs): first occurrences, in order *)
Fixpoint dedup {A} (eqb : A -> A -> bool) (l : list A) : list A :=
  match l with
  | [] => []
  | x :: r => x :: filter (fun y => negb (eqb x y)) (dedup eqb r)
  end.

(* ", ".join(xs) *)
Fixpoint sep (l : list (list token)) : list token :=
  match l with
  | [] => []
  | x :: r => match r with [] => x | _ => x ++ TComma :: sep r end
  end.

(* base + "[" + ", ".join(args) + "]" *)
Definition sub (base : list token) (args : list (list token)) : list token :=
  base ++ TLBr :: sep args ++ [TRBr].

(* ------------------------------------------------------------------------------------------------ *)
(* printer.py: types *)

(* VisitNamedType for names that need no import bookkeeping, including the final NoneType -> None *)
Definition print_name (n : name) : list token :=
  if (name_id n =? id_NoneType)%N then [TNone] else [TName (name_id n)].

(* f"{node.value}" inside VisitLiteral / VisitConstant(in_literal) *)
Definition print_lit (v : lit) : token :=
  match v with
  | LInt z => TInt z
  | LBool _ b => TBool b
  | LStr i => TStr i
  | LEnum i => TName i
  end.

(* re.fullmatch of Literal\[ content \] where content is any run of characters (greedy) *)
Definition match_literal (s : list token) : option (list token) :=
  match s with
  | TName i :: TLBr :: r =>
      if (i =? id_Literal)%N then
        match rev r with TRBr :: cr => Some (rev cr) | _ => None end
      else None
  | _ => None
  end.

(* the loop of _BuildUnion that separates the Literal[...] members from the others *)
Fixpoint split_lits (l : list (list token)) : list (list token) * list (list token) :=
  match l with
  | [] => ([], [])
  | s :: r =>
      let (nl, ls) := split_lits r in
      match match_literal s with
      | Some cnt => (nl, cnt :: ls)
      | None => (s :: nl, ls)
      end
  end.

(* new_type_list after `if literals: new_type_list.append(f"Literal[{', '.join(literals)}]")` *)
Definition coalesce (l : list (list token)) : list (list token) :=
  let (nl, ls) := split_lits l in
  match ls with [] => nl | _ => nl ++ [sub [TName id_Literal] ls] end.

Definition is_none_s (s : list token) : bool := tokens_eqb s [TNone].

(* the recursive call of _BuildUnion made from the Optional branch: "None" has been filtered out, so
   only the first and the last branch are reachable *)
Definition build_union1 (l : list (list token)) : list token :=
  match coalesce l with
  | [x] => x
  | l' => sub [TName id_Union] l'
  end.

(* _BuildUnion *)
Definition build_union (l : list (list token)) : list token :=
  match coalesce l with
  | [x] => x
  | l' =>
      if existsb is_none_s l'
      then sub [TName id_Optional] [build_union1 (filter (fun s => negb (is_none_s s)) l')]
      else sub [TName id_Union] l'
  end.

(* pep484._COMPAT_ITEMS *)
Definition compat_items : list (N * N) :=
  [(id_int, id_float); (id_int, id_complex); (id_float, id_complex);
   (id_bytearray, id_bytes); (id_memoryview, id_bytes)].

Definition mem_s (s : list token) (l : list (list token)) : bool := existsb (tokens_eqb s) l.

(* `if compat in type_list and name in type_list: del type_list[compat]` *)
Definition compat_step (l : list (list token)) (p : N * N) : list (list token) :=
  if mem_s [TName (fst p)] l && mem_s [TName (snd p)] l
  then filter (fun s => negb (tokens_eqb s [TName (fst p)])) l
  else l.

(* _FormSetTypeList: the members are the already printed strings *)
Definition form_set (c : ctx) (l : list (list token)) : list (list token) :=
  let d := dedup tokens_eqb l in
  if in_param c then fold_left compat_step compat_items d else d.

Fixpoint print_ty (c : ctx) (t : ty) : list token :=
  match t with
  | Named n => print_name n
  | AnyT => [TName id_Any]
  | NothingT => [TName id_nothing]
  | TParam i => [TName i]
  | Lit v => sub [TName id_Literal] [[print_lit v]]
  | Generic b ps =>                                                     (* VisitGenericType *)
      let base := print_name b in
      let params := map (print_ty c) ps in
      if tokens_eqb base [TName id_tuple] then sub base (params ++ [[TEllipsis]])
      else if name_eqb b (NT id_Callable) then sub base ([TEllipsis] :: tl params)
      else sub base params
  | TupleT b ps =>                                                      (* VisitTupleType -> VisitGenericType *)
      let base := print_name b in
      let params := map (print_ty c) ps in
      match ps with
      | [] => sub base [[TLPar; TRPar]]
      | _ => if name_eqb b (NT id_Callable) then sub base ([TEllipsis] :: tl params)
             else sub base params
      end
  | CallableT b ps =>                                                   (* VisitCallableType, last branch *)
      let params := map (print_ty c) ps in
      sub (print_name b) [TLBr :: sep (removelast params) ++ [TRBr]; last params []]
  | Union ts => build_union (form_set c (map (print_ty c) ts))          (* VisitUnionType *)
  | Annot t anns =>                                                     (* VisitAnnotated *)
      sub [TName id_Annotated] (print_ty c t :: map (fun a => [TStr a]) anns)
  end.

(* ------------------------------------------------------------------------------------------------ *)
(* the reader: Python expression syntax (the part ast.parse does), then the conversions *)

Inductive expr :=
| EName (i : N)
| ENone
| EEllipsis
| EInt (z : Z) | EStr (i : N) | EBool (b : bool)
| EList (es : list expr)                 (* [a, b] *)
| ETuple0                                (* () *)
| ESub (base : N) (args : list expr).    (* base[a, b] *)

(* recursive descent with fuel; None on exhaustion or on a syntax error *)
Fixpoint parse_expr (fuel : nat) (ts : list token) : option (expr * list token) :=
  match fuel with
  | O => None
  | S f =>
    match ts with
    | TName i :: TLBr :: r =>
        match parse_args f r with
        | Some (es, TRBr :: r') => Some (ESub i es, r')
        | _ => None
        end
    | TName i :: r => Some (EName i, r)
    | TNone :: r => Some (ENone, r)
    | TEllipsis :: r => Some (EEllipsis, r)
    | TInt z :: r => Some (EInt z, r)
    | TStr i :: r => Some (EStr i, r)
    | TBool b :: r => Some (EBool b, r)
    | TLBr :: TRBr :: r => Some (EList [], r)
    | TLBr :: r =>
        match parse_args f r with
        | Some (es, TRBr :: r') => Some (EList es, r')
        | _ => None
        end
    | TLPar :: TRPar :: r => Some (ETuple0, r)
    | _ => None
    end
  end
with parse_args (fuel : nat) (ts : list token) : option (list expr * list token) :=
  match fuel with
  | O => None
  | S f =>
    match parse_expr f ts with
    | Some (e, TComma :: r) =>
        match parse_args f r with
        | Some (es, r') => Some (e :: es, r')
        | None => None
        end
    | Some (e, r) => Some ([e], r)
    | None => None
    end
  end.

(* Python == together with hash, as dict/set keys see pytd nodes: structural, with Literal(True) and Literal(1)
   (False and 0) the same key, and — since _SetOfTypes.__hash__ hashes frozenset(type_list) — unions compared as
   sets (UnionType.__eq__), also when they are nested inside other members *)
Definition lit_eqb (a b : lit) : bool :=
  match a, b with
  | LInt x, LInt y => (x =? y)%Z
  | LBool c1 b1, LBool c2 b2 => Bool.eqb c1 c2 && Bool.eqb b1 b2
  | LInt x, LBool false b | LBool false b, LInt x => (x =? (if b then 1 else 0))%Z
  | LStr i, LStr j => (i =? j)%N
  | LEnum i, LEnum j => (i =? j)%N
  | _, _ => false
  end.

Definition list_eqb {A} (f : A -> A -> bool) : list A -> list A -> bool :=
  fix go (l1 l2 : list A) : bool :=
    match l1, l2 with
    | [], [] => true
    | x :: r, y :: s => f x y && go r s
    | _, _ => false
    end.

Fixpoint ty_eqb (a b : ty) : bool :=
  match a, b with
  | Named n, Named m => name_eqb n m
  | AnyT, AnyT => true
  | NothingT, NothingT => true
  | TParam i, TParam j => (i =? j)%N
  | Lit v, Lit w => lit_eqb v w
  | Generic b1 p1, Generic b2 p2 => name_eqb b1 b2 && list_eqb ty_eqb p1 p2
  | TupleT b1 p1, TupleT b2 p2 => name_eqb b1 b2 && list_eqb ty_eqb p1 p2
  | CallableT b1 p1, CallableT b2 p2 => name_eqb b1 b2 && list_eqb ty_eqb p1 p2
  | Union t1, Union t2 =>
      forallb (fun x => existsb (fun y => ty_eqb x y) t2) t1 &&
      forallb (fun y => existsb (fun x => ty_eqb x y) t1) t2
  | Annot t1 a1, Annot t2 a2 => ty_eqb t1 t2 && list_eqb N.eqb a1 a2
  | _, _ => false
  end.

(* pytd._FlattenTypes *)
Definition flatten (l : list ty) : list ty :=
  flat_map (fun t => match t with Union ts => ts | _ => [t] end) l.
(* UnionType(type_list).__post_init__ *)
Definition mk_union (l : list ty) : ty := Union (dedup ty_eqb (flatten l)).

Definition is_any (t : ty) : bool := match t with AnyT => true | _ => false end.
Definition is_nothing (t : ty) : bool := match t with NothingT => true | _ => false end.
Definition is_nonetype (t : ty) : bool :=
  match t with Named (NB i) | Named (NP i) => (i =? id_NoneType)%N | _ => false end.

(* pytd_utils.JoinTypes *)
Definition join_types (l : list ty) : ty :=
  let l2 := dedup ty_eqb (filter (fun t => negb (is_nothing t)) (flatten l)) in
  match l2 with
  | [x] => x
  | [] => NothingT
  | _ => if existsb is_any l2
         then (if existsb is_nonetype l2 then mk_union [AnyT; Named (NB id_NoneType)] else AnyT)
         else mk_union l2
  end.

(* the type variables declared in the stub (T = TypeVar('T') lines) *)
Definition penv := list N.
Definition is_tvar (env : penv) (i : N) : bool := existsb (N.eqb i) env.

(* a bare identifier in type position: Definitions.resolve_type + new_type without parameters,
   then finalize_ast's _InsertTypeParameters and ConvertTypingToNative._Convert *)
Definition conv_name (env : penv) (i : N) : option ty :=
  if (i =? id_nothing)%N then Some NothingT
  else if (i =? id_Any)%N then Some AnyT
  else if (i =? id_Optional)%N || (i =? id_Union)%N then None      (* "Missing options to typing.Optional" *)
  else if (i =? id_Type)%N then Some (Named (NP id_type))          (* typing.Type -> type *)
  else if is_tvar env i then Some (TParam i)
  else if is_typing i then Some (Named (NT i))
  else Some (Named (NP i)).

(* the base of a parameterised type *)
Definition conv_base (env : penv) (i : N) : option name :=
  match conv_name env i with Some (Named n) => Some n | _ => None end.

(* _pytd_literal, one parameter *)
Definition conv_lit_arg (e : expr) : option ty :=
  match e with
  | ENone => Some (Named (NP id_NoneType))
  | EName i => Some (Lit (LEnum i))
  | EInt z => Some (Lit (LInt z))
  | EStr i => Some (Lit (LStr i))
  | EBool b => Some (Lit (LBool false b))
  | _ => None
  end.

Definition ann_arg (e : expr) : option N := match e with EStr i => Some i | _ => None end.

Definition mapM {A B} (f : A -> option B) : list A -> option (list B) :=
  fix go (l : list A) : option (list B) :=
    match l with
    | [] => Some []
    | x :: r => match f x, go r with Some y, Some ys => Some (y :: ys) | _, _ => None end
    end.

(* _AnnotationVisitor + Definitions.new_type/_parameterized_type + pytdgen + ConvertTypingToNative.
   Exact on the image of the printer; parameters that the printer never emits in a position (an ellipsis
   or a list inside an ordinary generic, a nested Literal, non-string Annotated metadata) are rejected. *)
Fixpoint conv (env : penv) (e : expr) : option ty :=
  match e with
  | EName i => conv_name env i
  | ENone => Some (Named (NP id_NoneType))
  | ESub b args =>
      let convs := mapM (conv env) in
      if (b =? id_Literal)%N then
        match args, mapM conv_lit_arg args with
        | _ :: _, Some ls => Some (join_types ls)
        | _, _ => None
        end
      else if (b =? id_Annotated)%N then
        match args with
        | t :: (_ :: _) as anns =>
            match conv env t, mapM ann_arg anns with
            | Some t', Some a => Some (Annot t' a)
            | _, _ => None
            end
        | _ => None
        end
      else if (b =? id_tuple)%N then
        match args with
        | [ETuple0] => Some (TupleT (NP id_tuple) [])
        | [x; EEllipsis] =>
            match conv env x with Some x' => Some (Generic (NP id_tuple) [x']) | None => None end
        | _ => match convs args with Some ps => Some (TupleT (NP id_tuple) ps) | None => None end
        end
      else if (b =? id_Callable)%N then
        match args with
        | [EEllipsis; r] =>
            match conv env r with Some r' => Some (Generic (NT id_Callable) [AnyT; r']) | None => None end
        | [EList a; r] =>
            match convs a, conv env r with
            | Some a', Some r' =>
                match a' with
                | [] | [NothingT] => Some (CallableT (NT id_Callable) [r'])   (* pytd_callable's special case *)
                | _ => Some (CallableT (NT id_Callable) (a' ++ [r']))
                end
            | _, _ => None
            end
        | [x; r] =>
            match conv env x, conv env r with
            | Some AnyT, Some r' => Some (Generic (NT id_Callable) [AnyT; r'])
            | _, _ => None
            end
        | _ => None
        end
      else if (b =? id_Any)%N then Some AnyT
      else if (b =? id_Optional)%N then
        match args with
        | [x] => match conv env x with
                 | Some x' => Some (mk_union [x'; Named (NP id_NoneType)])
                 | None => None
                 end
        | _ => None                                                          (* "Too many options" *)
        end
      else if (b =? id_Union)%N then
        match args, convs args with
        | _ :: _, Some ps => Some (mk_union ps)
        | _, _ => None
        end
      else
        match args, conv_base env b, convs args with
        | _ :: _, Some n, Some ps => Some (Generic n ps)
        | _, _, _ => None
        end
  | _ => None
  end.

Definition parse_ty (env : penv) (ts : list token) : option ty :=
  match parse_expr (S (length ts)) ts with
  | Some (e, []) => conv env e
  | _ => None
  end.

(* ------------------------------------------------------------------------------------------------ *)
(* the canonical form parse (print t) lands on *)

Definition norm_name (n : name) : name := match n with NB i => NP i | _ => n end.
(* what the reader builds for a printed literal value *)
Definition pv (v : lit) : lit := match v with LBool _ b => LBool false b | _ => v end.

Definition is_lit (t : ty) : bool := match t with Lit _ => true | _ => false end.

(* _FormSetTypeList seen on the members themselves (keyed by their printed form) *)
Fixpoint dedup_on {A K} (key : A -> K) (eqb : K -> K -> bool) (l : list A) : list A :=
  match l with
  | [] => []
  | x :: r => x :: filter (fun y => negb (eqb (key x) (key y))) (dedup_on key eqb r)
  end.
Definition compat_step_on {A} (key : A -> list token) (l : list A) (p : N * N) : list A :=
  if mem_s [TName (fst p)] (map key l) && mem_s [TName (snd p)] (map key l)
  then filter (fun x => negb (tokens_eqb (key x) [TName (fst p)])) l
  else l.
Definition form_set_on {A} (c : ctx) (key : A -> list token) (l : list A) : list A :=
  let d := dedup_on key tokens_eqb l in
  if in_param c then fold_left (compat_step_on key) compat_items d else d.

(* the union case of norm; `pairs` are the members paired with their canonical forms *)
Definition u_key (c : ctx) (p : ty * ty) : list token := print_ty c (fst p).
Definition u_none (c : ctx) (p : ty * ty) : bool := is_none_s (u_key c p).
Definition u_lit (p : ty * ty) : bool := is_lit (fst p).
Definition u_ks (c : ctx) (pairs : list (ty * ty)) := form_set_on c (u_key c) pairs.     (* members that are printed *)
Definition u_nl (c : ctx) (pairs : list (ty * ty)) := filter (fun p => negb (u_lit p)) (u_ks c pairs).  (* printed in place *)
Definition u_ls (c : ctx) (pairs : list (ty * ty)) := filter u_lit (u_ks c pairs).       (* coalesced into one Literal[...] *)
Definition u_nl' (c : ctx) (pairs : list (ty * ty)) := filter (fun p => negb (u_none c p)) (u_nl c pairs).

Definition norm_union (c : ctx) (pairs : list (ty * ty)) : ty :=
  let nl := u_nl c pairs in
  let ls := u_ls c pairs in
  let lg := match ls with [] => [] | _ => [join_types (map snd ls)] end in
  match map snd nl ++ lg with
  | [] => Union []
  | [x] => x
  | _ =>
      if existsb (u_none c) nl
      then mk_union [match map snd (u_nl' c pairs) ++ lg with [x] => x | l => mk_union l end;
                     Named (NP id_NoneType)]
      else mk_union (map snd nl ++ lg)
  end.

(* the members of the re-read union, in the order the reader meets them *)
Definition union_F (c : ctx) (pairs : list (ty * ty)) : list ty :=
  map snd (u_nl' c pairs) ++ map snd (u_ls c pairs)
  ++ (if existsb (u_none c) (u_nl c pairs) then [Named (NP id_NoneType)] else []).

Fixpoint norm (c : ctx) (t : ty) : ty :=
  match t with
  | Named n => Named (norm_name n)
  | AnyT => AnyT
  | NothingT => NothingT
  | TParam i => TParam i
  | Lit v => Lit (pv v)
  | Generic b ps =>
      if tokens_eqb (print_name b) [TName id_tuple] then Generic (NP id_tuple) (map (norm c) ps)
      else if name_eqb b (NT id_Callable) then Generic b (AnyT :: tl (map (norm c) ps))
      else Generic (norm_name b) (map (norm c) ps)
  | TupleT b ps => TupleT (NP id_tuple) (map (norm c) ps)
  | CallableT b ps =>
      let nps := map (norm c) ps in
      match removelast nps with
      | [NothingT] => CallableT b [last nps AnyT]           (* pytd_callable's special case *)
      | _ => CallableT b nps
      end
  | Annot t a => Annot (norm c t) a
  | Union ts => norm_union c (map (fun t => (t, norm c t)) ts)
  end.

(* ------------------------------------------------------------------------------------------------ *)
(* the emitted dialect (boolean, so that it can be evaluated on generated cases) *)

Definition ord_id (env : penv) (i : N) : bool :=           (* an ordinary class/alias name *)
  negb (is_typing i) && negb (is_special i) && negb (is_tvar env i).
Definition wf_name (env : penv) (n : name) : bool :=
  match n with
  | NB i | NP i => ord_id env i
  | NT i => is_typing i && negb (is_special i) && negb (is_tvar env i)
  end.
Definition wf_lit (env : penv) (v : lit) : bool :=
  match v with LEnum i => ord_id env i && negb (i =? id_NoneType)%N | _ => true end.
Definition is_union (t : ty) : bool := match t with Union _ => true | _ => false end.
Definition prints_tuple (b : name) : bool := tokens_eqb (print_name b) [TName id_tuple].

Fixpoint wf (env : penv) (t : ty) : bool :=
  match t with
  | Named n => wf_name env n
  | AnyT | NothingT => true
  | TParam i => is_tvar env i && negb (is_typing i) && negb (is_special i) && negb (i =? id_NoneType)%N
  | Lit v => wf_lit env v
  | Generic b ps =>
      wf_name env b && negb (name_id b =? id_NoneType)%N && forallb (wf env) ps &&
      (if prints_tuple b then (length ps =? 1)%nat
       else if name_eqb b (NT id_Callable) then match ps with [AnyT; _] => true | _ => false end
       else match ps with [] => false | _ => true end)
  | TupleT b ps => prints_tuple b && wf_name env b && forallb (wf env) ps
  | CallableT b ps =>
      name_eqb b (NT id_Callable) && forallb (wf env) ps && match ps with [] => false | _ => true end
  | Union ts =>
      forallb (wf env) ts && forallb (fun t => negb (is_union t)) ts && match ts with [] => false | _ => true end
  | Annot t a => wf env t && match a with [] => false | _ => true end
  end.

(* pytd's structural equality, with set equality on unions (UnionType.__eq__), read recursively *)
Fixpoint ty_eq (a b : ty) : bool :=
  match a, b with
  | Named n, Named m => name_eqb n m
  | AnyT, AnyT => true
  | NothingT, NothingT => true
  | TParam i, TParam j => (i =? j)%N
  | Lit v, Lit w => lit_eqb v w
  | Generic b1 p1, Generic b2 p2 => name_eqb b1 b2 && list_eqb ty_eq p1 p2
  | TupleT b1 p1, TupleT b2 p2 => name_eqb b1 b2 && list_eqb ty_eq p1 p2
  | CallableT b1 p1, CallableT b2 p2 => name_eqb b1 b2 && list_eqb ty_eq p1 p2
  | Union t1, Union t2 =>
      forallb (fun x => existsb (fun y => ty_eq x y) t2) t1 &&
      forallb (fun y => existsb (fun x => ty_eq x y) t1) t2
  | Annot t1 a1, Annot t2 a2 => ty_eq t1 t2 && list_eqb N.eqb a1 a2
  | _, _ => false
  end.

(* the view of a type in which "builtins.X" and "X" are the same name (what name resolution identifies)
   and a Literal bool has the representation the reader builds *)
Fixpoint unqual (t : ty) : ty :=
  match t with
  | Named n => Named (norm_name n)
  | Lit v => Lit (pv v)
  | Generic b ps => Generic (norm_name b) (map unqual ps)
  | TupleT b ps => TupleT (norm_name b) (map unqual ps)
  | CallableT b ps => CallableT (norm_name b) (map unqual ps)
  | Union ts => Union (map unqual ts)
  | Annot t a => Annot (unqual t) a
  | _ => t
  end.

(* VerifyVisitor, the clauses about types: EnterGenericType / EnterCallableType `assert node.parameters`
   (TupleType has no Enter method of its own in VerifyVisitor, so tuple[()] passes) *)
Fixpoint verify_ty (t : ty) : bool :=
  match t with
  | Generic _ ps => match ps with [] => false | _ => forallb verify_ty ps end
  | CallableT _ ps => match ps with [] => false | _ => forallb verify_ty ps end
  | TupleT _ ps => forallb verify_ty ps
  | Union ts => forallb verify_ty ts
  | Annot t _ => verify_ty t
  | _ => true
  end.

(* ------------------------------------------------------------------------------------------------ *)
(* conditions under which the round trip changes nothing.  Each one that is not implied by `wf` is a
   place where the unchanged code does NOT satisfy the property (see Props/C05.v, the _refuted theorems). *)

Fixpoint nodup_by {A} (eqb : A -> A -> bool) (l : list A) : bool :=
  match l with
  | [] => true
  | x :: r => negb (existsb (eqb x) r) && nodup_by eqb r
  end.

(* print (norm t) = print t needs: no Callable[[nothing], R]; in every union the members that reach the
   reader are pairwise different dict keys (fails for Literal[True, 1] / Literal[False, 0]). *)
Fixpoint stable (c : ctx) (t : ty) : bool :=
  match t with
  | Generic _ ps | TupleT _ ps => forallb (stable c) ps
  | CallableT _ ps =>
      forallb (stable c) ps && match removelast (map (norm c) ps) with [NothingT] => false | _ => true end
  | Annot t _ => stable c t
  | Union ts =>
      forallb (stable c) ts && nodup_by ty_eqb (union_F c (map (fun t => (t, norm c t)) ts))
  | _ => true
  end.

(* additionally needed for structural equality of the re-read type with the printed one: no
   single-member union (printed as its member), no member dropped by the parameter-only compat rule,
   no duplicate member dropped by the printer *)
Fixpoint eq_stable (c : ctx) (t : ty) : bool :=
  match t with
  | Generic b ps =>
      forallb (eq_stable c) ps
  | TupleT _ ps | CallableT _ ps => forallb (eq_stable c) ps
  | Annot t _ => eq_stable c t
  | Union ts =>
      forallb (eq_stable c) ts && (2 <=? length ts)%nat &&
      (length (form_set_on c (print_ty c) ts) =? length ts)%nat
  | _ => true
  end.

(* ------------------------------------------------------------------------------------------------ *)
(* printer.py: signatures (VisitSignature / VisitParameter / _FormatContainerContents) *)

Inductive pkind := PosOnly | Regular | KwOnly.
Definition pkind_eqb (a b : pkind) : bool :=
  match a, b with PosOnly, PosOnly | Regular, Regular | KwOnly, KwOnly => true | _, _ => false end.

Record param := mkParam { p_name : N; p_ty : ty; p_kind : pkind; p_opt : bool; p_mut : option ty }.
(* starargs / starstarargs carry their container type: tuple / tuple[T] and dict / dict[str, T] *)
Record sig := mkSig { s_params : list param; s_star : option (N * ty); s_sstar : option (N * ty);
                      s_ret : ty }.

(* _strip_generics: type_name.split("[", 1)[0] *)
Fixpoint strip_generics (s : list token) : list token :=
  match s with
  | [] => []
  | TLBr :: _ => []
  | t :: r => t :: strip_generics r
  end.

(* re.fullmatch(rf"(?:Type|type)\[{class_name()}(?:\[.+\])?\]", node.type) *)
Definition cls_match (k : N) (s : list token) : bool :=
  match s with
  | TName t :: TLBr :: TName k' :: r =>
      ((t =? id_type)%N || (t =? id_Type)%N) && (k' =? k)%N &&
      match r with
      | [TRBr] => true
      | TLBr :: r' => match rev r' with TRBr :: TRBr :: _ :: _ => true | _ => false end
      | _ => false
      end
  | _ => false
  end.

(* is the annotation left out by VisitParameter? *)
Definition elided (c : ctx) (nm : N) (t : ty) (printed : list token) : bool :=
  match t with
  | AnyT => true
  | _ =>
    match cls_name c with
    | Some k =>
        ((nm =? id_self)%N && tokens_eqb (strip_generics printed) [TName k]) ||
        ((nm =? id_cls)%N && cls_match k printed)
    | None => false
    end
  end.

Definition ctx_param (c : ctx) : ctx := mkCtx true (cls_name c).
Definition ctx_plain (c : ctx) : ctx := mkCtx false (cls_name c).

(* VisitParameter (the parameter's type is printed with in_parameter set) *)
Definition print_param (c : ctx) (nm : N) (t : ty) (opt : bool) : list token :=
  let printed := print_ty (ctx_param c) t in
  let suffix := if opt then [TEq; TEllipsis] else [] in
  if elided c nm t printed then TName nm :: suffix
  else TName nm :: TColon :: printed ++ suffix.

(* _FormatContainerContents *)
Definition print_container (c : ctx) (st : N * ty) : list token :=
  match snd st with
  | Generic _ ps | TupleT _ ps | CallableT _ ps => print_param c (fst st) (last ps AnyT) false
  | _ => print_param c (fst st) AnyT false
  end.

(* the parameter loop of VisitSignature *)
Fixpoint params_loop (c : ctx) (ps : list param) (star : option (list token)) : list (list token) :=
  match ps with
  | [] => match star with Some s => [TStar :: s] | None => [] end
  | p :: rest =>
      if pkind_eqb (p_kind p) KwOnly then
        (TStar :: match star with Some s => s | None => [] end)
        :: map (fun q => print_param c (p_name q) (p_ty q) (p_opt q)) (p :: rest)
      else
        print_param c (p_name p) (p_ty p) (p_opt p)
        :: (if pkind_eqb (p_kind p) PosOnly &&
               match rest with [] => true | q :: _ => negb (pkind_eqb (p_kind q) PosOnly) end
            then [[TSlash]] else [])
        ++ params_loop c rest star
  end.

Definition print_body (c : ctx) (ps : list param) : list token :=
  match flat_map (fun p => match p_mut p with
                           | Some m => TNewline :: TName (p_name p) :: TEq :: print_ty (ctx_plain c) m
                           | None => []
                           end) ps with
  | [] => [TEllipsis]
  | b => b
  end.

(* VisitSignature: "(" params ")" " -> " ret ":" body *)
Definition print_sig (c : ctx) (s : sig) : list token :=
  let ret := print_ty (ctx_plain c) (s_ret s) in
  let ret' := if tokens_eqb ret [TName id_nothing] then [TName id_Never] else ret in
  let star := match s_star s with Some st => Some (print_container c st) | None => None end in
  let ps := params_loop c (s_params s) star
            ++ match s_sstar s with Some st => [TDStar :: print_container c st] | None => [] end in
  TLPar :: sep ps ++ [TRPar; TArrow] ++ ret' ++ [TColon] ++ print_body c (s_params s).

(* ------------------------------------------------------------------------------------------------ *)
(* the reader: def-line syntax (ast.parse), then function.py / codegen/function.py *)

Record rparam := mkR { r_name : N; r_ann : option expr; r_def : bool }.
Inductive item := ISlash | IStar (p : option rparam) | IDStar (p : rparam) | IParam (p : rparam).

(* NAME [":" expr] ["=" "..."] *)
Definition parse_rparam (ts : list token) : option (rparam * list token) :=
  match ts with
  | TName nm :: TColon :: r =>
      match parse_expr (S (length r)) r with
      | Some (e, TEq :: TEllipsis :: r') => Some (mkR nm (Some e) true, r')
      | Some (e, r') => Some (mkR nm (Some e) false, r')
      | None => None
      end
  | TName nm :: TEq :: TEllipsis :: r => Some (mkR nm None true, r)
  | TName nm :: r => Some (mkR nm None false, r)
  | _ => None
  end.

Definition parse_item (ts : list token) : option (item * list token) :=
  match ts with
  | TSlash :: r => Some (ISlash, r)
  | TDStar :: r => match parse_rparam r with Some (p, r') => Some (IDStar p, r') | None => None end
  | TStar :: TName nm :: r =>
      match parse_rparam (TName nm :: r) with Some (p, r') => Some (IStar (Some p), r') | None => None end
  | TStar :: r => Some (IStar None, r)
  | _ => match parse_rparam ts with Some (p, r') => Some (IParam p, r') | None => None end
  end.

(* item ("," item)* up to the closing parenthesis *)
Fixpoint parse_items (fuel : nat) (ts : list token) : option (list item * list token) :=
  match fuel with
  | O => None
  | S f =>
    match parse_item ts with
    | Some (it, TComma :: r) =>
        match parse_items f r with Some (its, r') => Some (it :: its, r') | None => None end
    | Some (it, r) => Some ([it], r)
    | None => None
    end
  end.

(* what Python's grammar accepts, and the split into posonly / regular / *args / kwonly / **kwargs *)
Record rsig := mkRS { rs_pos : list rparam; rs_reg : list rparam; rs_star : option rparam;
                      rs_kw : list rparam; rs_sstar : option rparam }.

(* "parameter without a default follows parameter with a default" (positional parameters only) *)
Fixpoint defaults_ok (seen : bool) (ps : list rparam) : bool :=
  match ps with
  | [] => true
  | p :: r => if r_def p then defaults_ok true r else negb seen && defaults_ok false r
  end.
Definition no_default (p : rparam) : bool := negb (r_def p).

(* phase 0: positional parameters (before any "/"), 1: after "/", 2: after "*" or "*args", 3: after "**" *)
Fixpoint build_rsig (phase : nat) (acc : rsig) (bare : bool) (its : list item) : option rsig :=
  match its with
  | [] => if bare && match rs_kw acc with [] => true | _ => false end then None   (* named arguments must follow bare star *)
          else Some acc
  | ISlash :: r =>
      match phase, rs_reg acc with
      | O, _ :: _ => build_rsig 1 (mkRS (rs_reg acc) [] None [] None) bare r
      | _, _ => None
      end
  | IParam p :: r =>
      match phase with
      | O | S O => build_rsig phase (mkRS (rs_pos acc) (rs_reg acc ++ [p]) None [] None) bare r
      | S (S O) => build_rsig 2 (mkRS (rs_pos acc) (rs_reg acc) (rs_star acc) (rs_kw acc ++ [p]) None) bare r
      | _ => None
      end
  | IStar sp :: r =>
      match phase with
      | O | S O =>
          match sp with
          | Some p => if no_default p then build_rsig 2 (mkRS (rs_pos acc) (rs_reg acc) (Some p) [] None) false r
                      else None
          | None => build_rsig 2 acc true r
          end
      | _ => None
      end
  | IDStar p :: r =>
      match phase, r with
      | S (S (S _)), _ => None
      | _, [] => if no_default p && negb (bare && match rs_kw acc with [] => true | _ => false end)
                 then Some (mkRS (rs_pos acc) (rs_reg acc) (rs_star acc) (rs_kw acc) (Some p))
                 else None
      | _, _ => None
      end
  end.

(* body: "..." or a sequence of  NEWLINE name "=" expr  (type mutations) *)
Fixpoint parse_body (fuel : nat) (ts : list token) : option (list (N * expr)) :=
  match fuel with
  | O => None
  | S f =>
    match ts with
    | [] => Some []
    | TNewline :: TName nm :: TEq :: r =>
        match parse_expr (S (length r)) r with
        | Some (e, r') => match parse_body f r' with Some b => Some ((nm, e) :: b) | None => None end
        | None => None
        end
    | _ => None
    end
  end.

(* isinstance(t, pytd.GenericType) at the time NameAndSig.from_function looks (before
   ConvertTypingToNative turned Optional[...]/Union[...] into UnionType) *)
Definition expr_is_generic (e : expr) : bool :=
  match e with
  | ESub b _ => negb ((b =? id_Literal)%N || (b =? id_Annotated)%N || (b =? id_Any)%N)
  | _ => false
  end.

Definition conv_ann (env : penv) (a : option expr) : option ty :=
  match a with Some e => conv env e | None => Some AnyT end.

(* Param.from_arg + _apply_defaults + Param.to_pytd *)
Definition conv_param (env : penv) (k : pkind) (p : rparam) : option param :=
  match conv_ann env (r_ann p) with
  | Some t => Some (mkParam (r_name p) t k (r_def p) None)
  | None => None
  end.

(* pytd_star_param / pytd_starstar_param *)
Definition conv_star (env : penv) (p : option rparam) : option (option (N * ty)) :=
  match p with
  | None => Some None
  | Some q =>
      match r_ann q with
      | None => Some (Some (r_name q, Named (NP id_tuple)))
      | Some e => match conv env e with
                  | Some t => Some (Some (r_name q, Generic (NP id_tuple) [t]))
                  | None => None
                  end
      end
  end.
Definition conv_sstar (env : penv) (p : option rparam) : option (option (N * ty)) :=
  match p with
  | None => Some None
  | Some q =>
      match r_ann q with
      | None => Some (Some (r_name q, Named (NP id_dict)))
      | Some e => match conv env e with
                  | Some t => Some (Some (r_name q, Generic (NP id_dict) [Named (NP id_str); t]))
                  | None => None
                  end
      end
  end.

(* sig.Visit(Mutator(name, new_type)): every Parameter node is visited, *args/**kwargs included
   (they are optional=True, so a match on them is the NotImplementedError -> ParseError) *)
Definition apply_mutator (s : sig) (m : N * ty) : option sig :=
  let hit (nm : N) := (nm =? fst m)%N in
  let bad := existsb (fun p => hit (p_name p) && p_opt p) (s_params s)
             || match s_star s with Some st => hit (fst st) | None => false end
             || match s_sstar s with Some st => hit (fst st) | None => false end in
  let found := existsb (fun p => hit (p_name p)) (s_params s) in
  if bad then None
  else if negb found then None                                   (* "No parameter named ..." *)
  else Some (mkSig (map (fun p => if hit (p_name p)
                                  then mkParam (p_name p) (p_ty p) (p_kind p) (p_opt p) (Some (snd m))
                                  else p) (s_params s))
                   (s_star s) (s_sstar s) (s_ret s)).

Fixpoint apply_mutators (s : sig) (ms : list (N * ty)) : option sig :=
  match ms with
  | [] => Some s
  | m :: r => match apply_mutator s m with Some s' => apply_mutators s' r | None => None end
  end.

(* pytd_utils.GetTypeParameters *)
Fixpoint tparams (t : ty) : list N :=
  match t with
  | TParam i => [i]
  | Generic _ ps | TupleT _ ps | CallableT _ ps => flat_map tparams ps
  | Union ts => flat_map tparams ts
  | Annot t _ => tparams t
  | _ => []
  end.

(* definitions._VerifyMutators (run by finalize_ast, before ConvertTypingToNative): a mutated type that is a
   GenericType at that time may only mention type parameters of the parameter types or of the enclosing
   class's bases (`scope`).  Optional[..]/Union[..] are still GenericTypes then; a union that came from
   Literal[a, b] is not, but it has no type parameters, so testing the converted type is equivalent. *)
Definition is_generic_ty (t : ty) : bool :=
  match t with Generic _ _ | TupleT _ _ | CallableT _ _ | Union _ => true | _ => false end.
Definition sig_tparams (s : sig) : list N :=
  flat_map (fun p => tparams (p_ty p)) (s_params s)
  ++ match s_star s with Some st => tparams (snd st) | None => [] end
  ++ match s_sstar s with Some st => tparams (snd st) | None => [] end.
Definition verify_mutators (scope : list N) (s : sig) : bool :=
  let inscope := scope ++ sig_tparams s in
  forallb (fun p => match p_mut p with
                    | Some m => if is_generic_ty m
                                then forallb (fun i => existsb (N.eqb i) inscope) (tparams m)
                                else true
                    | None => true
                    end) (s_params s).

Definition first_param (rs : rsig) : option rparam :=
  match rs_pos rs ++ rs_reg rs ++ rs_kw rs with p :: _ => Some p | [] => None end.

Definition parse_sig (env : penv) (scope : list N) (ts : list token) : option sig :=
  match ts with
  | TLPar :: r =>
      let after_params :=
        match r with
        | TRPar :: r' => Some ([], r')
        | _ => match parse_items (S (length r)) r with
               | Some (its, TRPar :: r') => Some (its, r')
               | _ => None
               end
        end in
      match after_params with
      | Some (its, TArrow :: r1) =>
          match parse_expr (S (length r1)) r1 with
          | Some (re, TColon :: r2) =>
              let body := match r2 with
                          | [TEllipsis] => Some []
                          | [] => None
                          | _ => parse_body (S (length r2)) r2
                          end in
              match build_rsig 0 (mkRS [] [] None [] None) false its, body with
              | Some rs, Some muts =>
                  if defaults_ok false (rs_pos rs ++ rs_reg rs) then
                    match mapM (conv_param env PosOnly) (rs_pos rs),
                          mapM (conv_param env Regular) (rs_reg rs),
                          mapM (conv_param env KwOnly) (rs_kw rs),
                          conv_star env (rs_star rs), conv_sstar env (rs_sstar rs),
                          conv env re,
                          mapM (fun m => match conv env (snd m) with
                                         | Some t => Some (fst m, t) | None => None end) muts with
                    | Some pp, Some pr, Some pk, Some st, Some sst, Some ret, Some ms =>
                        let s0 := mkSig (pp ++ pr ++ pk) st sst ret in
                        (* `self` generic: a mutator for self is appended after the explicit ones *)
                        let selfm :=
                          match first_param rs, pp ++ pr ++ pk with
                          | Some fp, q :: _ =>
                              if (r_name fp =? id_self)%N &&
                                 match r_ann fp with Some e => expr_is_generic e | None => false end
                              then [(id_self, p_ty q)] else []
                          | _, _ => []
                          end in
                        match apply_mutators s0 (ms ++ selfm) with
                        | Some s1 => if verify_mutators scope s1 then Some s1 else None
                        | None => None
                        end
                    | _, _, _, _, _, _, _ => None
                    end
                  else None
              | _, _ => None
              end
          | _ => None
          end
      | _ => None
      end
  | _ => None
  end.

(* ------------------------------------------------------------------------------------------------ *)
(* canonical form of a signature *)

(* the type the reader gives a parameter: Any when the annotation was elided *)
Definition norm_pty (c : ctx) (nm : N) (t : ty) : ty :=
  if elided c nm t (print_ty (ctx_param c) t) then AnyT else norm (ctx_param c) t.

Definition container_elem (t : ty) : ty :=
  match t with Generic _ ps | TupleT _ ps | CallableT _ ps => last ps AnyT | _ => AnyT end.

Definition norm_star (c : ctx) (st : N * ty) : N * ty :=
  let e := container_elem (snd st) in
  if elided c (fst st) e (print_ty (ctx_param c) e) then (fst st, Named (NP id_tuple))
  else (fst st, Generic (NP id_tuple) [norm (ctx_param c) e]).
Definition norm_sstar (c : ctx) (st : N * ty) : N * ty :=
  let e := container_elem (snd st) in
  if elided c (fst st) e (print_ty (ctx_param c) e) then (fst st, Named (NP id_dict))
  else (fst st, Generic (NP id_dict) [Named (NP id_str); norm (ctx_param c) e]).

Definition norm_param (c : ctx) (p : param) : param :=
  mkParam (p_name p) (norm_pty c (p_name p) (p_ty p)) (p_kind p) (p_opt p)
          (match p_mut p with Some m => Some (norm (ctx_plain c) m) | None => None end).

Definition norm_ret (c : ctx) (t : ty) : ty :=
  if tokens_eqb (print_ty (ctx_plain c) t) [TName id_nothing] then Named (NT id_Never)
  else norm (ctx_plain c) t.

(* the printed annotation is a subscript that the reader first builds as a pytd.GenericType *)
Definition prints_generic (s : list token) : bool :=
  match s with
  | TName b :: TLBr :: _ => negb ((b =? id_Literal)%N || (b =? id_Annotated)%N || (b =? id_Any)%N)
  | _ => false
  end.

(* NameAndSig.from_function: "If `self` is generic, a type parameter is being mutated" *)
Definition self_mutated (c : ctx) (s : sig) : bool :=
  match s_params s with
  | p :: _ =>
      let printed := print_ty (ctx_param c) (p_ty p) in
      (p_name p =? id_self)%N && negb (elided c (p_name p) (p_ty p) printed) && prints_generic printed
  | [] => false
  end.

(* valid for signatures whose parameter names are pairwise different (wf_sig) *)
Definition norm_sig (c : ctx) (s : sig) : sig :=
  let ps := map (norm_param c) (s_params s) in
  let ps' := match ps with
             | p :: r => if self_mutated c s
                         then mkParam (p_name p) (p_ty p) (p_kind p) (p_opt p) (Some (p_ty p)) :: r
                         else ps
             | [] => []
             end in
  mkSig ps'
        (match s_star s with Some st => Some (norm_star c st) | None => None end)
        (match s_sstar s with Some st => Some (norm_sstar c st) | None => None end)
        (norm_ret c (s_ret s)).

(* ------------------------------------------------------------------------------------------------ *)
(* the emitted dialect of signatures *)

Definition kind_rank (k : pkind) : nat := match k with PosOnly => 0 | Regular => 1 | KwOnly => 2 end.
Fixpoint kinds_sorted (ps : list param) : bool :=
  match ps with
  | p :: ((q :: _) as r) => (kind_rank (p_kind p) <=? kind_rank (p_kind q))%nat && kinds_sorted r
  | _ => true
  end.
(* no positional parameter without a default after one with a default *)
Fixpoint defaults_sorted (seen : bool) (ps : list param) : bool :=
  match ps with
  | [] => true
  | p :: r => if pkind_eqb (p_kind p) KwOnly then true
              else if p_opt p then defaults_sorted true r else negb seen && defaults_sorted false r
  end.
Definition wf_container (env : penv) (dict_like : bool) (st : N * ty) : bool :=
  match snd st with
  | Named n => true
  | Generic b ps => wf env (last ps AnyT) && match ps with [] => false | _ => true end
  | _ => false
  end.
Definition sig_names (s : sig) : list N :=
  map p_name (s_params s) ++ match s_star s with Some st => [fst st] | None => [] end
  ++ match s_sstar s with Some st => [fst st] | None => [] end.

Definition wf_sig (env : penv) (scope : list N) (c : ctx) (s : sig) : bool :=
  forallb (fun p => wf env (p_ty p) &&
                    match p_mut p with Some m => wf env m && negb (p_opt p) | None => true end)
          (s_params s) &&
  kinds_sorted (s_params s) && defaults_sorted false (s_params s) &&
  nodup_by N.eqb (sig_names s) &&
  match s_star s with Some st => wf_container env false st | None => true end &&
  match s_sstar s with Some st => wf_container env true st | None => true end &&
  wf env (s_ret s) &&
  (* a self parameter that the reader will mutate must not be optional *)
  negb (self_mutated c s && match s_params s with p :: _ => p_opt p | [] => false end) &&
  (* _VerifyMutators, on what the reader will see *)
  verify_mutators scope (norm_sig c s) &&
  (* `-> Never` (printed for nothing) must not be shadowed by a TypeVar of that name *)
  negb (is_tvar env id_Never).

(* the signature is unchanged by the round trip when: every type is stable, and `self` does not get the
   implicit mutation (or already carries exactly it) *)
(* signatures without type mutations (explicit `x = T` body lines, or the implicit one for a generic `self`) *)
Definition simple_sig (c : ctx) (s : sig) : bool :=
  forallb (fun p => match p_mut p with None => true | Some _ => false end) (s_params s) &&
  negb (self_mutated c s).

(* a type that is not Any must not become Any (a one-member union of Any): VisitParameter would then
   leave the annotation out on the second printing *)
Definition any_ok (c : ctx) (t : ty) : bool := is_any t || negb (is_any (norm (ctx_param c) t)).

Definition stable_sig (c : ctx) (s : sig) : bool :=
  forallb (fun p => stable (ctx_param c) (p_ty p) && any_ok c (p_ty p) &&
                    match p_mut p with Some m => stable (ctx_plain c) m | None => true end) (s_params s) &&
  match s_star s with
  | Some st => stable (ctx_param c) (container_elem (snd st)) && any_ok c (container_elem (snd st))
  | None => true end &&
  match s_sstar s with
  | Some st => stable (ctx_param c) (container_elem (snd st)) && any_ok c (container_elem (snd st))
  | None => true end &&
  stable (ctx_plain c) (s_ret s) &&
  negb (self_mutated c s).

(* ------------------------------------------------------------------------------------------------ *)
(* structural equality of signatures (pytd.Signature.__eq__, with the set equality of unions inside) *)

Definition opt_eq {A} (f : A -> A -> bool) (a b : option A) : bool :=
  match a, b with Some x, Some y => f x y | None, None => true | _, _ => false end.
Definition param_eq (p q : param) : bool :=
  (p_name p =? p_name q)%N && ty_eq (p_ty p) (p_ty q) && pkind_eqb (p_kind p) (p_kind q) &&
  Bool.eqb (p_opt p) (p_opt q) && opt_eq ty_eq (p_mut p) (p_mut q).
Definition star_eq (a b : N * ty) : bool := (fst a =? fst b)%N && ty_eq (snd a) (snd b).
Definition sig_eq (a b : sig) : bool :=
  list_eqb param_eq (s_params a) (s_params b) && opt_eq star_eq (s_star a) (s_star b) &&
  opt_eq star_eq (s_sstar a) (s_sstar b) && ty_eq (s_ret a) (s_ret b).

Definition unqual_param (p : param) : param :=
  mkParam (p_name p) (unqual (p_ty p)) (p_kind p) (p_opt p)
          (match p_mut p with Some m => Some (unqual m) | None => None end).
Definition unqual_sig (s : sig) : sig :=
  mkSig (map unqual_param (s_params s))
        (match s_star s with Some st => Some (fst st, unqual (snd st)) | None => None end)
        (match s_sstar s with Some st => Some (fst st, unqual (snd st)) | None => None end)
        (unqual (s_ret s)).

(* conditions for the re-read signature to be structurally equal to the printed one: every type is
   eq_stable; an annotation is left out only when it is Any (a typed self/cls is re-read as Any); the return
   type is not `nothing` (re-read as typing.Never); *args / **kwargs have the shapes tuple, tuple[T], dict,
   dict[str, T] with T not Any. *)
Definition shown (c : ctx) (nm : N) (t : ty) : bool :=
  is_any t || negb (elided c nm t (print_ty (ctx_param c) t)).
Definition star_shape_t (c : ctx) (st : N * ty) : bool :=
  match snd st with
  | Named n => name_eqb (NP id_tuple) (norm_name n)
  | Generic b [e] =>
      name_eqb (NP id_tuple) (norm_name b) &&
      negb (elided c (fst st) e (print_ty (ctx_param c) e)) && eq_stable (ctx_param c) e
  | _ => false
  end.
Definition star_shape_d (c : ctx) (st : N * ty) : bool :=
  match snd st with
  | Named n => name_eqb (NP id_dict) (norm_name n)
  | Generic b [k; e] =>
      name_eqb (NP id_dict) (norm_name b) && ty_eq (Named (NP id_str)) (unqual k) &&
      negb (elided c (fst st) e (print_ty (ctx_param c) e)) && eq_stable (ctx_param c) e
  | _ => false
  end.
Definition eq_stable_sig (c : ctx) (s : sig) : bool :=
  forallb (fun p => eq_stable (ctx_param c) (p_ty p) && shown c (p_name p) (p_ty p)) (s_params s) &&
  match s_star s with Some st => star_shape_t c st | None => true end &&
  match s_sstar s with Some st => star_shape_d c st | None => true end &&
  eq_stable (ctx_plain c) (s_ret s) && negb (tokens_eqb (print_ty (ctx_plain c) (s_ret s)) [TName id_nothing]).

(* VerifyVisitor on a signature: the type clauses on every declared type (EnterParameter's name check and
   EnterSignature's has_optional check are about identifier spelling / field types, which are not modelled) *)
Definition verify_sig (s : sig) : bool :=
  forallb (fun p => verify_ty (p_ty p) && match p_mut p with Some m => verify_ty m | None => true end) (s_params s) &&
  match s_star s with Some st => verify_ty (snd st) | None => true end &&
  match s_sstar s with Some st => verify_ty (snd st) | None => true end &&
  verify_ty (s_ret s).
