(* C05 model, the import block: pytype/pytd/printer.py's import bookkeeping (_TypingImports, _Imports: add /
   decrement_typing_count / get_alias / to_import_statements) and every place of PrintVisitor that records or decrements
   a use, over the declaration model of Print/Decl.v:
     VisitNamedType (typing.X -> _FromTyping; a dotted name -> _UseExistingModuleAlias / _GuessModule / add(module)),
     VisitAnythingType, VisitLiteral, VisitAnnotated, _BuildUnion (Optional / Union, per branch taken),
     VisitGenericType (Callable[Any, R] -> Callable[..., R] decrements Any), VisitConstant (a value decrements Any),
     VisitParameter (elided Any; elided self / cls through _DecrementParameterImports, a regex search on the printed
     string over the typing members recorded SO FAR, one decrement per name), _FormatContainerContents (decrement of
     "Tuple"/"Dict", decrement of Any for *args: Any; bare *args: nothing; the nested Print() copy records nothing),
     VisitSignature (-> Never; mutated types are printed through a copy, their uses come from the traversal of the
     Parameter node, i.e. with in_parameter SET), VisitFunction / VisitClass (_ProcessDecorators, @final, @overload, the
     Literal[...] wrapper of a class keyword), VisitTypeDeclUnit (TypeVar once per type parameter; the constraints and
     bounds are recorded by the traversal of unit.type_params and of every use site that carries them; _FormatTypeParams
     prints through a copy), EnterTypeDeclUnit (aliases that are imports), and the rendering: one `from typing import`
     line for the members whose count is not zero, `import m [as a]`, `from m import n [as a]`, sorted.
   The visitor is a post-order traversal in field order (TypeDeclUnit: constants, type_params, classes, functions,
   aliases; Class: keywords, bases, methods, constants, classes; Function: signatures; Signature: params, starargs,
   starstarargs, return_type, exceptions; Parameter: type, mutated_type; Constant: type, value).  The state is the list
   of events so far (oldest first).
   String facts about identifiers (which ids are dotted names, their prefixes, lower-case components, the string
   order) come from a table the harness derives from its id table (`ntab`).
   NOT modelled (excluded by wf_imports, generated only for the end-to-end oracle): _NameCollision renaming (a typing
   member or a module whose name is also a local / class-member name: `typing.X` + `import typing`, `import m as _m`),
   `from typing import X as Y` (the printer's regex steps see the alias), typing_extensions, dotted names that resolve
   inside the unit (LookupItemRecursive), aliases whose full name is a prefix of a used dotted name, string literals and
   dotted names that contain the name of a typing member as a word (the regex of _DecrementParameterImports would match
   inside them), _DropTypingConstant, ParamSpec/Concatenate/typing.Self.  Definitions only (no proofs). *)
From Coq Require Import List BinNat BinInt Bool Arith.
From PV Require Import Print.Model Print.Decl.
Import ListNotations.

Definition id_typing : N := 31.            (* the module name "typing" *)
Definition id_Tuple : N := 51.             (* typing.Tuple / typing.Dict: the names _FormatContainerContents decrements *)
Definition id_Dict : N := 52.

(* ------------------------------------------------------------------------------------------------ *)
(* string facts about ids *)
Record ntab := mkNT { nt_chain : N -> list N;      (* the proper dotted prefixes of a name, longest first ([] = no dot) *)
                      nt_lowlast : N -> bool;      (* the last component starts with a lower-case letter *)
                      nt_rank : N -> N }.          (* position of the string in the string order *)

(* ------------------------------------------------------------------------------------------------ *)
(* events *)
Inductive ev := EAdd (k : N) | EDec (k : N).

Definition net1 (k : N) (e : ev) : Z :=
  match e with
  | EAdd j => if (j =? k)%N then 1%Z else 0%Z
  | EDec j => if (j =? k)%N then (-1)%Z else 0%Z
  end.
(* _TypingImports._counts[k] *)
Fixpoint net (k : N) (l : list ev) : Z :=
  match l with [] => 0%Z | e :: r => (net1 k e + net k r)%Z end.
(* k in _TypingImports._members *)
Definition added (k : N) (l : list ev) : bool :=
  existsb (fun e => match e with EAdd j => (j =? k)%N | _ => false end) l.
(* the keys of typing_members, first additions first *)
Definition members (l : list ev) : list N :=
  dedup N.eqb (flat_map (fun e => match e with EAdd j => [j] | _ => [] end) l).

(* a visiting step: events so far -> events afterwards *)
Definition visit := list ev -> list ev.
Definition pure (e : list ev) : visit := fun st => st ++ e.
Definition seq (a b : visit) : visit := fun st => b (a st).
Definition vid : visit := fun st => st.
Definition vfold {A} (f : A -> visit) (l : list A) : visit := fun st => fold_left (fun s x => f x s) l st.

(* ------------------------------------------------------------------------------------------------ *)
(* types *)

Definition tev_name (n : name) : list ev := match n with NT i => [EAdd i] | _ => [] end.

(* the _FromTyping calls of _BuildUnion (same case analysis as Model.build_union) *)
Definition tev_union1 (l : list (list token)) : list ev :=
  match coalesce l with [x] => [] | _ => [EAdd id_Union] end.
Definition tev_union (l : list (list token)) : list ev :=
  match coalesce l with
  | [x] => []
  | l' => if existsb is_none_s l'
          then EAdd id_Optional :: tev_union1 (filter (fun s => negb (is_none_s s)) l')
          else [EAdd id_Union]
  end.

Section Bev.
(* what visiting a TypeParameter node at a USE site records: the uses of its constraints and bound when the node
   carries them (it does after the stub reader's _InsertTypeParams; the nodes the generator builds carry none) *)
Variable bev : N -> list ev.

Fixpoint tev_ty (c : ctx) (t : ty) : list ev :=
  match t with
  | Named n => tev_name n
  | AnyT => [EAdd id_Any]
  | NothingT => []
  | TParam i => bev i
  | Lit v => [EAdd id_Literal]
  | Generic b ps =>
      tev_name b ++ flat_map (tev_ty c) ps ++
      (if tokens_eqb (print_name b) [TName id_tuple] then []
       else if name_eqb b (NT id_Callable) then match ps with AnyT :: _ => [EDec id_Any] | _ => [] end
       else [])
  | TupleT b ps =>
      tev_name b ++ flat_map (tev_ty c) ps ++
      (match ps with
       | [] => []
       | _ => if name_eqb b (NT id_Callable) then match ps with AnyT :: _ => [EDec id_Any] | _ => [] end else []
       end)
  | CallableT b ps => tev_name b ++ flat_map (tev_ty c) ps
  | Union ts => flat_map (tev_ty c) ts ++ tev_union (form_set c (map (print_ty c) ts))
  | Annot t a => tev_ty c t ++ [EAdd id_Annotated]
  end.

(* ------------------------------------------------------------------------------------------------ *)
(* parameters *)

Definition occurs (k : N) (ts : list token) : bool :=
  existsb (fun t => match t with TName i => (i =? k)%N | _ => false end) ts.

(* name.split("[", 1)[-1] when "[" in name *)
Fixpoint after_bracket (s : list token) : option (list token) :=
  match s with
  | [] => None
  | TLBr :: r => Some r
  | _ :: r => after_bracket r
  end.

(* _DecrementParameterImports *)
Definition dec_param (s : list token) : visit :=
  fun st => match after_bracket s with
            | None => st
            | Some tail => st ++ map EDec (filter (fun k => occurs k tail) (members st))
            end.

(* VisitParameter after the children: the same case analysis as Model.elided *)
Definition visit_elide (c : ctx) (nm : N) (t : ty) (printed : list token) : visit :=
  match t with
  | AnyT => pure [EDec id_Any]
  | _ =>
    match cls_name c with
    | Some k =>
        if (nm =? id_self)%N && tokens_eqb (strip_generics printed) [TName k] then dec_param printed
        else if (nm =? id_cls)%N && cls_match k printed then
          seq (pure (match printed with TName t0 :: _ => if (t0 =? id_Type)%N then [EDec id_Type] else [] | _ => [] end))
              (dec_param (removelast (tl (tl printed))))               (* node.type[5:-1] *)
        else vid
    | None => vid
    end
  end.

(* a Parameter node: type, mutated_type (both with in_parameter set), then VisitParameter *)
Definition visit_param (c : ctx) (nm : N) (t : ty) (mut : option ty) : visit :=
  seq (pure (tev_ty (ctx_param c) t ++ match mut with Some m => tev_ty (ctx_param c) m | None => [] end))
      (visit_elide c nm t (print_ty (ctx_param c) t)).

(* _FormatContainerContents, the part that touches the counts of the ORIGINAL visitor *)
Definition cap_id (b : name) : N :=
  if (name_id b =? id_tuple)%N then id_Tuple else if (name_id b =? id_dict)%N then id_Dict else name_id b.
Definition tev_container (st : N * ty) : list ev :=
  match snd st with
  | Generic b ps | TupleT b ps | CallableT b ps =>
      EDec (cap_id b) :: (if is_any (last ps AnyT) then [EDec id_Any] else [])
  | _ => []
  end.

Definition visit_sig (c : ctx) (f : fsig) : visit :=
  let s := f_sig f in
  seq (vfold (fun p => visit_param c (p_name p) (p_ty p) (p_mut p)) (s_params s))
  (seq (match s_star s with Some st => visit_param c (fst st) (snd st) None | None => vid end)
  (seq (match s_sstar s with Some st => visit_param c (fst st) (snd st) None | None => vid end)
  (pure (tev_ty (ctx_plain c) (s_ret s)
         ++ flat_map (tev_ty (ctx_plain c)) (f_exc f)
         ++ (if tokens_eqb (print_ty (ctx_plain c) (s_ret s)) [TName id_nothing] then [EAdd id_Never] else [])
         ++ match s_star s with Some st => tev_container st | None => [] end
         ++ match s_sstar s with Some st => tev_container st | None => [] end)))).

(* _ProcessDecorators: a decorator that is a member of typing is recorded *)
Definition tev_decos (ds : list N) : list ev := flat_map (fun d => if is_typing d then [EAdd d] else []) ds.

Definition visit_func (c : ctx) (f : func) : visit :=
  seq (vfold (visit_sig c) (fn_sigs f))
      (pure (tev_decos (fn_decos f)
             ++ (if fn_fin f then [EAdd id_final] else [])
             ++ (if (1 <? length (fn_sigs f))%nat then [EAdd id_overload] else []))).

(* Constant: type, value (Any), then VisitConstant's decrement *)
Definition tev_const (c : ctx) (k : const) : list ev :=
  tev_ty (ctx_plain c) (k_ty k) ++ (if k_val k then [EAdd id_Any; EDec id_Any] else []).

(* a class keyword: the value is visited; VisitClass strips the Literal[...] wrapper and decrements Literal *)
Definition tev_kw (c : ctx) (kv : N * ty) : list ev := tev_ty (ctx_plain c) (snd kv).
Definition tev_kw_dec (c : ctx) (kv : N * ty) : list ev :=
  match match_literal (print_ty (ctx_plain c) (snd kv)) with Some (_ :: _) => [EDec id_Literal] | _ => [] end.

Fixpoint visit_cls (cl : cls) : visit :=
  let c := mkCtx false (Some (c_name cl)) in
  seq (pure (flat_map (tev_kw c) (c_kws cl) ++ flat_map (tev_ty (ctx_plain c)) (c_bases cl)))
  (seq (vfold (visit_func c) (c_methods cl))
  (seq (pure (flat_map (tev_const c) (c_consts cl)))
  (seq (fun st => fold_left (fun s x => visit_cls x s) (c_classes cl) st)
       (pure (flat_map (tev_kw_dec c) (c_kws cl) ++ tev_decos (c_decos cl)))))).

Definition tev_tparam (t : tparam) : list ev :=
  flat_map (tev_ty plain0) (tp_cons t) ++ match tp_bound t with Some b => tev_ty plain0 b | None => [] end.

End Bev.

(* ------------------------------------------------------------------------------------------------ *)
(* units with their import aliases *)

Inductive imp :=
| IMod (m a : N)              (* Alias(a, Module(m)):        import m [as a]   (m without a dot, or a = m) *)
| IFrom (m n a : N).          (* Alias(a, NamedType "m.n"):  from m import n [as a]   (m <> typing) *)

Record iunit := mkIU { iu_imps : list imp; iu_unit : unit_ }.

(* use sites of a type variable: `rich` = the TypeParameter nodes carry constraints and bound (a re-read stub) *)
Definition bev_of (rich : bool) (u : unit_) : N -> list ev :=
  fun i => if rich then
             flat_map (fun t => if (tp_name t =? i)%N then tev_tparam (fun _ => []) t else []) (u_tparams u)
           else [].

(* EnterTypeDeclUnit, then the traversal, then VisitTypeDeclUnit *)
Definition visit_unit (rich : bool) (iu : iunit) : visit :=
  let u := iu_unit iu in
  let bev := bev_of rich u in
  (seq (pure (flat_map (tev_const bev plain0) (u_consts u)))
  (seq (pure (flat_map (tev_tparam bev) (u_tparams u)))
  (seq (vfold (visit_cls bev) (u_classes u))
  (seq (vfold (visit_func bev plain0) (u_funcs u))
  (seq (pure (flat_map (fun a => tev_ty bev plain0 (snd a)) (u_aliases u)))
       (pure (map (fun _ => EAdd id_TypeVar) (u_tparams u)))))))).

Definition typing_events (rich : bool) (iu : iunit) : list ev := visit_unit rich iu [].

(* ------------------------------------------------------------------------------------------------ *)
(* module imports: the sequence of names handed to VisitNamedType, in traversal order *)

Definition np_name (n : name) : list N := match n with NP i => [i] | _ => [] end.
Section Np.
Variable T : ntab.
Fixpoint np_ty (t : ty) : list N :=
  match t with
  | Named n => np_name n
  | Lit (LEnum i) => match nt_chain T i with p :: _ => [p] | [] => [] end      (* the enum class of the Constant *)
  | Generic b ps | TupleT b ps | CallableT b ps => np_name b ++ flat_map np_ty ps
  | Union ts => flat_map np_ty ts
  | Annot t _ => np_ty t
  | _ => []
  end.
Definition np_param (p : param) : list N := np_ty (p_ty p) ++ match p_mut p with Some m => np_ty m | None => [] end.
Definition np_sig (f : fsig) : list N :=
  flat_map np_param (s_params (f_sig f))
  ++ match s_star (f_sig f) with Some st => np_ty (snd st) | None => [] end
  ++ match s_sstar (f_sig f) with Some st => np_ty (snd st) | None => [] end
  ++ np_ty (s_ret (f_sig f)) ++ flat_map np_ty (f_exc f).
Definition np_func (f : func) : list N := flat_map np_sig (fn_sigs f) ++ fn_decos f.
Fixpoint np_cls (cl : cls) : list N :=
  flat_map (fun kv => np_ty (snd kv)) (c_kws cl) ++ flat_map np_ty (c_bases cl)
  ++ flat_map np_func (c_methods cl) ++ flat_map (fun k => np_ty (k_ty k)) (c_consts cl)
  ++ flat_map np_cls (c_classes cl) ++ c_decos cl.
Definition np_tparam (t : tparam) : list N :=
  flat_map np_ty (tp_cons t) ++ match tp_bound t with Some b => np_ty b | None => [] end.
Definition np_unit (u : unit_) : list N :=
  flat_map (fun k => np_ty (k_ty k)) (u_consts u) ++ flat_map np_tparam (u_tparams u)
  ++ flat_map np_cls (u_classes u) ++ flat_map np_func (u_funcs u)
  ++ flat_map (fun a => np_ty (snd a)) (u_aliases u).

(* _GuessModule over the prefixes of a dotted name: the longest prefix whose last component is lower case, else the
   first component *)
Fixpoint guess (ch : list N) : option N :=
  match ch with
  | [] => None
  | [q] => Some q
  | q :: r => if nt_lowlast T q then Some q else guess r
  end.

(* VisitNamedType on a name that does not resolve inside the unit: _UseExistingModuleAlias finds an imported prefix,
   or the guessed module is added.  `mods` = the full names in _reverse_alias_map that are module imports (alias = name) *)
Definition visit_np (mods : list N) (n : N) : list N :=
  match nt_chain T n with
  | [] => mods
  | ch => if existsb (fun q => mem q mods) ch then mods
          else match guess ch with Some m => mods ++ [m] | None => mods end
  end.

Definition import_mods (iu : iunit) : list N :=
  fold_left visit_np (np_unit (iu_unit iu))
            (dedup N.eqb (flat_map (fun i => match i with IMod m a => if (m =? a)%N then [m] else [] | _ => [] end) (iu_imps iu))).

(* ------------------------------------------------------------------------------------------------ *)
(* rendering: to_import_statements *)

Inductive iline :=
| LImport (m a : N)                          (* import m  (a = m)  |  import m as a *)
| LFrom (m : N) (targets : list (N * N)).    (* from m import n [as a], ... *)

(* dict assignment d[k] = v on an insertion-ordered dict *)
Fixpoint upd {V} (k : N) (v : V) (d : list (N * V)) : list (N * V) :=
  match d with
  | [] => [(k, v)]
  | (k', v') :: r => if (k' =? k)%N then (k, v) :: r else (k', v') :: upd k v r
  end.
Definition get {V} (k : N) (d : list (N * V)) : option V :=
  match find (fun e => (fst e =? k)%N) d with Some e => Some (snd e) | None => None end.

(* _direct_imports : alias -> module *)
Definition direct_imports (iu : iunit) : list (N * N) :=
  let d0 := fold_left (fun d i => match i with IMod m a => upd a m d | _ => d end) (iu_imps iu) [] in
  fold_left (fun d m => upd m m d) (import_mods iu) d0.
(* _from_imports : module -> (alias -> name) *)
Definition from_imports (iu : iunit) : list (N * list (N * N)) :=
  fold_left (fun d i => match i with
                        | IFrom m n a => upd m (upd a n (match get m d with Some x => x | None => [] end)) d
                        | _ => d
                        end) (iu_imps iu) [].

(* insertion sort by a key *)
Section Sort.
  Context {A : Type} (leb : A -> A -> bool).
  Fixpoint insert (x : A) (l : list A) : list A :=
    match l with
    | [] => [x]
    | y :: r => if leb x y then x :: y :: r else y :: insert x r
    end.
  Definition isort (l : list A) : list A := fold_right insert [] l.
End Sort.

(* sorted(f"{name} as {alias}" if alias != name else name): by name, a bare name before its aliased forms *)
Definition target_key (t : N * N) : N * N :=
  (nt_rank T (fst t), if (snd t =? fst t)%N then 0%N else N.succ (nt_rank T (snd t))).
Definition pair_leb (a b : N * N) : bool :=
  (fst a <? fst b)%N || ((fst a =? fst b)%N && (snd a <=? snd b)%N).
Definition target_leb (a b : N * N) : bool := pair_leb (target_key a) (target_key b).
Definition sort_targets (l : list (N * N)) : list (N * N) := isort target_leb l.

(* sorted(imports, key=lambda s: (s.startswith("from "), s)) *)
Definition line_key (l : iline) : bool * (N * N) :=
  match l with
  | LImport m a => (false, target_key (m, a))
  | LFrom m _ => (true, (nt_rank T m, 0%N))
  end.
Definition line_leb (a b : iline) : bool :=
  match fst (line_key a), fst (line_key b) with
  | false, true => true
  | true, false => false
  | _, _ => pair_leb (snd (line_key a)) (snd (line_key b))
  end.

(* _TypingImports.to_import_statements: the members whose count is not zero *)
Definition typing_targets (evs : list ev) : list N :=
  filter (fun k => negb (net k evs =? 0)%Z) (members evs).

Definition import_lines (rich : bool) (iu : iunit) : list iline :=
  let tt := typing_targets (typing_events rich iu) in
  isort line_leb
    ((match tt with [] => [] | _ => [LFrom id_typing (sort_targets (map (fun k => (k, k)) tt))] end)
     ++ map (fun am => LImport (snd am) (fst am)) (direct_imports iu)
     ++ map (fun mt => LFrom (fst mt) (sort_targets (map (fun an => (snd an, fst an)) (snd mt)))) (from_imports iu)).

End Np.

(* ------------------------------------------------------------------------------------------------ *)
(* the reader's side of the import block (pyi/definitions.py add_import, resolve_type): `from typing import X` makes
   the bare name X resolve to typing.X; every other line becomes an alias declaration.  Print/Decl.v's reader resolves
   the members of typing by their id; that is what the real reader does only when the name is imported, so the text
   reader accepts a stub only if every member of typing used by the declarations is imported (otherwise the real
   reader builds a local name: outside the model). *)

Fixpoint stmt_tokens (s : stmt) : list token :=
  match s with
  | SLine ts => ts
  | SBlank => []
  | SClass h b => h ++ flat_map stmt_tokens b
  end.
Definition stmts_tokens (ss : list stmt) : list token := flat_map stmt_tokens ss.
Definition tok_names (ts : list token) : list N :=
  flat_map (fun t => match t with TName i => [i] | _ => [] end) ts.

Definition typing_imported (ls : list iline) : list N :=
  flat_map (fun l => match l with
                     | LFrom m tg => if (m =? id_typing)%N then map snd tg else []
                     | _ => []
                     end) ls.
Definition imps_of_lines (ls : list iline) : list imp :=
  flat_map (fun l => match l with
                     | LImport m a => [IMod m a]
                     | LFrom m tg => if (m =? id_typing)%N then [] else map (fun t => IFrom m (fst t) (snd t)) tg
                     end) ls.

Definition text := (list iline * list stmt)%type.

Definition print_text (T : ntab) (fixed rich : bool) (iu : iunit) : text :=
  (import_lines T rich iu, print_unit fixed (iu_unit iu)).

Definition parse_text (tx : text) : option iunit :=
  let imported := typing_imported (fst tx) in
  if forallb (fun k => negb (is_typing k) || mem k imported) (tok_names (stmts_tokens (snd tx)))
  then match parse_unit (snd tx) with
       | Some u => Some (mkIU (imps_of_lines (fst tx)) u)
       | None => None
       end
  else None.

Definition norm_iunit (T : ntab) (fixed rich : bool) (iu : iunit) : iunit :=
  mkIU (imps_of_lines (import_lines T rich iu)) (norm_unit fixed (iu_unit iu)).

(* ------------------------------------------------------------------------------------------------ *)
(* the dialect in which the bookkeeping is exact *)

(* a mutated type must print the same with and without in_parameter: its uses are recorded while in_parameter is set,
   its text is produced by a copy of the visitor after LeaveParameter *)
Definition mut_plain (c : ctx) (f : fsig) : bool :=
  forallb (fun p => match p_mut p with
                    | Some m => tokens_eqb (print_ty (ctx_param c) m) (print_ty (ctx_plain c) m)
                    | None => true
                    end) (s_params (f_sig f)).
Definition mut_plain_func (c : ctx) (f : func) : bool := forallb (mut_plain c) (fn_sigs f).
Fixpoint mut_plain_cls (cl : cls) : bool :=
  let c := mkCtx false (Some (c_name cl)) in
  forallb (mut_plain_func c) (c_methods cl) && forallb mut_plain_cls (c_classes cl).

(* explicit decorators: a name of the typing pool denotes the typing member; Tuple / Dict are not used as names *)
Definition no_tuple_dict_ty : ty -> bool :=
  fix go (t : ty) : bool :=
    match t with
    | Named n => negb (name_eqb n (NT id_Tuple)) && negb (name_eqb n (NT id_Dict))
    | Generic b ps | TupleT b ps | CallableT b ps =>
        negb (name_eqb b (NT id_Tuple)) && negb (name_eqb b (NT id_Dict)) && forallb go ps
    | Union ts => forallb go ts
    | Annot t _ => go t
    | _ => true
    end.

Definition wf_imports (iu : iunit) : bool :=
  let u := iu_unit iu in
  forallb mut_plain_cls (u_classes u) && forallb (mut_plain_func plain0) (u_funcs u).

(* the hypothesis of minimality: an elided self / cls annotation records each typing member at most once (otherwise
   _DecrementParameterImports, which decrements once per NAME, leaves a count behind) *)
Section Exact.
Variable bev : N -> list ev.
Definition elide_exact_param (c : ctx) (nm : N) (t : ty) : bool :=
  let printed := print_ty (ctx_param c) t in
  match t with
  | AnyT => true
  | _ => if elided c nm t printed
         then forallb (fun k => (net k (tev_ty bev (ctx_param c) t) <=? 1)%Z) (members (tev_ty bev (ctx_param c) t))
              && match after_bracket printed with Some _ => true | None => is_nil (tev_ty bev (ctx_param c) t) end
         else true
  end.
End Exact.
