(* C05 proofs about coq/Print/Imports.v. *)
From Coq Require Import List NArith ZArith Bool Arith Lia Sorted.
From PV Require Import Print.Model Print.Proofs Print.Decl Print.DeclProofs Print.Imports.
Import ListNotations.

(* ------------------------------------------------------------------------------------------------ *)
(* counts *)

Lemma net_app : forall k a b, net k (a ++ b) = (net k a + net k b)%Z.
Proof. induction a; intros; cbn [app net]; [reflexivity | rewrite IHa; lia]. Qed.

Lemma net_pos_added : forall k l, (0 < net k l)%Z -> In (EAdd k) l.
Proof.
  induction l as [|e r IH]; cbn [net]; intros H; [lia|].
  destruct e as [j|j]; cbn [net1] in H.
  - destruct (j =? k)%N eqn:E; [apply N.eqb_eq in E; subst; left; reflexivity | right; apply IH; lia].
  - right; apply IH. destruct (j =? k)%N; lia.
Qed.

(* the typing members the theorems speak about: every member except the two names that _FormatContainerContents
   decrements without ever having added them *)
Definition tk (k : N) : Prop := is_typing k = true /\ k <> id_Tuple /\ k <> id_Dict.

(* `e` covers the names `ns`: no count drops below where it was, and every listed name is counted *)
Definition cov (e : list ev) (ns : list N) : Prop :=
  forall k, tk k -> (0 <= net k e)%Z /\ (In k ns -> (0 < net k e)%Z).

Lemma cov_nil : cov [] [].
Proof. intros k _; cbn; split; [lia | intros []]. Qed.

Lemma cov_app : forall e1 e2 n1 n2, cov e1 n1 -> cov e2 n2 -> cov (e1 ++ e2) (n1 ++ n2).
Proof.
  intros e1 e2 n1 n2 H1 H2 k Hk. destruct (H1 k Hk) as [A1 B1], (H2 k Hk) as [A2 B2].
  rewrite net_app. split; [lia|]. intros Hin. apply in_app_or in Hin. destruct Hin as [Hin|Hin]; [specialize (B1 Hin) | specialize (B2 Hin)]; lia.
Qed.

Lemma cov_weaken : forall e n n', cov e n -> (forall k, In k n' -> In k n) -> cov e n'.
Proof. intros e n n' H Hs k Hk. destruct (H k Hk) as [A B]. split; [exact A | intros Hin; apply B, Hs, Hin]. Qed.

Lemma cov_flat_map : forall {A} (f : A -> list ev) (g : A -> list N) l,
  (forall x, In x l -> cov (f x) (g x)) -> cov (flat_map f l) (flat_map g l).
Proof.
  induction l as [|x r IH]; intros H; cbn [flat_map]; [apply cov_nil|].
  apply cov_app; [apply H; left; reflexivity | apply IH; intros y Hy; apply H; right; exact Hy].
Qed.

Lemma cov_add : forall k, cov [EAdd k] [k].
Proof.
  intros k j Hj. cbn [net net1]. destruct (k =? j)%N eqn:E; split; try lia.
  intros [H|[]]. subst. rewrite N.eqb_refl in E. discriminate.
Qed.

(* the typing names among the name tokens *)
Definition tnames (ts : list token) : list N := filter is_typing (tok_names ts).

Lemma in_tok_names : forall k ts, In k (tok_names ts) <-> In (TName k) ts.
Proof.
  intros k ts. unfold tok_names. rewrite in_flat_map. split.
  - intros [t [Ht Hk]]. destruct t; try (destruct Hk; fail). destruct Hk as [<-|[]]. exact Ht.
  - intros H. exists (TName k). split; [exact H | left; reflexivity].
Qed.

(* ------------------------------------------------------------------------------------------------ *)
(* where the name tokens of a printed type come from *)

Lemma in_sep : forall x l, In x (sep l) -> x = TComma \/ exists s, In s l /\ In x s.
Proof.
  induction l as [|a r IH]; cbn [sep]; intros H; [destruct H|].
  destruct r as [|b r'].
  - right. exists a. split; [left; reflexivity | exact H].
  - apply in_app_or in H. destruct H as [H|[H|H]].
    + right. exists a. split; [left; reflexivity | exact H].
    + left. symmetry. exact H.
    + destruct (IH H) as [E|[s [Hs Hx]]]; [left; exact E | right; exists s; split; [right; exact Hs | exact Hx]].
Qed.

Lemma in_sub_name : forall k b args, In (TName k) (sub b args) -> In (TName k) b \/ exists s, In s args /\ In (TName k) s.
Proof.
  intros k b args H. unfold sub in H. apply in_app_or in H. destruct H as [H|[H|H]]; [left; exact H | discriminate |].
  apply in_app_or in H. destruct H as [H|[H|[]]]; [|discriminate].
  destruct (in_sep _ _ H) as [E|E]; [discriminate | right; exact E].
Qed.

Lemma match_literal_some : forall s cnt, match_literal s = Some cnt -> s = TName id_Literal :: TLBr :: cnt ++ [TRBr].
Proof.
  intros s cnt H. unfold match_literal in H.
  destruct s as [|[i| | | | | | | | | | | | | | | | |] [|[] r]]; try discriminate.
  destruct (i =? id_Literal)%N eqn:E; [|discriminate]. apply N.eqb_eq in E. subst i.
  destruct (rev r) as [|[] cr] eqn:Er; try discriminate. injection H as <-.
  rewrite <- (rev_involutive r), Er. cbn [rev]. reflexivity.
Qed.

Lemma split_lits_in : forall l nl ls, split_lits l = (nl, ls) ->
  (forall s, In s nl -> In s l) /\
  (forall cnt, In cnt ls -> In (TName id_Literal :: TLBr :: cnt ++ [TRBr]) l).
Proof.
  induction l as [|s r IH]; cbn [split_lits]; intros nl ls H.
  - injection H as <- <-. split; intros ? [].
  - destruct (split_lits r) as [nl0 ls0]. destruct (IH nl0 ls0 eq_refl) as [A B].
    destruct (match_literal s) as [cnt|] eqn:M; injection H as <- <-.
    + split; [intros x Hx; right; apply A, Hx|]. intros c [<-|Hc]; [left; apply match_literal_some, M | right; apply B, Hc].
    + split; [intros x [<-|Hx]; [left; reflexivity | right; apply A, Hx] | intros c Hc; right; apply B, Hc].
Qed.

Lemma coalesce_names : forall l s k, In s (coalesce l) -> In (TName k) s -> exists s0, In s0 l /\ In (TName k) s0.
Proof.
  intros l s k Hs Hk. unfold coalesce in Hs. destruct (split_lits l) as [nl ls] eqn:E.
  destruct (split_lits_in _ _ _ E) as [A B].
  destruct ls as [|c0 lr].
  - exists s. split; [apply A, Hs | exact Hk].
  - apply in_app_or in Hs. destruct Hs as [Hs|[<-|[]]]; [exists s; split; [apply A, Hs | exact Hk]|].
    destruct (in_sub_name _ _ _ Hk) as [[H|[]]|[c [Hc Hkc]]].
    + injection H as <-. eexists. split; [apply (B c0); left; reflexivity | left; reflexivity].
    + eexists. split; [apply (B c), Hc|]. right. right. apply in_or_app. left. exact Hkc.
Qed.

Lemma build_union_names : forall l k, In (TName k) (build_union l) ->
  (exists s, In s l /\ In (TName k) s) \/ In (EAdd k) (tev_union l).
Proof.
  intros l k H. unfold build_union in H. unfold tev_union.
  destruct (coalesce l) as [|x [|y r]] eqn:E.
  - cbn in H. unfold sub in H. cbn in H. destruct H as [H|[H|[H|[]]]]; try discriminate.
    injection H as <-. right. left. reflexivity.
  - left. apply (coalesce_names l x k); [rewrite E; left; reflexivity | exact H].
  - set (l' := x :: y :: r) in *.
    destruct (existsb is_none_s l') eqn:Ex.
    + destruct (in_sub_name _ _ _ H) as [[H1|[]]|[s [[<-|[]] Hs]]].
      * injection H1 as <-. right. left. reflexivity.
      * unfold build_union1 in Hs. unfold tev_union1.
        set (f := filter (fun s => negb (is_none_s s)) l') in *.
        assert (Hf : forall s0, In s0 f -> exists s1, In s1 l /\ In (TName k) s0 -> In (TName k) s0) by (intros; exists s0; tauto).
        assert (Hin : forall s0, In s0 (coalesce f) -> In (TName k) s0 -> exists s1, In s1 l /\ In (TName k) s1).
        { intros s0 Hs0 Hk0. destruct (coalesce_names f s0 k Hs0 Hk0) as [s1 [Hs1 Hk1]].
          apply filter_In in Hs1. destruct Hs1 as [Hs1 _]. apply (coalesce_names l s1 k); [rewrite E; exact Hs1 | exact Hk1]. }
        destruct (coalesce f) as [|x1 [|y1 r1]] eqn:Ef.
        -- unfold sub in Hs; cbn in Hs. destruct Hs as [Hs|[Hs|[Hs|[]]]]; try discriminate. injection Hs as <-. right. right. left. reflexivity.
        -- left. apply (Hin x1); [left; reflexivity | exact Hs].
        -- destruct (in_sub_name _ _ _ Hs) as [[H1|[]]|[s2 [Hs2 Hk2]]].
           ++ injection H1 as <-. right. right. left. reflexivity.
           ++ left. apply (Hin s2); [exact Hs2 | exact Hk2].
    + destruct (in_sub_name _ _ _ H) as [[H1|[]]|[s [Hs Hk]]].
      * injection H1 as <-. right. left. reflexivity.
      * left. apply (coalesce_names l s k); [rewrite E; exact Hs | exact Hk].
Qed.

Lemma dedup_tok_incl : forall (l : list (list token)) x, In x (dedup tokens_eqb l) -> In x l.
Proof.
  induction l as [|a r IH]; cbn [dedup]; intros x H; [exact H|].
  destruct H as [H|H]; [left; exact H | right; apply IH; apply filter_In in H; apply H].
Qed.

Lemma form_set_incl : forall c l x, In x (form_set c l) -> In x l.
Proof.
  intros c l x H. unfold form_set in H. destruct (in_param c); [apply fold_compat_sub in H|]; apply dedup_tok_incl, H.
Qed.

(* ------------------------------------------------------------------------------------------------ *)
(* types *)

Section Types.
Variable bev : N -> list ev.
Variable env : penv.
Hypothesis Hbev : forall i k, (0 <= net k (bev i))%Z.

Lemma tk_typing : forall k, tk k -> is_typing k = true. Proof. intros k H; apply H. Qed.

Lemma ord_not_typing : forall i, ord_id env i = true -> is_typing i = false.
Proof. intros i H. unfold ord_id in H. destruct (is_typing i); [discriminate | reflexivity]. Qed.

Lemma cov_name : forall n, wf_name env n = true -> cov (tev_name n) (tnames (print_name n)).
Proof.
  intros n Hwf k Hk. unfold print_name, tnames.
  destruct (name_id n =? id_NoneType)%N.
  - cbn. destruct n; cbn; [| destruct (i =? k)%N |]; split; try lia; intros [].
  - cbn [tok_names flat_map app filter]. destruct n as [i|i|i]; cbn [tev_name name_id wf_name] in *.
    + rewrite (ord_not_typing i Hwf). cbn. split; [lia | intros []].
    + apply andb_prop in Hwf. destruct Hwf as [Hwf _]. apply andb_prop in Hwf. destruct Hwf as [Ht _]. rewrite Ht.
      apply cov_add. exact Hk.
    + rewrite (ord_not_typing i Hwf). cbn. split; [lia | intros []].
Qed.

Lemma cov_tnames_intro : forall e ts,
  (forall k, tk k -> (0 <= net k e)%Z /\ (In (TName k) ts -> (0 < net k e)%Z)) -> cov e (tnames ts).
Proof.
  intros e ts H k Hk. destruct (H k Hk) as [A B]. split; [exact A|]. intros Hin. apply filter_In in Hin. apply B, in_tok_names, Hin.
Qed.

Lemma cov_tnames_elim : forall e ts k, cov e (tnames ts) -> tk k -> In (TName k) ts -> (0 < net k e)%Z.
Proof.
  intros e ts k H Hk Hin. apply (H k Hk). apply filter_In. split; [apply in_tok_names, Hin | apply Hk].
Qed.

Lemma net_flat_nonneg : forall (f : ty -> list ev) l k,
  (forall x, In x l -> (0 <= net k (f x))%Z) -> (0 <= net k (flat_map f l))%Z.
Proof. induction l as [|x r IH]; intros k H; cbn [flat_map net]; [lia|]. rewrite net_app. specialize (H x (or_introl eq_refl)) as H0. specialize (IH k (fun y Hy => H y (or_intror Hy))). lia. Qed.

Lemma net_flat_pos : forall (f : ty -> list ev) l k x,
  (forall y, In y l -> (0 <= net k (f y))%Z) -> In x l -> (0 < net k (f x))%Z -> (0 < net k (flat_map f l))%Z.
Proof.
  induction l as [|a r IH]; intros k x H Hin Hp; [destruct Hin|]. cbn [flat_map]. rewrite net_app.
  pose proof (H a (or_introl eq_refl)) as H0.
  pose proof (net_flat_nonneg f r k (fun y Hy => H y (or_intror Hy))) as H1.
  destruct Hin as [<-|Hin]; [lia|]. specialize (IH k x (fun y Hy => H y (or_intror Hy)) Hin Hp). lia.
Qed.

Definition tyok (c : ctx) (t : ty) : Prop :=
  forall k, tk k -> (0 <= net k (tev_ty bev c t))%Z /\ (In (TName k) (print_ty c t) -> (0 < net k (tev_ty bev c t))%Z).

Lemma wf_forall : forall ps, forallb (wf env) ps = true -> forall x, In x ps -> wf env x = true.
Proof. intros ps H. apply forallb_forall. exact H. Qed.

(* parameters printed inside a subscript: name tokens come from the base or from a member *)
Lemma params_case : forall c (ps : list ty) k (extra : list ev) base_e base_t (shown : list (list token)),
  tk k ->
  (forall j, tk j -> (0 <= net j base_e)%Z /\ (In (TName j) base_t -> (0 < net j base_e)%Z)) ->
  (0 <= net k (flat_map (tev_ty bev c) ps) + net k extra)%Z ->
  (forall s, In s shown -> In (TName k) s -> exists x, In x ps /\ In (TName k) (print_ty c x) /\
                                            (0 < net k (flat_map (tev_ty bev c) ps) + net k extra)%Z) ->
  (0 <= net k (base_e ++ flat_map (tev_ty bev c) ps ++ extra))%Z /\
  (In (TName k) (sub base_t shown) -> (0 < net k (base_e ++ flat_map (tev_ty bev c) ps ++ extra))%Z).
Proof.
  intros c ps k extra base_e base_t shown Hk Hb Hnn Hshown.
  rewrite !net_app. destruct (Hb k Hk) as [B0 B1]. split; [lia|].
  intros H. destruct (in_sub_name _ _ _ H) as [H1|[s [Hs Hks]]]; [specialize (B1 H1); lia|].
  destruct (Hshown s Hs Hks) as [x [_ [_ Hp]]]. lia.
Qed.

Lemma ty_members_ok : forall c ps, Forall (fun t => forall c, wf env t = true -> tyok c t) ps -> forallb (wf env) ps = true ->
  forall x, In x ps -> tyok c x.
Proof. intros c ps IH Hwf x Hx. rewrite Forall_forall in IH. apply (IH x Hx c). apply (wf_forall ps Hwf x Hx). Qed.

Lemma flat_ok : forall c ps k, (forall x, In x ps -> tyok c x) -> tk k ->
  (0 <= net k (flat_map (tev_ty bev c) ps))%Z /\
  (forall x, In x ps -> In (TName k) (print_ty c x) -> (0 < net k (flat_map (tev_ty bev c) ps))%Z).
Proof.
  intros c ps k H Hk. split.
  - apply net_flat_nonneg. intros x Hx. apply (H x Hx k Hk).
  - intros x Hx Hin. apply (net_flat_pos _ ps k x); [intros y Hy; apply (H y Hy k Hk) | exact Hx | apply (H x Hx k Hk), Hin].
Qed.

Lemma in_map_print : forall c (ps : list ty) s, In s (map (print_ty c) ps) -> exists x, In x ps /\ s = print_ty c x.
Proof. intros c ps s H. apply in_map_iff in H. destruct H as [x [E Hx]]. exists x. split; [exact Hx | symmetry; exact E]. Qed.

Lemma base_ok : forall b, wf_name env b = true ->
  forall j, tk j -> (0 <= net j (tev_name b))%Z /\ (In (TName j) (print_name b) -> (0 < net j (tev_name b))%Z).
Proof.
  intros b Hb j Hj. pose proof (cov_name b Hb) as C. split; [apply (C j Hj) | intros H; apply (cov_tnames_elim _ _ _ C Hj H)].
Qed.


Theorem cov_ty : forall t c, wf env t = true -> tyok c t.
Proof.
  induction t using ty_ind'; intros c Hwf k Hk; cbn [tev_ty print_ty].
  - (* Named *) cbn [wf] in Hwf. apply (base_ok n Hwf k Hk).
  - (* Any *) cbn [net net1]. destruct (id_Any =? k)%N eqn:E; split; try lia.
    intros [H|[]]. injection H as <-. discriminate.
  - (* Nothing *) cbn [net]. split; [lia|]. intros [H|[]]. injection H as <-. destruct Hk as [Hk _]. discriminate.
  - (* TParam *) cbn [wf] in Hwf. split; [apply Hbev|]. intros [H|[]]. assert (i = k) by congruence. subst i.
    destruct Hk as [Hk _]. rewrite Hk in Hwf. rewrite !andb_false_r, ?andb_false_l in Hwf. cbn in Hwf.
    destruct (is_tvar env k); discriminate.
  - (* Lit *) cbn [net net1]. cbn [wf] in Hwf. split; [destruct (id_Literal =? k)%N; lia|].
    intros H. destruct (in_sub_name _ _ _ H) as [[H1|[]]|[s [[<-|[]] Hs]]].
    + injection H1 as <-. cbn. lia.
    + destruct Hs as [Hs|[]]. destruct v; cbn [print_lit] in Hs; try discriminate. injection Hs as <-.
      cbn [wf_lit] in Hwf. apply andb_prop in Hwf. destruct Hwf as [Hwf _]. apply ord_not_typing in Hwf.
      destruct Hk as [Hk _]. congruence.
  - (* Generic *)
    cbn [wf] in Hwf. apply andb_prop in Hwf. destruct Hwf as [Hwf Hshape]. apply andb_prop in Hwf. destruct Hwf as [Hwf Hps].
    apply andb_prop in Hwf. destruct Hwf as [Hb _].
    pose proof (ty_members_ok c ps H Hps) as Hm. destruct (flat_ok c ps k Hm Hk) as [Fnn Fpos].
    destruct (tokens_eqb (print_name b) [TName id_tuple]) eqn:Et.
    + apply (params_case c ps k [] (tev_name b) (print_name b) _ Hk (base_ok b Hb)); [cbn [net]; lia|].
      intros s Hs Hks. apply in_app_or in Hs. destruct Hs as [Hs|[<-|[]]]; [|destruct Hks as [Hks|[]]; discriminate].
      destruct (in_map_print _ _ _ Hs) as [x [Hx ->]]. exists x. split; [exact Hx|]. split; [exact Hks|]. cbn [net]. specialize (Fpos x Hx Hks). lia.
    + destruct (name_eqb b (NT id_Callable)) eqn:Ec.
      * destruct ps as [|p0 pr].
        -- apply (params_case c [] k [] (tev_name b) (print_name b) _ Hk (base_ok b Hb)); [cbn [net]; lia|].
           intros s [<-|[]] [Hks|[]]. discriminate.
        -- assert (Hpr : forall x, In x pr -> tyok c x) by (intros x Hx; apply Hm; right; exact Hx).
           destruct (flat_ok c pr k Hpr Hk) as [Rnn Rpos].
           assert (Hp0 := Hm p0 (or_introl eq_refl) k Hk).
           set (extra := match p0 with AnyT => [EDec id_Any] | _ => [] end).
           assert (Hhead : (0 <= net k (tev_ty bev c p0) + net k extra)%Z).
           { destruct p0; cbn [extra net]; try (destruct Hp0; lia). cbn [tev_ty net net1]. destruct (id_Any =? k)%N; lia. }
           change (match p0 :: pr with AnyT :: _ => [EDec id_Any] | _ => [] end) with extra.
           apply (params_case c (p0 :: pr) k extra (tev_name b) (print_name b) _ Hk (base_ok b Hb)).
           ++ cbn [flat_map]. rewrite net_app. lia.
           ++ intros s Hs Hks. destruct Hs as [<-|Hs]; [destruct Hks as [Hks|[]]; discriminate|].
              cbn [map tl] in Hs. destruct (in_map_print _ _ _ Hs) as [x [Hx ->]].
              exists x. split; [right; exact Hx|]. split; [exact Hks|]. cbn [flat_map]. rewrite net_app. specialize (Rpos x Hx Hks). lia.
      * apply (params_case c ps k [] (tev_name b) (print_name b) _ Hk (base_ok b Hb)); [cbn [net]; lia|].
        intros s Hs Hks. destruct (in_map_print _ _ _ Hs) as [x [Hx ->]]. exists x. split; [exact Hx|]. split; [exact Hks|]. cbn [net]. specialize (Fpos x Hx Hks). lia.
  - (* TupleT *)
    cbn [wf] in Hwf. apply andb_prop in Hwf. destruct Hwf as [Hwf Hps]. apply andb_prop in Hwf. destruct Hwf as [_ Hb].
    pose proof (ty_members_ok c ps H Hps) as Hm. destruct (flat_ok c ps k Hm Hk) as [Fnn Fpos].
    destruct ps as [|p0 pr].
    + apply (params_case c [] k [] (tev_name b) (print_name b) _ Hk (base_ok b Hb)); [cbn [net]; lia|].
      intros s [<-|[]] [Hks|[Hks|[]]]; discriminate.
    + destruct (name_eqb b (NT id_Callable)) eqn:Ec.
      * assert (Hpr : forall x, In x pr -> tyok c x) by (intros x Hx; apply Hm; right; exact Hx).
        destruct (flat_ok c pr k Hpr Hk) as [Rnn Rpos].
        assert (Hp0 := Hm p0 (or_introl eq_refl) k Hk).
        set (extra := match p0 with AnyT => [EDec id_Any] | _ => [] end).
        assert (Hhead : (0 <= net k (tev_ty bev c p0) + net k extra)%Z).
        { destruct p0; cbn [extra net]; try (destruct Hp0; lia). cbn [tev_ty net net1]. destruct (id_Any =? k)%N; lia. }
        change (match p0 :: pr with AnyT :: _ => [EDec id_Any] | _ => [] end) with extra.
        apply (params_case c (p0 :: pr) k extra (tev_name b) (print_name b) _ Hk (base_ok b Hb)).
        -- cbn [flat_map]. rewrite net_app. lia.
        -- intros s Hs Hks. destruct Hs as [<-|Hs]; [destruct Hks as [Hks|[]]; discriminate|].
           cbn [map tl] in Hs. destruct (in_map_print _ _ _ Hs) as [x [Hx ->]].
           exists x. split; [right; exact Hx|]. split; [exact Hks|]. cbn [flat_map]. rewrite net_app. specialize (Rpos x Hx Hks). lia.
      * apply (params_case c (p0 :: pr) k [] (tev_name b) (print_name b) _ Hk (base_ok b Hb)); [cbn [net]; lia|].
        intros s Hs Hks. destruct (in_map_print _ _ _ Hs) as [x [Hx ->]]. exists x. split; [exact Hx|]. split; [exact Hks|]. cbn [net]. specialize (Fpos x Hx Hks). lia.
  - (* CallableT *)
    cbn [wf] in Hwf. apply andb_prop in Hwf. destruct Hwf as [Hwf Hne]. apply andb_prop in Hwf. destruct Hwf as [Hb Hps].
    apply name_eqb_eq in Hb. subst b.
    pose proof (ty_members_ok c ps H Hps) as Hm. destruct (flat_ok c ps k Hm Hk) as [Fnn Fpos].
    rewrite <- (app_nil_r (flat_map (tev_ty bev c) ps)).
    assert (Hb' : forall j, tk j -> (0 <= net j (tev_name (NT id_Callable)))%Z /\
                              (In (TName j) (print_name (NT id_Callable)) -> (0 < net j (tev_name (NT id_Callable)))%Z)).
    { intros j Hj. split.
      - cbn [tev_name net net1]. destruct (id_Callable =? j)%N; lia.
      - intros Hx. assert (j = id_Callable) by (cbn in Hx; destruct Hx as [Hx|Hx]; [congruence | destruct Hx]). subst j. cbn. lia. }
    apply (params_case c ps k [] _ _ _ Hk Hb'); [cbn [net]; lia|].
    intros s Hs Hks. destruct Hs as [<-|[<-|[]]].
    + destruct Hks as [Hks|Hks]; [discriminate|]. apply in_app_or in Hks. destruct Hks as [Hks|[Hks|[]]]; [|discriminate].
      destruct (in_sep _ _ Hks) as [E|[s [Hs Hx]]]; [discriminate|].
      apply in_removelast in Hs. destruct (in_map_print _ _ _ Hs) as [x [Hx' ->]].
      exists x. split; [exact Hx'|]. split; [exact Hx|]. cbn [net]. specialize (Fpos x Hx' Hx). lia.
    + destruct ps as [|p0 pr]; [discriminate|].
      assert (Hl : In (last (map (print_ty c) (p0 :: pr)) []) (map (print_ty c) (p0 :: pr))) by (apply in_last; discriminate).
      destruct (in_map_print _ _ _ Hl) as [x [Hx' E]]. rewrite E in Hks.
      exists x. split; [exact Hx'|]. split; [exact Hks|]. cbn [net]. specialize (Fpos x Hx' Hks). lia.
  - (* Union *)
    cbn [wf] in Hwf. apply andb_prop in Hwf. destruct Hwf as [Hwf _]. apply andb_prop in Hwf. destruct Hwf as [Hts _].
    pose proof (ty_members_ok c ts H Hts) as Hm. destruct (flat_ok c ts k Hm Hk) as [Fnn Fpos].
    rewrite net_app.
    assert (Hu : (0 <= net k (tev_union (form_set c (map (print_ty c) ts))))%Z).
    { unfold tev_union, tev_union1. repeat match goal with |- context [match ?x with _ => _ end] => destruct x end;
        cbn [net net1]; repeat match goal with |- context [(?a =? ?b)%N] => destruct (a =? b)%N end; lia. }
    split; [lia|]. intros Hin.
    destruct (build_union_names _ _ Hin) as [[s [Hs Hks]]|Hadd].
    + apply form_set_incl in Hs. destruct (in_map_print _ _ _ Hs) as [x [Hx ->]]. specialize (Fpos x Hx Hks). lia.
    + assert ((0 < net k (tev_union (form_set c (map (print_ty c) ts))))%Z); [|lia].
      revert Hadd. unfold tev_union, tev_union1.
      repeat match goal with |- context [match ?x with _ => _ end] => destruct x end; cbn [In net net1];
        intros Hx; repeat (destruct Hx as [Hx|Hx]; [injection Hx as <-; rewrite ?N.eqb_refl;
          repeat match goal with |- context [(?a =? ?b)%N] => destruct (a =? b)%N end; lia|]); destruct Hx.
  - (* Annot *)
    cbn [wf] in Hwf. apply andb_prop in Hwf. destruct Hwf as [Hwf _].
    destruct (IHt c Hwf k Hk) as [A B]. rewrite net_app. cbn [net net1].
    split; [destruct (id_Annotated =? k)%N; lia|].
    intros Hin. destruct (in_sub_name _ _ _ Hin) as [[H1|[]]|[s [Hs Hks]]].
    + injection H1 as <-. cbn. lia.
    + destruct Hs as [<-|Hs]; [specialize (B Hks); destruct (id_Annotated =? k)%N; lia|].
      apply in_map_iff in Hs. destruct Hs as [a0 [<- _]]. destruct Hks as [Hks|[]]. discriminate.
Qed.

End Types.

(* ------------------------------------------------------------------------------------------------ *)
(* module imports *)

Section Mods.
Variable T : ntab.

Lemma guess_in : forall ch m, guess T ch = Some m -> In m ch.
Proof.
  induction ch as [|q r IH]; cbn [guess]; intros m H; [discriminate|].
  destruct r as [|q2 r2]; [injection H as <-; left; reflexivity|].
  destruct (nt_lowlast T q); [injection H as <-; left; reflexivity | right; apply IH, H].
Qed.

Lemma guess_some : forall ch, ch <> [] -> exists m, guess T ch = Some m.
Proof.
  induction ch as [|q r IH]; intros H; [contradiction|]. cbn [guess]. destruct r as [|q2 r2]; [eexists; reflexivity|].
  destruct (nt_lowlast T q); [eexists; reflexivity | apply IH; discriminate].
Qed.

Definition provided (mods : list N) (n : N) : Prop :=
  nt_chain T n = [] \/ exists q, In q (nt_chain T n) /\ In q mods.

Lemma mem_In : forall q l, mem q l = true <-> In q l.
Proof.
  intros q l. unfold mem. rewrite existsb_exists. split.
  - intros [x [Hx E]]. apply N.eqb_eq in E. subst. exact Hx.
  - intros H. exists q. split; [exact H | apply N.eqb_refl].
Qed.

Lemma visit_np_mono : forall mods n q, In q mods -> In q (visit_np T mods n).
Proof.
  intros mods n q H. unfold visit_np. destruct (nt_chain T n) as [|a r]; [exact H|].
  destruct (existsb _ _); [exact H|]. destruct (guess T (a :: r)); [apply in_or_app; left; exact H | exact H].
Qed.

Lemma visit_np_provides : forall mods n, provided (visit_np T mods n) n.
Proof.
  intros mods n. unfold provided, visit_np. destruct (nt_chain T n) as [|a r] eqn:E; [left; reflexivity|]. right.
  destruct (existsb (fun q => mem q mods) (a :: r)) eqn:Ex.
  - apply existsb_exists in Ex. destruct Ex as [q [Hq Hm]]. exists q. split; [exact Hq | apply mem_In, Hm].
  - destruct (guess_some (a :: r)) as [m Hm]; [discriminate|]. rewrite Hm. exists m.
    split; [apply guess_in, Hm | apply in_or_app; right; left; reflexivity].
Qed.

Lemma fold_np_mono : forall l mods q, In q mods -> In q (fold_left (visit_np T) l mods).
Proof. induction l as [|n r IH]; intros mods q H; cbn [fold_left]; [exact H | apply IH, visit_np_mono, H]. Qed.

Lemma fold_np_provides : forall l mods n, In n l -> provided (fold_left (visit_np T) l mods) n.
Proof.
  induction l as [|a r IH]; intros mods n Hin; [destruct Hin|]. destruct Hin as [<-|H]; cbn [fold_left].
  - destruct (visit_np_provides mods a) as [E|[q [Hq Hm]]]; [left; exact E | right; exists q; split; [exact Hq | apply fold_np_mono, Hm]].
  - apply IH, H.
Qed.

Theorem modules_complete : forall iu n, In n (np_unit T (iu_unit iu)) -> provided (import_mods T iu) n.
Proof. intros iu n H. unfold import_mods. apply fold_np_provides, H. Qed.

(* every module the traversal adds gets its `import m` line (alias = module) unless a later assignment to the same
   alias key replaces it: the key IS the module name, so only `import m` itself can *)
Lemma upd_get_same : forall {V} k (v : V) d, get k (upd k v d) = Some v.
Proof.
  intros V k v d. unfold get. induction d as [|[k' v'] r IH]; cbn [upd find fst snd].
  - rewrite N.eqb_refl. reflexivity.
  - destruct (k' =? k)%N eqn:E; cbn [find fst snd]; [rewrite N.eqb_refl; reflexivity | rewrite E; exact IH].
Qed.
Lemma upd_get_other : forall {V} k k' (v : V) d, k <> k' -> get k' (upd k v d) = get k' d.
Proof.
  intros V k k' v d Hne. unfold get. induction d as [|[k0 v0] r IH]; cbn [upd find fst snd].
  - destruct (k =? k')%N eqn:E; [apply N.eqb_eq in E; contradiction | reflexivity].
  - destruct (k0 =? k)%N eqn:E; cbn [find fst snd].
    + apply N.eqb_eq in E. subst k0. destruct (k =? k')%N eqn:E2; [apply N.eqb_eq in E2; contradiction | reflexivity].
    + destruct (k0 =? k')%N; [reflexivity | exact IH].
Qed.

Lemma fold_upd_mods : forall l d m, (In m l \/ get m d = Some m) -> get m (fold_left (fun d m => upd m m d) l d) = Some m.
Proof.
  induction l as [|a r IH]; intros d m H; cbn [fold_left].
  - destruct H as [[]|H]; exact H.
  - apply IH. destruct (N.eq_dec a m) as [->|Hne].
    + right. apply upd_get_same.
    + destruct H as [[E|H]|H]; [contradiction | left; exact H | right; rewrite upd_get_other; [exact H | exact Hne]].
Qed.

Theorem module_line_emitted : forall iu m, In m (import_mods T iu) -> get m (direct_imports T iu) = Some m.
Proof. intros iu m H. unfold direct_imports. apply fold_upd_mods. left. exact H. Qed.

(* ------------------------------------------------------------------------------------------------ *)
(* sorting *)

Lemma insert_sorted : forall {A} (leb : A -> A -> bool), (forall a b, leb a b = true \/ leb b a = true) ->
  forall x l, Sorted (fun a b => leb a b = true) l -> Sorted (fun a b => leb a b = true) (insert leb x l).
Proof.
  intros A leb Htot x l Hs. induction Hs as [|a l Hs IH Hhd]; cbn [insert]; [repeat constructor|].
  destruct (leb x a) eqn:E.
  - constructor; [constructor; assumption | constructor; exact E].
  - constructor; [exact IH|]. destruct (Htot x a) as [H|H]; [congruence|].
    destruct l as [|b r]; cbn [insert]; [constructor; exact H|].
    destruct (leb x b); constructor; [exact H | inversion Hhd; assumption].
Qed.

Lemma isort_sorted : forall {A} (leb : A -> A -> bool), (forall a b, leb a b = true \/ leb b a = true) ->
  forall l, Sorted (fun a b => leb a b = true) (isort leb l).
Proof. intros A leb Htot l. induction l as [|x r IH]; cbn [isort fold_right]; [constructor | apply insert_sorted; assumption]. Qed.

Lemma pair_leb_total : forall a b, pair_leb a b = true \/ pair_leb b a = true.
Proof.
  intros [a1 a2] [b1 b2]. unfold pair_leb. cbn [fst snd].
  destruct (N.lt_total a1 b1) as [H|[H|H]].
  - left. apply orb_true_iff. left. apply N.ltb_lt, H.
  - subst. rewrite N.eqb_refl, N.ltb_irrefl. cbn. destruct (N.le_ge_cases a2 b2) as [H|H]; [left | right]; apply N.leb_le, H.
  - right. apply orb_true_iff. left. apply N.ltb_lt, H.
Qed.

Lemma line_leb_total : forall a b, line_leb T a b = true \/ line_leb T b a = true.
Proof.
  intros a b. unfold line_leb. destruct (fst (line_key T a)), (fst (line_key T b)); try (left; reflexivity); try (right; reflexivity); apply pair_leb_total.
Qed.

Lemma target_leb_total : forall a b, target_leb T a b = true \/ target_leb T b a = true.
Proof. intros a b. apply pair_leb_total. Qed.

Theorem lines_sorted : forall rich iu, Sorted (fun a b => line_leb T a b = true) (import_lines T rich iu).
Proof. intros rich iu. unfold import_lines. apply isort_sorted, line_leb_total. Qed.

Lemma insert_perm_in : forall {A} (leb : A -> A -> bool) x l y, In y (insert leb x l) <-> y = x \/ In y l.
Proof.
  intros A leb x l y. induction l as [|a r IH]; cbn [insert]; [cbn; intuition|].
  destruct (leb x a); cbn [In]; [intuition | rewrite IH; intuition].
Qed.
Lemma isort_in : forall {A} (leb : A -> A -> bool) l y, In y (isort leb l) <-> In y l.
Proof.
  intros A leb l y. induction l as [|a r IH]; cbn [isort fold_right]; [reflexivity|].
  fold (isort leb r). rewrite insert_perm_in, IH. cbn. intuition.
Qed.

Lemma insert_nodup : forall {A} (leb : A -> A -> bool) x l, NoDup l -> ~ In x l -> NoDup (insert leb x l).
Proof.
  intros A leb x l Hn Hx. induction Hn as [|a r Ha Hn IH]; cbn [insert]; [constructor; [intros [] | constructor]|].
  destruct (leb x a).
  - constructor; [exact Hx | constructor; assumption].
  - constructor.
    + rewrite insert_perm_in. intros [E|H]; [subst; apply Hx; left; reflexivity | contradiction].
    + apply IH. intros H. apply Hx. right. exact H.
Qed.
Lemma isort_nodup : forall {A} (leb : A -> A -> bool) l, NoDup l -> NoDup (isort leb l).
Proof.
  intros A leb l Hn. induction Hn as [|a r Ha Hn IH]; cbn [isort fold_right]; [constructor|].
  apply insert_nodup; [exact IH | intros Hx; apply Ha; apply (isort_in leb r a); exact Hx].
Qed.

Lemma dedup_N_nodup : forall l, NoDup (dedup N.eqb l).
Proof.
  induction l as [|a r IH]; cbn [dedup]; [constructor|]. constructor.
  - intros H. apply filter_In in H. destruct H as [_ H]. rewrite N.eqb_refl in H. discriminate.
  - apply NoDup_filter, IH.
Qed.

(* the names of the `from typing import` line: sorted by the string order, no name twice *)
Theorem typing_line_sorted_unique : forall evs,
  let tg := sort_targets T (map (fun k => (k, k)) (typing_targets evs)) in
  Sorted (fun a b => target_leb T a b = true) tg /\ NoDup tg.
Proof.
  intros evs. split; [apply isort_sorted, target_leb_total|].
  apply isort_nodup.
  assert (Hm : forall l : list N, NoDup l -> NoDup (map (fun k => (k, k)) l)).
  { induction 1 as [|a r Ha Hn IH]; cbn [map]; constructor; [|exact IH].
    intros Hin. apply in_map_iff in Hin. destruct Hin as [x [E Hx]]. injection E as -> _. contradiction. }
  apply Hm. unfold typing_targets. apply NoDup_filter, dedup_N_nodup.
Qed.

End Mods.

(* what the typing line contains *)
Theorem typing_target_iff : forall evs k, In k (typing_targets evs) <-> In (EAdd k) evs /\ net k evs <> 0%Z.
Proof.
  intros evs k. unfold typing_targets. rewrite filter_In. unfold members.
  assert (Hd : forall l, In k (dedup N.eqb l) <-> In k l).
  { induction l as [|a r IH]; cbn [dedup]; [reflexivity|]. cbn [In]. rewrite filter_In, IH.
    destruct (N.eq_dec a k) as [->|Hne]; [intuition|]. split; [intuition|]. intros [E|H]; [contradiction|].
    right. split; [exact H|]. destruct (a =? k)%N eqn:E; [apply N.eqb_eq in E; contradiction | reflexivity]. }
  rewrite Hd, in_flat_map. split.
  - intros [[e [He Hk]] Hn]. destruct e as [j|j]; [destruct Hk as [E|[]]; subst j | destruct Hk]. split; [exact He|].
    destruct (net k evs =? 0)%Z eqn:E; [discriminate|]. apply Z.eqb_neq, E.
  - intros [He Hn]. split; [exists (EAdd k); split; [exact He | left; reflexivity]|].
    apply Z.eqb_neq in Hn. rewrite Hn. reflexivity.
Qed.

(* ------------------------------------------------------------------------------------------------ *)
(* the text round trip *)

Theorem parse_print_text_lemma : forall T fixed rich iu,
  wf_unit fixed (iu_unit iu) = true ->
  (forall k, In (TName k) (stmts_tokens (print_unit fixed (iu_unit iu))) -> is_typing k = true ->
             In k (typing_targets (typing_events rich iu))) ->
  parse_text (print_text T fixed rich iu) = Some (norm_iunit T fixed rich iu).
Proof.
  intros T fixed rich iu Hwf Hcomplete. unfold parse_text, print_text. cbn [fst snd].
  assert (Hg : forallb (fun k => negb (is_typing k) || mem k (typing_imported (import_lines T rich iu)))
                       (tok_names (stmts_tokens (print_unit fixed (iu_unit iu)))) = true).
  { apply forallb_forall. intros k Hk. apply in_tok_names in Hk. destruct (is_typing k) eqn:Et; [|reflexivity]. cbn [negb orb].
    apply mem_In. specialize (Hcomplete k Hk Et).
    unfold typing_imported. apply in_flat_map. unfold import_lines.
    destruct (typing_targets (typing_events rich iu)) as [|t0 tr] eqn:Ett; [destruct Hcomplete|].
    exists (LFrom id_typing (sort_targets T (map (fun k => (k, k)) (t0 :: tr)))). split.
    - apply isort_in. apply in_or_app. left. left. reflexivity.
    - rewrite N.eqb_refl. apply in_map_iff. exists (k, k). split; [reflexivity|]. apply isort_in. apply in_map_iff. exists k. split; [reflexivity | exact Hcomplete]. }
  rewrite Hg. rewrite (parse_unit_print_lemma fixed (iu_unit iu) Hwf). reflexivity.
Qed.
