(* C05, declarations: proofs about coq/Print/Decl.v (built on the expression view of Print/Proofs.v). *)
From Coq Require Import List NArith ZArith Bool Arith Lia.
From PV Require Import Print.Model Print.Proofs Print.Decl.
Import ListNotations.

(* ------------------------------------------------------------------------------------------------ *)
(* reading a printed type that is followed by other tokens *)

Lemma parse_expr_print : forall env c t rest fuel, wf env t = true -> starts_ok rest ->
  length (print_ty c t) <= fuel ->
  parse_expr fuel (print_ty c t ++ rest) = Some (to_expr c t, rest).
Proof.
  intros env c t rest fuel Hw Hr Hf.
  destruct (print_to_expr env c t Hw) as [E W]. rewrite E in *.
  apply parse_flat_gen; assumption.
Qed.

Lemma parse_expr_print_S : forall env c t rest, wf env t = true -> starts_ok rest ->
  parse_expr (S (length (print_ty c t ++ rest))) (print_ty c t ++ rest) = Some (to_expr c t, rest).
Proof.
  intros. eapply parse_expr_print; eauto. rewrite app_length. lia.
Qed.

Lemma parse_expr_print_nil : forall env c t, wf env t = true ->
  parse_expr (S (length (print_ty c t))) (print_ty c t) = Some (to_expr c t, []).
Proof.
  intros env c t Hw. pose proof (parse_expr_print_S env c t [] Hw I) as H. rewrite app_nil_r in H. exact H.
Qed.

(* the second token of a printed expression is "[" if there is one; the first is never a keyword-like form *)
Lemma flat_not_call : forall e A (X : N -> N -> list token -> A) (Y : A),
  match flat e with TName f :: TLPar :: TStr lit :: r1 => X f lit r1 | _ => Y end = Y.
Proof. destruct e; reflexivity. Qed.

Lemma print_not_call : forall env c t A (X : N -> N -> list token -> A) (Y : A), wf env t = true ->
  match print_ty c t with TName f :: TLPar :: TStr lit :: r1 => X f lit r1 | _ => Y end = Y.
Proof. intros. destruct (print_to_expr env c t H) as [E _]. rewrite E. apply flat_not_call. Qed.

(* ------------------------------------------------------------------------------------------------ *)
(* one-line declarations *)

Lemma decl_name_parts : forall env i, decl_name env i = true ->
  reserved_word i = false /\ (i =? id_NoneType)%N = false.
Proof.
  intros env i H. unfold decl_name in H. apply andb_true_iff in H. destruct H as [H H2].
  apply andb_true_iff in H. destruct H as [_ H1]. apply negb_true_iff in H1, H2. auto.
Qed.

Lemma reserved_parts : forall i, reserved_word i = false ->
  (i =? id_def)%N = false /\ (i =? id_class)%N = false /\ (i =? id_raise)%N = false /\
  (i =? id_at)%N = false /\ (i =? id_slots)%N = false.
Proof.
  intros i H. unfold reserved_word in H. repeat (apply orb_false_iff in H; destruct H as [H ?]). auto.
Qed.

Lemma parse_simple_const : forall env c ic k, wf_const env k = true ->
  parse_simple env ic (print_const c k) = Some (DConst (norm_const c k)).
Proof.
  intros env c ic [n t v] H. unfold wf_const in H. cbn [k_name k_ty] in H.
  apply andb_true_iff in H. destruct H as [_ Hw].
  unfold print_const, parse_simple, norm_const. cbn [k_name k_ty k_val].
  destruct v.
  - rewrite (parse_expr_print_S env (ctx_plain c) t [TEq; TEllipsis] Hw I).
    rewrite (conv_to_expr env _ _ Hw). reflexivity.
  - rewrite app_nil_r. rewrite (parse_expr_print_nil env (ctx_plain c) t Hw).
    rewrite (conv_to_expr env _ _ Hw). reflexivity.
Qed.

Lemma ctx_plain_plain0 : ctx_plain plain0 = plain0. Proof. reflexivity. Qed.

Lemma parse_simple_alias : forall env a, wf_alias env a = true ->
  parse_simple env false (print_alias plain0 a) = Some (DAlias (norm_alias plain0 a)).
Proof.
  intros env [n t] H. unfold wf_alias in H. cbn [fst snd] in H.
  apply andb_true_iff in H; destruct H as [H Hshape].
  apply andb_true_iff in H; destruct H as [H Hnone].
  apply andb_true_iff in H; destruct H as [Hn Hw].
  apply negb_true_iff in Hnone.
  destruct (decl_name_parts env n Hn) as [Hres _]. destruct (reserved_parts n Hres) as (_ & _ & _ & _ & Hsl).
  unfold print_alias, parse_simple, norm_alias. cbn [fst snd]. rewrite ctx_plain_plain0.
  rewrite (print_not_call env plain0 t _ _ _ Hw).
  rewrite (parse_expr_print_nil env plain0 t Hw). rewrite Hsl.
  destruct (print_to_expr env plain0 t Hw) as [E _].
  assert (Hne: to_expr plain0 t <> ENone).
  { intro Heq. rewrite Heq in E. cbn in E. unfold prints_none in Hnone. rewrite E in Hnone. discriminate. }
  rewrite (conv_to_expr env _ _ Hw).
  destruct (to_expr plain0 t); try reflexivity. congruence.
Qed.

(* ------------------------------------------------------------------------------------------------ *)
(* TypeVar lines *)

Definition no_eq_head (ts : list token) : Prop := match ts with TEq :: _ => False | _ => True end.

Lemma is_kwarg_flat : forall e rest, no_eq_head rest -> is_kwarg (flat e ++ rest) = None.
Proof.
  intros e rest H. destruct e; try reflexivity.
  cbn. destruct rest as [|[] ?]; try reflexivity. cbn in H. contradiction.
Qed.

Lemma is_kwarg_print : forall env c t rest, wf env t = true -> no_eq_head rest ->
  is_kwarg (print_ty c t ++ rest) = None.
Proof. intros. destruct (print_to_expr env c t H) as [E _]. rewrite E. apply is_kwarg_flat. assumption. Qed.

Definition tv_tail (c : ctx) (cons : list ty) (b : option ty) : list token :=
  flat_map (fun x => TComma :: print_ty (ctx_plain c) x) cons
  ++ (match b with Some b => TComma :: TName id_bound :: TEq :: print_ty (ctx_plain c) b | None => [] end)
  ++ [TRPar].

Lemma tv_tail_head : forall c cons b, exists t r, tv_tail c cons b = t :: r /\ (t = TComma \/ t = TRPar).
Proof.
  intros c cons b. unfold tv_tail. destruct cons as [|x r]; [destruct b|]; cbn; eauto.
Qed.

Lemma parse_tvar_args_print : forall env c b cons fuel,
  forallb (wf env) cons = true -> (match b with Some x => wf env x = true | None => True end) ->
  length (tv_tail c cons b) <= fuel ->
  parse_tvar_args env fuel (tv_tail c cons b) =
    Some (map (norm (ctx_plain c)) cons, option_map (norm (ctx_plain c)) b).
Proof.
  intros env c b. induction cons as [|x r IH]; intros fuel Hc Hb Hf.
  - unfold tv_tail in *. cbn [flat_map app] in *. destruct b as [x|].
    + destruct fuel as [|f]; [cbn in Hf; lia|]. cbn [app parse_tvar_args is_kwarg].
      change (id_bound =? id_bound)%N with true. cbv iota.
      rewrite (parse_expr_print_S env (ctx_plain c) x [TRPar] Hb I).
      rewrite (conv_to_expr env _ _ Hb). reflexivity.
    + destruct fuel as [|f]; [cbn in Hf; lia|]. reflexivity.
  - cbn [forallb] in Hc. apply andb_true_iff in Hc. destruct Hc as [Hx Hr].
    assert (E: tv_tail c (x :: r) b = TComma :: print_ty (ctx_plain c) x ++ tv_tail c r b).
    { unfold tv_tail. cbn [flat_map]. rewrite <- !app_assoc. reflexivity. }
    rewrite E in *. destruct fuel as [|f]; [cbn in Hf; lia|].
    cbn [parse_tvar_args].
    destruct (tv_tail_head c r b) as (t0 & r0 & Et & Ht).
    assert (Hne: no_eq_head (tv_tail c r b)) by (rewrite Et; destruct Ht; subst; exact I).
    assert (Hso: starts_ok (tv_tail c r b)) by (rewrite Et; destruct Ht; subst; exact I).
    rewrite (is_kwarg_print env _ x _ Hx Hne).
    rewrite (parse_expr_print_S env (ctx_plain c) x _ Hx Hso).
    rewrite (conv_to_expr env _ _ Hx).
    rewrite IH; [reflexivity | exact Hr | exact Hb |].
    cbn [length] in Hf. rewrite app_length in Hf. lia.
Qed.

Lemma wf_tparam_parts : forall env t, wf_tparam env t = true ->
  forallb (wf env) (tp_cons t) = true /\ match tp_bound t with Some b => wf env b = true | None => True end.
Proof.
  intros env t H. unfold wf_tparam in H.
  apply andb_true_iff in H. destruct H as [H Hb]. apply andb_true_iff in H. destruct H as [_ Hc].
  split; [exact Hc|]. destruct (tp_bound t); [exact Hb|exact I].
Qed.

Lemma parse_simple_tparam : forall env t, wf_tparam env t = true ->
  parse_simple env false (print_tparam plain0 t) = Some (DTvar (norm_tparam plain0 t)).
Proof.
  intros env t H. destruct (wf_tparam_parts env t H) as [Hc Hb].
  unfold print_tparam, parse_simple. rewrite ctx_plain_plain0.
  change (id_TypeVar =? id_TypeVar)%N with true. cbv iota.
  fold (tv_tail plain0 (tp_cons t) (tp_bound t)) .
  rewrite (parse_tvar_args_print env plain0 (tp_bound t) (tp_cons t)); [|exact Hc|exact Hb|].
  2:{ unfold tv_tail. change (ctx_plain plain0) with plain0. lia. }
  unfold norm_tparam. rewrite ctx_plain_plain0. destruct (tp_bound t); reflexivity.
Qed.

(* ------------------------------------------------------------------------------------------------ *)
(* signatures with body lines: syntax *)

Lemma sig_head_items : forall env scope c s, wf_sig env scope c s = true ->
  sig_head c s = TLPar :: sep (map flat_item (items_of c s)) ++ TRPar :: TArrow :: flat (ret_expr c (s_ret s)) ++ [TColon]
  /\ forallb wfe_item (items_of c s) = true /\ wfe (ret_expr c (s_ret s)) = true /\
  conv env (ret_expr c (s_ret s)) = Some (norm_ret c (s_ret s)).
Proof.
  intros env scope c s Hwf.
  destruct (wf_sig_parts env scope c s Hwf) as (Hps & Hk & Hd & Hst & Hss & Hret & Hnev).
  destruct (ret_ok env c (s_ret s) Hret Hnev) as (Er & Wr & Cr).
  assert (Hstar: forall st, wf_container env false st = true \/ wf_container env true st = true ->
            print_container c st = flat_rparam (rp_star c st) /\ wfe_rparam (rp_star c st) = true).
  { intros st Hw. rewrite print_container_param. unfold rp_star.
    apply (print_param_flat env). destruct st as [nm t]. cbn [snd].
    unfold wf_container in Hw. cbn [snd] in Hw.
    destruct t; cbn [container_elem]; try reflexivity; destruct Hw as [Hw|Hw]; try discriminate;
      apply andb_true_iff in Hw; apply Hw. }
  set (star := option_map (rp_star c) (s_star s)).
  destruct (params_loop_items env c (s_params s) star Hps) as [EL WL].
  assert (Estar: match s_star s with Some st => Some (print_container c st) | None => None end = option_map flat_rparam star).
  { unfold star. destruct (s_star s) as [st|] eqn:E; [|reflexivity]. cbn. f_equal. apply Hstar. left. apply Hst. reflexivity. }
  split; [|split; [|split; assumption]].
  - unfold sig_head. rewrite Estar, EL, Er. unfold items_of. fold star. rewrite map_app.
    assert (Ess: match s_sstar s with Some st => [TDStar :: print_container c st] | None => [] end =
                 map flat_item (match s_sstar s with Some st => [IDStar (rp_star c st)] | None => [] end)).
    { destruct (s_sstar s) as [st|] eqn:E; [|reflexivity]. cbn. f_equal. f_equal. apply Hstar. right. apply Hss. reflexivity. }
    rewrite Ess. cbn [app]. reflexivity.
  - unfold items_of. fold star. rewrite forallb_app, WL.
    assert (W1: forallb wfe_item (match star with Some sp => [IStar (Some sp)] | None => [] end) = true).
    { unfold star. destruct (s_star s) as [st|] eqn:E; [|reflexivity]. cbn. rewrite andb_true_r. apply Hstar. left. apply Hst. reflexivity. }
    rewrite W1. destruct (s_sstar s) as [st|] eqn:E; [|reflexivity]. cbn. rewrite andb_true_r. apply Hstar. right. apply Hss. reflexivity.
Qed.

Definition parse_fbody_top (r2 : list token) : option (list bline) :=
  match r2 with
  | [TEllipsis] => Some []
  | [] => None
  | _ => parse_fbody (S (length r2)) r2
  end.

Lemma parse_fsig_tokens : forall env nm its re body,
  forallb wfe_item its = true -> wfe re = true ->
  parse_fsig env nm (TLPar :: sep (map flat_item its) ++ TRPar :: TArrow :: flat re ++ TColon :: body) =
  match parse_fbody_top body with Some b => sem_fsig env nm its re b | None => None end.
Proof.
  intros env nm its re body Hw Hre. unfold parse_fsig.
  assert (Hret: forall r1, r1 = flat re ++ TColon :: body ->
            parse_expr (S (length r1)) r1 = Some (re, TColon :: body)).
  { intros r1 ->. apply parse_flat_gen; [exact Hre | rewrite app_length; lia | exact I]. }
  destruct its as [|it its'].
  - cbn [map sep app]. rewrite (Hret _ eq_refl). reflexivity.
  - destruct (flat_item_head it) as (t & q & Eh & Hne).
    assert (Hsep: exists q', sep (map flat_item (it :: its')) = t :: q').
    { destruct its'; cbn [map]; [rewrite sep_single|rewrite sep_cons2]; rewrite Eh; cbn [app]; eauto. }
    destruct Hsep as (q' & Hsep).
    pose proof (parse_items_flat (it :: its') (TArrow :: flat re ++ TColon :: body)
                  (S (length (sep (map flat_item (it :: its')) ++ TRPar :: TArrow :: flat re ++ TColon :: body)))
                  Hw ltac:(discriminate)) as HP.
    rewrite HP by (rewrite app_length; pose proof (sep_items_length (it :: its')); lia).
    rewrite Hsep. cbn [app].
    destruct t; try congruence; rewrite (Hret _ eq_refl); reflexivity.
Qed.

(* ---- body lines ---- *)

Definition mut_exprs (c : ctx) (ps : list param) : list bline :=
  flat_map (fun p => match p_mut p with Some m => [BMut (p_name p) (to_expr (ctx_plain c) m)] | None => [] end) ps.
Definition exc_exprs (c : ctx) (excs : list ty) : list bline := map (fun e => BRaise (to_expr (ctx_plain c) e)) excs.

Lemma is_kwarg_name_flat : forall k e rest, is_kwarg (TName k :: flat e ++ rest) = None.
Proof. intros k e rest. destruct e; reflexivity. Qed.

Definition line_start (ts : list token) : Prop := match ts with [] => True | TNewline :: _ => True | _ => False end.
Lemma line_start_ok : forall ts, line_start ts -> starts_ok ts.
Proof. intros [|[] ?]; cbn; auto. Qed.

Lemma raise_lines_start : forall c excs, line_start (raise_lines c excs).
Proof. intros c [|e r]; cbn; exact I. Qed.

Lemma parse_fbody_raises : forall env c excs fuel,
  forallb (wf env) excs = true -> length (raise_lines c excs) < fuel ->
  parse_fbody fuel (raise_lines c excs) = Some (exc_exprs c excs).
Proof.
  intros env c. induction excs as [|e r IH]; intros fuel Hw Hf.
  - destruct fuel; [lia|]. reflexivity.
  - cbn [forallb] in Hw. apply andb_true_iff in Hw. destruct Hw as [He Hr].
    destruct fuel as [|f]; [lia|].
    assert (E: raise_lines c (e :: r) =
               TNewline :: TName id_raise :: print_ty (ctx_plain c) e ++ TLPar :: TRPar :: raise_lines c r).
    { unfold raise_lines. cbn [flat_map]. cbn [app]. rewrite <- app_assoc. reflexivity. }
    rewrite E in *. cbn [parse_fbody].
    destruct (print_to_expr env (ctx_plain c) e He) as [Ee We].
    rewrite Ee at 1. rewrite is_kwarg_name_flat.
    change (id_raise =? id_raise)%N with true. cbv iota.
    rewrite (parse_expr_print_S env (ctx_plain c) e (TLPar :: TRPar :: raise_lines c r) He I).
    rewrite IH; [reflexivity | exact Hr |].
    cbn [length] in Hf. rewrite app_length in Hf. cbn [length] in Hf. lia.
Qed.

Lemma parse_fbody_print : forall env c excs ps fuel,
  (forall p m, In p ps -> p_mut p = Some m -> wf env m = true) ->
  forallb (wf env) excs = true ->
  length (mut_lines c ps ++ raise_lines c excs) < fuel ->
  parse_fbody fuel (mut_lines c ps ++ raise_lines c excs) = Some (mut_exprs c ps ++ exc_exprs c excs).
Proof.
  intros env c excs. induction ps as [|p r IH]; intros fuel Hm Hw Hf.
  - cbn [mut_lines flat_map app] in *. apply (parse_fbody_raises env); assumption.
  - unfold mut_lines, mut_exprs in *. cbn [flat_map] in *. destruct (p_mut p) as [m|] eqn:Em.
    + assert (Hwm: wf env m = true) by (apply (Hm p m); [left; reflexivity | exact Em]).
      fold (mut_lines c r) in *. fold (mut_exprs c r) in *.
      destruct fuel as [|f]; [lia|]. cbn [app]. rewrite <- app_assoc. cbn [parse_fbody is_kwarg].
      assert (Hs: starts_ok (mut_lines c r ++ raise_lines c excs)).
      { apply line_start_ok. destruct r as [|q r']; [apply raise_lines_start|].
        unfold mut_lines. cbn [flat_map]. destruct (p_mut q); [exact I|].
        (* the next parameter has no mutation: look further *)
        clear. induction r' as [|q2 r2 IH2]; [apply raise_lines_start|].
        cbn [flat_map app]. destruct (p_mut q2); [exact I|exact IH2]. }
      rewrite (parse_expr_print_S env (ctx_plain c) m (mut_lines c r ++ raise_lines c excs) Hwm Hs).
      rewrite IH; [reflexivity | | exact Hw |].
      * intros p' m' Hin. apply Hm. right. exact Hin.
      * cbn [app length] in Hf.
        rewrite <- app_assoc in Hf. rewrite app_length in Hf.
        fold (mut_lines c r). lia.
    + cbn [app] in *. apply IH; [|exact Hw|exact Hf].
      intros p' m' Hin. apply Hm. right. exact Hin.
Qed.

(* ------------------------------------------------------------------------------------------------ *)
(* signatures with body lines: mutators *)

Definition clear_mut (p : param) : param := mkParam (p_name p) (p_ty p) (p_kind p) (p_opt p) None.
Definition with_mut (p : param) (m : option ty) : param := mkParam (p_name p) (p_ty p) (p_kind p) (p_opt p) m.
Definition muts_of (l : list param) : list (N * ty) :=
  flat_map (fun p => match p_mut p with Some m => [(p_name p, m)] | None => [] end) l.
Definition set_mut (nm : N) (t : ty) (l : list param) : list param :=
  map (fun p => if (p_name p =? nm)%N then with_mut p (Some t) else p) l.

Lemma nodup_by_NoDup : forall l, nodup_by N.eqb l = true -> NoDup l.
Proof.
  induction l as [|x r IH]; intros H; [constructor|].
  cbn in H. apply andb_true_iff in H. destruct H as [Hx Hr]. constructor; [|apply IH; exact Hr].
  intro Hin. apply negb_true_iff in Hx.
  assert (existsb (N.eqb x) r = true) by (apply existsb_exists; exists x; split; [exact Hin|apply N.eqb_refl]).
  congruence.
Qed.

Lemma set_mut_notin : forall nm t l, ~ In nm (map p_name l) -> set_mut nm t l = l.
Proof.
  intros nm t. induction l as [|p r IH]; intros H; [reflexivity|].
  cbn [set_mut map] in *. fold (set_mut nm t r).
  destruct (p_name p =? nm)%N eqn:E.
  - apply N.eqb_eq in E. exfalso. apply H. left. exact E.
  - f_equal. apply IH. intro Hin. apply H. right. exact Hin.
Qed.

Lemma existsb_false_notin : forall (f : param -> bool) nm l,
  ~ In nm (map p_name l) -> existsb (fun p => (p_name p =? nm)%N && f p) l = false.
Proof.
  intros f nm. induction l as [|p r IH]; intros H; [reflexivity|].
  cbn [existsb map] in *. destruct (p_name p =? nm)%N eqn:E.
  - apply N.eqb_eq in E. exfalso. apply H. left. exact E.
  - cbn [andb orb]. apply IH. intro Hin. apply H. right. exact Hin.
Qed.

Lemma apply_mutator_hit : forall L1 p L2 st sst r t,
  ~ In (p_name p) (map p_name L1) -> ~ In (p_name p) (map p_name L2) ->
  p_opt p = false ->
  (forall x, st = Some x -> fst x <> p_name p) -> (forall x, sst = Some x -> fst x <> p_name p) ->
  apply_mutator (mkSig (L1 ++ p :: L2) st sst r) (p_name p, t) =
  Some (mkSig (L1 ++ with_mut p (Some t) :: L2) st sst r).
Proof.
  intros L1 p L2 st sst r t H1 H2 Ho Hst Hsst. unfold apply_mutator. cbn [fst snd s_params s_star s_sstar s_ret].
  assert (Eb: existsb (fun q => (p_name q =? p_name p)%N && p_opt q) (L1 ++ p :: L2) = false).
  { rewrite existsb_app. rewrite (existsb_false_notin _ _ _ H1). cbn [existsb orb].
    rewrite Ho, andb_false_r. cbn [orb]. apply (existsb_false_notin _ _ _ H2). }
  rewrite Eb. cbn [orb].
  assert (Es: match st with Some x => (fst x =? p_name p)%N | None => false end = false).
  { destruct st as [x|]; [|reflexivity]. apply N.eqb_neq. apply Hst. reflexivity. }
  assert (Ess: match sst with Some x => (fst x =? p_name p)%N | None => false end = false).
  { destruct sst as [x|]; [|reflexivity]. apply N.eqb_neq. apply Hsst. reflexivity. }
  rewrite Es, Ess. cbn [orb].
  assert (Ef: existsb (fun q => (p_name q =? p_name p)%N) (L1 ++ p :: L2) = true).
  { rewrite existsb_app. cbn [existsb]. rewrite N.eqb_refl. rewrite orb_true_r. reflexivity. }
  rewrite Ef. cbn [negb]. f_equal. f_equal.
  change (map (fun p0 => if (p_name p0 =? p_name p)%N
                         then mkParam (p_name p0) (p_ty p0) (p_kind p0) (p_opt p0) (Some t) else p0) (L1 ++ p :: L2))
    with (set_mut (p_name p) t (L1 ++ p :: L2)).
  unfold set_mut. rewrite map_app. cbn [map]. rewrite N.eqb_refl.
  fold (set_mut (p_name p) t L1). fold (set_mut (p_name p) t L2).
  rewrite (set_mut_notin _ _ _ H1), (set_mut_notin _ _ _ H2). reflexivity.
Qed.

Lemma with_mut_clear : forall p m, p_mut p = m -> with_mut (clear_mut p) m = p.
Proof. intros [a b c d e] m H. cbn in H. subst. reflexivity. Qed.
Lemma clear_mut_none : forall p, p_mut p = None -> clear_mut p = p.
Proof. intros [a b c d e] H. cbn in H. subst. reflexivity. Qed.

Lemma apply_mutators_all : forall st sst r L2 L1,
  NoDup (map p_name (L1 ++ L2)) ->
  (forall x, st = Some x -> ~ In (fst x) (map p_name (L1 ++ L2))) ->
  (forall x, sst = Some x -> ~ In (fst x) (map p_name (L1 ++ L2))) ->
  (forall p m, In p L2 -> p_mut p = Some m -> p_opt p = false) ->
  forall tail res,
  apply_mutators (mkSig (L1 ++ L2) st sst r) tail = res ->
  apply_mutators (mkSig (L1 ++ map clear_mut L2) st sst r) (muts_of L2 ++ tail) = res.
Proof.
  intros st sst r. induction L2 as [|p L2 IH]; intros L1 Hnd Hst Hsst Hopt tail res Hres.
  - cbn [map muts_of flat_map app]. exact Hres.
  - assert (Ecat: forall X, L1 ++ p :: X = (L1 ++ [p]) ++ X) by (intros; rewrite <- app_assoc; reflexivity).
    assert (IH': apply_mutators (mkSig ((L1 ++ [p]) ++ map clear_mut L2) st sst r) (muts_of L2 ++ tail) = res).
    { apply IH.
      - rewrite <- Ecat. exact Hnd.
      - intros x Hx. rewrite <- Ecat. apply Hst. exact Hx.
      - intros x Hx. rewrite <- Ecat. apply Hsst. exact Hx.
      - intros q m Hq. apply Hopt. right. exact Hq.
      - rewrite <- Ecat. exact Hres. }
    rewrite <- Ecat in IH'.
    destruct (p_mut p) as [m|] eqn:Em.
    + unfold muts_of. cbn [flat_map map]. rewrite Em. cbn [app apply_mutators].
      fold (muts_of L2).
      pose proof Hnd as Hnd0.
      rewrite map_app in Hnd0. cbn [map] in Hnd0. apply NoDup_remove in Hnd0. destruct Hnd0 as [_ Hnot].
      assert (H1: ~ In (p_name p) (map p_name L1)) by (intro; apply Hnot; apply in_or_app; left; assumption).
      assert (H2: ~ In (p_name p) (map p_name L2)) by (intro; apply Hnot; apply in_or_app; right; assumption).
      assert (H2': ~ In (p_name (clear_mut p)) (map p_name (map clear_mut L2))).
      { rewrite map_map. cbn [clear_mut p_name]. exact H2. }
      change (p_name p) with (p_name (clear_mut p)) at 1.
      rewrite (apply_mutator_hit L1 (clear_mut p) (map clear_mut L2) st sst r m H1 H2').
      * rewrite (with_mut_clear p (Some m) Em). exact IH'.
      * cbn [clear_mut p_opt]. apply (Hopt p m); [left; reflexivity | exact Em].
      * intros x Hx Heq. apply (Hst x Hx). rewrite Heq. rewrite map_app. apply in_or_app. right. left. reflexivity.
      * intros x Hx Heq. apply (Hsst x Hx). rewrite Heq. rewrite map_app. apply in_or_app. right. left. reflexivity.
    + unfold muts_of. cbn [flat_map map]. rewrite Em. cbn [app]. fold (muts_of L2).
      rewrite (clear_mut_none p Em). exact IH'.
Qed.

(* ------------------------------------------------------------------------------------------------ *)
(* signatures with body lines: the conversions and the main theorem *)

Lemma wf_sig_more : forall env scope c s, wf_sig env scope c s = true ->
  (forall p m, In p (s_params s) -> p_mut p = Some m -> wf env m = true /\ p_opt p = false) /\
  nodup_by N.eqb (sig_names s) = true /\
  (self_mutated c s = true -> match s_params s with p :: _ => p_opt p = false | [] => True end).
Proof.
  intros env scope c s H. unfold wf_sig in H.
  repeat (apply andb_true_iff in H; destruct H as [H ?]).
  rename H0 into Hnever, H1 into Hvm, H2 into Hself, H3 into Hret, H4 into Hss, H5 into Hst, H6 into Hnd,
         H7 into Hdef, H8 into Hkinds.
  split; [|split].
  - intros p m Hp Em. rewrite forallb_forall in H. specialize (H p Hp). apply andb_true_iff in H.
    destruct H as [_ H]. rewrite Em in H. apply andb_true_iff in H. destruct H as [Hw Ho].
    apply negb_true_iff in Ho. auto.
  - exact Hnd.
  - intros Hs. rewrite Hs in Hself. destruct (s_params s) as [|p r]; [exact I|].
    cbn [andb] in Hself. apply negb_true_iff in Hself. exact Hself.
Qed.

Lemma conv_params_clear : forall env c k X,
  Forall (has_kind k) X -> (forall p, In p X -> wf env (p_ty p) = true) ->
  mapM (conv_param env k) (rps c X) = Some (map (fun p => clear_mut (norm_param c p)) X).
Proof.
  intros env c k X HX Hw. unfold rps. apply mapM_map. intros p Hp.
  rewrite Forall_forall in HX. specialize (HX p Hp). unfold has_kind in HX.
  unfold conv_param, rp_param. rewrite (conv_rp env c _ _ _ (Hw p Hp)). unfold norm_param, clear_mut.
  cbn [p_name p_ty p_kind p_opt]. rewrite HX. reflexivity.
Qed.

Lemma body_muts_split : forall c ps excs,
  body_muts (mut_exprs c ps ++ exc_exprs c excs) =
  flat_map (fun p => match p_mut p with Some m => [(p_name p, to_expr (ctx_plain c) m)] | None => [] end) ps.
Proof.
  intros c ps excs. unfold body_muts. rewrite flat_map_app.
  assert (E2: flat_map (fun x => match x with BMut n e => [(n, e)] | BRaise _ => [] end) (exc_exprs c excs) = []).
  { unfold exc_exprs. induction excs as [|e r IH]; [reflexivity|]. cbn. exact IH. }
  rewrite E2, app_nil_r. unfold mut_exprs. induction ps as [|p r IH]; [reflexivity|].
  cbn [flat_map]. rewrite flat_map_app, IH. destruct (p_mut p); reflexivity.
Qed.

Lemma body_excs_split : forall c ps excs,
  body_excs (mut_exprs c ps ++ exc_exprs c excs) = map (to_expr (ctx_plain c)) excs.
Proof.
  intros c ps excs. unfold body_excs. rewrite flat_map_app.
  assert (E1: flat_map (fun x => match x with BRaise e => [e] | BMut _ _ => [] end) (mut_exprs c ps) = []).
  { unfold mut_exprs. induction ps as [|p r IH]; [reflexivity|]. cbn [flat_map]. rewrite flat_map_app, IH.
    destruct (p_mut p); reflexivity. }
  rewrite E1. cbn [app]. unfold exc_exprs. induction excs as [|e r IH]; [reflexivity|]. cbn. f_equal. exact IH.
Qed.

Lemma conv_muts : forall env c ps,
  (forall p m, In p ps -> p_mut p = Some m -> wf env m = true) ->
  mapM (fun m : N * expr => match conv env (snd m) with Some t => Some (fst m, t) | None => None end)
       (flat_map (fun p => match p_mut p with Some m => [(p_name p, to_expr (ctx_plain c) m)] | None => [] end) ps)
  = Some (muts_of (map (norm_param c) ps)).
Proof.
  intros env c. induction ps as [|p r IH]; intros H; [reflexivity|].
  cbn [flat_map map]. unfold muts_of. cbn [flat_map]. fold (muts_of (map (norm_param c) r)).
  assert (IH': mapM (fun m : N * expr => match conv env (snd m) with Some t => Some (fst m, t) | None => None end)
       (flat_map (fun p => match p_mut p with Some m => [(p_name p, to_expr (ctx_plain c) m)] | None => [] end) r)
       = Some (muts_of (map (norm_param c) r))) by (apply IH; intros q m Hq; apply H; right; exact Hq).
  unfold norm_param at 1. cbn [p_mut p_name].
  destruct (p_mut p) as [m|] eqn:Em.
  - cbn [app mapM fst snd]. rewrite (conv_to_expr env (ctx_plain c) m (H p m (or_introl eq_refl) Em)).
    change (mapM ?f ?l) with (mapM f l). cbn [mapM] in IH' |- *. rewrite IH'. reflexivity.
  - cbn [app]. exact IH'.
Qed.

Lemma conv_excs : forall env c excs, forallb (wf env) excs = true ->
  mapM (conv env) (map (to_expr (ctx_plain c)) excs) = Some (map (norm (ctx_plain c)) excs).
Proof.
  intros env c excs H. apply mapM_map. intros x Hx. apply conv_to_expr.
  rewrite forallb_forall in H. apply H. exact Hx.
Qed.

Lemma NoDup_app_l : forall {A} (a b : list A), NoDup (a ++ b) -> NoDup a.
Proof.
  induction a as [|x r IH]; intros b H; [constructor|].
  cbn in H. inversion H as [|? ? Hx Hr]; subst. constructor.
  - intro Hin. apply Hx. apply in_or_app. left. exact Hin.
  - apply (IH b). exact Hr.
Qed.

Lemma norm_param_name_map : forall c ps, map p_name (map (norm_param c) ps) = map p_name ps.
Proof. intros. rewrite map_map. reflexivity. Qed.

Theorem sem_fsig_print : forall env scope c nm f, wf_fsig env scope c f = true ->
  sem_fsig env nm (items_of c (f_sig f)) (ret_expr c (s_ret (f_sig f)))
           (mut_exprs c (s_params (f_sig f)) ++ exc_exprs c (f_exc f)) = Some (norm_fsig c nm f).
Proof.
  intros env scope c nm [s excs] H. unfold wf_fsig in H. cbn [f_sig f_exc] in *.
  apply andb_true_iff in H. destruct H as [Hwf Hex].
  destruct (wf_sig_parts env scope c s Hwf) as (Hps & Hk & Hd & Hst & Hss & Hret & Hnev).
  destruct (wf_sig_more env scope c s Hwf) as (Hmut & Hnd & Hselfopt).
  destruct (sig_head_items env scope c s Hwf) as (_ & _ & _ & Cr).
  destruct (kinds_split (s_params s) Hk) as (P & R & K & Eps & HP & HR & HK).
  unfold sem_fsig, items_of. rewrite Eps.
  assert (Edst: match s_sstar s with Some st => [IDStar (rp_star c st)] | None => [] end =
                match option_map (rp_star c) (s_sstar s) with Some p => [IDStar p] | None => [] end)
    by (destruct (s_sstar s); reflexivity).
  rewrite Edst.
  rewrite (build_items c P R K (option_map (rp_star c) (s_star s)) (option_map (rp_star c) (s_sstar s)) HP HR HK).
  2:{ intros p Ep. destruct (s_star s); [|discriminate]. injection Ep as <-. reflexivity. }
  2:{ intros p Ep. destruct (s_sstar s); [|discriminate]. injection Ep as <-. reflexivity. }
  cbn [rs_pos rs_reg rs_star rs_kw rs_sstar].
  assert (Hdef: defaults_ok false (rps c P ++ rps c R) = true).
  { unfold rps. rewrite <- map_app. fold (rps c (P ++ R)).
    rewrite <- (defaults_ok_rps c (P ++ R) K false).
    - rewrite <- app_assoc. rewrite <- Eps. exact Hd.
    - apply Forall_app. split.
      + eapply Forall_impl; [|exact HP]. intros p Hp. unfold has_kind in Hp. rewrite Hp. discriminate.
      + eapply Forall_impl; [|exact HR]. intros p Hp. unfold has_kind in Hp. rewrite Hp. discriminate.
    - exact HK. }
  rewrite Hdef.
  rewrite (conv_params_clear env c PosOnly P HP) by (intros p Hp; apply Hps; rewrite Eps; apply in_or_app; left; exact Hp).
  rewrite (conv_params_clear env c Regular R HR) by (intros p Hp; apply Hps; rewrite Eps; apply in_or_app; right; apply in_or_app; left; exact Hp).
  rewrite (conv_params_clear env c KwOnly K HK) by (intros p Hp; apply Hps; rewrite Eps; apply in_or_app; right; apply in_or_app; right; exact Hp).
  assert (Cst: conv_star env (option_map (rp_star c) (s_star s)) = Some (option_map (norm_star c) (s_star s))).
  { destruct (s_star s) as [st|] eqn:Es; [|reflexivity]. cbn [option_map]. apply conv_star_ok. apply Hst. reflexivity. }
  assert (Csst: conv_sstar env (option_map (rp_star c) (s_sstar s)) = Some (option_map (norm_sstar c) (s_sstar s))).
  { destruct (s_sstar s) as [st|] eqn:Es; [|reflexivity]. cbn [option_map]. apply conv_sstar_ok. apply Hss. reflexivity. }
  rewrite Cst, Csst, Cr.
  rewrite <- Eps. rewrite body_muts_split, body_excs_split.
  rewrite (conv_muts env c (s_params s)) by (intros p m Hp Em; apply (Hmut p m Hp Em)).
  rewrite (conv_excs env c excs Hex).
  cbv beta iota zeta.
  rewrite <- !map_app. rewrite <- Eps.
  set (L := map (norm_param c) (s_params s)).
  assert (EL: map (fun p => clear_mut (norm_param c p)) (s_params s) = map clear_mut L).
  { unfold L. rewrite map_map. reflexivity. }
  rewrite EL.
  (* the implicit mutator for a generic self *)
  assert (Hselfm: match first_param (mkRS (rps c P) (rps c R) (option_map (rp_star c) (s_star s)) (rps c K) (option_map (rp_star c) (s_sstar s))),
                        map clear_mut L with
                  | Some fp, q :: _ =>
                      if (r_name fp =? id_self)%N && match r_ann fp with Some e => expr_is_generic e | None => false end
                      then [(id_self, p_ty q)] else []
                  | _, _ => []
                  end = if self_mutated c s then match L with q :: _ => [(id_self, p_ty q)] | [] => [] end else []).
  { unfold first_param. cbn [rs_pos rs_reg rs_kw]. unfold rps. rewrite <- !map_app. rewrite <- Eps.
    unfold self_mutated, L.
    destruct (s_params s) as [|p0 pr]; [reflexivity|]. cbn [map].
    unfold rp_param, rp_of. cbn [r_name r_ann clear_mut p_ty].
    destruct (p_name p0 =? id_self)%N; [|reflexivity]. cbn [andb].
    destruct (elided c (p_name p0) (p_ty p0) (print_ty (ctx_param c) (p_ty p0))); [reflexivity|].
    cbn [negb andb].
    destruct (print_to_expr env (ctx_param c) (p_ty p0) (Hps p0 (or_introl eq_refl))) as [Ep0 _].
    rewrite Ep0, prints_generic_flat. reflexivity. }
  rewrite Hselfm.
  (* names *)
  pose proof (nodup_by_NoDup _ Hnd) as Hnd'. unfold sig_names in Hnd'.
  assert (HndL: NoDup (map p_name ([] ++ L))).
  { cbn [app]. unfold L. rewrite norm_param_name_map. apply (NoDup_app_l _ _ Hnd'). }
  assert (HstL: forall x, option_map (norm_star c) (s_star s) = Some x -> ~ In (fst x) (map p_name ([] ++ L))).
  { intros x Hx. cbn [app]. unfold L. rewrite norm_param_name_map. destruct (s_star s) as [st|] eqn:Es; [|discriminate].
    cbn in Hx. injection Hx as <-. assert (fst (norm_star c st) = fst st) by (unfold norm_star; destruct (elided _ _ _ _); reflexivity).
    rewrite H. intro Hin. cbn [app] in Hnd'.
    apply NoDup_remove_2 in Hnd'. apply Hnd'. apply in_or_app. left. exact Hin. }
  assert (HsstL: forall x, option_map (norm_sstar c) (s_sstar s) = Some x -> ~ In (fst x) (map p_name ([] ++ L))).
  { intros x Hx. cbn [app]. unfold L. rewrite norm_param_name_map. destruct (s_sstar s) as [st|] eqn:Es; [|discriminate].
    cbn in Hx. injection Hx as <-. assert (fst (norm_sstar c st) = fst st) by (unfold norm_sstar; destruct (elided _ _ _ _); reflexivity).
    rewrite H. intro Hin. rewrite app_assoc in Hnd'.
    apply NoDup_remove_2 in Hnd'. apply Hnd'. rewrite app_nil_r. apply in_or_app. left. exact Hin. }
  assert (HoptL: forall p m, In p L -> p_mut p = Some m -> p_opt p = false).
  { intros p m Hp Em. unfold L in Hp. apply in_map_iff in Hp. destruct Hp as (p0 & <- & Hp0).
    unfold norm_param in Em. cbn [p_mut] in Em. cbn [norm_param p_opt].
    destruct (p_mut p0) as [m0|] eqn:Em0; [|discriminate]. apply (Hmut p0 m0 Hp0 Em0). }
  change (map clear_mut L) with ([] ++ map clear_mut L).
  erewrite (apply_mutators_all _ _ _ L [] HndL HstL HsstL HoptL); [|reflexivity].
  cbn [app].
  unfold norm_fsig, norm_sig. cbn [f_sig f_exc]. fold L.
  destruct (self_mutated c s) eqn:Hself.
  - (* self gets the implicit mutation *)
    specialize (Hselfopt eq_refl).
    unfold self_mutated in Hself. unfold L in *. destruct (s_params s) as [|p0 pr] eqn:Epar; [discriminate|].
    cbn [map] in *.
    apply andb_true_iff in Hself. destruct Hself as [Hself _]. apply andb_true_iff in Hself. destruct Hself as [Hname _].
    apply N.eqb_eq in Hname.
    cbn [apply_mutators].
    assert (Ename: id_self = p_name (norm_param c p0)) by (cbn [norm_param p_name]; symmetry; exact Hname).
    rewrite Ename.
    cbn [app] in HndL. inversion HndL as [|? ? Hnot _]; subst.
    rewrite (apply_mutator_hit [] (norm_param c p0) (map (norm_param c) pr)).
    + cbn [app s_params s_star s_sstar s_ret]. unfold with_mut.
      destruct (s_star s), (s_sstar s); reflexivity.
    + intros [].
    + exact Hnot.
    + cbn [norm_param p_opt]. exact Hselfopt.
    + intros x Hx Heq. apply (HstL x Hx). cbn [app map]. left. symmetry. exact Heq.
    + intros x Hx Heq. apply (HsstL x Hx). cbn [app map]. left. symmetry. exact Heq.
  - cbn [apply_mutators s_params s_star s_sstar s_ret].
    destruct L; destruct (s_star s), (s_sstar s); reflexivity.
Qed.

Lemma lines_start : forall c ps excs, line_start (mut_lines c ps ++ raise_lines c excs).
Proof.
  intros c ps excs. unfold mut_lines. induction ps as [|p r IH]; [apply raise_lines_start|].
  cbn [flat_map]. destruct (p_mut p); [exact I|exact IH].
Qed.

Lemma lines_nil : forall c ps excs, mut_lines c ps ++ raise_lines c excs = [] ->
  mut_exprs c ps ++ exc_exprs c excs = [].
Proof.
  intros c ps excs H. apply app_eq_nil in H. destruct H as [H1 H2].
  assert (E1: mut_exprs c ps = []).
  { unfold mut_lines, mut_exprs in *. induction ps as [|p r IH]; [reflexivity|].
    cbn [flat_map] in *. destruct (p_mut p); [discriminate|]. cbn [app] in *. apply IH. exact H1. }
  assert (E2: exc_exprs c excs = []).
  { destruct excs; [reflexivity|discriminate]. }
  rewrite E1, E2. reflexivity.
Qed.

Theorem parse_fsig_print_lemma : forall env scope c nm f, wf_fsig env scope c f = true ->
  parse_fsig env nm (print_fsig c f) = Some (norm_fsig c nm f).
Proof.
  intros env scope c nm f H. pose proof H as H0. unfold wf_fsig in H0.
  apply andb_true_iff in H0. destruct H0 as [Hwf Hex].
  destruct (sig_head_items env scope c (f_sig f) Hwf) as (Eh & Wi & Wr & _).
  destruct (wf_sig_more env scope c (f_sig f) Hwf) as (Hmut & _ & _).
  unfold print_fsig. rewrite Eh. cbn [app]. repeat (rewrite <- app_assoc; cbn [app]).
  rewrite (parse_fsig_tokens env nm _ _ _ Wi Wr).
  pose proof (sem_fsig_print env scope c nm f H) as Hsem.
  unfold print_fbody.
  destruct (mut_lines c (s_params (f_sig f)) ++ raise_lines c (f_exc f)) as [|t0 r0] eqn:El.
  - cbn [parse_fbody_top]. rewrite (lines_nil _ _ _ El) in Hsem. exact Hsem.
  - pose proof (lines_start c (s_params (f_sig f)) (f_exc f)) as Hs. rewrite El in Hs.
    destruct t0; cbn in Hs; try contradiction.
    unfold parse_fbody_top. rewrite <- El.
    rewrite (parse_fbody_print env c (f_exc f) (s_params (f_sig f))); [exact Hsem | | exact Hex | lia].
    intros p m Hp Em. apply (Hmut p m Hp Em).
Qed.

(* ------------------------------------------------------------------------------------------------ *)
(* suites: generic lemmas about suite_loop *)

Section Suite.
Variable pl : list N -> list token -> option lres.
Variable pc : list N -> stmt -> option cls.

Lemma suite_app : forall ss1 pend l1 ss2 l2,
  suite_loop pl pc pend ss1 = Some l1 -> suite_loop pl pc [] ss2 = Some l2 ->
  suite_loop pl pc pend (ss1 ++ ss2) = Some (l1 ++ l2).
Proof.
  induction ss1 as [|s r IH]; intros pend l1 ss2 l2 H1 H2.
  - cbn in H1. destruct pend; [|discriminate]. injection H1 as <-. exact H2.
  - destruct s as [ts| |h b].
    + cbn [app suite_loop] in *. destruct (pl pend ts) as [[p|d]|]; [| |discriminate].
      * apply (IH p l1 ss2 l2 H1 H2).
      * destruct (suite_loop pl pc [] r) as [l|] eqn:El; [|discriminate]. injection H1 as <-.
        rewrite (IH [] l ss2 l2 El H2). reflexivity.
    + cbn [app suite_loop] in *. apply (IH pend l1 ss2 l2 H1 H2).
    + cbn [app suite_loop] in *. destruct (pc pend (SClass h b)) as [c|]; [|discriminate].
      destruct (suite_loop pl pc [] r) as [l|] eqn:El; [|discriminate]. injection H1 as <-.
      rewrite (IH [] l ss2 l2 El H2). reflexivity.
Qed.

Lemma suite_decos : forall ds pend X,
  (forall d p, pl p (deco_line d) = Some (LPend (p ++ [d]))) ->
  suite_loop pl pc pend (map (fun d => SLine (deco_line d)) ds ++ X) = suite_loop pl pc (pend ++ ds) X.
Proof.
  induction ds as [|d r IH]; intros pend X H.
  - rewrite app_nil_r. reflexivity.
  - cbn [map app suite_loop]. rewrite H. rewrite IH by exact H. rewrite <- app_assoc. reflexivity.
Qed.

Lemma suite_items : forall (lines : list (list token)) (items : list ditem),
  Forall2 (fun ts d => pl [] ts = Some (LItem d)) lines items ->
  suite_loop pl pc [] (map SLine lines) = Some items.
Proof.
  intros lines items H. induction H as [|ts d lines items Hd _ IH]; [reflexivity|].
  cbn [map suite_loop]. rewrite Hd, IH. reflexivity.
Qed.

Lemma suite_blank : forall ss pend, suite_loop pl pc pend (SBlank :: ss) = suite_loop pl pc pend ss.
Proof. reflexivity. Qed.

Lemma suite_join_blank : forall secs ls,
  Forall2 (fun ss l => suite_loop pl pc [] ss = Some l) secs ls ->
  suite_loop pl pc [] (join_blank secs) = Some (concat ls).
Proof.
  intros secs ls H. induction H as [|ss l secs ls Hs Hr IH]; [reflexivity|].
  destruct secs as [|s2 r2].
  - inversion Hr; subst. cbn [join_blank concat]. rewrite app_nil_r. exact Hs.
  - change (join_blank (ss :: s2 :: r2)) with (ss ++ SBlank :: join_blank (s2 :: r2)).
    cbn [concat]. apply suite_app; [exact Hs|]. rewrite suite_blank. exact IH.
Qed.
End Suite.

(* ------------------------------------------------------------------------------------------------ *)
(* functions: decorator lines, def lines, overload merging *)

Section Fixed.
Variable fixed : bool.


Lemma parse_line_deco : forall env scope ic p d,
  parse_line env scope ic p (deco_line d) = Some (LPend (p ++ [d])).
Proof. reflexivity. Qed.

Lemma print_fsig_head : forall c f, exists r, print_fsig c f = TLPar :: r.
Proof. intros. unfold print_fsig, sig_head. eexists. cbn [app]. reflexivity. Qed.

Definition rest_decos (f : func) : list N := filter (fun d => negb (is_flag_deco d)) ((printed_decos fixed) f).
Definition rdef_of (c : ctx) (f : func) (s : fsig) : rdef :=
  mkRD (fn_name f) (norm_fsig c (fn_name f) s) (rest_decos f)
       (mem id_abstractmethod ((printed_decos fixed) f)) (mem id_coroutine ((printed_decos fixed) f)) (mem id_final ((printed_decos fixed) f)).
Definition dfun_of (c : ctx) (f : func) : dfun :=
  mkDF (fn_name f) (map (norm_fsig c (fn_name f)) (fn_sigs f))
       (mem id_abstractmethod ((printed_decos fixed) f)) (mem id_coroutine ((printed_decos fixed) f)) (mem id_final ((printed_decos fixed) f))
       (rest_decos f) (mem id_property (rest_decos f)).

Lemma norm_func_dfun : forall c f, (norm_func fixed) c f = finish_df (dfun_of c f).
Proof. reflexivity. Qed.

Lemma wf_func_parts : forall env scope c f, (wf_func fixed) env scope c f = true ->
  decl_name env (fn_name f) = true /\ fn_sigs f <> [] /\ forallb (wf_fsig env scope c) (fn_sigs f) = true /\
  (decos_ok fixed) c f = true /\ verify_func scope ((norm_func fixed) c f) = true.
Proof.
  intros env scope c f H. unfold wf_func in H.
  apply andb_true_iff in H. destruct H as [H H5]. apply andb_true_iff in H. destruct H as [H H4].
  apply andb_true_iff in H. destruct H as [H H3]. apply andb_true_iff in H. destruct H as [H1 H2].
  repeat split; try assumption. destruct (fn_sigs f); [discriminate|discriminate].
Qed.

Lemma parse_line_def : forall env scope sc ic c f s,
  (wf_func fixed) env sc c f = true -> In s (fn_sigs f) ->
  parse_line env scope ic ((printed_decos fixed) f) (print_def c (fn_name f) s) = Some (LItem (DDef (rdef_of c f s))).
Proof.
  intros env scope sc ic c f s H Hs.
  destruct (wf_func_parts env sc c f H) as (Hn & _ & Hsig & Hd & _).
  rewrite forallb_forall in Hsig. specialize (Hsig s Hs).
  destruct (decl_name_parts env _ Hn) as [Hres _]. destruct (reserved_parts _ Hres) as (Hdef & _).
  unfold print_def. destruct (print_fsig_head c s) as (r & Er).
  unfold parse_line. rewrite Er. change (id_def =? id_def)%N with true. cbv iota. rewrite <- Er.
  rewrite (parse_fsig_print_lemma env sc c (fn_name f) s Hsig).
  unfold mk_rdef. fold (rest_decos f).
  unfold decos_ok in Hd. fold (rest_decos f) in Hd. apply andb_true_iff in Hd. destruct Hd as [Hc _].
  assert (E: (1 <? count_distinct_kinds (rest_decos f))%nat = false).
  { apply Nat.ltb_ge. apply Nat.leb_le in Hc. exact Hc. }
  rewrite E. reflexivity.
Qed.

(* the lines of one function, inside any suite *)
Lemma suite_func : forall env scope sc ic pc c f X l,
  (wf_func fixed) env sc c f = true ->
  suite_loop (parse_line env scope ic) pc [] X = Some l ->
  suite_loop (parse_line env scope ic) pc [] (map SLine ((print_func fixed) c f) ++ X) =
    Some (map (fun s => DDef (rdef_of c f s)) (fn_sigs f) ++ l).
Proof.
  intros env scope sc ic pc c f X l H HX. unfold print_func.
  assert (G: forall sigs, (forall s, In s sigs -> In s (fn_sigs f)) ->
    suite_loop (parse_line env scope ic) pc []
      (map SLine (flat_map (fun s => map deco_line ((printed_decos fixed) f) ++ [print_def c (fn_name f) s]) sigs) ++ X) =
    Some (map (fun s => DDef (rdef_of c f s)) sigs ++ l)).
  { induction sigs as [|s r IH]; intros Hin; [exact HX|].
    cbn [flat_map]. rewrite !map_app. rewrite map_map. cbn [map]. rewrite <- !app_assoc.
    rewrite suite_decos by (intros; apply parse_line_deco).
    cbn [map app suite_loop].
    rewrite (parse_line_def env scope sc ic c f s H (Hin s (or_introl eq_refl))).
    rewrite IH by (intros s' Hs'; apply Hin; right; exact Hs'). reflexivity. }
  apply G. auto.
Qed.

(* ---- overload merging ---- *)

Lemma add_def_new : forall d acc,
  (forall a, In a acc -> (df_name a =? rd_name d)%N = false) ->
  add_def acc d = match make_df d with Some x => Some (acc ++ [x]) | None => None end.
Proof.
  intros d. induction acc as [|a r IH]; intros H; [reflexivity|].
  cbn [add_def]. rewrite (H a (or_introl eq_refl)). rewrite IH by (intros x Hx; apply H; right; exact Hx).
  destruct (make_df d); reflexivity.
Qed.

Lemma add_def_last : forall d a acc,
  (forall x, In x acc -> (df_name x =? rd_name d)%N = false) -> (df_name a =? rd_name d)%N = true ->
  add_def (acc ++ [a]) d = match add_overload a d with Some a' => Some (acc ++ [a']) | None => None end.
Proof.
  intros d a. induction acc as [|x r IH]; intros H Ha.
  - cbn [app add_def]. rewrite Ha. destruct (add_overload a d); reflexivity.
  - cbn [app add_def]. rewrite (H x (or_introl eq_refl)). rewrite IH; [|intros y Hy; apply H; right; exact Hy|exact Ha].
    destruct (add_overload a d); reflexivity.
Qed.

Lemma existsb_filter_nil : forall (f : N -> bool) l, existsb f l = negb (is_nil (filter f l)).
Proof. induction l as [|x r IH]; [reflexivity|]. cbn. destruct (f x); [reflexivity|exact IH]. Qed.

Lemma eqb_refl_b : forall b, Bool.eqb b b = true. Proof. destruct b; reflexivity. Qed.

Lemma merge_overloads : forall c f tail acc rs sigs0,
  (forall x, In x acc -> (df_name x =? fn_name f)%N = false) ->
  merge_defs (acc ++ [mkDF (fn_name f) sigs0 (mem id_abstractmethod ((printed_decos fixed) f)) (mem id_coroutine ((printed_decos fixed) f))
                           (mem id_final ((printed_decos fixed) f)) (rest_decos f) false])
             (map (rdef_of c f) rs ++ tail) =
  merge_defs (acc ++ [mkDF (fn_name f) (sigs0 ++ map (norm_fsig c (fn_name f)) rs) (mem id_abstractmethod ((printed_decos fixed) f))
                           (mem id_coroutine ((printed_decos fixed) f)) (mem id_final ((printed_decos fixed) f)) (rest_decos f) false])
             tail.
Proof.
  intros c f tail acc. induction rs as [|s r IH]; intros sigs0 Hacc.
  - cbn [map app]. rewrite app_nil_r. reflexivity.
  - cbn [map app merge_defs]. set (R := map (rdef_of c f) r).
    rewrite add_def_last; [|exact Hacc|cbn; apply N.eqb_refl].
    unfold add_overload, rdef_of. cbn [df_prop df_cor df_fin df_abs df_decos rd_cor rd_fin rd_abs rd_decos df_name df_sigs rd_fsig].
    rewrite !eqb_refl_b. cbn [andb]. subst R.
    rewrite (IH (sigs0 ++ [norm_fsig c (fn_name f) s]) Hacc). rewrite <- app_assoc. reflexivity.
Qed.

Lemma merge_func : forall c f tail acc,
  (decos_ok fixed) c f = true -> fn_sigs f <> [] ->
  (forall x, In x acc -> (df_name x =? fn_name f)%N = false) ->
  merge_defs acc (map (rdef_of c f) (fn_sigs f) ++ tail) = merge_defs (acc ++ [dfun_of c f]) tail.
Proof.
  intros c f tail acc Hd Hne Hacc. unfold dfun_of.
  unfold decos_ok in Hd. fold (rest_decos f) in Hd. apply andb_true_iff in Hd. destruct Hd as [_ Hp].
  destruct (fn_sigs f) as [|s1 rs] eqn:Es; [congruence|].
  cbn [map app merge_defs].
  rewrite add_def_new by exact Hacc.
  unfold make_df. cbn [rdef_of rd_decos rd_name rd_fsig rd_abs rd_cor rd_fin].
  assert (Emem: mem id_property (rest_decos f) = negb (is_nil (filter (N.eqb id_property) (rest_decos f)))) by apply existsb_filter_nil.
  rewrite Emem.
  destruct (filter (N.eqb id_property) (rest_decos f)) as [|x [|y z]] eqn:Ef.
  - cbn [is_nil negb]. rewrite (merge_overloads c f tail acc rs [norm_fsig c (fn_name f) s1] Hacc). reflexivity.
  - destruct rs as [|s2 rs']; [|discriminate]. rewrite Hp. cbn [map app is_nil negb]. reflexivity.
  - discriminate.
Qed.

Definition func_defs (c : ctx) (fs : list func) : list rdef := flat_map (fun f => map (rdef_of c f) (fn_sigs f)) fs.

Lemma merge_all : forall c fs acc,
  (forall f, In f fs -> (decos_ok fixed) c f = true /\ fn_sigs f <> []) ->
  NoDup (map df_name acc ++ map fn_name fs) ->
  merge_defs acc (func_defs c fs) = Some (acc ++ map (dfun_of c) fs).
Proof.
  intros c. induction fs as [|f r IH]; intros acc H Hnd.
  - cbn. rewrite app_nil_r. reflexivity.
  - unfold func_defs. cbn [flat_map]. fold (func_defs c r).
    destruct (H f (or_introl eq_refl)) as [Hd Hne].
    rewrite merge_func; [|exact Hd|exact Hne|].
    + rewrite IH.
      * cbn [map]. rewrite <- app_assoc. reflexivity.
      * intros g Hg. apply H. right. exact Hg.
      * rewrite map_app. cbn [map dfun_of df_name]. rewrite <- app_assoc. exact Hnd.
    + intros x Hx. apply N.eqb_neq. intro Heq. cbn [map] in Hnd. apply NoDup_remove_2 in Hnd. apply Hnd.
      apply in_or_app. left. rewrite <- Heq. apply in_map. exact Hx.
Qed.

Lemma merge_funcs_print : forall c fs,
  (forall f, In f fs -> (decos_ok fixed) c f = true /\ fn_sigs f <> []) -> NoDup (map fn_name fs) ->
  merge_funcs (func_defs c fs) = Some (map ((norm_func fixed) c) fs).
Proof.
  intros c fs H Hnd. unfold merge_funcs. rewrite (merge_all c fs [] H Hnd). cbn [app]. rewrite map_map. reflexivity.
Qed.

(* ------------------------------------------------------------------------------------------------ *)
(* class headers *)

Definition arg_end (ts : list token) : Prop := match ts with TComma :: _ | TRPar :: _ => True | _ => False end.
Lemma arg_end_ok : forall ts, arg_end ts -> starts_ok ts /\ no_eq_head ts.
Proof. intros [|[] ?]; cbn; auto. Qed.

Lemma sep_length : forall (l : list (list token)), length l <= S (length (sep l)).
Proof.
  induction l as [|x [|y r] IH]; cbn [length]; [lia|cbn; lia|].
  rewrite sep_cons2. rewrite app_length. cbn [length] in *. lia.
Qed.

Lemma parse_cargs_sep : forall (l : list (list token * carg)) tail,
  l <> [] ->
  (forall ts a, In (ts, a) l -> forall rest, arg_end rest -> parse_carg (ts ++ rest) = Some (a, rest)) ->
  forall fuel, length l <= fuel ->
  parse_cargs fuel (sep (map fst l) ++ TRPar :: tail) = Some (map snd l, TRPar :: tail).
Proof.
  induction l as [|[ts a] r IH]; intros tail Hne H fuel Hf; [congruence|].
  destruct fuel as [|f]; [cbn in Hf; lia|]. cbn [parse_cargs].
  destruct r as [|[ts2 a2] r2].
  - cbn [map fst snd]. rewrite sep_single. rewrite (H ts a (or_introl eq_refl)); [reflexivity|exact I].
  - cbn [map fst snd]. rewrite sep_cons2. rewrite <- app_assoc. cbn [app].
    rewrite (H ts a (or_introl eq_refl)); [|exact I].
    change (ts2 :: map fst r2) with (map fst ((ts2, a2) :: r2)).
    rewrite (IH tail); [reflexivity | discriminate | | cbn [length] in *; lia].
    intros ts' a' Hin. apply H. right. exact Hin.
Qed.

Definition kept_bases (c : ctx) (bases : list ty) : list ty :=
  match bases with
  | [b] => if tokens_eqb (print_ty (ctx_plain c) b) [TName id_object] then [] else [b]
  | l => l
  end.
Definition kw_expr (c : ctx) (kv : N * ty) : expr :=
  match snd kv with Lit (LBool _ b) => EBool b | t => to_expr (ctx_plain c) t end.
Definition header_args (c : ctx) (cl : cls) : list (list token * carg) :=
  map (fun t => (print_ty (ctx_plain c) t, CBase (to_expr (ctx_plain c) t))) (kept_bases c (c_bases cl))
  ++ map (fun kv => (print_kw c kv, CKw (fst kv) (kw_expr c kv))) (c_kws cl).

Lemma parse_carg_base : forall env c t rest, wf env t = true -> arg_end rest ->
  parse_carg (print_ty c t ++ rest) = Some (CBase (to_expr c t), rest).
Proof.
  intros env c t rest Hw He. destruct (arg_end_ok rest He) as [Hs Hn]. unfold parse_carg.
  rewrite (is_kwarg_print env c t rest Hw Hn). rewrite (parse_expr_print_S env c t rest Hw Hs). reflexivity.
Qed.

Lemma parse_carg_kw : forall env c kv rest, wf_kw env kv = true -> arg_end rest ->
  parse_carg (print_kw c kv ++ rest) = Some (CKw (fst kv) (kw_expr c kv), rest) /\
  conv_kw env (fst kv) (kw_expr c kv) = Some (norm_kw c kv).
Proof.
  intros env c [k t] rest Hw He. destruct (arg_end_ok rest He) as [Hs Hn].
  unfold wf_kw in Hw. cbn [fst snd] in *. unfold print_kw, kw_expr, norm_kw, parse_carg. cbn [fst snd].
  destruct t as [n| | | |v| | | | |]; try discriminate.
  - apply andb_true_iff in Hw. destruct Hw as [Hw Hnn]. apply andb_true_iff in Hw. destruct Hw as [Hk Hwn].
    apply N.eqb_eq in Hk. subst k. apply negb_true_iff in Hnn.
    cbn [print_ty]. unfold print_name. rewrite Hnn. cbn [match_literal app is_kwarg].
    assert (Hwt: wf env (Named n) = true) by exact Hwn.
    pose proof (parse_expr_print_S env (ctx_plain c) (Named n) rest Hwt Hs) as HP.
    cbn [print_ty] in HP. unfold print_name in HP. rewrite Hnn in HP. cbn [app] in HP. rewrite HP.
    split; [reflexivity|]. unfold conv_kw. change (id_metaclass =? id_metaclass)%N with true. cbv iota.
    rewrite (conv_to_expr env (ctx_plain c) (Named n) Hwt). reflexivity.
  - destruct v as [|ic b| |]; try discriminate. apply N.eqb_eq in Hw. subst k.
    split.
    + destruct b; destruct rest as [|[] ?]; cbn in He; try contradiction; reflexivity.
    + reflexivity.
Qed.

Lemma kept_bases_print : forall c bases,
  match map (print_ty (ctx_plain c)) bases with
  | [b] => if tokens_eqb b [TName id_object] then [] else map (print_ty (ctx_plain c)) bases
  | _ => map (print_ty (ctx_plain c)) bases
  end = map (print_ty (ctx_plain c)) (kept_bases c bases).
Proof.
  intros c [|b [|b2 r]]; cbn [map kept_bases]; try reflexivity.
  destruct (tokens_eqb (print_ty (ctx_plain c) b) [TName id_object]); reflexivity.
Qed.

Lemma norm_bases_kept : forall c nm bases,
  norm_bases c nm bases = final_bases nm (map (norm (ctx_plain c)) (kept_bases c bases)).
Proof.
  intros c nm [|b [|b2 r]]; unfold norm_bases; cbn [map kept_bases]; reflexivity.
Qed.

Lemma cargs_split : forall (B : list expr) (K : list (N * expr)),
  cargs_bases (map CBase B ++ map (fun ke => CKw (fst ke) (snd ke)) K) = B /\
  cargs_kws (map CBase B ++ map (fun ke => CKw (fst ke) (snd ke)) K) = K.
Proof.
  intros B K. unfold cargs_bases, cargs_kws. rewrite !flat_map_app. split.
  - assert (E2: flat_map (fun a => match a with CBase e => [e] | CKw _ _ => [] end) (map (fun ke => CKw (fst ke) (snd ke)) K) = [])
      by (induction K as [|x r IH]; [reflexivity|exact IH]).
    rewrite E2, app_nil_r. induction B as [|x r IH]; [reflexivity|]. cbn. f_equal. exact IH.
  - assert (E1: flat_map (fun a => match a with CKw k e => [(k, e)] | CBase _ => [] end) (map CBase B) = [])
      by (induction B as [|x r IH]; [reflexivity|exact IH]).
    rewrite E1. cbn [app]. induction K as [|[k e] r IH]; [reflexivity|]. cbn. f_equal. exact IH.
Qed.

Lemma class_header_parse : forall env c cl hb,
  forallb (wf_base env) (c_bases cl) = true -> forallb (wf_kw env) (c_kws cl) = true ->
  parse_class_header env (class_header c cl hb) =
    Some (c_name cl, map (norm (ctx_plain c)) (kept_bases c (c_bases cl)), map (norm_kw c) (c_kws cl), negb hb).
Proof.
  intros env c cl hb Hb Hk. unfold class_header. rewrite kept_bases_print.
  set (KB := kept_bases c (c_bases cl)).
  assert (HKB: forall t, In t KB -> wf env t = true).
  { intros t Ht. rewrite forallb_forall in Hb.
    assert (In t (c_bases cl)).
    { unfold KB, kept_bases in Ht. destruct (c_bases cl) as [|b [|b2 r]]; [exact Ht| |exact Ht].
      destruct (tokens_eqb _ _); [destruct Ht|exact Ht]. }
    specialize (Hb t H). unfold wf_base in Hb. apply andb_true_iff in Hb. apply Hb. }
  set (B := map (to_expr (ctx_plain c)) KB). set (K := map (fun kv => (fst kv, kw_expr c kv)) (c_kws cl)).
  assert (Hconv: mapM (conv env) B = Some (map (norm (ctx_plain c)) KB)).
  { unfold B. apply mapM_map. intros t Ht. apply conv_to_expr. apply HKB. exact Ht. }
  assert (Hkws: mapM (fun ke => conv_kw env (fst ke) (snd ke)) K = Some (map (norm_kw c) (c_kws cl))).
  { unfold K. apply mapM_map. intros kv Hkv. cbn [fst snd]. rewrite forallb_forall in Hk.
    apply (parse_carg_kw env c kv [TRPar] (Hk kv Hkv) I). }
  unfold parse_class_header. change (id_class =? id_class)%N with true. cbv iota.
  assert (Eargs: map (print_ty (ctx_plain c)) KB ++ map (print_kw c) (c_kws cl) = map fst (header_args c cl)).
  { unfold header_args. fold KB. rewrite map_app, !map_map. reflexivity. }
  assert (Esnd: map snd (header_args c cl) = map CBase B ++ map (fun ke => CKw (fst ke) (snd ke)) K).
  { unfold header_args, B, K. fold KB. rewrite map_app, !map_map. reflexivity. }
  rewrite Eargs.
  destruct (header_args c cl) as [|a0 ar] eqn:Eh.
  - cbn [map]. cbn [app].
    assert (B = [] /\ K = []).
    { cbn [map] in Esnd. symmetry in Esnd. apply app_eq_nil in Esnd. destruct Esnd as [E1 E2].
      split; [destruct B; [reflexivity|discriminate] | destruct K; [reflexivity|discriminate]]. }
    destruct H as [EB EK]. rewrite EB in Hconv. rewrite EK in Hkws.
    cbn [cargs_bases cargs_kws flat_map]. rewrite Hconv, Hkws.
    destruct hb; reflexivity.
  - cbn [map]. cbn [app]. rewrite <- app_assoc. cbn [app].
    change (fst a0 :: map fst ar) with (map fst (a0 :: ar)).
    rewrite (parse_cargs_sep (a0 :: ar) (TColon :: (if hb then [] else [TEllipsis]))).
    + rewrite Esnd. destruct (cargs_split B K) as [E1 E2]. rewrite E1, E2. rewrite Hconv, Hkws.
      destruct hb; reflexivity.
    + discriminate.
    + intros ts a Hin rest Hr. rewrite <- Eh in Hin. unfold header_args in Hin. apply in_app_or in Hin. destruct Hin as [Hin|Hin].
      * apply in_map_iff in Hin. destruct Hin as (t & Et & Ht). injection Et as <- <-.
        apply (parse_carg_base env); [apply HKB; exact Ht|exact Hr].
      * apply in_map_iff in Hin. destruct Hin as (kv & Et & Hkv). injection Et as <- <-.
        rewrite forallb_forall in Hk. apply (parse_carg_kw env c kv rest (Hk kv Hkv) Hr).
    + pose proof (sep_length (map fst (a0 :: ar))) as HL. rewrite map_length in HL.
      rewrite app_length. cbn [length] in *. lia.
Qed.

(* ------------------------------------------------------------------------------------------------ *)
(* classes *)

Section ClsInd.
  Variable P : cls -> Prop.
  Hypothesis H : forall n b k d s cs ks ms, Forall P cs -> P (mkCls n b k d s cs ks ms).
  Fixpoint cls_ind' (c : cls) : P c :=
    match c with
    | mkCls n b k d s cs ks ms =>
        H n b k d s cs ks ms
          ((fix go (l : list cls) : Forall P l :=
              match l with [] => Forall_nil P | x :: r => Forall_cons x (cls_ind' x) (go r) end) cs)
    end.
End ClsInd.

Definition class_items (cl : cls) : list ditem :=
  let c := mkCtx false (Some (c_name cl)) in
  (match c_slots cl with Some sl => [DSlots sl] | None => [] end)
  ++ map DCls (map (norm_cls fixed) (c_classes cl))
  ++ map DConst (map (norm_const c) (c_consts cl))
  ++ flat_map (fun f => map (fun s => DDef (rdef_of c f s)) (fn_sigs f)) (c_methods cl).

Lemma items_of_classes : forall l, item_consts (map DCls l) = [] /\ item_slots (map DCls l) = [] /\
  item_defs (map DCls l) = [] /\ item_classes (map DCls l) = l /\ item_aliases (map DCls l) = [] /\ item_tvars (map DCls l) = [].
Proof. induction l as [|x r (A & B & C & D & E & F)]; cbn; repeat split; try assumption; try reflexivity. f_equal. exact D. Qed.
Lemma items_of_consts : forall l, item_consts (map DConst l) = l /\ item_slots (map DConst l) = [] /\
  item_defs (map DConst l) = [] /\ item_classes (map DConst l) = [] /\ item_aliases (map DConst l) = [] /\ item_tvars (map DConst l) = [].
Proof. induction l as [|x r (A & B & C & D & E & F)]; cbn; repeat split; try assumption; try reflexivity. f_equal. exact A. Qed.
Lemma items_of_aliases : forall l, item_consts (map DAlias l) = [] /\ item_slots (map DAlias l) = [] /\
  item_defs (map DAlias l) = [] /\ item_classes (map DAlias l) = [] /\ item_aliases (map DAlias l) = l /\ item_tvars (map DAlias l) = [].
Proof. induction l as [|x r (A & B & C & D & E & F)]; cbn; repeat split; try assumption; try reflexivity. f_equal. exact E. Qed.
Lemma items_of_tvars : forall l, item_consts (map DTvar l) = [] /\ item_slots (map DTvar l) = [] /\
  item_defs (map DTvar l) = [] /\ item_classes (map DTvar l) = [] /\ item_aliases (map DTvar l) = [] /\ item_tvars (map DTvar l) = l.
Proof. induction l as [|x r (A & B & C & D & E & F)]; cbn; repeat split; try assumption; try reflexivity. f_equal. exact F. Qed.
Lemma items_of_defs : forall c fs,
  let l := flat_map (fun f => map (fun s => DDef (rdef_of c f s)) (fn_sigs f)) fs in
  item_consts l = [] /\ item_slots l = [] /\ item_defs l = func_defs c fs /\ item_classes l = [] /\
  item_aliases l = [] /\ item_tvars l = [].
Proof.
  intros c fs. cbn zeta. unfold item_consts, item_slots, item_defs, item_classes, item_aliases, item_tvars, func_defs.
  induction fs as [|f r (A & B & C & D & E & F)]; [repeat split; reflexivity|].
  cbn [flat_map]. rewrite !flat_map_app. rewrite A, B, C, D, E, F.
  assert (G: forall (sigs : list fsig),
    flat_map (fun x => match x with DConst k => [k] | _ => [] end) (map (fun s => DDef (rdef_of c f s)) sigs) = [] /\
    flat_map (fun x => match x with DSlots k => [k] | _ => [] end) (map (fun s => DDef (rdef_of c f s)) sigs) = [] /\
    flat_map (fun x => match x with DDef k => [k] | _ => [] end) (map (fun s => DDef (rdef_of c f s)) sigs) = map (rdef_of c f) sigs /\
    flat_map (fun x => match x with DCls k => [k] | _ => [] end) (map (fun s => DDef (rdef_of c f s)) sigs) = [] /\
    flat_map (fun x => match x with DAlias k => [k] | _ => [] end) (map (fun s => DDef (rdef_of c f s)) sigs) = [] /\
    flat_map (fun x => match x with DTvar k => [k] | _ => [] end) (map (fun s => DDef (rdef_of c f s)) sigs) = []).
  { induction sigs as [|s sr (A' & B' & C' & D' & E' & F')]; cbn; repeat split; try assumption; try reflexivity. f_equal. exact C'. }
  destruct (G (fn_sigs f)) as (A' & B' & C' & D' & E' & F'). rewrite A', B', C', D', E', F'. repeat split; reflexivity.
Qed.

Lemma forallb_dedup : forall (P : N -> bool) l, forallb P l = true -> forallb P (dedup N.eqb l) = true.
Proof.
  intros P. induction l as [|x r IH]; intros H; [reflexivity|].
  cbn in H. apply andb_true_iff in H. destruct H as [Hx Hr]. cbn [dedup forallb]. rewrite Hx. cbn [andb].
  specialize (IH Hr). rewrite forallb_forall in *. intros y Hy. apply filter_In in Hy. apply IH. apply Hy.
Qed.

Lemma wf_cls_unfold : forall env scope nested nm bases kws decos slots classes consts methods,
  (wf_cls fixed) env scope nested (mkCls nm bases kws decos slots classes consts methods) = true ->
  let c := mkCtx false (Some nm) in
  let sc := scope ++ flat_map tparams (norm_bases c nm bases) in
  decl_name env nm = true /\ forallb (wf_base env) bases = true /\ forallb (wf_kw env) kws = true /\
  forallb (fun d => negb (nonclass_deco d) && negb (reserved_word d)) decos = true /\
  forallb (wf_const env) consts = true /\ forallb (fun k => negb (k_name k =? id_slots)%N) consts = true /\
  forallb ((wf_func fixed) env sc c) methods = true /\
  nodup_by N.eqb (map k_name consts ++ map fn_name methods) = true /\
  forallb ((wf_cls fixed) env sc true) classes = true.
Proof.
  intros env scope nested nm bases kws decos slots classes consts methods H. cbn zeta. cbn [wf_cls] in H.
  apply andb_true_iff in H; destruct H as [H H10]. apply andb_true_iff in H; destruct H as [H H9].
  apply andb_true_iff in H; destruct H as [H H8]. apply andb_true_iff in H; destruct H as [H H7].
  apply andb_true_iff in H; destruct H as [H H6]. apply andb_true_iff in H; destruct H as [H H5].
  apply andb_true_iff in H; destruct H as [H H4]. apply andb_true_iff in H; destruct H as [H H3].
  apply andb_true_iff in H; destruct H as [H1 H2].
  repeat split; assumption.
Qed.

Lemma class_items_proj : forall cl,
  let c := mkCtx false (Some (c_name cl)) in
  item_consts (class_items cl) = map (norm_const c) (c_consts cl) /\
  item_slots (class_items cl) = match c_slots cl with Some sl => [sl] | None => [] end /\
  item_defs (class_items cl) = func_defs c (c_methods cl) /\
  item_classes (class_items cl) = map (norm_cls fixed) (c_classes cl).
Proof.
  intros cl. cbn zeta. unfold class_items.
  destruct (items_of_classes (map (norm_cls fixed) (c_classes cl))) as (A1 & B1 & C1 & D1 & _).
  destruct (items_of_consts (map (norm_const (mkCtx false (Some (c_name cl)))) (c_consts cl))) as (A2 & B2 & C2 & D2 & _).
  destruct (items_of_defs (mkCtx false (Some (c_name cl))) (c_methods cl)) as (A3 & B3 & C3 & D3 & _).
  unfold item_consts, item_slots, item_defs, item_classes in *.
  rewrite !flat_map_app. rewrite A1, A2, A3, B1, B2, B3, C1, C2, C3, D1, D2, D3.
  destruct (c_slots cl); cbn [flat_map app]; rewrite ?app_nil_r; repeat split; reflexivity.
Qed.

Lemma existsb_forallb_neg : forall {A} (P : A -> bool) l, forallb (fun x => negb (P x)) l = true -> existsb P l = false.
Proof. induction l as [|x r IH]; intros H; [reflexivity|]. cbn in *. apply andb_true_iff in H. destruct H as [Hx Hr].
  apply negb_true_iff in Hx. rewrite Hx. apply IH. exact Hr. Qed.

Lemma filter_all : forall {A} (P : A -> bool) l, forallb P l = true -> filter P l = l.
Proof. induction l as [|x r IH]; intros H; [reflexivity|]. cbn in *. apply andb_true_iff in H. destruct H as [Hx Hr].
  rewrite Hx. f_equal. apply IH. exact Hr. Qed.

Lemma func_defs_names : forall c fs d, In d (func_defs c fs) -> In (rd_name d) (map fn_name fs).
Proof.
  intros c fs d H. unfold func_defs in H. apply in_flat_map in H. destruct H as (f & Hf & Hd).
  apply in_map_iff in Hd. destruct Hd as (s & <- & _). cbn [rdef_of rd_name]. apply in_map. exact Hf.
Qed.

Lemma NoDup_app_r : forall {A} (a b : list A), NoDup (a ++ b) -> NoDup b.
Proof. induction a as [|x r IH]; intros b H; [exact H|]. cbn in H. inversion H; subst. apply IH. assumption. Qed.

Lemma NoDup_app_disj : forall {A} (a b : list A) x, NoDup (a ++ b) -> In x a -> In x b -> False.
Proof.
  induction a as [|y r IH]; intros b x H Ha Hb; [destruct Ha|].
  cbn in H. inversion H as [|? ? Hy Hr]; subst. destruct Ha as [->|Ha].
  - apply Hy. apply in_or_app. right. exact Hb.
  - apply (IH b x Hr Ha Hb).
Qed.

Lemma build_class_items : forall env scope nested cl, (wf_cls fixed) env scope nested cl = true ->
  let c := mkCtx false (Some (c_name cl)) in
  build_class scope (c_name cl) (map (norm (ctx_plain c)) (kept_bases c (c_bases cl))) (map (norm_kw c) (c_kws cl))
              (dedup N.eqb (c_decos cl)) (class_items cl) = Some ((norm_cls fixed) cl).
Proof.
  intros env scope nested cl Hwf. cbn zeta.
  destruct (class_items_proj cl) as (Ic & Is & Id & Icl). cbn zeta in *.
  destruct cl as [nm bases kws decos slots classes consts methods].
  destruct (wf_cls_unfold _ _ _ _ _ _ _ _ _ _ _ Hwf) as (Hn & Hb & Hk & Hdec & Hco & Hsl & Hm & Hnd & Hcl).
  cbn [c_name c_bases c_kws c_decos c_slots c_classes c_consts c_methods] in *.
  set (c := mkCtx false (Some nm)) in *.
  unfold build_class.
  assert (E1: existsb nonclass_deco (dedup N.eqb decos) = false).
  { apply existsb_forallb_neg. apply forallb_dedup. rewrite forallb_forall in *. intros d Hd.
    specialize (Hdec d Hd). apply andb_true_iff in Hdec. apply Hdec. }
  rewrite E1. rewrite Ic, Is, Id, Icl.
  assert (E2: filter (fun k => negb (k_name k =? id_slots)%N) (map (norm_const c) consts) = map (norm_const c) consts).
  { apply filter_all. rewrite forallb_forall in *. intros k Hk'. apply in_map_iff in Hk'. destruct Hk' as (k0 & <- & Hk0).
    cbn [norm_const k_name]. apply Hsl. exact Hk0. }
  rewrite E2.
  assert (Enames: map k_name (map (norm_const c) consts) = map k_name consts) by (rewrite map_map; reflexivity).
  destruct (nodup_by_app _ _ _ Hnd) as [Hnd1 Hnd2].
  pose proof (nodup_by_NoDup _ Hnd) as HND.
  assert (E3: negb (nodup_by N.eqb (map k_name (map (norm_const c) consts))) ||
              existsb (fun k => mem (k_name k) (map rd_name (func_defs c methods))) (map (norm_const c) consts) = false).
  { rewrite Enames, Hnd1. cbn [negb orb].
    destruct (existsb (fun k => mem (k_name k) (map rd_name (func_defs c methods))) (map (norm_const c) consts)) eqn:Ex; [|reflexivity]. exfalso.
    apply existsb_exists in Ex. destruct Ex as (k & Hk' & Hmem).
    apply in_map_iff in Hk'. destruct Hk' as (k0 & <- & Hk0). cbn [norm_const k_name] in Hmem.
    unfold mem in Hmem. apply existsb_exists in Hmem. destruct Hmem as (x & Hx & Hex). apply N.eqb_eq in Hex. subst x.
    apply in_map_iff in Hx. destruct Hx as (d & Ed & Hd). pose proof (func_defs_names c methods d Hd) as Hin. rewrite Ed in Hin.
    apply (NoDup_app_disj _ _ (k_name k0) HND); [apply in_map; exact Hk0 | exact Hin]. }
  assert (E4: merge_funcs (func_defs c methods) = Some (map ((norm_func fixed) c) methods)).
  { apply merge_funcs_print.
    - intros f Hf. rewrite forallb_forall in Hm. destruct (wf_func_parts _ _ _ _ (Hm f Hf)) as (_ & Hne & _ & Hd & _). auto.
    - apply (NoDup_app_r _ _ HND). }
  assert (Ebases: final_bases nm (map (norm (ctx_plain c)) (kept_bases c bases)) = norm_bases c nm bases)
    by (symmetry; apply norm_bases_kept).
  assert (E5: forallb (verify_func (scope ++ flat_map tparams (norm_bases c nm bases)))
                (filter (fun f => negb (const_property f)) (map ((norm_func fixed) c) methods)) = true).
  { rewrite forallb_forall. intros f Hf. apply filter_In in Hf. destruct Hf as [Hf _].
    apply in_map_iff in Hf. destruct Hf as (f0 & <- & Hf0). rewrite forallb_forall in Hm.
    destruct (wf_func_parts _ _ _ _ (Hm f0 Hf0)) as (_ & _ & _ & _ & Hv). exact Hv. }
  destruct slots as [sl|]; cbn [norm_cls c_name c_bases c_kws c_decos c_slots c_classes c_consts c_methods];
    fold c; rewrite E3, E4, Ebases, E5; reflexivity.
Qed.

(* ---- the lines of a class body ---- *)

Lemma parse_line_simple : forall env scope ic n t r, t = TColon \/ t = TEq ->
  parse_line env scope ic [] (TName n :: t :: r) =
  match parse_simple env ic (TName n :: t :: r) with Some d => Some (LItem d) | None => None end.
Proof. intros env scope ic n t r [->| ->]; reflexivity. Qed.

Lemma parse_line_const : forall env scope ic c k, wf_const env k = true ->
  parse_line env scope ic [] (print_const c k) = Some (LItem (DConst (norm_const c k))).
Proof.
  intros env scope ic c k H. pose proof (parse_simple_const env c ic k H) as P.
  unfold print_const in *. rewrite parse_line_simple by (left; reflexivity). rewrite P. reflexivity.
Qed.

Lemma parse_line_alias : forall env scope a, wf_alias env a = true ->
  parse_line env scope false [] (print_alias plain0 a) = Some (LItem (DAlias (norm_alias plain0 a))).
Proof.
  intros env scope a H. pose proof (parse_simple_alias env a H) as P.
  unfold print_alias in *. rewrite parse_line_simple by (right; reflexivity). rewrite P. reflexivity.
Qed.

Lemma parse_line_tparam : forall env scope t, wf_tparam env t = true ->
  parse_line env scope false [] (print_tparam plain0 t) = Some (LItem (DTvar (norm_tparam plain0 t))).
Proof.
  intros env scope t H. pose proof (parse_simple_tparam env t H) as P.
  unfold print_tparam in *. rewrite parse_line_simple by (right; reflexivity). rewrite P. reflexivity.
Qed.

Lemma str_args_map : forall sl, str_args (map EStr sl) = Some sl.
Proof. unfold str_args. induction sl as [|x r IH]; [reflexivity|]. cbn [map mapM] in *. rewrite IH. reflexivity. Qed.

Lemma parse_line_slots : forall env scope sl,
  parse_line env scope true [] (slots_line sl) = Some (LItem (DSlots sl)).
Proof.
  intros env scope sl. unfold slots_line. rewrite parse_line_simple by (right; reflexivity).
  assert (E: TLBr :: sep (map (fun s => [TStr s]) sl) ++ [TRBr] = flat (EList (map EStr sl))).
  { cbn [flat]. rewrite map_map. reflexivity. }
  unfold parse_simple. rewrite E.
  assert (W: wfe (EList (map EStr sl)) = true) by (cbn [wfe]; clear E; induction sl as [|x r IH]; [reflexivity|exact IH]).
  rewrite (parse_flat _ W).
  change (id_slots =? id_slots)%N with true. cbv iota. rewrite str_args_map. reflexivity.
Qed.

Lemma class_header_shape : forall c cl hb, exists t r,
  class_header c cl hb = TName id_class :: TName (c_name cl) :: t :: r.
Proof.
  intros c cl hb. unfold class_header.
  destruct (match map (print_ty (ctx_plain c)) (c_bases cl) with
            | [b] => if tokens_eqb b [TName id_object] then [] else map (print_ty (ctx_plain c)) (c_bases cl)
            | _ => map (print_ty (ctx_plain c)) (c_bases cl) end ++ map (print_kw c) (c_kws cl)); cbn [app]; eauto.
Qed.

Lemma has_body_false : forall cl, has_body cl = false -> class_items cl = [].
Proof.
  intros [nm bases kws decos slots classes consts methods] H. unfold has_body in H.
  cbn [c_classes c_methods c_consts c_slots] in H.
  repeat (apply orb_false_iff in H; destruct H as [H ?]).
  destruct classes; [|discriminate]. destruct methods; [|discriminate]. destruct consts; [|discriminate].
  destruct slots; [discriminate|]. reflexivity.
Qed.

Lemma parse_line_class1 : forall env scope ic pend ts t r nm, ts = TName id_class :: TName nm :: t :: r ->
  parse_line env scope ic pend ts =
  match parse_class_header env ts with
  | Some (cn, bs, kws, true) =>
      match build_class scope cn bs kws pend [] with Some c0 => Some (LItem (DCls c0)) | None => None end
  | _ => None
  end.
Proof. intros; subst; reflexivity. Qed.

(* a printed class (decorator lines, header, suite) inside any suite that is read with the same scope *)
Definition class_reads (cl : cls) : Prop :=
  forall env scope nested ic X l, (wf_cls fixed) env scope nested cl = true ->
  suite_loop (parse_line env scope ic) (parse_class env scope) [] X = Some l ->
  suite_loop (parse_line env scope ic) (parse_class env scope) [] ((print_cls fixed) cl ++ X) = Some (DCls ((norm_cls fixed) cl) :: l).

Lemma suite_classes : forall env scope ic classes X l,
  Forall class_reads classes -> forallb ((wf_cls fixed) env scope true) classes = true ->
  suite_loop (parse_line env scope ic) (parse_class env scope) [] X = Some l ->
  suite_loop (parse_line env scope ic) (parse_class env scope) [] (flat_map (print_cls fixed) classes ++ X) =
    Some (map DCls (map (norm_cls fixed) classes) ++ l).
Proof.
  intros env scope ic classes X l HF. induction HF as [|x r Hx _ IH]; intros Hw HX; [exact HX|].
  cbn [forallb] in Hw. apply andb_true_iff in Hw. destruct Hw as [Hwx Hwr].
  cbn [flat_map map]. rewrite <- app_assoc. cbn [app].
  apply (Hx env scope true ic _ _ Hwx). apply IH; assumption.
Qed.

Lemma suite_funcs : forall env scope ic pc c fs,
  forallb ((wf_func fixed) env scope c) fs = true ->
  suite_loop (parse_line env scope ic) pc [] (map SLine (flat_map ((print_func fixed) c) fs)) =
    Some (flat_map (fun f => map (fun s => DDef (rdef_of c f s)) (fn_sigs f)) fs).
Proof.
  intros env scope ic pc c. induction fs as [|f r IH]; intros H; [reflexivity|].
  cbn [forallb] in H. apply andb_true_iff in H. destruct H as [Hf Hr].
  cbn [flat_map]. rewrite map_app. apply (suite_func env scope scope ic pc c f _ _ Hf). apply IH. exact Hr.
Qed.

Lemma class_items_nonempty : forall env scope nested cl, (wf_cls fixed) env scope nested cl = true ->
  has_body cl = true -> class_items cl <> [].
Proof.
  intros env scope nested [nm bases kws decos slots classes consts methods] Hwf H.
  destruct (wf_cls_unfold _ _ _ _ _ _ _ _ _ _ _ Hwf) as (_ & _ & _ & _ & _ & _ & Hm & _ & _).
  unfold class_items. cbn [c_slots c_classes c_consts c_methods c_name].
  destruct slots; [discriminate|]. destruct classes; [|discriminate]. destruct consts; [|discriminate].
  destruct methods as [|f r]; [discriminate|].
  cbn [forallb] in Hm. apply andb_true_iff in Hm. destruct Hm as [Hf _].
  destruct (wf_func_parts _ _ _ _ Hf) as (_ & Hne & _).
  cbn [app map flat_map]. destruct (fn_sigs f); [congruence|discriminate].
Qed.

Theorem class_reads_all : forall cl, class_reads cl.
Proof.
  induction cl using cls_ind'. rename H into IHcs.
  unfold class_reads. intros env scope nested ic X l Hwf HX.
  set (cl := mkCls n b k d s cs ks ms) in *.
  pose proof (build_class_items env scope nested cl Hwf) as HB. cbn zeta in HB.
  destruct (wf_cls_unfold _ _ _ _ _ _ _ _ _ _ _ Hwf) as (Hn & Hb & Hk & Hdec & Hco & Hsl & Hm & Hnd & Hcl).
  cbn zeta in *.
  set (c := mkCtx false (Some n)) in *.
  set (sc := scope ++ flat_map tparams (norm_bases c n b)) in *.
  destruct (decl_name_parts env n Hn) as [Hres _]. destruct (reserved_parts n Hres) as (Hdef & _).
  assert (Eprint: (print_cls fixed) cl =
            map (fun d => SLine (deco_line d)) (dedup N.eqb d)
            ++ [if has_body cl then SClass (class_header c cl true)
                  ((match s with Some sl => [SLine (slots_line sl)] | None => [] end)
                   ++ flat_map (print_cls fixed) cs ++ map (fun k => SLine (print_const c k)) ks
                   ++ map SLine (flat_map ((print_func fixed) c) ms))
                else SLine (class_header c cl false)]) by reflexivity.
  rewrite Eprint. rewrite <- app_assoc.
  rewrite suite_decos by (intros; apply parse_line_deco). cbn [app].
  pose proof (class_header_parse env c cl) as HH. cbn [c_bases c_kws c_name] in HH.
  destruct (has_body cl) eqn:Ehb.
  - (* header line and suite *)
    cbn [suite_loop parse_class].
    rewrite (HH true Hb Hk). cbn [negb].
    change (c_name cl) with n. change (c_bases cl) with b. change (c_kws cl) with k.
    rewrite <- (norm_bases_kept c n b). fold sc.
    assert (Hinner: suite_loop (parse_line env sc true) (parse_class env sc) []
              ((match s with Some sl => [SLine (slots_line sl)] | None => [] end)
               ++ flat_map (print_cls fixed) cs ++ map (fun k => SLine (print_const c k)) ks
               ++ map SLine (flat_map ((print_func fixed) c) ms)) = Some (class_items cl)).
    { unfold class_items. cbn [c_slots c_classes c_consts c_methods c_name]. fold c.
      apply suite_app.
      - destruct s as [sl|]; [|reflexivity]. cbn [suite_loop]. rewrite parse_line_slots. reflexivity.
      - apply suite_classes; [exact IHcs | exact Hcl |].
        apply suite_app.
        + rewrite <- map_map. apply suite_items. rewrite forallb_forall in Hco.
          clear - Hco. induction ks as [|k0 r IH]; [constructor|]. cbn [map]. constructor.
          * apply parse_line_const. apply Hco. left. reflexivity.
          * apply IH. intros x Hx. apply Hco. right. exact Hx.
        + apply suite_funcs. exact Hm. }
    rewrite Hinner.
    pose proof (class_items_nonempty env scope nested cl Hwf Ehb) as Hne.
    change (c_name cl) with n in HB; change (c_bases cl) with b in HB; change (c_kws cl) with k in HB;
      change (c_decos cl) with d in HB. fold c in HB.
    destruct (class_items cl) as [|i0 ir] eqn:Eit; [congruence|].
    rewrite HB. rewrite HX. reflexivity.
  - (* class NAME(...): ... *)
    destruct (class_header_shape c cl false) as (t0 & r0 & Esh).
    cbn [suite_loop]. rewrite (parse_line_class1 env scope ic _ _ t0 r0 (c_name cl) Esh).
    rewrite (HH false Hb Hk). cbn [negb].
    rewrite (has_body_false cl Ehb) in HB.
    change (c_name cl) with n in *; change (c_bases cl) with b in *; change (c_kws cl) with k in *;
      change (c_decos cl) with d in *. fold c in HB. rewrite HB.
    rewrite HX. reflexivity.
Qed.

(* ------------------------------------------------------------------------------------------------ *)
(* units *)

Lemma tvar_names_app : forall a b, tvar_names (a ++ b) = tvar_names a ++ tvar_names b.
Proof. intros. unfold tvar_names. apply flat_map_app. Qed.

Lemma tvar_names_join : forall secs, tvar_names (join_blank secs) = flat_map tvar_names secs.
Proof.
  induction secs as [|s [|s2 r] IH]; [reflexivity|cbn; rewrite app_nil_r; reflexivity|].
  change (join_blank (s :: s2 :: r)) with (s ++ SBlank :: join_blank (s2 :: r)).
  rewrite tvar_names_app. cbn [flat_map]. f_equal. exact IH.
Qed.

Lemma tvar_names_filter : forall secs,
  flat_map tvar_names (filter (fun s => negb (is_nil s)) secs) = flat_map tvar_names secs.
Proof. induction secs as [|s r IH]; [reflexivity|]. destruct s; cbn; [exact IH|]. f_equal. exact IH. Qed.

Definition not_tvar_line (ts : list token) : Prop :=
  match ts with TName _ :: TEq :: TName _ :: TLPar :: _ => False | _ => True end.
Lemma tvar_names_lines : forall lines, Forall not_tvar_line lines -> tvar_names (map SLine lines) = [].
Proof.
  intros lines H. induction H as [|ts r Hts _ IH]; [reflexivity|].
  cbn [map]. change (tvar_names (SLine ts :: map SLine r)) with
    ((match ts with TName n :: TEq :: TName f :: TLPar :: _ => if (f =? id_TypeVar)%N then [n] else [] | _ => [] end) ++ tvar_names (map SLine r)).
  rewrite IH, app_nil_r. unfold not_tvar_line in Hts.
  destruct ts as [|[] [|[] [|[] [|[] ?]]]]; try reflexivity. contradiction.
Qed.

Lemma flat_not_call2 : forall e, match flat e with TName _ :: TLPar :: _ => False | _ => True end.
Proof. destruct e; exact I. Qed.

Lemma alias_not_tvar : forall env a, wf_alias env a = true -> not_tvar_line (print_alias plain0 a).
Proof.
  intros env [n t] H. unfold wf_alias in H. cbn [fst snd] in H.
  apply andb_true_iff in H; destruct H as [H _]. apply andb_true_iff in H; destruct H as [H _].
  apply andb_true_iff in H; destruct H as [_ Hw].
  unfold print_alias, not_tvar_line. cbn [fst snd]. rewrite ctx_plain_plain0.
  destruct (print_to_expr env plain0 t Hw) as [E _]. rewrite E.
  pose proof (flat_not_call2 (to_expr plain0 t)) as F. destruct (flat (to_expr plain0 t)) as [|[] [|[] ?]]; try exact I. exact F.
Qed.

Lemma func_not_tvar : forall c f, Forall not_tvar_line ((print_func fixed) c f).
Proof.
  intros c f. unfold print_func. apply Forall_forall. intros ts Hts. apply in_flat_map in Hts.
  destruct Hts as (s & _ & Hin). apply in_app_or in Hin. destruct Hin as [Hin|[<-|[]]].
  - apply in_map_iff in Hin. destruct Hin as (d & <- & _). exact I.
  - exact I.
Qed.

Lemma tvar_names_cls : forall cl, tvar_names ((print_cls fixed) cl) = [].
Proof.
  intros [n b k d s cs ks ms].
  change ((print_cls fixed) (mkCls n b k d s cs ks ms)) with
    (map (fun d0 => SLine (deco_line d0)) (dedup N.eqb d) ++
     [if has_body (mkCls n b k d s cs ks ms) then SClass (class_header (mkCtx false (Some n)) (mkCls n b k d s cs ks ms) true)
        ((match s with Some sl => [SLine (slots_line sl)] | None => [] end) ++ flat_map (print_cls fixed) cs ++
         map (fun k0 => SLine (print_const (mkCtx false (Some n)) k0)) ks ++ map SLine (flat_map ((print_func fixed) (mkCtx false (Some n))) ms))
      else SLine (class_header (mkCtx false (Some n)) (mkCls n b k d s cs ks ms) false)]).
  rewrite tvar_names_app.
  assert (E1: tvar_names (map (fun d0 => SLine (deco_line d0)) (dedup N.eqb d)) = []).
  { rewrite <- map_map. apply tvar_names_lines. apply Forall_forall. intros ts Hts. apply in_map_iff in Hts.
    destruct Hts as (x & <- & _). exact I. }
  rewrite E1. cbn [app]. destruct (has_body _); [reflexivity|].
  destruct (class_header_shape (mkCtx false (Some n)) (mkCls n b k d s cs ks ms) false) as (t0 & r0 & ->). reflexivity.
Qed.

Lemma In_insert_tp : forall x t l, In x (insert_tp t l) -> x = t \/ In x l.
Proof.
  intros x t. induction l as [|y r IH]; cbn; intros H; [destruct H as [<-|[]]; auto|].
  destruct (tp_name t <=? tp_name y)%N; cbn in H.
  - destruct H as [<-|H]; auto.
  - destruct H as [<-|H]; [auto|]. destruct (IH H); auto.
Qed.
Lemma In_sort_tps : forall x l, In x (sort_tps l) -> In x l.
Proof.
  intros x. induction l as [|y r IH]; cbn; intros H; [exact H|].
  apply In_insert_tp in H. destruct H as [->|H]; auto.
Qed.

Section UnitSuite.
Variable pl : list N -> list token -> option lres.
Variable pc : list N -> stmt -> option cls.
Lemma suite_sections : forall secs ls,
  Forall2 (fun ss l => suite_loop pl pc [] ss = Some l) secs ls ->
  suite_loop pl pc [] (join_blank (filter (fun s => negb (is_nil s)) secs)) = Some (concat ls).
Proof.
  intros secs ls H. induction H as [|ss l secs ls Hs Hr IH]; [reflexivity|].
  destruct ss as [|s0 sr].
  - cbn in Hs. injection Hs as <-. cbn [filter is_nil negb concat app]. exact IH.
  - cbn [filter is_nil negb concat].
    destruct (filter (fun s => negb (is_nil s)) secs) as [|s2 r2] eqn:Ef.
    + cbn [join_blank] in *. injection IH as IH. rewrite <- IH, app_nil_r. exact Hs.
    + change (join_blank ((s0 :: sr) :: s2 :: r2)) with ((s0 :: sr) ++ SBlank :: join_blank (s2 :: r2)).
      apply suite_app; [exact Hs|]. rewrite suite_blank. exact IH.
Qed.
End UnitSuite.

Lemma Forall2_map_l : forall {A B C} (f : A -> B) (R : B -> C -> Prop) (g : A -> C) l,
  (forall x, In x l -> R (f x) (g x)) -> Forall2 R (map f l) (map g l).
Proof. induction l as [|x r IH]; intros H; cbn; constructor; [apply H; left; reflexivity|apply IH; intros; apply H; right; assumption]. Qed.

Lemma suite_lines_map : forall {A} pl pc (pr : A -> list token) (it : A -> ditem) l,
  (forall x, In x l -> pl [] (pr x) = Some (LItem (it x))) ->
  suite_loop pl pc [] (map (fun x => SLine (pr x)) l) = Some (map it l).
Proof.
  intros A pl pc pr it l H. rewrite <- (map_map pr SLine). apply suite_items. apply Forall2_map_l. exact H.
Qed.

Lemma wf_unit_parts : forall u, (wf_unit fixed) u = true ->
  let env := map tp_name (sort_tps (u_tparams u)) in
  forallb (wf_tparam env) (u_tparams u) = true /\ forallb (wf_alias env) (u_aliases u) = true /\
  forallb (wf_const env) (u_consts u) = true /\ forallb ((wf_cls fixed) env [] false) (u_classes u) = true /\
  forallb ((wf_func fixed) env [] plain0) (u_funcs u) = true /\
  forallb (fun f => negb (mkind_eqb (fn_kind ((norm_func fixed) plain0 f)) KProp) &&
                    negb ((fn_name f =? id_getattr)%N && (1 <? length (fn_sigs f))%nat)) (u_funcs u) = true /\
  nodup_by N.eqb (unit_names u) = true.
Proof.
  intros u H. cbn zeta. unfold wf_unit in H.
  apply andb_true_iff in H; destruct H as [H H7]. apply andb_true_iff in H; destruct H as [H H6].
  apply andb_true_iff in H; destruct H as [H H5]. apply andb_true_iff in H; destruct H as [H H4].
  apply andb_true_iff in H; destruct H as [H H3]. apply andb_true_iff in H; destruct H as [H1 H2].
  repeat split; assumption.
Qed.

Theorem parse_unit_print_lemma : forall u, (wf_unit fixed) u = true -> parse_unit ((print_unit fixed) u) = Some ((norm_unit fixed) u).
Proof.
  intros u Hwf. destruct (wf_unit_parts u Hwf) as (Htp & Hal & Hco & Hcl & Hfn & Hmod & Hnd). cbn zeta in *.
  set (env := map tp_name (sort_tps (u_tparams u))) in *.
  set (T := sort_tps (u_tparams u)) in *.
  set (secs := [ map (fun t => SLine (print_tparam plain0 t)) T;
                 map (fun a => SLine (print_alias plain0 a)) (u_aliases u);
                 map (fun k => SLine (print_const plain0 k)) (u_consts u);
                 join_blank (map (print_cls fixed) (u_classes u));
                 map SLine (flat_map ((print_func fixed) plain0) (u_funcs u)) ]).
  assert (Eprint: (print_unit fixed) u = join_blank (filter (fun s => negb (is_nil s)) secs)) by reflexivity.
  assert (HT: forall t, In t T -> wf_tparam env t = true).
  { intros t Ht. rewrite forallb_forall in Htp. apply Htp. apply In_sort_tps. exact Ht. }
  (* the TypeVar names the reader collects *)
  assert (Eenv: tvar_names ((print_unit fixed) u) = env).
  { rewrite Eprint, tvar_names_join, tvar_names_filter. unfold secs. cbn [flat_map]. rewrite app_nil_r.
    assert (E1: tvar_names (map (fun t => SLine (print_tparam plain0 t)) T) = env).
    { unfold env. fold T. clear. induction T as [|t r IH]; [reflexivity|]. cbn [map].
      change (tvar_names (SLine (print_tparam plain0 t) :: ?X)) with (tp_name t :: tvar_names X). f_equal. exact IH. }
    assert (E2: tvar_names (map (fun a => SLine (print_alias plain0 a)) (u_aliases u)) = []).
    { rewrite <- map_map. apply tvar_names_lines. apply Forall_forall. intros ts Hts. apply in_map_iff in Hts.
      destruct Hts as (a & <- & Ha). rewrite forallb_forall in Hal. apply (alias_not_tvar env a (Hal a Ha)). }
    assert (E3: tvar_names (map (fun k => SLine (print_const plain0 k)) (u_consts u)) = []).
    { rewrite <- map_map. apply tvar_names_lines. apply Forall_forall. intros ts Hts. apply in_map_iff in Hts.
      destruct Hts as (k & <- & _). exact I. }
    assert (E4: tvar_names (join_blank (map (print_cls fixed) (u_classes u))) = []).
    { rewrite tvar_names_join. generalize (u_classes u). clear. intros l. induction l as [|x r IH]; [reflexivity|]. cbn [map flat_map].
      rewrite tvar_names_cls, IH. reflexivity. }
    assert (E5: tvar_names (map SLine (flat_map ((print_func fixed) plain0) (u_funcs u))) = []).
    { apply tvar_names_lines. apply Forall_forall. intros ts Hts. apply in_flat_map in Hts. destruct Hts as (f & _ & Hin).
      pose proof (func_not_tvar plain0 f) as F. rewrite Forall_forall in F. apply F. exact Hin. }
    rewrite E1, E2, E3, E4, E5. rewrite !app_nil_r. reflexivity. }
  unfold parse_unit. rewrite Eenv. unfold parse_stmts. rewrite Eprint.
  set (items := [ map DTvar (map (norm_tparam plain0) T); map DAlias (map (norm_alias plain0) (u_aliases u));
                  map DConst (map (norm_const plain0) (u_consts u)); map DCls (map (norm_cls fixed) (u_classes u));
                  flat_map (fun f => map (fun s => DDef (rdef_of plain0 f s)) (fn_sigs f)) (u_funcs u) ]).
  rewrite (suite_sections _ _ secs items).
  2:{ unfold secs, items. repeat constructor.
      - rewrite (map_map (norm_tparam plain0) DTvar). apply suite_lines_map.
        intros t Ht. apply parse_line_tparam. apply HT. exact Ht.
      - rewrite (map_map (norm_alias plain0) DAlias). apply suite_lines_map.
        intros a Ha. rewrite forallb_forall in Hal. apply parse_line_alias. apply Hal. exact Ha.
      - rewrite (map_map (norm_const plain0) DConst). apply suite_lines_map.
        intros k Hk. rewrite forallb_forall in Hco. apply parse_line_const. apply Hco. exact Hk.
      - assert (E: map DCls (map (norm_cls fixed) (u_classes u)) = concat (map (fun x => [DCls ((norm_cls fixed) x)]) (u_classes u))).
        { generalize (u_classes u). clear. intros l. induction l as [|x r IH]; [reflexivity|]. cbn. f_equal. exact IH. }
        rewrite E. apply suite_join_blank. apply Forall2_map_l. intros x Hx.
        rewrite forallb_forall in Hcl. pose proof (class_reads_all x env [] false false [] [] (Hcl x Hx) eq_refl) as R.
        rewrite app_nil_r in R. exact R.
      - apply suite_funcs. exact Hfn. }
  unfold items. cbn [concat]. rewrite app_nil_r.
  destruct (items_of_tvars (map (norm_tparam plain0) T)) as (A1 & B1 & C1 & D1 & E1 & F1).
  destruct (items_of_aliases (map (norm_alias plain0) (u_aliases u))) as (A2 & B2 & C2 & D2 & E2 & F2).
  destruct (items_of_consts (map (norm_const plain0) (u_consts u))) as (A3 & B3 & C3 & D3 & E3 & F3).
  destruct (items_of_classes (map (norm_cls fixed) (u_classes u))) as (A4 & B4 & C4 & D4 & E4 & F4).
  destruct (items_of_defs plain0 (u_funcs u)) as (A5 & B5 & C5 & D5 & E5 & F5). cbn zeta in *.
  unfold item_consts, item_slots, item_defs, item_classes, item_aliases, item_tvars in *.
  rewrite !flat_map_app.
  rewrite A1, A2, A3, A4, A5, B1, B2, B3, B4, B5, C1, C2, C3, C4, C5, D1, D2, D3, D4, D5, E1, E2, E3, E4, E5, F1, F2, F3, F4, F5.
  cbn [app]. rewrite !app_nil_r.
  pose proof (nodup_by_NoDup _ Hnd) as HND. unfold unit_names in HND. fold T in HND.
  assert (HNDf: NoDup (map fn_name (u_funcs u))).
  { do 4 apply NoDup_app_r in HND. exact HND. }
  rewrite (merge_funcs_print plain0 (u_funcs u)); [|
    intros f Hf; rewrite forallb_forall in Hfn; destruct (wf_func_parts _ _ _ _ (Hfn f Hf)) as (_ & Hne & _ & Hd & _); auto | exact HNDf].
  assert (Enames: map tp_name (map (norm_tparam plain0) T) ++ map fst (map (norm_alias plain0) (u_aliases u)) ++
                  map k_name (map (norm_const plain0) (u_consts u)) ++ map c_name (map (norm_cls fixed) (u_classes u)) ++
                  map fn_name (map ((norm_func fixed) plain0) (u_funcs u)) = unit_names u).
  { unfold unit_names. fold T. rewrite !map_map.
    assert (Ec: map (fun x => c_name ((norm_cls fixed) x)) (u_classes u) = map c_name (u_classes u))
      by (apply map_ext; intros [n b k d s cs ks ms]; reflexivity).
    rewrite Ec. reflexivity. }
  rewrite Enames, Hnd. cbn [negb].
  assert (Eprop: existsb (fun f => mkind_eqb (fn_kind f) KProp) (map ((norm_func fixed) plain0) (u_funcs u)) = false).
  { apply existsb_forallb_neg. rewrite forallb_forall in *. intros f Hf. apply in_map_iff in Hf. destruct Hf as (f0 & <- & Hf0).
    specialize (Hmod f0 Hf0). apply andb_true_iff in Hmod. apply Hmod. }
  assert (Egetattr: existsb (fun f => (fn_name f =? id_getattr)%N && (1 <? length (fn_sigs f))%nat) (map ((norm_func fixed) plain0) (u_funcs u)) = false).
  { apply existsb_forallb_neg. rewrite forallb_forall in *. intros f Hf. apply in_map_iff in Hf. destruct Hf as (f0 & <- & Hf0).
    specialize (Hmod f0 Hf0). apply andb_true_iff in Hmod. destruct Hmod as [_ Hg].
    change (fn_name ((norm_func fixed) plain0 f0)) with (fn_name f0).
    change (fn_sigs ((norm_func fixed) plain0 f0)) with (map (norm_fsig plain0 (fn_name f0)) (fn_sigs f0)). rewrite map_length. exact Hg. }
  rewrite Eprop, Egetattr.
  assert (Ever: forallb (verify_func []) (map ((norm_func fixed) plain0) (u_funcs u)) = true).
  { rewrite forallb_forall in *. intros f Hf. apply in_map_iff in Hf. destruct Hf as (f0 & <- & Hf0).
    destruct (wf_func_parts _ _ _ _ (Hfn f0 Hf0)) as (_ & _ & _ & _ & Hv). exact Hv. }
  rewrite Ever.
  unfold norm_unit. fold T.
  assert (Efa: filter (fun a => negb (prints_none (snd a))) (u_aliases u) = u_aliases u).
  { apply filter_all. rewrite forallb_forall in *. intros a Ha. specialize (Hal a Ha). unfold wf_alias in Hal.
    apply andb_true_iff in Hal; destruct Hal as [Hal _]. apply andb_true_iff in Hal; destruct Hal as [_ Hn]. exact Hn. }
  assert (Efn: filter (fun a => prints_none (snd a)) (u_aliases u) = []).
  { clear - Efa. induction (u_aliases u) as [|a r IH]; [reflexivity|]. cbn in *.
    destruct (prints_none (snd a)); cbn in *.
    - exfalso. assert (length (filter (fun a0 => negb (prints_none (snd a0))) r) <= length r) by apply filter_length_le.
      rewrite Efa in H. cbn in H. lia.
    - injection Efa as Efa. apply IH. exact Efa. }
  rewrite Efa, Efn. reflexivity.
Qed.

End Fixed.
