(* C05 proofs about coq/Print/Model.v. *)
From Coq Require Import List NArith ZArith Bool Arith Lia.
From PV Require Import Print.Model.
Import ListNotations.

(* ------------------------------------------------------------------------------------------------ *)
(* induction principles for the nested inductives *)

Section TyInd.
  Variable P : ty -> Prop.
  Hypothesis HNamed : forall n, P (Named n).
  Hypothesis HAny : P AnyT.
  Hypothesis HNothing : P NothingT.
  Hypothesis HTParam : forall i, P (TParam i).
  Hypothesis HLit : forall v, P (Lit v).
  Hypothesis HGeneric : forall b ps, Forall P ps -> P (Generic b ps).
  Hypothesis HTuple : forall b ps, Forall P ps -> P (TupleT b ps).
  Hypothesis HCallable : forall b ps, Forall P ps -> P (CallableT b ps).
  Hypothesis HUnion : forall ts, Forall P ts -> P (Union ts).
  Hypothesis HAnnot : forall t a, P t -> P (Annot t a).
  Fixpoint ty_ind' (t : ty) : P t :=
    let go := fix go (l : list ty) : Forall P l :=
                match l with [] => Forall_nil _ | x :: r => Forall_cons _ (ty_ind' x) (go r) end in
    match t with
    | Named n => HNamed n
    | AnyT => HAny
    | NothingT => HNothing
    | TParam i => HTParam i
    | Lit v => HLit v
    | Generic b ps => HGeneric b ps (go ps)
    | TupleT b ps => HTuple b ps (go ps)
    | CallableT b ps => HCallable b ps (go ps)
    | Union ts => HUnion ts (go ts)
    | Annot t a => HAnnot t a (ty_ind' t)
    end.
End TyInd.

Section ExprInd.
  Variable P : expr -> Prop.
  Hypothesis HName : forall i, P (EName i).
  Hypothesis HNone : P ENone.
  Hypothesis HEll : P EEllipsis.
  Hypothesis HInt : forall z, P (EInt z).
  Hypothesis HStr : forall i, P (EStr i).
  Hypothesis HBool : forall b, P (EBool b).
  Hypothesis HList : forall es, Forall P es -> P (EList es).
  Hypothesis HTup : P ETuple0.
  Hypothesis HSub : forall b es, Forall P es -> P (ESub b es).
  Fixpoint expr_ind' (e : expr) : P e :=
    let go := fix go (l : list expr) : Forall P l :=
                match l with [] => Forall_nil _ | x :: r => Forall_cons _ (expr_ind' x) (go r) end in
    match e with
    | EName i => HName i
    | ENone => HNone
    | EEllipsis => HEll
    | EInt z => HInt z
    | EStr i => HStr i
    | EBool b => HBool b
    | EList es => HList es (go es)
    | ETuple0 => HTup
    | ESub b es => HSub b es (go es)
    end.
End ExprInd.

(* ------------------------------------------------------------------------------------------------ *)
(* expressions as token lists, and the syntax reader inverts it *)

Fixpoint flat (e : expr) : list token :=
  match e with
  | EName i => [TName i]
  | ENone => [TNone]
  | EEllipsis => [TEllipsis]
  | EInt z => [TInt z]
  | EStr i => [TStr i]
  | EBool b => [TBool b]
  | EList es => TLBr :: sep (map flat es) ++ [TRBr]
  | ETuple0 => [TLPar; TRPar]
  | ESub b es => TName b :: TLBr :: sep (map flat es) ++ [TRBr]
  end.

(* subscripts have at least one argument *)
Fixpoint wfe (e : expr) : bool :=
  match e with
  | EList es => forallb wfe es
  | ESub _ es => match es with [] => false | _ => forallb wfe es end
  | _ => true
  end.

Definition starts_ok (ts : list token) : Prop :=
  match ts with TLBr :: _ => False | _ => True end.

Lemma flat_nonempty : forall e, exists t r, flat e = t :: r /\ t <> TRBr /\ t <> TComma.
Proof.
  destruct e; simpl; eexists; eexists; (split; [reflexivity | split; discriminate]).
Qed.

Lemma sep_cons2 : forall x y r, sep (x :: y :: r) = x ++ TComma :: sep (y :: r).
Proof. reflexivity. Qed.

Lemma sep_single : forall x, sep [x] = x.
Proof. reflexivity. Qed.

Lemma tokens_eqb_true : forall a b, tokens_eqb a b = true <-> a = b.
Proof. intros. unfold tokens_eqb. destruct (list_eq_dec token_eq_dec a b); split; congruence. Qed.
Lemma tokens_eqb_false : forall a b, tokens_eqb a b = false <-> a <> b.
Proof. intros. unfold tokens_eqb. destruct (list_eq_dec token_eq_dec a b); split; congruence. Qed.
Lemma tokens_eqb_refl : forall a, tokens_eqb a a = true.
Proof. intros. apply tokens_eqb_true. reflexivity. Qed.

Definition reads_back (e : expr) : Prop :=
  wfe e = true ->
  forall fuel rest, length (flat e) <= fuel -> starts_ok rest ->
  parse_expr fuel (flat e ++ rest) = Some (e, rest).

Lemma parse_args_unfold : forall f ts,
  parse_args (S f) ts =
  match parse_expr f ts with
  | Some (e, TComma :: r) =>
      match parse_args f r with Some (es, r') => Some (e :: es, r') | None => None end
  | Some (e, r) => Some ([e], r)
  | None => None
  end.
Proof. reflexivity. Qed.

Lemma parse_args_flat : forall es,
  Forall reads_back es -> forallb wfe es = true -> es <> [] ->
  forall fuel r, length (sep (map flat es)) + 1 <= fuel ->
  parse_args fuel (sep (map flat es) ++ TRBr :: r) = Some (es, TRBr :: r).
Proof.
  induction es as [|a es IH]; intros HF Hw Hne fuel r Hfu; [congruence|].
  inversion HF as [|? ? Ha HF']; subst.
  cbn [forallb] in Hw. apply andb_true_iff in Hw. destruct Hw as [Hwa Hwes].
  destruct fuel as [|f]; [lia|].
  rewrite parse_args_unfold.
  destruct es as [|b es].
  - cbn [map] in *. rewrite sep_single in *.
    rewrite (Ha Hwa f (TRBr :: r)); [reflexivity | lia | exact I].
  - cbn [map] in *. rewrite sep_cons2 in *. rewrite <- app_assoc.
    rewrite app_length in Hfu. cbn [length] in Hfu.
    rewrite (Ha Hwa f); [| lia | exact I].
    cbn [app].
    change (flat b :: map flat es) with (map flat (b :: es)) in *.
    rewrite (IH HF' Hwes ltac:(discriminate) f r); [reflexivity | lia].
Qed.

(* the parser reads back a flattened expression; the rest of the input must not start with "[" *)
Lemma parse_flat_gen : forall e, reads_back e.
Proof.
  induction e using expr_ind'; unfold reads_back; intros Hwf fuel rest Hf Hr;
    (destruct fuel as [|f]; [cbn in Hf; lia|]).
  - cbn. destruct rest as [|[] ?]; cbn in Hr; try contradiction; reflexivity.
  - reflexivity.
  - reflexivity.
  - reflexivity.
  - reflexivity.
  - reflexivity.
  - (* EList *)
    destruct es as [|e1 es'].
    + reflexivity.
    + cbn [wfe] in Hwf.
      cbn [flat app]. rewrite <- app_assoc. cbn [app].
      destruct (flat_nonempty e1) as (t & r1 & He1 & Hne1 & _).
      assert (Hsep: exists r2, sep (map flat (e1 :: es')) = t :: r2).
      { destruct es'; cbn [map]; [rewrite sep_single | rewrite sep_cons2]; rewrite He1; cbn [app]; eauto. }
      destruct Hsep as (r2 & Hsep).
      assert (Hpa := parse_args_flat (e1 :: es') H Hwf ltac:(discriminate) f rest).
      cbn [flat length] in Hf. rewrite app_length in Hf. cbn [length] in Hf.
      rewrite Hsep in *. cbn [app] in *.
      cbn [parse_expr].
      destruct t; try congruence; (rewrite Hpa; [reflexivity | lia]).
  - reflexivity.
  - (* ESub *)
    destruct es as [|e1 es']; [cbn in Hwf; discriminate|].
    cbn [wfe] in Hwf.
    cbn [flat app]. rewrite <- app_assoc. cbn [app].
    cbn [flat length] in Hf. rewrite app_length in Hf. cbn [length] in Hf.
    cbn [parse_expr].
    rewrite (parse_args_flat (e1 :: es') H Hwf ltac:(discriminate) f rest); [reflexivity | lia].
Qed.

Lemma parse_flat : forall e, wfe e = true ->
  parse_expr (S (length (flat e))) (flat e) = Some (e, []).
Proof.
  intros e Hw. rewrite <- (app_nil_r (flat e)) at 2.
  apply parse_flat_gen; [exact Hw | lia | exact I].
Qed.

Lemma flat_inj : forall a b, wfe a = true -> wfe b = true -> flat a = flat b -> a = b.
Proof.
  intros a b Ha Hb E. pose proof (parse_flat a Ha) as Pa. pose proof (parse_flat b Hb) as Pb.
  rewrite E in Pa. rewrite Pa in Pb. congruence.
Qed.

(* ------------------------------------------------------------------------------------------------ *)
(* generic list lemmas *)

Lemma map_filter_comm : forall {A B} (f : A -> B) (P : B -> bool) l,
  map f (filter (fun x => P (f x)) l) = filter P (map f l).
Proof. induction l as [|x r IH]; cbn; [reflexivity|]. destruct (P (f x)); cbn; rewrite IH; reflexivity. Qed.

Lemma filter_ext_in' : forall {A} (f g : A -> bool) l, (forall x, In x l -> f x = g x) -> filter f l = filter g l.
Proof.
  induction l as [|x r IH]; intros H; cbn; [reflexivity|].
  rewrite (H x (or_introl eq_refl)). rewrite IH; [reflexivity|]. intros y Hy. apply H. right. exact Hy.
Qed.

Lemma map_dedup_on : forall {A K} (key : A -> K) (eqb : K -> K -> bool) l,
  map key (dedup_on key eqb l) = dedup eqb (map key l).
Proof.
  induction l as [|x r IH]; cbn; [reflexivity|]. f_equal.
  rewrite <- IH. apply (map_filter_comm key (fun k => negb (eqb (key x) k))).
Qed.

Lemma mem_s_map : forall {A} (key : A -> list token) s l,
  mem_s s (map key l) = existsb (fun x => tokens_eqb s (key x)) l.
Proof. intros. unfold mem_s. induction l; cbn; [reflexivity|]. rewrite IHl. reflexivity. Qed.

Lemma map_compat_step_on : forall {A} (key : A -> list token) l p,
  map key (compat_step_on key l p) = compat_step (map key l) p.
Proof.
  intros. unfold compat_step_on, compat_step.
  destruct (mem_s [TName (fst p)] (map key l) && mem_s [TName (snd p)] (map key l)); [|reflexivity].
  apply (map_filter_comm key (fun s => negb (tokens_eqb s [TName (fst p)]))).
Qed.

Lemma map_fold_compat : forall {A} (key : A -> list token) items l,
  map key (fold_left (compat_step_on key) items l) = fold_left compat_step items (map key l).
Proof.
  induction items as [|p r IH]; intros l; cbn; [reflexivity|].
  rewrite IH. rewrite map_compat_step_on. reflexivity.
Qed.

Lemma map_form_set_on : forall {A} c (key : A -> list token) l,
  map key (form_set_on c key l) = form_set c (map key l).
Proof.
  intros. unfold form_set_on, form_set. destruct (in_param c).
  - rewrite map_fold_compat, map_dedup_on. reflexivity.
  - apply map_dedup_on.
Qed.

(* re-indexing: the same selection made on a list and on its image *)
Lemma dedup_on_map : forall {A B K} (f : A -> B) (key : B -> K) eqb l,
  dedup_on key eqb (map f l) = map f (dedup_on (fun x => key (f x)) eqb l).
Proof.
  induction l as [|x r IH]; cbn; [reflexivity|]. f_equal. rewrite IH.
  symmetry. apply (map_filter_comm f (fun y => negb (eqb (key (f x)) (key y)))).
Qed.

Lemma compat_step_on_map : forall {A B} (f : A -> B) (key : B -> list token) l p,
  compat_step_on key (map f l) p = map f (compat_step_on (fun x => key (f x)) l p).
Proof.
  intros. unfold compat_step_on. rewrite map_map.
  destruct (mem_s [TName (fst p)] (map (fun x => key (f x)) l) && mem_s [TName (snd p)] (map (fun x => key (f x)) l));
    [|reflexivity].
  symmetry. apply (map_filter_comm f (fun y => negb (tokens_eqb (key y) [TName (fst p)]))).
Qed.

Lemma fold_compat_on_map : forall {A B} (f : A -> B) (key : B -> list token) items l,
  fold_left (compat_step_on key) items (map f l) =
  map f (fold_left (compat_step_on (fun x => key (f x))) items l).
Proof.
  induction items as [|p r IH]; intros l; cbn; [reflexivity|].
  rewrite compat_step_on_map. apply IH.
Qed.

Lemma form_set_on_map : forall {A B} c (f : A -> B) (key : B -> list token) l,
  form_set_on c key (map f l) = map f (form_set_on c (fun x => key (f x)) l).
Proof.
  intros. unfold form_set_on. rewrite dedup_on_map. destruct (in_param c); [|reflexivity].
  apply fold_compat_on_map.
Qed.

Lemma dedup_on_incl : forall {A K} (key : A -> K) eqb l x, In x (dedup_on key eqb l) -> In x l.
Proof.
  induction l as [|y r IH]; cbn; intros x H; [exact H|].
  destruct H as [H|H]; [left; exact H|]. right. apply filter_In in H. apply IH. apply H.
Qed.

Lemma compat_step_on_incl : forall {A} (key : A -> list token) l p x, In x (compat_step_on key l p) -> In x l.
Proof.
  intros A key l p x. unfold compat_step_on.
  destruct (mem_s _ _ && mem_s _ _); [|exact (fun H => H)]. intros H. apply filter_In in H. apply H.
Qed.

Lemma fold_compat_on_incl : forall {A} (key : A -> list token) items l x,
  In x (fold_left (compat_step_on key) items l) -> In x l.
Proof.
  induction items as [|p r IH]; cbn; intros l x H; [exact H|].
  apply IH in H. eapply compat_step_on_incl. exact H.
Qed.

Lemma form_set_on_incl : forall {A} c (key : A -> list token) l x, In x (form_set_on c key l) -> In x l.
Proof.
  intros A c key l x. unfold form_set_on. destruct (in_param c); intros H.
  - apply fold_compat_on_incl in H. eapply dedup_on_incl. exact H.
  - eapply dedup_on_incl. exact H.
Qed.

Lemma dedup_on_ext : forall {A K} (k1 k2 : A -> K) eqb l,
  (forall x, In x l -> k1 x = k2 x) -> dedup_on k1 eqb l = dedup_on k2 eqb l.
Proof.
  induction l as [|x r IH]; intros H; cbn; [reflexivity|]. f_equal.
  rewrite <- IH by (intros y Hy; apply H; right; exact Hy).
  apply filter_ext_in'. intros y Hy. apply dedup_on_incl in Hy.
  rewrite (H x (or_introl eq_refl)), (H y (or_intror Hy)). reflexivity.
Qed.

Lemma compat_step_on_ext : forall {A} (k1 k2 : A -> list token) l p,
  (forall x, In x l -> k1 x = k2 x) -> compat_step_on k1 l p = compat_step_on k2 l p.
Proof.
  intros A k1 k2 l p H. unfold compat_step_on.
  rewrite (map_ext_in k1 k2 l H).
  destruct (mem_s _ _ && mem_s _ _); [|reflexivity].
  apply filter_ext_in'. intros y Hy. rewrite (H y Hy). reflexivity.
Qed.

Lemma fold_compat_on_ext : forall {A} (k1 k2 : A -> list token) items l,
  (forall x, In x l -> k1 x = k2 x) ->
  fold_left (compat_step_on k1) items l = fold_left (compat_step_on k2) items l.
Proof.
  induction items as [|p r IH]; intros l H; cbn; [reflexivity|].
  rewrite (compat_step_on_ext k1 k2 l p H). apply IH.
  intros x Hx. apply H. eapply compat_step_on_incl. exact Hx.
Qed.

Lemma form_set_on_ext : forall {A} c (k1 k2 : A -> list token) l,
  (forall x, In x l -> k1 x = k2 x) -> form_set_on c k1 l = form_set_on c k2 l.
Proof.
  intros A c k1 k2 l H. unfold form_set_on.
  rewrite (dedup_on_ext k1 k2 tokens_eqb l H).
  destruct (in_param c); [|reflexivity].
  apply fold_compat_on_ext. intros x Hx. apply H. eapply dedup_on_incl. exact Hx.
Qed.

(* ------------------------------------------------------------------------------------------------ *)
(* _BuildUnion seen on expressions *)

Definition is_litsub (e : expr) : bool := match e with ESub b _ => (b =? id_Literal)%N | _ => false end.
Definition lit_args (e : expr) : list expr :=
  match e with ESub b a => if (b =? id_Literal)%N then a else [] | _ => [] end.
Definition is_enone (e : expr) : bool := match e with ENone => true | _ => false end.

Definition coalesce_e (es : list expr) : list expr :=
  let nl := filter (fun e => negb (is_litsub e)) es in
  match filter is_litsub es with
  | [] => nl
  | lits => nl ++ [ESub id_Literal (flat_map lit_args lits)]
  end.
Definition union1_e (l : list expr) : expr :=
  match coalesce_e l with [x] => x | l' => ESub id_Union l' end.
Definition union_e (l : list expr) : expr :=
  match coalesce_e l with
  | [x] => x
  | l' => if existsb is_enone l'
          then ESub id_Optional [union1_e (filter (fun e => negb (is_enone e)) l')]
          else ESub id_Union l'
  end.

Lemma sep_app : forall l1 l2, l1 <> [] -> l2 <> [] -> sep (l1 ++ l2) = sep l1 ++ TComma :: sep l2.
Proof.
  induction l1 as [|x r IH]; intros l2 H1 H2; [congruence|].
  destruct r as [|y r'].
  - cbn [app]. destruct l2 as [|z l2']; [congruence|]. rewrite sep_cons2, sep_single. reflexivity.
  - cbn [app]. rewrite !sep_cons2. rewrite <- app_assoc. cbn [app]. f_equal. f_equal.
    change (y :: r' ++ l2) with ((y :: r') ++ l2). apply IH; [discriminate | exact H2].
Qed.

Lemma match_literal_flat : forall e,
  match_literal (flat e) = if is_litsub e then Some (sep (map flat (lit_args e))) else None.
Proof.
  destruct e; cbn; try reflexivity.
  destruct (base =? id_Literal)%N; [|reflexivity].
  rewrite rev_app_distr. cbn. rewrite rev_involutive. reflexivity.
Qed.

Lemma split_lits_flat : forall es,
  split_lits (map flat es) =
  (map flat (filter (fun e => negb (is_litsub e)) es),
   map (fun e => sep (map flat (lit_args e))) (filter is_litsub es)).
Proof.
  induction es as [|e r IH]; [reflexivity|].
  cbn [map split_lits filter]. rewrite IH. rewrite match_literal_flat.
  destruct (is_litsub e); reflexivity.
Qed.

Lemma wfe_lit_args : forall e, wfe e = true -> is_litsub e = true -> lit_args e <> [].
Proof.
  destruct e; cbn; try discriminate. intros Hw Hl. rewrite Hl. destruct args; [discriminate|discriminate].
Qed.

Lemma sep_sep : forall lits,
  (forall e, In e lits -> lit_args e <> []) -> lits <> [] ->
  sep (map (fun e => sep (map flat (lit_args e))) lits) = sep (map flat (flat_map lit_args lits))
  /\ flat_map lit_args lits <> [].
Proof.
  induction lits as [|e r IH]; intros H Hne; [congruence|].
  assert (He: lit_args e <> []) by (apply H; left; reflexivity).
  destruct r as [|e' r'].
  - cbn. rewrite app_nil_r. split; [reflexivity|exact He].
  - destruct IH as [IH1 IH2]; [intros x Hx; apply H; right; exact Hx | discriminate |].
    change (map (fun e0 => sep (map flat (lit_args e0))) (e :: e' :: r'))
      with (sep (map flat (lit_args e)) :: map (fun e0 => sep (map flat (lit_args e0))) (e' :: r')).
    cbn [flat_map]. rewrite map_app. split.
    + rewrite sep_app.
      * change (map (fun e0 => sep (map flat (lit_args e0))) (e' :: r'))
          with (sep (map flat (lit_args e')) :: map (fun e0 => sep (map flat (lit_args e0))) r').
        rewrite sep_cons2.
        change (sep (map flat (lit_args e')) :: map (fun e0 => sep (map flat (lit_args e0))) r')
          with (map (fun e0 => sep (map flat (lit_args e0))) (e' :: r')).
        rewrite IH1. reflexivity.
      * destruct (lit_args e); [congruence|discriminate].
      * intro E. apply map_eq_nil in E. exact (IH2 E).
    + destruct (lit_args e); [congruence|discriminate].
Qed.

Lemma coalesce_flat : forall es, forallb wfe es = true ->
  coalesce (map flat es) = map flat (coalesce_e es).
Proof.
  intros es Hw. unfold coalesce, coalesce_e. rewrite split_lits_flat.
  destruct (filter is_litsub es) as [|l0 lr] eqn:El; [reflexivity|].
  cbn [map]. rewrite map_app. f_equal. cbn [map]. f_equal.
  unfold sub. cbn [flat app].
  assert (Hl: forall e, In e (l0 :: lr) -> lit_args e <> []).
  { intros e He. rewrite <- El in He. apply filter_In in He. destruct He as [Hi Hs].
    apply wfe_lit_args; [|exact Hs]. rewrite forallb_forall in Hw. apply Hw. exact Hi. }
  destruct (sep_sep (l0 :: lr) Hl ltac:(discriminate)) as [S1 _].
  change (sep (map flat (lit_args l0)) :: map (fun e => sep (map flat (lit_args e))) lr)
    with (map (fun e => sep (map flat (lit_args e))) (l0 :: lr)).
  rewrite S1. reflexivity.
Qed.

Lemma is_none_flat : forall e, is_none_s (flat e) = is_enone e.
Proof.
  intros e. unfold is_none_s.
  destruct e; cbn; try reflexivity; try (apply tokens_eqb_false; discriminate).
Qed.

Lemma sub_flat : forall b l, sub [TName b] (map flat l) = flat (ESub b l).
Proof. reflexivity. Qed.

Lemma wfe_coalesce_e : forall es, forallb wfe es = true -> forallb wfe (coalesce_e es) = true.
Proof.
  intros es Hw. unfold coalesce_e.
  assert (Hnl: forallb wfe (filter (fun e => negb (is_litsub e)) es) = true).
  { rewrite forallb_forall in *. intros x Hx. apply filter_In in Hx. apply Hw. apply Hx. }
  destruct (filter is_litsub es) as [|l0 lr] eqn:El; [exact Hnl|].
  rewrite forallb_app. rewrite Hnl. cbn [forallb andb].
  assert (Hl: forall e, In e (l0 :: lr) -> lit_args e <> [] /\ forallb wfe (lit_args e) = true).
  { intros e He. rewrite <- El in He. apply filter_In in He. destruct He as [Hi Hs].
    rewrite forallb_forall in Hw. specialize (Hw e Hi). split; [apply wfe_lit_args; assumption|].
    destruct e; cbn in Hs; try discriminate. cbn. rewrite Hs. cbn in Hw. destruct args; [discriminate|exact Hw]. }
  destruct (sep_sep (l0 :: lr) (fun e He => proj1 (Hl e He)) ltac:(discriminate)) as [_ Hne].
  cbn [wfe]. destruct (flat_map lit_args (l0 :: lr)) as [|fa fr] eqn:Ef; [congruence|]. rewrite <- Ef.
  rewrite andb_true_r. rewrite forallb_forall. intros x Hx. apply in_flat_map in Hx.
  destruct Hx as (e9 & He9 & Hx). destruct (Hl e9 He9) as [_ Hw']. rewrite forallb_forall in Hw'. apply Hw'. exact Hx.
Qed.

Lemma build_union1_flat : forall l, forallb wfe l = true ->
  build_union1 (map flat l) = flat (union1_e l).
Proof.
  intros l Hw. unfold build_union1, union1_e. rewrite coalesce_flat by exact Hw.
  destruct (coalesce_e l) as [|a [|b r]]; reflexivity.
Qed.

Lemma build_union_flat : forall l, forallb wfe l = true ->
  build_union (map flat l) = flat (union_e l).
Proof.
  intros l Hw. unfold build_union, union_e. rewrite coalesce_flat by exact Hw.
  pose proof (wfe_coalesce_e l Hw) as Hc.
  generalize dependent (coalesce_e l). intros l' Hc.
  assert (He: existsb is_none_s (map flat l') = existsb is_enone l').
  { clear. induction l' as [|x r IH]; cbn; [reflexivity|]. rewrite is_none_flat, IH. reflexivity. }
  assert (Hf: filter (fun s => negb (is_none_s s)) (map flat l') = map flat (filter (fun e => negb (is_enone e)) l')).
  { rewrite <- (map_filter_comm flat (fun s => negb (is_none_s s))).
    f_equal. apply filter_ext_in'. intros x _. rewrite is_none_flat. reflexivity. }
  destruct l' as [|a [|b r]]; [reflexivity | reflexivity |].
  cbn [map]. change (flat a :: flat b :: map flat r) with (map flat (a :: b :: r)).
  rewrite He, Hf. destruct (existsb is_enone (a :: b :: r)); [|reflexivity].
  rewrite build_union1_flat; [reflexivity|].
  rewrite forallb_forall in *. intros x Hx. apply filter_In in Hx. apply Hc. apply Hx.
Qed.

(* ------------------------------------------------------------------------------------------------ *)
(* the selection made by _FormSetTypeList: never empty, no two members with the same printed form *)

Lemma NoDup_map_filter : forall {A B} (f : A -> B) (P : A -> bool) l,
  NoDup (map f l) -> NoDup (map f (filter P l)).
Proof.
  induction l as [|x r IH]; cbn; intros H; [constructor|].
  inversion H as [|? ? Hn Hr]; subst. destruct (P x); cbn; [|apply IH; exact Hr].
  constructor; [|apply IH; exact Hr].
  intro Hin. apply Hn. apply in_map_iff in Hin. destruct Hin as (y & Hy & Hin).
  apply filter_In in Hin. apply in_map_iff. exists y. split; [exact Hy | apply Hin].
Qed.

Lemma NoDup_dedup_on : forall {A} (key : A -> list token) l,
  NoDup (map key (dedup_on key tokens_eqb l)).
Proof.
  induction l as [|x r IH]; cbn; [constructor|].
  constructor.
  - intro Hin. apply in_map_iff in Hin. destruct Hin as (y & Hy & Hin).
    apply filter_In in Hin. destruct Hin as [_ Hneg]. rewrite <- Hy in Hneg.
    rewrite tokens_eqb_refl in Hneg. discriminate.
  - apply NoDup_map_filter. exact IH.
Qed.

Lemma NoDup_fold_compat_on : forall {A} (key : A -> list token) items l,
  NoDup (map key l) -> NoDup (map key (fold_left (compat_step_on key) items l)).
Proof.
  induction items as [|p r IH]; cbn; intros l H; [exact H|].
  apply IH. unfold compat_step_on. destruct (mem_s _ _ && mem_s _ _); [|exact H].
  apply NoDup_map_filter. exact H.
Qed.

Lemma NoDup_form_set_on : forall {A} c (key : A -> list token) l, NoDup (map key (form_set_on c key l)).
Proof.
  intros. unfold form_set_on. destruct (in_param c).
  - apply NoDup_fold_compat_on. apply NoDup_dedup_on.
  - apply NoDup_dedup_on.
Qed.

Lemma compat_step_on_nonempty : forall {A} (key : A -> list token) l p,
  fst p <> snd p -> l <> [] -> compat_step_on key l p <> [].
Proof.
  intros A key l p Hp Hl. unfold compat_step_on.
  destruct (mem_s [TName (fst p)] (map key l)) eqn:E1; cbn [andb]; [|exact Hl].
  destruct (mem_s [TName (snd p)] (map key l)) eqn:E2; [|exact Hl].
  rewrite mem_s_map in E2. apply existsb_exists in E2. destruct E2 as (x & Hx & Ex).
  apply tokens_eqb_true in Ex.
  intro Hf. assert (Hin: In x (filter (fun x0 => negb (tokens_eqb (key x0) [TName (fst p)])) l)).
  { apply filter_In. split; [exact Hx|]. rewrite <- Ex.
    assert (tokens_eqb [TName (snd p)] [TName (fst p)] = false) as ->; [|reflexivity].
    apply tokens_eqb_false. intro E. injection E as E. congruence. }
  rewrite Hf in Hin. exact Hin.
Qed.

Lemma compat_items_distinct : Forall (fun p : N * N => fst p <> snd p) compat_items.
Proof. repeat constructor; cbn; discriminate. Qed.

Lemma form_set_on_nonempty : forall {A} c (key : A -> list token) l, l <> [] -> form_set_on c key l <> [].
Proof.
  intros A c key l Hl. unfold form_set_on.
  assert (Hd: dedup_on key tokens_eqb l <> []) by (destruct l; [congruence|cbn; discriminate]).
  destruct (in_param c); [|exact Hd].
  generalize dependent (dedup_on key tokens_eqb l). clear Hl.
  pose proof compat_items_distinct as Hc. induction Hc as [|p r Hp Hr IH]; cbn; intros l0 H0; [exact H0|].
  apply IH. apply compat_step_on_nonempty; assumption.
Qed.

Lemma coalesce_e_nonempty : forall l, l <> [] -> coalesce_e l <> [].
Proof.
  intros l Hl. unfold coalesce_e.
  destruct (filter is_litsub l) as [|a r] eqn:El.
  - destruct l as [|x l']; [congruence|]. cbn in *. destruct (is_litsub x); [discriminate|cbn; discriminate].
  - intro E. apply app_eq_nil in E. destruct E as [_ E]. discriminate.
Qed.

Lemma NoDup_filter : forall {A} (P : A -> bool) l, NoDup l -> NoDup (filter P l).
Proof.
  intros A P l H. rewrite <- (map_id (filter P l)). apply NoDup_map_filter. rewrite map_id. exact H.
Qed.

Lemma NoDup_snoc : forall {A} (l : list A) x, NoDup l -> ~ In x l -> NoDup (l ++ [x]).
Proof.
  induction l as [|y r IH]; cbn; intros x H Hn; [constructor; [exact (fun f => f)|constructor]|].
  inversion H as [|? ? Hy Hr]; subst. constructor.
  - intro Hin. apply in_app_or in Hin. destruct Hin as [Hin|[Hin|[]]]; [exact (Hy Hin)|]. apply Hn. left. symmetry. exact Hin.
  - apply IH; [exact Hr|]. intro Hin. apply Hn. right. exact Hin.
Qed.

Lemma NoDup_coalesce_e : forall l, NoDup l -> NoDup (coalesce_e l).
Proof.
  intros l H. unfold coalesce_e.
  destruct (filter is_litsub l) as [|a r] eqn:El; [apply NoDup_filter; exact H|].
  apply NoDup_snoc; [apply NoDup_filter; exact H|].
  intro Hin. apply filter_In in Hin. destruct Hin as [_ Hl]. cbn in Hl. discriminate.
Qed.

Lemma filter_enone_nonempty : forall l, NoDup l -> 2 <= length l ->
  filter (fun e => negb (is_enone e)) l <> [].
Proof.
  intros l Hn Hl. destruct l as [|a [|b r]]; cbn in Hl; try lia.
  cbn. destruct a; cbn; try discriminate. destruct b; cbn; try discriminate.
  inversion Hn as [|? ? Hna _]; subst. exfalso. apply Hna. left. reflexivity.
Qed.

Lemma wfe_union1_e : forall l, forallb wfe l = true -> l <> [] -> wfe (union1_e l) = true.
Proof.
  intros l Hw Hl. unfold union1_e. pose proof (wfe_coalesce_e l Hw) as Hc.
  pose proof (coalesce_e_nonempty l Hl) as Hne.
  destruct (coalesce_e l) as [|a [|b r]]; [congruence| cbn in Hc; rewrite andb_true_r in Hc; exact Hc | exact Hc].
Qed.

Lemma wfe_union_e : forall l, forallb wfe l = true -> l <> [] -> NoDup l -> wfe (union_e l) = true.
Proof.
  intros l Hw Hl Hn. unfold union_e. pose proof (wfe_coalesce_e l Hw) as Hc.
  pose proof (coalesce_e_nonempty l Hl) as Hne. pose proof (NoDup_coalesce_e l Hn) as Hnc.
  destruct (coalesce_e l) as [|a [|b r]] eqn:E; [congruence| cbn in Hc; rewrite andb_true_r in Hc; exact Hc |].
  destruct (existsb is_enone (a :: b :: r)); [|exact Hc].
  cbn [wfe forallb]. rewrite andb_true_r. apply wfe_union1_e.
  - rewrite forallb_forall in *. intros x Hx. apply filter_In in Hx. apply Hc. apply Hx.
  - apply filter_enone_nonempty; [exact Hnc | cbn; lia].
Qed.

(* ------------------------------------------------------------------------------------------------ *)
(* the printer, seen as producing an expression *)

Definition name_expr (n : name) : expr :=
  if (name_id n =? id_NoneType)%N then ENone else EName (name_id n).
Definition lit_expr (v : lit) : expr :=
  match v with LInt z => EInt z | LBool _ b => EBool b | LStr i => EStr i | LEnum i => EName i end.

Fixpoint to_expr (c : ctx) (t : ty) : expr :=
  match t with
  | Named n => name_expr n
  | AnyT => EName id_Any
  | NothingT => EName id_nothing
  | TParam i => EName i
  | Lit v => ESub id_Literal [lit_expr v]
  | Generic b ps =>
      let args := map (to_expr c) ps in
      if prints_tuple b then ESub (name_id b) (args ++ [EEllipsis])
      else if name_eqb b (NT id_Callable) then ESub (name_id b) (EEllipsis :: tl args)
      else ESub (name_id b) args
  | TupleT b ps =>
      let args := map (to_expr c) ps in
      match ps with
      | [] => ESub (name_id b) [ETuple0]
      | _ => if name_eqb b (NT id_Callable) then ESub (name_id b) (EEllipsis :: tl args)
             else ESub (name_id b) args
      end
  | CallableT b ps =>
      let args := map (to_expr c) ps in
      ESub (name_id b) [EList (removelast args); last args ENone]
  | Union ts => union_e (form_set_on c flat (map (to_expr c) ts))
  | Annot t a => ESub id_Annotated (to_expr c t :: map EStr a)
  end.

Lemma print_lit_flat : forall v, [print_lit v] = flat (lit_expr v).
Proof. destruct v; reflexivity. Qed.

Lemma print_name_flat : forall n, print_name n = flat (name_expr n).
Proof. intros n. unfold print_name, name_expr. destruct (name_id n =? id_NoneType)%N; reflexivity. Qed.

Lemma print_name_base : forall n, (name_id n =? id_NoneType)%N = false -> print_name n = [TName (name_id n)].
Proof. intros n H. unfold print_name. rewrite H. reflexivity. Qed.

Lemma prints_tuple_id : forall b, prints_tuple b = true -> name_id b = id_tuple.
Proof.
  intros b H. unfold prints_tuple in H. apply tokens_eqb_true in H. unfold print_name in H.
  destruct (name_id b =? id_NoneType)%N; [discriminate|]. injection H as H. exact H.
Qed.

Lemma name_eqb_eq : forall a b, name_eqb a b = true -> a = b.
Proof. destruct a, b; cbn; intros H; try discriminate; apply N.eqb_eq in H; congruence. Qed.
Lemma name_eqb_refl : forall a, name_eqb a a = true.
Proof. destruct a; cbn; apply N.eqb_refl. Qed.

Lemma removelast_map : forall {A B} (f : A -> B) l, removelast (map f l) = map f (removelast l).
Proof. induction l as [|x [|y r] IH]; cbn in *; [reflexivity|reflexivity|]. f_equal. exact IH. Qed.
Lemma last_map : forall {A B} (f : A -> B) l d d', l <> [] -> last (map f l) d = f (last l d').
Proof. induction l as [|x [|y r] IH]; intros d d' H; [congruence|reflexivity|]. cbn [map]. cbn [map] in IH. apply (IH d d'). discriminate. Qed.

Lemma map_tl' : forall {A B} (f : A -> B) l, map f (tl l) = tl (map f l).
Proof. destruct l; reflexivity. Qed.

Lemma forallb_Forall_in : forall {A} (f : A -> bool) (P : A -> Prop) l,
  Forall (fun x => f x = true -> P x) l -> forallb f l = true -> forall x, In x l -> P x.
Proof.
  intros A f P l HF Hb x Hx. rewrite Forall_forall in HF. rewrite forallb_forall in Hb. auto.
Qed.

Lemma print_to_expr : forall env c t, wf env t = true ->
  print_ty c t = flat (to_expr c t) /\ wfe (to_expr c t) = true.
Proof.
  intros env c. induction t using ty_ind'; intros Hwf.
  - cbn. split; [apply print_name_flat|]. unfold name_expr. destruct (_ =? _)%N; reflexivity.
  - split; reflexivity.
  - split; reflexivity.
  - split; reflexivity.
  - cbn. split; [unfold sub; cbn; rewrite <- print_lit_flat; reflexivity|]. destruct v; reflexivity.
  - (* Generic *)
    cbn [wf] in Hwf. apply andb_true_iff in Hwf. destruct Hwf as [Hwf Hshape].
    apply andb_true_iff in Hwf. destruct Hwf as [Hwf Hps].
    apply andb_true_iff in Hwf. destruct Hwf as [Hwf Hnn].
    pose proof (forallb_Forall_in _ _ _ H Hps) as IH.
    assert (Hmap: map (print_ty c) ps = map flat (map (to_expr c) ps)).
    { rewrite map_map. apply map_ext_in. intros x Hx. apply IH. exact Hx. }
    assert (Hw: forallb wfe (map (to_expr c) ps) = true).
    { rewrite forallb_forall. intros e He. apply in_map_iff in He. destruct He as (x & <- & Hx). apply IH. exact Hx. }
    apply negb_true_iff in Hnn.
    cbn [print_ty to_expr]. fold (prints_tuple b). rewrite (print_name_base b Hnn), Hmap.
    destruct (prints_tuple b) eqn:Et.
    + split.
      * change [[TEllipsis]] with (map flat [EEllipsis]). rewrite <- map_app. reflexivity.
      * cbn [wfe]. rewrite forallb_app, Hw. cbn. destruct (map (to_expr c) ps); reflexivity.
    + destruct (name_eqb b (NT id_Callable)) eqn:Ec.
      * split.
        -- rewrite <- map_tl'. change ([TEllipsis] :: map flat (tl (map (to_expr c) ps))) with (map flat (EEllipsis :: tl (map (to_expr c) ps))). reflexivity.
        -- cbn [wfe forallb]. cbn. destruct (map (to_expr c) ps) as [|e0 es0]; [reflexivity|]. cbn in Hw. apply andb_true_iff in Hw. apply Hw.
      * split; [reflexivity|]. cbn [wfe]. destruct ps as [|p0 ps0]; [discriminate|]. exact Hw.
  - (* TupleT *)
    cbn [wf] in Hwf. apply andb_true_iff in Hwf. destruct Hwf as [Hwf Hps].
    apply andb_true_iff in Hwf. destruct Hwf as [Hwf Hwn].
    pose proof (forallb_Forall_in _ _ _ H Hps) as IH.
    assert (Hmap: map (print_ty c) ps = map flat (map (to_expr c) ps)).
    { rewrite map_map. apply map_ext_in. intros x Hx. apply IH. exact Hx. }
    assert (Hw: forallb wfe (map (to_expr c) ps) = true).
    { rewrite forallb_forall. intros e He. apply in_map_iff in He. destruct He as (x & <- & Hx). apply IH. exact Hx. }
    pose proof (prints_tuple_id b Hwf) as Hid.
    assert (Hpn: print_name b = [TName (name_id b)]) by (apply print_name_base; rewrite Hid; reflexivity).
    assert (Hc: name_eqb b (NT id_Callable) = false).
    { destruct (name_eqb b (NT id_Callable)) eqn:E; [|reflexivity]. apply name_eqb_eq in E. subst b. discriminate. }
    cbn [print_ty to_expr]. rewrite Hpn, Hc, Hmap.
    destruct ps as [|p0 ps0]; [split; reflexivity|]. split; [reflexivity|]. exact Hw.
  - (* CallableT *)
    cbn [wf] in Hwf. apply andb_true_iff in Hwf. destruct Hwf as [Hwf Hne].
    apply andb_true_iff in Hwf. destruct Hwf as [Hwf Hps].
    pose proof (forallb_Forall_in _ _ _ H Hps) as IH.
    assert (Hmap: map (print_ty c) ps = map flat (map (to_expr c) ps)).
    { rewrite map_map. apply map_ext_in. intros x Hx. apply IH. exact Hx. }
    assert (Hw: forallb wfe (map (to_expr c) ps) = true).
    { rewrite forallb_forall. intros e He. apply in_map_iff in He. destruct He as (x & <- & Hx). apply IH. exact Hx. }
    apply name_eqb_eq in Hwf. subst b.
    cbn [print_ty to_expr]. rewrite Hmap.
    assert (Hnz: map (to_expr c) ps <> []) by (destruct ps; [discriminate|cbn; discriminate]).
    split.
    + unfold sub. cbn [print_name name_id]. cbn [flat map]. rewrite removelast_map.
      rewrite (last_map flat _ [] ENone Hnz). reflexivity.
    + cbn [wfe forallb]. rewrite andb_true_r. apply andb_true_iff. split.
      * rewrite forallb_forall in *. intros e He. apply Hw.
        clear -He. induction (map (to_expr c) ps) as [|a [|b r] IH']; cbn in *; [contradiction|contradiction|].
        destruct He as [He|He]; [left; exact He|right; apply IH'; exact He].
      * rewrite forallb_forall in Hw. apply Hw.
        clear -Hnz. induction (map (to_expr c) ps) as [|a [|b r] IH']; [congruence|left; reflexivity|].
        right. apply IH'. discriminate.
  - (* Union *)
    cbn [wf] in Hwf. apply andb_true_iff in Hwf. destruct Hwf as [Hwf Hne].
    apply andb_true_iff in Hwf. destruct Hwf as [Hts Hflat].
    pose proof (forallb_Forall_in _ _ _ H Hts) as IH.
    assert (Hmap: map (print_ty c) ts = map flat (map (to_expr c) ts)).
    { rewrite map_map. apply map_ext_in. intros x Hx. apply IH. exact Hx. }
    assert (Hw: forallb wfe (map (to_expr c) ts) = true).
    { rewrite forallb_forall. intros e He. apply in_map_iff in He. destruct He as (x & <- & Hx). apply IH. exact Hx. }
    cbn [print_ty to_expr]. rewrite Hmap. rewrite <- map_form_set_on.
    assert (Hw': forallb wfe (form_set_on c flat (map (to_expr c) ts)) = true).
    { rewrite forallb_forall in *. intros e He. apply Hw. eapply form_set_on_incl. exact He. }
    split; [apply build_union_flat; exact Hw'|].
    apply wfe_union_e; [exact Hw' | |].
    + apply form_set_on_nonempty. destruct ts; [discriminate|cbn; discriminate].
    + eapply NoDup_map_inv. apply NoDup_form_set_on.
  - (* Annot *)
    cbn [wf] in Hwf. apply andb_true_iff in Hwf. destruct Hwf as [Hwt Ha].
    destruct (IHt Hwt) as [IH1 IH2].
    cbn [print_ty to_expr]. rewrite IH1. split.
    + unfold sub. cbn [flat map app]. do 3 f_equal. rewrite map_map. reflexivity.
    + cbn [wfe forallb]. rewrite IH2. cbn. clear. induction a; cbn; [reflexivity|exact IHa].
Qed.

(* ------------------------------------------------------------------------------------------------ *)
(* facts about identifiers that follow from the dialect predicate *)

Lemma is_special_false : forall i, is_special i = false ->
  (i =? id_Any)%N = false /\ (i =? id_Optional)%N = false /\ (i =? id_Union)%N = false /\
  (i =? id_Literal)%N = false /\ (i =? id_nothing)%N = false /\ (i =? id_Annotated)%N = false /\
  (i =? id_Type)%N = false.
Proof.
  intros i H. unfold is_special in H. repeat (apply orb_false_iff in H; destruct H as [H ?]). tauto.
Qed.

Lemma ord_id_facts : forall env i, ord_id env i = true ->
  is_typing i = false /\ is_special i = false /\ is_tvar env i = false.
Proof.
  intros env i H. unfold ord_id in H. apply andb_true_iff in H. destruct H as [H H3].
  apply andb_true_iff in H. destruct H as [H1 H2]. rewrite negb_true_iff in *. tauto.
Qed.

Lemma conv_name_ord : forall env i, ord_id env i = true -> conv_name env i = Some (Named (NP i)).
Proof.
  intros env i H. destruct (ord_id_facts env i H) as (Ht & Hs & Hv).
  destruct (is_special_false i Hs) as (E1 & E2 & E3 & E4 & E5 & E6 & E7).
  unfold conv_name. rewrite E5, E1, E2, E3, E7, Hv, Ht. reflexivity.
Qed.

Lemma conv_name_typing : forall env i, is_typing i = true -> is_special i = false -> is_tvar env i = false ->
  conv_name env i = Some (Named (NT i)).
Proof.
  intros env i Ht Hs Hv. destruct (is_special_false i Hs) as (E1 & E2 & E3 & E4 & E5 & E6 & E7).
  unfold conv_name. rewrite E5, E1, E2, E3, E7, Hv, Ht. reflexivity.
Qed.

Lemma wf_name_conv : forall env n, wf_name env n = true -> (name_id n =? id_NoneType)%N = false ->
  conv_name env (name_id n) = Some (Named (norm_name n)).
Proof.
  intros env n H Hn. destruct n as [i|i|i]; cbn in *.
  - apply conv_name_ord. exact H.
  - apply andb_true_iff in H. destruct H as [H Hv]. apply andb_true_iff in H. destruct H as [Ht Hs].
    rewrite negb_true_iff in *. apply conv_name_typing; assumption.
  - apply conv_name_ord. exact H.
Qed.

Lemma wf_name_none : forall env n, wf_name env n = true -> (name_id n =? id_NoneType)%N = true ->
  norm_name n = NP id_NoneType.
Proof.
  intros env n H Hn. apply N.eqb_eq in Hn. destruct n as [i|i|i]; cbn in *; subst; try reflexivity.
  cbn in H. discriminate.
Qed.

(* the shape of what the printer produces for a type *)
Definition type_like (e : expr) : Prop :=
  match e with EName _ | ENone | ESub _ _ => True | _ => False end.

Lemma union1_e_like : forall l, Forall type_like l -> l <> [] -> type_like (union1_e l).
Proof.
  intros l H Hl. unfold union1_e. pose proof (coalesce_e_nonempty l Hl) as Hne.
  destruct (coalesce_e l) as [|a [|b r]] eqn:E; [congruence| |exact I].
  unfold coalesce_e in E. destruct (filter is_litsub l) as [|q qs].
  - assert (In a (filter (fun e => negb (is_litsub e)) l)) by (rewrite E; left; reflexivity).
    apply filter_In in H0. rewrite Forall_forall in H. apply H. apply H0.
  - destruct (filter (fun e => negb (is_litsub e)) l) as [|z [|z2 zs]]; cbn in E; try discriminate.
    injection E as <-. exact I.
Qed.

Lemma union_e_like : forall l, Forall type_like l -> l <> [] -> type_like (union_e l).
Proof.
  intros l H Hl. unfold union_e. pose proof (coalesce_e_nonempty l Hl) as Hne.
  destruct (coalesce_e l) as [|a [|b r]] eqn:E; [congruence| |destruct (existsb _ _); exact I].
  unfold coalesce_e in E. destruct (filter is_litsub l) as [|q qs].
  - assert (In a (filter (fun e => negb (is_litsub e)) l)) by (rewrite E; left; reflexivity).
    apply filter_In in H0. rewrite Forall_forall in H. apply H. apply H0.
  - destruct (filter (fun e => negb (is_litsub e)) l) as [|z [|z2 zs]]; cbn in E; try discriminate.
    injection E as <-. exact I.
Qed.

Lemma to_expr_like : forall env c t, wf env t = true -> type_like (to_expr c t).
Proof.
  intros env c. induction t using ty_ind'; intros Hwf; cbn [to_expr]; try exact I.
  - unfold name_expr. destruct (_ =? _)%N; exact I.
  - destruct (prints_tuple b); [exact I|]. destruct (name_eqb _ _); exact I.
  - destruct ps; [exact I|]. destruct (name_eqb _ _); exact I.
  - cbn [wf] in Hwf. apply andb_true_iff in Hwf. destruct Hwf as [Hwf Hne].
    apply andb_true_iff in Hwf. destruct Hwf as [Hts Hflat].
    apply union_e_like.
    + rewrite Forall_forall. intros e He. apply form_set_on_incl in He. apply in_map_iff in He.
      destruct He as (x & <- & Hx). rewrite Forall_forall in H. apply H; [exact Hx|].
      rewrite forallb_forall in Hts. apply Hts. exact Hx.
    + apply form_set_on_nonempty. destruct ts; [discriminate|cbn; discriminate].
Qed.

Lemma mapM_map : forall {A B C} (f : B -> option C) (g : A -> B) (h : A -> C) l,
  (forall x, In x l -> f (g x) = Some (h x)) -> mapM f (map g l) = Some (map h l).
Proof.
  induction l as [|x r IH]; intros H; cbn; [reflexivity|].
  rewrite (H x (or_introl eq_refl)). cbn in IH. rewrite IH; [reflexivity|].
  intros y Hy. apply H. right. exact Hy.
Qed.

Lemma mapM_app : forall {A B} (f : A -> option B) l1 l2 r1 r2,
  mapM f l1 = Some r1 -> mapM f l2 = Some r2 -> mapM f (l1 ++ l2) = Some (r1 ++ r2).
Proof.
  induction l1 as [|x r IH]; intros l2 r1 r2 H1 H2; cbn in *.
  - injection H1 as <-. exact H2.
  - destruct (f x); [|discriminate].
    destruct (mapM f r) eqn:E; [|discriminate]. injection H1 as <-.
    cbn in IH. rewrite (IH l2 l r2 eq_refl H2). reflexivity.
Qed.

(* ------------------------------------------------------------------------------------------------ *)
(* the reader's conversions applied to the printed expression give norm *)

Lemma wf_name_special : forall env b, wf_name env b = true -> is_special (name_id b) = false.
Proof.
  intros env b H. destruct b as [i|i|i]; cbn in *.
  - apply ord_id_facts in H. tauto.
  - apply andb_true_iff in H. destruct H as [H _]. apply andb_true_iff in H. destruct H as [_ H].
    apply negb_true_iff in H. exact H.
  - apply ord_id_facts in H. tauto.
Qed.

Lemma is_litsub_to_expr : forall env c t, wf env t = true -> is_union t = false ->
  is_litsub (to_expr c t) = is_lit t.
Proof.
  intros env c t Hwf Hu. destruct t; cbn [to_expr is_lit]; try reflexivity.
  - unfold name_expr. destruct (_ =? _)%N; reflexivity.
  - cbn [wf] in Hwf. apply andb_true_iff in Hwf. destruct Hwf as [Hwf _].
    apply andb_true_iff in Hwf. destruct Hwf as [Hwf _]. apply andb_true_iff in Hwf. destruct Hwf as [Hwf _].
    apply wf_name_special in Hwf. apply is_special_false in Hwf.
    destruct (prints_tuple b); [|destruct (name_eqb _ _)]; cbn; tauto.
  - cbn [wf] in Hwf. apply andb_true_iff in Hwf. destruct Hwf as [Hwf _].
    apply andb_true_iff in Hwf. destruct Hwf as [Hwf _]. apply prints_tuple_id in Hwf.
    destruct ps; [|destruct (name_eqb _ _)]; cbn; rewrite Hwf; reflexivity.
  - cbn [wf] in Hwf. apply andb_true_iff in Hwf. destruct Hwf as [Hwf _].
    apply andb_true_iff in Hwf. destruct Hwf as [Hwf _]. apply name_eqb_eq in Hwf. subst. reflexivity.
  - discriminate.
Qed.

Definition fe (c : ctx) (p : ty * ty) : expr := to_expr c (fst p).
Definition lit_of (t : ty) : expr := match t with Lit v => lit_expr v | _ => ENone end.
Definition lit_group (ls : list (ty * ty)) : expr := ESub id_Literal (map (fun p => lit_of (fst p)) ls).
Definition lge (ls : list (ty * ty)) : list expr := match ls with [] => [] | _ => [lit_group ls] end.
Definition lgt (ls : list (ty * ty)) : list ty := match ls with [] => [] | _ => [join_types (map snd ls)] end.

(* what is known about a member of a union and its canonical form *)
Definition member_ok (env : penv) (c : ctx) (p : ty * ty) : Prop :=
  wf env (fst p) = true /\ is_union (fst p) = false /\ conv env (fe c p) = Some (snd p) /\
  (is_lit (fst p) = true -> exists v, fst p = Lit v /\ snd p = Lit (pv v)).

Lemma conv_lit_arg_expr : forall v, conv_lit_arg (lit_expr v) = Some (Lit (pv v)).
Proof. destruct v; reflexivity. Qed.

Lemma flat_map_lit_args : forall c l,
  (forall p, In p l -> lit_args (fe c p) = [lit_of (fst p)]) ->
  flat_map lit_args (map (fe c) l) = map (fun p => lit_of (fst p)) l.
Proof.
  induction l as [|p r IH]; intros Hls; [reflexivity|].
  cbn [map flat_map]. rewrite (Hls p (or_introl eq_refl)). cbn [app]. f_equal.
  apply IH. intros x Hx. apply Hls. right. exact Hx.
Qed.

Lemma coalesce_e_members : forall env c ks,
  (forall p, In p ks -> member_ok env c p) ->
  coalesce_e (map (fe c) ks) =
  map (fe c) (filter (fun p => negb (u_lit p)) ks) ++ lge (filter u_lit ks).
Proof.
  intros env c ks H. unfold coalesce_e.
  assert (E1: filter (fun e => negb (is_litsub e)) (map (fe c) ks) = map (fe c) (filter (fun p => negb (u_lit p)) ks)).
  { rewrite <- (map_filter_comm (fe c) (fun e => negb (is_litsub e))). f_equal.
    apply filter_ext_in'. intros p Hp. destruct (H p Hp) as (Hw & Hu & _). unfold fe, u_lit.
    rewrite (is_litsub_to_expr env c _ Hw Hu). reflexivity. }
  assert (E2: filter is_litsub (map (fe c) ks) = map (fe c) (filter u_lit ks)).
  { rewrite <- (map_filter_comm (fe c) is_litsub). f_equal.
    apply filter_ext_in'. intros p Hp. destruct (H p Hp) as (Hw & Hu & _). unfold fe, u_lit.
    apply (is_litsub_to_expr env c _ Hw Hu). }
  rewrite E1, E2.
  assert (Hls: forall p, In p (filter u_lit ks) -> lit_args (fe c p) = [lit_of (fst p)]).
  { intros p Hp. apply filter_In in Hp. destruct Hp as [Hp Hl]. destruct (H p Hp) as (_ & _ & _ & Hv).
    destruct (Hv Hl) as (v & Ev & _). unfold fe. rewrite Ev. reflexivity. }
  destruct (filter u_lit ks) as [|q qs]; [cbn; rewrite app_nil_r; reflexivity|].
  cbn [map]. unfold lge, lit_group. f_equal. f_equal. f_equal.
  change (fe c q :: map (fe c) qs) with (map (fe c) (q :: qs)).
  apply flat_map_lit_args. exact Hls.
Qed.

Lemma conv_literal : forall env args,
  conv env (ESub id_Literal args) =
  match args, mapM conv_lit_arg args with
  | _ :: _, Some ls => Some (join_types ls)
  | _, _ => None
  end.
Proof. reflexivity. Qed.

Lemma conv_union_sub : forall env args,
  conv env (ESub id_Union args) =
  match args, mapM (conv env) args with
  | _ :: _, Some ps => Some (mk_union ps)
  | _, _ => None
  end.
Proof. reflexivity. Qed.

Lemma conv_optional_sub : forall env x,
  conv env (ESub id_Optional [x]) =
  match conv env x with
  | Some x' => Some (mk_union [x'; Named (NP id_NoneType)])
  | None => None
  end.
Proof. reflexivity. Qed.

Lemma conv_lit_group : forall env c ls,
  (forall p, In p ls -> member_ok env c p /\ u_lit p = true) -> ls <> [] ->
  conv env (lit_group ls) = Some (join_types (map snd ls)).
Proof.
  intros env c ls H Hne. unfold lit_group. rewrite conv_literal.
  assert (E: mapM conv_lit_arg (map (fun p => lit_of (fst p)) ls) = Some (map snd ls)).
  { apply mapM_map. intros p Hp. destruct (H p Hp) as [(_ & _ & _ & Hv) Hl].
    destruct (Hv Hl) as (v & Ev & En). rewrite Ev, En. cbn. apply conv_lit_arg_expr. }
  destruct ls as [|q qs]; [congruence|].
  cbn [map] in *. rewrite E. reflexivity.
Qed.

Lemma conv_items : forall env c X ls,
  (forall p, In p X -> member_ok env c p) ->
  (forall p, In p ls -> member_ok env c p /\ u_lit p = true) ->
  mapM (conv env) (map (fe c) X ++ lge ls) = Some (map snd X ++ lgt ls).
Proof.
  intros env c X ls HX Hls. apply mapM_app.
  - apply mapM_map. intros p Hp. apply (HX p Hp).
  - destruct ls as [|q qs]; [reflexivity|]. unfold lge, lgt. cbn [mapM].
    rewrite (conv_lit_group env c (q :: qs) Hls ltac:(discriminate)). reflexivity.
Qed.

Lemma coalesce_e_again : forall env c X ls,
  (forall p, In p X -> member_ok env c p /\ u_lit p = false) ->
  coalesce_e (map (fe c) X ++ lge ls) = map (fe c) X ++ lge ls.
Proof.
  intros env c X ls HX. unfold coalesce_e.
  assert (EX1: filter (fun e => negb (is_litsub e)) (map (fe c) X) = map (fe c) X).
  { induction X as [|p r IH]; [reflexivity|]. cbn [map filter].
    destruct (HX p (or_introl eq_refl)) as [(Hw & Hu & _) Hl]. unfold fe at 1.
    rewrite (is_litsub_to_expr env c _ Hw Hu). unfold u_lit in Hl. rewrite Hl. cbn. f_equal.
    apply IH. intros x Hx. apply HX. right. exact Hx. }
  assert (EX2: filter is_litsub (map (fe c) X) = []).
  { clear EX1. induction X as [|p r IH]; [reflexivity|]. cbn [map filter].
    destruct (HX p (or_introl eq_refl)) as [(Hw & Hu & _) Hl]. unfold fe at 1.
    rewrite (is_litsub_to_expr env c _ Hw Hu). unfold u_lit in Hl. rewrite Hl.
    apply IH. intros x Hx. apply HX. right. exact Hx. }
  rewrite !filter_app, EX1, EX2.
  destruct ls as [|q qs]; cbn [lge]; [cbn; rewrite !app_nil_r; reflexivity|].
  cbn [filter lit_group is_litsub]. rewrite N.eqb_refl. cbn [negb app].
  rewrite app_nil_r. f_equal. unfold lit_group. cbn [flat_map lit_args]. rewrite N.eqb_refl, app_nil_r. reflexivity.
Qed.

Lemma is_enone_fe : forall env c p, member_ok env c p -> is_enone (fe c p) = u_none c p.
Proof.
  intros env c p (Hw & _). unfold u_none, u_key, fe.
  destruct (print_to_expr env c (fst p) Hw) as [E _]. rewrite E. symmetry. apply is_none_flat.
Qed.

Lemma match_len2 : forall {A B} (l : list A) (f : A -> B) (g : list A -> B),
  2 <= length l -> match l with [x] => f x | l' => g l' end = g l.
Proof. intros A B l f g H. destruct l as [|a [|b r]]; cbn in H; try lia; reflexivity. Qed.

Lemma mapM_length : forall {A B} (f : A -> option B) l r, mapM f l = Some r -> length l = length r.
Proof.
  induction l as [|x l IH]; intros r H; cbn in H.
  - injection H as <-. reflexivity.
  - destruct (f x); [|discriminate]. destruct (mapM f l) eqn:E; [|discriminate].
    injection H as <-. cbn. f_equal. apply IH. reflexivity.
Qed.

Lemma NoDup_same_key : forall {A K} (key : A -> K) (k : K) l,
  NoDup (map key l) -> (forall x, In x l -> key x = k) -> length l <= 1.
Proof.
  intros A K key k l Hn H. destruct l as [|a [|b r]]; cbn; try lia.
  exfalso. cbn in Hn. inversion Hn as [|? ? Hna _]; subst. apply Hna. left.
  rewrite (H a), (H b); [reflexivity| right; left; reflexivity | left; reflexivity].
Qed.

Lemma existsb_enone_items : forall env c nl ls,
  (forall p, In p nl -> member_ok env c p) ->
  existsb is_enone (map (fe c) nl ++ lge ls) = existsb (u_none c) nl.
Proof.
  intros env c nl ls H. rewrite existsb_app.
  assert (E: existsb is_enone (lge ls) = false) by (destruct ls; reflexivity).
  rewrite E, orb_false_r. induction nl as [|p r IH]; [reflexivity|].
  cbn [map existsb]. rewrite (is_enone_fe env c p (H p (or_introl eq_refl))). f_equal.
  apply IH. intros x Hx. apply H. right. exact Hx.
Qed.

Lemma filter_enone_items : forall env c nl ls,
  (forall p, In p nl -> member_ok env c p) ->
  filter (fun e => negb (is_enone e)) (map (fe c) nl ++ lge ls) =
  map (fe c) (filter (fun p => negb (u_none c p)) nl) ++ lge ls.
Proof.
  intros env c nl ls H. rewrite filter_app. f_equal.
  - rewrite <- (map_filter_comm (fe c) (fun e => negb (is_enone e))). f_equal.
    apply filter_ext_in'. intros p Hp. rewrite (is_enone_fe env c p (H p Hp)). reflexivity.
  - destruct ls; reflexivity.
Qed.

Lemma conv_union_core : forall env c nl ls,
  (forall p, In p nl -> member_ok env c p /\ u_lit p = false) ->
  (forall p, In p ls -> member_ok env c p /\ u_lit p = true) ->
  nl ++ ls <> [] -> NoDup (map (u_key c) nl) ->
  conv env (match map (fe c) nl ++ lge ls with
            | [x] => x
            | l' => if existsb is_enone l'
                    then ESub id_Optional [union1_e (filter (fun e => negb (is_enone e)) l')]
                    else ESub id_Union l'
            end) =
  Some (match map snd nl ++ lgt ls with
        | [] => Union []
        | [x] => x
        | _ => if existsb (u_none c) nl
               then mk_union [match map snd (filter (fun p => negb (u_none c p)) nl) ++ lgt ls with
                              | [x] => x | l => mk_union l end; Named (NP id_NoneType)]
               else mk_union (map snd nl ++ lgt ls)
        end).
Proof.
  intros env c nl ls Hnl Hls Hne Hnd.
  assert (Hnl1: forall p, In p nl -> member_ok env c p) by (intros p Hp; apply (Hnl p Hp)).
  pose proof (conv_items env c nl ls Hnl1 Hls) as HM.
  pose proof (existsb_enone_items env c nl ls Hnl1) as HE.
  pose proof (filter_enone_items env c nl ls Hnl1) as HF.
  set (nl' := filter (fun p => negb (u_none c p)) nl) in *.
  assert (Hnl': forall p, In p nl' -> member_ok env c p /\ u_lit p = false).
  { intros p Hp. apply filter_In in Hp. apply Hnl. apply Hp. }
  assert (Hnl'1: forall p, In p nl' -> member_ok env c p) by (intros p Hp; apply (Hnl' p Hp)).
  pose proof (conv_items env c nl' ls Hnl'1 Hls) as HM'.
  pose proof (coalesce_e_again env c nl' ls Hnl') as HC.
  assert (Hlen: length (map (fe c) nl ++ lge ls) = length (map snd nl ++ lgt ls)) by (apply (mapM_length _ _ _ HM)).
  assert (Hlen': length (map (fe c) nl' ++ lge ls) = length (map snd nl' ++ lgt ls)) by (apply (mapM_length _ _ _ HM')).
  assert (Hnz: map (fe c) nl ++ lge ls <> []).
  { destruct nl; [destruct ls; [cbn in Hne; congruence|discriminate]|discriminate]. }
  destruct (map (fe c) nl ++ lge ls) as [|a [|b r]] eqn:EI; [congruence| |].
  - (* a single item *)
    destruct (map snd nl ++ lgt ls) as [|a' [|b' r']]; cbn in Hlen; try lia.
    cbn in HM. destruct (conv env a); [|discriminate]. injection HM as <-. reflexivity.
  - destruct (map snd nl ++ lgt ls) as [|a' [|b' r']] eqn:ET; cbn in Hlen; try lia.
    cbv beta iota zeta. rewrite HE. destruct (existsb (u_none c) nl) eqn:EN.
    + rewrite HF. unfold union1_e. rewrite HC.
      assert (Hnz': map (fe c) nl' ++ lge ls <> []).
      { intro E0. apply app_eq_nil in E0. destruct E0 as [E1 E2]. apply map_eq_nil in E1.
        destruct ls; [|discriminate].
        assert (Hall: forall x, In x nl -> u_key c x = [TNone]).
        { intros x Hx. destruct (u_none c x) eqn:Ex; [unfold u_none, is_none_s in Ex; apply tokens_eqb_true in Ex; exact Ex|].
          assert (In x nl') by (apply filter_In; split; [exact Hx|rewrite Ex; reflexivity]). rewrite E1 in H. contradiction. }
        pose proof (NoDup_same_key (u_key c) [TNone] nl Hnd Hall) as Hle.
        cbn [lge] in EI. rewrite app_nil_r in EI. apply (f_equal (@length _)) in EI. rewrite map_length in EI. cbn in EI. lia. }
      rewrite conv_optional_sub.
      destruct (map (fe c) nl' ++ lge ls) as [|x [|y s]] eqn:EI'; [congruence| |].
      * destruct (map snd nl' ++ lgt ls) as [|x' [|y' s']]; cbn in Hlen'; try lia.
        cbn in HM'. destruct (conv env x); [|discriminate]. injection HM' as <-. reflexivity.
      * destruct (map snd nl' ++ lgt ls) as [|x' [|y' s']] eqn:ET'; cbn in Hlen'; try lia.
        rewrite conv_union_sub. rewrite HM'. reflexivity.
    + rewrite conv_union_sub. rewrite HM. reflexivity.
Qed.

Lemma conv_generic_sub : forall env i args,
  (i =? id_Literal)%N = false -> (i =? id_Annotated)%N = false -> (i =? id_tuple)%N = false ->
  (i =? id_Callable)%N = false -> (i =? id_Any)%N = false -> (i =? id_Optional)%N = false ->
  (i =? id_Union)%N = false ->
  conv env (ESub i args) =
  match args, conv_base env i, mapM (conv env) args with
  | _ :: _, Some n, Some ps => Some (Generic n ps)
  | _, _, _ => None
  end.
Proof. intros env i args H1 H2 H3 H4 H5 H6 H7. cbn [conv]. rewrite H1, H2, H3, H4, H5, H6, H7. reflexivity. Qed.

Lemma conv_tuple_sub : forall env args,
  conv env (ESub id_tuple args) =
  match args with
  | [ETuple0] => Some (TupleT (NP id_tuple) [])
  | [x; EEllipsis] =>
      match conv env x with Some x' => Some (Generic (NP id_tuple) [x']) | None => None end
  | _ => match mapM (conv env) args with Some ps => Some (TupleT (NP id_tuple) ps) | None => None end
  end.
Proof. reflexivity. Qed.

Lemma conv_callable_list : forall env a r,
  conv env (ESub id_Callable [EList a; r]) =
  match mapM (conv env) a, conv env r with
  | Some a', Some r' =>
      match a' with
      | [] | [NothingT] => Some (CallableT (NT id_Callable) [r'])
      | _ => Some (CallableT (NT id_Callable) (a' ++ [r']))
      end
  | _, _ => None
  end.
Proof. reflexivity. Qed.

Lemma conv_callable_ell : forall env r,
  conv env (ESub id_Callable [EEllipsis; r]) =
  match conv env r with Some r' => Some (Generic (NT id_Callable) [AnyT; r']) | None => None end.
Proof. reflexivity. Qed.

Lemma conv_annot_sub : forall env t a0 a,
  conv env (ESub id_Annotated (t :: a0 :: a)) =
  match conv env t, mapM ann_arg (a0 :: a) with
  | Some t', Some x => Some (Annot t' x)
  | _, _ => None
  end.
Proof. reflexivity. Qed.

Lemma app_removelast_last' : forall {A} (l : list A) d, l <> [] -> removelast l ++ [last l d] = l.
Proof. intros. symmetry. apply app_removelast_last. exact H. Qed.

Lemma in_removelast : forall {A} (l : list A) x, In x (removelast l) -> In x l.
Proof.
  induction l as [|a [|b r] IH]; cbn; intros x H; [contradiction|contradiction|].
  destruct H as [H|H]; [left; exact H|right; apply IH; exact H].
Qed.

Lemma in_last : forall {A} (l : list A) d, l <> [] -> In (last l d) l.
Proof.
  induction l as [|a [|b r] IH]; intros d H; [congruence|left; reflexivity|].
  right. apply IH. discriminate.
Qed.

Lemma conv_to_expr : forall env c t, wf env t = true -> conv env (to_expr c t) = Some (norm c t).
Proof.
  intros env c. induction t using ty_ind'; intros Hwf.
  - (* Named *)
    cbn [wf] in Hwf. cbn [to_expr norm]. unfold name_expr.
    destruct (name_id n =? id_NoneType)%N eqn:En.
    + cbn. rewrite (wf_name_none env n Hwf En). reflexivity.
    + cbn [conv]. apply wf_name_conv; assumption.
  - reflexivity.
  - reflexivity.
  - (* TParam *)
    cbn [wf] in Hwf. apply andb_true_iff in Hwf. destruct Hwf as [Hwf Hn].
    apply andb_true_iff in Hwf. destruct Hwf as [Hwf Hs].
    apply andb_true_iff in Hwf. destruct Hwf as [Hv Ht]. rewrite negb_true_iff in *.
    destruct (is_special_false i Hs) as (E1 & E2 & E3 & E4 & E5 & E6 & E7).
    cbn [to_expr conv norm]. unfold conv_name. rewrite E5, E1, E2, E3, E7, Hv. reflexivity.
  - (* Lit *)
    cbn [to_expr norm]. rewrite conv_literal. cbn [mapM]. rewrite conv_lit_arg_expr. reflexivity.
  - (* Generic *)
    cbn [wf] in Hwf. apply andb_true_iff in Hwf. destruct Hwf as [Hwf Hshape].
    apply andb_true_iff in Hwf. destruct Hwf as [Hwf Hps].
    apply andb_true_iff in Hwf. destruct Hwf as [Hwf Hnn]. apply negb_true_iff in Hnn.
    pose proof (forallb_Forall_in _ _ _ H Hps) as IH.
    assert (HM: mapM (conv env) (map (to_expr c) ps) = Some (map (norm c) ps)) by (apply mapM_map; exact IH).
    cbn [to_expr norm]. fold (prints_tuple b).
    destruct (prints_tuple b) eqn:Et.
    + pose proof (prints_tuple_id b Et) as Hid. rewrite Hid.
      apply Nat.eqb_eq in Hshape. destruct ps as [|p0 [|p1 pr]]; cbn in Hshape; try discriminate.
      cbn [map app]. rewrite conv_tuple_sub. rewrite (IH p0 (or_introl eq_refl)).
      assert (Hl := to_expr_like env c p0 ltac:(cbn in Hps; apply andb_true_iff in Hps; apply Hps)).
      destruct (to_expr c p0); try contradiction; reflexivity.
    + destruct (name_eqb b (NT id_Callable)) eqn:Ec.
      * apply name_eqb_eq in Ec. subst b. cbn [name_id].
        destruct ps as [|p0 [|p1 [|p2 pr]]]; try discriminate; destruct p0; try discriminate.
        cbn [map tl]. rewrite conv_callable_ell. rewrite (IH p1); [reflexivity|right; left; reflexivity].
      * assert (Hsp := wf_name_special env b Hwf). destruct (is_special_false _ Hsp) as (E1 & E2 & E3 & E4 & E5 & E6 & E7).
        assert (Etu: (name_id b =? id_tuple)%N = false).
        { destruct (name_id b =? id_tuple)%N eqn:E; [|reflexivity]. apply N.eqb_eq in E.
          unfold prints_tuple, print_name in Et. rewrite Hnn, E in Et. rewrite tokens_eqb_refl in Et. discriminate. }
        assert (Eca: (name_id b =? id_Callable)%N = false).
        { destruct (name_id b =? id_Callable)%N eqn:E; [|reflexivity]. apply N.eqb_eq in E.
          destruct b as [i|i|i]; cbn in E; subst i.
          - cbn in Hwf. discriminate.
          - cbn in Ec. discriminate.
          - cbn in Hwf. discriminate. }
        rewrite (conv_generic_sub env _ _ E4 E6 Etu Eca E1 E2 E3).
        unfold conv_base. rewrite (wf_name_conv env b Hwf Hnn).
        destruct ps as [|p0 pr]; [discriminate|]. cbn [map] in *. rewrite HM. reflexivity.
  - (* TupleT *)
    cbn [wf] in Hwf. apply andb_true_iff in Hwf. destruct Hwf as [Hwf Hps].
    apply andb_true_iff in Hwf. destruct Hwf as [Hwf Hwn].
    pose proof (forallb_Forall_in _ _ _ H Hps) as IH.
    assert (HM: mapM (conv env) (map (to_expr c) ps) = Some (map (norm c) ps)) by (apply mapM_map; exact IH).
    pose proof (prints_tuple_id b Hwf) as Hid.
    assert (Hc: name_eqb b (NT id_Callable) = false).
    { destruct (name_eqb b (NT id_Callable)) eqn:E; [|reflexivity]. apply name_eqb_eq in E. subst b. discriminate. }
    cbn [to_expr norm]. rewrite Hc, Hid.
    destruct ps as [|p0 ps0]; [reflexivity|].
    rewrite conv_tuple_sub.
    assert (Hl: forall p, In p (p0 :: ps0) -> type_like (to_expr c p)).
    { intros p Hp. apply (to_expr_like env). rewrite forallb_forall in Hps. apply Hps. exact Hp. }
    cbn [map] in *.
    destruct ps0 as [|p1 [|p2 pr]].
    + pose proof (Hl p0 (or_introl eq_refl)) as L0. cbn [map] in *.
      destruct (to_expr c p0) eqn:E0; try contradiction; rewrite HM; reflexivity.
    + pose proof (Hl p1 (or_intror (or_introl eq_refl))) as L1. cbn [map] in *.
      destruct (to_expr c p1) eqn:E1; try contradiction; rewrite HM; destruct (to_expr c p0); reflexivity.
    + cbn [map] in *.
      destruct (to_expr c p0); destruct (to_expr c p1); rewrite HM; reflexivity.
  - (* CallableT *)
    cbn [wf] in Hwf. apply andb_true_iff in Hwf. destruct Hwf as [Hwf Hne].
    apply andb_true_iff in Hwf. destruct Hwf as [Hwf Hps].
    pose proof (forallb_Forall_in _ _ _ H Hps) as IH.
    apply name_eqb_eq in Hwf. subst b.
    assert (Hnz: ps <> []) by (destruct ps; [discriminate|discriminate]).
    cbn [to_expr norm name_id]. rewrite conv_callable_list.
    rewrite removelast_map.
    rewrite (last_map (to_expr c) ps ENone AnyT Hnz).
    rewrite (mapM_map (conv env) (to_expr c) (norm c)) by (intros x Hx; apply IH; apply in_removelast; exact Hx).
    rewrite (IH (last ps AnyT) (in_last ps AnyT Hnz)).
    rewrite <- (removelast_map (norm c)).
    rewrite <- (last_map (norm c) ps AnyT AnyT Hnz).
    assert (Hnz': map (norm c) ps <> []) by (destruct ps; [congruence|discriminate]).
    pose proof (app_removelast_last' (map (norm c) ps) AnyT Hnz') as Hall.
    set (r' := last (map (norm c) ps) AnyT) in *.
    destruct (removelast (map (norm c) ps)) as [|a0 [|a1 ar]] eqn:Er.
    + rewrite <- Hall. reflexivity.
    + destruct a0; try (rewrite <- Hall; reflexivity). reflexivity.
    + rewrite <- Hall. destruct a0; reflexivity.
  - (* Union *)
    cbn [wf] in Hwf. apply andb_true_iff in Hwf. destruct Hwf as [Hwf Hne].
    apply andb_true_iff in Hwf. destruct Hwf as [Hts Hflat].
    pose proof (forallb_Forall_in _ _ _ H Hts) as IH.
    cbn [to_expr norm].
    set (pairs := map (fun t => (t, norm c t)) ts).
    assert (Hpairs: forall p, In p pairs -> member_ok env c p).
    { intros p Hp. apply in_map_iff in Hp. destruct Hp as (t & <- & Ht). cbn [fst snd].
      rewrite forallb_forall in Hts, Hflat. specialize (Hflat t Ht). apply negb_true_iff in Hflat.
      repeat split; [apply Hts; exact Ht | exact Hflat | apply IH; exact Ht |].
      intros Hl. cbn in Hl. destruct t; try discriminate. exists v. split; reflexivity. }
    assert (Ees: map (to_expr c) ts = map (fe c) pairs).
    { unfold pairs. rewrite map_map. reflexivity. }
    rewrite Ees. rewrite form_set_on_map.
    rewrite (form_set_on_ext c (fun x => flat (fe c x)) (u_key c) pairs).
    2:{ intros p Hp. destruct (Hpairs p Hp) as (Hw & _). unfold u_key, fe.
        destruct (print_to_expr env c (fst p) Hw) as [E _]. symmetry. exact E. }
    fold (u_ks c pairs).
    assert (Hks: forall p, In p (u_ks c pairs) -> member_ok env c p).
    { intros p Hp. apply Hpairs. eapply form_set_on_incl. exact Hp. }
    unfold union_e. rewrite (coalesce_e_members env c _ Hks).
    fold (u_nl c pairs). fold (u_ls c pairs).
    unfold norm_union.
    change (match u_ls c pairs with [] => [] | _ :: _ => [join_types (map snd (u_ls c pairs))] end) with (lgt (u_ls c pairs)).
    apply conv_union_core.
    + intros p Hp. unfold u_nl in Hp. apply filter_In in Hp. destruct Hp as [Hp Hl]. apply negb_true_iff in Hl.
      split; [apply Hks; exact Hp | exact Hl].
    + intros p Hp. unfold u_ls in Hp. apply filter_In in Hp. destruct Hp as [Hp Hl].
      split; [apply Hks; exact Hp | exact Hl].
    + assert (Hk: u_ks c pairs <> []).
      { apply form_set_on_nonempty. unfold pairs. destruct ts; [discriminate|cbn; discriminate]. }
      unfold u_nl, u_ls. destruct (u_ks c pairs) as [|k0 kr]; [congruence|]. cbn [filter].
      destruct (u_lit k0); cbn; [|discriminate]. intro E. apply app_eq_nil in E. destruct E; discriminate.
    + unfold u_nl. apply NoDup_map_filter. apply NoDup_form_set_on.
  - (* Annot *)
    cbn [wf] in Hwf. apply andb_true_iff in Hwf. destruct Hwf as [Hwt Ha].
    cbn [to_expr norm]. destruct a as [|a0 ar]; [discriminate|]. cbn [map].
    rewrite conv_annot_sub. rewrite (IHt Hwt).
    change (EStr a0 :: map EStr ar) with (map EStr (a0 :: ar)).
    rewrite (mapM_map ann_arg EStr (fun x => x)) by reflexivity. rewrite map_id. reflexivity.
Qed.

Theorem parse_print_lemma : forall env c t, wf env t = true ->
  parse_ty env (print_ty c t) = Some (norm c t).
Proof.
  intros env c t H. destruct (print_to_expr env c t H) as [E W].
  unfold parse_ty. rewrite E. rewrite (parse_flat _ W). apply conv_to_expr. exact H.
Qed.

(* ------------------------------------------------------------------------------------------------ *)
(* printing the canonical form *)

Lemma dedup_nodup : forall {A} (eqb : A -> A -> bool) l, nodup_by eqb l = true -> dedup eqb l = l.
Proof.
  induction l as [|x r IH]; intros H; [reflexivity|]. cbn in *. apply andb_true_iff in H. destruct H as [Hx Hr].
  rewrite (IH Hr). f_equal. apply negb_true_iff in Hx.
  clear -Hx. induction r as [|y s IHs]; [reflexivity|]. cbn in *. apply orb_false_iff in Hx. destruct Hx as [H1 H2].
  rewrite H1. cbn. f_equal. apply IHs. exact H2.
Qed.

Lemma nodup_by_app : forall {A} (eqb : A -> A -> bool) a b,
  nodup_by eqb (a ++ b) = true -> nodup_by eqb a = true /\ nodup_by eqb b = true.
Proof.
  induction a as [|x r IH]; intros b H; [split; [reflexivity|exact H]|].
  cbn in *. apply andb_true_iff in H. destruct H as [Hx Hr]. destruct (IH b Hr) as [I1 I2].
  split; [|exact I2]. rewrite I1, andb_true_r. rewrite existsb_app in Hx. apply negb_true_iff in Hx.
  apply orb_false_iff in Hx. apply negb_true_iff. apply Hx.
Qed.

Lemma flatten_nonunion : forall l, (forall t, In t l -> is_union t = false) -> flatten l = l.
Proof.
  induction l as [|t r IH]; intros H; [reflexivity|]. unfold flatten in *. cbn [flat_map].
  rewrite IH by (intros x Hx; apply H; right; exact Hx).
  specialize (H t (or_introl eq_refl)). destruct t; try reflexivity. discriminate.
Qed.

Lemma flatten_app : forall a b, flatten (a ++ b) = flatten a ++ flatten b.
Proof. intros. unfold flatten. apply flat_map_app. Qed.

Lemma is_lit_not_union : forall t, is_lit t = true -> is_union t = false.
Proof. destruct t; cbn; congruence. Qed.

Lemma join_types_lits : forall l, (forall t, In t l -> is_lit t = true) -> nodup_by ty_eqb l = true -> l <> [] ->
  flatten [join_types l] = l /\ join_types l = match l with [x] => x | _ => Union l end.
Proof.
  intros l Hl Hn Hne.
  assert (Hf: flatten l = l) by (apply flatten_nonunion; intros t Ht; apply is_lit_not_union; apply Hl; exact Ht).
  assert (Hnn: filter (fun t => negb (is_nothing t)) l = l).
  { clear -Hl. induction l as [|t r IH]; [reflexivity|]. cbn.
    pose proof (Hl t (or_introl eq_refl)) as Ht. destruct t; try discriminate. cbn. f_equal.
    apply IH. intros x Hx. apply Hl. right. exact Hx. }
  assert (Hna: existsb is_any l = false).
  { clear -Hl. induction l as [|t r IH]; [reflexivity|]. cbn.
    pose proof (Hl t (or_introl eq_refl)) as Ht. destruct t; try discriminate. cbn.
    apply IH. intros x Hx. apply Hl. right. exact Hx. }
  unfold join_types. rewrite Hf, Hnn, (dedup_nodup _ _ Hn).
  destruct l as [|a [|b r]]; [congruence| |].
  - split; [|reflexivity]. apply flatten_nonunion. intros t [<-|[]]. apply is_lit_not_union. apply Hl. left. reflexivity.
  - rewrite Hna. unfold mk_union. rewrite Hf, (dedup_nodup _ _ Hn). split; [|reflexivity].
    unfold flatten. cbn. rewrite app_nil_r. reflexivity.
Qed.

(* what is known about a member and its canonical form when printing the canonical form *)
Definition member_ok2 (env : penv) (c : ctx) (p : ty * ty) : Prop :=
  member_ok env c p /\ print_ty c (snd p) = u_key c p /\ is_union (snd p) = false.

Lemma norm_union_single : forall c pairs p,
  u_nl c pairs ++ u_ls c pairs = [p] -> (is_lit (fst p) = true -> is_lit (snd p) = true) ->
  norm_union c pairs = snd p.
Proof.
  intros c pairs p H Hl. unfold norm_union.
  destruct (u_nl c pairs) as [|a [|b r]]; cbn in H.
  - rewrite H. cbn. assert (Hp: In p (u_ls c pairs)) by (rewrite H; left; reflexivity).
    unfold u_ls in Hp. apply filter_In in Hp. destruct Hp as [_ Hp]. unfold u_lit in Hp. specialize (Hl Hp).
    destruct (snd p); try discriminate. reflexivity.
  - injection H as -> H. rewrite H. reflexivity.
  - destruct r; discriminate.
Qed.

Lemma norm_union_multi : forall env c pairs,
  (forall p, In p (u_ks c pairs) -> member_ok2 env c p) ->
  2 <= length (u_nl c pairs ++ u_ls c pairs) ->
  nodup_by ty_eqb (union_F c pairs) = true ->
  norm_union c pairs = Union (union_F c pairs).
Proof.
  intros env c pairs Hks Hlen Hnd. unfold norm_union, union_F in *.
  set (nl := u_nl c pairs) in *. set (ls := u_ls c pairs) in *. set (nl' := u_nl' c pairs) in *.
  assert (Hnl: forall p, In p nl -> is_union (snd p) = false).
  { intros p Hp. unfold nl, u_nl in Hp. apply filter_In in Hp. apply (Hks p (proj1 Hp)). }
  assert (Hnl': forall p, In p nl' -> is_union (snd p) = false).
  { intros p Hp. unfold nl', u_nl' in Hp. apply filter_In in Hp. apply Hnl. apply Hp. }
  assert (Hls: forall t, In t (map snd ls) -> is_lit t = true).
  { intros t Ht. apply in_map_iff in Ht. destruct Ht as (p & <- & Hp). unfold ls, u_ls in Hp.
    apply filter_In in Hp. destruct Hp as [Hp Hl]. destruct (Hks p Hp) as ((_ & _ & _ & Hv) & _).
    destruct (Hv Hl) as (v & _ & ->). reflexivity. }
  assert (Hfl: forall X : list (ty * ty), (forall p, In p X -> is_union (snd p) = false) -> flatten (map snd X) = map snd X).
  { intros X HX. apply flatten_nonunion. intros t Ht. apply in_map_iff in Ht. destruct Ht as (p & <- & Hp). apply HX. exact Hp. }
  (* nodup facts *)
  destruct (nodup_by_app _ _ _ Hnd) as [Hnd1 Hnd2]. destruct (nodup_by_app _ _ _ Hnd2) as [Hndl _].
  assert (Hlg: forall X : list (ty * ty), flatten (map snd X ++ match ls with [] => [] | _ :: _ => [join_types (map snd ls)] end)
                         = flatten (map snd X) ++ map snd ls).
  { intros X. rewrite flatten_app. f_equal. destruct ls as [|q qs] eqn:El; [reflexivity|].
    rewrite <- El in *. apply join_types_lits; [exact Hls | exact Hndl |]. rewrite El. discriminate. }
  destruct (existsb (u_none c) nl) eqn:EN.
  - (* a None member *)
    assert (Hinner: forall T', nodup_by ty_eqb (flatten T') = true ->
              flatten [match T' with [x] => x | l => mk_union l end] = flatten T').
    { intros T' Hn'. destruct T' as [|a [|b r]]; [| reflexivity |].
      - reflexivity.
      - unfold mk_union. rewrite (dedup_nodup _ _ Hn'). unfold flatten at 1. cbn. rewrite app_nil_r. reflexivity. }
    assert (HF0: flatten (map snd nl' ++ match ls with [] => [] | _ :: _ => [join_types (map snd ls)] end) = map snd nl' ++ map snd ls).
    { rewrite Hlg, (Hfl nl' Hnl'). reflexivity. }
    assert (Hn0: nodup_by ty_eqb (map snd nl' ++ map snd ls) = true).
    { rewrite app_assoc in Hnd. apply (nodup_by_app _ _ _ Hnd). }
    assert (Hres: mk_union [match map snd nl' ++ match ls with [] => [] | _ :: _ => [join_types (map snd ls)] end with
                             | [x] => x | l => mk_union l end; Named (NP id_NoneType)]
                  = Union (map snd nl' ++ map snd ls ++ [Named (NP id_NoneType)])).
    { set (T' := map snd nl' ++ match ls with [] => [] | _ :: _ => [join_types (map snd ls)] end) in *.
      set (inner := match T' with [x] => x | l => mk_union l end).
      assert (Hi: flatten [inner] = map snd nl' ++ map snd ls).
      { unfold inner. rewrite Hinner by (rewrite HF0; exact Hn0). exact HF0. }
      unfold mk_union at 1.
      assert (E: flatten [inner; Named (NP id_NoneType)] = flatten [inner] ++ [Named (NP id_NoneType)])
        by (apply (flatten_app [inner] [Named (NP id_NoneType)])).
      rewrite E, Hi. rewrite <- app_assoc. rewrite (dedup_nodup _ _ Hnd). reflexivity. }
    destruct (map snd nl ++ match ls with [] => [] | _ :: _ => [join_types (map snd ls)] end) as [|a [|b r]] eqn:ET.
    + apply app_eq_nil in ET. destruct ET as [E1 _]. apply map_eq_nil in E1. rewrite E1 in EN. discriminate.
    + (* a single printed item that is None: impossible with two members *)
      exfalso. destruct nl as [|p [|p2 pr]]; cbn in ET.
      * discriminate.
      * destruct ls; [cbn in Hlen; lia|discriminate].
      * destruct pr; discriminate.
    + exact Hres.
  - (* no None member *)
    assert (Enl: nl' = nl).
    { unfold nl', u_nl'. fold nl. clear -EN. induction nl as [|p r IH]; [reflexivity|]. cbn in *.
      apply orb_false_iff in EN. destruct EN as [E1 E2]. rewrite E1. cbn. f_equal. apply IH. exact E2. }
    rewrite Enl in *. rewrite app_nil_r in *.
    assert (HF: flatten (map snd nl ++ match ls with [] => [] | _ :: _ => [join_types (map snd ls)] end) = map snd nl ++ map snd ls).
    { rewrite Hlg, (Hfl nl Hnl). reflexivity. }
    destruct (map snd nl ++ match ls with [] => [] | _ :: _ => [join_types (map snd ls)] end) as [|a [|b r]] eqn:ET.
    + apply app_eq_nil in ET. destruct ET as [E1 E2]. apply map_eq_nil in E1. rewrite E1 in Hlen.
      destruct ls; [cbn in Hlen; lia|discriminate].
    + destruct nl as [|p [|p2 pr]]; cbn in ET.
      * destruct ls as [|q qs] eqn:El; [discriminate|]. injection ET as <-.
        rewrite <- El in *. cbn [map app].
        destruct (join_types_lits (map snd ls) Hls Hndl ltac:(rewrite El; discriminate)) as [_ ->].
        rewrite El in *. destruct qs; [cbn in Hlen; lia|reflexivity].
      * destruct ls; [cbn in Hlen; lia|discriminate].
      * destruct pr; discriminate.
    + unfold mk_union. rewrite <- ET at 1. rewrite HF. rewrite (dedup_nodup _ _ Hnd). reflexivity.
Qed.
