(* C05 proofs about coq/Print/Model.v. *)
From Coq Require Import List NArith ZArith Bool Arith Lia.
From PV Require Import Print.Model.
Import ListNotations.

(* ------------------------------------------------------------------------------------------------ *)
(* induction principles for the nested inductives *)

Section TyInd.
  Variable P : ty -> Prop.
  Hypothesis HNamed : forall n, P (Named n).
  Hypothesis HAny : P AnyT.
  Hypothesis HNothing : P NothingT.
  Hypothesis HTParam : forall i, P (TParam i).
  Hypothesis HLit : forall v, P (Lit v).
  Hypothesis HGeneric : forall b ps, Forall P ps -> P (Generic b ps).
  Hypothesis HTuple : forall b ps, Forall P ps -> P (TupleT b ps).
  Hypothesis HCallable : forall b ps, Forall P ps -> P (CallableT b ps).
  Hypothesis HUnion : forall ts, Forall P ts -> P (Union ts).
  Hypothesis HAnnot : forall t a, P t -> P (Annot t a).
  Fixpoint ty_ind' (t : ty) : P t :=
    let go := fix go (l : list ty) : Forall P l :=
                match l with [] => Forall_nil _ | x :: r => Forall_cons _ (ty_ind' x) (go r) end in
    match t with
    | Named n => HNamed n
    | AnyT => HAny
    | NothingT => HNothing
    | TParam i => HTParam i
    | Lit v => HLit v
    | Generic b ps => HGeneric b ps (go ps)
    | TupleT b ps => HTuple b ps (go ps)
    | CallableT b ps => HCallable b ps (go ps)
    | Union ts => HUnion ts (go ts)
    | Annot t a => HAnnot t a (ty_ind' t)
    end.
End TyInd.

Section ExprInd.
  Variable P : expr -> Prop.
  Hypothesis HName : forall i, P (EName i).
  Hypothesis HNone : P ENone.
  Hypothesis HEll : P EEllipsis.
  Hypothesis HInt : forall z, P (EInt z).
  Hypothesis HStr : forall i, P (EStr i).
  Hypothesis HBool : forall b, P (EBool b).
  Hypothesis HList : forall es, Forall P es -> P (EList es).
  Hypothesis HTup : P ETuple0.
  Hypothesis HSub : forall b es, Forall P es -> P (ESub b es).
  Fixpoint expr_ind' (e : expr) : P e :=
    let go := fix go (l : list expr) : Forall P l :=
                match l with [] => Forall_nil _ | x :: r => Forall_cons _ (expr_ind' x) (go r) end in
    match e with
    | EName i => HName i
    | ENone => HNone
    | EEllipsis => HEll
    | EInt z => HInt z
    | EStr i => HStr i
    | EBool b => HBool b
    | EList es => HList es (go es)
    | ETuple0 => HTup
    | ESub b es => HSub b es (go es)
    end.
End ExprInd.

(* ------------------------------------------------------------------------------------------------ *)
(* expressions as token lists, and the syntax reader inverts it *)

Fixpoint flat (e : expr) : list token :=
  match e with
  | EName i => [TName i]
  | ENone => [TNone]
  | EEllipsis => [TEllipsis]
  | EInt z => [TInt z]
  | EStr i => [TStr i]
  | EBool b => [TBool b]
  | EList es => TLBr :: sep (map flat es) ++ [TRBr]
  | ETuple0 => [TLPar; TRPar]
  | ESub b es => TName b :: TLBr :: sep (map flat es) ++ [TRBr]
  end.

(* subscripts have at least one argument *)
Fixpoint wfe (e : expr) : bool :=
  match e with
  | EList es => forallb wfe es
  | ESub _ es => match es with [] => false | _ => forallb wfe es end
  | _ => true
  end.

Definition starts_ok (ts : list token) : Prop :=
  match ts with TLBr :: _ => False | _ => True end.

Lemma flat_nonempty : forall e, exists t r, flat e = t :: r /\ t <> TRBr /\ t <> TComma.
Proof.
  destruct e; simpl; eexists; eexists; (split; [reflexivity | split; discriminate]).
Qed.

Lemma sep_cons2 : forall x y r, sep (x :: y :: r) = x ++ TComma :: sep (y :: r).
Proof. reflexivity. Qed.

Lemma sep_single : forall x, sep [x] = x.
Proof. reflexivity. Qed.

Lemma tokens_eqb_true : forall a b, tokens_eqb a b = true <-> a = b.
Proof. intros. unfold tokens_eqb. destruct (list_eq_dec token_eq_dec a b); split; congruence. Qed.
Lemma tokens_eqb_false : forall a b, tokens_eqb a b = false <-> a <> b.
Proof. intros. unfold tokens_eqb. destruct (list_eq_dec token_eq_dec a b); split; congruence. Qed.
Lemma tokens_eqb_refl : forall a, tokens_eqb a a = true.
Proof. intros. apply tokens_eqb_true. reflexivity. Qed.

Definition reads_back (e : expr) : Prop :=
  wfe e = true ->
  forall fuel rest, length (flat e) <= fuel -> starts_ok rest ->
  parse_expr fuel (flat e ++ rest) = Some (e, rest).

Lemma parse_args_unfold : forall f ts,
  parse_args (S f) ts =
  match parse_expr f ts with
  | Some (e, TComma :: r) =>
      match parse_args f r with Some (es, r') => Some (e :: es, r') | None => None end
  | Some (e, r) => Some ([e], r)
  | None => None
  end.
Proof. reflexivity. Qed.

Lemma parse_args_flat : forall es,
  Forall reads_back es -> forallb wfe es = true -> es <> [] ->
  forall fuel r, length (sep (map flat es)) + 1 <= fuel ->
  parse_args fuel (sep (map flat es) ++ TRBr :: r) = Some (es, TRBr :: r).
Proof.
  induction es as [|a es IH]; intros HF Hw Hne fuel r Hfu; [congruence|].
  inversion HF as [|? ? Ha HF']; subst.
  cbn [forallb] in Hw. apply andb_true_iff in Hw. destruct Hw as [Hwa Hwes].
  destruct fuel as [|f]; [lia|].
  rewrite parse_args_unfold.
  destruct es as [|b es].
  - cbn [map] in *. rewrite sep_single in *.
    rewrite (Ha Hwa f (TRBr :: r)); [reflexivity | lia | exact I].
  - cbn [map] in *. rewrite sep_cons2 in *. rewrite <- app_assoc.
    rewrite app_length in Hfu. cbn [length] in Hfu.
    rewrite (Ha Hwa f); [| lia | exact I].
    cbn [app].
    change (flat b :: map flat es) with (map flat (b :: es)) in *.
    rewrite (IH HF' Hwes ltac:(discriminate) f r); [reflexivity | lia].
Qed.

(* the parser reads back a flattened expression; the rest of the input must not start with "[" *)
Lemma parse_flat_gen : forall e, reads_back e.
Proof.
  induction e using expr_ind'; unfold reads_back; intros Hwf fuel rest Hf Hr;
    (destruct fuel as [|f]; [cbn in Hf; lia|]).
  - cbn. destruct rest as [|[] ?]; cbn in Hr; try contradiction; reflexivity.
  - reflexivity.
  - reflexivity.
  - reflexivity.
  - reflexivity.
  - reflexivity.
  - (* EList *)
    destruct es as [|e1 es'].
    + reflexivity.
    + cbn [wfe] in Hwf.
      cbn [flat app]. rewrite <- app_assoc. cbn [app].
      destruct (flat_nonempty e1) as (t & r1 & He1 & Hne1 & _).
      assert (Hsep: exists r2, sep (map flat (e1 :: es')) = t :: r2).
      { destruct es'; cbn [map]; [rewrite sep_single | rewrite sep_cons2]; rewrite He1; cbn [app]; eauto. }
      destruct Hsep as (r2 & Hsep).
      assert (Hpa := parse_args_flat (e1 :: es') H Hwf ltac:(discriminate) f rest).
      cbn [flat length] in Hf. rewrite app_length in Hf. cbn [length] in Hf.
      rewrite Hsep in *. cbn [app] in *.
      cbn [parse_expr].
      destruct t; try congruence; (rewrite Hpa; [reflexivity | lia]).
  - reflexivity.
  - (* ESub *)
    destruct es as [|e1 es']; [cbn in Hwf; discriminate|].
    cbn [wfe] in Hwf.
    cbn [flat app]. rewrite <- app_assoc. cbn [app].
    cbn [flat length] in Hf. rewrite app_length in Hf. cbn [length] in Hf.
    cbn [parse_expr].
    rewrite (parse_args_flat (e1 :: es') H Hwf ltac:(discriminate) f rest); [reflexivity | lia].
Qed.
