(* C05 proofs about coq/Print/Model.v. *)
From Coq Require Import List NArith ZArith Bool Arith Lia.
From PV Require Import Print.Model.
Import ListNotations.

(* ------------------------------------------------------------------------------------------------ *)
(* induction principles for the nested inductives *)

Section TyInd.
  Variable P : ty -> Prop.
  Hypothesis HNamed : forall n, P (Named n).
  Hypothesis HAny : P AnyT.
  Hypothesis HNothing : P NothingT.
  Hypothesis HTParam : forall i, P (TParam i).
  Hypothesis HLit : forall v, P (Lit v).
  Hypothesis HGeneric : forall b ps, Forall P ps -> P (Generic b ps).
  Hypothesis HTuple : forall b ps, Forall P ps -> P (TupleT b ps).
  Hypothesis HCallable : forall b ps, Forall P ps -> P (CallableT b ps).
  Hypothesis HUnion : forall ts, Forall P ts -> P (Union ts).
  Hypothesis HAnnot : forall t a, P t -> P (Annot t a).
  Fixpoint ty_ind' (t : ty) : P t :=
    let go := fix go (l : list ty) : Forall P l :=
                match l with [] => Forall_nil _ | x :: r => Forall_cons _ (ty_ind' x) (go r) end in
    match t with
    | Named n => HNamed n
    | AnyT => HAny
    | NothingT => HNothing
    | TParam i => HTParam i
    | Lit v => HLit v
    | Generic b ps => HGeneric b ps (go ps)
    | TupleT b ps => HTuple b ps (go ps)
    | CallableT b ps => HCallable b ps (go ps)
    | Union ts => HUnion ts (go ts)
    | Annot t a => HAnnot t a (ty_ind' t)
    end.
End TyInd.

Section ExprInd.
  Variable P : expr -> Prop.
  Hypothesis HName : forall i, P (EName i).
  Hypothesis HNone : P ENone.
  Hypothesis HEll : P EEllipsis.
  Hypothesis HInt : forall z, P (EInt z).
  Hypothesis HStr : forall i, P (EStr i).
  Hypothesis HBool : forall b, P (EBool b).
  Hypothesis HList : forall es, Forall P es -> P (EList es).
  Hypothesis HTup : P ETuple0.
  Hypothesis HSub : forall b es, Forall P es -> P (ESub b es).
  Fixpoint expr_ind' (e : expr) : P e :=
    let go := fix go (l : list expr) : Forall P l :=
                match l with [] => Forall_nil _ | x :: r => Forall_cons _ (expr_ind' x) (go r) end in
    match e with
    | EName i => HName i
    | ENone => HNone
    | EEllipsis => HEll
    | EInt z => HInt z
    | EStr i => HStr i
    | EBool b => HBool b
    | EList es => HList es (go es)
    | ETuple0 => HTup
    | ESub b es => HSub b es (go es)
    end.
End ExprInd.

(* ------------------------------------------------------------------------------------------------ *)
(* expressions as token lists, and the syntax reader inverts it *)

Fixpoint flat (e : expr) : list token :=
  match e with
  | EName i => [TName i]
  | ENone => [TNone]
  | EEllipsis => [TEllipsis]
  | EInt z => [TInt z]
  | EStr i => [TStr i]
  | EBool b => [TBool b]
  | EList es => TLBr :: sep (map flat es) ++ [TRBr]
  | ETuple0 => [TLPar; TRPar]
  | ESub b es => TName b :: TLBr :: sep (map flat es) ++ [TRBr]
  end.

(* subscripts have at least one argument *)
Fixpoint wfe (e : expr) : bool :=
  match e with
  | EList es => forallb wfe es
  | ESub _ es => match es with [] => false | _ => forallb wfe es end
  | _ => true
  end.

Definition starts_ok (ts : list token) : Prop :=
  match ts with TLBr :: _ => False | _ => True end.

Lemma flat_nonempty : forall e, exists t r, flat e = t :: r /\ t <> TRBr /\ t <> TComma.
Proof.
  destruct e; simpl; eexists; eexists; (split; [reflexivity | split; discriminate]).
Qed.

Lemma sep_cons2 : forall x y r, sep (x :: y :: r) = x ++ TComma :: sep (y :: r).
Proof. reflexivity. Qed.

Lemma sep_single : forall x, sep [x] = x.
Proof. reflexivity. Qed.

Lemma tokens_eqb_true : forall a b, tokens_eqb a b = true <-> a = b.
Proof. intros. unfold tokens_eqb. destruct (list_eq_dec token_eq_dec a b); split; congruence. Qed.
Lemma tokens_eqb_false : forall a b, tokens_eqb a b = false <-> a <> b.
Proof. intros. unfold tokens_eqb. destruct (list_eq_dec token_eq_dec a b); split; congruence. Qed.
Lemma tokens_eqb_refl : forall a, tokens_eqb a a = true.
Proof. intros. apply tokens_eqb_true. reflexivity. Qed.

Definition reads_back (e : expr) : Prop :=
  wfe e = true ->
  forall fuel rest, length (flat e) <= fuel -> starts_ok rest ->
  parse_expr fuel (flat e ++ rest) = Some (e, rest).

Lemma parse_args_unfold : forall f ts,
  parse_args (S f) ts =
  match parse_expr f ts with
  | Some (e, TComma :: r) =>
      match parse_args f r with Some (es, r') => Some (e :: es, r') | None => None end
  | Some (e, r) => Some ([e], r)
  | None => None
  end.
Proof. reflexivity. Qed.

Lemma parse_args_flat : forall es,
  Forall reads_back es -> forallb wfe es = true -> es <> [] ->
  forall fuel r, length (sep (map flat es)) + 1 <= fuel ->
  parse_args fuel (sep (map flat es) ++ TRBr :: r) = Some (es, TRBr :: r).
Proof.
  induction es as [|a es IH]; intros HF Hw Hne fuel r Hfu; [congruence|].
  inversion HF as [|? ? Ha HF']; subst.
  cbn [forallb] in Hw. apply andb_true_iff in Hw. destruct Hw as [Hwa Hwes].
  destruct fuel as [|f]; [lia|].
  rewrite parse_args_unfold.
  destruct es as [|b es].
  - cbn [map] in *. rewrite sep_single in *.
    rewrite (Ha Hwa f (TRBr :: r)); [reflexivity | lia | exact I].
  - cbn [map] in *. rewrite sep_cons2 in *. rewrite <- app_assoc.
    rewrite app_length in Hfu. cbn [length] in Hfu.
    rewrite (Ha Hwa f); [| lia | exact I].
    cbn [app].
    change (flat b :: map flat es) with (map flat (b :: es)) in *.
    rewrite (IH HF' Hwes ltac:(discriminate) f r); [reflexivity | lia].
Qed.

(* the parser reads back a flattened expression; the rest of the input must not start with "[" *)
Lemma parse_flat_gen : forall e, reads_back e.
Proof.
  induction e using expr_ind'; unfold reads_back; intros Hwf fuel rest Hf Hr;
    (destruct fuel as [|f]; [cbn in Hf; lia|]).
  - cbn. destruct rest as [|[] ?]; cbn in Hr; try contradiction; reflexivity.
  - reflexivity.
  - reflexivity.
  - reflexivity.
  - reflexivity.
  - reflexivity.
  - (* EList *)
    destruct es as [|e1 es'].
    + reflexivity.
    + cbn [wfe] in Hwf.
      cbn [flat app]. rewrite <- app_assoc. cbn [app].
      destruct (flat_nonempty e1) as (t & r1 & He1 & Hne1 & _).
      assert (Hsep: exists r2, sep (map flat (e1 :: es')) = t :: r2).
      { destruct es'; cbn [map]; [rewrite sep_single | rewrite sep_cons2]; rewrite He1; cbn [app]; eauto. }
      destruct Hsep as (r2 & Hsep).
      assert (Hpa := parse_args_flat (e1 :: es') H Hwf ltac:(discriminate) f rest).
      cbn [flat length] in Hf. rewrite app_length in Hf. cbn [length] in Hf.
      rewrite Hsep in *. cbn [app] in *.
      cbn [parse_expr].
      destruct t; try congruence; (rewrite Hpa; [reflexivity | lia]).
  - reflexivity.
  - (* ESub *)
    destruct es as [|e1 es']; [cbn in Hwf; discriminate|].
    cbn [wfe] in Hwf.
    cbn [flat app]. rewrite <- app_assoc. cbn [app].
    cbn [flat length] in Hf. rewrite app_length in Hf. cbn [length] in Hf.
    cbn [parse_expr].
    rewrite (parse_args_flat (e1 :: es') H Hwf ltac:(discriminate) f rest); [reflexivity | lia].
Qed.

Lemma parse_flat : forall e, wfe e = true ->
  parse_expr (S (length (flat e))) (flat e) = Some (e, []).
Proof.
  intros e Hw. rewrite <- (app_nil_r (flat e)) at 2.
  apply parse_flat_gen; [exact Hw | lia | exact I].
Qed.

Lemma flat_inj : forall a b, wfe a = true -> wfe b = true -> flat a = flat b -> a = b.
Proof.
  intros a b Ha Hb E. pose proof (parse_flat a Ha) as Pa. pose proof (parse_flat b Hb) as Pb.
  rewrite E in Pa. rewrite Pa in Pb. congruence.
Qed.

(* ------------------------------------------------------------------------------------------------ *)
(* generic list lemmas *)

Lemma map_filter_comm : forall {A B} (f : A -> B) (P : B -> bool) l,
  map f (filter (fun x => P (f x)) l) = filter P (map f l).
Proof. induction l as [|x r IH]; cbn; [reflexivity|]. destruct (P (f x)); cbn; rewrite IH; reflexivity. Qed.

Lemma filter_ext_in' : forall {A} (f g : A -> bool) l, (forall x, In x l -> f x = g x) -> filter f l = filter g l.
Proof.
  induction l as [|x r IH]; intros H; cbn; [reflexivity|].
  rewrite (H x (or_introl eq_refl)). rewrite IH; [reflexivity|]. intros y Hy. apply H. right. exact Hy.
Qed.

Lemma map_dedup_on : forall {A K} (key : A -> K) (eqb : K -> K -> bool) l,
  map key (dedup_on key eqb l) = dedup eqb (map key l).
Proof.
  induction l as [|x r IH]; cbn; [reflexivity|]. f_equal.
  rewrite <- IH. apply (map_filter_comm key (fun k => negb (eqb (key x) k))).
Qed.

Lemma mem_s_map : forall {A} (key : A -> list token) s l,
  mem_s s (map key l) = existsb (fun x => tokens_eqb s (key x)) l.
Proof. intros. unfold mem_s. induction l; cbn; [reflexivity|]. rewrite IHl. reflexivity. Qed.

Lemma map_compat_step_on : forall {A} (key : A -> list token) l p,
  map key (compat_step_on key l p) = compat_step (map key l) p.
Proof.
  intros. unfold compat_step_on, compat_step.
  destruct (mem_s [TName (fst p)] (map key l) && mem_s [TName (snd p)] (map key l)); [|reflexivity].
  apply (map_filter_comm key (fun s => negb (tokens_eqb s [TName (fst p)]))).
Qed.

Lemma map_fold_compat : forall {A} (key : A -> list token) items l,
  map key (fold_left (compat_step_on key) items l) = fold_left compat_step items (map key l).
Proof.
  induction items as [|p r IH]; intros l; cbn; [reflexivity|].
  rewrite IH. rewrite map_compat_step_on. reflexivity.
Qed.

Lemma map_form_set_on : forall {A} c (key : A -> list token) l,
  map key (form_set_on c key l) = form_set c (map key l).
Proof.
  intros. unfold form_set_on, form_set. destruct (in_param c).
  - rewrite map_fold_compat, map_dedup_on. reflexivity.
  - apply map_dedup_on.
Qed.

(* re-indexing: the same selection made on a list and on its image *)
Lemma dedup_on_map : forall {A B K} (f : A -> B) (key : B -> K) eqb l,
  dedup_on key eqb (map f l) = map f (dedup_on (fun x => key (f x)) eqb l).
Proof.
  induction l as [|x r IH]; cbn; [reflexivity|]. f_equal. rewrite IH.
  symmetry. apply (map_filter_comm f (fun y => negb (eqb (key (f x)) (key y)))).
Qed.

Lemma compat_step_on_map : forall {A B} (f : A -> B) (key : B -> list token) l p,
  compat_step_on key (map f l) p = map f (compat_step_on (fun x => key (f x)) l p).
Proof.
  intros. unfold compat_step_on. rewrite map_map.
  destruct (mem_s [TName (fst p)] (map (fun x => key (f x)) l) && mem_s [TName (snd p)] (map (fun x => key (f x)) l));
    [|reflexivity].
  symmetry. apply (map_filter_comm f (fun y => negb (tokens_eqb (key y) [TName (fst p)]))).
Qed.

Lemma fold_compat_on_map : forall {A B} (f : A -> B) (key : B -> list token) items l,
  fold_left (compat_step_on key) items (map f l) =
  map f (fold_left (compat_step_on (fun x => key (f x))) items l).
Proof.
  induction items as [|p r IH]; intros l; cbn; [reflexivity|].
  rewrite compat_step_on_map. apply IH.
Qed.

Lemma form_set_on_map : forall {A B} c (f : A -> B) (key : B -> list token) l,
  form_set_on c key (map f l) = map f (form_set_on c (fun x => key (f x)) l).
Proof.
  intros. unfold form_set_on. rewrite dedup_on_map. destruct (in_param c); [|reflexivity].
  apply fold_compat_on_map.
Qed.

Lemma dedup_on_incl : forall {A K} (key : A -> K) eqb l x, In x (dedup_on key eqb l) -> In x l.
Proof.
  induction l as [|y r IH]; cbn; intros x H; [exact H|].
  destruct H as [H|H]; [left; exact H|]. right. apply filter_In in H. apply IH. apply H.
Qed.

Lemma compat_step_on_incl : forall {A} (key : A -> list token) l p x, In x (compat_step_on key l p) -> In x l.
Proof.
  intros A key l p x. unfold compat_step_on.
  destruct (mem_s _ _ && mem_s _ _); [|exact (fun H => H)]. intros H. apply filter_In in H. apply H.
Qed.

Lemma fold_compat_on_incl : forall {A} (key : A -> list token) items l x,
  In x (fold_left (compat_step_on key) items l) -> In x l.
Proof.
  induction items as [|p r IH]; cbn; intros l x H; [exact H|].
  apply IH in H. eapply compat_step_on_incl. exact H.
Qed.

Lemma form_set_on_incl : forall {A} c (key : A -> list token) l x, In x (form_set_on c key l) -> In x l.
Proof.
  intros A c key l x. unfold form_set_on. destruct (in_param c); intros H.
  - apply fold_compat_on_incl in H. eapply dedup_on_incl. exact H.
  - eapply dedup_on_incl. exact H.
Qed.

Lemma dedup_on_ext : forall {A K} (k1 k2 : A -> K) eqb l,
  (forall x, In x l -> k1 x = k2 x) -> dedup_on k1 eqb l = dedup_on k2 eqb l.
Proof.
  induction l as [|x r IH]; intros H; cbn; [reflexivity|]. f_equal.
  rewrite <- IH by (intros y Hy; apply H; right; exact Hy).
  apply filter_ext_in'. intros y Hy. apply dedup_on_incl in Hy.
  rewrite (H x (or_introl eq_refl)), (H y (or_intror Hy)). reflexivity.
Qed.

Lemma compat_step_on_ext : forall {A} (k1 k2 : A -> list token) l p,
  (forall x, In x l -> k1 x = k2 x) -> compat_step_on k1 l p = compat_step_on k2 l p.
Proof.
  intros A k1 k2 l p H. unfold compat_step_on.
  rewrite (map_ext_in k1 k2 l H).
  destruct (mem_s _ _ && mem_s _ _); [|reflexivity].
  apply filter_ext_in'. intros y Hy. rewrite (H y Hy). reflexivity.
Qed.

Lemma fold_compat_on_ext : forall {A} (k1 k2 : A -> list token) items l,
  (forall x, In x l -> k1 x = k2 x) ->
  fold_left (compat_step_on k1) items l = fold_left (compat_step_on k2) items l.
Proof.
  induction items as [|p r IH]; intros l H; cbn; [reflexivity|].
  rewrite (compat_step_on_ext k1 k2 l p H). apply IH.
  intros x Hx. apply H. eapply compat_step_on_incl. exact Hx.
Qed.

Lemma form_set_on_ext : forall {A} c (k1 k2 : A -> list token) l,
  (forall x, In x l -> k1 x = k2 x) -> form_set_on c k1 l = form_set_on c k2 l.
Proof.
  intros A c k1 k2 l H. unfold form_set_on.
  rewrite (dedup_on_ext k1 k2 tokens_eqb l H).
  destruct (in_param c); [|reflexivity].
  apply fold_compat_on_ext. intros x Hx. apply H. eapply dedup_on_incl. exact Hx.
Qed.

(* ------------------------------------------------------------------------------------------------ *)
(* _BuildUnion seen on expressions *)

Definition is_litsub (e : expr) : bool := match e with ESub b _ => (b =? id_Literal)%N | _ => false end.
Definition lit_args (e : expr) : list expr :=
  match e with ESub b a => if (b =? id_Literal)%N then a else [] | _ => [] end.
Definition is_enone (e : expr) : bool := match e with ENone => true | _ => false end.

Definition coalesce_e (es : list expr) : list expr :=
  let nl := filter (fun e => negb (is_litsub e)) es in
  match filter is_litsub es with
  | [] => nl
  | lits => nl ++ [ESub id_Literal (flat_map lit_args lits)]
  end.
Definition union1_e (l : list expr) : expr :=
  match coalesce_e l with [x] => x | l' => ESub id_Union l' end.
Definition union_e (l : list expr) : expr :=
  match coalesce_e l with
  | [x] => x
  | l' => if existsb is_enone l'
          then ESub id_Optional [union1_e (filter (fun e => negb (is_enone e)) l')]
          else ESub id_Union l'
  end.

Lemma sep_app : forall l1 l2, l1 <> [] -> l2 <> [] -> sep (l1 ++ l2) = sep l1 ++ TComma :: sep l2.
Proof.
  induction l1 as [|x r IH]; intros l2 H1 H2; [congruence|].
  destruct r as [|y r'].
  - cbn [app]. destruct l2 as [|z l2']; [congruence|]. rewrite sep_cons2, sep_single. reflexivity.
  - cbn [app]. rewrite !sep_cons2. rewrite <- app_assoc. cbn [app]. f_equal. f_equal.
    change (y :: r' ++ l2) with ((y :: r') ++ l2). apply IH; [discriminate | exact H2].
Qed.

Lemma match_literal_flat : forall e,
  match_literal (flat e) = if is_litsub e then Some (sep (map flat (lit_args e))) else None.
Proof.
  destruct e; cbn; try reflexivity.
  destruct (base =? id_Literal)%N; [|reflexivity].
  rewrite rev_app_distr. cbn. rewrite rev_involutive. reflexivity.
Qed.

Lemma split_lits_flat : forall es,
  split_lits (map flat es) =
  (map flat (filter (fun e => negb (is_litsub e)) es),
   map (fun e => sep (map flat (lit_args e))) (filter is_litsub es)).
Proof.
  induction es as [|e r IH]; [reflexivity|].
  cbn [map split_lits filter]. rewrite IH. rewrite match_literal_flat.
  destruct (is_litsub e); reflexivity.
Qed.

Lemma wfe_lit_args : forall e, wfe e = true -> is_litsub e = true -> lit_args e <> [].
Proof.
  destruct e; cbn; try discriminate. intros Hw Hl. rewrite Hl. destruct args; [discriminate|discriminate].
Qed.

Lemma sep_sep : forall lits,
  (forall e, In e lits -> lit_args e <> []) -> lits <> [] ->
  sep (map (fun e => sep (map flat (lit_args e))) lits) = sep (map flat (flat_map lit_args lits))
  /\ flat_map lit_args lits <> [].
Proof.
  induction lits as [|e r IH]; intros H Hne; [congruence|].
  assert (He: lit_args e <> []) by (apply H; left; reflexivity).
  destruct r as [|e' r'].
  - cbn. rewrite app_nil_r. split; [reflexivity|exact He].
  - destruct IH as [IH1 IH2]; [intros x Hx; apply H; right; exact Hx | discriminate |].
    change (map (fun e0 => sep (map flat (lit_args e0))) (e :: e' :: r'))
      with (sep (map flat (lit_args e)) :: map (fun e0 => sep (map flat (lit_args e0))) (e' :: r')).
    cbn [flat_map]. rewrite map_app. split.
    + rewrite sep_app.
      * change (map (fun e0 => sep (map flat (lit_args e0))) (e' :: r'))
          with (sep (map flat (lit_args e')) :: map (fun e0 => sep (map flat (lit_args e0))) r').
        rewrite sep_cons2.
        change (sep (map flat (lit_args e')) :: map (fun e0 => sep (map flat (lit_args e0))) r')
          with (map (fun e0 => sep (map flat (lit_args e0))) (e' :: r')).
        rewrite IH1. reflexivity.
      * destruct (lit_args e); [congruence|discriminate].
      * intro E. apply map_eq_nil in E. exact (IH2 E).
    + destruct (lit_args e); [congruence|discriminate].
Qed.

Lemma coalesce_flat : forall es, forallb wfe es = true ->
  coalesce (map flat es) = map flat (coalesce_e es).
Proof.
  intros es Hw. unfold coalesce, coalesce_e. rewrite split_lits_flat.
  destruct (filter is_litsub es) as [|l0 lr] eqn:El; [reflexivity|].
  cbn [map]. rewrite map_app. f_equal. cbn [map]. f_equal.
  unfold sub. cbn [flat app].
  assert (Hl: forall e, In e (l0 :: lr) -> lit_args e <> []).
  { intros e He. rewrite <- El in He. apply filter_In in He. destruct He as [Hi Hs].
    apply wfe_lit_args; [|exact Hs]. rewrite forallb_forall in Hw. apply Hw. exact Hi. }
  destruct (sep_sep (l0 :: lr) Hl ltac:(discriminate)) as [S1 _].
  change (sep (map flat (lit_args l0)) :: map (fun e => sep (map flat (lit_args e))) lr)
    with (map (fun e => sep (map flat (lit_args e))) (l0 :: lr)).
  rewrite S1. reflexivity.
Qed.

Lemma is_none_flat : forall e, is_none_s (flat e) = is_enone e.
Proof.
  intros e. unfold is_none_s.
  destruct e; cbn; try reflexivity; try (apply tokens_eqb_false; discriminate).
Qed.

Lemma sub_flat : forall b l, sub [TName b] (map flat l) = flat (ESub b l).
Proof. reflexivity. Qed.

Lemma wfe_coalesce_e : forall es, forallb wfe es = true -> forallb wfe (coalesce_e es) = true.
Proof.
  intros es Hw. unfold coalesce_e.
  assert (Hnl: forallb wfe (filter (fun e => negb (is_litsub e)) es) = true).
  { rewrite forallb_forall in *. intros x Hx. apply filter_In in Hx. apply Hw. apply Hx. }
  destruct (filter is_litsub es) as [|l0 lr] eqn:El; [exact Hnl|].
  rewrite forallb_app. rewrite Hnl. cbn [forallb andb].
  assert (Hl: forall e, In e (l0 :: lr) -> lit_args e <> [] /\ forallb wfe (lit_args e) = true).
  { intros e He. rewrite <- El in He. apply filter_In in He. destruct He as [Hi Hs].
    rewrite forallb_forall in Hw. specialize (Hw e Hi). split; [apply wfe_lit_args; assumption|].
    destruct e; cbn in Hs; try discriminate. cbn. rewrite Hs. cbn in Hw. destruct args; [discriminate|exact Hw]. }
  destruct (sep_sep (l0 :: lr) (fun e He => proj1 (Hl e He)) ltac:(discriminate)) as [_ Hne].
  cbn [wfe]. destruct (flat_map lit_args (l0 :: lr)) as [|fa fr] eqn:Ef; [congruence|]. rewrite <- Ef.
  rewrite andb_true_r. rewrite forallb_forall. intros x Hx. apply in_flat_map in Hx.
  destruct Hx as (e9 & He9 & Hx). destruct (Hl e9 He9) as [_ Hw']. rewrite forallb_forall in Hw'. apply Hw'. exact Hx.
Qed.

Lemma build_union1_flat : forall l, forallb wfe l = true ->
  build_union1 (map flat l) = flat (union1_e l).
Proof.
  intros l Hw. unfold build_union1, union1_e. rewrite coalesce_flat by exact Hw.
  destruct (coalesce_e l) as [|a [|b r]]; reflexivity.
Qed.

Lemma build_union_flat : forall l, forallb wfe l = true ->
  build_union (map flat l) = flat (union_e l).
Proof.
  intros l Hw. unfold build_union, union_e. rewrite coalesce_flat by exact Hw.
  pose proof (wfe_coalesce_e l Hw) as Hc.
  generalize dependent (coalesce_e l). intros l' Hc.
  assert (He: existsb is_none_s (map flat l') = existsb is_enone l').
  { clear. induction l' as [|x r IH]; cbn; [reflexivity|]. rewrite is_none_flat, IH. reflexivity. }
  assert (Hf: filter (fun s => negb (is_none_s s)) (map flat l') = map flat (filter (fun e => negb (is_enone e)) l')).
  { rewrite <- (map_filter_comm flat (fun s => negb (is_none_s s))).
    f_equal. apply filter_ext_in'. intros x _. rewrite is_none_flat. reflexivity. }
  destruct l' as [|a [|b r]]; [reflexivity | reflexivity |].
  cbn [map]. change (flat a :: flat b :: map flat r) with (map flat (a :: b :: r)).
  rewrite He, Hf. destruct (existsb is_enone (a :: b :: r)); [|reflexivity].
  rewrite build_union1_flat; [reflexivity|].
  rewrite forallb_forall in *. intros x Hx. apply filter_In in Hx. apply Hc. apply Hx.
Qed.

(* ------------------------------------------------------------------------------------------------ *)
(* the selection made by _FormSetTypeList: never empty, no two members with the same printed form *)

Lemma NoDup_map_filter : forall {A B} (f : A -> B) (P : A -> bool) l,
  NoDup (map f l) -> NoDup (map f (filter P l)).
Proof.
  induction l as [|x r IH]; cbn; intros H; [constructor|].
  inversion H as [|? ? Hn Hr]; subst. destruct (P x); cbn; [|apply IH; exact Hr].
  constructor; [|apply IH; exact Hr].
  intro Hin. apply Hn. apply in_map_iff in Hin. destruct Hin as (y & Hy & Hin).
  apply filter_In in Hin. apply in_map_iff. exists y. split; [exact Hy | apply Hin].
Qed.

Lemma NoDup_dedup_on : forall {A} (key : A -> list token) l,
  NoDup (map key (dedup_on key tokens_eqb l)).
Proof.
  induction l as [|x r IH]; cbn; [constructor|].
  constructor.
  - intro Hin. apply in_map_iff in Hin. destruct Hin as (y & Hy & Hin).
    apply filter_In in Hin. destruct Hin as [_ Hneg]. rewrite <- Hy in Hneg.
    rewrite tokens_eqb_refl in Hneg. discriminate.
  - apply NoDup_map_filter. exact IH.
Qed.

Lemma NoDup_fold_compat_on : forall {A} (key : A -> list token) items l,
  NoDup (map key l) -> NoDup (map key (fold_left (compat_step_on key) items l)).
Proof.
  induction items as [|p r IH]; cbn; intros l H; [exact H|].
  apply IH. unfold compat_step_on. destruct (mem_s _ _ && mem_s _ _); [|exact H].
  apply NoDup_map_filter. exact H.
Qed.

Lemma NoDup_form_set_on : forall {A} c (key : A -> list token) l, NoDup (map key (form_set_on c key l)).
Proof.
  intros. unfold form_set_on. destruct (in_param c).
  - apply NoDup_fold_compat_on. apply NoDup_dedup_on.
  - apply NoDup_dedup_on.
Qed.

Lemma compat_step_on_nonempty : forall {A} (key : A -> list token) l p,
  fst p <> snd p -> l <> [] -> compat_step_on key l p <> [].
Proof.
  intros A key l p Hp Hl. unfold compat_step_on.
  destruct (mem_s [TName (fst p)] (map key l)) eqn:E1; cbn [andb]; [|exact Hl].
  destruct (mem_s [TName (snd p)] (map key l)) eqn:E2; [|exact Hl].
  rewrite mem_s_map in E2. apply existsb_exists in E2. destruct E2 as (x & Hx & Ex).
  apply tokens_eqb_true in Ex.
  intro Hf. assert (Hin: In x (filter (fun x0 => negb (tokens_eqb (key x0) [TName (fst p)])) l)).
  { apply filter_In. split; [exact Hx|]. rewrite <- Ex.
    assert (tokens_eqb [TName (snd p)] [TName (fst p)] = false) as ->; [|reflexivity].
    apply tokens_eqb_false. intro E. injection E as E. congruence. }
  rewrite Hf in Hin. exact Hin.
Qed.

Lemma compat_items_distinct : Forall (fun p : N * N => fst p <> snd p) compat_items.
Proof. repeat constructor; cbn; discriminate. Qed.

Lemma form_set_on_nonempty : forall {A} c (key : A -> list token) l, l <> [] -> form_set_on c key l <> [].
Proof.
  intros A c key l Hl. unfold form_set_on.
  assert (Hd: dedup_on key tokens_eqb l <> []) by (destruct l; [congruence|cbn; discriminate]).
  destruct (in_param c); [|exact Hd].
  generalize dependent (dedup_on key tokens_eqb l). clear Hl.
  pose proof compat_items_distinct as Hc. induction Hc as [|p r Hp Hr IH]; cbn; intros l0 H0; [exact H0|].
  apply IH. apply compat_step_on_nonempty; assumption.
Qed.

Lemma coalesce_e_nonempty : forall l, l <> [] -> coalesce_e l <> [].
Proof.
  intros l Hl. unfold coalesce_e.
  destruct (filter is_litsub l) as [|a r] eqn:El.
  - destruct l as [|x l']; [congruence|]. cbn in *. destruct (is_litsub x); [discriminate|cbn; discriminate].
  - intro E. apply app_eq_nil in E. destruct E as [_ E]. discriminate.
Qed.

Lemma NoDup_filter : forall {A} (P : A -> bool) l, NoDup l -> NoDup (filter P l).
Proof.
  intros A P l H. rewrite <- (map_id (filter P l)). apply NoDup_map_filter. rewrite map_id. exact H.
Qed.

Lemma NoDup_snoc : forall {A} (l : list A) x, NoDup l -> ~ In x l -> NoDup (l ++ [x]).
Proof.
  induction l as [|y r IH]; cbn; intros x H Hn; [constructor; [exact (fun f => f)|constructor]|].
  inversion H as [|? ? Hy Hr]; subst. constructor.
  - intro Hin. apply in_app_or in Hin. destruct Hin as [Hin|[Hin|[]]]; [exact (Hy Hin)|]. apply Hn. left. symmetry. exact Hin.
  - apply IH; [exact Hr|]. intro Hin. apply Hn. right. exact Hin.
Qed.

Lemma NoDup_coalesce_e : forall l, NoDup l -> NoDup (coalesce_e l).
Proof.
  intros l H. unfold coalesce_e.
  destruct (filter is_litsub l) as [|a r] eqn:El; [apply NoDup_filter; exact H|].
  apply NoDup_snoc; [apply NoDup_filter; exact H|].
  intro Hin. apply filter_In in Hin. destruct Hin as [_ Hl]. cbn in Hl. discriminate.
Qed.

Lemma filter_enone_nonempty : forall l, NoDup l -> 2 <= length l ->
  filter (fun e => negb (is_enone e)) l <> [].
Proof.
  intros l Hn Hl. destruct l as [|a [|b r]]; cbn in Hl; try lia.
  cbn. destruct a; cbn; try discriminate. destruct b; cbn; try discriminate.
  inversion Hn as [|? ? Hna _]; subst. exfalso. apply Hna. left. reflexivity.
Qed.

Lemma wfe_union1_e : forall l, forallb wfe l = true -> l <> [] -> wfe (union1_e l) = true.
Proof.
  intros l Hw Hl. unfold union1_e. pose proof (wfe_coalesce_e l Hw) as Hc.
  pose proof (coalesce_e_nonempty l Hl) as Hne.
  destruct (coalesce_e l) as [|a [|b r]]; [congruence| cbn in Hc; rewrite andb_true_r in Hc; exact Hc | exact Hc].
Qed.

Lemma wfe_union_e : forall l, forallb wfe l = true -> l <> [] -> NoDup l -> wfe (union_e l) = true.
Proof.
  intros l Hw Hl Hn. unfold union_e. pose proof (wfe_coalesce_e l Hw) as Hc.
  pose proof (coalesce_e_nonempty l Hl) as Hne. pose proof (NoDup_coalesce_e l Hn) as Hnc.
  destruct (coalesce_e l) as [|a [|b r]] eqn:E; [congruence| cbn in Hc; rewrite andb_true_r in Hc; exact Hc |].
  destruct (existsb is_enone (a :: b :: r)); [|exact Hc].
  cbn [wfe forallb]. rewrite andb_true_r. apply wfe_union1_e.
  - rewrite forallb_forall in *. intros x Hx. apply filter_In in Hx. apply Hc. apply Hx.
  - apply filter_enone_nonempty; [exact Hnc | cbn; lia].
Qed.

(* ------------------------------------------------------------------------------------------------ *)
(* the printer, seen as producing an expression *)

Definition name_expr (n : name) : expr :=
  if (name_id n =? id_NoneType)%N then ENone else EName (name_id n).
Definition lit_expr (v : lit) : expr :=
  match v with LInt z => EInt z | LBool _ b => EBool b | LStr i => EStr i | LEnum i => EName i end.

Fixpoint to_expr (c : ctx) (t : ty) : expr :=
  match t with
  | Named n => name_expr n
  | AnyT => EName id_Any
  | NothingT => EName id_nothing
  | TParam i => EName i
  | Lit v => ESub id_Literal [lit_expr v]
  | Generic b ps =>
      let args := map (to_expr c) ps in
      if prints_tuple b then ESub (name_id b) (args ++ [EEllipsis])
      else if name_eqb b (NT id_Callable) then ESub (name_id b) (EEllipsis :: tl args)
      else ESub (name_id b) args
  | TupleT b ps =>
      let args := map (to_expr c) ps in
      match ps with
      | [] => ESub (name_id b) [ETuple0]
      | _ => if name_eqb b (NT id_Callable) then ESub (name_id b) (EEllipsis :: tl args)
             else ESub (name_id b) args
      end
  | CallableT b ps =>
      let args := map (to_expr c) ps in
      ESub (name_id b) [EList (removelast args); last args ENone]
  | Union ts => union_e (form_set_on c flat (map (to_expr c) ts))
  | Annot t a => ESub id_Annotated (to_expr c t :: map EStr a)
  end.

Lemma print_lit_flat : forall v, [print_lit v] = flat (lit_expr v).
Proof. destruct v; reflexivity. Qed.

Lemma print_name_flat : forall n, print_name n = flat (name_expr n).
Proof. intros n. unfold print_name, name_expr. destruct (name_id n =? id_NoneType)%N; reflexivity. Qed.

Lemma print_name_base : forall n, (name_id n =? id_NoneType)%N = false -> print_name n = [TName (name_id n)].
Proof. intros n H. unfold print_name. rewrite H. reflexivity. Qed.

Lemma prints_tuple_id : forall b, prints_tuple b = true -> name_id b = id_tuple.
Proof.
  intros b H. unfold prints_tuple in H. apply tokens_eqb_true in H. unfold print_name in H.
  destruct (name_id b =? id_NoneType)%N; [discriminate|]. injection H as H. exact H.
Qed.

Lemma name_eqb_eq : forall a b, name_eqb a b = true -> a = b.
Proof. destruct a, b; cbn; intros H; try discriminate; apply N.eqb_eq in H; congruence. Qed.
Lemma name_eqb_refl : forall a, name_eqb a a = true.
Proof. destruct a; cbn; apply N.eqb_refl. Qed.

Lemma removelast_map : forall {A B} (f : A -> B) l, removelast (map f l) = map f (removelast l).
Proof. induction l as [|x [|y r] IH]; cbn in *; [reflexivity|reflexivity|]. f_equal. exact IH. Qed.
Lemma last_map : forall {A B} (f : A -> B) l d d', l <> [] -> last (map f l) d = f (last l d').
Proof. induction l as [|x [|y r] IH]; intros d d' H; [congruence|reflexivity|]. cbn [map]. cbn [map] in IH. apply (IH d d'). discriminate. Qed.

Lemma map_tl' : forall {A B} (f : A -> B) l, map f (tl l) = tl (map f l).
Proof. destruct l; reflexivity. Qed.

Lemma forallb_Forall_in : forall {A} (f : A -> bool) (P : A -> Prop) l,
  Forall (fun x => f x = true -> P x) l -> forallb f l = true -> forall x, In x l -> P x.
Proof.
  intros A f P l HF Hb x Hx. rewrite Forall_forall in HF. rewrite forallb_forall in Hb. auto.
Qed.

Lemma print_to_expr : forall env c t, wf env t = true ->
  print_ty c t = flat (to_expr c t) /\ wfe (to_expr c t) = true.
Proof.
  intros env c. induction t using ty_ind'; intros Hwf.
  - cbn. split; [apply print_name_flat|]. unfold name_expr. destruct (_ =? _)%N; reflexivity.
  - split; reflexivity.
  - split; reflexivity.
  - split; reflexivity.
  - cbn. split; [unfold sub; cbn; rewrite <- print_lit_flat; reflexivity|]. destruct v; reflexivity.
  - (* Generic *)
    cbn [wf] in Hwf. apply andb_true_iff in Hwf. destruct Hwf as [Hwf Hshape].
    apply andb_true_iff in Hwf. destruct Hwf as [Hwf Hps].
    apply andb_true_iff in Hwf. destruct Hwf as [Hwf Hnn].
    pose proof (forallb_Forall_in _ _ _ H Hps) as IH.
    assert (Hmap: map (print_ty c) ps = map flat (map (to_expr c) ps)).
    { rewrite map_map. apply map_ext_in. intros x Hx. apply IH. exact Hx. }
    assert (Hw: forallb wfe (map (to_expr c) ps) = true).
    { rewrite forallb_forall. intros e He. apply in_map_iff in He. destruct He as (x & <- & Hx). apply IH. exact Hx. }
    apply negb_true_iff in Hnn.
    cbn [print_ty to_expr]. fold (prints_tuple b). rewrite (print_name_base b Hnn), Hmap.
    destruct (prints_tuple b) eqn:Et.
    + split.
      * change [[TEllipsis]] with (map flat [EEllipsis]). rewrite <- map_app. reflexivity.
      * cbn [wfe]. rewrite forallb_app, Hw. cbn. destruct (map (to_expr c) ps); reflexivity.
    + destruct (name_eqb b (NT id_Callable)) eqn:Ec.
      * split.
        -- rewrite <- map_tl'. change ([TEllipsis] :: map flat (tl (map (to_expr c) ps))) with (map flat (EEllipsis :: tl (map (to_expr c) ps))). reflexivity.
        -- cbn [wfe forallb]. cbn. destruct (map (to_expr c) ps) as [|e0 es0]; [reflexivity|]. cbn in Hw. apply andb_true_iff in Hw. apply Hw.
      * split; [reflexivity|]. cbn [wfe]. destruct ps as [|p0 ps0]; [discriminate|]. exact Hw.
  - (* TupleT *)
    cbn [wf] in Hwf. apply andb_true_iff in Hwf. destruct Hwf as [Hwf Hps].
    apply andb_true_iff in Hwf. destruct Hwf as [Hwf Hwn].
    pose proof (forallb_Forall_in _ _ _ H Hps) as IH.
    assert (Hmap: map (print_ty c) ps = map flat (map (to_expr c) ps)).
    { rewrite map_map. apply map_ext_in. intros x Hx. apply IH. exact Hx. }
    assert (Hw: forallb wfe (map (to_expr c) ps) = true).
    { rewrite forallb_forall. intros e He. apply in_map_iff in He. destruct He as (x & <- & Hx). apply IH. exact Hx. }
    pose proof (prints_tuple_id b Hwf) as Hid.
    assert (Hpn: print_name b = [TName (name_id b)]) by (apply print_name_base; rewrite Hid; reflexivity).
    assert (Hc: name_eqb b (NT id_Callable) = false).
    { destruct (name_eqb b (NT id_Callable)) eqn:E; [|reflexivity]. apply name_eqb_eq in E. subst b. discriminate. }
    cbn [print_ty to_expr]. rewrite Hpn, Hc, Hmap.
    destruct ps as [|p0 ps0]; [split; reflexivity|]. split; [reflexivity|]. exact Hw.
  - (* CallableT *)
    cbn [wf] in Hwf. apply andb_true_iff in Hwf. destruct Hwf as [Hwf Hne].
    apply andb_true_iff in Hwf. destruct Hwf as [Hwf Hps].
    pose proof (forallb_Forall_in _ _ _ H Hps) as IH.
    assert (Hmap: map (print_ty c) ps = map flat (map (to_expr c) ps)).
    { rewrite map_map. apply map_ext_in. intros x Hx. apply IH. exact Hx. }
    assert (Hw: forallb wfe (map (to_expr c) ps) = true).
    { rewrite forallb_forall. intros e He. apply in_map_iff in He. destruct He as (x & <- & Hx). apply IH. exact Hx. }
    apply name_eqb_eq in Hwf. subst b.
    cbn [print_ty to_expr]. rewrite Hmap.
    assert (Hnz: map (to_expr c) ps <> []) by (destruct ps; [discriminate|cbn; discriminate]).
    split.
    + unfold sub. cbn [print_name name_id]. cbn [flat map]. rewrite removelast_map.
      rewrite (last_map flat _ [] ENone Hnz). reflexivity.
    + cbn [wfe forallb]. rewrite andb_true_r. apply andb_true_iff. split.
      * rewrite forallb_forall in *. intros e He. apply Hw.
        clear -He. induction (map (to_expr c) ps) as [|a [|b r] IH']; cbn in *; [contradiction|contradiction|].
        destruct He as [He|He]; [left; exact He|right; apply IH'; exact He].
      * rewrite forallb_forall in Hw. apply Hw.
        clear -Hnz. induction (map (to_expr c) ps) as [|a [|b r] IH']; [congruence|left; reflexivity|].
        right. apply IH'. discriminate.
  - (* Union *)
    cbn [wf] in Hwf. apply andb_true_iff in Hwf. destruct Hwf as [Hwf Hne].
    apply andb_true_iff in Hwf. destruct Hwf as [Hts Hflat].
    pose proof (forallb_Forall_in _ _ _ H Hts) as IH.
    assert (Hmap: map (print_ty c) ts = map flat (map (to_expr c) ts)).
    { rewrite map_map. apply map_ext_in. intros x Hx. apply IH. exact Hx. }
    assert (Hw: forallb wfe (map (to_expr c) ts) = true).
    { rewrite forallb_forall. intros e He. apply in_map_iff in He. destruct He as (x & <- & Hx). apply IH. exact Hx. }
    cbn [print_ty to_expr]. rewrite Hmap. rewrite <- map_form_set_on.
    assert (Hw': forallb wfe (form_set_on c flat (map (to_expr c) ts)) = true).
    { rewrite forallb_forall in *. intros e He. apply Hw. eapply form_set_on_incl. exact He. }
    split; [apply build_union_flat; exact Hw'|].
    apply wfe_union_e; [exact Hw' | |].
    + apply form_set_on_nonempty. destruct ts; [discriminate|cbn; discriminate].
    + eapply NoDup_map_inv. apply NoDup_form_set_on.
  - (* Annot *)
    cbn [wf] in Hwf. apply andb_true_iff in Hwf. destruct Hwf as [Hwt Ha].
    destruct (IHt Hwt) as [IH1 IH2].
    cbn [print_ty to_expr]. rewrite IH1. split.
    + unfold sub. cbn [flat map app]. do 3 f_equal. rewrite map_map. reflexivity.
    + cbn [wfe forallb]. rewrite IH2. cbn. clear. induction a; cbn; [reflexivity|exact IHa].
Qed.

(* ------------------------------------------------------------------------------------------------ *)
(* facts about identifiers that follow from the dialect predicate *)

Lemma is_special_false : forall i, is_special i = false ->
  (i =? id_Any)%N = false /\ (i =? id_Optional)%N = false /\ (i =? id_Union)%N = false /\
  (i =? id_Literal)%N = false /\ (i =? id_nothing)%N = false /\ (i =? id_Annotated)%N = false /\
  (i =? id_Type)%N = false.
Proof.
  intros i H. unfold is_special in H. repeat (apply orb_false_iff in H; destruct H as [H ?]). tauto.
Qed.

Lemma ord_id_facts : forall env i, ord_id env i = true ->
  is_typing i = false /\ is_special i = false /\ is_tvar env i = false.
Proof.
  intros env i H. unfold ord_id in H. apply andb_true_iff in H. destruct H as [H H3].
  apply andb_true_iff in H. destruct H as [H1 H2]. rewrite negb_true_iff in *. tauto.
Qed.

Lemma conv_name_ord : forall env i, ord_id env i = true -> conv_name env i = Some (Named (NP i)).
Proof.
  intros env i H. destruct (ord_id_facts env i H) as (Ht & Hs & Hv).
  destruct (is_special_false i Hs) as (E1 & E2 & E3 & E4 & E5 & E6 & E7).
  unfold conv_name. rewrite E5, E1, E2, E3, E7, Hv, Ht. reflexivity.
Qed.

Lemma conv_name_typing : forall env i, is_typing i = true -> is_special i = false -> is_tvar env i = false ->
  conv_name env i = Some (Named (NT i)).
Proof.
  intros env i Ht Hs Hv. destruct (is_special_false i Hs) as (E1 & E2 & E3 & E4 & E5 & E6 & E7).
  unfold conv_name. rewrite E5, E1, E2, E3, E7, Hv, Ht. reflexivity.
Qed.

Lemma wf_name_conv : forall env n, wf_name env n = true -> (name_id n =? id_NoneType)%N = false ->
  conv_name env (name_id n) = Some (Named (norm_name n)).
Proof.
  intros env n H Hn. destruct n as [i|i|i]; cbn in *.
  - apply conv_name_ord. exact H.
  - apply andb_true_iff in H. destruct H as [H Hv]. apply andb_true_iff in H. destruct H as [Ht Hs].
    rewrite negb_true_iff in *. apply conv_name_typing; assumption.
  - apply conv_name_ord. exact H.
Qed.

Lemma wf_name_none : forall env n, wf_name env n = true -> (name_id n =? id_NoneType)%N = true ->
  norm_name n = NP id_NoneType.
Proof.
  intros env n H Hn. apply N.eqb_eq in Hn. destruct n as [i|i|i]; cbn in *; subst; try reflexivity.
  cbn in H. discriminate.
Qed.

(* the shape of what the printer produces for a type *)
Definition type_like (e : expr) : Prop :=
  match e with EName _ | ENone | ESub _ _ => True | _ => False end.

Lemma union1_e_like : forall l, Forall type_like l -> l <> [] -> type_like (union1_e l).
Proof.
  intros l H Hl. unfold union1_e. pose proof (coalesce_e_nonempty l Hl) as Hne.
  destruct (coalesce_e l) as [|a [|b r]] eqn:E; [congruence| |exact I].
  unfold coalesce_e in E. destruct (filter is_litsub l) as [|q qs].
  - assert (In a (filter (fun e => negb (is_litsub e)) l)) by (rewrite E; left; reflexivity).
    apply filter_In in H0. rewrite Forall_forall in H. apply H. apply H0.
  - destruct (filter (fun e => negb (is_litsub e)) l) as [|z [|z2 zs]]; cbn in E; try discriminate.
    injection E as <-. exact I.
Qed.

Lemma union_e_like : forall l, Forall type_like l -> l <> [] -> type_like (union_e l).
Proof.
  intros l H Hl. unfold union_e. pose proof (coalesce_e_nonempty l Hl) as Hne.
  destruct (coalesce_e l) as [|a [|b r]] eqn:E; [congruence| |destruct (existsb _ _); exact I].
  unfold coalesce_e in E. destruct (filter is_litsub l) as [|q qs].
  - assert (In a (filter (fun e => negb (is_litsub e)) l)) by (rewrite E; left; reflexivity).
    apply filter_In in H0. rewrite Forall_forall in H. apply H. apply H0.
  - destruct (filter (fun e => negb (is_litsub e)) l) as [|z [|z2 zs]]; cbn in E; try discriminate.
    injection E as <-. exact I.
Qed.

Lemma to_expr_like : forall env c t, wf env t = true -> type_like (to_expr c t).
Proof.
  intros env c. induction t using ty_ind'; intros Hwf; cbn [to_expr]; try exact I.
  - unfold name_expr. destruct (_ =? _)%N; exact I.
  - destruct (prints_tuple b); [exact I|]. destruct (name_eqb _ _); exact I.
  - destruct ps; [exact I|]. destruct (name_eqb _ _); exact I.
  - cbn [wf] in Hwf. apply andb_true_iff in Hwf. destruct Hwf as [Hwf Hne].
    apply andb_true_iff in Hwf. destruct Hwf as [Hts Hflat].
    apply union_e_like.
    + rewrite Forall_forall. intros e He. apply form_set_on_incl in He. apply in_map_iff in He.
      destruct He as (x & <- & Hx). rewrite Forall_forall in H. apply H; [exact Hx|].
      rewrite forallb_forall in Hts. apply Hts. exact Hx.
    + apply form_set_on_nonempty. destruct ts; [discriminate|cbn; discriminate].
Qed.

Lemma mapM_map : forall {A B C} (f : B -> option C) (g : A -> B) (h : A -> C) l,
  (forall x, In x l -> f (g x) = Some (h x)) -> mapM f (map g l) = Some (map h l).
Proof.
  induction l as [|x r IH]; intros H; cbn; [reflexivity|].
  rewrite (H x (or_introl eq_refl)). cbn in IH. rewrite IH; [reflexivity|].
  intros y Hy. apply H. right. exact Hy.
Qed.

Lemma mapM_app : forall {A B} (f : A -> option B) l1 l2 r1 r2,
  mapM f l1 = Some r1 -> mapM f l2 = Some r2 -> mapM f (l1 ++ l2) = Some (r1 ++ r2).
Proof.
  induction l1 as [|x r IH]; intros l2 r1 r2 H1 H2; cbn in *.
  - injection H1 as <-. exact H2.
  - destruct (f x); [|discriminate].
    destruct (mapM f r) eqn:E; [|discriminate]. injection H1 as <-.
    cbn in IH. rewrite (IH l2 l r2 eq_refl H2). reflexivity.
Qed.

(* ------------------------------------------------------------------------------------------------ *)
(* the reader's conversions applied to the printed expression give norm *)

Lemma wf_name_special : forall env b, wf_name env b = true -> is_special (name_id b) = false.
Proof.
  intros env b H. destruct b as [i|i|i]; cbn in *.
  - apply ord_id_facts in H. tauto.
  - apply andb_true_iff in H. destruct H as [H _]. apply andb_true_iff in H. destruct H as [_ H].
    apply negb_true_iff in H. exact H.
  - apply ord_id_facts in H. tauto.
Qed.

Lemma is_litsub_to_expr : forall env c t, wf env t = true -> is_union t = false ->
  is_litsub (to_expr c t) = is_lit t.
Proof.
  intros env c t Hwf Hu. destruct t; cbn [to_expr is_lit]; try reflexivity.
  - unfold name_expr. destruct (_ =? _)%N; reflexivity.
  - cbn [wf] in Hwf. apply andb_true_iff in Hwf. destruct Hwf as [Hwf _].
    apply andb_true_iff in Hwf. destruct Hwf as [Hwf _]. apply andb_true_iff in Hwf. destruct Hwf as [Hwf _].
    apply wf_name_special in Hwf. apply is_special_false in Hwf.
    destruct (prints_tuple b); [|destruct (name_eqb _ _)]; cbn; tauto.
  - cbn [wf] in Hwf. apply andb_true_iff in Hwf. destruct Hwf as [Hwf _].
    apply andb_true_iff in Hwf. destruct Hwf as [Hwf _]. apply prints_tuple_id in Hwf.
    destruct ps; [|destruct (name_eqb _ _)]; cbn; rewrite Hwf; reflexivity.
  - cbn [wf] in Hwf. apply andb_true_iff in Hwf. destruct Hwf as [Hwf _].
    apply andb_true_iff in Hwf. destruct Hwf as [Hwf _]. apply name_eqb_eq in Hwf. subst. reflexivity.
  - discriminate.
Qed.

Definition fe (c : ctx) (p : ty * ty) : expr := to_expr c (fst p).
Definition lit_of (t : ty) : expr := match t with Lit v => lit_expr v | _ => ENone end.
Definition lit_group (ls : list (ty * ty)) : expr := ESub id_Literal (map (fun p => lit_of (fst p)) ls).
Definition lge (ls : list (ty * ty)) : list expr := match ls with [] => [] | _ => [lit_group ls] end.
Definition lgt (ls : list (ty * ty)) : list ty := match ls with [] => [] | _ => [join_types (map snd ls)] end.

(* what is known about a member of a union and its canonical form *)
Definition member_ok (env : penv) (c : ctx) (p : ty * ty) : Prop :=
  wf env (fst p) = true /\ is_union (fst p) = false /\ conv env (fe c p) = Some (snd p) /\
  (is_lit (fst p) = true -> exists v, fst p = Lit v /\ snd p = Lit (pv v)).

Lemma conv_lit_arg_expr : forall v, conv_lit_arg (lit_expr v) = Some (Lit (pv v)).
Proof. destruct v; reflexivity. Qed.

Lemma flat_map_lit_args : forall c l,
  (forall p, In p l -> lit_args (fe c p) = [lit_of (fst p)]) ->
  flat_map lit_args (map (fe c) l) = map (fun p => lit_of (fst p)) l.
Proof.
  induction l as [|p r IH]; intros Hls; [reflexivity|].
  cbn [map flat_map]. rewrite (Hls p (or_introl eq_refl)). cbn [app]. f_equal.
  apply IH. intros x Hx. apply Hls. right. exact Hx.
Qed.

Lemma coalesce_e_members : forall env c ks,
  (forall p, In p ks -> member_ok env c p) ->
  coalesce_e (map (fe c) ks) =
  map (fe c) (filter (fun p => negb (u_lit p)) ks) ++ lge (filter u_lit ks).
Proof.
  intros env c ks H. unfold coalesce_e.
  assert (E1: filter (fun e => negb (is_litsub e)) (map (fe c) ks) = map (fe c) (filter (fun p => negb (u_lit p)) ks)).
  { rewrite <- (map_filter_comm (fe c) (fun e => negb (is_litsub e))). f_equal.
    apply filter_ext_in'. intros p Hp. destruct (H p Hp) as (Hw & Hu & _). unfold fe, u_lit.
    rewrite (is_litsub_to_expr env c _ Hw Hu). reflexivity. }
  assert (E2: filter is_litsub (map (fe c) ks) = map (fe c) (filter u_lit ks)).
  { rewrite <- (map_filter_comm (fe c) is_litsub). f_equal.
    apply filter_ext_in'. intros p Hp. destruct (H p Hp) as (Hw & Hu & _). unfold fe, u_lit.
    apply (is_litsub_to_expr env c _ Hw Hu). }
  rewrite E1, E2.
  assert (Hls: forall p, In p (filter u_lit ks) -> lit_args (fe c p) = [lit_of (fst p)]).
  { intros p Hp. apply filter_In in Hp. destruct Hp as [Hp Hl]. destruct (H p Hp) as (_ & _ & _ & Hv).
    destruct (Hv Hl) as (v & Ev & _). unfold fe. rewrite Ev. reflexivity. }
  destruct (filter u_lit ks) as [|q qs]; [cbn; rewrite app_nil_r; reflexivity|].
  cbn [map]. unfold lge, lit_group. f_equal. f_equal. f_equal.
  change (fe c q :: map (fe c) qs) with (map (fe c) (q :: qs)).
  apply flat_map_lit_args. exact Hls.
Qed.

Lemma conv_literal : forall env args,
  conv env (ESub id_Literal args) =
  match args, mapM conv_lit_arg args with
  | _ :: _, Some ls => Some (join_types ls)
  | _, _ => None
  end.
Proof. reflexivity. Qed.

Lemma conv_union_sub : forall env args,
  conv env (ESub id_Union args) =
  match args, mapM (conv env) args with
  | _ :: _, Some ps => Some (mk_union ps)
  | _, _ => None
  end.
Proof. reflexivity. Qed.

Lemma conv_optional_sub : forall env x,
  conv env (ESub id_Optional [x]) =
  match conv env x with
  | Some x' => Some (mk_union [x'; Named (NP id_NoneType)])
  | None => None
  end.
Proof. reflexivity. Qed.

Lemma conv_lit_group : forall env c ls,
  (forall p, In p ls -> member_ok env c p /\ u_lit p = true) -> ls <> [] ->
  conv env (lit_group ls) = Some (join_types (map snd ls)).
Proof.
  intros env c ls H Hne. unfold lit_group. rewrite conv_literal.
  assert (E: mapM conv_lit_arg (map (fun p => lit_of (fst p)) ls) = Some (map snd ls)).
  { apply mapM_map. intros p Hp. destruct (H p Hp) as [(_ & _ & _ & Hv) Hl].
    destruct (Hv Hl) as (v & Ev & En). rewrite Ev, En. cbn. apply conv_lit_arg_expr. }
  destruct ls as [|q qs]; [congruence|].
  cbn [map] in *. rewrite E. reflexivity.
Qed.

Lemma conv_items : forall env c X ls,
  (forall p, In p X -> member_ok env c p) ->
  (forall p, In p ls -> member_ok env c p /\ u_lit p = true) ->
  mapM (conv env) (map (fe c) X ++ lge ls) = Some (map snd X ++ lgt ls).
Proof.
  intros env c X ls HX Hls. apply mapM_app.
  - apply mapM_map. intros p Hp. apply (HX p Hp).
  - destruct ls as [|q qs]; [reflexivity|]. unfold lge, lgt. cbn [mapM].
    rewrite (conv_lit_group env c (q :: qs) Hls ltac:(discriminate)). reflexivity.
Qed.

Lemma coalesce_e_again : forall env c X ls,
  (forall p, In p X -> member_ok env c p /\ u_lit p = false) ->
  coalesce_e (map (fe c) X ++ lge ls) = map (fe c) X ++ lge ls.
Proof.
  intros env c X ls HX. unfold coalesce_e.
  assert (EX1: filter (fun e => negb (is_litsub e)) (map (fe c) X) = map (fe c) X).
  { induction X as [|p r IH]; [reflexivity|]. cbn [map filter].
    destruct (HX p (or_introl eq_refl)) as [(Hw & Hu & _) Hl]. unfold fe at 1.
    rewrite (is_litsub_to_expr env c _ Hw Hu). unfold u_lit in Hl. rewrite Hl. cbn. f_equal.
    apply IH. intros x Hx. apply HX. right. exact Hx. }
  assert (EX2: filter is_litsub (map (fe c) X) = []).
  { clear EX1. induction X as [|p r IH]; [reflexivity|]. cbn [map filter].
    destruct (HX p (or_introl eq_refl)) as [(Hw & Hu & _) Hl]. unfold fe at 1.
    rewrite (is_litsub_to_expr env c _ Hw Hu). unfold u_lit in Hl. rewrite Hl.
    apply IH. intros x Hx. apply HX. right. exact Hx. }
  rewrite !filter_app, EX1, EX2.
  destruct ls as [|q qs]; cbn [lge]; [cbn; rewrite !app_nil_r; reflexivity|].
  cbn [filter lit_group is_litsub]. rewrite N.eqb_refl. cbn [negb app].
  rewrite app_nil_r. f_equal. unfold lit_group. cbn [flat_map lit_args]. rewrite N.eqb_refl, app_nil_r. reflexivity.
Qed.

Lemma is_enone_fe : forall env c p, member_ok env c p -> is_enone (fe c p) = u_none c p.
Proof.
  intros env c p (Hw & _). unfold u_none, u_key, fe.
  destruct (print_to_expr env c (fst p) Hw) as [E _]. rewrite E. symmetry. apply is_none_flat.
Qed.

Lemma match_len2 : forall {A B} (l : list A) (f : A -> B) (g : list A -> B),
  2 <= length l -> match l with [x] => f x | l' => g l' end = g l.
Proof. intros A B l f g H. destruct l as [|a [|b r]]; cbn in H; try lia; reflexivity. Qed.

Lemma mapM_length : forall {A B} (f : A -> option B) l r, mapM f l = Some r -> length l = length r.
Proof.
  induction l as [|x l IH]; intros r H; cbn in H.
  - injection H as <-. reflexivity.
  - destruct (f x); [|discriminate]. destruct (mapM f l) eqn:E; [|discriminate].
    injection H as <-. cbn. f_equal. apply IH. reflexivity.
Qed.

Lemma NoDup_same_key : forall {A K} (key : A -> K) (k : K) l,
  NoDup (map key l) -> (forall x, In x l -> key x = k) -> length l <= 1.
Proof.
  intros A K key k l Hn H. destruct l as [|a [|b r]]; cbn; try lia.
  exfalso. cbn in Hn. inversion Hn as [|? ? Hna _]; subst. apply Hna. left.
  rewrite (H a), (H b); [reflexivity| right; left; reflexivity | left; reflexivity].
Qed.

Lemma existsb_enone_items : forall env c nl ls,
  (forall p, In p nl -> member_ok env c p) ->
  existsb is_enone (map (fe c) nl ++ lge ls) = existsb (u_none c) nl.
Proof.
  intros env c nl ls H. rewrite existsb_app.
  assert (E: existsb is_enone (lge ls) = false) by (destruct ls; reflexivity).
  rewrite E, orb_false_r. induction nl as [|p r IH]; [reflexivity|].
  cbn [map existsb]. rewrite (is_enone_fe env c p (H p (or_introl eq_refl))). f_equal.
  apply IH. intros x Hx. apply H. right. exact Hx.
Qed.

Lemma filter_enone_items : forall env c nl ls,
  (forall p, In p nl -> member_ok env c p) ->
  filter (fun e => negb (is_enone e)) (map (fe c) nl ++ lge ls) =
  map (fe c) (filter (fun p => negb (u_none c p)) nl) ++ lge ls.
Proof.
  intros env c nl ls H. rewrite filter_app. f_equal.
  - rewrite <- (map_filter_comm (fe c) (fun e => negb (is_enone e))). f_equal.
    apply filter_ext_in'. intros p Hp. rewrite (is_enone_fe env c p (H p Hp)). reflexivity.
  - destruct ls; reflexivity.
Qed.

Lemma conv_union_core : forall env c nl ls,
  (forall p, In p nl -> member_ok env c p /\ u_lit p = false) ->
  (forall p, In p ls -> member_ok env c p /\ u_lit p = true) ->
  nl ++ ls <> [] -> NoDup (map (u_key c) nl) ->
  conv env (match map (fe c) nl ++ lge ls with
            | [x] => x
            | l' => if existsb is_enone l'
                    then ESub id_Optional [union1_e (filter (fun e => negb (is_enone e)) l')]
                    else ESub id_Union l'
            end) =
  Some (match map snd nl ++ lgt ls with
        | [] => Union []
        | [x] => x
        | _ => if existsb (u_none c) nl
               then mk_union [match map snd (filter (fun p => negb (u_none c p)) nl) ++ lgt ls with
                              | [x] => x | l => mk_union l end; Named (NP id_NoneType)]
               else mk_union (map snd nl ++ lgt ls)
        end).
Proof.
  intros env c nl ls Hnl Hls Hne Hnd.
  assert (Hnl1: forall p, In p nl -> member_ok env c p) by (intros p Hp; apply (Hnl p Hp)).
  pose proof (conv_items env c nl ls Hnl1 Hls) as HM.
  pose proof (existsb_enone_items env c nl ls Hnl1) as HE.
  pose proof (filter_enone_items env c nl ls Hnl1) as HF.
  set (nl' := filter (fun p => negb (u_none c p)) nl) in *.
  assert (Hnl': forall p, In p nl' -> member_ok env c p /\ u_lit p = false).
  { intros p Hp. apply filter_In in Hp. apply Hnl. apply Hp. }
  assert (Hnl'1: forall p, In p nl' -> member_ok env c p) by (intros p Hp; apply (Hnl' p Hp)).
  pose proof (conv_items env c nl' ls Hnl'1 Hls) as HM'.
  pose proof (coalesce_e_again env c nl' ls Hnl') as HC.
  assert (Hlen: length (map (fe c) nl ++ lge ls) = length (map snd nl ++ lgt ls)) by (apply (mapM_length _ _ _ HM)).
  assert (Hlen': length (map (fe c) nl' ++ lge ls) = length (map snd nl' ++ lgt ls)) by (apply (mapM_length _ _ _ HM')).
  assert (Hnz: map (fe c) nl ++ lge ls <> []).
  { destruct nl; [destruct ls; [cbn in Hne; congruence|discriminate]|discriminate]. }
  destruct (map (fe c) nl ++ lge ls) as [|a [|b r]] eqn:EI; [congruence| |].
  - (* a single item *)
    destruct (map snd nl ++ lgt ls) as [|a' [|b' r']]; cbn in Hlen; try lia.
    cbn in HM. destruct (conv env a); [|discriminate]. injection HM as <-. reflexivity.
  - destruct (map snd nl ++ lgt ls) as [|a' [|b' r']] eqn:ET; cbn in Hlen; try lia.
    cbv beta iota zeta. rewrite HE. destruct (existsb (u_none c) nl) eqn:EN.
    + rewrite HF. unfold union1_e. rewrite HC.
      assert (Hnz': map (fe c) nl' ++ lge ls <> []).
      { intro E0. apply app_eq_nil in E0. destruct E0 as [E1 E2]. apply map_eq_nil in E1.
        destruct ls; [|discriminate].
        assert (Hall: forall x, In x nl -> u_key c x = [TNone]).
        { intros x Hx. destruct (u_none c x) eqn:Ex; [unfold u_none, is_none_s in Ex; apply tokens_eqb_true in Ex; exact Ex|].
          assert (In x nl') by (apply filter_In; split; [exact Hx|rewrite Ex; reflexivity]). rewrite E1 in H. contradiction. }
        pose proof (NoDup_same_key (u_key c) [TNone] nl Hnd Hall) as Hle.
        cbn [lge] in EI. rewrite app_nil_r in EI. apply (f_equal (@length _)) in EI. rewrite map_length in EI. cbn in EI. lia. }
      rewrite conv_optional_sub.
      destruct (map (fe c) nl' ++ lge ls) as [|x [|y s]] eqn:EI'; [congruence| |].
      * destruct (map snd nl' ++ lgt ls) as [|x' [|y' s']]; cbn in Hlen'; try lia.
        cbn in HM'. destruct (conv env x); [|discriminate]. injection HM' as <-. reflexivity.
      * destruct (map snd nl' ++ lgt ls) as [|x' [|y' s']] eqn:ET'; cbn in Hlen'; try lia.
        rewrite conv_union_sub. rewrite HM'. reflexivity.
    + rewrite conv_union_sub. rewrite HM. reflexivity.
Qed.

Lemma conv_generic_sub : forall env i args,
  (i =? id_Literal)%N = false -> (i =? id_Annotated)%N = false -> (i =? id_tuple)%N = false ->
  (i =? id_Callable)%N = false -> (i =? id_Any)%N = false -> (i =? id_Optional)%N = false ->
  (i =? id_Union)%N = false ->
  conv env (ESub i args) =
  match args, conv_base env i, mapM (conv env) args with
  | _ :: _, Some n, Some ps => Some (Generic n ps)
  | _, _, _ => None
  end.
Proof. intros env i args H1 H2 H3 H4 H5 H6 H7. cbn [conv]. rewrite H1, H2, H3, H4, H5, H6, H7. reflexivity. Qed.

Lemma conv_tuple_sub : forall env args,
  conv env (ESub id_tuple args) =
  match args with
  | [ETuple0] => Some (TupleT (NP id_tuple) [])
  | [x; EEllipsis] =>
      match conv env x with Some x' => Some (Generic (NP id_tuple) [x']) | None => None end
  | _ => match mapM (conv env) args with Some ps => Some (TupleT (NP id_tuple) ps) | None => None end
  end.
Proof. reflexivity. Qed.

Lemma conv_callable_list : forall env a r,
  conv env (ESub id_Callable [EList a; r]) =
  match mapM (conv env) a, conv env r with
  | Some a', Some r' =>
      match a' with
      | [] | [NothingT] => Some (CallableT (NT id_Callable) [r'])
      | _ => Some (CallableT (NT id_Callable) (a' ++ [r']))
      end
  | _, _ => None
  end.
Proof. reflexivity. Qed.

Lemma conv_callable_ell : forall env r,
  conv env (ESub id_Callable [EEllipsis; r]) =
  match conv env r with Some r' => Some (Generic (NT id_Callable) [AnyT; r']) | None => None end.
Proof. reflexivity. Qed.

Lemma conv_annot_sub : forall env t a0 a,
  conv env (ESub id_Annotated (t :: a0 :: a)) =
  match conv env t, mapM ann_arg (a0 :: a) with
  | Some t', Some x => Some (Annot t' x)
  | _, _ => None
  end.
Proof. reflexivity. Qed.

Lemma app_removelast_last' : forall {A} (l : list A) d, l <> [] -> removelast l ++ [last l d] = l.
Proof. intros. symmetry. apply app_removelast_last. exact H. Qed.

Lemma in_removelast : forall {A} (l : list A) x, In x (removelast l) -> In x l.
Proof.
  induction l as [|a [|b r] IH]; cbn; intros x H; [contradiction|contradiction|].
  destruct H as [H|H]; [left; exact H|right; apply IH; exact H].
Qed.

Lemma in_last : forall {A} (l : list A) d, l <> [] -> In (last l d) l.
Proof.
  induction l as [|a [|b r] IH]; intros d H; [congruence|left; reflexivity|].
  right. apply IH. discriminate.
Qed.

Lemma conv_to_expr : forall env c t, wf env t = true -> conv env (to_expr c t) = Some (norm c t).
Proof.
  intros env c. induction t using ty_ind'; intros Hwf.
  - (* Named *)
    cbn [wf] in Hwf. cbn [to_expr norm]. unfold name_expr.
    destruct (name_id n =? id_NoneType)%N eqn:En.
    + cbn. rewrite (wf_name_none env n Hwf En). reflexivity.
    + cbn [conv]. apply wf_name_conv; assumption.
  - reflexivity.
  - reflexivity.
  - (* TParam *)
    cbn [wf] in Hwf. apply andb_true_iff in Hwf. destruct Hwf as [Hwf Hn].
    apply andb_true_iff in Hwf. destruct Hwf as [Hwf Hs].
    apply andb_true_iff in Hwf. destruct Hwf as [Hv Ht]. rewrite negb_true_iff in *.
    destruct (is_special_false i Hs) as (E1 & E2 & E3 & E4 & E5 & E6 & E7).
    cbn [to_expr conv norm]. unfold conv_name. rewrite E5, E1, E2, E3, E7, Hv. reflexivity.
  - (* Lit *)
    cbn [to_expr norm]. rewrite conv_literal. cbn [mapM]. rewrite conv_lit_arg_expr. reflexivity.
  - (* Generic *)
    cbn [wf] in Hwf. apply andb_true_iff in Hwf. destruct Hwf as [Hwf Hshape].
    apply andb_true_iff in Hwf. destruct Hwf as [Hwf Hps].
    apply andb_true_iff in Hwf. destruct Hwf as [Hwf Hnn]. apply negb_true_iff in Hnn.
    pose proof (forallb_Forall_in _ _ _ H Hps) as IH.
    assert (HM: mapM (conv env) (map (to_expr c) ps) = Some (map (norm c) ps)) by (apply mapM_map; exact IH).
    cbn [to_expr norm]. fold (prints_tuple b).
    destruct (prints_tuple b) eqn:Et.
    + pose proof (prints_tuple_id b Et) as Hid. rewrite Hid.
      apply Nat.eqb_eq in Hshape. destruct ps as [|p0 [|p1 pr]]; cbn in Hshape; try discriminate.
      cbn [map app]. rewrite conv_tuple_sub. rewrite (IH p0 (or_introl eq_refl)).
      assert (Hl := to_expr_like env c p0 ltac:(cbn in Hps; apply andb_true_iff in Hps; apply Hps)).
      destruct (to_expr c p0); try contradiction; reflexivity.
    + destruct (name_eqb b (NT id_Callable)) eqn:Ec.
      * apply name_eqb_eq in Ec. subst b. cbn [name_id].
        destruct ps as [|p0 [|p1 [|p2 pr]]]; try discriminate; destruct p0; try discriminate.
        cbn [map tl]. rewrite conv_callable_ell. rewrite (IH p1); [reflexivity|right; left; reflexivity].
      * assert (Hsp := wf_name_special env b Hwf). destruct (is_special_false _ Hsp) as (E1 & E2 & E3 & E4 & E5 & E6 & E7).
        assert (Etu: (name_id b =? id_tuple)%N = false).
        { destruct (name_id b =? id_tuple)%N eqn:E; [|reflexivity]. apply N.eqb_eq in E.
          unfold prints_tuple, print_name in Et. rewrite Hnn, E in Et. rewrite tokens_eqb_refl in Et. discriminate. }
        assert (Eca: (name_id b =? id_Callable)%N = false).
        { destruct (name_id b =? id_Callable)%N eqn:E; [|reflexivity]. apply N.eqb_eq in E.
          destruct b as [i|i|i]; cbn in E; subst i.
          - cbn in Hwf. discriminate.
          - cbn in Ec. discriminate.
          - cbn in Hwf. discriminate. }
        rewrite (conv_generic_sub env _ _ E4 E6 Etu Eca E1 E2 E3).
        unfold conv_base. rewrite (wf_name_conv env b Hwf Hnn).
        destruct ps as [|p0 pr]; [discriminate|]. cbn [map] in *. rewrite HM. reflexivity.
  - (* TupleT *)
    cbn [wf] in Hwf. apply andb_true_iff in Hwf. destruct Hwf as [Hwf Hps].
    apply andb_true_iff in Hwf. destruct Hwf as [Hwf Hwn].
    pose proof (forallb_Forall_in _ _ _ H Hps) as IH.
    assert (HM: mapM (conv env) (map (to_expr c) ps) = Some (map (norm c) ps)) by (apply mapM_map; exact IH).
    pose proof (prints_tuple_id b Hwf) as Hid.
    assert (Hc: name_eqb b (NT id_Callable) = false).
    { destruct (name_eqb b (NT id_Callable)) eqn:E; [|reflexivity]. apply name_eqb_eq in E. subst b. discriminate. }
    cbn [to_expr norm]. rewrite Hc, Hid.
    destruct ps as [|p0 ps0]; [reflexivity|].
    rewrite conv_tuple_sub.
    assert (Hl: forall p, In p (p0 :: ps0) -> type_like (to_expr c p)).
    { intros p Hp. apply (to_expr_like env). rewrite forallb_forall in Hps. apply Hps. exact Hp. }
    cbn [map] in *.
    destruct ps0 as [|p1 [|p2 pr]].
    + pose proof (Hl p0 (or_introl eq_refl)) as L0. cbn [map] in *.
      destruct (to_expr c p0) eqn:E0; try contradiction; rewrite HM; reflexivity.
    + pose proof (Hl p1 (or_intror (or_introl eq_refl))) as L1. cbn [map] in *.
      destruct (to_expr c p1) eqn:E1; try contradiction; rewrite HM; destruct (to_expr c p0); reflexivity.
    + cbn [map] in *.
      destruct (to_expr c p0); destruct (to_expr c p1); rewrite HM; reflexivity.
  - (* CallableT *)
    cbn [wf] in Hwf. apply andb_true_iff in Hwf. destruct Hwf as [Hwf Hne].
    apply andb_true_iff in Hwf. destruct Hwf as [Hwf Hps].
    pose proof (forallb_Forall_in _ _ _ H Hps) as IH.
    apply name_eqb_eq in Hwf. subst b.
    assert (Hnz: ps <> []) by (destruct ps; [discriminate|discriminate]).
    cbn [to_expr norm name_id]. rewrite conv_callable_list.
    rewrite removelast_map.
    rewrite (last_map (to_expr c) ps ENone AnyT Hnz).
    rewrite (mapM_map (conv env) (to_expr c) (norm c)) by (intros x Hx; apply IH; apply in_removelast; exact Hx).
    rewrite (IH (last ps AnyT) (in_last ps AnyT Hnz)).
    rewrite <- (removelast_map (norm c)).
    rewrite <- (last_map (norm c) ps AnyT AnyT Hnz).
    assert (Hnz': map (norm c) ps <> []) by (destruct ps; [congruence|discriminate]).
    pose proof (app_removelast_last' (map (norm c) ps) AnyT Hnz') as Hall.
    set (r' := last (map (norm c) ps) AnyT) in *.
    destruct (removelast (map (norm c) ps)) as [|a0 [|a1 ar]] eqn:Er.
    + rewrite <- Hall. reflexivity.
    + destruct a0; try (rewrite <- Hall; reflexivity). reflexivity.
    + rewrite <- Hall. destruct a0; reflexivity.
  - (* Union *)
    cbn [wf] in Hwf. apply andb_true_iff in Hwf. destruct Hwf as [Hwf Hne].
    apply andb_true_iff in Hwf. destruct Hwf as [Hts Hflat].
    pose proof (forallb_Forall_in _ _ _ H Hts) as IH.
    cbn [to_expr norm].
    set (pairs := map (fun t => (t, norm c t)) ts).
    assert (Hpairs: forall p, In p pairs -> member_ok env c p).
    { intros p Hp. apply in_map_iff in Hp. destruct Hp as (t & <- & Ht). cbn [fst snd].
      rewrite forallb_forall in Hts, Hflat. specialize (Hflat t Ht). apply negb_true_iff in Hflat.
      repeat split; [apply Hts; exact Ht | exact Hflat | apply IH; exact Ht |].
      intros Hl. cbn in Hl. destruct t; try discriminate. exists v. split; reflexivity. }
    assert (Ees: map (to_expr c) ts = map (fe c) pairs).
    { unfold pairs. rewrite map_map. reflexivity. }
    rewrite Ees. rewrite form_set_on_map.
    rewrite (form_set_on_ext c (fun x => flat (fe c x)) (u_key c) pairs).
    2:{ intros p Hp. destruct (Hpairs p Hp) as (Hw & _). unfold u_key, fe.
        destruct (print_to_expr env c (fst p) Hw) as [E _]. symmetry. exact E. }
    fold (u_ks c pairs).
    assert (Hks: forall p, In p (u_ks c pairs) -> member_ok env c p).
    { intros p Hp. apply Hpairs. eapply form_set_on_incl. exact Hp. }
    unfold union_e. rewrite (coalesce_e_members env c _ Hks).
    fold (u_nl c pairs). fold (u_ls c pairs).
    unfold norm_union.
    change (match u_ls c pairs with [] => [] | _ :: _ => [join_types (map snd (u_ls c pairs))] end) with (lgt (u_ls c pairs)).
    apply conv_union_core.
    + intros p Hp. unfold u_nl in Hp. apply filter_In in Hp. destruct Hp as [Hp Hl]. apply negb_true_iff in Hl.
      split; [apply Hks; exact Hp | exact Hl].
    + intros p Hp. unfold u_ls in Hp. apply filter_In in Hp. destruct Hp as [Hp Hl].
      split; [apply Hks; exact Hp | exact Hl].
    + assert (Hk: u_ks c pairs <> []).
      { apply form_set_on_nonempty. unfold pairs. destruct ts; [discriminate|cbn; discriminate]. }
      unfold u_nl, u_ls. destruct (u_ks c pairs) as [|k0 kr]; [congruence|]. cbn [filter].
      destruct (u_lit k0); cbn; [|discriminate]. intro E. apply app_eq_nil in E. destruct E; discriminate.
    + unfold u_nl. apply NoDup_map_filter. apply NoDup_form_set_on.
  - (* Annot *)
    cbn [wf] in Hwf. apply andb_true_iff in Hwf. destruct Hwf as [Hwt Ha].
    cbn [to_expr norm]. destruct a as [|a0 ar]; [discriminate|]. cbn [map].
    rewrite conv_annot_sub. rewrite (IHt Hwt).
    change (EStr a0 :: map EStr ar) with (map EStr (a0 :: ar)).
    rewrite (mapM_map ann_arg EStr (fun x => x)) by reflexivity. rewrite map_id. reflexivity.
Qed.

Theorem parse_print_lemma : forall env c t, wf env t = true ->
  parse_ty env (print_ty c t) = Some (norm c t).
Proof.
  intros env c t H. destruct (print_to_expr env c t H) as [E W].
  unfold parse_ty. rewrite E. rewrite (parse_flat _ W). apply conv_to_expr. exact H.
Qed.

(* ------------------------------------------------------------------------------------------------ *)
(* printing the canonical form *)

Lemma dedup_nodup : forall {A} (eqb : A -> A -> bool) l, nodup_by eqb l = true -> dedup eqb l = l.
Proof.
  induction l as [|x r IH]; intros H; [reflexivity|]. cbn in *. apply andb_true_iff in H. destruct H as [Hx Hr].
  rewrite (IH Hr). f_equal. apply negb_true_iff in Hx.
  clear -Hx. induction r as [|y s IHs]; [reflexivity|]. cbn in *. apply orb_false_iff in Hx. destruct Hx as [H1 H2].
  rewrite H1. cbn. f_equal. apply IHs. exact H2.
Qed.

Lemma nodup_by_app : forall {A} (eqb : A -> A -> bool) a b,
  nodup_by eqb (a ++ b) = true -> nodup_by eqb a = true /\ nodup_by eqb b = true.
Proof.
  induction a as [|x r IH]; intros b H; [split; [reflexivity|exact H]|].
  cbn in *. apply andb_true_iff in H. destruct H as [Hx Hr]. destruct (IH b Hr) as [I1 I2].
  split; [|exact I2]. rewrite I1, andb_true_r. rewrite existsb_app in Hx. apply negb_true_iff in Hx.
  apply orb_false_iff in Hx. apply negb_true_iff. apply Hx.
Qed.

Lemma flatten_nonunion : forall l, (forall t, In t l -> is_union t = false) -> flatten l = l.
Proof.
  induction l as [|t r IH]; intros H; [reflexivity|]. unfold flatten in *. cbn [flat_map].
  rewrite IH by (intros x Hx; apply H; right; exact Hx).
  specialize (H t (or_introl eq_refl)). destruct t; try reflexivity. discriminate.
Qed.

Lemma flatten_app : forall a b, flatten (a ++ b) = flatten a ++ flatten b.
Proof. intros. unfold flatten. apply flat_map_app. Qed.

Lemma is_lit_not_union : forall t, is_lit t = true -> is_union t = false.
Proof. destruct t; cbn; congruence. Qed.

Lemma join_types_lits : forall l, (forall t, In t l -> is_lit t = true) -> nodup_by ty_eqb l = true -> l <> [] ->
  flatten [join_types l] = l /\ join_types l = match l with [x] => x | _ => Union l end.
Proof.
  intros l Hl Hn Hne.
  assert (Hf: flatten l = l) by (apply flatten_nonunion; intros t Ht; apply is_lit_not_union; apply Hl; exact Ht).
  assert (Hnn: filter (fun t => negb (is_nothing t)) l = l).
  { clear -Hl. induction l as [|t r IH]; [reflexivity|]. cbn.
    pose proof (Hl t (or_introl eq_refl)) as Ht. destruct t; try discriminate. cbn. f_equal.
    apply IH. intros x Hx. apply Hl. right. exact Hx. }
  assert (Hna: existsb is_any l = false).
  { clear -Hl. induction l as [|t r IH]; [reflexivity|]. cbn.
    pose proof (Hl t (or_introl eq_refl)) as Ht. destruct t; try discriminate. cbn.
    apply IH. intros x Hx. apply Hl. right. exact Hx. }
  unfold join_types. rewrite Hf, Hnn, (dedup_nodup _ _ Hn).
  destruct l as [|a [|b r]]; [congruence| |].
  - split; [|reflexivity]. apply flatten_nonunion. intros t [<-|[]]. apply is_lit_not_union. apply Hl. left. reflexivity.
  - rewrite Hna. unfold mk_union. rewrite Hf, (dedup_nodup _ _ Hn). split; [|reflexivity].
    unfold flatten. cbn. rewrite app_nil_r. reflexivity.
Qed.

(* what is known about a member and its canonical form when printing the canonical form *)
Definition member_ok2 (env : penv) (c : ctx) (p : ty * ty) : Prop :=
  member_ok env c p /\ print_ty c (snd p) = u_key c p /\ is_union (snd p) = false.

Lemma norm_union_single : forall c pairs p,
  u_nl c pairs ++ u_ls c pairs = [p] -> (is_lit (fst p) = true -> is_lit (snd p) = true) ->
  norm_union c pairs = snd p.
Proof.
  intros c pairs p H Hl. unfold norm_union.
  destruct (u_nl c pairs) as [|a [|b r]]; cbn in H.
  - rewrite H. cbn. assert (Hp: In p (u_ls c pairs)) by (rewrite H; left; reflexivity).
    unfold u_ls in Hp. apply filter_In in Hp. destruct Hp as [_ Hp]. unfold u_lit in Hp. specialize (Hl Hp).
    destruct (snd p); try discriminate. reflexivity.
  - injection H as -> H. rewrite H. reflexivity.
  - destruct r; discriminate.
Qed.

Lemma flatten_pair : forall a b, flatten [a; b] = flatten [a] ++ flatten [b].
Proof. intros. apply (flatten_app [a] [b]). Qed.

Lemma mk_union_inner : forall T' X N,
  flatten T' = X -> is_union N = false -> nodup_by ty_eqb (X ++ [N]) = true ->
  mk_union [match T' with [] => mk_union [] | [x] => x | x :: y :: r => mk_union (x :: y :: r) end; N] = Union (X ++ [N]).
Proof.
  intros T' X N HX HN Hn. destruct (nodup_by_app _ _ _ Hn) as [HnX _].
  assert (EN: flatten [N] = [N]) by (apply flatten_nonunion; intros t [<-|[]]; exact HN).
  unfold mk_union at 1. rewrite flatten_pair, EN.
  destruct T' as [|a [|b r]].
  - cbn in HX. subst X. reflexivity.
  - rewrite HX. rewrite (dedup_nodup _ _ Hn). reflexivity.
  - unfold mk_union. rewrite HX, (dedup_nodup _ _ HnX).
    assert (E: flatten [Union X] = X) by (unfold flatten; cbn; apply app_nil_r).
    rewrite E, (dedup_nodup _ _ Hn). reflexivity.
Qed.

Lemma norm_union_multi : forall env c pairs,
  (forall p, In p (u_ks c pairs) -> member_ok2 env c p) ->
  2 <= length (u_nl c pairs ++ u_ls c pairs) ->
  nodup_by ty_eqb (union_F c pairs) = true ->
  norm_union c pairs = Union (union_F c pairs).
Proof.
  intros env c pairs Hks Hlen Hnd. unfold norm_union, union_F in *.
  set (nl := u_nl c pairs) in *. set (ls := u_ls c pairs) in *. set (nl' := u_nl' c pairs) in *.
  assert (Hnl: forall p, In p nl -> is_union (snd p) = false).
  { intros p Hp. unfold nl, u_nl in Hp. apply filter_In in Hp. apply (Hks p (proj1 Hp)). }
  assert (Hnl': forall p, In p nl' -> is_union (snd p) = false).
  { intros p Hp. unfold nl', u_nl' in Hp. apply filter_In in Hp. apply Hnl. apply Hp. }
  assert (Hls: forall t, In t (map snd ls) -> is_lit t = true).
  { intros t Ht. apply in_map_iff in Ht. destruct Ht as (p & <- & Hp). unfold ls, u_ls in Hp.
    apply filter_In in Hp. destruct Hp as [Hp Hl]. destruct (Hks p Hp) as ((_ & _ & _ & Hv) & _).
    destruct (Hv Hl) as (v & _ & ->). reflexivity. }
  assert (Hfl: forall X : list (ty * ty), (forall p, In p X -> is_union (snd p) = false) -> flatten (map snd X) = map snd X).
  { intros X HX. apply flatten_nonunion. intros t Ht. apply in_map_iff in Ht. destruct Ht as (p & <- & Hp). apply HX. exact Hp. }
  (* nodup facts *)
  destruct (nodup_by_app _ _ _ Hnd) as [Hnd1 Hnd2]. destruct (nodup_by_app _ _ _ Hnd2) as [Hndl _].
  assert (Hlg: forall X : list (ty * ty), flatten (map snd X ++ match ls with [] => [] | _ :: _ => [join_types (map snd ls)] end)
                         = flatten (map snd X) ++ map snd ls).
  { intros X. rewrite flatten_app. f_equal. destruct ls as [|q qs] eqn:El; [reflexivity|].
    rewrite <- El in *. apply join_types_lits; [exact Hls | exact Hndl |]. rewrite El. discriminate. }
  destruct (existsb (u_none c) nl) eqn:EN.
  - (* a None member *)
    assert (HF0: flatten (map snd nl' ++ match ls with [] => [] | _ :: _ => [join_types (map snd ls)] end) = map snd nl' ++ map snd ls).
    { rewrite Hlg, (Hfl nl' Hnl'). reflexivity. }
    assert (Hn0: nodup_by ty_eqb (map snd nl' ++ map snd ls) = true).
    { rewrite app_assoc in Hnd. apply (nodup_by_app _ _ _ Hnd). }
    assert (Hres: mk_union [match map snd nl' ++ match ls with [] => [] | _ :: _ => [join_types (map snd ls)] end with
                             | [x] => x | l => mk_union l end; Named (NP id_NoneType)]
                  = Union (map snd nl' ++ map snd ls ++ [Named (NP id_NoneType)])).
    { rewrite (mk_union_inner _ (map snd nl' ++ map snd ls) (Named (NP id_NoneType)) HF0 eq_refl).
      - rewrite <- app_assoc. reflexivity.
      - rewrite <- app_assoc. exact Hnd. }
    destruct (map snd nl ++ match ls with [] => [] | _ :: _ => [join_types (map snd ls)] end) as [|a [|b r]] eqn:ET.
    + apply app_eq_nil in ET. destruct ET as [E1 _]. apply map_eq_nil in E1. rewrite E1 in EN. discriminate.
    + (* a single printed item that is None: impossible with two members *)
      exfalso. destruct nl as [|p [|p2 pr]]; cbn in ET.
      * discriminate.
      * destruct ls; [cbn in Hlen; lia|discriminate].
      * destruct pr; discriminate.
    + exact Hres.
  - (* no None member *)
    assert (Enl: nl' = nl).
    { unfold nl', u_nl'. fold nl. clear -EN. induction nl as [|p r IH]; [reflexivity|]. cbn in *.
      apply orb_false_iff in EN. destruct EN as [E1 E2]. rewrite E1. cbn. f_equal. apply IH. exact E2. }
    rewrite Enl in *. rewrite app_nil_r in *.
    assert (HF: flatten (map snd nl ++ match ls with [] => [] | _ :: _ => [join_types (map snd ls)] end) = map snd nl ++ map snd ls).
    { rewrite Hlg, (Hfl nl Hnl). reflexivity. }
    destruct (map snd nl ++ match ls with [] => [] | _ :: _ => [join_types (map snd ls)] end) as [|a [|b r]] eqn:ET.
    + apply app_eq_nil in ET. destruct ET as [E1 E2]. apply map_eq_nil in E1. rewrite E1 in Hlen.
      destruct ls; [cbn in Hlen; lia|discriminate].
    + destruct nl as [|p [|p2 pr]]; cbn in ET.
      * cbn [map app] in *.
        pose proof (join_types_lits (map snd ls) Hls Hndl) as HJ.
        destruct ls as [|q qs]; [discriminate|].
        destruct (HJ ltac:(discriminate)) as [_ HJ2]. injection ET as <-. cbn [map] in *. rewrite HJ2.
        destruct qs; [cbn in Hlen; lia|reflexivity].
      * destruct ls; [cbn in Hlen; lia|discriminate].
      * destruct pr; discriminate.
    + unfold mk_union. rewrite HF. rewrite (dedup_nodup _ _ Hnd). reflexivity.
Qed.

(* ---- _FormSetTypeList is the identity on a selection it has already made ---- *)

Definition pair_free (L : list (list token)) (p : N * N) : Prop :=
  mem_s [TName (fst p)] L && mem_s [TName (snd p)] L = false.

Lemma mem_s_In : forall s L, mem_s s L = true <-> In s L.
Proof.
  intros. unfold mem_s. rewrite existsb_exists. split.
  - intros (x & Hx & E). apply tokens_eqb_true in E. subst. exact Hx.
  - intros H. exists s. split; [exact H|apply tokens_eqb_refl].
Qed.

Lemma compat_step_sub : forall L q s, In s (compat_step L q) -> In s L.
Proof.
  intros L q s. unfold compat_step. destruct (_ && _); [|exact (fun H => H)].
  intros H. apply filter_In in H. apply H.
Qed.

Lemma fold_compat_sub : forall items L s, In s (fold_left compat_step items L) -> In s L.
Proof.
  induction items as [|q r IH]; cbn; intros L s H; [exact H|]. apply IH in H. eapply compat_step_sub. exact H.
Qed.

Lemma pair_free_sub : forall L L' p, (forall s, In s L' -> In s L) -> pair_free L p -> pair_free L' p.
Proof.
  intros L L' p Hsub H. unfold pair_free in *.
  destruct (mem_s [TName (fst p)] L') eqn:E1; [|reflexivity].
  destruct (mem_s [TName (snd p)] L') eqn:E2; [|reflexivity].
  apply mem_s_In in E1. apply mem_s_In in E2. apply Hsub in E1. apply Hsub in E2.
  apply mem_s_In in E1. apply mem_s_In in E2. rewrite E1, E2 in H. discriminate.
Qed.

Lemma compat_step_establish : forall L q, pair_free (compat_step L q) q.
Proof.
  intros L q. unfold compat_step, pair_free.
  destruct (mem_s [TName (fst q)] L && mem_s [TName (snd q)] L) eqn:E; [|exact E].
  assert (Hf: mem_s [TName (fst q)] (filter (fun s => negb (tokens_eqb s [TName (fst q)])) L) = false).
  { destruct (mem_s [TName (fst q)] (filter (fun s => negb (tokens_eqb s [TName (fst q)])) L)) eqn:E1; [|reflexivity].
    apply mem_s_In in E1. apply filter_In in E1.
    destruct E1 as [_ E1]. rewrite tokens_eqb_refl in E1. discriminate. }
  rewrite Hf. reflexivity.
Qed.

Lemma fold_compat_establish : forall items L p, In p items -> pair_free (fold_left compat_step items L) p.
Proof.
  induction items as [|q r IH]; intros L p Hp; [contradiction|]. cbn.
  destruct Hp as [->|Hp]; [|apply IH; exact Hp].
  eapply pair_free_sub; [|apply compat_step_establish]. intros s Hs. eapply fold_compat_sub. exact Hs.
Qed.

Lemma fold_compat_free : forall items L, (forall p, In p items -> pair_free L p) -> fold_left compat_step items L = L.
Proof.
  induction items as [|q r IH]; intros L H; [reflexivity|]. cbn.
  assert (E: compat_step L q = L).
  { unfold compat_step. specialize (H q (or_introl eq_refl)). unfold pair_free in H. rewrite H. reflexivity. }
  rewrite E. apply IH. intros p Hp. apply H. right. exact Hp.
Qed.

Lemma dedup_NoDup_tok : forall l, NoDup l -> dedup tokens_eqb l = l.
Proof.
  induction l as [|x r IH]; intros H; [reflexivity|]. inversion H as [|? ? Hx Hr]; subst. cbn.
  rewrite (IH Hr). f_equal. clear -Hx. induction r as [|y s IHs]; [reflexivity|]. cbn.
  assert (tokens_eqb x y = false) as -> by (apply tokens_eqb_false; intro E; apply Hx; left; symmetry; exact E).
  cbn. f_equal. apply IHs. intro Hin. apply Hx. right. exact Hin.
Qed.

Lemma form_set_fix : forall c L',
  NoDup L' -> (in_param c = true -> forall p, In p compat_items -> pair_free L' p) -> form_set c L' = L'.
Proof.
  intros c L' Hn Hp. unfold form_set. rewrite (dedup_NoDup_tok _ Hn).
  destruct (in_param c); [|reflexivity]. apply fold_compat_free. apply Hp. reflexivity.
Qed.

Lemma form_set_pair_free : forall c L, in_param c = true -> forall p, In p compat_items -> pair_free (form_set c L) p.
Proof.
  intros c L Hc p Hp. unfold form_set. rewrite Hc. apply fold_compat_establish. exact Hp.
Qed.

Lemma NoDup_app_intro : forall {A} (l1 l2 : list A),
  NoDup l1 -> NoDup l2 -> (forall x, In x l1 -> ~ In x l2) -> NoDup (l1 ++ l2).
Proof.
  induction l1 as [|x r IH]; intros l2 H1 H2 Hd; [exact H2|]. cbn.
  inversion H1 as [|? ? Hx Hr]; subst. constructor.
  - intro Hin. apply in_app_or in Hin. destruct Hin as [Hin|Hin]; [exact (Hx Hin)|].
    exact (Hd x (or_introl eq_refl) Hin).
  - apply IH; [exact Hr | exact H2 |]. intros y Hy. apply Hd. right. exact Hy.
Qed.

Lemma filter_all : forall {A} (P : A -> bool) l, (forall x, In x l -> P x = true) -> filter P l = l.
Proof.
  induction l as [|x r IH]; intros H; [reflexivity|]. cbn. rewrite (H x (or_introl eq_refl)). f_equal.
  apply IH. intros y Hy. apply H. right. exact Hy.
Qed.
Lemma filter_none : forall {A} (P : A -> bool) l, (forall x, In x l -> P x = false) -> filter P l = [].
Proof.
  induction l as [|x r IH]; intros H; [reflexivity|]. cbn. rewrite (H x (or_introl eq_refl)).
  apply IH. intros y Hy. apply H. right. exact Hy.
Qed.

Lemma filter_partition_length : forall {A} (P : A -> bool) l,
  length (filter (fun x => negb (P x)) l ++ filter P l) = length l.
Proof.
  intros A P l. rewrite app_length. induction l as [|x r IH]; [reflexivity|]. cbn.
  destruct (P x); cbn; lia.
Qed.

Lemma K_flat : forall env c p, member_ok env c p -> u_key c p = flat (fe c p).
Proof. intros env c p (Hw & _). unfold u_key, fe. apply (print_to_expr env c _ Hw). Qed.

Lemma wfe_fe : forall env c p, member_ok env c p -> wfe (fe c p) = true.
Proof. intros env c p (Hw & _). unfold fe. apply (print_to_expr env c _ Hw). Qed.

Lemma map_K_flat : forall env c X, (forall p, In p X -> member_ok env c p) ->
  map (u_key c) X = map flat (map (fe c) X) /\ forallb wfe (map (fe c) X) = true.
Proof.
  intros env c X H. split.
  - rewrite map_map. apply map_ext_in. intros p Hp. apply (K_flat env). apply H. exact Hp.
  - rewrite forallb_forall. intros e He. apply in_map_iff in He. destruct He as (p & <- & Hp).
    apply (wfe_fe env). apply H. exact Hp.
Qed.

Lemma lit_key_not_name : forall env c p, member_ok env c p -> u_lit p = true ->
  (forall i, u_key c p <> [TName i]) /\ u_key c p <> [TNone].
Proof.
  intros env c p (_ & _ & _ & Hv) Hl. destruct (Hv Hl) as (v & E & _). unfold u_key. rewrite E.
  cbn. split; [intros i|]; discriminate.
Qed.

(* the union printed from the re-read members is the union printed from the original members *)
Lemma print_union_F : forall env c pairs,
  (forall p, In p (u_ks c pairs) -> member_ok2 env c p) ->
  2 <= length (u_nl c pairs ++ u_ls c pairs) ->
  print_ty c (Union (union_F c pairs)) = build_union (map (u_key c) (u_ks c pairs)).
Proof.
  intros env c pairs Hks Hlen.
  set (ks := u_ks c pairs) in *. set (nl := u_nl c pairs) in *. set (ls := u_ls c pairs) in *.
  set (nl' := u_nl' c pairs) in *.
  assert (Hks1: forall p, In p ks -> member_ok env c p) by (intros p Hp; apply (Hks p Hp)).
  assert (Inl: forall p, In p nl -> In p ks /\ u_lit p = false).
  { intros p Hp. unfold nl, u_nl in Hp. apply filter_In in Hp. destruct Hp as [H1 H2]. apply negb_true_iff in H2. split; assumption. }
  assert (Ils: forall p, In p ls -> In p ks /\ u_lit p = true).
  { intros p Hp. unfold ls, u_ls in Hp. apply filter_In in Hp. exact Hp. }
  assert (Inl': forall p, In p nl' -> In p nl /\ u_none c p = false).
  { intros p Hp. unfold nl', u_nl' in Hp. apply filter_In in Hp. destruct Hp as [H1 H2]. apply negb_true_iff in H2. split; assumption. }
  assert (HndK: NoDup (map (u_key c) ks)) by apply NoDup_form_set_on.
  assert (HndNl: NoDup (map (u_key c) nl)) by (apply NoDup_map_filter; exact HndK).
  assert (HndLs: NoDup (map (u_key c) ls)) by (apply NoDup_map_filter; exact HndK).
  assert (HndNl': NoDup (map (u_key c) nl')) by (apply NoDup_map_filter; exact HndNl).
  (* the members that are printed the second time *)
  set (M := nl' ++ ls ++ (if existsb (u_none c) nl then firstn 1 (filter (u_none c) nl) else [])).
  assert (HMin: forall p, In p M -> In p ks).
  { intros p Hp. unfold M in Hp. apply in_app_or in Hp. destruct Hp as [Hp|Hp]; [apply Inl; apply Inl'; exact Hp|].
    apply in_app_or in Hp. destruct Hp as [Hp|Hp]; [apply Ils; exact Hp|].
    destruct (existsb (u_none c) nl); [|contradiction]. apply Inl.
    destruct (filter (u_none c) nl) as [|z zs] eqn:Ef; [contradiction|]. cbn in Hp. destruct Hp as [<-|[]].
    assert (Hz: In z (filter (u_none c) nl)) by (rewrite Ef; left; reflexivity). apply filter_In in Hz. apply Hz. }
  assert (HM1: forall p, In p M -> member_ok env c p) by (intros p Hp; apply Hks1; apply HMin; exact Hp).
  (* step 1: the printed members of Union F are the keys of M *)
  assert (E1: map (print_ty c) (union_F c pairs) = map (u_key c) M).
  { unfold union_F, M. fold nl' ls nl. rewrite !map_app. f_equal; [|f_equal].
    - rewrite map_map. apply map_ext_in. intros p Hp. apply (Hks p). apply Inl. apply Inl'. exact Hp.
    - rewrite map_map. apply map_ext_in. intros p Hp. apply (Hks p). apply Ils. exact Hp.
    - destruct (existsb (u_none c) nl) eqn:EN; [|reflexivity].
      apply existsb_exists in EN. destruct EN as (z & Hz & Ez).
      destruct (filter (u_none c) nl) as [|z0 zs] eqn:Ef.
      + assert (In z (filter (u_none c) nl)) by (apply filter_In; split; assumption). rewrite Ef in H. contradiction.
      + cbn. f_equal. assert (Hz0: In z0 (filter (u_none c) nl)) by (rewrite Ef; left; reflexivity).
        apply filter_In in Hz0. destruct Hz0 as [_ Hz0]. unfold u_none, is_none_s in Hz0. apply tokens_eqb_true in Hz0.
        symmetry. exact Hz0. }
  cbn [print_ty]. rewrite E1.
  (* step 2: _FormSetTypeList changes nothing *)
  assert (HndM: NoDup (map (u_key c) M)).
  { unfold M. rewrite !map_app. apply NoDup_app_intro; [exact HndNl' | apply NoDup_app_intro |].
    - exact HndLs.
    - destruct (existsb (u_none c) nl); [|constructor].
      destruct (filter (u_none c) nl); cbn; [constructor|]. constructor; [exact (fun f => f)|constructor].
    - intros k Hk1 Hk2. apply in_map_iff in Hk1. destruct Hk1 as (p & <- & Hp).
      destruct (lit_key_not_name env c p (Hks1 p (proj1 (Ils p Hp))) (proj2 (Ils p Hp))) as [_ Hnn].
      destruct (existsb (u_none c) nl); [|contradiction].
      destruct (filter (u_none c) nl) as [|z zs] eqn:Ef; [contradiction|]. cbn in Hk2. destruct Hk2 as [Hk2|[]].
      assert (Hz: In z (filter (u_none c) nl)) by (rewrite Ef; left; reflexivity). apply filter_In in Hz.
      destruct Hz as [_ Hz]. unfold u_none, is_none_s in Hz. apply tokens_eqb_true in Hz. congruence.
    - intros k Hk1 Hk2. apply in_map_iff in Hk1. destruct Hk1 as (p & <- & Hp).
      apply in_app_or in Hk2. destruct Hk2 as [Hk2|Hk2].
      + apply in_map_iff in Hk2. destruct Hk2 as (q & Eq & Hq).
        (* a non-literal and a literal member with the same key: the key decides literal-ness *)
        destruct (Inl _ (proj1 (Inl' _ Hp))) as [Hpk Hpl]. destruct (Ils _ Hq) as [Hqk Hql].
        destruct (Hks1 p Hpk) as (Hwp & Hup & _). destruct (Hks1 q Hqk) as (Hwq & Huq & _ & Hvq).
        destruct (Hvq Hql) as (v & Ev & _).
        pose proof (K_flat env c p (Hks1 p Hpk)) as Kp. pose proof (K_flat env c q (Hks1 q Hqk)) as Kq.
        assert (Ef: flat (fe c p) = flat (fe c q)) by congruence.
        apply flat_inj in Ef; [| apply (wfe_fe env); apply Hks1; assumption | apply (wfe_fe env); apply Hks1; assumption].
        pose proof (is_litsub_to_expr env c _ Hwp Hup) as L1. pose proof (is_litsub_to_expr env c _ Hwq Huq) as L2.
        unfold fe in Ef. rewrite Ef in L1. unfold u_lit in *. congruence.
      + destruct (existsb (u_none c) nl); [|contradiction].
        destruct (filter (u_none c) nl) as [|z zs] eqn:Ef; [contradiction|]. cbn in Hk2. destruct Hk2 as [Hk2|[]].
        assert (Hz: In z (filter (u_none c) nl)) by (rewrite Ef; left; reflexivity). apply filter_In in Hz.
        destruct Hz as [_ Hz]. destruct (Inl' _ Hp) as [_ Hpn]. unfold u_none in *. congruence. }
  rewrite form_set_fix; [| exact HndM |].
  2:{ intros Hc q Hq. eapply pair_free_sub; [| apply (form_set_pair_free c (map (u_key c) pairs) Hc q Hq)].
      intros s Hs. rewrite <- map_form_set_on. fold (u_ks c pairs). fold ks.
      apply in_map_iff in Hs. destruct Hs as (p & <- & Hp). apply in_map. apply HMin. exact Hp. }
  (* step 3: both sides through expressions *)
  destruct (map_K_flat env c M HM1) as [EM WM]. destruct (map_K_flat env c ks Hks1) as [EK WK].
  rewrite EM, EK. rewrite !build_union_flat by assumption. f_equal.
  unfold union_e. rewrite (coalesce_e_members env c M HM1), (coalesce_e_members env c ks Hks1).
  change (filter (fun p => negb (u_lit p)) ks) with nl. change (filter u_lit ks) with ls.
  (* the selections made on M *)
  assert (FlsM: filter u_lit M = ls).
  { unfold M. rewrite !filter_app.
    rewrite (filter_none u_lit nl') by (intros p Hp; apply Inl; apply Inl'; exact Hp).
    rewrite (filter_all u_lit ls) by (intros p Hp; apply Ils; exact Hp).
    destruct (existsb (u_none c) nl); [|apply app_nil_r].
    destruct (filter (u_none c) nl) as [|z zs] eqn:Ef; [apply app_nil_r|]. cbn.
    assert (Hz: In z (filter (u_none c) nl)) by (rewrite Ef; left; reflexivity). apply filter_In in Hz.
    destruct (Inl z (proj1 Hz)) as [_ Hzl]. rewrite Hzl. apply app_nil_r. }
  assert (FnlM: filter (fun p => negb (u_lit p)) M =
                nl' ++ (if existsb (u_none c) nl then firstn 1 (filter (u_none c) nl) else [])).
  { unfold M. rewrite !filter_app.
    rewrite (filter_all (fun p => negb (u_lit p)) nl') by (intros p Hp; destruct (Inl p (proj1 (Inl' p Hp))) as [_ ->]; reflexivity).
    rewrite (filter_none (fun p => negb (u_lit p)) ls) by (intros p Hp; destruct (Ils p Hp) as [_ ->]; reflexivity).
    cbn [app]. f_equal.
    destruct (existsb (u_none c) nl); [|reflexivity].
    destruct (filter (u_none c) nl) as [|z zs] eqn:Ef; [reflexivity|]. cbn.
    assert (Hz: In z (filter (u_none c) nl)) by (rewrite Ef; left; reflexivity). apply filter_In in Hz.
    destruct (Inl z (proj1 Hz)) as [_ Hzl]. rewrite Hzl. reflexivity. }
  rewrite FlsM, FnlM.
  destruct (existsb (u_none c) nl) eqn:EN.
  - (* None is printed last the second time: only the Optional wrapper sees it *)
    destruct (filter (u_none c) nl) as [|z zs] eqn:Ef.
    { apply existsb_exists in EN. destruct EN as (z & Hz & Ez).
      assert (In z (filter (u_none c) nl)) by (apply filter_In; split; assumption). rewrite Ef in H. contradiction. }
    cbn [firstn].
    assert (Hz: In z nl /\ u_none c z = true).
    { assert (Hz: In z (filter (u_none c) nl)) by (rewrite Ef; left; reflexivity). apply filter_In in Hz. exact Hz. }
    assert (Hnl1: forall p, In p nl -> member_ok env c p) by (intros p Hp; apply Hks1; apply Inl; exact Hp).
    assert (Hnlz1: forall p, In p (nl' ++ [z]) -> member_ok env c p).
    { intros p Hp. apply in_app_or in Hp. destruct Hp as [Hp|[<-|[]]]; apply Hnl1; [apply Inl'; exact Hp|apply Hz]. }
    assert (L1: 2 <= length (map (fe c) nl ++ lge ls)).
    { rewrite app_length, map_length. rewrite app_length in Hlen.
      destruct ls as [|q qs]; cbn in *; [|destruct nl; [destruct Hz as [[] _]|cbn; lia]]. lia. }
    assert (L2: 2 <= length (map (fe c) (nl' ++ [z]) ++ lge ls)).
    { rewrite app_length, map_length, app_length. cbn [length].
      destruct ls as [|q qs]; [|cbn; lia]. cbn. 
      destruct nl' as [|a r] eqn:En'; [|cbn; lia]. exfalso.
      (* every member prints None: at most one of them *)
      assert (Hall: forall x, In x nl -> u_key c x = [TNone]).
      { intros x Hx. destruct (u_none c x) eqn:Ex; [unfold u_none, is_none_s in Ex; apply tokens_eqb_true in Ex; exact Ex|].
        assert (In x nl') by (unfold nl', u_nl'; fold nl; apply filter_In; split; [exact Hx|rewrite Ex; reflexivity]).
        rewrite En' in H. contradiction. }
      pose proof (NoDup_same_key (u_key c) [TNone] nl HndNl Hall) as Hle.
      rewrite app_length in Hlen. cbn in Hlen. lia. }
    pose proof (existsb_enone_items env c nl ls Hnl1) as HE1.
    pose proof (existsb_enone_items env c (nl' ++ [z]) ls Hnlz1) as HE2.
    pose proof (filter_enone_items env c nl ls Hnl1) as HF1.
    pose proof (filter_enone_items env c (nl' ++ [z]) ls Hnlz1) as HF2.
    rewrite EN in HE1.
    assert (HE2': existsb (u_none c) (nl' ++ [z]) = true).
    { rewrite existsb_app. cbn [existsb]. rewrite (proj2 Hz). rewrite orb_true_r. reflexivity. }
    rewrite HE2' in HE2.
    fold nl' in HF1.
    assert (HF2': filter (fun p => negb (u_none c p)) (nl' ++ [z]) = nl').
    { rewrite filter_app. cbn [filter]. rewrite (proj2 Hz). cbn [negb]. rewrite app_nil_r.
      apply filter_all. intros p Hp. destruct (Inl' p Hp) as [_ ->]. reflexivity. }
    rewrite HF2' in HF2.
    destruct (map (fe c) nl ++ lge ls) as [|a1 [|b1 r1]]; [cbn in L1; lia | cbn in L1; lia |].
    destruct (map (fe c) (nl' ++ [z]) ++ lge ls) as [|a2 [|b2 r2]]; [cbn in L2; lia | cbn in L2; lia |].
    cbv beta iota zeta. rewrite HE1, HE2, HF1, HF2. reflexivity.
  - assert (Enl: nl' = nl).
    { unfold nl', u_nl'. fold nl. clear -EN. induction nl as [|p r IH]; [reflexivity|]. cbn in *.
      apply orb_false_iff in EN. destruct EN as [E1 E2]. rewrite E1. cbn. f_equal. apply IH. exact E2. }
    rewrite Enl, app_nil_r. reflexivity.
Qed.

Lemma norm_not_union : forall c t, is_union t = false -> is_union (norm c t) = false.
Proof.
  intros c t H. destruct t; cbn [norm]; try reflexivity; try discriminate.
  - destruct (tokens_eqb _ _); [reflexivity|]. destruct (name_eqb _ _); reflexivity.
  - destruct (removelast (map (norm c) ps)) as [|a l]; [reflexivity|]. destruct a; try reflexivity. destruct l; reflexivity.
Qed.

Lemma pairs_member_ok : forall env c ts,
  forallb (wf env) ts = true -> forallb (fun t => negb (is_union t)) ts = true ->
  forall p, In p (map (fun t => (t, norm c t)) ts) -> member_ok env c p.
Proof.
  intros env c ts Hts Hflat p Hp. apply in_map_iff in Hp. destruct Hp as (t & <- & Ht). cbn [fst snd].
  rewrite forallb_forall in Hts, Hflat. specialize (Hflat t Ht). apply negb_true_iff in Hflat.
  unfold member_ok, fe. cbn [fst snd].
  repeat split; [apply Hts; exact Ht | exact Hflat | apply conv_to_expr; apply Hts; exact Ht |].
  intros Hl. destruct t; try discriminate. exists v. split; reflexivity.
Qed.

Theorem print_norm_lemma : forall env c t, wf env t = true -> stable c t = true ->
  print_ty c (norm c t) = print_ty c t.
Proof.
  intros env c. induction t using ty_ind'; intros Hwf Hst.
  - cbn. unfold print_name. destruct n; reflexivity.
  - reflexivity.
  - reflexivity.
  - reflexivity.
  - cbn. destruct v; reflexivity.
  - (* Generic *)
    cbn [wf] in Hwf. apply andb_true_iff in Hwf. destruct Hwf as [Hwf Hshape].
    apply andb_true_iff in Hwf. destruct Hwf as [Hwf Hps].
    apply andb_true_iff in Hwf. destruct Hwf as [Hwf Hnn]. apply negb_true_iff in Hnn.
    cbn [stable] in Hst.
    assert (IH: forall x, In x ps -> print_ty c (norm c x) = print_ty c x).
    { intros x Hx. rewrite Forall_forall in H. rewrite forallb_forall in Hps, Hst. apply H; auto. }
    assert (Hmap: map (print_ty c) (map (norm c) ps) = map (print_ty c) ps).
    { rewrite map_map. apply map_ext_in. exact IH. }
    cbn [norm]. fold (prints_tuple b). destruct (prints_tuple b) eqn:Et.
    + cbn [print_ty]. fold (prints_tuple b). rewrite Et. rewrite Hmap.
      unfold prints_tuple in Et. apply tokens_eqb_true in Et. rewrite Et. reflexivity.
    + destruct (name_eqb b (NT id_Callable)) eqn:Ec.
      * cbn [print_ty]. fold (prints_tuple b). rewrite Et, Ec. f_equal. f_equal.
        change (print_ty c AnyT :: map (print_ty c) (tl (map (norm c) ps))) with (map (print_ty c) (AnyT :: tl (map (norm c) ps))).
        cbn [map tl]. rewrite <- !map_tl'. rewrite map_map. apply map_ext_in. intros x Hx. apply IH.
        destruct ps; [contradiction|right; exact Hx].
      * cbn [print_ty].
        assert (Ep: print_name (norm_name b) = print_name b) by (destruct b; reflexivity).
        assert (Et': tokens_eqb (print_name (norm_name b)) [TName id_tuple] = false) by (rewrite Ep; exact Et).
        assert (Ec': name_eqb (norm_name b) (NT id_Callable) = false) by (destruct b; cbn in *; congruence).
        fold (prints_tuple b). rewrite Et, Ec, Et', Ec', Ep, Hmap. reflexivity.
  - (* TupleT *)
    cbn [wf] in Hwf. apply andb_true_iff in Hwf. destruct Hwf as [Hwf Hps].
    apply andb_true_iff in Hwf. destruct Hwf as [Hwf Hwn]. cbn [stable] in Hst.
    assert (IH: forall x, In x ps -> print_ty c (norm c x) = print_ty c x).
    { intros x Hx. rewrite Forall_forall in H. rewrite forallb_forall in Hps, Hst. apply H; auto. }
    assert (Hmap: map (print_ty c) (map (norm c) ps) = map (print_ty c) ps).
    { rewrite map_map. apply map_ext_in. exact IH. }
    pose proof (prints_tuple_id b Hwf) as Hid.
    assert (Hpn: print_name b = [TName id_tuple]) by (unfold prints_tuple in Hwf; apply tokens_eqb_true in Hwf; exact Hwf).
    assert (Hc: name_eqb b (NT id_Callable) = false).
    { destruct (name_eqb b (NT id_Callable)) eqn:E; [|reflexivity]. apply name_eqb_eq in E. subst b. discriminate. }
    cbn [norm print_ty]. rewrite Hpn, Hc, Hmap. destruct ps; reflexivity.
  - (* CallableT *)
    cbn [wf] in Hwf. apply andb_true_iff in Hwf. destruct Hwf as [Hwf Hne].
    apply andb_true_iff in Hwf. destruct Hwf as [Hwf Hps].
    cbn [stable] in Hst. apply andb_true_iff in Hst. destruct Hst as [Hst Hno].
    assert (IH: forall x, In x ps -> print_ty c (norm c x) = print_ty c x).
    { intros x Hx. rewrite Forall_forall in H. rewrite forallb_forall in Hps, Hst. apply H; auto. }
    assert (Hmap: map (print_ty c) (map (norm c) ps) = map (print_ty c) ps).
    { rewrite map_map. apply map_ext_in. exact IH. }
    cbn [norm].
    destruct (removelast (map (norm c) ps)) as [|a l]; [cbn [print_ty]; rewrite Hmap; reflexivity|].
    destruct a; try (cbn [print_ty]; rewrite Hmap; reflexivity).
    destruct l; [discriminate|cbn [print_ty]; rewrite Hmap; reflexivity].
  - (* Union *)
    cbn [wf] in Hwf. apply andb_true_iff in Hwf. destruct Hwf as [Hwf Hne].
    apply andb_true_iff in Hwf. destruct Hwf as [Hts Hflat].
    cbn [stable] in Hst. apply andb_true_iff in Hst. destruct Hst as [Hst HndF].
    cbn [norm print_ty].
    set (pairs := map (fun t => (t, norm c t)) ts) in *.
    pose proof (pairs_member_ok env c ts Hts Hflat) as Hp1. fold pairs in Hp1.
    assert (Hp2: forall p, In p pairs -> member_ok2 env c p).
    { intros p Hp. split; [apply Hp1; exact Hp|].
      apply in_map_iff in Hp. destruct Hp as (t & <- & Ht). cbn [fst snd]. unfold u_key. cbn [fst].
      rewrite Forall_forall in H. rewrite forallb_forall in Hts, Hst, Hflat. split.
      - apply H; auto.
      - apply norm_not_union. specialize (Hflat t Ht). apply negb_true_iff in Hflat. exact Hflat. }
    assert (EK: map (print_ty c) ts = map (u_key c) pairs).
    { unfold pairs. rewrite map_map. reflexivity. }
    rewrite EK. rewrite <- map_form_set_on. fold (u_ks c pairs).
    assert (Hks: forall p, In p (u_ks c pairs) -> member_ok2 env c p).
    { intros p Hp. apply Hp2. eapply form_set_on_incl. exact Hp. }
    assert (Hks1: forall p, In p (u_ks c pairs) -> member_ok env c p) by (intros p Hp; apply (Hks p Hp)).
    assert (Hk: u_ks c pairs <> []).
    { apply form_set_on_nonempty. unfold pairs. destruct ts; [discriminate|cbn; discriminate]. }
    pose proof (filter_partition_length u_lit (u_ks c pairs)) as Hlen. fold (u_nl c pairs) (u_ls c pairs) in Hlen.
    destruct (le_lt_dec 2 (length (u_nl c pairs ++ u_ls c pairs))) as [H2|H2].
    + rewrite (norm_union_multi env c pairs Hks H2 HndF). apply (print_union_F env); assumption.
    + assert (H1: length (u_nl c pairs ++ u_ls c pairs) = 1).
      { destruct (u_ks c pairs); [congruence|]. cbn in Hlen. lia. }
      destruct (u_nl c pairs ++ u_ls c pairs) as [|p [|q r]] eqn:E; cbn in H1; try lia.
      assert (Hpin: In p (u_ks c pairs)).
      { assert (In p (u_nl c pairs ++ u_ls c pairs)) by (rewrite E; left; reflexivity).
        apply in_app_or in H0. destruct H0 as [H0|H0]; [unfold u_nl in H0|unfold u_ls in H0]; apply filter_In in H0; apply H0. }
      rewrite (norm_union_single c pairs p E).
      2:{ intros Hl. destruct (Hks1 p Hpin) as (_ & _ & _ & Hv). destruct (Hv Hl) as (v & _ & ->). reflexivity. }
      destruct (Hks p Hpin) as (_ & -> & _).
      destruct (map_K_flat env c _ Hks1) as [EKf WK]. rewrite EKf, (build_union_flat _ WK).
      unfold union_e. rewrite (coalesce_e_members env c _ Hks1). fold (u_nl c pairs) (u_ls c pairs).
      destruct (u_nl c pairs) as [|a [|b r]]; cbn in E.
      * rewrite E. cbn [map app lge]. 
        assert (Hl: u_lit p = true).
        { assert (In p (u_ls c pairs)) by (rewrite E; left; reflexivity). unfold u_ls in H0. apply filter_In in H0. apply H0. }
        destruct (Hks1 p Hpin) as (_ & _ & _ & Hv). destruct (Hv Hl) as (v & Ev & _).
        unfold u_key, lit_group. cbn [map]. rewrite Ev. destruct v; reflexivity.
      * injection E as -> E. rewrite E. cbn [map app lge]. apply (K_flat env). apply Hks1. exact Hpin.
      * destruct r; discriminate.
  - (* Annot *)
    cbn [wf] in Hwf. apply andb_true_iff in Hwf. destruct Hwf as [Hwt Ha].
    cbn [stable] in Hst. cbn [norm print_ty]. rewrite (IHt Hwt Hst). reflexivity.
Qed.

Theorem print_fixed_point_lemma : forall env c t, wf env t = true -> stable c t = true ->
  exists t', parse_ty env (print_ty c t) = Some t' /\ print_ty c t' = print_ty c t.
Proof.
  intros env c t Hw Hs. exists (norm c t). split; [apply parse_print_lemma; exact Hw|].
  apply (print_norm_lemma env); assumption.
Qed.

(* ------------------------------------------------------------------------------------------------ *)
(* VerifyVisitor accepts what is read back *)

Lemma dedup_incl : forall {A} (eqb : A -> A -> bool) l x, In x (dedup eqb l) -> In x l.
Proof.
  induction l as [|y r IH]; cbn; intros x H; [exact H|].
  destruct H as [H|H]; [left; exact H|]. right. apply filter_In in H. apply IH. apply H.
Qed.

Lemma verify_flatten : forall l, forallb verify_ty l = true -> forallb verify_ty (flatten l) = true.
Proof.
  induction l as [|t r IH]; intros H; [reflexivity|]. cbn in H. apply andb_true_iff in H. destruct H as [Ht Hr].
  unfold flatten in *. cbn [flat_map]. rewrite forallb_app, (IH Hr), andb_true_r.
  destruct t; try (cbn [forallb]; rewrite Ht; reflexivity). exact Ht.
Qed.

Lemma verify_mk_union : forall l, forallb verify_ty l = true -> verify_ty (mk_union l) = true.
Proof.
  intros l H. unfold mk_union. cbn [verify_ty]. apply verify_flatten in H.
  rewrite forallb_forall in *. intros x Hx. apply H. eapply dedup_incl. exact Hx.
Qed.

Lemma verify_join_types : forall l, forallb verify_ty l = true -> verify_ty (join_types l) = true.
Proof.
  intros l H. unfold join_types.
  set (l2 := dedup ty_eqb (filter (fun t => negb (is_nothing t)) (flatten l))).
  assert (H2: forallb verify_ty l2 = true).
  { apply verify_flatten in H. rewrite forallb_forall in *. intros x Hx. apply H.
    unfold l2 in Hx. apply dedup_incl in Hx. apply filter_In in Hx. apply Hx. }
  destruct l2 as [|a [|b r]] eqn:E.
  - reflexivity.
  - cbn in H2. rewrite andb_true_r in H2. exact H2.
  - destruct (existsb is_any (a :: b :: r)).
    + destruct (existsb is_nonetype (a :: b :: r)); reflexivity.
    + apply verify_mk_union. exact H2.
Qed.

Theorem verify_ok_lemma : forall env c t, wf env t = true -> verify_ty (norm c t) = true.
Proof.
  intros env c. induction t using ty_ind'; intros Hwf; try reflexivity.
  - (* Generic *)
    cbn [wf] in Hwf. apply andb_true_iff in Hwf. destruct Hwf as [Hwf Hshape].
    apply andb_true_iff in Hwf. destruct Hwf as [Hwf Hps].
    assert (Hv: forallb verify_ty (map (norm c) ps) = true).
    { rewrite forallb_forall. intros x Hx. apply in_map_iff in Hx. destruct Hx as (t & <- & Ht).
      rewrite Forall_forall in H. rewrite forallb_forall in Hps. apply H; auto. }
    cbn [norm]. fold (prints_tuple b). destruct (prints_tuple b).
    + apply Nat.eqb_eq in Hshape. destruct ps as [|p0 [|p1 pr]]; cbn in Hshape; try discriminate. exact Hv.
    + destruct (name_eqb b (NT id_Callable)).
      * cbn [verify_ty forallb]. cbn. destruct (map (norm c) ps) as [|a r]; [reflexivity|]. cbn in Hv.
        apply andb_true_iff in Hv. apply Hv.
      * cbn [verify_ty]. destruct ps as [|p0 pr]; [discriminate|]. exact Hv.
  - (* TupleT *)
    cbn [wf] in Hwf. apply andb_true_iff in Hwf. destruct Hwf as [Hwf Hps].
    cbn [norm verify_ty]. rewrite forallb_forall. intros x Hx. apply in_map_iff in Hx. destruct Hx as (t & <- & Ht).
    rewrite Forall_forall in H. rewrite forallb_forall in Hps. apply H; auto.
  - (* CallableT *)
    cbn [wf] in Hwf. apply andb_true_iff in Hwf. destruct Hwf as [Hwf Hne].
    apply andb_true_iff in Hwf. destruct Hwf as [Hwf Hps].
    assert (Hv: forallb verify_ty (map (norm c) ps) = true).
    { rewrite forallb_forall. intros x Hx. apply in_map_iff in Hx. destruct Hx as (t & <- & Ht).
      rewrite Forall_forall in H. rewrite forallb_forall in Hps. apply H; auto. }
    assert (Hnz: map (norm c) ps <> []) by (destruct ps; [discriminate|discriminate]).
    assert (Hlast: verify_ty (last (map (norm c) ps) AnyT) = true).
    { rewrite forallb_forall in Hv. apply Hv. apply in_last. exact Hnz. }
    assert (Hall: verify_ty (CallableT b (map (norm c) ps)) = true).
    { cbn [verify_ty]. destruct (map (norm c) ps); [congruence|exact Hv]. }
    cbn [norm].
    destruct (removelast (map (norm c) ps)) as [|a l]; [exact Hall|].
    destruct a; try exact Hall. destruct l; [|exact Hall]. cbn. rewrite Hlast. reflexivity.
  - (* Union *)
    cbn [wf] in Hwf. apply andb_true_iff in Hwf. destruct Hwf as [Hwf Hne].
    apply andb_true_iff in Hwf. destruct Hwf as [Hts Hflat].
    cbn [norm]. set (pairs := map (fun t => (t, norm c t)) ts).
    assert (Hp: forall p, In p pairs -> verify_ty (snd p) = true).
    { intros p Hp. apply in_map_iff in Hp. destruct Hp as (t & <- & Ht). cbn.
      rewrite Forall_forall in H. rewrite forallb_forall in Hts. apply H; auto. }
    assert (HX: forall X, (forall p, In p X -> In p (u_ks c pairs)) -> forallb verify_ty (map snd X) = true).
    { intros X HX. rewrite forallb_forall. intros x Hx. apply in_map_iff in Hx. destruct Hx as (p & <- & Hpx).
      apply Hp. eapply form_set_on_incl. apply HX. exact Hpx. }
    assert (Hnl: forall p, In p (u_nl c pairs) -> In p (u_ks c pairs)) by (intros p Hq; unfold u_nl in Hq; apply filter_In in Hq; apply Hq).
    assert (Hls: forall p, In p (u_ls c pairs) -> In p (u_ks c pairs)) by (intros p Hq; unfold u_ls in Hq; apply filter_In in Hq; apply Hq).
    assert (Hnl': forall p, In p (u_nl' c pairs) -> In p (u_ks c pairs)) by (intros p Hq; unfold u_nl' in Hq; apply filter_In in Hq; apply Hnl; apply Hq).
    assert (Hlg: forallb verify_ty (match u_ls c pairs with [] => [] | _ :: _ => [join_types (map snd (u_ls c pairs))] end) = true).
    { pose proof (verify_join_types _ (HX _ Hls)) as HJ.
      destruct (u_ls c pairs); [reflexivity|]. cbn [forallb]. rewrite HJ. reflexivity. }
    assert (HT: forall X, (forall p, In p X -> In p (u_ks c pairs)) ->
              forallb verify_ty (map snd X ++ match u_ls c pairs with [] => [] | _ :: _ => [join_types (map snd (u_ls c pairs))] end) = true).
    { intros X HXin. rewrite forallb_app, (HX X HXin), Hlg. reflexivity. }
    unfold norm_union.
    pose proof (HT _ Hnl) as HT1. pose proof (HT _ Hnl') as HT2.
    destruct (map snd (u_nl c pairs) ++ match u_ls c pairs with [] => [] | _ :: _ => [join_types (map snd (u_ls c pairs))] end) as [|a [|b r]] eqn:ET.
    + reflexivity.
    + cbn in HT1. rewrite andb_true_r in HT1. exact HT1.
    + destruct (existsb (u_none c) (u_nl c pairs)).
      * apply verify_mk_union. cbn [forallb]. change (verify_ty (Named (NP id_NoneType))) with true. cbn [andb]. rewrite andb_true_r.
        destruct (map snd (u_nl' c pairs) ++ match u_ls c pairs with [] => [] | _ :: _ => [join_types (map snd (u_ls c pairs))] end) as [|a' [|b' r']] eqn:ET'.
        -- reflexivity.
        -- cbn in HT2. rewrite andb_true_r in HT2. exact HT2.
        -- apply verify_mk_union. exact HT2.
      * apply verify_mk_union. exact HT1.
  - (* Annot *)
    cbn [wf] in Hwf. apply andb_true_iff in Hwf. destruct Hwf as [Hwt Ha]. cbn. apply IHt. exact Hwt.
Qed.

(* ------------------------------------------------------------------------------------------------ *)
(* the re-read type is structurally equal to the printed one *)

Lemma lit_eqb_refl : forall v, lit_eqb v v = true.
Proof.
  destruct v; cbn; try apply N.eqb_refl; try apply Z.eqb_refl.
  destruct is_const, b; reflexivity.
Qed.

Lemma list_eqb_map : forall {A B} (f : B -> B -> bool) (g h : A -> B) l,
  (forall x, In x l -> f (g x) (h x) = true) -> list_eqb f (map g l) (map h l) = true.
Proof.
  induction l as [|x r IH]; intros H; [reflexivity|]. cbn. rewrite (H x (or_introl eq_refl)). cbn.
  apply IH. intros y Hy. apply H. right. exact Hy.
Qed.

Lemma list_eqb_N_refl : forall a, list_eqb N.eqb a a = true.
Proof. induction a; cbn; [reflexivity|]. rewrite N.eqb_refl. exact IHa. Qed.

Lemma filter_length_le : forall {A} (P : A -> bool) l, length (filter P l) <= length l.
Proof. induction l as [|x r IH]; cbn; [lia|]. destruct (P x); cbn; lia. Qed.

Lemma filter_length_eq : forall {A} (P : A -> bool) l, length (filter P l) = length l -> filter P l = l.
Proof.
  induction l as [|x r IH]; cbn; intros H; [reflexivity|]. destruct (P x); cbn in *.
  - f_equal. apply IH. lia.
  - pose proof (filter_length_le P r). lia.
Qed.

Lemma dedup_on_length_le : forall {A K} (key : A -> K) eqb l, length (dedup_on key eqb l) <= length l.
Proof.
  induction l as [|x r IH]; cbn; [lia|].
  pose proof (filter_length_le (fun y => negb (eqb (key x) (key y))) (dedup_on key eqb r)). lia.
Qed.

Lemma dedup_on_length_eq : forall {A K} (key : A -> K) eqb l,
  length (dedup_on key eqb l) = length l -> dedup_on key eqb l = l.
Proof.
  induction l as [|x r IH]; cbn; intros H; [reflexivity|]. f_equal.
  pose proof (filter_length_le (fun y => negb (eqb (key x) (key y))) (dedup_on key eqb r)) as H1.
  pose proof (dedup_on_length_le key eqb r) as H2.
  rewrite filter_length_eq by lia. apply IH. lia.
Qed.

Lemma compat_step_on_length_le : forall {A} (key : A -> list token) l p, length (compat_step_on key l p) <= length l.
Proof. intros. unfold compat_step_on. destruct (_ && _); [apply filter_length_le|lia]. Qed.

Lemma compat_step_on_length_eq : forall {A} (key : A -> list token) l p,
  length (compat_step_on key l p) = length l -> compat_step_on key l p = l.
Proof. intros A key l p. unfold compat_step_on. destruct (_ && _); [apply filter_length_eq|reflexivity]. Qed.

Lemma fold_compat_on_length_le : forall {A} (key : A -> list token) items l,
  length (fold_left (compat_step_on key) items l) <= length l.
Proof.
  induction items as [|p r IH]; cbn; intros l; [lia|].
  pose proof (IH (compat_step_on key l p)). pose proof (compat_step_on_length_le key l p). lia.
Qed.

Lemma fold_compat_on_length_eq : forall {A} (key : A -> list token) items l,
  length (fold_left (compat_step_on key) items l) = length l -> fold_left (compat_step_on key) items l = l.
Proof.
  induction items as [|p r IH]; cbn; intros l H; [reflexivity|].
  pose proof (fold_compat_on_length_le key r (compat_step_on key l p)) as H1.
  pose proof (compat_step_on_length_le key l p) as H2.
  assert (E: compat_step_on key l p = l) by (apply compat_step_on_length_eq; lia).
  rewrite E in *. apply IH. exact H.
Qed.

Lemma form_set_on_length_eq : forall {A} c (key : A -> list token) l,
  length (form_set_on c key l) = length l -> form_set_on c key l = l.
Proof.
  intros A c key l. unfold form_set_on. destruct (in_param c).
  - intros H. pose proof (fold_compat_on_length_le key compat_items (dedup_on key tokens_eqb l)) as H1.
    pose proof (dedup_on_length_le key tokens_eqb l) as H2.
    assert (E: dedup_on key tokens_eqb l = l) by (apply dedup_on_length_eq; lia).
    rewrite E in *. apply fold_compat_on_length_eq. exact H.
  - apply dedup_on_length_eq.
Qed.

Lemma prints_none_shape : forall env c t, wf env t = true -> is_union t = false ->
  print_ty c t = [TNone] -> exists n, t = Named n /\ (name_id n =? id_NoneType)%N = true.
Proof.
  intros env c t Hw Hu Hp. destruct t; try discriminate.
  - exists n. split; [reflexivity|]. cbn in Hp. unfold print_name in Hp. destruct (_ =? _)%N; [reflexivity|discriminate].
  - cbn [print_ty] in Hp. cbn [wf] in Hw. apply andb_true_iff in Hw. destruct Hw as [Hw _].
    apply andb_true_iff in Hw. destruct Hw as [Hw _]. apply andb_true_iff in Hw. destruct Hw as [_ Hnn].
    apply negb_true_iff in Hnn. rewrite (print_name_base b Hnn) in Hp.
    destruct (tokens_eqb _ _); [|destruct (name_eqb _ _)]; discriminate.
  - cbn [print_ty] in Hp. cbn [wf] in Hw. apply andb_true_iff in Hw. destruct Hw as [Hw _].
    apply andb_true_iff in Hw. destruct Hw as [Hw _]. unfold prints_tuple in Hw. apply tokens_eqb_true in Hw.
    rewrite Hw in Hp. destruct ps; [|destruct (name_eqb _ _)]; discriminate.
  - cbn [print_ty] in Hp. cbn [wf] in Hw. apply andb_true_iff in Hw. destruct Hw as [Hw _].
    apply andb_true_iff in Hw. destruct Hw as [Hw _]. apply name_eqb_eq in Hw. subst. discriminate.
Qed.

Lemma norm_name_tuple : forall env b, wf_name env b = true -> prints_tuple b = true -> norm_name b = NP id_tuple.
Proof.
  intros env b Hw Hp. apply prints_tuple_id in Hp. destruct b as [i|i|i]; cbn in *; subst; try reflexivity.
  discriminate.
Qed.

Theorem reparse_equal_lemma : forall env c t,
  wf env t = true -> stable c t = true -> eq_stable c t = true ->
  ty_eq (norm c t) (unqual t) = true.
Proof.
  intros env c. induction t using ty_ind'; intros Hwf Hst Heq.
  - cbn. apply name_eqb_refl.
  - reflexivity.
  - reflexivity.
  - cbn. apply N.eqb_refl.
  - cbn. apply lit_eqb_refl.
  - (* Generic *)
    cbn [wf] in Hwf. apply andb_true_iff in Hwf. destruct Hwf as [Hwf Hshape].
    apply andb_true_iff in Hwf. destruct Hwf as [Hwf Hps].
    apply andb_true_iff in Hwf. destruct Hwf as [Hwf Hnn].
    cbn [stable] in Hst. cbn [eq_stable] in Heq.
    assert (IH: forall x, In x ps -> ty_eq (norm c x) (unqual x) = true).
    { intros x Hx. rewrite Forall_forall in H. rewrite forallb_forall in Hps, Hst, Heq. apply H; auto. }
    cbn [norm unqual]. fold (prints_tuple b). destruct (prints_tuple b) eqn:Et.
    + cbn [ty_eq]. rewrite (norm_name_tuple env b Hwf Et). cbn [name_eqb]. rewrite N.eqb_refl. cbn [andb].
      apply list_eqb_map. exact IH.
    + destruct (name_eqb b (NT id_Callable)) eqn:Ec.
      * apply name_eqb_eq in Ec. subst b.
        destruct ps as [|p0 [|p1 [|p2 pr]]]; try discriminate; destruct p0; try discriminate.
        cbn. rewrite (IH p1); [reflexivity|right; left; reflexivity].
      * cbn [ty_eq]. rewrite name_eqb_refl. cbn [andb]. apply list_eqb_map. exact IH.
  - (* TupleT *)
    cbn [wf] in Hwf. apply andb_true_iff in Hwf. destruct Hwf as [Hwf Hps].
    apply andb_true_iff in Hwf. destruct Hwf as [Hwf Hwn].
    cbn [stable] in Hst. cbn [eq_stable] in Heq.
    assert (IH: forall x, In x ps -> ty_eq (norm c x) (unqual x) = true).
    { intros x Hx. rewrite Forall_forall in H. rewrite forallb_forall in Hps, Hst, Heq. apply H; auto. }
    cbn [norm unqual ty_eq]. rewrite (norm_name_tuple env b Hwn Hwf). cbn [name_eqb]. rewrite N.eqb_refl. cbn [andb].
    apply list_eqb_map. exact IH.
  - (* CallableT *)
    cbn [wf] in Hwf. apply andb_true_iff in Hwf. destruct Hwf as [Hwf Hne].
    apply andb_true_iff in Hwf. destruct Hwf as [Hwf Hps].
    cbn [stable] in Hst. apply andb_true_iff in Hst. destruct Hst as [Hst Hno]. cbn [eq_stable] in Heq.
    assert (IH: forall x, In x ps -> ty_eq (norm c x) (unqual x) = true).
    { intros x Hx. rewrite Forall_forall in H. rewrite forallb_forall in Hps, Hst, Heq. apply H; auto. }
    apply name_eqb_eq in Hwf. subst b.
    assert (Hall: ty_eq (CallableT (NT id_Callable) (map (norm c) ps)) (unqual (CallableT (NT id_Callable) ps)) = true).
    { cbn [unqual ty_eq norm_name name_eqb]. rewrite N.eqb_refl. cbn [andb]. apply list_eqb_map. exact IH. }
    cbn [norm].
    destruct (removelast (map (norm c) ps)) as [|a l]; [exact Hall|].
    destruct a; try exact Hall. destruct l; [discriminate|exact Hall].
  - (* Union *)
    cbn [wf] in Hwf. apply andb_true_iff in Hwf. destruct Hwf as [Hwf Hne].
    apply andb_true_iff in Hwf. destruct Hwf as [Hts Hflat].
    cbn [stable] in Hst. apply andb_true_iff in Hst. destruct Hst as [Hst HndF].
    cbn [eq_stable] in Heq. apply andb_true_iff in Heq. destruct Heq as [Heq Hlen].
    apply andb_true_iff in Heq. destruct Heq as [Heq H2]. apply Nat.leb_le in H2. apply Nat.eqb_eq in Hlen.
    assert (IH: forall x, In x ts -> ty_eq (norm c x) (unqual x) = true).
    { intros x Hx. rewrite Forall_forall in H. rewrite forallb_forall in Hts, Hst, Heq. apply H; auto. }
    cbn [norm unqual].
    set (g := fun t => (t, norm c t)). set (pairs := map g ts) in *.
    pose proof (pairs_member_ok env c ts Hts Hflat) as Hp1. fold g pairs in Hp1.
    assert (Hp2: forall p, In p pairs -> member_ok2 env c p).
    { intros p Hp. split; [apply Hp1; exact Hp|].
      apply in_map_iff in Hp. destruct Hp as (t & <- & Ht). cbn [fst snd g]. unfold u_key. cbn [fst].
      rewrite forallb_forall in Hts, Hst, Hflat. split.
      - apply (print_norm_lemma env); auto.
      - apply norm_not_union. specialize (Hflat t Ht). apply negb_true_iff in Hflat. exact Hflat. }
    (* nothing was dropped by the printer *)
    assert (Eks: u_ks c pairs = pairs).
    { unfold u_ks, pairs. rewrite form_set_on_map.
      change (fun x => u_key c (g x)) with (print_ty c).
      rewrite (form_set_on_length_eq c (print_ty c) ts Hlen). reflexivity. }
    assert (Hks: forall p, In p (u_ks c pairs) -> member_ok2 env c p) by (rewrite Eks; exact Hp2).
    pose proof (filter_partition_length u_lit (u_ks c pairs)) as Hl2. fold (u_nl c pairs) (u_ls c pairs) in Hl2.
    rewrite Eks in Hl2. unfold pairs in Hl2 at 3. rewrite map_length in Hl2.
    rewrite (norm_union_multi env c pairs Hks ltac:(lia) HndF).
    cbn [ty_eq]. apply andb_true_iff. split.
    + (* every re-read member is one of the printed members *)
      rewrite forallb_forall. intros x Hx. apply existsb_exists.
      unfold union_F in Hx. apply in_app_or in Hx. destruct Hx as [Hx|Hx]; [|apply in_app_or in Hx; destruct Hx as [Hx|Hx]].
      * apply in_map_iff in Hx. destruct Hx as (p & <- & Hp). unfold u_nl', u_nl in Hp.
        apply filter_In in Hp. destruct Hp as [Hp _]. apply filter_In in Hp. destruct Hp as [Hp _]. rewrite Eks in Hp.
        apply in_map_iff in Hp. destruct Hp as (t & <- & Ht). exists (unqual t). split; [apply in_map; exact Ht|].
        cbn [snd g]. apply IH. exact Ht.
      * apply in_map_iff in Hx. destruct Hx as (p & <- & Hp). unfold u_ls in Hp.
        apply filter_In in Hp. destruct Hp as [Hp _]. rewrite Eks in Hp.
        apply in_map_iff in Hp. destruct Hp as (t & <- & Ht). exists (unqual t). split; [apply in_map; exact Ht|].
        cbn [snd g]. apply IH. exact Ht.
      * destruct (existsb (u_none c) (u_nl c pairs)) eqn:EN; [|contradiction]. destruct Hx as [<-|[]].
        apply existsb_exists in EN. destruct EN as (p & Hp & Hn). unfold u_nl in Hp. apply filter_In in Hp. destruct Hp as [Hp _].
        rewrite Eks in Hp. destruct (Hp1 p Hp) as (Hw & Hu & _).
        unfold u_none, is_none_s in Hn. apply tokens_eqb_true in Hn. unfold u_key in Hn.
        destruct (prints_none_shape env c _ Hw Hu Hn) as (n & En & Hid).
        apply in_map_iff in Hp. destruct Hp as (t & <- & Ht). cbn [fst g] in *. subst t.
        exists (unqual (Named n)). split; [apply in_map; exact Ht|].
        cbn [unqual]. rewrite forallb_forall in Hts. specialize (Hts _ Ht). cbn [wf] in Hts.
        rewrite (wf_name_none env n Hts Hid). reflexivity.
    + (* every printed member is among the re-read ones *)
      rewrite forallb_forall. intros y Hy. apply existsb_exists.
      apply in_map_iff in Hy. destruct Hy as (t & <- & Ht).
      assert (Hp: In (g t) (u_ks c pairs)) by (rewrite Eks; apply in_map; exact Ht).
      destruct (u_lit (g t)) eqn:El.
      * exists (norm c t). split; [|apply IH; exact Ht].
        unfold union_F. apply in_or_app. right. apply in_or_app. left.
        change (norm c t) with (snd (g t)). apply in_map. unfold u_ls. apply filter_In. split; assumption.
      * destruct (u_none c (g t)) eqn:En.
        -- exists (Named (NP id_NoneType)). split.
           ++ unfold union_F. apply in_or_app. right. apply in_or_app. right.
              assert (existsb (u_none c) (u_nl c pairs) = true) as ->; [|left; reflexivity].
              apply existsb_exists. exists (g t). split; [|exact En]. unfold u_nl. apply filter_In. split; [exact Hp|rewrite El; reflexivity].
           ++ rewrite forallb_forall in Hts, Hflat. pose proof (Hts t Ht) as Hw. pose proof (Hflat t Ht) as Hu. apply negb_true_iff in Hu.
              unfold u_none, is_none_s, u_key in En. apply tokens_eqb_true in En. cbn [fst g] in En.
              destruct (prints_none_shape env c t Hw Hu En) as (n & -> & Hid).
              cbn [unqual]. cbn [wf] in Hw. rewrite (wf_name_none env n Hw Hid). reflexivity.
        -- exists (norm c t). split; [|apply IH; exact Ht].
           unfold union_F. apply in_or_app. left.
           change (norm c t) with (snd (g t)). apply in_map. unfold u_nl', u_nl. apply filter_In. split.
           ++ apply filter_In. split; [exact Hp|rewrite El; reflexivity].
           ++ rewrite En. reflexivity.
  - (* Annot *)
    cbn [wf] in Hwf. apply andb_true_iff in Hwf. destruct Hwf as [Hwt Ha].
    cbn [stable] in Hst. cbn [eq_stable] in Heq. cbn [norm unqual ty_eq].
    rewrite (IHt Hwt Hst Heq). apply list_eqb_N_refl.
Qed.

(* ================================================================================================ *)
(* signatures *)

Definition flat_rparam (p : rparam) : list token :=
  TName (r_name p) :: (match r_ann p with Some e => TColon :: flat e | None => [] end)
  ++ (if r_def p then [TEq; TEllipsis] else []).
Definition flat_item (it : item) : list token :=
  match it with
  | ISlash => [TSlash]
  | IStar None => [TStar]
  | IStar (Some p) => TStar :: flat_rparam p
  | IDStar p => TDStar :: flat_rparam p
  | IParam p => flat_rparam p
  end.

Definition wfe_rparam (p : rparam) : bool := match r_ann p with Some e => wfe e | None => true end.
Definition wfe_item (it : item) : bool :=
  match it with
  | ISlash | IStar None => true
  | IStar (Some p) | IDStar p | IParam p => wfe_rparam p
  end.

(* what follows an item in a parameter list *)
Definition item_end (ts : list token) : Prop :=
  match ts with TComma :: _ | TRPar :: _ => True | _ => False end.

Lemma parse_rparam_flat : forall p rest, wfe_rparam p = true -> item_end rest ->
  parse_rparam (flat_rparam p ++ rest) = Some (p, rest).
Proof.
  intros [nm ann def] rest Hw Hr. unfold flat_rparam, wfe_rparam in *. cbn [r_name r_ann r_def] in *.
  destruct ann as [e|].
  - cbn [app]. rewrite <- app_assoc. cbn [parse_rparam].
    rewrite (parse_flat_gen e Hw).
    + destruct def; cbn [app]; [reflexivity|].
      destruct rest as [|[] ?]; cbn in Hr; try contradiction; reflexivity.
    + rewrite app_length. lia.
    + destruct def; cbn; [exact I|]. destruct rest as [|[] ?]; cbn in Hr; try contradiction; exact I.
  - destruct def; cbn; [reflexivity|].
    destruct rest as [|[] ?]; cbn in Hr; try contradiction; reflexivity.
Qed.

Lemma parse_item_flat : forall it rest, wfe_item it = true -> item_end rest ->
  parse_item (flat_item it ++ rest) = Some (it, rest).
Proof.
  intros it rest Hw Hr. destruct it as [|[p|]|p|p]; cbn [flat_item wfe_item] in *.
  - reflexivity.
  - cbn [app parse_item]. unfold flat_rparam at 1. cbn [app].
    change (TName (r_name p) :: ((match r_ann p with Some e => TColon :: flat e | None => [] end ++ (if r_def p then [TEq; TEllipsis] else [])) ++ rest))
      with (flat_rparam p ++ rest).
    rewrite (parse_rparam_flat p rest Hw Hr). reflexivity.
  - destruct rest as [|[] ?]; cbn in Hr; try contradiction; reflexivity.
  - cbn [app parse_item]. rewrite (parse_rparam_flat p rest Hw Hr). reflexivity.
  - unfold flat_rparam at 1. cbn [app parse_item].
    change (TName (r_name p) :: ((match r_ann p with Some e => TColon :: flat e | None => [] end ++ (if r_def p then [TEq; TEllipsis] else [])) ++ rest))
      with (flat_rparam p ++ rest).
    rewrite (parse_rparam_flat p rest Hw Hr). reflexivity.
Qed.

Lemma parse_items_flat : forall its rest fuel,
  forallb wfe_item its = true -> its <> [] -> length its <= fuel ->
  parse_items fuel (sep (map flat_item its) ++ TRPar :: rest) = Some (its, TRPar :: rest).
Proof.
  induction its as [|it r IH]; intros rest fuel Hw Hne Hf; [congruence|].
  cbn [forallb] in Hw. apply andb_true_iff in Hw. destruct Hw as [Hw1 Hw2].
  destruct fuel as [|f]; [cbn in Hf; lia|]. cbn [parse_items].
  destruct r as [|it2 r2].
  - cbn [map]. rewrite sep_single. rewrite (parse_item_flat it (TRPar :: rest) Hw1 I). reflexivity.
  - cbn [map]. rewrite sep_cons2. rewrite <- app_assoc. cbn [app].
    rewrite (parse_item_flat it (TComma :: sep (flat_item it2 :: map flat_item r2) ++ TRPar :: rest) Hw1 I).
    change (flat_item it2 :: map flat_item r2) with (map flat_item (it2 :: r2)).
    rewrite (IH rest f Hw2 ltac:(discriminate)); [reflexivity|]. cbn in *. lia.
Qed.

(* ---- the printed parameter list as a list of items ---- *)

Definition rp_of (c : ctx) (nm : N) (t : ty) (opt : bool) : rparam :=
  mkR nm (if elided c nm t (print_ty (ctx_param c) t) then None else Some (to_expr (ctx_param c) t)) opt.
Definition rp_param (c : ctx) (q : param) : rparam := rp_of c (p_name q) (p_ty q) (p_opt q).
Definition rp_star (c : ctx) (st : N * ty) : rparam := rp_of c (fst st) (container_elem (snd st)) false.

Lemma print_param_flat : forall env c nm t opt, wf env t = true ->
  print_param c nm t opt = flat_rparam (rp_of c nm t opt) /\ wfe_rparam (rp_of c nm t opt) = true.
Proof.
  intros env c nm t opt Hw. unfold print_param, rp_of, flat_rparam, wfe_rparam. cbn [r_name r_ann r_def].
  destruct (print_to_expr env (ctx_param c) t Hw) as [E W].
  destruct (elided c nm t (print_ty (ctx_param c) t)).
  - split; reflexivity.
  - split; [|exact W]. rewrite E. cbn [app]. reflexivity.
Qed.

Lemma print_container_param : forall c st,
  print_container c st = print_param c (fst st) (container_elem (snd st)) false.
Proof. intros c [nm t]. unfold print_container, container_elem. cbn [fst snd]. destruct t; reflexivity. Qed.

Fixpoint items_loop (c : ctx) (ps : list param) (star : option rparam) : list item :=
  match ps with
  | [] => match star with Some sp => [IStar (Some sp)] | None => [] end
  | p :: rest =>
      if pkind_eqb (p_kind p) KwOnly then IStar star :: map (fun q => IParam (rp_param c q)) (p :: rest)
      else IParam (rp_param c p)
           :: (if pkind_eqb (p_kind p) PosOnly &&
                  match rest with [] => true | q :: _ => negb (pkind_eqb (p_kind q) PosOnly) end
               then [ISlash] else [])
           ++ items_loop c rest star
  end.

Lemma params_loop_items : forall env c ps star,
  (forall p, In p ps -> wf env (p_ty p) = true) ->
  params_loop c ps (option_map flat_rparam star) = map flat_item (items_loop c ps star) /\
  forallb wfe_item (items_loop c ps star) = forallb wfe_item (match star with Some sp => [IStar (Some sp)] | None => [] end).
Proof.
  intros env c ps star. induction ps as [|p rest IH]; intros Hw.
  - cbn. destruct star; split; reflexivity.
  - assert (Hp: wf env (p_ty p) = true) by (apply Hw; left; reflexivity).
    assert (Hrest: forall q, In q rest -> wf env (p_ty q) = true) by (intros q Hq; apply Hw; right; exact Hq).
    destruct (print_param_flat env c (p_name p) (p_ty p) (p_opt p) Hp) as [E1 W1].
    cbn [params_loop items_loop]. destruct (pkind_eqb (p_kind p) KwOnly).
    + split.
      * cbn [map flat_item]. f_equal; [destruct star; reflexivity|]. f_equal; [exact E1|].
        rewrite map_map. apply map_ext_in. intros q Hq.
        apply (print_param_flat env c (p_name q) (p_ty q) (p_opt q)). apply Hrest. exact Hq.
      * cbn [map forallb wfe_item]. unfold rp_param at 1. rewrite W1. cbn [andb].
        assert (Hall: forallb wfe_item (map (fun q => IParam (rp_param c q)) rest) = true).
        { rewrite forallb_forall. intros it Hit. apply in_map_iff in Hit. destruct Hit as (q & <- & Hq).
          apply (print_param_flat env c (p_name q) (p_ty q) (p_opt q)). apply Hrest. exact Hq. }
        rewrite Hall. destruct star; cbn; rewrite ?andb_true_r; reflexivity.
    + destruct (IH Hrest) as [IH1 IH2]. split.
      * cbn [map flat_item]. f_equal; [exact E1|]. rewrite map_app, IH1. f_equal.
        destruct (pkind_eqb (p_kind p) PosOnly && _); reflexivity.
      * cbn [forallb wfe_item]. unfold rp_param at 1. rewrite W1. cbn [andb]. rewrite forallb_app, IH2.
        destruct (pkind_eqb (p_kind p) PosOnly && _); reflexivity.
Qed.

(* ---- the split into positional-only / regular / keyword-only parameters ---- *)

Definition has_kind (k : pkind) (p : param) : Prop := p_kind p = k.

Lemma kinds_split : forall ps, kinds_sorted ps = true ->
  exists P R K, ps = P ++ R ++ K /\ Forall (has_kind PosOnly) P /\ Forall (has_kind Regular) R /\
                Forall (has_kind KwOnly) K.
Proof.
  induction ps as [|p rest IH]; intros Hs.
  - exists [], [], []. repeat split; constructor.
  - assert (Hrest: kinds_sorted rest = true).
    { destruct rest as [|q r]; [reflexivity|]. cbn in Hs. apply andb_true_iff in Hs. apply Hs. }
    destruct (IH Hrest) as (P & R & K & E & HP & HR & HK). subst rest.
    assert (Hnext: forall q r, P ++ R ++ K = q :: r -> kind_rank (p_kind p) <= kind_rank (p_kind q)).
    { intros q r Eq. rewrite Eq in Hs. cbn in Hs. apply andb_true_iff in Hs. destruct Hs as [Hs _].
      apply Nat.leb_le in Hs. exact Hs. }
    destruct (p_kind p) eqn:Ek.
    + exists (p :: P), R, K. repeat split; try assumption. constructor; assumption.
    + destruct P as [|q P'].
      * exists [], (p :: R), K. repeat split; try assumption; constructor; assumption.
      * exfalso. specialize (Hnext q (P' ++ R ++ K) eq_refl). inversion HP as [|? ? Hq _]; subst.
        unfold has_kind in Hq. rewrite Hq in Hnext. cbn in Hnext. lia.
    + destruct P as [|q P'].
      * destruct R as [|q R'].
        -- exists [], [], (p :: K). repeat split; try assumption; constructor; assumption.
        -- exfalso. specialize (Hnext q (R' ++ K) eq_refl). inversion HR as [|? ? Hq _]; subst.
           unfold has_kind in Hq. rewrite Hq in Hnext. cbn in Hnext. lia.
      * exfalso. specialize (Hnext q (P' ++ R ++ K) eq_refl). inversion HP as [|? ? Hq _]; subst.
        unfold has_kind in Hq. rewrite Hq in Hnext. cbn in Hnext. lia.
Qed.

Definition rps (c : ctx) (ps : list param) : list rparam := map (rp_param c) ps.

Lemma items_loop_kw : forall c K star, Forall (has_kind KwOnly) K ->
  items_loop c K star =
  match K with
  | [] => match star with Some sp => [IStar (Some sp)] | None => [] end
  | _ => IStar star :: map IParam (rps c K)
  end.
Proof.
  intros c K star HK. destruct K as [|p rest]; [reflexivity|].
  inversion HK as [|? ? Hp _]; subst. cbn [items_loop]. unfold has_kind in Hp. rewrite Hp. cbn [pkind_eqb].
  unfold rps. rewrite map_map. reflexivity.
Qed.

Lemma items_loop_reg : forall c R rest star, Forall (has_kind Regular) R ->
  items_loop c (R ++ rest) star = map IParam (rps c R) ++ items_loop c rest star.
Proof.
  intros c R rest star HR. induction HR as [|p R' Hp _ IH]; [reflexivity|].
  cbn [app items_loop]. unfold has_kind in Hp. rewrite Hp. cbn [pkind_eqb andb app]. rewrite IH. reflexivity.
Qed.

Lemma items_loop_pos : forall c P rest star, Forall (has_kind PosOnly) P -> P <> [] ->
  match rest with [] => True | q :: _ => p_kind q <> PosOnly end ->
  items_loop c (P ++ rest) star = map IParam (rps c P) ++ ISlash :: items_loop c rest star.
Proof.
  intros c P rest star HP. induction HP as [|p P' Hp HP' IH]; intros Hne Hrest; [congruence|].
  cbn [app items_loop]. unfold has_kind in Hp. rewrite Hp. cbn [pkind_eqb andb].
  destruct P' as [|p2 P''].
  - cbn [app]. assert (Hc: match rest with [] => true | q :: _ => negb (pkind_eqb (p_kind q) PosOnly) end = true).
    { destruct rest as [|q r]; [reflexivity|]. destruct (p_kind q); try reflexivity. congruence. }
    rewrite Hc. reflexivity.
  - cbn [app]. inversion HP' as [|? ? Hp2 _]; subst. unfold has_kind in Hp2. rewrite Hp2. cbn [pkind_eqb negb app].
    change (p2 :: P'' ++ rest) with ((p2 :: P'') ++ rest). rewrite IH; [reflexivity|discriminate|exact Hrest].
Qed.

Lemma build_params : forall ph pos reg X rest,
  (ph = 0 \/ ph = 1)%nat ->
  build_rsig ph (mkRS pos reg None [] None) false (map IParam X ++ rest) =
  build_rsig ph (mkRS pos (reg ++ X) None [] None) false rest.
Proof.
  intros ph pos reg X. revert reg. induction X as [|x X IH]; intros reg rest Hph.
  - rewrite app_nil_r. reflexivity.
  - cbn [map app build_rsig]. destruct Hph as [->| ->]; cbn [rs_pos rs_reg]; rewrite IH by auto;
      rewrite <- app_assoc; reflexivity.
Qed.

Lemma build_kw : forall pos reg st kw bare X rest,
  build_rsig 2 (mkRS pos reg st kw None) bare (map IParam X ++ rest) =
  build_rsig 2 (mkRS pos reg st (kw ++ X) None) bare rest.
Proof.
  intros pos reg st kw bare X. revert kw. induction X as [|x X IH]; intros kw rest.
  - rewrite app_nil_r. reflexivity.
  - cbn [map app build_rsig rs_pos rs_reg rs_star rs_kw]. rewrite IH. rewrite <- app_assoc. reflexivity.
Qed.

Lemma build_tail : forall ph pos reg st kw bare sst,
  (ph <= 2)%nat -> (bare = true -> kw <> []) ->
  (forall p, sst = Some p -> r_def p = false) ->
  build_rsig ph (mkRS pos reg st kw None) bare (match sst with Some p => [IDStar p] | None => [] end) =
  Some (mkRS pos reg st kw sst).
Proof.
  intros ph pos reg st kw bare sst Hph Hb Hd.
  assert (Hbk: bare && match kw with [] => true | _ => false end = false).
  { destruct bare; [|reflexivity]. destruct kw; [exfalso; apply Hb; reflexivity|reflexivity]. }
  destruct sst as [p|].
  - cbn [build_rsig rs_pos rs_reg rs_star rs_kw]. unfold no_default. rewrite (Hd p eq_refl). rewrite Hbk. cbn.
    destruct ph as [|[|[|ph]]]; try reflexivity. lia.
  - cbn [build_rsig rs_kw]. rewrite Hbk. reflexivity.
Qed.

Lemma build_items : forall c P R K star sst,
  Forall (has_kind PosOnly) P -> Forall (has_kind Regular) R -> Forall (has_kind KwOnly) K ->
  (forall p, star = Some p -> r_def p = false) -> (forall p, sst = Some p -> r_def p = false) ->
  build_rsig 0 (mkRS [] [] None [] None) false
    (items_loop c (P ++ R ++ K) star ++ match sst with Some p => [IDStar p] | None => [] end) =
  Some (mkRS (rps c P) (rps c R) star (rps c K) sst).
Proof.
  intros c P R K star sst HP HR HK Hst Hsst.
  (* after the positional-only block *)
  assert (Hmid: forall ph pos, (ph = 0 \/ ph = 1)%nat ->
            build_rsig ph (mkRS pos [] None [] None) false
              (items_loop c (R ++ K) star ++ match sst with Some p => [IDStar p] | None => [] end) =
            Some (mkRS pos (rps c R) star (rps c K) sst)).
  { intros ph pos Hph. rewrite (items_loop_reg c R K star HR). rewrite <- app_assoc.
    rewrite build_params by exact Hph. cbn [app].
    rewrite (items_loop_kw c K star HK).
    destruct K as [|k0 K'].
    - destruct star as [sp|].
      + destruct Hph as [->| ->]; cbn [app build_rsig]; unfold no_default; rewrite (Hst sp eq_refl);
          cbn [negb rs_pos rs_reg rs_star rs_kw]; apply build_tail; try lia; try discriminate; assumption.
      + cbn [app]. destruct Hph as [->| ->]; apply build_tail; try lia; try discriminate; assumption.
    - destruct star as [sp|].
      + destruct Hph as [->| ->]; cbn [app build_rsig]; unfold no_default; rewrite (Hst sp eq_refl);
          cbn [negb rs_pos rs_reg rs_star rs_kw]; rewrite build_kw; cbn [app]; apply build_tail; try lia; try discriminate; try assumption.
      + destruct Hph as [->| ->]; cbn [app build_rsig]; rewrite build_kw; cbn [app];
          apply build_tail; try lia; try assumption; intros _; discriminate. }
  destruct P as [|p0 P'].
  - cbn [app]. apply Hmid. left. reflexivity.
  - rewrite (items_loop_pos c (p0 :: P') (R ++ K) star HP ltac:(discriminate)).
    + rewrite <- app_assoc. rewrite build_params by (left; reflexivity). cbn [app build_rsig rs_reg].
      apply Hmid. right. reflexivity.
    + destruct R as [|r0 R']; [destruct K as [|k0 K']; [exact I|]|].
      * cbn. inversion HK as [|? ? Hk _]; subst. unfold has_kind in Hk. rewrite Hk. discriminate.
      * cbn. inversion HR as [|? ? Hr _]; subst. unfold has_kind in Hr. rewrite Hr. discriminate.
Qed.

(* ---- the conversions of function.py on the printed items ---- *)

Lemma conv_rp : forall env c nm t opt, wf env t = true ->
  conv_ann env (r_ann (rp_of c nm t opt)) = Some (norm_pty c nm t).
Proof.
  intros env c nm t opt Hw. unfold rp_of, norm_pty. cbn [r_ann].
  destruct (elided c nm t (print_ty (ctx_param c) t)); [reflexivity|].
  cbn [conv_ann]. apply conv_to_expr. exact Hw.
Qed.

Lemma conv_params : forall env c k X,
  Forall (has_kind k) X ->
  (forall p, In p X -> wf env (p_ty p) = true /\ p_mut p = None) ->
  mapM (conv_param env k) (rps c X) = Some (map (norm_param c) X).
Proof.
  intros env c k X HX Hw. unfold rps. apply mapM_map. intros p Hp.
  destruct (Hw p Hp) as [Hwp Hm]. rewrite Forall_forall in HX. specialize (HX p Hp). unfold has_kind in HX.
  unfold conv_param, rp_param. rewrite (conv_rp env c _ _ _ Hwp). unfold norm_param. rewrite Hm, HX. reflexivity.
Qed.

Lemma conv_star_ok : forall env c st, wf_container env false st = true ->
  conv_star env (Some (rp_star c st)) = Some (Some (norm_star c st)).
Proof.
  intros env c [nm t] Hw. unfold wf_container in Hw. cbn [snd] in Hw.
  unfold rp_star, rp_of, norm_star, conv_star. cbn [fst snd r_ann r_name].
  assert (Hwe: wf env (container_elem t) = true).
  { destruct t; try discriminate; cbn [container_elem]; [reflexivity|]. apply andb_true_iff in Hw. apply Hw. }
  destruct (elided c nm (container_elem t) (print_ty (ctx_param c) (container_elem t))); [reflexivity|].
  rewrite (conv_to_expr env (ctx_param c) _ Hwe). reflexivity.
Qed.

Lemma conv_sstar_ok : forall env c st, wf_container env true st = true ->
  conv_sstar env (Some (rp_star c st)) = Some (Some (norm_sstar c st)).
Proof.
  intros env c [nm t] Hw. unfold wf_container in Hw. cbn [snd] in Hw.
  unfold rp_star, rp_of, norm_sstar, conv_sstar. cbn [fst snd r_ann r_name].
  assert (Hwe: wf env (container_elem t) = true).
  { destruct t; try discriminate; cbn [container_elem]; [reflexivity|]. apply andb_true_iff in Hw. apply Hw. }
  destruct (elided c nm (container_elem t) (print_ty (ctx_param c) (container_elem t))); [reflexivity|].
  rewrite (conv_to_expr env (ctx_param c) _ Hwe). reflexivity.
Qed.

(* the printed return annotation *)
Definition ret_expr (c : ctx) (t : ty) : expr :=
  if tokens_eqb (print_ty (ctx_plain c) t) [TName id_nothing] then EName id_Never else to_expr (ctx_plain c) t.

Lemma ret_ok : forall env c t, wf env t = true -> is_tvar env id_Never = false ->
  (if tokens_eqb (print_ty (ctx_plain c) t) [TName id_nothing] then [TName id_Never] else print_ty (ctx_plain c) t)
    = flat (ret_expr c t) /\ wfe (ret_expr c t) = true /\ conv env (ret_expr c t) = Some (norm_ret c t).
Proof.
  intros env c t Hw Hv. unfold ret_expr, norm_ret.
  destruct (print_to_expr env (ctx_plain c) t Hw) as [E W].
  destruct (tokens_eqb (print_ty (ctx_plain c) t) [TName id_nothing]) eqn:En.
  - repeat split. cbn [conv]. unfold conv_name. rewrite Hv. reflexivity.
  - repeat split; [exact E | exact W | apply conv_to_expr; exact Hw].
Qed.

Definition items_of (c : ctx) (s : sig) : list item :=
  items_loop c (s_params s) (option_map (rp_star c) (s_star s)) ++
  match s_sstar s with Some st => [IDStar (rp_star c st)] | None => [] end.

(* the part of parse_sig that follows the syntax, for a body that is `...` *)
Definition finish_sig (env : penv) (scope : list N) (its : list item) (re : expr) : option sig :=
  match build_rsig 0 (mkRS [] [] None [] None) false its with
  | Some rs =>
      if defaults_ok false (rs_pos rs ++ rs_reg rs) then
        match mapM (conv_param env PosOnly) (rs_pos rs),
              mapM (conv_param env Regular) (rs_reg rs),
              mapM (conv_param env KwOnly) (rs_kw rs),
              conv_star env (rs_star rs), conv_sstar env (rs_sstar rs),
              conv env re with
        | Some pp, Some pr, Some pk, Some st, Some sst, Some ret =>
            let s0 := mkSig (pp ++ pr ++ pk) st sst ret in
            let selfm :=
              match first_param rs, pp ++ pr ++ pk with
              | Some fp, q :: _ =>
                  if (r_name fp =? id_self)%N &&
                     match r_ann fp with Some e => expr_is_generic e | None => false end
                  then [(id_self, p_ty q)] else []
              | _, _ => []
              end in
            match apply_mutators s0 ([] ++ selfm) with
            | Some s1 => if verify_mutators scope s1 then Some s1 else None
            | None => None
            end
        | _, _, _, _, _, _ => None
        end
      else None
  | None => None
  end.

Lemma flat_item_head : forall it, exists t r, flat_item it = t :: r /\ t <> TRPar.
Proof.
  destruct it as [|[p|]|p|p]; cbn; unfold flat_rparam; cbn; eexists; eexists; (split; [reflexivity|discriminate]).
Qed.

Lemma sep_items_length : forall its, length its <= length (sep (map flat_item its)).
Proof.
  induction its as [|it r IH]; [cbn; lia|]. destruct r as [|it2 r2].
  - cbn [map]. rewrite sep_single. destruct (flat_item_head it) as (t & q & -> & _). cbn. lia.
  - cbn [map]. rewrite sep_cons2. rewrite app_length. cbn [length]. cbn [map] in IH. cbn [length] in *. lia.
Qed.

Lemma parse_sig_tokens : forall env scope its re,
  forallb wfe_item its = true -> wfe re = true ->
  parse_sig env scope (TLPar :: sep (map flat_item its) ++ TRPar :: TArrow :: flat re ++ TColon :: [TEllipsis]) =
  finish_sig env scope its re.
Proof.
  intros env scope its re Hw Hre. unfold parse_sig.
  assert (Hret: forall r1, r1 = flat re ++ TColon :: [TEllipsis] ->
            parse_expr (S (length r1)) r1 = Some (re, TColon :: [TEllipsis])).
  { intros r1 ->. apply parse_flat_gen; [exact Hre | rewrite app_length; lia | exact I]. }
  destruct its as [|it its'].
  - cbn [map sep app]. rewrite (Hret _ eq_refl). reflexivity.
  - destruct (flat_item_head it) as (t & q & Eh & Hne).
    assert (Hsep: exists q', sep (map flat_item (it :: its')) = t :: q').
    { destruct its'; cbn [map]; [rewrite sep_single|rewrite sep_cons2]; rewrite Eh; cbn [app]; eauto. }
    destruct Hsep as (q' & Hsep).
    pose proof (parse_items_flat (it :: its') (TArrow :: flat re ++ TColon :: [TEllipsis])
                  (S (length (sep (map flat_item (it :: its')) ++ TRPar :: TArrow :: flat re ++ TColon :: [TEllipsis])))
                  Hw ltac:(discriminate)) as HP.
    rewrite HP by (rewrite app_length; pose proof (sep_items_length (it :: its')); lia).
    rewrite Hsep. cbn [app].
    destruct t; try congruence; rewrite (Hret _ eq_refl); reflexivity.
Qed.

Lemma wf_sig_parts : forall env scope c s, wf_sig env scope c s = true ->
  (forall p, In p (s_params s) -> wf env (p_ty p) = true) /\
  kinds_sorted (s_params s) = true /\ defaults_sorted false (s_params s) = true /\
  (forall st, s_star s = Some st -> wf_container env false st = true) /\
  (forall st, s_sstar s = Some st -> wf_container env true st = true) /\
  wf env (s_ret s) = true /\ is_tvar env id_Never = false.
Proof.
  intros env scope c s H. unfold wf_sig in H.
  repeat (apply andb_true_iff in H; destruct H as [H ?]).
  rename H0 into Hnever, H1 into Hvm, H2 into Hself, H3 into Hret, H4 into Hss, H5 into Hst, H6 into Hnd,
         H7 into Hdef, H8 into Hkinds.
  repeat split; try assumption.
  - intros p Hp. rewrite forallb_forall in H. specialize (H p Hp). apply andb_true_iff in H. apply H.
  - intros st E. rewrite E in Hst. exact Hst.
  - intros st E. rewrite E in Hss. exact Hss.
  - apply negb_true_iff in Hnever. exact Hnever.
Qed.

Lemma no_mut_body : forall c ps,
  forallb (fun p => match p_mut p with None => true | Some _ => false end) ps = true ->
  print_body c ps = [TEllipsis].
Proof.
  intros c ps H. unfold print_body.
  assert (E: flat_map (fun p => match p_mut p with
                                | Some m => TNewline :: TName (p_name p) :: TEq :: print_ty (ctx_plain c) m
                                | None => [] end) ps = []).
  { induction ps as [|p r IH]; [reflexivity|]. cbn in H. apply andb_true_iff in H.
    destruct H as [Hp Hr]. cbn [flat_map]. destruct (p_mut p); [discriminate|]. apply IH. exact Hr. }
  rewrite E. reflexivity.
Qed.

Lemma print_sig_items : forall env scope c s, wf_sig env scope c s = true ->
  forallb (fun p => match p_mut p with None => true | Some _ => false end) (s_params s) = true ->
  print_sig c s = TLPar :: sep (map flat_item (items_of c s)) ++ TRPar :: TArrow :: flat (ret_expr c (s_ret s)) ++ TColon :: [TEllipsis]
  /\ forallb wfe_item (items_of c s) = true /\ wfe (ret_expr c (s_ret s)) = true /\
  conv env (ret_expr c (s_ret s)) = Some (norm_ret c (s_ret s)).
Proof.
  intros env scope c s Hwf Hmut.
  destruct (wf_sig_parts env scope c s Hwf) as (Hps & Hk & Hd & Hst & Hss & Hret & Hnev).
  destruct (ret_ok env c (s_ret s) Hret Hnev) as (Er & Wr & Cr).
  assert (Hstar: forall st, wf_container env false st = true \/ wf_container env true st = true ->
            print_container c st = flat_rparam (rp_star c st) /\ wfe_rparam (rp_star c st) = true).
  { intros st Hw. rewrite print_container_param. unfold rp_star.
    apply (print_param_flat env). destruct st as [nm t]. cbn [snd].
    unfold wf_container in Hw. cbn [snd] in Hw.
    destruct t; cbn [container_elem]; try reflexivity; destruct Hw as [Hw|Hw]; try discriminate;
      apply andb_true_iff in Hw; apply Hw. }
  pose proof (no_mut_body c (s_params s) Hmut) as Ebody.
  set (star := option_map (rp_star c) (s_star s)).
  destruct (params_loop_items env c (s_params s) star Hps) as [EL WL].
  assert (Estar: match s_star s with Some st => Some (print_container c st) | None => None end = option_map flat_rparam star).
  { unfold star. destruct (s_star s) as [st|] eqn:E; [|reflexivity]. cbn. f_equal. apply Hstar. left. apply Hst. reflexivity. }
  split; [|split; [|split; assumption]].
  - unfold print_sig. rewrite Estar, EL, Ebody, Er. unfold items_of. fold star. rewrite map_app.
    assert (Ess: match s_sstar s with Some st => [TDStar :: print_container c st] | None => [] end =
                 map flat_item (match s_sstar s with Some st => [IDStar (rp_star c st)] | None => [] end)).
    { destruct (s_sstar s) as [st|] eqn:E; [|reflexivity]. cbn. f_equal. f_equal. apply Hstar. right. apply Hss. reflexivity. }
    rewrite Ess. cbn [app]. reflexivity.
  - unfold items_of. fold star. rewrite forallb_app, WL.
    assert (W1: forallb wfe_item (match star with Some sp => [IStar (Some sp)] | None => [] end) = true).
    { unfold star. destruct (s_star s) as [st|] eqn:E; [|reflexivity]. cbn. rewrite andb_true_r. apply Hstar. left. apply Hst. reflexivity. }
    rewrite W1. destruct (s_sstar s) as [st|] eqn:E; [|reflexivity]. cbn. rewrite andb_true_r. apply Hstar. right. apply Hss. reflexivity.
Qed.

Lemma defaults_ok_rps : forall c X K seen,
  Forall (fun p => p_kind p <> KwOnly) X -> Forall (has_kind KwOnly) K ->
  defaults_sorted seen (X ++ K) = defaults_ok seen (rps c X).
Proof.
  intros c X K seen HX HK. revert seen. induction HX as [|p X' Hp _ IH]; intros seen.
  - cbn [app rps map defaults_ok]. destruct K as [|k K']; [reflexivity|].
    inversion HK as [|? ? Hk _]; subst. cbn. unfold has_kind in Hk. rewrite Hk. reflexivity.
  - cbn [app rps map defaults_sorted defaults_ok]. unfold rp_param at 1. unfold rp_of. cbn [r_def].
    assert (Ek: pkind_eqb (p_kind p) KwOnly = false) by (destruct (p_kind p); try reflexivity; congruence).
    rewrite Ek. destruct (p_opt p); [apply IH|]. f_equal. apply IH.
Qed.

Lemma prints_generic_flat : forall e, prints_generic (flat e) = expr_is_generic e.
Proof. destruct e; reflexivity. Qed.

Lemma norm_param_nomut : forall c ps,
  forallb (fun p => match p_mut p with None => true | Some _ => false end) ps = true ->
  forallb (fun p => match p_mut p with None => true | Some _ => false end) (map (norm_param c) ps) = true.
Proof.
  intros c ps H. rewrite forallb_forall in *. intros q Hq. apply in_map_iff in Hq. destruct Hq as (p & <- & Hp).
  specialize (H p Hp). unfold norm_param. cbn [p_mut]. destruct (p_mut p); [discriminate|reflexivity].
Qed.

Lemma verify_mutators_nomut : forall scope s,
  forallb (fun p => match p_mut p with None => true | Some _ => false end) (s_params s) = true ->
  verify_mutators scope s = true.
Proof.
  intros scope s H. unfold verify_mutators. rewrite forallb_forall in *. intros p Hp. specialize (H p Hp).
  destruct (p_mut p); [discriminate|reflexivity].
Qed.

Theorem parse_sig_print_lemma : forall env scope c s,
  wf_sig env scope c s = true -> simple_sig c s = true ->
  parse_sig env scope (print_sig c s) = Some (norm_sig c s).
Proof.
  intros env scope c s Hwf Hsimple.
  unfold simple_sig in Hsimple. apply andb_true_iff in Hsimple. destruct Hsimple as [Hmut Hself].
  apply negb_true_iff in Hself.
  destruct (print_sig_items env scope c s Hwf Hmut) as (E & W & Wr & Cr).
  destruct (wf_sig_parts env scope c s Hwf) as (Hps & Hk & Hd & Hst & Hss & Hret & Hnev).
  rewrite E. rewrite (parse_sig_tokens env scope _ _ W Wr).
  destruct (kinds_split (s_params s) Hk) as (P & R & K & Eps & HP & HR & HK).
  unfold finish_sig, items_of. rewrite Eps.
  assert (Edst: match s_sstar s with Some st => [IDStar (rp_star c st)] | None => [] end =
                match option_map (rp_star c) (s_sstar s) with Some p => [IDStar p] | None => [] end)
    by (destruct (s_sstar s); reflexivity).
  rewrite Edst.
  rewrite (build_items c P R K (option_map (rp_star c) (s_star s)) (option_map (rp_star c) (s_sstar s)) HP HR HK).
  2:{ intros p Ep. destruct (s_star s); [|discriminate]. injection Ep as <-. reflexivity. }
  2:{ intros p Ep. destruct (s_sstar s); [|discriminate]. injection Ep as <-. reflexivity. }
  cbn [rs_pos rs_reg rs_star rs_kw rs_sstar].
  (* defaults *)
  assert (Hdef: defaults_ok false (rps c P ++ rps c R) = true).
  { unfold rps. rewrite <- map_app. fold (rps c (P ++ R)).
    rewrite <- (defaults_ok_rps c (P ++ R) K false).
    - rewrite <- app_assoc. rewrite <- Eps. exact Hd.
    - apply Forall_app. split.
      + eapply Forall_impl; [|exact HP]. intros p Hp. unfold has_kind in Hp. rewrite Hp. discriminate.
      + eapply Forall_impl; [|exact HR]. intros p Hp. unfold has_kind in Hp. rewrite Hp. discriminate.
    - exact HK. }
  rewrite Hdef.
  assert (Hin: forall X, (forall p, In p X -> In p (s_params s)) ->
            forall p, In p X -> wf env (p_ty p) = true /\ p_mut p = None).
  { intros X HX p Hp. split; [apply Hps; apply HX; exact Hp|].
    rewrite forallb_forall in Hmut. specialize (Hmut p (HX p Hp)). destruct (p_mut p); [discriminate|reflexivity]. }
  rewrite (conv_params env c PosOnly P HP) by (apply Hin; intros p Hp; rewrite Eps; apply in_or_app; left; exact Hp).
  rewrite (conv_params env c Regular R HR) by (apply Hin; intros p Hp; rewrite Eps; apply in_or_app; right; apply in_or_app; left; exact Hp).
  rewrite (conv_params env c KwOnly K HK) by (apply Hin; intros p Hp; rewrite Eps; apply in_or_app; right; apply in_or_app; right; exact Hp).
  assert (Cst: conv_star env (option_map (rp_star c) (s_star s)) = Some (option_map (norm_star c) (s_star s))).
  { destruct (s_star s) as [st|] eqn:Es; [|reflexivity]. cbn [option_map]. apply conv_star_ok. apply Hst. reflexivity. }
  assert (Csst: conv_sstar env (option_map (rp_star c) (s_sstar s)) = Some (option_map (norm_sstar c) (s_sstar s))).
  { destruct (s_sstar s) as [st|] eqn:Es; [|reflexivity]. cbn [option_map]. apply conv_sstar_ok. apply Hss. reflexivity. }
  rewrite Cst, Csst, Cr. cbv beta iota zeta.
  rewrite <- !map_app. rewrite <- Eps.
  assert (Hselfm: match first_param (mkRS (rps c P) (rps c R) (option_map (rp_star c) (s_star s)) (rps c K) (option_map (rp_star c) (s_sstar s))),
                        map (norm_param c) (s_params s) with
                  | Some fp, q :: _ =>
                      if (r_name fp =? id_self)%N && match r_ann fp with Some e => expr_is_generic e | None => false end
                      then [(id_self, p_ty q)] else []
                  | _, _ => []
                  end = []).
  { unfold first_param. cbn [rs_pos rs_reg rs_kw]. unfold rps. rewrite <- !map_app. rewrite <- Eps.
    unfold self_mutated in Hself.
    destruct (s_params s) as [|p0 pr]; [reflexivity|]. cbn [map].
    unfold rp_param, rp_of. cbn [r_name r_ann].
    destruct (p_name p0 =? id_self)%N; [|reflexivity]. cbn [andb] in *.
    destruct (elided c (p_name p0) (p_ty p0) (print_ty (ctx_param c) (p_ty p0))); [reflexivity|].
    cbn [negb andb] in Hself.
    destruct (print_to_expr env (ctx_param c) (p_ty p0) (Hps p0 (or_introl eq_refl))) as [Ep0 _].
    rewrite Ep0, prints_generic_flat in Hself. rewrite Hself. reflexivity. }
  rewrite Hselfm. cbn [app apply_mutators].
  rewrite verify_mutators_nomut by (cbn [s_params]; apply norm_param_nomut; exact Hmut).
  unfold norm_sig. rewrite Hself.
  destruct (s_star s), (s_sstar s), (map (norm_param c) (s_params s)); reflexivity.
Qed.

(* ---- printing the canonical signature ---- *)

Lemma elided_any : forall c nm printed, elided c nm AnyT printed = true.
Proof. reflexivity. Qed.

Lemma print_param_norm : forall env c nm t opt,
  wf env t = true -> stable (ctx_param c) t = true -> any_ok c t = true ->
  print_param c nm (norm_pty c nm t) opt = print_param c nm t opt.
Proof.
  intros env c nm t opt Hw Hs Ha. unfold norm_pty, print_param.
  destruct (elided c nm t (print_ty (ctx_param c) t)) eqn:El.
  - reflexivity.
  - change (ctx_param (ctx_param c)) with (ctx_param c).
    rewrite (print_norm_lemma env (ctx_param c) t Hw Hs).
    assert (E: elided c nm (norm (ctx_param c) t) (print_ty (ctx_param c) t) = false).
    { unfold any_ok in Ha. unfold elided in *.
      destruct t; try (cbn in El; discriminate);
        destruct (norm (ctx_param c) _) eqn:En; try exact El; cbn in Ha; try discriminate; try rewrite En in Ha; try discriminate.
      all: try (cbn in En; discriminate). }
    rewrite E. reflexivity.
Qed.

Lemma norm_param_kind : forall c p, p_kind (norm_param c p) = p_kind p. Proof. reflexivity. Qed.
Lemma norm_param_name : forall c p, p_name (norm_param c p) = p_name p. Proof. reflexivity. Qed.
Lemma norm_param_opt : forall c p, p_opt (norm_param c p) = p_opt p. Proof. reflexivity. Qed.
Lemma norm_param_ty : forall c p, p_ty (norm_param c p) = norm_pty c (p_name p) (p_ty p). Proof. reflexivity. Qed.

Lemma params_loop_norm : forall env c ps star,
  (forall p, In p ps -> wf env (p_ty p) = true /\ stable (ctx_param c) (p_ty p) = true /\ any_ok c (p_ty p) = true) ->
  params_loop c (map (norm_param c) ps) star = params_loop c ps star.
Proof.
  intros env c ps star. induction ps as [|p rest IH]; intros H; [reflexivity|].
  assert (Hq: forall q, In q (p :: rest) ->
            print_param c (p_name (norm_param c q)) (p_ty (norm_param c q)) (p_opt (norm_param c q)) =
            print_param c (p_name q) (p_ty q) (p_opt q)).
  { intros q Hq. rewrite norm_param_name, norm_param_ty, norm_param_opt.
    destruct (H q Hq) as (A & B & C). apply (print_param_norm env); assumption. }
  assert (Hrest: forall q, In q rest -> wf env (p_ty q) = true /\ stable (ctx_param c) (p_ty q) = true /\ any_ok c (p_ty q) = true)
    by (intros q Hq'; apply H; right; exact Hq').
  cbn [map params_loop]. rewrite norm_param_kind.
  destruct (pkind_eqb (p_kind p) KwOnly).
  - f_equal. cbn [map]. f_equal; [apply Hq; left; reflexivity|].
    rewrite map_map. apply map_ext_in. intros q Hq'. apply Hq. right. exact Hq'.
  - rewrite (Hq p (or_introl eq_refl)). f_equal. rewrite (IH Hrest). f_equal.
    destruct rest as [|q r]; [reflexivity|]. cbn [map]. rewrite norm_param_kind. reflexivity.
Qed.

Lemma print_container_norm_star : forall env c st,
  wf_container env false st = true ->
  stable (ctx_param c) (container_elem (snd st)) = true -> any_ok c (container_elem (snd st)) = true ->
  print_container c (norm_star c st) = print_container c st.
Proof.
  intros env c [nm t] Hw Hs Ha. rewrite !print_container_param. unfold norm_star. cbn [fst snd] in *.
  assert (Hwe: wf env (container_elem t) = true).
  { unfold wf_container in Hw. cbn [snd] in Hw. destruct t; try discriminate; cbn [container_elem]; [reflexivity|].
    apply andb_true_iff in Hw. apply Hw. }
  pose proof (print_param_norm env c nm (container_elem t) false Hwe Hs Ha) as Hp. unfold norm_pty in Hp.
  destruct (elided c nm (container_elem t) (print_ty (ctx_param c) (container_elem t))) eqn:El; cbn [fst snd container_elem last].
  - rewrite <- Hp. reflexivity.
  - exact Hp.
Qed.

Lemma print_container_norm_sstar : forall env c st,
  wf_container env true st = true ->
  stable (ctx_param c) (container_elem (snd st)) = true -> any_ok c (container_elem (snd st)) = true ->
  print_container c (norm_sstar c st) = print_container c st.
Proof.
  intros env c [nm t] Hw Hs Ha. rewrite !print_container_param. unfold norm_sstar. cbn [fst snd] in *.
  assert (Hwe: wf env (container_elem t) = true).
  { unfold wf_container in Hw. cbn [snd] in Hw. destruct t; try discriminate; cbn [container_elem]; [reflexivity|].
    apply andb_true_iff in Hw. apply Hw. }
  pose proof (print_param_norm env c nm (container_elem t) false Hwe Hs Ha) as Hp. unfold norm_pty in Hp.
  destruct (elided c nm (container_elem t) (print_ty (ctx_param c) (container_elem t))) eqn:El; cbn [fst snd container_elem last].
  - rewrite <- Hp. reflexivity.
  - exact Hp.
Qed.

Theorem print_sig_norm_lemma : forall env scope c s,
  wf_sig env scope c s = true -> simple_sig c s = true -> stable_sig c s = true ->
  print_sig c (norm_sig c s) = print_sig c s.
Proof.
  intros env scope c s Hwf Hsimple Hst.
  unfold simple_sig in Hsimple. apply andb_true_iff in Hsimple. destruct Hsimple as [Hmut Hself].
  apply negb_true_iff in Hself.
  destruct (wf_sig_parts env scope c s Hwf) as (Hps & Hk & Hd & Hstar & Hsstar & Hret & Hnev).
  unfold stable_sig in Hst. repeat (apply andb_true_iff in Hst; destruct Hst as [Hst ?]).
  rename H into Hnoself, H0 into Sret, H1 into Ssstar, H2 into Sstar.
  assert (Hall: forall p, In p (s_params s) -> wf env (p_ty p) = true /\ stable (ctx_param c) (p_ty p) = true /\ any_ok c (p_ty p) = true).
  { intros p Hp. rewrite forallb_forall in Hst. specialize (Hst p Hp).
    apply andb_true_iff in Hst. destruct Hst as [Hst _]. apply andb_true_iff in Hst. destruct Hst as [A B].
    repeat split; [apply Hps; exact Hp | exact A | exact B]. }
  assert (Eparams: s_params (norm_sig c s) = map (norm_param c) (s_params s)).
  { unfold norm_sig. rewrite Hself. cbn [s_params]. destruct (map (norm_param c) (s_params s)); reflexivity. }
  unfold print_sig. rewrite Eparams.
  assert (Ebody: print_body c (map (norm_param c) (s_params s)) = print_body c (s_params s)).
  { rewrite (no_mut_body c (s_params s) Hmut). apply no_mut_body. apply norm_param_nomut. exact Hmut. }
  rewrite Ebody.
  assert (Eret: (let ret := print_ty (ctx_plain c) (s_ret (norm_sig c s)) in
                 if tokens_eqb ret [TName id_nothing] then [TName id_Never] else ret) =
                (let ret := print_ty (ctx_plain c) (s_ret s) in
                 if tokens_eqb ret [TName id_nothing] then [TName id_Never] else ret)).
  { unfold norm_sig. cbn [s_ret]. unfold norm_ret. cbv zeta.
    destruct (tokens_eqb (print_ty (ctx_plain c) (s_ret s)) [TName id_nothing]) eqn:En.
    - reflexivity.
    - change (ctx_plain (ctx_plain c)) with (ctx_plain c).
      rewrite (print_norm_lemma env (ctx_plain c) (s_ret s) Hret Sret). rewrite En. reflexivity. }
  cbv zeta in Eret. cbv zeta. rewrite Eret.
  assert (Estar: match s_star (norm_sig c s) with Some st => Some (print_container c st) | None => None end =
                 match s_star s with Some st => Some (print_container c st) | None => None end).
  { unfold norm_sig. cbn [s_star]. destruct (s_star s) as [st|] eqn:E; [|reflexivity]. f_equal.
    apply andb_true_iff in Sstar. destruct Sstar as [A B].
    apply (print_container_norm_star env); [apply Hstar; reflexivity | exact A | exact B]. }
  assert (Esstar: match s_sstar (norm_sig c s) with Some st => [TDStar :: print_container c st] | None => [] end =
                  match s_sstar s with Some st => [TDStar :: print_container c st] | None => [] end).
  { unfold norm_sig. cbn [s_sstar]. destruct (s_sstar s) as [st|] eqn:E; [|reflexivity]. f_equal. f_equal.
    apply andb_true_iff in Ssstar. destruct Ssstar as [A B].
    apply (print_container_norm_sstar env); [apply Hsstar; reflexivity | exact A | exact B]. }
  rewrite Estar, Esstar. rewrite (params_loop_norm env c _ _ Hall). reflexivity.
Qed.

Theorem sig_fixed_point_lemma : forall env scope c s,
  wf_sig env scope c s = true -> simple_sig c s = true -> stable_sig c s = true ->
  exists s', parse_sig env scope (print_sig c s) = Some s' /\ print_sig c s' = print_sig c s.
Proof.
  intros env scope c s H1 H2 H3. exists (norm_sig c s). split.
  - apply parse_sig_print_lemma; assumption.
  - apply (print_sig_norm_lemma env scope); assumption.
Qed.

(* ---- structural equality and VerifyVisitor for signatures ---- *)

Lemma pkind_eqb_refl : forall k, pkind_eqb k k = true.
Proof. destruct k; reflexivity. Qed.

Lemma norm_sig_simple : forall c s, self_mutated c s = false ->
  norm_sig c s =
  mkSig (map (norm_param c) (s_params s))
        (match s_star s with Some st => Some (norm_star c st) | None => None end)
        (match s_sstar s with Some st => Some (norm_sstar c st) | None => None end)
        (norm_ret c (s_ret s)).
Proof. intros c s H. unfold norm_sig. rewrite H. destruct (map (norm_param c) (s_params s)); reflexivity. Qed.

Theorem sig_reparse_equal_lemma : forall env scope c s,
  wf_sig env scope c s = true -> simple_sig c s = true -> stable_sig c s = true -> eq_stable_sig c s = true ->
  sig_eq (norm_sig c s) (unqual_sig s) = true.
Proof.
  intros env scope c s Hwf Hsimple Hst Heq.
  unfold simple_sig in Hsimple. apply andb_true_iff in Hsimple. destruct Hsimple as [Hmut Hself].
  apply negb_true_iff in Hself.
  destruct (wf_sig_parts env scope c s Hwf) as (Hps & Hk & Hd & Hstar & Hsstar & Hret & Hnev).
  unfold stable_sig in Hst. repeat (apply andb_true_iff in Hst; destruct Hst as [Hst ?]).
  rename H into Hnoself, H0 into Sret, H1 into Ssstar, H2 into Sstar.
  unfold eq_stable_sig in Heq. repeat (apply andb_true_iff in Heq; destruct Heq as [Heq ?]).
  rename H into Enn, H0 into Eret, H1 into Esstar, H2 into Estar.
  apply negb_true_iff in Enn.
  rewrite (norm_sig_simple c s Hself). unfold sig_eq, unqual_sig. cbn [s_params s_star s_sstar s_ret].
  repeat (apply andb_true_iff; split).
  - (* parameters *)
    apply list_eqb_map. intros p Hp. unfold param_eq, norm_param, unqual_param. cbn [p_name p_ty p_kind p_opt p_mut].
    rewrite N.eqb_refl, pkind_eqb_refl, Bool.eqb_reflx.
    rewrite forallb_forall in Hmut, Hst, Heq. specialize (Hmut p Hp). specialize (Hst p Hp). specialize (Heq p Hp).
    destruct (p_mut p); [discriminate|]. cbn [opt_eq andb]. rewrite !andb_true_r.
    apply andb_true_iff in Hst. destruct Hst as [Hst _]. apply andb_true_iff in Hst. destruct Hst as [St _].
    apply andb_true_iff in Heq. destruct Heq as [Et Hshown].
    unfold norm_pty, shown in *.
    destruct (elided c (p_name p) (p_ty p) (print_ty (ctx_param c) (p_ty p))).
    + rewrite orb_false_r in Hshown. destruct (p_ty p); try discriminate. reflexivity.
    + apply (reparse_equal_lemma env); [apply Hps; exact Hp | exact St | exact Et].
  - (* *args *)
    destruct (s_star s) as [[nm t]|] eqn:Es; [|reflexivity]. cbn [opt_eq].
    specialize (Hstar _ eq_refl). unfold star_shape_t in Estar. cbn [fst snd] in *.
    unfold star_eq, norm_star. cbn [fst snd].
    apply andb_true_iff in Sstar. destruct Sstar as [Se _].
    destruct t; try discriminate.
    + cbn [container_elem]. rewrite elided_any. cbn [fst snd unqual ty_eq]. rewrite N.eqb_refl. exact Estar.
    + destruct ps as [|e [|e2 pr]]; try discriminate.
      apply andb_true_iff in Estar. destruct Estar as [Estar Ee]. apply andb_true_iff in Estar. destruct Estar as [En Enel].
      apply negb_true_iff in Enel. cbn [container_elem last] in *. rewrite Enel. cbn [fst snd unqual ty_eq map list_eqb].
      rewrite N.eqb_refl, En. cbn [andb]. rewrite andb_true_r.
      unfold wf_container in Hstar. cbn [snd last] in Hstar. apply andb_true_iff in Hstar. destruct Hstar as [Hwe _].
      apply (reparse_equal_lemma env); assumption.
  - (* **kwargs *)
    destruct (s_sstar s) as [[nm t]|] eqn:Es; [|reflexivity]. cbn [opt_eq].
    specialize (Hsstar _ eq_refl). unfold star_shape_d in Esstar. cbn [fst snd] in *.
    unfold star_eq, norm_sstar. cbn [fst snd].
    apply andb_true_iff in Ssstar. destruct Ssstar as [Se _].
    destruct t; try discriminate.
    + cbn [container_elem]. rewrite elided_any. cbn [fst snd unqual ty_eq]. rewrite N.eqb_refl. exact Esstar.
    + destruct ps as [|k [|e [|e3 pr]]]; try discriminate.
      apply andb_true_iff in Esstar. destruct Esstar as [Esstar Ee]. apply andb_true_iff in Esstar. destruct Esstar as [Esstar Enel].
      apply andb_true_iff in Esstar. destruct Esstar as [En Ek].
      apply negb_true_iff in Enel. cbn [container_elem last] in *. rewrite Enel. cbn [fst snd unqual ty_eq map list_eqb].
      rewrite N.eqb_refl, En. cbn [andb]. rewrite andb_true_r.
      unfold wf_container in Hsstar. cbn [snd last] in Hsstar. apply andb_true_iff in Hsstar. destruct Hsstar as [Hwe _].
      cbn [ty_eq unqual] in Ek. rewrite Ek. cbn [andb]. apply (reparse_equal_lemma env); assumption.
  - (* return type *)
    unfold norm_ret. rewrite Enn. apply (reparse_equal_lemma env); assumption.
Qed.

Theorem sig_verify_ok_lemma : forall env scope c s,
  wf_sig env scope c s = true -> simple_sig c s = true -> verify_sig (norm_sig c s) = true.
Proof.
  intros env scope c s Hwf Hsimple.
  unfold simple_sig in Hsimple. apply andb_true_iff in Hsimple. destruct Hsimple as [Hmut Hself].
  apply negb_true_iff in Hself.
  destruct (wf_sig_parts env scope c s Hwf) as (Hps & Hk & Hd & Hstar & Hsstar & Hret & Hnev).
  rewrite (norm_sig_simple c s Hself). unfold verify_sig. cbn [s_params s_star s_sstar s_ret].
  repeat (apply andb_true_iff; split).
  - rewrite forallb_forall. intros q Hq. apply in_map_iff in Hq. destruct Hq as (p & <- & Hp).
    unfold norm_param. cbn [p_ty p_mut]. rewrite forallb_forall in Hmut. specialize (Hmut p Hp).
    destruct (p_mut p); [discriminate|]. rewrite andb_true_r. unfold norm_pty.
    destruct (elided c (p_name p) (p_ty p) (print_ty (ctx_param c) (p_ty p))); [reflexivity|].
    apply (verify_ok_lemma env). apply Hps. exact Hp.
  - destruct (s_star s) as [[nm t]|] eqn:Es; [|reflexivity]. specialize (Hstar _ eq_refl).
    unfold norm_star. cbn [fst snd].
    destruct (elided c nm (container_elem t) (print_ty (ctx_param c) (container_elem t))); [reflexivity|].
    cbn [snd verify_ty forallb]. rewrite andb_true_r. apply (verify_ok_lemma env).
    unfold wf_container in Hstar. cbn [snd] in Hstar. destruct t; try discriminate; cbn [container_elem]; [reflexivity|].
    apply andb_true_iff in Hstar. apply Hstar.
  - destruct (s_sstar s) as [[nm t]|] eqn:Es; [|reflexivity]. specialize (Hsstar _ eq_refl).
    unfold norm_sstar. cbn [fst snd].
    destruct (elided c nm (container_elem t) (print_ty (ctx_param c) (container_elem t))); [reflexivity|].
    cbn [snd verify_ty forallb]. rewrite andb_true_r. apply (verify_ok_lemma env).
    unfold wf_container in Hsstar. cbn [snd] in Hsstar. destruct t; try discriminate; cbn [container_elem]; [reflexivity|].
    apply andb_true_iff in Hsstar. apply Hsstar.
  - unfold norm_ret. destruct (tokens_eqb _ _); [reflexivity|]. apply (verify_ok_lemma env). exact Hret.
Qed.

Corollary reparse_equal_parsed_lemma : forall env c t,
  wf env t = true -> stable c t = true -> eq_stable c t = true -> unqual t = t ->
  ty_eq (norm c t) t = true.
Proof. intros env c t H1 H2 H3 E. rewrite <- E at 2. apply (reparse_equal_lemma env); assumption. Qed.
