(* C05, declarations: re-printing the re-read declaration reproduces the text (fixed point) and the re-read
   declarations are structurally equal to the printed ones, under the decidable conditions stable_* / eq_stable_*. *)
From Coq Require Import List NArith ZArith Bool Arith Lia.
From PV Require Import Print.Model Print.Proofs Print.Decl Print.DeclProofs.
Import ListNotations.

(* ------------------------------------------------------------------------------------------------ *)
(* signatures with body lines *)

Lemma mut_lines_norm : forall env c ps,
  (forall p m, In p ps -> p_mut p = Some m -> wf env m = true /\ stable (ctx_plain c) m = true) ->
  mut_lines c (map (norm_param c) ps) = mut_lines c ps.
Proof.
  intros env c. induction ps as [|p r IH]; intros H; [reflexivity|].
  unfold mut_lines in *. cbn [map flat_map]. rewrite IH by (intros q m Hq; apply H; right; exact Hq).
  unfold norm_param at 1. cbn [p_mut p_name]. destruct (p_mut p) as [m|] eqn:Em; [|reflexivity].
  destruct (H p m (or_introl eq_refl) Em) as [Hw Hs].
  change (ctx_plain (ctx_plain c)) with (ctx_plain c).
  rewrite (print_norm_lemma env (ctx_plain c) m Hw Hs). reflexivity.
Qed.

Lemma raise_lines_norm : forall env c excs,
  forallb (wf env) excs = true -> forallb (stable (ctx_plain c)) excs = true ->
  raise_lines c (map (norm (ctx_plain c)) excs) = raise_lines c excs.
Proof.
  intros env c. induction excs as [|e r IH]; intros Hw Hs; [reflexivity|].
  cbn [forallb] in *. apply andb_true_iff in Hw. apply andb_true_iff in Hs. destruct Hw as [We Wr]. destruct Hs as [Se Sr].
  unfold raise_lines in *. cbn [map flat_map]. rewrite IH by assumption.
  change (ctx_plain (ctx_plain c)) with (ctx_plain c).
  rewrite (print_norm_lemma env (ctx_plain c) e We Se). reflexivity.
Qed.

Lemma stable_sig_parts : forall c s, stable_sig c s = true ->
  (forall p, In p (s_params s) -> stable (ctx_param c) (p_ty p) = true /\ any_ok c (p_ty p) = true /\
                                  match p_mut p with Some m => stable (ctx_plain c) m = true | None => True end) /\
  match s_star s with Some st => stable (ctx_param c) (container_elem (snd st)) = true /\ any_ok c (container_elem (snd st)) = true | None => True end /\
  match s_sstar s with Some st => stable (ctx_param c) (container_elem (snd st)) = true /\ any_ok c (container_elem (snd st)) = true | None => True end /\
  stable (ctx_plain c) (s_ret s) = true /\ self_mutated c s = false.
Proof.
  intros c s H. unfold stable_sig in H.
  apply andb_true_iff in H; destruct H as [H H5]. apply andb_true_iff in H; destruct H as [H H4].
  apply andb_true_iff in H; destruct H as [H H3]. apply andb_true_iff in H; destruct H as [H1 H2].
  repeat split.
  - rewrite forallb_forall in H1. specialize (H1 p H). apply andb_true_iff in H1. destruct H1 as [H1 _].
    apply andb_true_iff in H1. apply H1.
  - rewrite forallb_forall in H1. specialize (H1 p H). apply andb_true_iff in H1. destruct H1 as [H1 _].
    apply andb_true_iff in H1. apply H1.
  - rewrite forallb_forall in H1. specialize (H1 p H). apply andb_true_iff in H1. destruct H1 as [_ H1].
    destruct (p_mut p); [exact H1|exact I].
  - destruct (s_star s); [|exact I]. apply andb_true_iff in H2. exact H2.
  - destruct (s_sstar s); [|exact I]. apply andb_true_iff in H3. exact H3.
  - exact H4.
  - apply negb_true_iff in H5. exact H5.
Qed.

Theorem print_fsig_norm_lemma : forall env scope c nm f,
  wf_fsig env scope c f = true -> stable_fsig c nm f = true ->
  print_fsig c (norm_fsig c nm f) = print_fsig c f.
Proof.
  intros env scope c nm [s excs] Hwf Hst. unfold wf_fsig in Hwf. cbn [f_sig f_exc] in *.
  apply andb_true_iff in Hwf. destruct Hwf as [Hwf Hex].
  unfold stable_fsig in Hst. cbn [f_sig f_exc] in Hst.
  apply andb_true_iff in Hst; destruct Hst as [Hss Hse].
  destruct (wf_sig_parts env scope c s Hwf) as (Hps & Hk & Hd & Hstar & Hsstar & Hret & Hnev).
  destruct (wf_sig_more env scope c s Hwf) as (Hmut & _ & _).
  destruct (stable_sig_parts c s Hss) as (Sp & Sstar & Ssstar & Sret & Hself).
  assert (Eparams: s_params (norm_sig c s) = map (norm_param c) (s_params s)).
  { unfold norm_sig. rewrite Hself. cbn [s_params]. destruct (map (norm_param c) (s_params s)); reflexivity. }
  assert (Einit: s_ret (norm_sig c s) = norm_ret c (s_ret s)) by reflexivity.
  unfold print_fsig, norm_fsig. cbn [f_sig f_exc]. rewrite Eparams.
  f_equal.
  - (* header *)
    unfold sig_head. rewrite Eparams, Einit.
    assert (Hall: forall p, In p (s_params s) -> wf env (p_ty p) = true /\ stable (ctx_param c) (p_ty p) = true /\ any_ok c (p_ty p) = true).
    { intros p Hp. destruct (Sp p Hp) as (A & B & _). repeat split; [apply Hps; exact Hp|exact A|exact B]. }
    assert (Eret: (let ret := print_ty (ctx_plain c) (norm_ret c (s_ret s)) in
                   if tokens_eqb ret [TName id_nothing] then [TName id_Never] else ret) =
                  (let ret := print_ty (ctx_plain c) (s_ret s) in
                   if tokens_eqb ret [TName id_nothing] then [TName id_Never] else ret)).
    { unfold norm_ret. cbv zeta.
      destruct (tokens_eqb (print_ty (ctx_plain c) (s_ret s)) [TName id_nothing]) eqn:En.
      - reflexivity.
      - change (ctx_plain (ctx_plain c)) with (ctx_plain c).
        rewrite (print_norm_lemma env (ctx_plain c) (s_ret s) Hret Sret). rewrite En. reflexivity. }
    cbv zeta in Eret. cbv zeta. rewrite Eret.
    assert (Estar: match s_star (norm_sig c s) with Some st => Some (print_container c st) | None => None end =
                   match s_star s with Some st => Some (print_container c st) | None => None end).
    { unfold norm_sig. cbn [s_star]. destruct (s_star s) as [st|] eqn:E; [|reflexivity]. f_equal.
      destruct Sstar as [A B].
      apply (print_container_norm_star env); [apply Hstar; reflexivity | exact A | exact B]. }
    assert (Esstar: match s_sstar (norm_sig c s) with Some st => [TDStar :: print_container c st] | None => [] end =
                    match s_sstar s with Some st => [TDStar :: print_container c st] | None => [] end).
    { unfold norm_sig. cbn [s_sstar]. destruct (s_sstar s) as [st|] eqn:E; [|reflexivity]. f_equal. f_equal.
      destruct Ssstar as [A B].
      apply (print_container_norm_sstar env); [apply Hsstar; reflexivity | exact A | exact B]. }
    rewrite Estar, Esstar. rewrite (params_loop_norm env c _ _ Hall). reflexivity.
  - (* body *)
    unfold print_fbody.
    rewrite (mut_lines_norm env c (s_params s)).
    + rewrite (raise_lines_norm env c excs Hex Hse). reflexivity.
    + intros p m Hp Em. destruct (Hmut p m Hp Em) as [Hw _]. destruct (Sp p Hp) as (_ & _ & Sm). rewrite Em in Sm. auto.
Qed.

(* ------------------------------------------------------------------------------------------------ *)
(* decorators, kinds and flags as the reader reconstructs them *)

Lemma mem_app : forall a X L, mem a (X ++ L) = mem a X || mem a L.
Proof. intros. unfold mem. apply existsb_app. Qed.

Lemma nodup_by_filter : forall (P : N -> bool) l, nodup_by N.eqb l = true -> nodup_by N.eqb (filter P l) = true.
Proof.
  intros P. induction l as [|x r IH]; intros H; [reflexivity|].
  cbn in H. apply andb_true_iff in H. destruct H as [Hx Hr]. cbn [filter]. destruct (P x); [|apply IH; exact Hr].
  cbn. rewrite (IH Hr), andb_true_r. apply negb_true_iff in Hx. apply negb_true_iff.
  destruct (existsb (N.eqb x) (filter P r)) eqn:E; [|reflexivity].
  apply existsb_exists in E. destruct E as (y & Hy & Hxy). apply filter_In in Hy. destruct Hy as [Hy _].
  assert (existsb (N.eqb x) r = true) by (apply existsb_exists; exists y; auto). congruence.
Qed.

Lemma nodup_by_dedup : forall l, nodup_by N.eqb (dedup N.eqb l) = true.
Proof.
  induction l as [|x r IH]; [reflexivity|]. cbn [dedup nodup_by].
  rewrite (nodup_by_filter _ _ IH), andb_true_r. apply negb_true_iff.
  destruct (existsb _ _) eqn:E; [|reflexivity]. apply existsb_exists in E. destruct E as (y & Hy & Hxy).
  apply filter_In in Hy. destruct Hy as [_ Hy]. rewrite Hxy in Hy. discriminate.
Qed.

Lemma dedup_idem : forall l, dedup N.eqb (dedup N.eqb l) = dedup N.eqb l.
Proof. intros. apply dedup_nodup. apply nodup_by_dedup. Qed.

Lemma dedup_snoc : forall X p, nodup_by N.eqb X = true -> mem p X = false -> dedup N.eqb (X ++ [p]) = X ++ [p].
Proof.
  intros X p Hn Hm. apply dedup_nodup. induction X as [|x r IH]; [reflexivity|].
  cbn in Hn. apply andb_true_iff in Hn. destruct Hn as [Hx Hr].
  unfold mem in Hm. cbn in Hm. apply orb_false_iff in Hm. destruct Hm as [Hpx Hm].
  cbn [app nodup_by]. rewrite (IH Hr Hm), andb_true_r. rewrite existsb_app. cbn [existsb].
  apply negb_true_iff in Hx. rewrite Hx. cbn [orb]. rewrite N.eqb_sym, Hpx. reflexivity.
Qed.

Section FixedDecos.
Variable fixed : bool.

Definition bare (f : func) : func := mkFn (fn_name f) (fn_sigs f) (fn_kind f) (fn_abs f) (fn_cor f) (fn_fin f) [].

Definition interp_free (X : list N) : bool :=
  forallb (fun d => negb (is_flag_deco d) && negb (d =? id_staticmethod)%N && negb (d =? id_classmethod)%N &&
                    negb (d =? id_property)%N) X.

Lemma interp_free_mem : forall X a, interp_free X = true ->
  (is_flag_deco a || (a =? id_staticmethod)%N || (a =? id_classmethod)%N || (a =? id_property)%N) = true -> mem a X = false.
Proof.
  intros X a H Ha. unfold mem. destruct (existsb (N.eqb a) X) eqn:E; [|reflexivity].
  apply existsb_exists in E. destruct E as (y & Hy & Hay). apply N.eqb_eq in Hay. subst y.
  unfold interp_free in H. rewrite forallb_forall in H. specialize (H a Hy).
  repeat (apply andb_true_iff in H; destruct H as [H ?]).
  apply negb_true_iff in H, H0, H1, H2. rewrite H, H0, H1, H2 in Ha. discriminate.
Qed.

Lemma interp_free_filter : forall X (P : N -> bool), interp_free X = true ->
  (forall d, P d = false -> (is_flag_deco d || (d =? id_staticmethod)%N || (d =? id_classmethod)%N || (d =? id_property)%N) = true) ->
  filter P X = X.
Proof.
  intros X P H HP. apply filter_all. rewrite forallb_forall. intros d Hd.
  destruct (P d) eqn:E; [reflexivity|]. pose proof (interp_free_mem X d H (HP d E)) as Hm.
  unfold mem in Hm. assert (existsb (N.eqb d) X = true) by (apply existsb_exists; exists d; split; [exact Hd|apply N.eqb_refl]). congruence.
Qed.

(* the base case: no explicit decorators; everything is a finite computation *)
Lemma bare_decos : forall c nm sigs kind ab co fi,
  let f := mkFn nm sigs kind ab co fi [] in
  match kind with
  | KProp => negb (nm =? id_new)%N && negb (nm =? id_init_subclass)%N && fixed && negb fi
  | KStatic => negb (nm =? id_init_subclass)%N
  | KClass => negb (nm =? id_new)%N
  | KMethod => negb (nm =? id_new)%N && negb (nm =? id_init_subclass)%N
  end = true ->
  printed_decos fixed (norm_func fixed c f) = printed_decos fixed f /\
  fn_kind (norm_func fixed c f) = kind /\ fn_abs (norm_func fixed c f) = ab /\ fn_cor (norm_func fixed c f) = co /\
  fn_fin (norm_func fixed c f) = fi /\
  fn_decos (norm_func fixed c f) = match kind with KProp => [id_property] | _ => [] end.
Proof.
  intros c nm sigs kind ab co fi f H. subst f.
  unfold norm_func, printed_decos, finish_df. cbn [fn_name fn_sigs fn_kind fn_abs fn_cor fn_fin fn_decos df_name df_sigs df_abs df_cor df_fin df_decos df_prop].
  rewrite map_length.
  destruct (nm =? id_new)%N eqn:Enew; destruct (nm =? id_init_subclass)%N eqn:Eis;
  destruct kind; cbn [negb andb] in H; try discriminate;
  try (destruct fixed; cbn [andb] in H; try discriminate); try (destruct fi; cbn [negb] in H; try discriminate);
  destruct ab; destruct co; try destruct fi; destruct (1 <? length sigs)%nat;
  vm_compute; repeat split; reflexivity.
Qed.
End FixedDecos.

Section FixedFuncs.
Variable fixed : bool.

Definition with_decos (g : func) (X : list N) : func :=
  mkFn (fn_name g) (fn_sigs g) (fn_kind g) (fn_abs g) (fn_cor g) (fn_fin g) (X ++ fn_decos g).

Lemma flags_consistent_parts : forall f, flags_consistent f = true ->
  interp_free (fn_decos f) = true /\ nodup_by N.eqb (fn_decos f) = true /\
  match fn_kind f with
  | KProp => negb (fn_name f =? id_new)%N && negb (fn_name f =? id_init_subclass)%N
  | KStatic => negb (fn_name f =? id_init_subclass)%N
  | KClass => negb (fn_name f =? id_new)%N
  | KMethod => negb (fn_name f =? id_new)%N && negb (fn_name f =? id_init_subclass)%N
  end = true.
Proof.
  intros f H. unfold flags_consistent in H. apply andb_true_iff in H. destruct H as [H H3].
  apply andb_true_iff in H. destruct H as [H1 H2]. auto.
Qed.

Lemma printed_decos_bare : forall f, interp_free (fn_decos f) = true -> nodup_by N.eqb (fn_decos f) = true ->
  printed_decos fixed f = fn_decos f ++ printed_decos fixed (bare f).
Proof.
  intros f Hi Hn. unfold printed_decos, bare. cbn [fn_name fn_sigs fn_kind fn_abs fn_cor fn_fin fn_decos dedup app].
  rewrite (dedup_nodup _ _ Hn).
  rewrite (interp_free_mem _ id_property Hi) by reflexivity.
  unfold mem at 1. cbn [existsb]. reflexivity.
Qed.

Lemma norm_func_bare : forall c f, interp_free (fn_decos f) = true -> nodup_by N.eqb (fn_decos f) = true ->
  norm_func fixed c f = with_decos (norm_func fixed c (bare f)) (fn_decos f).
Proof.
  intros c f Hi Hn. unfold norm_func. rewrite (printed_decos_bare f Hi Hn).
  set (X := fn_decos f). set (D := printed_decos fixed (bare f)).
  assert (Ef: filter (fun d => negb (is_flag_deco d)) (X ++ D) = X ++ filter (fun d => negb (is_flag_deco d)) D).
  { rewrite filter_app. f_equal. apply interp_free_filter; [exact Hi|]. intros d Hd. apply negb_false_iff in Hd. rewrite Hd. reflexivity. }
  rewrite Ef. set (R := filter (fun d => negb (is_flag_deco d)) D).
  rewrite !mem_app.
  rewrite (interp_free_mem X id_abstractmethod Hi) by reflexivity.
  rewrite (interp_free_mem X id_coroutine Hi) by reflexivity.
  rewrite (interp_free_mem X id_final Hi) by reflexivity.
  rewrite (interp_free_mem X id_property Hi) by reflexivity.
  cbn [orb]. unfold finish_df, with_decos.
  cbn [df_name df_sigs df_abs df_cor df_fin df_decos df_prop fn_name fn_sigs fn_kind fn_abs fn_cor fn_fin fn_decos bare].
  rewrite !mem_app.
  rewrite (interp_free_mem X id_staticmethod Hi) by reflexivity.
  rewrite (interp_free_mem X id_classmethod Hi) by reflexivity.
  cbn [orb].
  assert (Eg: filter (fun d => negb ((d =? id_staticmethod)%N || (d =? id_classmethod)%N)) (X ++ R) =
              X ++ filter (fun d => negb ((d =? id_staticmethod)%N || (d =? id_classmethod)%N)) R).
  { rewrite filter_app. f_equal. apply interp_free_filter; [exact Hi|]. intros d Hd. apply negb_false_iff in Hd.
    apply orb_true_iff in Hd. destruct Hd as [Hd|Hd]; rewrite Hd; rewrite ?orb_true_r; reflexivity. }
  rewrite Eg. reflexivity.
Qed.

Lemma printed_decos_norm : forall c f, flags_consistent f = true ->
  match fn_kind f with KProp => fixed && negb (fn_fin f) | _ => true end = true ->
  printed_decos fixed (norm_func fixed c f) = printed_decos fixed f /\
  fn_kind (norm_func fixed c f) = fn_kind f.
Proof.
  intros c f Hfc Hk. destruct (flags_consistent_parts f Hfc) as (Hi & Hn & Hkn).
  rewrite (norm_func_bare c f Hi Hn). rewrite (printed_decos_bare f Hi Hn).
  destruct f as [nm sigs kind ab co fi X]. unfold bare. cbn [fn_name fn_sigs fn_kind fn_abs fn_cor fn_fin fn_decos] in *.
  assert (Hcond: match kind with
                 | KProp => negb (nm =? id_new)%N && negb (nm =? id_init_subclass)%N && fixed && negb fi
                 | KStatic => negb (nm =? id_init_subclass)%N
                 | KClass => negb (nm =? id_new)%N
                 | KMethod => negb (nm =? id_new)%N && negb (nm =? id_init_subclass)%N
                 end = true).
  { destruct kind; try exact Hkn. rewrite <- andb_assoc. rewrite Hkn, Hk. reflexivity. }
  destruct (bare_decos fixed c nm sigs kind ab co fi Hcond) as (Ep & Ekind & Eab & Eco & Efi & Edec).
  set (g := norm_func fixed c (mkFn nm sigs kind ab co fi [])) in *.
  split; [|unfold with_decos; cbn [fn_kind]; exact Ekind].
  rewrite <- Ep. unfold printed_decos at 1 2. unfold with_decos.
  cbn [fn_name fn_sigs fn_kind fn_abs fn_cor fn_fin fn_decos].
  rewrite mem_app. rewrite (interp_free_mem X id_property Hi) by reflexivity. cbn [orb].
  assert (Ed: dedup N.eqb (X ++ fn_decos g) = X ++ dedup N.eqb (fn_decos g)).
  { rewrite Edec. destruct kind.
    - cbn [dedup]. rewrite !app_nil_r. apply dedup_nodup. exact Hn.
    - cbn [dedup]. rewrite !app_nil_r. apply dedup_nodup. exact Hn.
    - cbn [dedup]. rewrite !app_nil_r. apply dedup_nodup. exact Hn.
    - cbn [dedup filter]. apply dedup_snoc; [exact Hn|]. apply interp_free_mem; [exact Hi|reflexivity]. }
  rewrite Ed. rewrite <- app_assoc. reflexivity.
Qed.
End FixedFuncs.

(* ------------------------------------------------------------------------------------------------ *)
(* functions, classes and units are re-printed as they were *)

Lemma flat_map_ext_in : forall {A B} (f g : A -> list B) l, (forall a, In a l -> f a = g a) -> flat_map f l = flat_map g l.
Proof.
  induction l as [|x r IH]; intros H; [reflexivity|]. cbn [flat_map]. rewrite (H x (or_introl eq_refl)).
  rewrite IH by (intros a Ha; apply H; right; exact Ha). reflexivity.
Qed.

Section FixedPoint.
Variable fixed : bool.

Lemma stable_func_parts : forall c f, stable_func fixed c f = true ->
  forallb (stable_fsig c (fn_name f)) (fn_sigs f) = true /\ flags_consistent f = true /\
  const_property (norm_func fixed c f) = false /\
  match fn_kind f with KProp => fixed && negb (fn_fin f) | _ => true end = true.
Proof.
  intros c f H. unfold stable_func in H.
  apply andb_true_iff in H; destruct H as [H H4]. apply andb_true_iff in H; destruct H as [H H3].
  apply andb_true_iff in H; destruct H as [H1 H2]. apply negb_true_iff in H3. auto.
Qed.

Lemma print_func_norm : forall env scope c f, wf_func fixed env scope c f = true -> stable_func fixed c f = true ->
  print_func fixed c (norm_func fixed c f) = print_func fixed c f.
Proof.
  intros env scope c f Hwf Hst.
  destruct (wf_func_parts fixed env scope c f Hwf) as (_ & _ & Hsigs & _ & _).
  destruct (stable_func_parts c f Hst) as (Hss & Hfc & _ & Hk).
  destruct (printed_decos_norm fixed c f Hfc Hk) as [Ed _].
  unfold print_func. rewrite Ed.
  change (fn_name (norm_func fixed c f)) with (fn_name f).
  change (fn_sigs (norm_func fixed c f)) with (map (norm_fsig c (fn_name f)) (fn_sigs f)).
  rewrite flat_map_concat_map, map_map, <- flat_map_concat_map.
  apply flat_map_ext_in. intros s Hs. f_equal. f_equal. unfold print_def. f_equal. f_equal.
  rewrite forallb_forall in Hsigs, Hss.
  apply (print_fsig_norm_lemma env scope c (fn_name f) s (Hsigs s Hs) (Hss s Hs)).
Qed.

Lemma print_const_norm : forall env c k, wf_const env k = true -> stable_const c k = true ->
  print_const c (norm_const c k) = print_const c k.
Proof.
  intros env c k H Hs. unfold wf_const in H. apply andb_true_iff in H. destruct H as [_ Hw].
  unfold print_const, norm_const, stable_const in *. cbn [k_name k_ty k_val].
  change (ctx_plain (ctx_plain c)) with (ctx_plain c).
  rewrite (print_norm_lemma env (ctx_plain c) (k_ty k) Hw Hs). reflexivity.
Qed.

Lemma print_kw_norm : forall env c kv, wf_kw env kv = true -> print_kw c (norm_kw c kv) = print_kw c kv.
Proof.
  intros env c [k t] H. unfold wf_kw in H. cbn [fst snd] in H. unfold print_kw, norm_kw. cbn [fst snd].
  destruct t as [n| | | |v| | | | |]; try discriminate.
  - cbn [norm print_ty]. unfold print_name. destruct n; reflexivity.
  - destruct v as [|ic b| |]; try discriminate. reflexivity.
Qed.

Lemma is_nil_map : forall {A B} (f : A -> B) l, is_nil (map f l) = is_nil l.
Proof. destruct l; reflexivity. Qed.

Lemma header_bases_norm : forall env c nm bases,
  forallb (wf_base env) bases = true ->
  forallb (fun t => negb (is_nothing t) && stable (ctx_plain c) t) bases = true ->
  match map (print_ty (ctx_plain c)) (norm_bases c nm bases) with
  | [b] => if tokens_eqb b [TName id_object] then [] else map (print_ty (ctx_plain c)) (norm_bases c nm bases)
  | _ => map (print_ty (ctx_plain c)) (norm_bases c nm bases)
  end =
  match map (print_ty (ctx_plain c)) bases with
  | [b] => if tokens_eqb b [TName id_object] then [] else map (print_ty (ctx_plain c)) bases
  | _ => map (print_ty (ctx_plain c)) bases
  end.
Proof.
  intros env c nm bases Hw Hs. rewrite (kept_bases_print c bases). rewrite norm_bases_kept.
  assert (HKB: forall t, In t (kept_bases c bases) -> In t bases).
  { intros t Ht. unfold kept_bases in Ht. destruct bases as [|b [|b2 r]]; [exact Ht| |exact Ht].
    destruct (tokens_eqb _ _); [destruct Ht|exact Ht]. }
  assert (Hone: forall t, In t bases -> wf env t = true /\ stable (ctx_plain c) t = true /\ is_nothing (norm (ctx_plain c) t) = false).
  { intros t Ht. rewrite forallb_forall in Hw, Hs. specialize (Hw t Ht). specialize (Hs t Ht).
    unfold wf_base in Hw. apply andb_true_iff in Hw. destruct Hw as [Hw Hsh]. apply andb_true_iff in Hs. destruct Hs as [Hn Hs].
    repeat split; try assumption. destruct t; try discriminate; try reflexivity.
    cbn [norm]. destruct (tokens_eqb _ _); [reflexivity|]. destruct (name_eqb _ _); reflexivity. }
  set (KB := kept_bases c bases) in *.
  assert (Ef: filter (fun t => negb (is_nothing t)) (map (norm (ctx_plain c)) KB) = map (norm (ctx_plain c)) KB).
  { apply filter_all. rewrite forallb_forall. intros t Ht. apply in_map_iff in Ht. destruct Ht as (t0 & <- & Ht0).
    destruct (Hone t0 (HKB t0 Ht0)) as (_ & _ & Hn). rewrite Hn. reflexivity. }
  assert (Ep: map (print_ty (ctx_plain c)) (map (norm (ctx_plain c)) KB) = map (print_ty (ctx_plain c)) KB).
  { rewrite map_map. apply map_ext_in. intros t Ht. destruct (Hone t (HKB t Ht)) as (Hwt & Hst & _).
    change (ctx_plain (ctx_plain c)) with (ctx_plain c). apply (print_norm_lemma env _ t Hwt Hst). }
  unfold final_bases. rewrite Ef.
  destruct KB as [|k0 kr] eqn:EKB.
  - cbn [map]. destruct (nm =? id_object)%N; reflexivity.
  - cbn [map] in Ep |- *. injection Ep as E1 E2. rewrite E1, E2.
    destruct kr as [|k1 kr']; [|reflexivity].
    cbn [map].
    (* a single kept base does not print as `object` *)
    assert (Hno: tokens_eqb (print_ty (ctx_plain c) k0) [TName id_object] = false).
    { unfold KB, kept_bases in EKB. destruct bases as [|b [|b2 r]]; try discriminate.
      destruct (tokens_eqb (print_ty (ctx_plain c) b) [TName id_object]) eqn:E; [discriminate|]. injection EKB as <-. exact E. }
    rewrite Hno. reflexivity.
Qed.

Lemma class_header_norm : forall env c n b k d s cs ks ms b' k' d' s' cs' ks' ms' hb,
  forallb (wf_base env) b = true -> forallb (wf_kw env) k = true ->
  forallb (fun t => negb (is_nothing t) && stable (ctx_plain c) t) b = true ->
  b' = norm_bases c n b -> k' = map (norm_kw c) k ->
  class_header c (mkCls n b' k' d' s' cs' ks' ms') hb = class_header c (mkCls n b k d s cs ks ms) hb.
Proof.
  intros env c n b k d s cs ks ms b' k' d' s' cs' ks' ms' hb Hb Hk Hs -> ->. unfold class_header.
  cbn [c_name c_bases c_kws]. rewrite (header_bases_norm env c n b Hb Hs).
  assert (Ek: map (print_kw c) (map (norm_kw c) k) = map (print_kw c) k).
  { rewrite map_map. apply map_ext_in. intros kv Hkv. rewrite forallb_forall in Hk. apply (print_kw_norm env c kv (Hk kv Hkv)). }
  rewrite Ek. reflexivity.
Qed.

Definition cls_fixed (cl : cls) : Prop :=
  forall env scope nested, wf_cls fixed env scope nested cl = true -> stable_cls fixed cl = true ->
  print_cls fixed (norm_cls fixed cl) = print_cls fixed cl.

Theorem print_cls_norm : forall cl, cls_fixed cl.
Proof.
  induction cl using cls_ind'. rename H into IH. unfold cls_fixed. intros env scope nested Hwf Hst.
  destruct (wf_cls_unfold fixed _ _ _ _ _ _ _ _ _ _ _ Hwf) as (Hn & Hb & Hk & Hdec & Hco & Hsl & Hm & Hnd & Hcl).
  cbn zeta in *. set (c := mkCtx false (Some n)) in *.
  set (sc := scope ++ flat_map tparams (norm_bases c n b)) in *.
  cbn [stable_cls] in Hst. fold c in Hst.
  apply andb_true_iff in Hst; destruct Hst as [Hst Scl]. apply andb_true_iff in Hst; destruct Hst as [Hst Sm].
  apply andb_true_iff in Hst; destruct Hst as [Sb Sk].
  set (ms' := map (norm_func fixed c) ms).
  assert (Eprops: filter const_property ms' = []).
  { unfold ms'. clear - Sm. induction ms as [|f r IHr]; [reflexivity|]. cbn [forallb] in Sm. apply andb_true_iff in Sm. destruct Sm as [Sf Sr].
    destruct (stable_func_parts c f Sf) as (_ & _ & Hc & _). cbn [map filter]. rewrite Hc. apply IHr. exact Sr. }
  assert (Emeth: filter (fun f => negb (const_property f)) ms' = ms').
  { apply filter_all. unfold ms'. rewrite forallb_forall. intros g Hg. apply in_map_iff in Hg. destruct Hg as (f & <- & Hf).
    rewrite forallb_forall in Sm. destruct (stable_func_parts c f (Sm f Hf)) as (_ & _ & Hc & _). rewrite Hc. reflexivity. }
  assert (Enorm: norm_cls fixed (mkCls n b k d s cs ks ms) =
                 mkCls n (norm_bases c n b) (map (norm_kw c) k) (dedup N.eqb d) s (map (norm_cls fixed) cs)
                       (map (norm_const c) ks) ms').
  { cbn [norm_cls c_name c_bases c_kws c_decos c_slots c_classes c_consts c_methods]. fold c. fold ms'.
    rewrite Eprops, Emeth. cbn [map]. rewrite app_nil_r. reflexivity. }
  rewrite Enorm.
  assert (Ehb: has_body (mkCls n (norm_bases c n b) (map (norm_kw c) k) (dedup N.eqb d) s (map (norm_cls fixed) cs) (map (norm_const c) ks) ms')
               = has_body (mkCls n b k d s cs ks ms)).
  { unfold has_body. cbn [c_classes c_methods c_consts c_slots]. unfold ms'. rewrite !is_nil_map. reflexivity. }
  assert (Ecs: flat_map (print_cls fixed) (map (norm_cls fixed) cs) = flat_map (print_cls fixed) cs).
  { clear - IH Hcl Scl. revert Hcl Scl. induction IH as [|x r Hx _ IHr]; intros Hcl Scl; [reflexivity|].
    cbn [forallb] in *. apply andb_true_iff in Hcl. apply andb_true_iff in Scl. destruct Hcl as [Hx1 Hr1]. destruct Scl as [Hx2 Hr2].
    cbn [map flat_map]. rewrite (Hx _ _ _ Hx1 Hx2). rewrite (IHr Hr1 Hr2). reflexivity. }
  assert (Eks: map (fun k0 => SLine (print_const c k0)) (map (norm_const c) ks) = map (fun k0 => SLine (print_const c k0)) ks).
  { rewrite map_map. apply map_ext_in. intros k0 Hk0. rewrite forallb_forall in Hco, Sk.
    rewrite (print_const_norm env c k0 (Hco k0 Hk0) (Sk k0 Hk0)). reflexivity. }
  assert (Ems: flat_map (print_func fixed c) ms' = flat_map (print_func fixed c) ms).
  { unfold ms'. rewrite flat_map_concat_map, map_map, <- flat_map_concat_map. apply flat_map_ext_in. intros f Hf.
    rewrite forallb_forall in Hm, Sm. apply (print_func_norm env sc c f (Hm f Hf) (Sm f Hf)). }
  assert (Eh: forall hb, class_header c (mkCls n (norm_bases c n b) (map (norm_kw c) k) (dedup N.eqb d) s (map (norm_cls fixed) cs) (map (norm_const c) ks) ms') hb
                       = class_header c (mkCls n b k d s cs ks ms) hb).
  { intros hb. apply (class_header_norm env); auto. }
  change (print_cls fixed (mkCls n (norm_bases c n b) (map (norm_kw c) k) (dedup N.eqb d) s (map (norm_cls fixed) cs) (map (norm_const c) ks) ms'))
    with (map (fun d0 => SLine (deco_line d0)) (dedup N.eqb (dedup N.eqb d)) ++
          [if has_body (mkCls n (norm_bases c n b) (map (norm_kw c) k) (dedup N.eqb d) s (map (norm_cls fixed) cs) (map (norm_const c) ks) ms')
           then SClass (class_header c (mkCls n (norm_bases c n b) (map (norm_kw c) k) (dedup N.eqb d) s (map (norm_cls fixed) cs) (map (norm_const c) ks) ms') true)
                  ((match s with Some sl => [SLine (slots_line sl)] | None => [] end) ++ flat_map (print_cls fixed) (map (norm_cls fixed) cs) ++
                   map (fun k0 => SLine (print_const c k0)) (map (norm_const c) ks) ++ map SLine (flat_map (print_func fixed c) ms'))
           else SLine (class_header c (mkCls n (norm_bases c n b) (map (norm_kw c) k) (dedup N.eqb d) s (map (norm_cls fixed) cs) (map (norm_const c) ks) ms') false)]).
  rewrite dedup_idem, Ehb, !Eh, Ecs, Eks, Ems. reflexivity.
Qed.
End FixedPoint.

(* ---- TypeVar lines: sorting a sorted list ---- *)

Lemma insert_tp_sorted : forall t l, sorted_tps l = true -> sorted_tps (insert_tp t l) = true.
Proof.
  intros t. induction l as [|x r IH]; intros H; [reflexivity|].
  cbn [insert_tp]. destruct (tp_name t <=? tp_name x)%N eqn:E.
  - cbn [sorted_tps]. rewrite E. exact H.
  - assert (Hxt: (tp_name x <=? tp_name t)%N = true) by (apply N.leb_le; apply N.leb_gt in E; lia).
    destruct r as [|y r'].
    + cbn. rewrite Hxt. reflexivity.
    + cbn [sorted_tps] in H. apply andb_true_iff in H. destruct H as [Hxy Hr].
      specialize (IH Hr). cbn [insert_tp] in *. destruct (tp_name t <=? tp_name y)%N eqn:E2.
      * cbn [sorted_tps] in *. rewrite Hxt, E2. exact Hr.
      * cbn [sorted_tps] in *. rewrite Hxy. exact IH.
Qed.

Lemma sort_tps_sorted : forall l, sorted_tps (sort_tps l) = true.
Proof. induction l as [|x r IH]; [reflexivity|]. cbn [sort_tps fold_right]. apply insert_tp_sorted. exact IH. Qed.

Lemma sort_tps_id : forall l, sorted_tps l = true -> sort_tps l = l.
Proof.
  induction l as [|x r IH]; intros H; [reflexivity|].
  change (sort_tps (x :: r)) with (insert_tp x (sort_tps r)).
  destruct r as [|y r']; [reflexivity|].
  cbn [sorted_tps] in H. apply andb_true_iff in H. destruct H as [Hxy Hr]. rewrite (IH Hr).
  cbn [insert_tp]. rewrite Hxy. reflexivity.
Qed.

Lemma sorted_tp_map : forall (g : tparam -> tparam) l, (forall t, tp_name (g t) = tp_name t) ->
  sorted_tps l = true -> sorted_tps (map g l) = true.
Proof.
  intros g l Hg. induction l as [|x [|y r] IH]; intros H; [reflexivity|reflexivity|].
  cbn [sorted_tps] in H. apply andb_true_iff in H. destruct H as [Hxy Hr].
  change (sorted_tps (map g (x :: y :: r))) with ((tp_name (g x) <=? tp_name (g y))%N && sorted_tps (map g (y :: r))).
  rewrite (Hg x), (Hg y), Hxy. apply IH. exact Hr.
Qed.

Lemma print_tparam_norm : forall env t, wf_tparam env t = true -> stable_tparam t = true ->
  print_tparam plain0 (norm_tparam plain0 t) = print_tparam plain0 t.
Proof.
  intros env t Hw Hs. destruct (wf_tparam_parts env t Hw) as [Hc Hb].
  unfold stable_tparam in Hs. apply andb_true_iff in Hs. destruct Hs as [Sc Sb].
  unfold print_tparam, norm_tparam. cbn [tp_name tp_lit tp_cons tp_bound]. change (ctx_plain plain0) with plain0.
  assert (Ec: flat_map (fun x => TComma :: print_ty plain0 x) (map (norm plain0) (tp_cons t)) =
              flat_map (fun x => TComma :: print_ty plain0 x) (tp_cons t)).
  { rewrite flat_map_concat_map, map_map, <- flat_map_concat_map. apply flat_map_ext_in. intros x Hx.
    rewrite forallb_forall in Hc, Sc. rewrite (print_norm_lemma env plain0 x (Hc x Hx) (Sc x Hx)). reflexivity. }
  rewrite Ec. destruct (tp_bound t) as [b|]; [|reflexivity].
  rewrite (print_norm_lemma env plain0 b Hb Sb). reflexivity.
Qed.

Section FixedUnit.
Variable fixed : bool.

Lemma wf_aliases_filter : forall env l, forallb (wf_alias env) l = true ->
  filter (fun a => negb (prints_none (snd a))) l = l /\ filter (fun a => prints_none (snd a)) l = [].
Proof.
  intros env. induction l as [|a r IH]; intros H; [split; reflexivity|].
  cbn [forallb] in H. apply andb_true_iff in H. destruct H as [Ha Hr]. destruct (IH Hr) as [E1 E2].
  unfold wf_alias in Ha. apply andb_true_iff in Ha; destruct Ha as [Ha _]. apply andb_true_iff in Ha; destruct Ha as [_ Hn].
  cbn [filter]. rewrite Hn. apply negb_true_iff in Hn. rewrite Hn, E1, E2. split; reflexivity.
Qed.

Theorem print_unit_fixed_point_lemma : forall u, wf_unit fixed u = true -> stable_unit fixed u = true ->
  print_unit fixed (norm_unit fixed u) = print_unit fixed u.
Proof.
  intros u Hwf Hst. destruct (wf_unit_parts fixed u Hwf) as (Htp & Hal & Hco & Hcl & Hfn & _ & _). cbn zeta in *.
  set (env := map tp_name (sort_tps (u_tparams u))) in *.
  unfold stable_unit in Hst.
  apply andb_true_iff in Hst; destruct Hst as [Hst Sfn]. apply andb_true_iff in Hst; destruct Hst as [Hst Scl].
  apply andb_true_iff in Hst; destruct Hst as [Hst Sco]. apply andb_true_iff in Hst; destruct Hst as [Stp Sal].
  destruct (wf_aliases_filter env (u_aliases u) Hal) as [Ea1 Ea2].
  unfold norm_unit. rewrite Ea1, Ea2. cbn [map app].
  unfold print_unit. cbn [u_tparams u_aliases u_consts u_classes u_funcs].
  set (T := sort_tps (u_tparams u)).
  assert (E1: sort_tps (map (norm_tparam plain0) T) = map (norm_tparam plain0) T).
  { apply sort_tps_id. apply sorted_tp_map; [reflexivity|apply sort_tps_sorted]. }
  rewrite E1.
  assert (E1': map (fun t => SLine (print_tparam plain0 t)) (map (norm_tparam plain0) T) = map (fun t => SLine (print_tparam plain0 t)) T).
  { rewrite map_map. apply map_ext_in. intros t Ht. rewrite forallb_forall in Htp, Stp.
    pose proof (In_sort_tps t _ Ht) as Hin. rewrite (print_tparam_norm env t (Htp t Hin) (Stp t Hin)). reflexivity. }
  assert (E2: map (fun a => SLine (print_alias plain0 a)) (map (norm_alias plain0) (u_aliases u)) = map (fun a => SLine (print_alias plain0 a)) (u_aliases u)).
  { rewrite map_map. apply map_ext_in. intros a Ha. rewrite forallb_forall in Hal, Sal.
    specialize (Hal a Ha). unfold wf_alias in Hal. apply andb_true_iff in Hal; destruct Hal as [Hal _].
    apply andb_true_iff in Hal; destruct Hal as [Hal _]. apply andb_true_iff in Hal; destruct Hal as [_ Hw].
    unfold print_alias, norm_alias. cbn [fst snd]. change (ctx_plain plain0) with plain0.
    rewrite (print_norm_lemma env plain0 (snd a) Hw (Sal a Ha)). reflexivity. }
  assert (E3: map (fun k => SLine (print_const plain0 k)) (map (norm_const plain0) (u_consts u)) = map (fun k => SLine (print_const plain0 k)) (u_consts u)).
  { rewrite map_map. apply map_ext_in. intros k Hk. rewrite forallb_forall in Hco, Sco.
    rewrite (print_const_norm env plain0 k (Hco k Hk) (Sco k Hk)). reflexivity. }
  assert (E4: map (print_cls fixed) (map (norm_cls fixed) (u_classes u)) = map (print_cls fixed) (u_classes u)).
  { rewrite map_map. apply map_ext_in. intros x Hx. rewrite forallb_forall in Hcl, Scl.
    apply (print_cls_norm fixed x env [] false (Hcl x Hx) (Scl x Hx)). }
  assert (E5: flat_map (print_func fixed plain0) (map (norm_func fixed plain0) (u_funcs u)) = flat_map (print_func fixed plain0) (u_funcs u)).
  { rewrite flat_map_concat_map, map_map, <- flat_map_concat_map. apply flat_map_ext_in. intros f Hf.
    rewrite forallb_forall in Hfn, Sfn. apply (print_func_norm fixed env [] plain0 f (Hfn f Hf) (Sfn f Hf)). }
  rewrite E1', E2, E3, E4, E5. reflexivity.
Qed.

(* the second generation is read back as the first *)
Corollary unit_second_generation_lemma : forall u, wf_unit fixed u = true -> stable_unit fixed u = true ->
  parse_unit (print_unit fixed (norm_unit fixed u)) = Some (norm_unit fixed u).
Proof.
  intros u Hwf Hst. rewrite (print_unit_fixed_point_lemma u Hwf Hst). apply parse_unit_print_lemma. exact Hwf.
Qed.
End FixedUnit.

(* ================================================================================================ *)
(* structural equality of the re-read declarations with the printed ones *)

Lemma sig_reparse_equal_muts : forall env scope c s,
  wf_sig env scope c s = true -> stable_sig c s = true -> eq_stable_sig c s = true ->
  forallb (fun p => match p_mut p with Some m => eq_stable (ctx_plain c) m | None => true end) (s_params s) = true ->
  sig_eq (norm_sig c s) (unqual_sig s) = true.
Proof.
  intros env scope c s Hwf Hst Heq Hmeq.
  destruct (wf_sig_parts env scope c s Hwf) as (Hps & Hk & Hd & Hstar & Hsstar & Hret & Hnev).
  destruct (wf_sig_more env scope c s Hwf) as (Hmut & _ & _).
  pose proof (stable_sig_parts c s Hst) as (Sp & Sstar & Ssstar & Sret & Hself).
  unfold eq_stable_sig in Heq. repeat (apply andb_true_iff in Heq; destruct Heq as [Heq ?]).
  rename H into Enn, H0 into Eret, H1 into Esstar, H2 into Estar.
  apply negb_true_iff in Enn.
  rewrite (norm_sig_simple c s Hself). unfold sig_eq, unqual_sig. cbn [s_params s_star s_sstar s_ret].
  repeat (apply andb_true_iff; split).
  - (* parameters *)
    apply list_eqb_map. intros p Hp. unfold param_eq, norm_param, unqual_param. cbn [p_name p_ty p_kind p_opt p_mut].
    rewrite N.eqb_refl, pkind_eqb_refl, Bool.eqb_reflx.
    rewrite forallb_forall in Heq, Hmeq. specialize (Heq p Hp). specialize (Hmeq p Hp).
    destruct (Sp p Hp) as (St & _ & Sm).
    assert (Emut: opt_eq ty_eq (match p_mut p with Some m => Some (norm (ctx_plain c) m) | None => None end)
                               (match p_mut p with Some m => Some (unqual m) | None => None end) = true).
    { destruct (p_mut p) as [m|] eqn:Em; [|reflexivity]. cbn [opt_eq].
      destruct (Hmut p m Hp Em) as [Hwm _]. apply (reparse_equal_lemma env); assumption. }
    rewrite Emut. rewrite !andb_true_r.
    apply andb_true_iff in Heq. destruct Heq as [Et Hshown].
    unfold norm_pty, shown in *.
    destruct (elided c (p_name p) (p_ty p) (print_ty (ctx_param c) (p_ty p))).
    + rewrite orb_false_r in Hshown. destruct (p_ty p); try discriminate. reflexivity.
    + apply (reparse_equal_lemma env); [apply Hps; exact Hp | exact St | exact Et].
  - (* *args *)
    destruct (s_star s) as [[nm t]|] eqn:Es; [|reflexivity]. cbn [opt_eq].
    specialize (Hstar _ eq_refl). unfold star_shape_t in Estar. cbn [fst snd] in *.
    unfold star_eq, norm_star. cbn [fst snd].
    destruct Sstar as [Se _].
    destruct t; try discriminate.
    + cbn [container_elem]. rewrite elided_any. cbn [fst snd unqual ty_eq]. rewrite N.eqb_refl. exact Estar.
    + destruct ps as [|e [|e2 pr]]; try discriminate.
      apply andb_true_iff in Estar. destruct Estar as [Estar Ee]. apply andb_true_iff in Estar. destruct Estar as [En Enel].
      apply negb_true_iff in Enel. cbn [container_elem last] in *. rewrite Enel. cbn [fst snd unqual ty_eq map list_eqb].
      rewrite N.eqb_refl, En. cbn [andb]. rewrite andb_true_r.
      unfold wf_container in Hstar. cbn [snd last] in Hstar. apply andb_true_iff in Hstar. destruct Hstar as [Hwe _].
      apply (reparse_equal_lemma env); assumption.
  - (* **kwargs *)
    destruct (s_sstar s) as [[nm t]|] eqn:Es; [|reflexivity]. cbn [opt_eq].
    specialize (Hsstar _ eq_refl). unfold star_shape_d in Esstar. cbn [fst snd] in *.
    unfold star_eq, norm_sstar. cbn [fst snd].
    destruct Ssstar as [Se _].
    destruct t; try discriminate.
    + cbn [container_elem]. rewrite elided_any. cbn [fst snd unqual ty_eq]. rewrite N.eqb_refl. exact Esstar.
    + destruct ps as [|k [|e [|e3 pr]]]; try discriminate.
      apply andb_true_iff in Esstar. destruct Esstar as [Esstar Ee]. apply andb_true_iff in Esstar. destruct Esstar as [Esstar Enel].
      apply andb_true_iff in Esstar. destruct Esstar as [En Ek].
      apply negb_true_iff in Enel. cbn [container_elem last] in *. rewrite Enel. cbn [fst snd unqual ty_eq map list_eqb].
      rewrite N.eqb_refl, En. cbn [andb]. rewrite andb_true_r.
      unfold wf_container in Hsstar. cbn [snd last] in Hsstar. apply andb_true_iff in Hsstar. destruct Hsstar as [Hwe _].
      cbn [ty_eq unqual] in Ek. rewrite Ek. cbn [andb]. apply (reparse_equal_lemma env); assumption.
  - (* return type *)
    unfold norm_ret. rewrite Enn. apply (reparse_equal_lemma env); assumption.
Qed.

Lemma fsig_reparse_equal : forall env scope c nm f,
  wf_fsig env scope c f = true -> stable_fsig c nm f = true -> eq_stable_fsig c f = true ->
  fsig_eq (norm_fsig c nm f) (unqual_fsig f) = true.
Proof.
  intros env scope c nm [s excs] Hwf Hst Heq. unfold wf_fsig, stable_fsig, eq_stable_fsig in *. cbn [f_sig f_exc] in *.
  apply andb_true_iff in Hwf; destruct Hwf as [Hwf Hex]. apply andb_true_iff in Hst; destruct Hst as [Hss Hse].
  apply andb_true_iff in Heq; destruct Heq as [Heq Hee]. apply andb_true_iff in Heq; destruct Heq as [Hes Hem].
  unfold fsig_eq, norm_fsig, unqual_fsig. cbn [f_sig f_exc].
  rewrite (sig_reparse_equal_muts env scope c s Hwf Hss Hes Hem). cbn [andb].
  apply list_eqb_map. intros e He. rewrite forallb_forall in Hex, Hse, Hee.
  apply (reparse_equal_lemma env); auto.
Qed.

Lemma list_eqb_N_refl' : forall l, list_eqb N.eqb l l = true. Proof. exact list_eqb_N_refl. Qed.

Section FixedEq.
Variable fixed : bool.

Lemma func_reparse_equal : forall env scope c f,
  wf_func fixed env scope c f = true -> stable_func fixed c f = true -> eq_stable_func c f = true ->
  func_eq (norm_func fixed c f) (unqual_func f) = true.
Proof.
  intros env scope c f Hwf Hst Heq.
  destruct (wf_func_parts fixed env scope c f Hwf) as (_ & _ & Hsigs & _ & _).
  destruct (stable_func_parts fixed c f Hst) as (Hss & Hfc & _ & Hk).
  unfold eq_stable_func in Heq. apply andb_true_iff in Heq. destruct Heq as [Hes Hnp]. apply negb_true_iff in Hnp.
  destruct (flags_consistent_parts f Hfc) as (Hi & Hn & Hkn).
  assert (Esigs: list_eqb fsig_eq (map (norm_fsig c (fn_name f)) (fn_sigs f)) (map unqual_fsig (fn_sigs f)) = true).
  { apply list_eqb_map. intros s Hs. rewrite forallb_forall in Hsigs, Hss, Hes.
    apply (fsig_reparse_equal env scope c (fn_name f) s); auto. }
  rewrite (norm_func_bare fixed c f Hi Hn).
  destruct f as [nm sigs kind ab co fi X]. unfold bare. cbn [fn_name fn_sigs fn_kind fn_abs fn_cor fn_fin fn_decos] in *.
  assert (Hcond: match kind with
                 | KProp => negb (nm =? id_new)%N && negb (nm =? id_init_subclass)%N && fixed && negb fi
                 | KStatic => negb (nm =? id_init_subclass)%N
                 | KClass => negb (nm =? id_new)%N
                 | KMethod => negb (nm =? id_new)%N && negb (nm =? id_init_subclass)%N
                 end = true).
  { destruct kind; try exact Hkn. discriminate. }
  destruct (bare_decos fixed c nm sigs kind ab co fi Hcond) as (_ & Ekind & Eab & Eco & Efi & Edec).
  set (g := norm_func fixed c (mkFn nm sigs kind ab co fi [])) in *.
  unfold func_eq, with_decos, unqual_func. cbn [fn_name fn_sigs fn_kind fn_abs fn_cor fn_fin fn_decos].
  rewrite Ekind, Eab, Eco, Efi, Edec.
  change (fn_name g) with nm. change (fn_sigs g) with (map (norm_fsig c nm) sigs).
  rewrite N.eqb_refl, Esigs, !eqb_refl_b.
  assert (Ed: X ++ match kind with KProp => [id_property] | _ => [] end = X) by (destruct kind; try apply app_nil_r; discriminate).
  rewrite Ed, list_eqb_N_refl. destruct kind; reflexivity.
Qed.

Lemma const_reparse_equal : forall env c k, wf_const env k = true -> stable_const c k = true ->
  eq_stable (ctx_plain c) (k_ty k) = true -> const_eq (norm_const c k) (unqual_const k) = true.
Proof.
  intros env c k Hw Hs He. unfold wf_const in Hw. apply andb_true_iff in Hw. destruct Hw as [_ Hw].
  unfold const_eq, norm_const, unqual_const, stable_const in *. cbn [k_name k_ty k_val].
  rewrite N.eqb_refl, eqb_refl_b, (reparse_equal_lemma env (ctx_plain c) (k_ty k) Hw Hs He). reflexivity.
Qed.

Lemma kw_reparse_equal : forall env c kv, wf_kw env kv = true -> alias_eq (norm_kw c kv) (unqual_alias kv) = true.
Proof.
  intros env c [k t] H. unfold wf_kw in H. cbn [fst snd] in H. unfold alias_eq, norm_kw, unqual_alias. cbn [fst snd].
  rewrite N.eqb_refl. cbn [andb].
  destruct t as [n| | | |v| | | | |]; try discriminate.
  - cbn [norm unqual ty_eq]. apply name_eqb_refl.
  - destruct v as [|ic b| |]; try discriminate. cbn [norm unqual ty_eq pv]. apply lit_eqb_refl.
Qed.

Definition cls_equal (cl : cls) : Prop :=
  forall env scope nested, wf_cls fixed env scope nested cl = true -> stable_cls fixed cl = true -> eq_stable_cls cl = true ->
  cls_eq (norm_cls fixed cl) (unqual_cls cl) = true.

Theorem cls_reparse_equal : forall cl, cls_equal cl.
Proof.
  induction cl using cls_ind'. rename H into IH. unfold cls_equal. intros env scope nested Hwf Hst Heq.
  destruct (wf_cls_unfold fixed _ _ _ _ _ _ _ _ _ _ _ Hwf) as (Hn & Hb & Hk & Hdec & Hco & Hsl & Hm & Hnd & Hcl).
  cbn zeta in *. set (c := mkCtx false (Some n)) in *.
  set (sc := scope ++ flat_map tparams (norm_bases c n b)) in *.
  cbn [stable_cls] in Hst. fold c in Hst.
  apply andb_true_iff in Hst; destruct Hst as [Hst Scl]. apply andb_true_iff in Hst; destruct Hst as [Hst Sm].
  apply andb_true_iff in Hst; destruct Hst as [Sb Sk].
  cbn [eq_stable_cls] in Heq. fold c in Heq.
  apply andb_true_iff in Heq; destruct Heq as [Heq Ecl]. apply andb_true_iff in Heq; destruct Heq as [Heq Em].
  apply andb_true_iff in Heq; destruct Heq as [Heq Ek]. apply andb_true_iff in Heq; destruct Heq as [Heq Ed].
  apply andb_true_iff in Heq; destruct Heq as [Heq Enobj]. apply andb_true_iff in Heq; destruct Heq as [Eb Ebne].
  apply negb_true_iff in Enobj.
  set (ms' := map (norm_func fixed c) ms).
  assert (Eprops: filter const_property ms' = []).
  { unfold ms'. clear - Sm. induction ms as [|f r IHr]; [reflexivity|]. cbn [forallb] in Sm. apply andb_true_iff in Sm. destruct Sm as [Sf Sr].
    destruct (stable_func_parts fixed c f Sf) as (_ & _ & Hc & _). cbn [map filter]. rewrite Hc. apply IHr. exact Sr. }
  assert (Emeth: filter (fun f => negb (const_property f)) ms' = ms').
  { apply filter_all. unfold ms'. rewrite forallb_forall. intros g Hg. apply in_map_iff in Hg. destruct Hg as (f & <- & Hf).
    rewrite forallb_forall in Sm. destruct (stable_func_parts fixed c f (Sm f Hf)) as (_ & _ & Hc & _). rewrite Hc. reflexivity. }
  cbn [norm_cls unqual_cls cls_eq c_name c_bases c_kws c_decos c_slots c_classes c_consts c_methods]. fold c. fold ms'.
  rewrite Eprops, Emeth. cbn [map]. rewrite app_nil_r.
  rewrite N.eqb_refl. rewrite (dedup_nodup _ _ Ed), list_eqb_N_refl.
  (* bases *)
  assert (Ebases: list_eqb ty_eq (norm_bases c n b) (map unqual b) = true).
  { assert (Hone: forall t, In t b -> wf env t = true /\ stable (ctx_plain c) t = true /\ is_nothing (norm (ctx_plain c) t) = false).
    { intros t Ht. rewrite forallb_forall in Hb, Sb. specialize (Hb t Ht). specialize (Sb t Ht).
      unfold wf_base in Hb. apply andb_true_iff in Hb. destruct Hb as [Hw Hsh]. apply andb_true_iff in Sb. destruct Sb as [Hnn Hs].
      repeat split; try assumption. destruct t; try discriminate; try reflexivity.
      cbn [norm]. destruct (tokens_eqb _ _); [reflexivity|]. destruct (name_eqb _ _); reflexivity. }
    assert (Hall: forall l, (forall t, In t l -> In t b) -> l <> [] ->
              list_eqb ty_eq (final_bases n (map (norm (ctx_plain c)) l)) (map unqual l) = true).
    { intros l Hl Hne. unfold final_bases.
      assert (Ef: filter (fun t => negb (is_nothing t)) (map (norm (ctx_plain c)) l) = map (norm (ctx_plain c)) l).
      { apply filter_all. rewrite forallb_forall. intros t Ht. apply in_map_iff in Ht. destruct Ht as (t0 & <- & Ht0).
        destruct (Hone t0 (Hl t0 Ht0)) as (_ & _ & Hx). rewrite Hx. reflexivity. }
      rewrite Ef. destruct l as [|l0 lr]; [congruence|].
      change (match map (norm (ctx_plain c)) (l0 :: lr) with [] => if (n =? id_object)%N then [] else [Named (NP id_object)] | t :: l1 => t :: l1 end)
        with (map (norm (ctx_plain c)) (l0 :: lr)).
      apply list_eqb_map. intros t Ht. destruct (Hone t (Hl t Ht)) as (Hw & Hs & _).
      rewrite forallb_forall in Eb. apply (reparse_equal_lemma env); auto. }
    rewrite norm_bases_kept. unfold kept_bases.
    destruct b as [|b0 [|b1 br]].
    - discriminate.
    - destruct (tokens_eqb (print_ty (ctx_plain c) b0) [TName id_object]) eqn:Eo.
      + (* the single base prints as `object`: the reader puts object back *)
        destruct (Hone b0 (or_introl eq_refl)) as (Hw0 & _ & _).
        apply tokens_eqb_true in Eo. rewrite forallb_forall in Hb. specialize (Hb b0 (or_introl eq_refl)).
        unfold wf_base in Hb. apply andb_true_iff in Hb. destruct Hb as [_ Hsh].
        destruct b0 as [nn| | | | |bb ps| | | |]; try discriminate.
        * cbn [print_ty] in Eo. unfold print_name in Eo. destruct (name_id nn =? id_NoneType)%N eqn:En; [discriminate|].
          injection Eo as Eo. cbn [map final_bases filter]. cbn [wf] in Hw0.
          destruct nn as [i|i|i]; cbn [name_id] in Eo; subst i.
          -- rewrite Enobj. reflexivity.
          -- cbn [wf_name] in Hw0. vm_compute in Hw0. discriminate.
          -- rewrite Enobj. reflexivity.
        * exfalso. cbn [print_ty] in Eo. destruct (tokens_eqb (print_name bb) [TName id_tuple]); [|destruct (name_eqb bb (NT id_Callable))];
            unfold sub in Eo; apply (f_equal (@length token)) in Eo; rewrite app_length in Eo; cbn [length] in Eo;
            rewrite app_length in Eo; cbn [length] in Eo; unfold print_name in Eo; destruct (name_id bb =? id_NoneType)%N; cbn [length] in Eo; lia.
      + apply Hall; [intros t Ht; exact Ht|discriminate].
    - apply Hall; [intros t Ht; exact Ht|discriminate]. }
  rewrite Ebases.
  assert (Ekws: list_eqb alias_eq (map (norm_kw c) k) (map unqual_alias k) = true).
  { apply list_eqb_map. intros kv Hkv. rewrite forallb_forall in Hk. apply (kw_reparse_equal env c kv (Hk kv Hkv)). }
  rewrite Ekws.
  assert (Eslots: opt_eq (list_eqb N.eqb) s s = true) by (destruct s; [apply list_eqb_N_refl|reflexivity]).
  rewrite Eslots.
  assert (Ecs: list_eqb cls_eq (map (norm_cls fixed) cs) (map unqual_cls cs) = true).
  { clear - IH Hcl Scl Ecl. revert Hcl Scl Ecl. induction IH as [|x r Hx _ IHr]; intros Hcl Scl Ecl; [reflexivity|].
    cbn [forallb] in *. apply andb_true_iff in Hcl. apply andb_true_iff in Scl. apply andb_true_iff in Ecl.
    destruct Hcl as [Hx1 Hr1]. destruct Scl as [Hx2 Hr2]. destruct Ecl as [Hx3 Hr3].
    cbn [map list_eqb]. rewrite (Hx _ _ _ Hx1 Hx2 Hx3). apply (IHr Hr1 Hr2 Hr3). }
  rewrite Ecs.
  assert (Eks: list_eqb const_eq (map (norm_const c) ks) (map unqual_const ks) = true).
  { apply list_eqb_map. intros k0 Hk0. rewrite forallb_forall in Hco, Sk, Ek.
    apply (const_reparse_equal env c k0 (Hco k0 Hk0) (Sk k0 Hk0) (Ek k0 Hk0)). }
  rewrite Eks.
  assert (Ems: list_eqb func_eq ms' (map unqual_func ms) = true).
  { unfold ms'. apply list_eqb_map. intros f Hf. rewrite forallb_forall in Hm, Sm, Em.
    apply (func_reparse_equal env sc c f (Hm f Hf) (Sm f Hf) (Em f Hf)). }
  rewrite Ems. reflexivity.
Qed.
End FixedEq.

Section FixedEqUnit.
Variable fixed : bool.

Theorem unit_reparse_equal_lemma : forall u,
  wf_unit fixed u = true -> stable_unit fixed u = true -> eq_stable_unit u = true ->
  unit_eq (norm_unit fixed u) (unqual_unit u) = true.
Proof.
  intros u Hwf Hst Heq. destruct (wf_unit_parts fixed u Hwf) as (Htp & Hal & Hco & Hcl & Hfn & _ & _). cbn zeta in *.
  set (env := map tp_name (sort_tps (u_tparams u))) in *.
  unfold stable_unit in Hst.
  apply andb_true_iff in Hst; destruct Hst as [Hst Sfn]. apply andb_true_iff in Hst; destruct Hst as [Hst Scl].
  apply andb_true_iff in Hst; destruct Hst as [Hst Sco]. apply andb_true_iff in Hst; destruct Hst as [Stp Sal].
  unfold eq_stable_unit in Heq.
  apply andb_true_iff in Heq; destruct Heq as [Heq Efn]. apply andb_true_iff in Heq; destruct Heq as [Heq Ecl].
  apply andb_true_iff in Heq; destruct Heq as [Heq Eco]. apply andb_true_iff in Heq; destruct Heq as [Heq Eal].
  apply andb_true_iff in Heq; destruct Heq as [Esort Etp].
  destruct (wf_aliases_filter env (u_aliases u) Hal) as [Ea1 Ea2].
  unfold norm_unit, unqual_unit, unit_eq. rewrite Ea1, Ea2. cbn [map app u_tparams u_aliases u_consts u_classes u_funcs].
  rewrite (sort_tps_id _ Esort).
  assert (E1: list_eqb tparam_eq (map (norm_tparam plain0) (u_tparams u)) (map unqual_tparam (u_tparams u)) = true).
  { apply list_eqb_map. intros t Ht. rewrite forallb_forall in Htp, Stp, Etp.
    destruct (wf_tparam_parts env t (Htp t Ht)) as [Hc Hb].
    specialize (Stp t Ht). unfold stable_tparam in Stp. apply andb_true_iff in Stp. destruct Stp as [Sc Sb].
    specialize (Etp t Ht). unfold eq_stable_tparam in Etp. apply andb_true_iff in Etp. destruct Etp as [Ec Eb].
    unfold tparam_eq, norm_tparam, unqual_tparam. cbn [tp_name tp_lit tp_cons tp_bound]. change (ctx_plain plain0) with plain0.
    rewrite !N.eqb_refl. cbn [andb].
    assert (Econs: list_eqb ty_eq (map (norm plain0) (tp_cons t)) (map unqual (tp_cons t)) = true).
    { apply list_eqb_map. intros x Hx. rewrite forallb_forall in Hc, Sc, Ec. apply (reparse_equal_lemma env); auto. }
    rewrite Econs. cbn [andb]. destruct (tp_bound t) as [b|]; [|reflexivity]. cbn [opt_eq].
    apply (reparse_equal_lemma env); auto. }
  assert (E2: list_eqb alias_eq (map (norm_alias plain0) (u_aliases u)) (map unqual_alias (u_aliases u)) = true).
  { apply list_eqb_map. intros a Ha. rewrite forallb_forall in Hal, Sal, Eal.
    specialize (Hal a Ha). unfold wf_alias in Hal. apply andb_true_iff in Hal; destruct Hal as [Hal _].
    apply andb_true_iff in Hal; destruct Hal as [Hal _]. apply andb_true_iff in Hal; destruct Hal as [_ Hw].
    unfold alias_eq, norm_alias, unqual_alias. cbn [fst snd]. change (ctx_plain plain0) with plain0. rewrite N.eqb_refl. cbn [andb].
    apply (reparse_equal_lemma env); auto. }
  assert (E3: list_eqb const_eq (map (norm_const plain0) (u_consts u)) (map unqual_const (u_consts u)) = true).
  { apply list_eqb_map. intros k Hk. rewrite forallb_forall in Hco, Sco, Eco.
    apply (const_reparse_equal env plain0 k (Hco k Hk) (Sco k Hk)). change (ctx_plain plain0) with plain0. apply Eco. exact Hk. }
  assert (E4: list_eqb cls_eq (map (norm_cls fixed) (u_classes u)) (map unqual_cls (u_classes u)) = true).
  { apply list_eqb_map. intros x Hx. rewrite forallb_forall in Hcl, Scl, Ecl.
    apply (cls_reparse_equal fixed x env [] false (Hcl x Hx) (Scl x Hx) (Ecl x Hx)). }
  assert (E5: list_eqb func_eq (map (norm_func fixed plain0) (u_funcs u)) (map unqual_func (u_funcs u)) = true).
  { apply list_eqb_map. intros f Hf. rewrite forallb_forall in Hfn, Sfn, Efn.
    apply (func_reparse_equal fixed env [] plain0 f (Hfn f Hf) (Sfn f Hf) (Efn f Hf)). }
  rewrite E1, E2, E3, E4, E5. reflexivity.
Qed.
End FixedEqUnit.
