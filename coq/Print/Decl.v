(* C05 model, declarations: token/line-level model of PrintVisitor's declaration methods (pytype/pytd/printer.py
   VisitConstant, VisitAlias, _FormatTypeParams, VisitFunction, VisitSignature's body lines, VisitClass,
   VisitTypeDeclUnit) and of the stub reader's definition handling restricted to what the printer emits
   (pytype/pyi/parser.py _GeneratePytdVisitor: _ann_assign, _bare_assign, visit_Call for TypeVar, visit_Raise,
   _extract_function_properties, visit_ClassDef; pyi/function.py NameAndSig.from_function; pytd/codegen/function.py
   pytd_return_type, merge_method_signatures, _DecoratedFunction; pyi/classdef.py get_bases/get_keywords;
   pyi/definitions.py _split_definitions, build_class, build_type_decl_unit, finalize_ast = _PropertyToConstant,
   _InsertTypeParams (insert-type-params visitor), _VerifyMutators).
   A stub is a list of statements: a statement is one logical line (its tokens; a `def` carries its indented body
   lines behind TNewline tokens, as in Model.v), a blank line, or a `class` header line with its indented suite.
   The block structure (indentation -> suite) is CPython's tokenizer/ast.parse and is not modelled; the harness
   rebuilds it from the indentation of the real text.  Keywords (`def`, `class`, `raise`, `@`) are TName tokens
   with reserved ids.  Not modelled (end-to-end oracle only): the import block and alias-collision renaming,
   ParamSpec / TypeVar defaults, typing.Self, NamedTuple/TypedDict forms, aliases inside class bodies, alias
   expansion of names that are aliases of the same stub (Definitions.type_map) and alias resolution through local
   classes (_maybe_resolve_alias), `last definition wins` for repeated names (the model rejects repeated names),
   setter/deleter property decorators, the dotted `Outer.Inner` spelling of an annotated self/cls in nested classes.
   Definitions only (no proofs). *)
From Coq Require Import List BinNat BinInt Bool Arith.
From PV Require Import Print.Model.
Import ListNotations.

(* ------------------------------------------------------------------------------------------------ *)
(* reserved identifiers (harness/props/c05_gen.py must agree) *)
Definition id_def : N := 22.
Definition id_class : N := 23.
Definition id_raise : N := 24.
Definition id_at : N := 25.              (* the operator "@" *)
Definition id_object : N := 26.
Definition id_metaclass : N := 27.
Definition id_total : N := 28.
Definition id_slots : N := 29.           (* __slots__ *)
Definition id_bound : N := 30.
(* members of typing (inside the 32..63 pool of Model.is_typing) *)
Definition id_TypeVar : N := 46.
Definition id_overload : N := 47.
Definition id_final : N := 48.
(* ordinary names with a meaning for the reader *)
Definition id_staticmethod : N := 64.
Definition id_classmethod : N := 65.
Definition id_property : N := 66.
Definition id_abstractmethod : N := 67.
Definition id_coroutine : N := 68.
Definition id_new : N := 69.             (* __new__ *)
Definition id_init_subclass : N := 70.   (* __init_subclass__ *)
Definition id_init : N := 71.            (* __init__ *)
Definition id_getattr : N := 72.         (* __getattr__ *)
Definition id_property_str : N := 73.    (* the string literal 'property' *)

Definition mem (i : N) (l : list N) : bool := existsb (N.eqb i) l.

(* ------------------------------------------------------------------------------------------------ *)
(* declarations *)

Record const := mkK { k_name : N; k_ty : ty; k_val : bool }.           (* pytd.Constant; value is None or Any *)
Record tparam := mkTP { tp_name : N; tp_lit : N;                        (* tp_lit: the string-literal token 'T' *)
                        tp_cons : list ty; tp_bound : option ty }.      (* pytd type variable *)
Record fsig := mkF { f_sig : sig; f_exc : list ty }.                    (* pytd.Signature with its exceptions *)
Inductive mkind := KMethod | KStatic | KClass | KProp.                  (* pytd.MethodKind *)
Definition mkind_eqb (a b : mkind) : bool :=
  match a, b with KMethod, KMethod | KStatic, KStatic | KClass, KClass | KProp, KProp => true | _, _ => false end.
Record func := mkFn { fn_name : N; fn_sigs : list fsig; fn_kind : mkind;
                      fn_abs : bool; fn_cor : bool; fn_fin : bool;      (* MethodFlag *)
                      fn_decos : list N }.                              (* names of the explicit decorators *)
Inductive cls :=
| mkCls (name : N) (bases : list ty) (kws : list (N * ty)) (decos : list N) (slots : option (list N))
        (classes : list cls) (consts : list const) (methods : list func).
Definition c_name (c : cls) := match c with mkCls n _ _ _ _ _ _ _ => n end.
Definition c_bases (c : cls) := match c with mkCls _ b _ _ _ _ _ _ => b end.
Definition c_kws (c : cls) := match c with mkCls _ _ k _ _ _ _ _ => k end.
Definition c_decos (c : cls) := match c with mkCls _ _ _ d _ _ _ _ => d end.
Definition c_slots (c : cls) := match c with mkCls _ _ _ _ s _ _ _ => s end.
Definition c_classes (c : cls) := match c with mkCls _ _ _ _ _ l _ _ => l end.
Definition c_consts (c : cls) := match c with mkCls _ _ _ _ _ _ k _ => k end.
Definition c_methods (c : cls) := match c with mkCls _ _ _ _ _ _ _ m => m end.
Record unit_ := mkU { u_tparams : list tparam; u_aliases : list (N * ty); u_consts : list const;
                      u_classes : list cls; u_funcs : list func }.      (* pytd.TypeDeclUnit *)

Inductive stmt :=
| SLine (ts : list token)
| SBlank
| SClass (hdr : list token) (body : list stmt).

Definition plain0 : ctx := mkCtx false None.

(* ------------------------------------------------------------------------------------------------ *)
(* printer.py: one-line declarations *)

(* VisitConstant: f"{node.name}: {node.type}{suffix}" *)
Definition print_const (c : ctx) (k : const) : list token :=
  TName (k_name k) :: TColon :: print_ty (ctx_plain c) (k_ty k) ++ (if k_val k then [TEq; TEllipsis] else []).

(* VisitAlias, last branch: f"{node.name} = {node.type}" *)
Definition print_alias (c : ctx) (a : N * ty) : list token :=
  TName (fst a) :: TEq :: print_ty (ctx_plain c) (snd a).

(* _FormatTypeParams: f"{t.name} = TypeVar('{t.name}', constraints..., bound=...)" *)
Definition print_tparam (c : ctx) (t : tparam) : list token :=
  TName (tp_name t) :: TEq :: TName id_TypeVar :: TLPar :: TStr (tp_lit t)
  :: flat_map (fun x => TComma :: print_ty (ctx_plain c) x) (tp_cons t)
  ++ (match tp_bound t with Some b => TComma :: TName id_bound :: TEq :: print_ty (ctx_plain c) b | None => [] end)
  ++ [TRPar].

(* sorted(formatted_type_params): the strings start with the name, so this is the order of the names; the
   harness allocates the ids of TypeVar names in string order (checked there) *)
Fixpoint insert_tp (t : tparam) (l : list tparam) : list tparam :=
  match l with
  | [] => [t]
  | x :: r => if (tp_name t <=? tp_name x)%N then t :: x :: r else x :: insert_tp t r
  end.
Definition sort_tps (l : list tparam) : list tparam := fold_right insert_tp [] l.

(* ------------------------------------------------------------------------------------------------ *)
(* printer.py: functions *)

(* VisitSignature without the body (Model.print_sig = sig_head ++ print_body) *)
Definition sig_head (c : ctx) (s : sig) : list token :=
  let ret := print_ty (ctx_plain c) (s_ret s) in
  let ret' := if tokens_eqb ret [TName id_nothing] then [TName id_Never] else ret in
  let star := match s_star s with Some st => Some (print_container c st) | None => None end in
  let ps := params_loop c (s_params s) star
            ++ match s_sstar s with Some st => [TDStar :: print_container c st] | None => [] end in
  TLPar :: sep ps ++ [TRPar; TArrow] ++ ret' ++ [TColon].

Definition mut_lines (c : ctx) (ps : list param) : list token :=
  flat_map (fun p => match p_mut p with
                     | Some m => TNewline :: TName (p_name p) :: TEq :: print_ty (ctx_plain c) m
                     | None => []
                     end) ps.
(* body.append(f"\n{INDENT}raise {exc}()") *)
Definition raise_lines (c : ctx) (excs : list ty) : list token :=
  flat_map (fun e => TNewline :: TName id_raise :: print_ty (ctx_plain c) e ++ [TLPar; TRPar]) excs.
Definition print_fbody (c : ctx) (ps : list param) (excs : list ty) : list token :=
  match mut_lines c ps ++ raise_lines c excs with
  | [] => [TEllipsis]
  | b => b
  end.
Definition print_fsig (c : ctx) (f : fsig) : list token :=
  sig_head c (f_sig f) ++ print_fbody c (s_params (f_sig f)) (f_exc f).

Definition deco_line (d : N) : list token := [TName id_at; TName d].

(* Two variants of VisitFunction: as written (fixed = false), and with fixes/C05-property-decorator-printed-twice.patch
   (fixed = true: "@property" is not added when the explicit decorators already contain it).  The check probes the tree
   under test with the reproducer and runs the variant that tree implements. *)
Section Fixed.
Variable fixed : bool.

(* the decorator names VisitFunction puts in front of every signature, in order *)
Definition printed_decos (f : func) : list N :=
  dedup N.eqb (fn_decos f)                                                    (* utils.unique_list *)
  ++ (if fn_fin f then [id_final] else [])
  ++ (match fn_kind f with
      | KStatic => if (fn_name f =? id_new)%N then [] else [id_staticmethod]
      | KClass => if (fn_name f =? id_init_subclass)%N then [] else [id_classmethod]
      | KProp => if fixed && mem id_property (fn_decos f) then [] else [id_property]
      | KMethod => []
      end)
  ++ (if fn_abs f then [id_abstractmethod] else [])
  ++ (if fn_cor f then [id_coroutine] else [])
  ++ (if (1 <? length (fn_sigs f))%nat then [id_overload] else []).

Definition print_def (c : ctx) (nm : N) (s : fsig) : list token :=
  TName id_def :: TName nm :: print_fsig c s.

(* VisitFunction: one group of lines per signature *)
Definition print_func (c : ctx) (f : func) : list (list token) :=
  flat_map (fun s => map deco_line (printed_decos f) ++ [print_def c (fn_name f) s]) (fn_sigs f).

(* ------------------------------------------------------------------------------------------------ *)
(* printer.py: classes and units *)

Definition is_nil {A} (l : list A) : bool := match l with [] => true | _ => false end.

(* keywords.append(f"{k}={vprint}") with the Literal[...] wrapper stripped by the regex *)
Definition print_kw (c : ctx) (kv : N * ty) : list token :=
  let v := print_ty (ctx_plain c) (snd kv) in
  TName (fst kv) :: TEq :: match match_literal v with Some (x :: r) => x :: r | _ => v end.

Definition class_header (c : ctx) (cl : cls) (has_body : bool) : list token :=
  let bases := map (print_ty (ctx_plain c)) (c_bases cl) in
  let bases' := match bases with [b] => if tokens_eqb b [TName id_object] then [] else bases | _ => bases end in
  let args := bases' ++ map (print_kw c) (c_kws cl) in
  TName id_class :: TName (c_name cl)
  :: (match args with [] => [] | _ => TLPar :: sep args ++ [TRPar] end)
  ++ TColon :: (if has_body then [] else [TEllipsis]).

Definition slots_line (sl : list N) : list token :=
  TName id_slots :: TEq :: TLBr :: sep (map (fun s => [TStr s]) sl) ++ [TRBr].

Definition has_body (cl : cls) : bool :=
  negb (is_nil (c_classes cl)) || negb (is_nil (c_methods cl)) || negb (is_nil (c_consts cl)) ||
  match c_slots cl with Some _ => true | None => false end.

(* VisitClass: lines = decorators + header + slots + classes + constants + methods *)
Fixpoint print_cls (cl : cls) : list stmt :=
  let c := mkCtx false (Some (c_name cl)) in
  let inner :=
    (match c_slots cl with Some sl => [SLine (slots_line sl)] | None => [] end)
    ++ flat_map print_cls (c_classes cl)
    ++ map (fun k => SLine (print_const c k)) (c_consts cl)
    ++ map SLine (flat_map (print_func c) (c_methods cl)) in
  map (fun d => SLine (deco_line d)) (dedup N.eqb (c_decos cl))
  ++ [if has_body cl then SClass (class_header c cl true) inner else SLine (class_header c cl false)].

Fixpoint join_blank (secs : list (list stmt)) : list stmt :=
  match secs with
  | [] => []
  | [s] => s
  | s :: r => s ++ SBlank :: join_blank r
  end.

(* VisitTypeDeclUnit without the import section: TypeVars, aliases, constants, classes, functions; one blank
   line between sections and between classes *)
Definition print_unit (u : unit_) : list stmt :=
  let c := plain0 in
  let secs := [ map (fun t => SLine (print_tparam c t)) (sort_tps (u_tparams u));
                map (fun a => SLine (print_alias c a)) (u_aliases u);
                map (fun k => SLine (print_const c k)) (u_consts u);
                join_blank (map print_cls (u_classes u));
                map SLine (flat_map (print_func c) (u_funcs u)) ] in
  join_blank (filter (fun s => negb (is_nil s)) secs).

(* ------------------------------------------------------------------------------------------------ *)
(* the reader: function bodies and signatures *)

(* NAME "=" ... : an assignment line, a keyword argument of a call or of a class statement *)
Definition is_kwarg (ts : list token) : option (N * list token) :=
  match ts with TName k :: TEq :: r => Some (k, r) | _ => None end.

Inductive bline := BMut (nm : N) (e : expr) | BRaise (e : expr).

(* NEWLINE name "=" expr  |  NEWLINE "raise" expr ["(" ")"] *)
Fixpoint parse_fbody (fuel : nat) (ts : list token) : option (list bline) :=
  match fuel with
  | O => None
  | S f =>
    match ts with
    | [] => Some []
    | TNewline :: r0 =>
        match is_kwarg r0 with
        | Some (nm, r) =>
            match parse_expr (S (length r)) r with
            | Some (e, r') => match parse_fbody f r' with Some b => Some (BMut nm e :: b) | None => None end
            | None => None
            end
        | None =>
            match r0 with
            | TName k :: r =>
                if (k =? id_raise)%N then
                  match parse_expr (S (length r)) r with
                  | Some (e, TLPar :: TRPar :: r') =>
                      match parse_fbody f r' with Some b => Some (BRaise e :: b) | None => None end
                  | Some (e, r') =>
                      match parse_fbody f r' with Some b => Some (BRaise e :: b) | None => None end
                  | None => None
                  end
                else None
            | _ => None
            end
        end
    | _ => None
    end
  end.

Definition body_muts (b : list bline) : list (N * expr) :=
  flat_map (fun x => match x with BMut n e => [(n, e)] | BRaise _ => [] end) b.
Definition body_excs (b : list bline) : list expr :=
  flat_map (fun x => match x with BRaise e => [e] | BMut _ _ => [] end) b.

(* pytd_return_type consults the function name (`nm` below) only when the return annotation is missing or already an
   AnythingType node; a def line of the dialect always has `-> T`, and `Any` is still NamedType("typing.Any") at that
   point, so the declared return type is kept (checked on the real reader: `def __init__(self) -> Any` stays Any) *)

(* function.py NameAndSig.from_function + _pytd_signature, after the syntax: parameters, return type, exceptions,
   mutators (the implicit one for a generic self last).  _VerifyMutators runs later, on the merged function. *)
Definition sem_fsig (env : penv) (nm : N) (its : list item) (re : expr) (body : list bline) : option fsig :=
  match build_rsig 0 (mkRS [] [] None [] None) false its with
  | Some rs =>
      if defaults_ok false (rs_pos rs ++ rs_reg rs) then
        match mapM (conv_param env PosOnly) (rs_pos rs),
              mapM (conv_param env Regular) (rs_reg rs),
              mapM (conv_param env KwOnly) (rs_kw rs),
              conv_star env (rs_star rs), conv_sstar env (rs_sstar rs),
              conv env re,
              mapM (fun m => match conv env (snd m) with
                             | Some t => Some (fst m, t) | None => None end) (body_muts body),
              mapM (conv env) (body_excs body) with
        | Some pp, Some pr, Some pk, Some st, Some sst, Some ret, Some ms, Some excs =>
            let s0 := mkSig (pp ++ pr ++ pk) st sst ret in
            let selfm :=
              match first_param rs, pp ++ pr ++ pk with
              | Some fp, q :: _ =>
                  if (r_name fp =? id_self)%N &&
                     match r_ann fp with Some e => expr_is_generic e | None => false end
                  then [(id_self, p_ty q)] else []
              | _, _ => []
              end in
            match apply_mutators s0 (ms ++ selfm) with
            | Some s1 => Some (mkF s1 excs)
            | None => None
            end
        | _, _, _, _, _, _, _, _ => None
        end
      else None
  | None => None
  end.

(* "(" items ")" "->" expr ":" body *)
Definition parse_fsig (env : penv) (nm : N) (ts : list token) : option fsig :=
  match ts with
  | TLPar :: r =>
      let after_params :=
        match r with
        | TRPar :: r' => Some ([], r')
        | _ => match parse_items (S (length r)) r with
               | Some (its, TRPar :: r') => Some (its, r')
               | _ => None
               end
        end in
      match after_params with
      | Some (its, TArrow :: r1) =>
          match parse_expr (S (length r1)) r1 with
          | Some (re, TColon :: r2) =>
              let body := match r2 with
                          | [TEllipsis] => Some []
                          | [] => None
                          | _ => parse_fbody (S (length r2)) r2
                          end in
              match body with
              | Some b => sem_fsig env nm its re b
              | None => None
              end
          | _ => None
          end
      | _ => None
      end
  | _ => None
  end.

(* ------------------------------------------------------------------------------------------------ *)
(* the reader: decorators and overload merging *)

Record rdef := mkRD { rd_name : N; rd_fsig : fsig; rd_decos : list N;      (* function.NameAndSig *)
                      rd_abs : bool; rd_cor : bool; rd_fin : bool }.

(* _extract_function_properties: the pseudo-decorators are removed from the list *)
Definition is_flag_deco (d : N) : bool :=
  (d =? id_abstractmethod)%N || (d =? id_coroutine)%N || (d =? id_final)%N || (d =? id_overload)%N.
Definition count_distinct_kinds (ds : list N) : nat :=
  (if mem id_property ds then 1 else 0) + (if mem id_staticmethod ds then 1 else 0) +
  (if mem id_classmethod ds then 1 else 0).

Definition mk_rdef (nm : N) (decos : list N) (s : fsig) : option rdef :=
  let rest := filter (fun d => negb (is_flag_deco d)) decos in
  if (1 <? count_distinct_kinds rest)%nat then None          (* "at most one of property, staticmethod, classmethod" *)
  else Some (mkRD nm s rest (mem id_abstractmethod decos) (mem id_coroutine decos) (mem id_final decos)).

Record dfun := mkDF { df_name : N; df_sigs : list fsig; df_abs : bool; df_cor : bool; df_fin : bool;
                      df_decos : list N; df_prop : bool }.   (* codegen/function.py _DecoratedFunction *)

(* add_property for a getter: 1 must lie between the number of required and the number of all parameters *)
Definition getter_arity_ok (s : sig) : bool :=
  (length (filter (fun p => negb (p_opt p)) (s_params s)) <=? 1)%nat && (1 <=? length (s_params s))%nat.

(* _DecoratedFunction.make + __post_init__ *)
Definition make_df (d : rdef) : option dfun :=
  let props := filter (N.eqb id_property) (rd_decos d) in
  match props with
  | [] => Some (mkDF (rd_name d) [rd_fsig d] (rd_abs d) (rd_cor d) (rd_fin d) (rd_decos d) false)
  | [_] => if getter_arity_ok (f_sig (rd_fsig d))
           then Some (mkDF (rd_name d) [rd_fsig d] (rd_abs d) (rd_cor d) (rd_fin d) (rd_decos d) true)
           else None
  | _ => None                                              (* "conflicting decorators property, property" *)
  end.

(* add_overload + _check_overload_consistency; a second getter is always an error *)
Definition add_overload (a : dfun) (d : rdef) : option dfun :=
  if df_prop a then None
  else if Bool.eqb (df_cor a) (rd_cor d) && Bool.eqb (df_fin a) (rd_fin d) &&
          Bool.eqb (mem id_staticmethod (df_decos a)) (mem id_staticmethod (rd_decos d)) &&
          Bool.eqb (mem id_classmethod (df_decos a)) (mem id_classmethod (rd_decos d)) &&
          Bool.eqb (df_abs a) (rd_abs d)
       then Some (mkDF (df_name a) (df_sigs a ++ [rd_fsig d]) (df_abs a) (df_cor a) (df_fin a) (df_decos a) false)
       else None.

(* functions[fn.name] in an insertion-ordered dict *)
Fixpoint add_def (acc : list dfun) (d : rdef) : option (list dfun) :=
  match acc with
  | [] => match make_df d with Some x => Some [x] | None => None end
  | a :: r => if (df_name a =? rd_name d)%N
              then match add_overload a d with Some a' => Some (a' :: r) | None => None end
              else match add_def r d with Some r' => Some (a :: r') | None => None end
  end.
Fixpoint merge_defs (acc : list dfun) (ds : list rdef) : option (list dfun) :=
  match ds with
  | [] => Some acc
  | d :: r => match add_def acc d with Some acc' => merge_defs acc' r | None => None end
  end.

(* the second loop of merge_method_signatures *)
Definition finish_df (a : dfun) : func :=
  let st := mem id_staticmethod (df_decos a) in
  let cm := mem id_classmethod (df_decos a) in
  let decos := filter (fun d => negb ((d =? id_staticmethod)%N || (d =? id_classmethod)%N)) (df_decos a) in
  let kind := if (df_name a =? id_new)%N || st then KStatic
              else if (df_name a =? id_init_subclass)%N || cm then KClass
              else if df_prop a then KProp else KMethod in
  mkFn (df_name a) (df_sigs a) kind (df_abs a) (df_cor a) (df_fin a) decos.

(* _VerifyMutators.EnterFunction/the per-param hook: the type parameters of all signatures are in scope *)
Definition verify_func (scope : list N) (f : func) : bool :=
  let sc := scope ++ flat_map (fun s => sig_tparams (f_sig s)) (fn_sigs f) in
  forallb (fun s => verify_mutators sc (f_sig s)) (fn_sigs f).

Definition merge_funcs (ds : list rdef) : option (list func) :=
  match merge_defs [] ds with
  | Some l => Some (map finish_df l)
  | None => None
  end.

(* ------------------------------------------------------------------------------------------------ *)
(* the reader: statements *)

Inductive ditem :=
| DConst (k : const) | DAlias (a : N * ty) | DTvar (t : tparam) | DSlots (l : list N)
| DDef (d : rdef) | DCls (c : cls).

(* TypeVar( 'T' {, constraint} [, bound = type] ) *)
Fixpoint parse_tvar_args (env : penv) (fuel : nat) (ts : list token) : option (list ty * option ty) :=
  match fuel with
  | O => None
  | S f =>
    match ts with
    | [TRPar] => Some ([], None)
    | TComma :: r =>
        match is_kwarg r with
        | Some (k, r1) =>
            if (k =? id_bound)%N then
              match parse_expr (S (length r1)) r1 with
              | Some (e, [TRPar]) => match conv env e with Some b => Some ([], Some b) | None => None end
              | _ => None
              end
            else None
        | None =>
            match parse_expr (S (length r)) r with
            | Some (e, r') =>
                match conv env e, parse_tvar_args env f r' with
                | Some t, Some (cs, b) => Some (t :: cs, b)
                | _, _ => None
                end
            | None => None
            end
        end
    | _ => None
    end
  end.

Definition str_args (es : list expr) : option (list N) :=
  mapM (fun e => match e with EStr i => Some i | _ => None end) es.

(* a simple statement: _ann_assign / _bare_assign (new_alias_or_constant) / TypeVar / __slots__ *)
Definition parse_simple (env : penv) (in_class : bool) (ts : list token) : option ditem :=
  match ts with
  | TName n :: TColon :: r =>
      match parse_expr (S (length r)) r with
      | Some (e, []) => match conv env e with Some t => Some (DConst (mkK n t false)) | None => None end
      | Some (e, [TEq; TEllipsis]) => match conv env e with Some t => Some (DConst (mkK n t true)) | None => None end
      | _ => None
      end
  | TName n :: TEq :: r =>
      match r with
      | TName f :: TLPar :: TStr lit :: r1 =>                   (* a call: only TypeVar(...) is modelled *)
          if (f =? id_TypeVar)%N then
            if in_class then None                                (* "TypeVars need to be defined at module level" *)
            else match parse_tvar_args env (S (length r1)) r1 with
                 | Some (cs, b) => Some (DTvar (mkTP n lit cs b))
                 | None => None
                 end
          else None
      | _ =>
        match parse_expr (S (length r)) r with
        | Some (e, []) =>
            if (n =? id_slots)%N then
              if in_class then
                match e with
                | EList es => match str_args es with Some l => Some (DSlots l) | None => None end
                | _ => None
                end
              else None                                          (* "__slots__ only allowed on the class level" *)
            else if in_class then None                           (* aliases in class bodies: not modelled *)
            else
              match e with
              | ENone => Some (DConst (mkK n (Named (NP id_NoneType)) false))   (* new_type_from_value: Pyval *)
              | _ => match conv env e with Some t => Some (DAlias (n, t)) | None => None end
              end                                                (* other literal values: conv rejects them *)
        | _ => None
        end
      end
  | _ => None
  end.

(* class NAME [ "(" arg {"," arg} ")" ] ":" [ "..." ] *)
Inductive carg := CBase (e : expr) | CKw (k : N) (e : expr).
(* one argument of a class statement: NAME "=" expr  |  expr *)
Definition parse_carg (ts : list token) : option (carg * list token) :=
  match is_kwarg ts with
  | Some (k, r) => match parse_expr (S (length r)) r with Some (e, r') => Some (CKw k e, r') | None => None end
  | None => match parse_expr (S (length ts)) ts with Some (e, r') => Some (CBase e, r') | None => None end
  end.
Fixpoint parse_cargs (fuel : nat) (ts : list token) : option (list carg * list token) :=
  match fuel with
  | O => None
  | S f =>
    match parse_carg ts with
    | Some (a, TComma :: r'') =>
        match parse_cargs f r'' with Some (l, rest) => Some (a :: l, rest) | None => None end
    | Some (a, r') => Some ([a], r')
    | None => None
    end
  end.

(* classdef.get_keywords *)
Definition conv_kw (env : penv) (k : N) (e : expr) : option (N * ty) :=
  if (k =? id_metaclass)%N then match conv env e with Some t => Some (k, t) | None => None end
  else if (k =? id_total)%N then
    match e with
    | EBool b => Some (k, Lit (LBool false b))
    | _ => None
    end
  else None.                                                   (* "Unexpected classdef kwarg" *)

Definition cargs_bases (l : list carg) : list expr :=
  flat_map (fun a => match a with CBase e => [e] | CKw _ _ => [] end) l.
Definition cargs_kws (l : list carg) : list (N * expr) :=
  flat_map (fun a => match a with CKw k e => [(k, e)] | CBase _ => [] end) l.

(* name, bases, keywords, and whether the line ends in "..." *)
Definition parse_class_header (env : penv) (ts : list token)
  : option (N * list ty * list (N * ty) * bool) :=
  match ts with
  | TName k :: TName nm :: r =>
      if (k =? id_class)%N then
        let args_tail :=
          match r with
          | TLPar :: r1 =>
              match parse_cargs (S (length r1)) r1 with
              | Some (l, TRPar :: r2) => Some (l, r2)
              | _ => None
              end
          | _ => Some ([], r)
          end in
        match args_tail with
        | Some (l, TColon :: tail) =>
            match mapM (conv env) (cargs_bases l),
                  mapM (fun ke => conv_kw env (fst ke) (snd ke)) (cargs_kws l),
                  match tail with [] => Some false | [TEllipsis] => Some true | _ => None end with
            | Some bs, Some kws, Some e => Some (nm, bs, kws, e)
            | _, _, _ => None
            end
        | _ => None
        end
      else None
  | _ => None
  end.

Definition nonclass_deco (d : N) : bool :=
  (d =? id_property)%N || (d =? id_classmethod)%N || (d =? id_staticmethod)%N || (d =? id_overload)%N.

(* _PropertyToConstant._is_parametrised *)
Definition is_parametrised (f : func) : bool :=
  existsb (fun s => negb (is_nil (tparams (s_ret (f_sig s)))) ||
                    match s_params (f_sig s) with p :: _ => negb (is_any (p_ty p)) | [] => false end) (fn_sigs f).
Definition const_property (f : func) : bool := mkind_eqb (fn_kind f) KProp && negb (is_parametrised f).
(* JoinTypes runs in finalize_ast BEFORE ConvertTypingToNative: Optional[..]/Union[..] are still GenericType nodes, so
   for the single getter signature a merged property has, the joined type is that signature's return type itself *)
Definition prop_const (f : func) : const :=
  mkK (fn_name f)
      (Annot (match fn_sigs f with
              | [s] => s_ret (f_sig s)
              | l => join_types (map (fun s => s_ret (f_sig s)) l)
              end) [id_property_str]) false.

Definition item_consts (l : list ditem) : list const :=
  flat_map (fun x => match x with DConst k => [k] | _ => [] end) l.
Definition item_aliases (l : list ditem) : list (N * ty) :=
  flat_map (fun x => match x with DAlias a => [a] | _ => [] end) l.
Definition item_tvars (l : list ditem) : list tparam :=
  flat_map (fun x => match x with DTvar t => [t] | _ => [] end) l.
Definition item_slots (l : list ditem) : list (list N) :=
  flat_map (fun x => match x with DSlots s => [s] | _ => [] end) l.
Definition item_defs (l : list ditem) : list rdef :=
  flat_map (fun x => match x with DDef d => [d] | _ => [] end) l.
Definition item_classes (l : list ditem) : list cls :=
  flat_map (fun x => match x with DCls c => [c] | _ => [] end) l.

(* build_class: NothingType bases are dropped; a class without bases derives from object *)
Definition final_bases (nm : N) (bases : list ty) : list ty :=
  match filter (fun t => negb (is_nothing t)) bases with
  | [] => if (nm =? id_object)%N then [] else [Named (NP id_object)]
  | b1 => b1
  end.

(* Definitions.build_class (+ the class part of finalize_ast), given the converted header and body items *)
Definition build_class (scope : list N) (nm : N) (bases : list ty) (kws : list (N * ty)) (decos : list N)
                       (items : list ditem) : option cls :=
  if existsb nonclass_deco decos then None                       (* _validate_decorators *)
  else
    let consts := filter (fun k => negb (k_name k =? id_slots)%N) (item_consts items) in
    match item_slots items with
    | _ :: _ :: _ => None                                         (* "Duplicate __slots__ declaration" *)
    | sl =>
      let slots := match sl with [s] => Some s | _ => None end in
      let defs := item_defs items in
      if negb (nodup_by N.eqb (map k_name consts)) ||
         existsb (fun k => mem (k_name k) (map rd_name defs)) consts then None   (* duplicate attribute names *)
      else
        match merge_funcs defs with
        | Some methods =>
            let bases2 := final_bases nm bases in
            let props := filter const_property methods in
            let methods' := filter (fun f => negb (const_property f)) methods in
            let sc := scope ++ flat_map tparams bases2 in
            if forallb (verify_func sc) methods' then
              Some (mkCls nm bases2 kws decos slots (item_classes items)
                          (consts ++ map prop_const props) methods')
            else None
        | None => None
        end
    end.

(* one logical line of a suite: a decorator line extends the pending decorators, anything else is an item.
   `scope` = the type parameters of the bases of the enclosing classes (for _VerifyMutators). *)
Inductive lres := LPend (p : list N) | LItem (d : ditem).
Definition parse_line (env : penv) (scope : list N) (in_class : bool) (pending : list N) (ts : list token)
  : option lres :=
  match ts with
  | [TName a; TName d] =>
      if (a =? id_at)%N then Some (LPend (pending ++ [d])) else None
  | TName k :: TName nm :: sg =>
      if (k =? id_def)%N then
        match parse_fsig env nm sg with
        | Some s => match mk_rdef nm pending s with Some d => Some (LItem (DDef d)) | None => None end
        | None => None
        end
      else if (k =? id_class)%N then                         (* class NAME...: ... on one line *)
        match parse_class_header env ts with
        | Some (cn, bs, kws, true) =>
            match build_class scope cn bs kws pending [] with Some c => Some (LItem (DCls c)) | None => None end
        | _ => None
        end
      else None
  | _ =>
      match pending with
      | [] => match parse_simple env in_class ts with Some d => Some (LItem d) | None => None end
      | _ => None
      end
  end.

(* the statements of a suite (class body or module): decorator lines are collected for the next def/class *)
Definition suite_loop (pl : list N -> list token -> option lres) (pc : list N -> stmt -> option cls)
  : list N -> list stmt -> option (list ditem) :=
  fix go (pend : list N) (ss : list stmt) {struct ss} : option (list ditem) :=
    match ss with
    | [] => match pend with [] => Some [] | _ => None end
    | SBlank :: r => go pend r
    | SLine ts :: r =>
        match pl pend ts with
        | Some (LPend p) => go p r
        | Some (LItem d) => match go [] r with Some l => Some (d :: l) | None => None end
        | None => None
        end
    | (SClass _ _ as x) :: r =>
        match pc pend x, go [] r with
        | Some c, Some l => Some (DCls c :: l)
        | _, _ => None
        end
    end.

(* a class statement with its suite *)
Fixpoint parse_class (env : penv) (scope : list N) (pending : list N) (s : stmt) {struct s} : option cls :=
  match s with
  | SClass hdr body =>
      match parse_class_header env hdr with
      | Some (cn, bs, kws, false) =>
          let sc := scope ++ flat_map tparams (final_bases cn bs) in
          match suite_loop (parse_line env sc true) (parse_class env sc) [] body with
          | Some [] => None                                       (* an empty suite is a syntax error *)
          | Some items => build_class scope cn bs kws pending items
          | None => None
          end
      | _ => None
      end
  | _ => None
  end.

Definition parse_stmts (env : penv) (ss : list stmt) : option (list ditem) :=
  suite_loop (parse_line env [] false) (parse_class env []) [] ss.

(* the names bound by  T = TypeVar(...)  lines of the module (the reader inserts the type variables at the end, so
   every use sees every TypeVar) *)
Definition tvar_names (ss : list stmt) : list N :=
  flat_map (fun s => match s with
                     | SLine (TName n :: TEq :: TName f :: TLPar :: _) => if (f =? id_TypeVar)%N then [n] else []
                     | _ => []
                     end) ss.

(* Definitions.build_type_decl_unit + finalize_ast *)
Definition parse_unit (ss : list stmt) : option unit_ :=
  let env := tvar_names ss in
  match parse_stmts env ss with
  | Some items =>
      match item_slots items, merge_funcs (item_defs items) with
      | [], Some funcs =>
          let names := map tp_name (item_tvars items) ++ map fst (item_aliases items)
                       ++ map k_name (item_consts items) ++ map c_name (item_classes items)
                       ++ map fn_name funcs in
          if negb (nodup_by N.eqb names) then None                (* "Duplicate attribute name(s) in module" *)
          else if existsb (fun f => mkind_eqb (fn_kind f) KProp) funcs then None   (* module-level property *)
          else if existsb (fun f => (fn_name f =? id_getattr)%N && (1 <? length (fn_sigs f))%nat) funcs then None
          else if forallb (verify_func []) funcs then
            Some (mkU (item_tvars items) (item_aliases items) (item_consts items) (item_classes items) funcs)
          else None
      | _, _ => None
      end
  | None => None
  end.

(* ------------------------------------------------------------------------------------------------ *)
(* the canonical form parse (print d) lands on *)

Definition norm_const (c : ctx) (k : const) : const := mkK (k_name k) (norm (ctx_plain c) (k_ty k)) (k_val k).
Definition norm_alias (c : ctx) (a : N * ty) : N * ty := (fst a, norm (ctx_plain c) (snd a)).
Definition norm_tparam (c : ctx) (t : tparam) : tparam :=
  mkTP (tp_name t) (tp_lit t) (map (norm (ctx_plain c)) (tp_cons t))
       (match tp_bound t with Some b => Some (norm (ctx_plain c) b) | None => None end).

Definition norm_fsig (c : ctx) (nm : N) (f : fsig) : fsig :=
  mkF (norm_sig c (f_sig f)) (map (norm (ctx_plain c)) (f_exc f)).

(* what the reader reconstructs from the printed decorator lines *)
Definition norm_func (c : ctx) (f : func) : func :=
  let ds := printed_decos f in
  let rest := filter (fun d => negb (is_flag_deco d)) ds in
  finish_df (mkDF (fn_name f) (map (norm_fsig c (fn_name f)) (fn_sigs f))
                  (mem id_abstractmethod ds) (mem id_coroutine ds) (mem id_final ds) rest
                  (mem id_property rest)).

Definition norm_kw (c : ctx) (kv : N * ty) : N * ty :=
  (fst kv, norm (ctx_plain c) (snd kv)).

Definition norm_bases (c : ctx) (nm : N) (bases : list ty) : list ty :=
  let printed := map (print_ty (ctx_plain c)) bases in
  let bases' := match printed with [b] => if tokens_eqb b [TName id_object] then [] else bases | _ => bases end in
  final_bases nm (map (norm (ctx_plain c)) bases').

Fixpoint norm_cls (cl : cls) : cls :=
  let c := mkCtx false (Some (c_name cl)) in
  let methods := map (norm_func c) (c_methods cl) in
  mkCls (c_name cl) (norm_bases c (c_name cl) (c_bases cl)) (map (norm_kw c) (c_kws cl))
        (dedup N.eqb (c_decos cl)) (c_slots cl)
        (map norm_cls (c_classes cl))
        (map (norm_const c) (c_consts cl) ++ map prop_const (filter const_property methods))
        (filter (fun f => negb (const_property f)) methods).

Definition prints_none (t : ty) : bool := tokens_eqb (print_ty plain0 t) [TNone].

Definition norm_unit (u : unit_) : unit_ :=
  let c := plain0 in
  mkU (map (norm_tparam c) (sort_tps (u_tparams u)))
      (map (norm_alias c) (filter (fun a => negb (prints_none (snd a))) (u_aliases u)))
      (map (fun a => mkK (fst a) (Named (NP id_NoneType)) false) (filter (fun a => prints_none (snd a)) (u_aliases u))
       ++ map (norm_const c) (u_consts u))
      (map norm_cls (u_classes u))
      (map (norm_func c) (u_funcs u)).

(* ------------------------------------------------------------------------------------------------ *)
(* the emitted dialect of declarations *)

(* an identifier that may be bound by a declaration: an ordinary name that is none of the reader's keywords *)
Definition reserved_word (i : N) : bool :=
  (i =? id_def)%N || (i =? id_class)%N || (i =? id_raise)%N || (i =? id_at)%N || (i =? id_slots)%N.
Definition decl_name (env : penv) (i : N) : bool := ord_id env i && negb (reserved_word i) && negb (i =? id_NoneType)%N.

Definition wf_const (env : penv) (k : const) : bool := decl_name env (k_name k) && wf env (k_ty k).
(* an alias whose target prints as `None` is re-read as a constant; an alias to a name with a dot in it
   (typing.X, builtins.X, module.X) is printed as an import, which is outside the model *)
Definition wf_alias (env : penv) (a : N * ty) : bool :=
  decl_name env (fst a) && wf env (snd a) && negb (prints_none (snd a)) &&
  match snd a with Named (NT _) | Named (NB _) => false | _ => true end.
Definition wf_tparam (env : penv) (t : tparam) : bool :=
  mem (tp_name t) env && negb (is_typing (tp_name t)) && negb (is_special (tp_name t)) &&
  negb (reserved_word (tp_name t)) &&
  forallb (wf env) (tp_cons t) && match tp_bound t with Some b => wf env b | None => true end.

(* the signature part: Model.wf_sig without its own _VerifyMutators clause is not available separately, so the
   clause is kept (scope = what the enclosing classes bring) and the merged check is stated on the function *)
Definition wf_fsig (env : penv) (scope : list N) (c : ctx) (f : fsig) : bool :=
  wf_sig env scope c (f_sig f) && forallb (wf env) (f_exc f).

(* the reader accepts the decorator lines the printer produces for f: at most one of property / staticmethod /
   classmethod survives, `property` at most once, and then on a single getter-shaped signature *)
Definition decos_ok (c : ctx) (f : func) : bool :=
  let rest := filter (fun d => negb (is_flag_deco d)) (printed_decos f) in
  (count_distinct_kinds rest <=? 1)%nat &&
  match filter (N.eqb id_property) rest with
  | [] => true
  | [_] => match fn_sigs f with [s] => getter_arity_ok (f_sig (norm_fsig c (fn_name f) s)) | _ => false end
  | _ => false
  end.

Definition wf_func (env : penv) (scope : list N) (c : ctx) (f : func) : bool :=
  decl_name env (fn_name f) &&
  match fn_sigs f with [] => false | _ => true end &&
  forallb (wf_fsig env scope c) (fn_sigs f) &&
  decos_ok c f &&
  verify_func scope (norm_func c f).

(* additionally needed for the text to be a fixed point: the explicit decorators contain none of the names the
   reader interprets, and the kind agrees with the special method names *)
Definition flags_consistent (f : func) : bool :=
  forallb (fun d => negb (is_flag_deco d) && negb (d =? id_staticmethod)%N && negb (d =? id_classmethod)%N &&
                    negb (d =? id_property)%N) (fn_decos f) &&
  nodup_by N.eqb (fn_decos f) &&
  match fn_kind f with
  | KProp => negb (fn_name f =? id_new)%N && negb (fn_name f =? id_init_subclass)%N
  | KStatic => negb (fn_name f =? id_init_subclass)%N
  | KClass => negb (fn_name f =? id_new)%N
  | KMethod => negb (fn_name f =? id_new)%N && negb (fn_name f =? id_init_subclass)%N
  end.

Definition wf_kw (env : penv) (kv : N * ty) : bool :=
  match snd kv with
  | Named n => (fst kv =? id_metaclass)%N && wf_name env n && negb (name_id n =? id_NoneType)%N
  | Lit (LBool _ _) => (fst kv =? id_total)%N
  | _ => false
  end.

(* a base class: a name or a subscripted name (Generic[T], list[int], ...) *)
Definition wf_base (env : penv) (t : ty) : bool :=
  wf env t && match t with Named _ | Generic _ _ | NothingT => true | _ => false end.

Fixpoint wf_cls (env : penv) (scope : list N) (nested : bool) (cl : cls) {struct cl} : bool :=
  match cl with
  | mkCls nm bases kws decos slots classes consts methods =>
  let c := mkCtx false (Some nm) in
  let sc := scope ++ flat_map tparams (norm_bases c nm bases) in
  decl_name env nm &&
  forallb (wf_base env) bases && forallb (wf_kw env) kws &&
  forallb (fun d => negb (nonclass_deco d) && negb (reserved_word d)) decos &&
  forallb (wf_const env) consts &&
  forallb (fun k => negb (k_name k =? id_slots)%N) consts &&
  forallb (wf_func env sc c) methods &&
  (* in a nested class the printer compares an annotated self/cls with the dotted path of the class *)
  (negb nested ||
   forallb (fun f => forallb (fun s => forallb (fun p => negb ((p_name p =? id_self)%N || (p_name p =? id_cls)%N) || is_any (p_ty p))
                                               (s_params (f_sig s))) (fn_sigs f)) methods) &&
  nodup_by N.eqb (map k_name consts ++ map fn_name methods) &&
  forallb (wf_cls env sc true) classes
  end.

Definition unit_names (u : unit_) : list N :=
  map tp_name (sort_tps (u_tparams u)) ++ map fst (u_aliases u) ++ map k_name (u_consts u)
  ++ map c_name (u_classes u) ++ map fn_name (u_funcs u).

Definition wf_unit (u : unit_) : bool :=
  let env := map tp_name (sort_tps (u_tparams u)) in
  forallb (wf_tparam env) (u_tparams u) &&
  forallb (wf_alias env) (u_aliases u) &&
  forallb (wf_const env) (u_consts u) &&
  forallb (wf_cls env [] false) (u_classes u) &&
  forallb (wf_func env [] plain0) (u_funcs u) &&
  (* module-level functions: no property, at most one signature for __getattr__ *)
  forallb (fun f => negb (mkind_eqb (fn_kind (norm_func plain0 f)) KProp) &&
                    negb ((fn_name f =? id_getattr)%N && (1 <? length (fn_sigs f))%nat)) (u_funcs u) &&
  nodup_by N.eqb (unit_names u).

(* conditions under which re-printing the re-read declaration reproduces the text *)
Definition stable_fsig (c : ctx) (nm : N) (f : fsig) : bool :=
  stable_sig c (f_sig f) && forallb (stable (ctx_plain c)) (f_exc f).

Definition stable_const (c : ctx) (k : const) : bool := stable (ctx_plain c) (k_ty k).
Definition stable_tparam (t : tparam) : bool :=
  forallb (stable plain0) (tp_cons t) && match tp_bound t with Some b => stable plain0 b | None => true end.

(* a function is re-printed as it was: stable signatures, decorators and kind as the reader reconstructs them, no
   property that the reader turns into a constant; a property that stays a method only with the fix, and then only
   if it is not also final (the reader's decorator list puts `property` before the printer's `@final`) *)
Definition stable_func (c : ctx) (f : func) : bool :=
  forallb (stable_fsig c (fn_name f)) (fn_sigs f) && flags_consistent f &&
  negb (const_property (norm_func c f)) &&
  match fn_kind f with KProp => fixed && negb (fn_fin f) | _ => true end.

Fixpoint stable_cls (cl : cls) : bool :=
  match cl with
  | mkCls nm bases kws decos slots classes consts methods =>
      let c := mkCtx false (Some nm) in
      forallb (fun t => negb (is_nothing t) && stable (ctx_plain c) t) bases &&
      forallb (stable_const c) consts && forallb (stable_func c) methods && forallb stable_cls classes
  end.

Definition stable_unit (u : unit_) : bool :=
  forallb stable_tparam (u_tparams u) &&
  forallb (fun a => stable plain0 (snd a)) (u_aliases u) &&
  forallb (stable_const plain0) (u_consts u) &&
  forallb stable_cls (u_classes u) &&
  forallb (stable_func plain0) (u_funcs u).

End Fixed.

(* ------------------------------------------------------------------------------------------------ *)
(* structural equality of declarations (pytd's ==, with the set equality of unions inside the types) and the view in
   which "builtins.X" and "X" are one name *)

Definition const_eq (a b : const) : bool :=
  (k_name a =? k_name b)%N && ty_eq (k_ty a) (k_ty b) && Bool.eqb (k_val a) (k_val b).
Definition alias_eq (a b : N * ty) : bool := (fst a =? fst b)%N && ty_eq (snd a) (snd b).
Definition tparam_eq (a b : tparam) : bool :=
  (tp_name a =? tp_name b)%N && (tp_lit a =? tp_lit b)%N && list_eqb ty_eq (tp_cons a) (tp_cons b) &&
  opt_eq ty_eq (tp_bound a) (tp_bound b).
Definition fsig_eq (a b : fsig) : bool := sig_eq (f_sig a) (f_sig b) && list_eqb ty_eq (f_exc a) (f_exc b).
Definition func_eq (a b : func) : bool :=
  (fn_name a =? fn_name b)%N && list_eqb fsig_eq (fn_sigs a) (fn_sigs b) && mkind_eqb (fn_kind a) (fn_kind b) &&
  Bool.eqb (fn_abs a) (fn_abs b) && Bool.eqb (fn_cor a) (fn_cor b) && Bool.eqb (fn_fin a) (fn_fin b) &&
  list_eqb N.eqb (fn_decos a) (fn_decos b).
Fixpoint cls_eq (a b : cls) : bool :=
  match a, b with
  | mkCls n1 b1 k1 d1 s1 c1 ks1 m1, mkCls n2 b2 k2 d2 s2 c2 ks2 m2 =>
      (n1 =? n2)%N && list_eqb ty_eq b1 b2 && list_eqb alias_eq k1 k2 && list_eqb N.eqb d1 d2 &&
      opt_eq (list_eqb N.eqb) s1 s2 && list_eqb cls_eq c1 c2 && list_eqb const_eq ks1 ks2 && list_eqb func_eq m1 m2
  end.
Definition unit_eq (a b : unit_) : bool :=
  list_eqb tparam_eq (u_tparams a) (u_tparams b) && list_eqb alias_eq (u_aliases a) (u_aliases b) &&
  list_eqb const_eq (u_consts a) (u_consts b) && list_eqb cls_eq (u_classes a) (u_classes b) &&
  list_eqb func_eq (u_funcs a) (u_funcs b).

Definition unqual_const (k : const) : const := mkK (k_name k) (unqual (k_ty k)) (k_val k).
Definition unqual_alias (a : N * ty) : N * ty := (fst a, unqual (snd a)).
Definition unqual_tparam (t : tparam) : tparam :=
  mkTP (tp_name t) (tp_lit t) (map unqual (tp_cons t)) (match tp_bound t with Some b => Some (unqual b) | None => None end).
Definition unqual_fsig (f : fsig) : fsig := mkF (unqual_sig (f_sig f)) (map unqual (f_exc f)).
Definition unqual_func (f : func) : func :=
  mkFn (fn_name f) (map unqual_fsig (fn_sigs f)) (fn_kind f) (fn_abs f) (fn_cor f) (fn_fin f) (fn_decos f).
Fixpoint unqual_cls (cl : cls) : cls :=
  match cl with
  | mkCls n b k d s cs ks ms =>
      mkCls n (map unqual b) (map unqual_alias k) d s (map unqual_cls cs) (map unqual_const ks) (map unqual_func ms)
  end.
Definition unqual_unit (u : unit_) : unit_ :=
  mkU (map unqual_tparam (u_tparams u)) (map unqual_alias (u_aliases u)) (map unqual_const (u_consts u))
      (map unqual_cls (u_classes u)) (map unqual_func (u_funcs u)).

(* conditions for the re-read declarations to be structurally equal to the printed ones, on top of stable_*:
   every type eq_stable; signatures eq_stable_sig (no elided typed self/cls, no `nothing` return); no property
   methods; decorators without repetitions; TypeVars already in the printer's order; a class lists its bases (the
   reader adds `object` to an empty list) *)
Definition eq_stable_fsig (c : ctx) (f : fsig) : bool :=
  eq_stable_sig c (f_sig f) &&
  forallb (fun p => match p_mut p with Some m => eq_stable (ctx_plain c) m | None => true end) (s_params (f_sig f)) &&
  forallb (eq_stable (ctx_plain c)) (f_exc f).
Definition eq_stable_func (c : ctx) (f : func) : bool :=
  forallb (eq_stable_fsig c) (fn_sigs f) && negb (mkind_eqb (fn_kind f) KProp).
Definition eq_stable_tparam (t : tparam) : bool :=
  forallb (eq_stable plain0) (tp_cons t) && match tp_bound t with Some b => eq_stable plain0 b | None => true end.
Fixpoint sorted_tps (l : list tparam) : bool :=
  match l with
  | x :: ((y :: _) as r) => (tp_name x <=? tp_name y)%N && sorted_tps r
  | _ => true
  end.
Fixpoint eq_stable_cls (cl : cls) : bool :=
  match cl with
  | mkCls nm bases kws decos slots classes consts methods =>
      let c := mkCtx false (Some nm) in
      forallb (eq_stable (ctx_plain c)) bases &&
      negb (is_nil bases) && negb (nm =? id_object)%N &&
      nodup_by N.eqb decos &&
      forallb (fun k => eq_stable (ctx_plain c) (k_ty k)) consts &&
      forallb (eq_stable_func c) methods && forallb eq_stable_cls classes
  end.
Definition eq_stable_unit (u : unit_) : bool :=
  sorted_tps (u_tparams u) && forallb eq_stable_tparam (u_tparams u) &&
  forallb (fun a => eq_stable plain0 (snd a)) (u_aliases u) &&
  forallb (fun k => eq_stable plain0 (k_ty k)) (u_consts u) &&
  forallb eq_stable_cls (u_classes u) && forallb (eq_stable_func plain0) (u_funcs u).
