(* C16 lemmas over Blocks/Model.v.  The per-opcode flag table is never unfolded: every statement holds
   for whatever table the translator regenerates. *)
From Coq Require Import List NArith Arith Bool Lia Relations FinFun.
From PV Require Import Generated.C16_OpcodeFlags Blocks.Model.
Import ListNotations.

Local Opaque flags_of.

(* ================================================================================================ *)
(* generic helpers *)

Lemma memN_In : forall x l, memN x l = true <-> In x l.
Proof.
  unfold memN. intros x l. rewrite existsb_exists. split.
  - intros [y [Hy He]]. apply N.eqb_eq in He. subst. exact Hy.
  - intros H. exists x. split; [exact H | apply N.eqb_refl].
Qed.

Lemma memN_false : forall x l, memN x l = false <-> ~ In x l.
Proof.
  intros x l. rewrite <- memN_In. destruct (memN x l); split; intros; try congruence.
  all: try (exfalso; apply H; reflexivity).
Qed.

Lemma run_inv : forall (S : Type) (step : S -> S) (fin : S -> bool) (P : S -> Prop),
  (forall s, P s -> fin s = false -> P (step s)) ->
  forall d s, P s -> P (run step fin d s).
Proof.
  intros S step fin P Hstep. induction d; intros s Hs; simpl.
  - destruct (fin s) eqn:E; auto.
  - destruct (fin (run step fin d s)) eqn:E; auto.
Qed.

(* the loops run with binary fuel derived from the input size; never unfold it here *)
Local Opaque pred_fuel order_fuel.

(* ================================================================================================ *)
(* A. opcodes.py: indices and next/prev links of _make_opcode_list / _add_jump_targets *)

Definition popt (k : nat) : option N := match k with O => None | S p => Some (N.of_nat p) end.

Fixpoint rtail (t : list (instr * item)) (k : nat) : Prop :=
  match t with
  | [] => k = 0
  | (o, _) :: t' => exists k', k = S k' /\ idx o = N.of_nat k' /\ prev o = popt k' /\
                               next o = Some (N.of_nat k) /\ rtail t' k'
  end.

Definition racc (acc : list (instr * item)) (k : nat) : Prop :=
  match acc with
  | [] => k = 0
  | (o, _) :: t => exists k', k = S k' /\ idx o = N.of_nat k' /\ prev o = popt k' /\ next o = None /\ rtail t k'
  end.

Lemma mol_loop_racc : forall minor items acc o2i k,
  racc acc k ->
  exists k', racc (rev (fst (mol_loop minor items acc o2i (N.of_nat k)))) k'.
Proof.
  induction items as [|it rest IH]; intros acc o2i k Hacc; simpl.
  - rewrite rev_involutive. eauto.
  - destruct (should_elide minor it rest).
    + apply IH. exact Hacc.
    + replace (N.of_nat k + 1)%N with (N.of_nat (S k)) by lia.
      apply IH. destruct acc as [|[p pit] t]; simpl in *.
      * subst k. exists 0. repeat split; reflexivity.
      * destruct Hacc as [k' [Hk [Hi [Hp [Hn Ht]]]]]. subst k.
        exists (S k'). repeat split; simpl; auto.
        -- rewrite Hi. reflexivity.
        -- exists k'. repeat split; auto.
Qed.

Lemma optN_eqb_refl : forall a, optN_eqb a a = true.
Proof. destruct a; simpl; auto using N.eqb_refl. Qed.

Lemma optN_eqb_eq : forall a b, optN_eqb a b = true -> a = b.
Proof. destruct a, b; simpl; intros; try congruence. apply N.eqb_eq in H. congruence. Qed.

Lemma rtail_wf_links : forall t k rest n,
  rtail t k -> k < n ->
  wf_links (rev (map fst t) ++ rest) 0 n = wf_links rest k n.
Proof.
  induction t as [|[o it] t IH]; intros k rest n Ht Hk; simpl in *.
  - subst. reflexivity.
  - destruct Ht as [k' [Hk' [Hi [Hp [Hn Ht]]]]]. subst k.
    rewrite <- app_assoc. simpl. rewrite (IH k' (o :: rest) n Ht) by lia.
    simpl. rewrite Hi, Hn, Hp, N.eqb_refl.
    assert (E : (S k' <? n) = true) by (apply Nat.ltb_lt; lia). rewrite E.
    rewrite optN_eqb_refl. simpl. destruct k'; simpl; rewrite ?N.eqb_refl; reflexivity.
Qed.

Lemma racc_wf_links : forall acc k, racc acc k ->
  let l := rev (map fst acc) in length l = k /\ wf_links l 0 (length l) = true.
Proof.
  intros acc k H. destruct acc as [|[o it] t]; simpl in *.
  - subst. split; reflexivity.
  - destruct H as [k' [Hk [Hi [Hp [Hn Ht]]]]]. subst k.
    assert (Hlen : length (rev (map fst t) ++ [o]) = S k').
    { rewrite app_length, rev_length, map_length. simpl.
      clear - Ht. revert k' Ht. induction t as [|[o' it'] t IH]; simpl; intros.
      - subst. reflexivity.
      - destruct Ht as [k'' [Hk [_ [_ [_ Ht]]]]]. subst. specialize (IH _ Ht). simpl in *. lia. }
    split; [exact Hlen|]. rewrite Hlen.
    rewrite (rtail_wf_links t k' [o] (S k') Ht) by lia. simpl.
    rewrite Hi, Hn, Hp, N.eqb_refl, Nat.ltb_irrefl. simpl.
    destruct k'; simpl; rewrite ?N.eqb_refl; reflexivity.
Qed.

Lemma make_opcode_list_links : forall minor items,
  let ops := make_opcode_list minor items in wf_links ops 0 (length ops) = true.
Proof.
  intros minor items. unfold make_opcode_list.
  destruct (mol_loop_racc minor items [] [] 0 eq_refl) as [k Hk]. simpl in Hk.
  apply racc_wf_links in Hk. simpl in Hk. rewrite map_rev, rev_involutive in Hk. apply Hk.
Qed.

(* what wf_links says, position by position *)
Lemma wf_links_spec : forall ops pos n,
  wf_links ops pos n = true ->
  forall i o, nth_error ops i = Some o ->
    idx o = N.of_nat (pos + i) /\
    next o = (if S (pos + i) <? n then Some (N.of_nat (S (pos + i))) else None) /\
    prev o = popt (pos + i).
Proof.
  induction ops as [|a t IH]; intros pos n H i o Hi.
  - destruct i; discriminate.
  - simpl in H. apply andb_prop in H. destruct H as [H Ht].
    apply andb_prop in H. destruct H as [H Hp]. apply andb_prop in H. destruct H as [Hx Hn].
    destruct i; simpl in Hi.
    + inversion Hi; subst. rewrite Nat.add_0_r. apply N.eqb_eq in Hx.
      apply optN_eqb_eq in Hn. apply optN_eqb_eq in Hp. repeat split; auto.
    + replace (pos + S i) with (S pos + i) by lia. eapply IH; eauto.
Qed.

Lemma map_res_length : forall A B (f : A -> res B) l r, map_res f l = Ok r -> length r = length l.
Proof.
  induction l; simpl; intros r H.
  - inversion H. reflexivity.
  - destruct (f a); simpl in H; try discriminate. destruct (map_res f l) eqn:E; simpl in H; try discriminate.
    inversion H. simpl. f_equal. apply IHl. reflexivity.
Qed.

Lemma map_res_nth : forall A B (f : A -> res B) l r, map_res f l = Ok r ->
  forall i b, nth_error r i = Some b -> exists a, nth_error l i = Some a /\ f a = Ok b.
Proof.
  induction l; simpl; intros r H i b Hi.
  - inversion H; subst. destruct i; discriminate.
  - destruct (f a) eqn:Ea; simpl in H; try discriminate.
    destruct (map_res f l) eqn:E; simpl in H; try discriminate.
    inversion H; subst. destruct i; simpl in Hi.
    + inversion Hi; subst. exists a. split; auto.
    + eapply IHl; eauto.
Qed.

Lemma ajt_one_fields : forall n all o2i o it o',
  ajt_one n all o2i (o, it) = Ok o' ->
  idx o' = idx o /\ next o' = next o /\ prev o' = prev o /\ opc o' = opc o /\
  (target o' = target o \/ exists t, target o' = Some t /\
     (N.to_nat t < n \/ exists oo ii, In (oo, ii) all /\ idx oo = t)).
Proof.
  intros n all o2i o it o' H. unfold ajt_one in H.
  destruct (ipreset it) as [k|].
  - destruct (index_of_item k all) as [t|] eqn:E; try discriminate. inversion H; subst. simpl.
    repeat split; auto. right. exists t. split; auto. right.
    clear - E. induction all as [|[oo ii] all IH]; simpl in E; try discriminate.
    destruct (N.eqb (ioff ii) k).
    + inversion E. exists oo, ii. split; auto. left. reflexivity.
    + destruct (IH E) as [o1 [i1 [Hin Hi]]]. exists o1, i1. split; auto. right. exact Hin.
  - destruct (has_known_jump o).
    + destruct (iarg it); try discriminate. destruct (assocN n0 o2i); try discriminate.
      destruct (N.to_nat n1 <? n) eqn:E; try discriminate. inversion H; subst. simpl.
      repeat split; auto. right. exists n1. split; auto. left. apply Nat.ltb_lt. exact E.
    + inversion H; subst. repeat split; auto.
Qed.

Lemma wf_links_ext : forall l1 l2 pos n,
  length l1 = length l2 ->
  (forall i a b, nth_error l1 i = Some a -> nth_error l2 i = Some b ->
      idx a = idx b /\ next a = next b /\ prev a = prev b) ->
  wf_links l1 pos n = wf_links l2 pos n.
Proof.
  induction l1 as [|a l1 IH]; intros [|b l2] pos n Hl H; simpl in *; try discriminate; auto.
  destruct (H 0 a b eq_refl eq_refl) as [Hi [Hn Hp]]. rewrite Hi, Hn, Hp. f_equal.
  apply IH; [lia|]. intros i x y Hx Hy. apply (H (S i)); auto.
Qed.

Lemma build_ops_wf : forall minor items ops,
  build_ops minor items = Ok ops ->
  wf_links ops 0 (length ops) = true /\
  (forall o t, In o ops -> target o = Some t -> N.to_nat t < length ops).
Proof.
  intros minor items ops H. unfold build_ops in H.
  pose proof (make_opcode_list_links minor items) as HL. unfold make_opcode_list in HL.
  destruct (mol_loop minor items [] [] 0%N) as [all o2i] eqn:E. simpl in HL.
  pose proof (map_res_length _ _ _ _ _ H) as Hlen.
  assert (Hf : forall i a b, nth_error ops i = Some a -> nth_error (map fst all) i = Some b ->
             idx a = idx b /\ next a = next b /\ prev a = prev b).
  { intros i a b Ha Hb. destruct (map_res_nth _ _ _ _ _ H i a Ha) as [[o it] [Hn Hf]].
    rewrite nth_error_map, Hn in Hb. simpl in Hb. inversion Hb; subst.
    apply ajt_one_fields in Hf. tauto. }
  split.
  - rewrite (wf_links_ext ops (map fst all) 0 (length ops)); auto.
    + rewrite Hlen. rewrite map_length in HL. exact HL.
    + rewrite map_length. exact Hlen.
  - intros o t Hin Ht. apply In_nth_error in Hin. destruct Hin as [i Hi].
    destruct (map_res_nth _ _ _ _ _ H i o Hi) as [[o0 it] [Hn Hg]].
    apply ajt_one_fields in Hg. destruct Hg as [_ [_ [_ [_ Hg]]]].
    assert (Ht0 : target o0 = None).
    { (* ops created by mol_loop have no target *)
      assert (G : forall minor items acc o2i k, (forall o i, In (o, i) acc -> target o = None) ->
                  forall o i, In (o, i) (fst (mol_loop minor items acc o2i k)) -> target o = None).
      { clear. induction items as [|it rest IH]; intros acc o2i k Hacc o i Hin; simpl in Hin.
        - apply in_rev in Hin. eauto.
        - destruct (should_elide minor it rest).
          + eapply IH; eauto.
          + eapply IH; [|exact Hin]. intros o' i' [He|Hin'].
            * inversion He; subst. reflexivity.
            * destruct acc as [|[p pit] t]; simpl in Hin'; [contradiction|].
              destruct Hin' as [He|Hin'].
              -- inversion He; subst. simpl. apply (Hacc p i'). left. reflexivity.
              -- apply (Hacc o' i'). right. exact Hin'. }
      apply (G minor items [] [] 0%N (fun _ _ F => match F with end) o0 it).
      rewrite E. simpl. eapply nth_error_In; eauto. }
    destruct Hg as [Hg | [t' [Hg [Hlt | [oo [ii [Hin Hidx]]]]]]].
    + congruence.
    + rewrite Hlen. congruence.
    + assert (Et : t' = t) by congruence. rewrite Et in Hidx. clear Et Hg. rewrite Hlen.
      apply In_nth_error in Hin. destruct Hin as [j Hj].
      assert (Hj' : nth_error (map fst all) j = Some oo) by (rewrite nth_error_map, Hj; reflexivity).
      destruct (wf_links_spec _ _ _ HL j oo Hj') as [Hi' _]. simpl in Hi'.
      rewrite <- Hidx, Hi', Nnat.Nat2N.id.
      apply nth_error_Some. congruence.
Qed.

(* ================================================================================================ *)
(* B. _split_bytecode: the blocks are non-empty and their concatenation is the opcode list *)

Definition pending (m : smode) : list instr :=
  match m with MNormal => [] | MYield _ acc => rev acc | MTail _ acc => rev acc end.

Definition content (st : sst) : list instr :=
  concat (map code (rev (s_blocks st))) ++ rev (s_cur st) ++ pending (s_mode st).

Definition block_ok (b : block) : Prop := exists o c, code b = o :: c /\ bid b = idx o.

Record split_inv (st : sst) : Prop := {
  si_blocks : Forall block_ok (s_blocks st);
  si_mode : s_mode st <> MNormal -> s_cur st = [];
  si_tail : forall s acc, s_mode st = MTail s acc -> acc <> []
}.

Lemma Block_ok : forall o c, block_ok (Block (o :: c)).
Proof. intros. exists o, c. split; reflexivity. Qed.

Lemma rev_cons_ok : forall (o : instr) l, exists o' c', rev (o :: l) = o' :: c'.
Proof.
  intros o l. destruct (rev (o :: l)) eqn:E.
  - apply (f_equal (@length _)) in E. rewrite rev_length in E. discriminate.
  - eauto.
Qed.

Lemma Block_rev_ok : forall o l, block_ok (Block (rev (o :: l))).
Proof. intros. destruct (rev_cons_ok o l) as [o' [c' E]]. rewrite E. apply Block_ok. Qed.

Lemma split_normal_content : forall v ops tg st op,
  s_mode st = MNormal -> split_inv st ->
  content (split_normal v ops tg st op) = content st ++ [op] /\ split_inv (split_normal v ops tg st op).
Proof.
  intros v ops tg st op Hm Hinv. destruct Hinv as [Hb Hc Ht]. unfold split_normal.
  destruct (v && is_op op_SEND op).
  - (* SEND *)
    destruct (s_cur st) as [|c0 cur] eqn:Ecur.
    + destruct (s_prev st); unfold content; simpl; rewrite Hm, Ecur; simpl;
        (split; [ rewrite map_app, concat_app; simpl; rewrite !app_nil_r; reflexivity
                | constructor; simpl; [ constructor; [apply Block_ok | exact Hb] | reflexivity | discriminate ] ]).
    + simpl.
      split.
      * unfold content; simpl. rewrite Hm, Ecur. simpl.
        repeat (rewrite map_app, concat_app; simpl). rewrite !app_nil_r, <- !app_assoc. reflexivity.
      * constructor; simpl; [ | reflexivity | discriminate ].
        constructor; [apply Block_ok|]. constructor; [apply Block_rev_ok | exact Hb].
  - destruct (ends_block v ops tg op).
    + split.
      * unfold content; simpl. rewrite Hm. simpl. rewrite map_app, concat_app. simpl.
        rewrite !app_nil_r, <- !app_assoc. reflexivity.
      * constructor; simpl; [ constructor; [apply Block_rev_ok | exact Hb] | congruence | discriminate ].
    + split.
      * unfold content; simpl. rewrite Hm. simpl. rewrite !app_nil_r, <- !app_assoc. reflexivity.
      * constructor; simpl; [ exact Hb | congruence | discriminate ].
Qed.

Lemma close_yield_content : forall st s acc,
  s_cur st = [] -> acc <> [] -> Forall block_ok (s_blocks st) ->
  content (close_yield st s acc) = concat (map code (rev (s_blocks st))) ++ rev acc /\
  split_inv (close_yield st s acc) /\ s_mode (close_yield st s acc) = MNormal.
Proof.
  intros st s acc Hc Hacc Hb. unfold close_yield. split; [|split].
  - unfold content; simpl. rewrite map_app, concat_app. simpl. rewrite !app_nil_r. reflexivity.
  - constructor; simpl; [ | congruence | discriminate ].
    constructor; [|exact Hb]. destruct acc as [|a acc]; [congruence|]. apply Block_rev_ok.
  - reflexivity.
Qed.

Lemma split_step_content : forall v ops tg st op,
  split_inv st ->
  content (split_step v ops tg st op) = content st ++ [op] /\ split_inv (split_step v ops tg st op).
Proof.
  intros v ops tg st op Hinv. unfold split_step. destruct (s_mode st) as [|s acc|s acc] eqn:Hm.
  - apply split_normal_content; auto.
  - assert (Hc : s_cur st = []) by (apply (si_mode _ Hinv); congruence).
    destruct (is_op op_JUMP_BACKWARD_NO_INTERRUPT op).
    + split.
      * unfold content; simpl. rewrite Hm, Hc. simpl. rewrite <- app_assoc. reflexivity.
      * constructor; simpl; [ apply (si_blocks _ Hinv) | reflexivity | intros s' acc' E; inversion E; discriminate ].
    + split.
      * unfold content; simpl. rewrite Hm, Hc. simpl. rewrite <- app_assoc. reflexivity.
      * constructor; simpl; [ apply (si_blocks _ Hinv) | reflexivity | discriminate ].
  - assert (Hc : s_cur st = []) by (apply (si_mode _ Hinv); congruence).
    assert (Ha : acc <> []) by (eapply (si_tail _ Hinv); eauto).
    destruct (is_op op_CLEANUP_THROW op).
    + destruct (close_yield_content st s (op :: acc) Hc ltac:(discriminate) (si_blocks _ Hinv)) as [E1 [E2 _]].
      split; [|exact E2]. rewrite E1. unfold content. rewrite Hm, Hc. simpl. rewrite <- app_assoc. reflexivity.
    + destruct (close_yield_content st s acc Hc Ha (si_blocks _ Hinv)) as [E1 [E2 E3]].
      destruct (split_normal_content v ops tg _ op E3 E2) as [F1 F2].
      split; [|exact F2]. rewrite F1, E1. unfold content. rewrite Hm, Hc. simpl. reflexivity.
Qed.

Lemma split_fold_content : forall v ops tg l st,
  split_inv st ->
  content (fold_left (split_step v ops tg) l st) = content st ++ l /\
  split_inv (fold_left (split_step v ops tg) l st).
Proof.
  induction l as [|op l IH]; intros st Hinv; simpl.
  - rewrite app_nil_r. auto.
  - destruct (split_step_content v ops tg st op Hinv) as [E I].
    destruct (IH _ I) as [E' I']. split; [|exact I']. rewrite E', E, <- app_assoc. reflexivity.
Qed.

(* the op that ends the list (op.next is None) always closes its block *)
Lemma split_normal_last : forall v ops tg st op,
  next op = None -> s_mode (split_normal v ops tg st op) = MNormal -> s_cur (split_normal v ops tg st op) = [].
Proof.
  intros v ops tg st op Hn. unfold split_normal. destruct (v && is_op op_SEND op).
  - destruct (s_cur st); destruct (s_prev st); simpl; discriminate.
  - unfold ends_block. rewrite Hn. rewrite !orb_true_r. reflexivity.
Qed.

Lemma split_step_last : forall v ops tg st op,
  split_inv st -> next op = None ->
  s_mode (split_step v ops tg st op) = MNormal -> s_cur (split_step v ops tg st op) = [].
Proof.
  intros v ops tg st op Hinv Hn. unfold split_step. destruct (s_mode st) as [|s acc|s acc] eqn:Hm.
  - apply split_normal_last; auto.
  - destruct (is_op op_JUMP_BACKWARD_NO_INTERRUPT op); simpl; discriminate.
  - destruct (is_op op_CLEANUP_THROW op); [reflexivity|]. apply split_normal_last; auto.
Qed.

Lemma split_init_inv : split_inv split_init.
Proof. constructor; simpl; [constructor | congruence | discriminate]. Qed.

Lemma fold_left_snoc : forall A B (f : A -> B -> A) l x a, fold_left f (l ++ [x]) a = f (fold_left f l a) x.
Proof. intros. rewrite fold_left_app. reflexivity. Qed.

Lemma split_partition_lemma : forall v ops bs es,
  (forall l o, ops = l ++ [o] -> next o = None) ->
  split_bytecode v ops = Ok (bs, es) ->
  concat (map code bs) = ops /\ Forall block_ok bs.
Proof.
  intros v ops bs es Hlast H. unfold split_bytecode in H.
  set (tg := targets ops) in *.
  remember (fold_left (split_step v ops tg) ops split_init) as st eqn:Est.
  assert (Hc : s_mode st = MNormal -> s_cur st = []).
  { destruct (rev ops) as [|o r] eqn:Er.
    - apply (f_equal (@rev _)) in Er. rewrite rev_involutive in Er. simpl in Er.
      intros _. rewrite Est, Er. reflexivity.
    - apply (f_equal (@rev _)) in Er. rewrite rev_involutive in Er. simpl in Er.
      intros Hm. rewrite Est in *.
      assert (Ho : fold_left (split_step v ops tg) ops split_init =
                   split_step v ops tg (fold_left (split_step v ops tg) (rev r) split_init) o).
      { rewrite Er at 2. apply fold_left_snoc. }
      rewrite Ho in *. apply split_step_last; auto.
      + apply split_fold_content. apply split_init_inv.
      + eapply Hlast; eauto. }
  destruct (split_fold_content v ops tg ops split_init split_init_inv) as [E I].
  rewrite <- Est in E, I.
  destruct (s_mode st) eqn:Hm; try discriminate.
  destruct (s_err st); try discriminate. inversion H; subst bs es.
  split.
  - unfold content in E. rewrite Hm, (Hc eq_refl) in E. simpl in E. rewrite !app_nil_r in E. exact E.
  - apply Forall_rev. apply (si_blocks _ I).
Qed.

(* ================================================================================================ *)
(* C. SEND-free code: a block ends exactly at the ops with [ends_block]; every jump target starts a block *)

Definition shape (v : bool) (ops : list instr) (tg : list N) (b : block) : Prop :=
  exists c l, code b = c ++ [l] /\ ends_block v ops tg l = true /\
              Forall (fun o => ends_block v ops tg o = false) c.

Lemma split_plain_fold : forall v ops tg l st,
  s_mode st = MNormal ->
  (forall o, In o l -> (v && is_op op_SEND o) = false) ->
  Forall (shape v ops tg) (s_blocks st) ->
  Forall (fun o => ends_block v ops tg o = false) (s_cur st) ->
  let st' := fold_left (split_step v ops tg) l st in
  s_mode st' = MNormal /\ Forall (shape v ops tg) (s_blocks st') /\
  Forall (fun o => ends_block v ops tg o = false) (s_cur st') /\
  s_edges st' = s_edges st /\ s_err st' = s_err st.
Proof.
  induction l as [|op l IH]; intros st Hm Hns Hb Hc; simpl.
  - auto.
  - assert (Hop : (v && is_op op_SEND op) = false) by (apply Hns; left; reflexivity).
    assert (Hns' : forall o, In o l -> (v && is_op op_SEND o) = false) by (intros; apply Hns; right; auto).
    assert (Es : split_step v ops tg st op =
                 if ends_block v ops tg op
                 then mkS (Block (rev (op :: s_cur st)) :: s_blocks st) []
                          (Some (bid (Block (rev (op :: s_cur st))))) (s_edges st) MNormal (s_err st)
                 else mkS (s_blocks st) (op :: s_cur st) (s_prev st) (s_edges st) MNormal (s_err st)).
    { unfold split_step. rewrite Hm. unfold split_normal. rewrite Hop. reflexivity. }
    rewrite Es. clear Es. destruct (ends_block v ops tg op) eqn:Ee.
    + match goal with |- context [fold_left _ l ?s] => destruct (IH s) as [A [B [C [D E]]]] end; simpl; auto.
      constructor; [|exact Hb]. exists (rev (s_cur st)), op. repeat split; auto.
      apply Forall_rev. exact Hc.
    + match goal with |- context [fold_left _ l ?s] => destruct (IH s) as [A [B [C [D E]]]] end; simpl; auto.
Qed.

Lemma shape_nonempty_head : forall v ops tg b bs o l,
  shape v ops tg b -> concat (map code (b :: bs)) = o :: l -> exists c, code b = o :: c.
Proof.
  intros v ops tg b bs o l [c [x [E _]]] H. simpl in H. rewrite E in *.
  destruct c as [|a c]; simpl in *; inversion H; subst; eexists; reflexivity.
Qed.

Lemma shape_boundary : forall v ops tg bs l1 o1 o2 l2,
  Forall (shape v ops tg) bs ->
  concat (map code bs) = l1 ++ o1 :: o2 :: l2 ->
  ends_block v ops tg o1 = true ->
  exists b c, In b bs /\ code b = o2 :: c.
Proof.
  induction bs as [|b bs IH]; intros l1 o1 o2 l2 Hs Hc He.
  - destruct l1; discriminate.
  - inversion Hs as [|? ? Hb Hbs]; subst. simpl in Hc.
    destruct Hb as [c [l [Ecode [El Hcf]]]].
    apply app_eq_app in Hc. destruct Hc as [x [[E1 E2] | [E1 E2]]].
    + (* the boundary is at or after the end of b *)
      destruct x as [|a x].
      * (* o1 :: o2 :: l2 is all in the rest *)
        simpl in E2. destruct (IH [] o1 o2 l2 Hbs (eq_sym E2) He) as [b' [c' [Hin Hc']]].
        exists b', c'. split; [right; exact Hin | exact Hc'].
      * simpl in E2. inversion E2; subst a. destruct x as [|a' x].
        -- (* o1 is the last op of b: o2 heads the next block *)
           simpl in H1. destruct bs as [|b' bs']; [discriminate|].
           inversion Hbs; subst.
           destruct (shape_nonempty_head v ops tg b' bs' o2 l2) as [c' Hc']; auto.
           exists b', c'. split; [right; left; reflexivity | exact Hc'].
        -- (* o1 strictly inside b: contradiction with the shape of b *)
           exfalso. simpl in H1. inversion H1; subst a'.
           rewrite Ecode in E1.
           destruct (exists_last (l := o2 :: x) ltac:(discriminate)) as [y [z Ey]].
           rewrite Ey in E1.
           replace (l1 ++ o1 :: y ++ [z]) with ((l1 ++ o1 :: y) ++ [z]) in E1
             by (rewrite <- app_assoc; reflexivity).
           apply app_inj_tail in E1. destruct E1 as [E1 _]. subst c.
           rewrite Forall_forall in Hcf. specialize (Hcf o1). rewrite Hcf in He; [discriminate|].
           apply in_or_app. right. left. reflexivity.
    + (* the boundary is inside the rest *)
      destruct (IH x o1 o2 l2 Hbs E2 He) as [b' [c' [Hin Hc']]].
      exists b', c'. split; [right; exact Hin | exact Hc'].
Qed.

Definition nosend (v : bool) (ops : list instr) : Prop :=
  forall o, In o ops -> (v && is_op op_SEND o) = false.

Lemma split_plain_shape : forall v ops bs es,
  nosend v ops -> split_bytecode v ops = Ok (bs, es) ->
  Forall (shape v ops (targets ops)) bs /\ es = [].
Proof.
  intros v ops bs es Hns H. unfold split_bytecode in H.
  destruct (split_plain_fold v ops (targets ops) ops split_init eq_refl Hns (Forall_nil _) (Forall_nil _))
    as [A [B [C [D E]]]].
  rewrite A, E in H. simpl in H. inversion H; subst. split.
  - apply Forall_rev. exact B.
  - rewrite D. reflexivity.
Qed.

Lemma wf_last_next : forall ops, wf_links ops 0 (length ops) = true ->
  forall l o, ops = l ++ [o] -> next o = None.
Proof.
  intros ops H l o E.
  assert (Hn : nth_error ops (length l) = Some o).
  { subst ops. rewrite nth_error_app2 by lia. rewrite Nat.sub_diag. reflexivity. }
  destruct (wf_links_spec _ _ _ H _ _ Hn) as [_ [Hx _]]. simpl in Hx.
  assert (El : length ops = S (length l)) by (subst ops; rewrite app_length; simpl; lia).
  rewrite El, Nat.ltb_irrefl in Hx. exact Hx.
Qed.

Lemma wf_opsb_links : forall ops, wf_opsb ops = true -> wf_links ops 0 (length ops) = true.
Proof. intros ops H. unfold wf_opsb in H. apply andb_prop in H. tauto. Qed.

Lemma wf_opsb_target : forall ops o t, wf_opsb ops = true -> In o ops -> target o = Some t ->
  N.to_nat t < length ops.
Proof.
  intros ops o t H Hin Ht. unfold wf_opsb in H. apply andb_prop in H. destruct H as [_ H].
  rewrite forallb_forall in H. specialize (H o Hin). rewrite Ht in H.
  repeat (apply andb_prop in H; destruct H as [H ?]). simpl in H. apply Nat.ltb_lt. exact H.
Qed.

Lemma targets_In : forall ops o t, In o ops -> target o = Some t -> In t (targets ops).
Proof.
  intros ops o t Hin Ht. unfold targets. apply in_flat_map. exists o. split; auto.
  rewrite Ht. left. reflexivity.
Qed.

Lemma targets_start_blocks_lemma : forall v ops bs es,
  wf_opsb ops = true -> anext_okb ops = true -> nosend v ops ->
  split_bytecode v ops = Ok (bs, es) ->
  forall o t, In o ops -> target o = Some t ->
  exists b ot c, In b bs /\ nth_error ops (N.to_nat t) = Some ot /\ code b = ot :: c /\ bid b = t /\ idx ot = t.
Proof.
  intros v ops bs es Hwf Han Hns Hsp o t Hin Ht.
  pose proof (wf_opsb_links _ Hwf) as Hl.
  destruct (split_partition_lemma v ops bs es (wf_last_next _ Hl) Hsp) as [Hcat Hok].
  destruct (split_plain_shape v ops bs es Hns Hsp) as [Hsh _].
  pose proof (wf_opsb_target _ _ _ Hwf Hin Ht) as Hr.
  destruct (nth_error ops (N.to_nat t)) as [ot|] eqn:Eot; [|apply nth_error_None in Eot; lia].
  destruct (wf_links_spec _ _ _ Hl _ _ Eot) as [Hidx _]. simpl in Hidx. rewrite Nnat.N2Nat.id in Hidx.
  assert (G : exists b c, In b bs /\ code b = ot :: c).
  { destruct (N.to_nat t) as [|k] eqn:Ek.
    - (* the first op heads the first block *)
      destruct ops as [|o0 ops']; [discriminate|]. simpl in Eot. inversion Eot; subst o0.
      destruct bs as [|b bs']; [discriminate|]. inversion Hsh; subst.
      destruct (shape_nonempty_head _ _ _ b bs' ot ops' H1 Hcat) as [c Hc].
      exists b, c. split; [left; reflexivity | exact Hc].
    - destruct (nth_error_split _ _ Eot) as [l1' [l2 [Eops Hlen]]].
      destruct (exists_last (l := l1') ltac:(intro; subst; discriminate)) as [l1 [o1 El1]].
      subst l1'. rewrite app_length in Hlen. simpl in Hlen.
      assert (Eops' : ops = l1 ++ o1 :: ot :: l2) by (rewrite Eops, <- app_assoc; reflexivity).
      assert (Ho1 : nth_error ops k = Some o1).
      { rewrite Eops'. rewrite nth_error_app2 by lia. replace (k - length l1) with 0 by lia. reflexivity. }
      destruct (wf_links_spec _ _ _ Hl _ _ Ho1) as [_ [Hnx _]]. rewrite !Nat.add_0_l in Hnx.
      assert (Elt : (S k <? length ops) = true) by (apply Nat.ltb_lt; lia).
      rewrite Elt in Hnx.
      assert (Et : N.of_nat (S k) = t) by (rewrite <- Ek; apply Nnat.N2Nat.id).
      rewrite Et in Hnx.
      assert (He : ends_block v ops (targets ops) o1 = true).
      { unfold anext_okb in Han. rewrite forallb_forall in Han.
        assert (Hin1 : In o1 ops) by (eapply nth_error_In; eauto).
        specialize (Han o1 Hin1). rewrite Hnx in Han.
        unfold ends_block. rewrite Hnx.
        assert (Hm : memN t (targets ops) = true) by (apply memN_In; exact (targets_In ops o t Hin Ht)).
        rewrite Hm in *.
        destruct (no_next o1), (does_jump o1), (pops_block o1), (opc_at_is ops op_GET_ANEXT (Some t)), v;
          simpl in *; congruence. }
      rewrite <- Hcat in Eops'.
      destruct (shape_boundary v ops (targets ops) bs l1 o1 ot l2 Hsh Eops' He) as [b [c [Hb Hc]]].
      exists b, c. split; assumption. }
  destruct G as [b [c [Hb Hc]]]. exists b, ot, c. repeat split; auto.
  rewrite Forall_forall in Hok. destruct (Hok b Hb) as [o' [c' [E1 E2]]].
  rewrite Hc in E1. inversion E1 as [[Eo Ec]]. rewrite E2, <- Eo. exact Hidx.
Qed.

(* ================================================================================================ *)
(* D. cfg_utils.order_nodes, for an ARBITRARY priority function [pick] and an arbitrary predecessor map *)

Definition edge_rel (es : list edge) (x y : N) : Prop := In (x, y) es.
Definition reach (es : list edge) : N -> N -> Prop := clos_refl_trans N (edge_rel es).
Definition keys (q : queue) : list N := map fst q.
Definition pick_ok (pick : queue -> N) : Prop := forall q, q <> [] -> In (pick q) (keys q).

Lemma nodupN_In : forall l seen y, In y (nodupN l seen) <-> In y l /\ ~ In y seen.
Proof.
  induction l as [|x l IH]; intros seen y; simpl.
  - tauto.
  - destruct (memN x seen) eqn:E.
    + rewrite IH. apply memN_In in E. split.
      * intros [H1 H2]. auto.
      * intros [[H1|H1] H2]; [subst; contradiction | auto].
    + apply memN_false in E. simpl. rewrite IH. simpl. split.
      * intros [H|[H1 H2]]; [subst; auto | split; auto].
      * intros [[H1|H1] H2]; [auto|].
        destruct (N.eq_dec x y); [auto|]. right. split; auto. intros [F|F]; auto.
Qed.

Lemma outgoing_In : forall es x y, In y (outgoing es x) <-> In (x, y) es.
Proof.
  intros es x y. unfold outgoing. rewrite nodupN_In, in_map_iff. split.
  - intros [[[a b] [E H]] _]. simpl in E. subst b. apply filter_In in H. destruct H as [H1 H2].
    simpl in H2. apply N.eqb_eq in H2. subst. exact H1.
  - intros H. split; [|intros []]. exists (x, y). split; auto. apply filter_In. split; auto.
    simpl. apply N.eqb_refl.
Qed.

Lemma has_key_In : forall k q, has_key k q = true <-> In k (keys q).
Proof.
  intros k q. unfold has_key, keys. rewrite existsb_exists, in_map_iff. split.
  - intros [e [H1 H2]]. apply N.eqb_eq in H2. exists e. auto.
  - intros [e [H1 H2]]. exists e. split; auto. apply N.eqb_eq. auto.
Qed.

Lemma del_key_In : forall k q x, In x (keys (del_key k q)) <-> In x (keys q) /\ x <> k.
Proof.
  intros k q x. unfold del_key, keys. rewrite !in_map_iff. split.
  - intros [e [H1 H2]]. apply filter_In in H2. destruct H2 as [H2 H3]. split; [exists e; auto|].
    apply negb_true_iff, N.eqb_neq in H3. congruence.
  - intros [[e [H1 H2]] H3]. exists e. split; auto. apply filter_In. split; auto.
    apply negb_true_iff, N.eqb_neq. congruence.
Qed.

Lemma keys_map_snd : forall (f : N * list N -> list N) q, keys (map (fun e => (fst e, f e)) q) = keys q.
Proof. intros. unfold keys. rewrite map_map. simpl. reflexivity. Qed.

Lemma assocN_In : forall A k (l : list (N * A)) v, assocN k l = Some v -> In k (map fst l).
Proof.
  induction l as [|[k' v'] l IH]; simpl; intros v H; [discriminate|].
  destruct (N.eqb k k') eqn:E.
  - apply N.eqb_eq in E. auto.
  - right. eauto.
Qed.

Lemma enqueue_fold : forall pm seen outs q err q' err',
  fold_left (enqueue pm seen) outs (q, err) = (q', err') ->
  (forall k, In k (keys q) -> In k (keys q')) /\
  (forall k, In k (keys q') -> In k (keys q) \/ (In k outs /\ In k (map fst pm))) /\
  (err' = 0 -> err = 0 /\ forall y, In y outs -> In y (keys q')).
Proof.
  induction outs as [|n outs IH]; intros q err q' err' H; simpl in H.
  - inversion H; subst. split; [auto|]. split; [auto|]. intros He. split; [exact He|]. intros y [].
  - destruct (has_key n q) eqn:Ek.
    + destruct (IH _ _ _ _ H) as [A [B C]]. split; [exact A|]. split.
      * intros k Hk. destruct (B k Hk) as [?|[? ?]]; auto. right. split; auto. right. auto.
      * intros He. destruct (C He) as [C1 C2]. split; [exact C1|].
        intros y [Hy|Hy]; [subst; apply A; apply has_key_In; exact Ek | apply C2; auto].
    + destruct (assocN n pm) as [p|] eqn:Ep.
      * destruct (IH _ _ _ _ H) as [A [B C]]. split; [|split].
        -- intros k Hk. apply A. unfold keys. rewrite map_app. apply in_or_app. left. exact Hk.
        -- intros k Hk. destruct (B k Hk) as [Hq|[? ?]].
           ++ unfold keys in Hq. rewrite map_app in Hq. apply in_app_or in Hq. destruct Hq as [Hq|[Hq|[]]]; auto.
              simpl in Hq. subst k. right. split; [left; reflexivity | eapply assocN_In; eauto].
           ++ right. split; auto. right. auto.
        -- intros He. destruct (C He) as [C1 C2]. split; [exact C1|].
           intros y [Hy|Hy]; [|apply C2; auto]. subst y. apply A. unfold keys. rewrite map_app.
           apply in_or_app. right. left. reflexivity.
      * destruct (IH _ _ _ _ H) as [A [B C]]. split; [exact A|]. split.
        -- intros k Hk. destruct (B k Hk) as [?|[? ?]]; auto. right. split; auto. right. auto.
        -- intros He. destruct (C He) as [F _]. discriminate.
Qed.

Fixpoint pf_rev (root : N) (es : list edge) (ro : list N) : Prop :=
  match ro with
  | [] => True
  | b :: earlier => ((earlier = [] /\ b = root) \/ exists p, In p earlier /\ In (p, b) es) /\ pf_rev root es earlier
  end.

Record oinv (root : N) (pm : list (N * list N)) (es : list edge) (s : ost) : Prop := {
  oi_nodup : NoDup (o_order s);
  oi_seen : forall x, In x (o_seen s) <-> In x (o_order s);
  oi_reach : forall x, In x (o_order s) \/ In x (keys (o_queue s)) -> reach es root x;
  oi_closed : o_err s = 0 ->
              (In root (o_seen s) \/ In root (keys (o_queue s))) /\
              forall x y, In x (o_order s) -> In (x, y) es -> In y (o_seen s) \/ In y (keys (o_queue s));
  oi_pf : pf_rev root es (o_order s);
  oi_qpred : forall k, In k (keys (o_queue s)) ->
             (o_order s = [] /\ k = root) \/ exists p, In p (o_order s) /\ In (p, k) es;
  oi_init : o_order s = [] -> keys (o_queue s) = [root];
  oi_nodes : forall k, In k (o_order s) \/ In k (keys (o_queue s)) -> In k (map fst pm)
}.

Lemma insertN_In : forall x n l, In x (insertN n l) <-> x = n \/ In x l.
Proof.
  induction l as [|y t IH]; simpl.
  - intuition.
  - destruct (N.ltb n y).
    + simpl. intuition.
    + destruct (N.eqb n y) eqn:E.
      * apply N.eqb_eq in E. subst. simpl. intuition.
      * simpl. rewrite IH. intuition.
Qed.

Lemma ostep_inv : forall pick root pm es s,
  pick_ok pick -> oinv root pm es s -> ofin s = false -> oinv root pm es (ostep pick pm es s).
Proof.
  intros pick root pm es s Hpick I Hfin.
  unfold ofin in Hfin. apply orb_false_elim in Hfin. destruct Hfin as [He Hq].
  apply negb_false_iff, Nat.eqb_eq in He.
  assert (Hne : o_queue s <> []) by (destruct (o_queue s); [discriminate | discriminate]).
  pose proof (Hpick _ Hne) as Hnode.
  unfold ostep. set (node := pick (o_queue s)) in *. set (q1 := del_key node (o_queue s)).
  destruct I as [Ind Iseen Ireach Iclosed Ipf Iqp Iinit Inodes].
  destruct (memN node (o_seen s)) eqn:Es.
  - (* already seen: just dropped from the queue *)
    apply memN_In in Es.
    constructor; simpl; auto.
    + intros x [H|H]; apply Ireach; auto. apply del_key_In in H. tauto.
    + intros He'. destruct (Iclosed He') as [Hr Hc]. split.
      * destruct Hr as [Hr|Hr]; auto. destruct (N.eq_dec root node) as [E|E]; [subst; auto|].
        right. apply del_key_In. auto.
      * intros x y Hx Hxy. destruct (Hc x y Hx Hxy) as [H|H]; auto.
        destruct (N.eq_dec y node) as [E|E]; [rewrite E; auto|]. right. apply del_key_In. auto.
    + intros k Hk. apply del_key_In in Hk. apply Iqp. tauto.
    + intros Ho. exfalso. apply Iseen in Es. rewrite Ho in Es. exact Es.
    + intros k [H|H]; apply Inodes; auto. apply del_key_In in H. tauto.
  - apply memN_false in Es.
    destruct (fold_left (enqueue pm (insertN node (o_seen s))) (outgoing es node)
                (map (fun e => (fst e, removeN node (snd e))) q1, o_err s)) as [q3 err'] eqn:Ef.
    destruct (enqueue_fold _ _ _ _ _ _ _ Ef) as [A [B C]].
    rewrite keys_map_snd in A, B.
    assert (Hq1 : forall k, In k (keys q1) <-> In k (keys (o_queue s)) /\ k <> node)
      by (intro; apply del_key_In).
    constructor; simpl.
    + constructor; auto. intro F. apply Es. apply Iseen. exact F.
    + intros x. rewrite insertN_In, Iseen. split; intros [H|H]; auto.
    + intros x [[H|H]|H].
      * subst x. apply Ireach. auto.
      * apply Ireach. auto.
      * destruct (B x H) as [H'|[H' _]].
        -- apply Ireach. right. apply Hq1 in H'. tauto.
        -- apply rt_trans with node; [apply Ireach; auto|]. apply rt_step. apply outgoing_In. exact H'.
    + intros He'. destruct (C He') as [He0 Hout]. destruct (Iclosed He0) as [Hr Hc]. split.
      * destruct Hr as [Hr|Hr]; [left; apply insertN_In; auto|].
        destruct (N.eq_dec root node) as [E|E]; [left; apply insertN_In; auto|].
        right. apply A. apply Hq1. auto.
      * intros x y [Hx|Hx] Hxy.
        -- subst x. right. apply Hout. apply outgoing_In. exact Hxy.
        -- destruct (Hc x y Hx Hxy) as [H|H]; [left; apply insertN_In; auto|].
           destruct (N.eq_dec y node) as [E|E]; [left; apply insertN_In; auto|]. right. apply A. apply Hq1. auto.
    + split; [|exact Ipf]. destruct (Iqp node Hnode) as [[H1 H2]|H]; [left; split; assumption | right; exact H].
    + intros k Hk. right. destruct (B k Hk) as [H|[H _]].
      * apply Hq1 in H. destruct H as [H Hn]. destruct (Iqp k H) as [[H1 H2]|[p [Hp Hpk]]].
        -- exfalso. rewrite (Iinit H1) in Hnode, H. simpl in Hnode, H.
           destruct Hnode as [Hnode|[]], H as [H|[]]. congruence.
        -- exists p. auto.
      * exists node. split; auto. apply outgoing_In. exact H.
    + discriminate.
    + intros k [[H|H]|H].
      * subst k. apply Inodes. auto.
      * apply Inodes. auto.
      * destruct (B k H) as [H'|[_ H']]; auto. apply Inodes. right. apply Hq1 in H'. tauto.
Qed.

Lemma pf_rev_head : forall root es ro, pf_rev root es ro -> ro <> [] -> exists l, rev ro = root :: l.
Proof.
  induction ro as [|b earlier IH]; intros H Hne; [congruence|].
  simpl in H. destruct H as [Hb Hr]. destruct earlier as [|e earlier'].
  - destruct Hb as [[_ Hb]|[p [[] _]]]. subst. exists []. reflexivity.
  - destruct (IH Hr ltac:(discriminate)) as [l Hl]. exists (l ++ [b]).
    change (rev (b :: e :: earlier')) with (rev (e :: earlier') ++ [b]). rewrite Hl. reflexivity.
Qed.

Lemma pf_rev_positional : forall root es ro, pf_rev root es ro ->
  forall l1 b l2, rev ro = l1 ++ b :: l2 -> l1 <> [] -> exists p, In p l1 /\ In (p, b) es.
Proof.
  induction ro as [|x earlier IH]; intros H l1 b l2 E Hne.
  - destruct l1; discriminate.
  - simpl in H, E. destruct H as [Hx Hr].
    destruct (exists_last (l := b :: l2) ltac:(discriminate)) as [m [z Em]].
    rewrite Em in E. rewrite app_assoc in E. apply app_inj_tail in E. destruct E as [E Ez]. subst z.
    destruct m as [|b' m'].
    + (* b is the op just added *)
      simpl in Em. inversion Em; subst. rewrite app_nil_r in E. subst l1.
      destruct Hx as [[He _]|[p [Hp Hpe]]].
      * subst earlier. simpl in Hne. congruence.
      * exists p. split; auto. apply in_rev in Hp. exact Hp.
    + simpl in Em. inversion Em; subst. eapply IH; eauto.
Qed.

Lemma set_assoc_keys : forall A k (v : A) l, map fst (set_assoc k v l) = map fst l.
Proof.
  induction l as [|[k' v'] l IH]; simpl; auto. destruct (N.eqb k k') eqn:E; simpl.
  - apply N.eqb_eq in E. subst. reflexivity.
  - rewrite IH. reflexivity.
Qed.

Lemma compute_predecessors_keys : forall nodes es pm,
  compute_predecessors nodes es = Ok pm -> map fst pm = nodes.
Proof.
  intros nodes es pm H. unfold compute_predecessors in H.
  set (s0 := mkP (map (fun n => (n, [n])) nodes) [] nodes [] 0) in *.
  assert (P : map fst (p_map (run (pstep es) pfin (pred_fuel nodes es) s0)) = nodes).
  { apply (run_inv _ (pstep es) pfin (fun s => map fst (p_map s) = nodes)).
    - intros s Hs _. unfold pstep. destruct (p_todo s) as [|[f n] rest].
      + destruct (p_starts s); auto. destruct (memN n (p_disc s)); auto.
      + destruct (assocN n (p_map s)); [|exact Hs]. destruct (assocN f (p_map s)); [|exact Hs].
        destruct (length l =? length (unionN l l0)); simpl; auto. rewrite set_assoc_keys. exact Hs.
    - simpl. rewrite map_map. simpl. apply map_id. }
  destruct (p_err (run (pstep es) pfin (pred_fuel nodes es) s0)); try discriminate.
  destruct (pfin (run (pstep es) pfin (pred_fuel nodes es) s0)); try discriminate.
  injection H as E. subst pm. exact P.
Qed.

Lemma order_nodes_gen_spec : forall pick root rest es order,
  pick_ok pick ->
  order_nodes_gen pick (root :: rest) es = Ok order ->
  NoDup order /\
  (exists tl, order = root :: tl) /\
  (forall b, In b order <-> reach es root b) /\
  (forall b, In b order -> In b (root :: rest)) /\
  (forall l1 b l2, order = l1 ++ b :: l2 -> l1 <> [] -> exists p, In p l1 /\ In (p, b) es).
Proof.
  intros pick root rest es order Hpick H. unfold order_nodes_gen in H.
  destruct (compute_predecessors (root :: rest) es) as [pm|] eqn:Epm; [|discriminate].
  simpl in H. pose proof (compute_predecessors_keys _ _ _ Epm) as Hkeys.
  destruct (assocN root pm) as [rp|] eqn:Erp; [|discriminate].
  set (s0 := mkO [(root, rp)] [] [] 0) in *.
  assert (I : oinv root pm es (run (ostep pick pm es) ofin (order_fuel (root :: rest) es) s0)).
  { apply run_inv.
    - intros s Hs Hf. apply ostep_inv; auto.
    - constructor; simpl; auto.
      + constructor.
      + tauto.
      + intros x [[]|[Hx|[]]]. subst. apply rt_refl.
      + intros k [Hk|[]]. left. auto.
      + intros k [[]|[Hk|[]]]. subst. eapply assocN_In; eauto. }
  set (s := run (ostep pick pm es) ofin (order_fuel (root :: rest) es) s0) in *.
  destruct (o_err s) eqn:Eerr; [|discriminate].
  destruct (ofin s) eqn:Efin; [|discriminate].
  match type of H with (if ?c then _ else _) = _ => destruct c; [|discriminate] end.
  inversion H; subst order. clear H.
  unfold ofin in Efin. rewrite Eerr in Efin. simpl in Efin.
  destruct (o_queue s) as [|e q] eqn:Eq; [|discriminate].
  destruct I as [Ind Iseen Ireach Iclosed Ipf Iqp Iinit Inodes]. rewrite Eq in *. simpl in *.
  destruct (Iclosed Eerr) as [Hr Hc].
  assert (Hroot : In root (o_order s)) by (destruct Hr as [Hr|[]]; apply Iseen; exact Hr).
  split; [apply NoDup_rev; exact Ind|].
  split; [apply pf_rev_head with es; auto; intro F; rewrite F in Hroot; exact Hroot|].
  split; [|split].
  - intros b. rewrite <- in_rev. split.
    + intros Hb. apply Ireach. auto.
    + intros Hb. apply clos_rt_rtn1 in Hb. induction Hb as [|y z Hyz Hb IH]; auto.
      destruct (Hc y z IH Hyz) as [Hz|[]]. apply Iseen. exact Hz.
  - intros b Hb. apply in_rev in Hb.
    assert (G : In b (map fst pm)) by (apply Inodes; auto). rewrite Hkeys in G. exact G.
  - apply pf_rev_positional with root. exact Ipf.
Qed.

(* the concrete priority of order_nodes, min over (len(predecessors), node.id), picks a queued node *)
Lemma pick_min_from_In : forall q best, In (pick_min_from best q) (best :: q).
Proof.
  induction q as [|e q IH]; intros best; simpl; auto.
  destruct (IH (if prio_lt e best then e else best)) as [H|H]; auto.
  destruct (prio_lt e best); auto.
Qed.

Lemma pick_min_ok : pick_ok pick_min.
Proof.
  intros [|e q] Hne; [congruence|]. unfold pick_min, keys. apply in_map. apply pick_min_from_In.
Qed.

(* ================================================================================================ *)
(* E. compute_order: what reaches order_nodes; the SEND-free case is split + connect + order *)

Ltac inv_bind H :=
  match type of H with
  | bind ?x _ = Ok _ => let E := fresh "E" in destruct x eqn:E; cbn [bind] in H; [|discriminate]
  end.

Lemma compute_order_gen_inv : forall pick v ops r,
  compute_order_gen pick v ops = Ok r ->
  order_nodes_gen pick (map bid (r_blocks r)) (r_edges r) = Ok (r_order r) /\
  (exists fm, first_op_map (r_blocks r) [] = Ok fm) /\
  exists bs0 es0 su, split_bytecode v ops = Ok (bs0, es0) /\
    (if v then remove_jmp_to_get_anext_and_merge (remove_jump_back_block ops bs0) es0
     else Ok (mkSu bs0 es0 [] [])) = Ok su /\ r_blocks r = su_blocks su.
Proof.
  intros pick v ops r H. unfold compute_order_gen in H.
  inv_bind H. destruct a as [bs0 es0]. inv_bind H. inv_bind H. inv_bind H. inv_bind H.
  inversion H; subst r; simpl. split; [exact E3|]. split; [eauto|].
  exists bs0, es0, a. auto.
Qed.

Lemma first_op_map_nonempty : forall bs acc fm, first_op_map bs acc = Ok fm -> Forall (fun b => code b <> []) bs.
Proof.
  induction bs as [|b bs IH]; intros acc fm H; simpl in H; [constructor|].
  destruct (code b) eqn:E; [discriminate|]. constructor; [congruence | eauto].
Qed.

Lemma filter_all : forall A (f : A -> bool) l, (forall x, In x l -> f x = true) -> filter f l = l.
Proof.
  induction l as [|a l IH]; intros H; simpl; auto. rewrite (H a (or_introl eq_refl)). f_equal.
  apply IH. intros; apply H; right; auto.
Qed.

Lemma delete_positions_nil : forall A (l : list A) pos, delete_positions [] l pos = l.
Proof. induction l; intros; simpl; auto. f_equal. apply IHl. Qed.

Definition plain_block (b : block) : Prop :=
  forall o, In o (code b) -> is_op op_CLEANUP_THROW o = false /\ eaft o = None.

Lemma plain_not_jump_back : forall ops b, plain_block b -> is_jump_back_block ops b = false.
Proof.
  intros ops b H. unfold is_jump_back_block. destruct (rev (code b)) as [|last [|snd rest]] eqn:E; auto.
  assert (Hin : In snd (code b)). { apply in_rev. rewrite E. right. left. reflexivity. }
  destruct (H snd Hin) as [Hc _]. rewrite Hc. rewrite andb_false_r. reflexivity.
Qed.

Lemma merge_list_plain : forall all bs pos, Forall plain_block bs -> merge_list_of all bs pos = Ok [].
Proof.
  induction bs as [|b bs IH]; intros pos H; simpl; auto.
  inversion H as [|? ? Hb Hbs]; subst.
  assert (G : forall l, (forall o, In o l -> eaft o = None) ->
              map_res (fun o => match eaft o with
                                | None => Ok None
                                | Some e => match find_block_of e all 0 None with
                                            | Some m => Ok (Some (pos, m))
                                            | None => Err 4
                                            end
                                end) l = Ok (map (fun _ => None) l)).
  { induction l as [|o l IHl]; intros Hl; simpl; auto.
    rewrite (Hl o (or_introl eq_refl)). cbn [bind]. rewrite IHl by (intros; apply Hl; right; auto).
    reflexivity. }
  rewrite G by (intros o Ho; apply (Hb o Ho)). cbn [bind]. rewrite (IH (S pos) Hbs). cbn [bind].
  f_equal. rewrite app_nil_r. induction (code b); simpl; auto.
Qed.

Lemma retarget_plain : forall bs rt, Forall (fun b => code b <> []) bs ->
  fold_left (retarget_step []) bs (Ok rt) = Ok rt.
Proof.
  induction bs as [|b bs IH]; intros rt H; simpl; auto. inversion H; subst.
  destruct (rev (code b)) eqn:E.
  - exfalso. apply (f_equal (@rev _)) in E. rewrite rev_involutive in E. simpl in E. auto.
  - destruct (eff_target rt i); simpl; apply IH; auto.
Qed.

Lemma surgery_plain : forall ops bs es,
  Forall plain_block bs -> Forall (fun b => code b <> []) bs ->
  remove_jmp_to_get_anext_and_merge (remove_jump_back_block ops bs) es = Ok (mkSu bs es [] []).
Proof.
  intros ops bs es Hp Hne.
  assert (E : remove_jump_back_block ops bs = bs).
  { unfold remove_jump_back_block. apply filter_all. intros b Hb. rewrite Forall_forall in Hp.
    rewrite plain_not_jump_back; auto. }
  rewrite E. unfold remove_jmp_to_get_anext_and_merge. rewrite merge_list_plain by exact Hp.
  cbn [bind fold_left map m_blocks m_map m_edges m_processed]. rewrite delete_positions_nil.
  rewrite retarget_plain by exact Hne. cbn [bind]. rewrite rev_involutive. reflexivity.
Qed.

Lemma plainb_spec : forall ops, plainb ops = true ->
  forall o, In o ops -> is_op op_SEND o = false /\ is_op op_CLEANUP_THROW o = false /\ eaft o = None.
Proof.
  intros ops H o Ho. unfold plainb in H. rewrite forallb_forall in H. specialize (H o Ho).
  apply andb_prop in H. destruct H as [H H3]. apply andb_prop in H. destruct H as [H1 H2].
  apply negb_true_iff in H1, H2. destruct (eaft o); [discriminate|]. auto.
Qed.

Lemma compute_order_plain : forall pick v ops r,
  wf_opsb ops = true -> plainb ops = true ->
  compute_order_gen pick v ops = Ok r ->
  split_bytecode v ops = Ok (r_blocks r, []) /\ r_retarget r = [].
Proof.
  intros pick v ops r Hwf Hpl H.
  assert (Hns : nosend v ops).
  { intros o Ho. destruct (plainb_spec _ Hpl o Ho) as [E _]. rewrite E. apply andb_false_r. }
  pose proof H as H0. unfold compute_order_gen in H0.
  inv_bind H0. destruct a as [bs0 es0].
  destruct (split_plain_shape v ops bs0 es0 Hns E) as [_ Ees]. subst es0.
  destruct (split_partition_lemma v ops bs0 [] (wf_last_next _ (wf_opsb_links _ Hwf)) E) as [Hcat Hok].
  assert (Hp : Forall plain_block bs0).
  { apply Forall_forall. intros b Hb o Ho.
    assert (Hin : In o ops).
    { rewrite <- Hcat. apply in_concat. exists (code b). split; auto. apply in_map. exact Hb. }
    destruct (plainb_spec _ Hpl o Hin) as [_ [A B]]. auto. }
  assert (Hne : Forall (fun b => code b <> []) bs0).
  { eapply Forall_impl; [|exact Hok]. intros b [o [c [Ec _]]]. congruence. }
  assert (Esu : (if v then remove_jmp_to_get_anext_and_merge (remove_jump_back_block ops bs0) []
                 else Ok (mkSu bs0 [] [] [])) = Ok (mkSu bs0 [] [] [])).
  { destruct v; auto. apply surgery_plain; auto. }
  rewrite Esu in H0. cbn [bind su_blocks su_edges su_processed su_retarget] in H0.
  inv_bind H0. inv_bind H0. inv_bind H0. inversion H0; subst r. simpl. auto.
Qed.

(* ================================================================================================ *)
(* F. statements in the form used by Props/C16.v *)

Lemma has_dup_not_NoDup : forall l, has_dup l = true -> ~ NoDup l.
Proof.
  induction l as [|x l IH]; simpl; intros H Hn; [discriminate|].
  inversion Hn; subst. apply orb_prop in H. destruct H as [H|H].
  - apply memN_In in H. contradiction.
  - apply IH; auto.
Qed.

Lemma wf_links_idx_seq : forall ops pos n, wf_links ops pos n = true ->
  map idx ops = map N.of_nat (seq pos (length ops)).
Proof.
  induction ops as [|o ops IH]; intros pos n H; simpl in *; auto.
  apply andb_prop in H. destruct H as [H Ht]. apply andb_prop in H. destruct H as [H _].
  apply andb_prop in H. destruct H as [H _]. apply N.eqb_eq in H. rewrite H. f_equal. eapply IH; eauto.
Qed.

Lemma wf_links_NoDup : forall ops, wf_links ops 0 (length ops) = true -> NoDup (map idx ops).
Proof.
  intros ops H. rewrite (wf_links_idx_seq _ _ _ H).
  apply Injective_map_NoDup; [|apply seq_NoDup].
  intros a b E. apply Nnat.Nat2N.inj. exact E.
Qed.

Lemma has_flag_opc : forall o o' m, opc o' = opc o -> has_flag o' m = has_flag o m.
Proof. intros o o' m E. unfold has_flag. rewrite E. reflexivity. Qed.

Lemma ajt_one_resolved : forall n all o2i o it o',
  ajt_one n all o2i (o, it) = Ok o' -> has_known_jump o' = true -> exists t, target o' = Some t.
Proof.
  intros n all o2i o it o' H Hj. unfold ajt_one in H. destruct (ipreset it).
  - destruct (index_of_item n0 all); [|discriminate]. inversion H; subst. simpl. eauto.
  - destruct (has_known_jump o) eqn:Eo.
    + destruct (iarg it); [|discriminate]. destruct (assocN n0 o2i); [|discriminate].
      destruct (N.to_nat n1 <? n); [|discriminate]. inversion H; subst. simpl. eauto.
    + inversion H; subst. congruence.
Qed.

Lemma indices_consistent_lemma : forall minor items ops,
  build_ops minor items = Ok ops ->
  forall i o, nth_error ops i = Some o ->
    idx o = N.of_nat i /\
    next o = (if S i <? length ops then Some (N.of_nat (S i)) else None) /\
    prev o = (match i with O => None | S p => Some (N.of_nat p) end) /\
    (forall t, target o = Some t -> N.to_nat t < length ops) /\
    (has_known_jump o = true -> exists t, target o = Some t).
Proof.
  intros minor items ops H i o Hi.
  destruct (build_ops_wf _ _ _ H) as [Hl Ht].
  destruct (wf_links_spec _ _ _ Hl i o Hi) as [A [B C]]. simpl in A, B, C.
  split; [exact A|]. split; [exact B|]. split; [exact C|]. split.
  - intros t E. eapply Ht; eauto. eapply nth_error_In; eauto.
  - unfold build_ops in H. destruct (mol_loop minor items [] [] 0%N) as [all o2i].
    destruct (map_res_nth _ _ _ _ _ H i o Hi) as [[o0 it] [_ Hf]].
    eapply ajt_one_resolved; eauto.
Qed.

Definition block_wf (b : block) : Prop := exists o c, code b = o :: c /\ bid b = idx o.

Lemma split_partition_full : forall v ops bs es,
  wf_opsb ops = true -> split_bytecode v ops = Ok (bs, es) ->
  concat (map code bs) = ops /\ Forall block_wf bs /\ NoDup (block_instrs bs).
Proof.
  intros v ops bs es Hwf H. pose proof (wf_opsb_links _ Hwf) as Hl.
  destruct (split_partition_lemma v ops bs es (wf_last_next _ Hl) H) as [A B].
  split; [exact A|]. split; [exact B|]. unfold block_instrs. rewrite A. apply wf_links_NoDup. exact Hl.
Qed.

Lemma plain_final_lemma : forall pick v ops r,
  wf_opsb ops = true -> plainb ops = true -> compute_order_gen pick v ops = Ok r ->
  concat (map code (r_blocks r)) = ops /\ Forall block_wf (r_blocks r) /\
  NoDup (block_instrs (r_blocks r)) /\ r_retarget r = [].
Proof.
  intros pick v ops r Hwf Hpl H. destruct (compute_order_plain _ _ _ _ Hwf Hpl H) as [Hs Hr].
  destruct (split_partition_full _ _ _ _ Hwf Hs) as [A [B C]]. auto.
Qed.

Lemma plain_targets_lemma : forall pick v ops r,
  wf_opsb ops = true -> anext_okb ops = true -> plainb ops = true ->
  compute_order_gen pick v ops = Ok r ->
  forall o t, In o ops -> target o = Some t ->
  exists b ot c, In b (r_blocks r) /\ nth_error ops (N.to_nat t) = Some ot /\
                 code b = ot :: c /\ bid b = t /\ idx ot = t.
Proof.
  intros pick v ops r Hwf Han Hpl H. destruct (compute_order_plain _ _ _ _ Hwf Hpl H) as [Hs _].
  eapply targets_start_blocks_lemma; eauto.
  intros o Ho. destruct (plainb_spec _ Hpl o Ho) as [E _]. rewrite E. apply andb_false_r.
Qed.

Lemma blocks_nonempty_lemma : forall pick v ops r,
  compute_order_gen pick v ops = Ok r -> Forall (fun b => code b <> []) (r_blocks r).
Proof.
  intros pick v ops r H. destruct (compute_order_gen_inv _ _ _ _ H) as [_ [[fm Hfm] _]].
  eapply first_op_map_nonempty; eauto.
Qed.

Lemma order_lemma : forall pick v ops r,
  pick_ok pick -> compute_order_gen pick v ops = Ok r ->
  match r_blocks r with
  | [] => r_order r = []
  | b0 :: _ =>
    NoDup (r_order r) /\
    (exists tl, r_order r = bid b0 :: tl) /\
    (forall b, In b (r_order r) <-> reach (r_edges r) (bid b0) b) /\
    (forall b, In b (r_order r) -> In b (map bid (r_blocks r))) /\
    (forall l1 b l2, r_order r = l1 ++ b :: l2 -> l1 <> [] ->
                     exists p, In p l1 /\ In (p, b) (r_edges r))
  end.
Proof.
  intros pick v ops r Hp H. destruct (compute_order_gen_inv _ _ _ _ H) as [Ho _].
  destruct (r_blocks r) as [|b0 rest]; simpl in Ho.
  - inversion Ho. reflexivity.
  - eapply order_nodes_gen_spec; eauto.
Qed.

Lemma order_complete_nodup_lemma : forall (pick : queue -> N) (v312 : bool) (ops : list instr) (r : ordered),
  pick_ok pick -> compute_order_gen pick v312 ops = Ok r ->
  match r_blocks r with
  | [] => r_order r = []
  | b0 :: _ =>
    NoDup (r_order r) /\
    (exists tl, r_order r = bid b0 :: tl) /\
    (forall b, In b (r_order r) <-> clos_refl_trans N (fun x y => In (x, y) (r_edges r)) (bid b0) b) /\
    (forall b, In b (r_order r) -> In b (map bid (r_blocks r)))
  end.
Proof.
  intros pick v ops r Hp H. pose proof (order_lemma pick v ops r Hp H) as L.
  destruct (r_blocks r); [exact L|]. destruct L as [A [B [C [D _]]]]. auto.
Qed.

Lemma order_pred_first_lemma : forall (pick : queue -> N) (v312 : bool) (ops : list instr) (r : ordered),
  pick_ok pick -> compute_order_gen pick v312 ops = Ok r ->
  forall l1 b l2, r_order r = l1 ++ b :: l2 -> l1 <> [] ->
  exists p, In p l1 /\ In (p, b) (r_edges r).
Proof.
  intros pick v ops r Hp H. pose proof (order_lemma pick v ops r Hp H) as L.
  destruct (r_blocks r) eqn:E.
  - intros l1 b l2 Ho. rewrite L in Ho. destruct l1; discriminate.
  - destruct L as [_ [_ [_ [_ L]]]]. exact L.
Qed.

(* ================================================================================================ *)
(* G. the surgery never invents instructions; SEND-free well-formed code connects without KeyError *)

Definition blocks_in (ops : list instr) (bs : list block) : Prop :=
  forall b, In b bs -> incl (code b) ops.

Lemma split_blocks_in : forall v ops bs es, split_bytecode v ops = Ok (bs, es) -> blocks_in ops bs.
Proof.
  intros v ops bs es H. unfold split_bytecode in H.
  destruct (split_fold_content v ops (targets ops) ops split_init split_init_inv) as [E _].
  set (st := fold_left (split_step v ops (targets ops)) ops split_init) in *.
  destruct (s_mode st); try discriminate. destruct (s_err st); try discriminate.
  inversion H; subst bs es. intros b Hb o Ho.
  assert (G : In o (content st)).
  { unfold content. apply in_or_app. left. apply in_concat. exists (code b). split; auto.
    apply in_map. exact Hb. }
  rewrite E in G. exact G.
Qed.

Lemma upd_In : forall A i (y : A) l x, In x (upd i y l) -> x = y \/ In x l.
Proof.
  induction i; intros y [|h t] x H; simpl in H; auto.
  - destruct H; auto. right. right. auto.
  - destruct H as [H|H]; [right; left; auto|]. destruct (IHi _ _ _ H); auto. right. right. auto.
Qed.

Lemma delete_positions_In : forall A del (l : list A) pos x, In x (delete_positions del l pos) -> In x l.
Proof.
  induction l as [|a l IH]; intros pos x H; simpl in H; auto.
  destruct (existsb (Nat.eqb pos) del).
  - right. eapply IH; eauto.
  - destruct H; [left; auto | right; eapply IH; eauto].
Qed.

Lemma merge_step_in : forall ops st p st',
  merge_step (Ok st) p = Ok st' -> blocks_in ops (m_blocks st) -> blocks_in ops (m_blocks st').
Proof.
  intros ops st [bi mi] st' H Hin. unfold merge_step in H. cbn [bind] in H.
  destruct (nth_error (m_blocks st) bi) as [b|] eqn:Eb; [|discriminate].
  destruct (rev (code b)) as [|jb r] eqn:Er; [discriminate|].
  set (bs1 := upd bi (set_code b (rev r)) (m_blocks st)) in *.
  destruct (nth_error bs1 mi) as [m|] eqn:Em; [|discriminate].
  set (bs2 := upd bi (set_code b (rev r ++ code m)) bs1) in *.
  destruct (nth_error bs2 mi) as [m2|]; [|discriminate].
  destruct (code m2); [discriminate|]. inversion H; subst st'. simpl.
  assert (Hb : incl (code b) ops) by (apply Hin; eapply nth_error_In; eauto).
  assert (Hr : incl (rev r) ops).
  { intros o Ho. apply Hb. apply in_rev. rewrite Er. right. apply in_rev in Ho. exact Ho. }
  assert (H1 : blocks_in ops bs1).
  { intros x Hx. apply upd_In in Hx. destruct Hx as [Hx|Hx]; [subst x; exact Hr | auto]. }
  intros x Hx. apply upd_In in Hx. destruct Hx as [Hx|Hx]; [|auto].
  subst x. simpl. apply incl_app; auto. apply H1. eapply nth_error_In; eauto.
Qed.

Lemma merge_fold_in : forall ops ml st st',
  fold_left merge_step ml (Ok st) = Ok st' -> blocks_in ops (m_blocks st) -> blocks_in ops (m_blocks st').
Proof.
  induction ml as [|p ml IH]; intros st st' H Hin; cbn [fold_left] in H.
  - inversion H; subst. exact Hin.
  - destruct (merge_step (Ok st) p) as [st1|c] eqn:E.
    + eapply IH; eauto. eapply merge_step_in; eauto.
    + exfalso. clear - H. induction ml as [|q ml IHm]; cbn [fold_left] in H; [discriminate|].
      apply IHm. exact H.
Qed.

Lemma surgery_blocks_in : forall ops bs es su,
  remove_jmp_to_get_anext_and_merge bs es = Ok su -> blocks_in ops bs -> blocks_in ops (su_blocks su).
Proof.
  intros ops bs es su H Hin. unfold remove_jmp_to_get_anext_and_merge in H.
  inv_bind H. inv_bind H. inv_bind H. inversion H; subst su. simpl.
  intros b Hb. apply delete_positions_In in Hb.
  exact (merge_fold_in ops _ _ _ E0 Hin b Hb).
Qed.

Lemma instructions_from_ops_lemma : forall pick v ops r,
  compute_order_gen pick v ops = Ok r ->
  forall b o, In b (r_blocks r) -> In o (code b) -> In o ops.
Proof.
  intros pick v ops r H b o Hb Ho.
  destruct (compute_order_gen_inv _ _ _ _ H) as [_ [_ [bs0 [es0 [su [Hs [Hsu Hr]]]]]]].
  pose proof (split_blocks_in _ _ _ _ Hs) as H0.
  assert (G : blocks_in ops (su_blocks su)).
  { destruct v.
    - eapply surgery_blocks_in; eauto. intros x Hx. apply H0.
      unfold remove_jump_back_block in Hx. apply filter_In in Hx. tauto.
    - inversion Hsu; subst su. exact H0. }
  rewrite Hr in Hb. exact (G b Hb o Ho).
Qed.

(* ---- connect ---- *)
Lemma assocN_Some_of_In : forall A k (v : A) l, In (k, v) l -> exists v', assocN k l = Some v'.
Proof.
  induction l as [|[k' v'] l IH]; intros H; simpl in *; [contradiction|].
  destruct (N.eqb k k') eqn:E; eauto. destruct H as [H|H]; [|auto].
  inversion H; subst. rewrite N.eqb_refl in E. discriminate.
Qed.

Lemma first_op_map_total : forall bs acc,
  Forall (fun b => code b <> []) bs ->
  exists fm, first_op_map bs acc = Ok fm /\
    (forall kv, In kv acc -> In kv fm) /\
    (forall b o c, In b bs -> code b = o :: c -> In (idx o, bid b) fm).
Proof.
  induction bs as [|b bs IH]; intros acc H; simpl.
  - exists acc. repeat split; auto. intros b o c [].
  - inversion H as [|? ? Hb Hbs]; subst. destruct (code b) as [|o c] eqn:E; [congruence|].
    destruct (IH ((idx o, bid b) :: acc) Hbs) as [fm [E1 [E2 E3]]].
    exists fm. split; [exact E1|]. split.
    + intros kv Hkv. apply E2. right. exact Hkv.
    + intros b' o' c' [Hb'|Hb'] Ec.
      * subst b'. rewrite E in Ec. inversion Ec; subst. apply E2. left. reflexivity.
      * eapply E3; eauto.
Qed.

Lemma eff_target_nil : forall o, eff_target [] o = target o.
Proof. reflexivity. Qed.

Lemma connect_target_ok : forall fm from t e,
  (forall x, t = Some x -> exists b, assocN x fm = Some b) ->
  exists e', connect_target fm from t (Ok e) = Ok e'.
Proof.
  intros fm from t e H. unfold connect_target. cbn [bind]. destruct t as [x|]; eauto.
  destruct (H x eq_refl) as [b Hb]. rewrite Hb. eauto.
Qed.

Lemma connect_loop_total : forall fm bs e,
  (forall b o x, In b bs -> In o (code b) -> (target o = Some x \/ block_target o = Some x) ->
                 exists b', assocN x fm = Some b') ->
  Forall (fun b => code b <> []) bs ->
  exists e', connect_loop fm [] [] bs (Ok e) = Ok e'.
Proof.
  induction bs as [|b t IH]; intros e Hres Hne; simpl; eauto.
  inversion Hne as [|? ? Hb Ht]; subst.
  destruct (code b) as [|first c] eqn:Ec; [congruence|].
  destruct (rev (first :: c)) as [|last r] eqn:Er.
  { exfalso. apply (f_equal (@length _)) in Er. rewrite rev_length in Er. discriminate. }
  assert (Hlast : In last (code b)).
  { rewrite Ec. apply in_rev. rewrite Er. left. reflexivity. }
  assert (Hfirst : In first (code b)) by (rewrite Ec; left; reflexivity).
  assert (Hb0 : In b (b :: t)) by (left; reflexivity).
  assert (H1 : exists e1, match t with
                          | [] => Ok e
                          | nb :: _ => if negb (no_next last) then Ok ((bid b, bid nb) :: e) else Ok e
                          end = Ok e1).
  { destruct t; eauto. destruct (negb (no_next last)); eauto. }
  destruct H1 as [e1 H1]. rewrite H1.
  destruct (connect_target_ok fm (bid b) (eff_target [] first) e1) as [e2 H2].
  { intros x Hx. apply (Hres b first x Hb0 Hfirst). left. exact Hx. }
  rewrite H2.
  destruct (connect_target_ok fm (bid b) (eff_target [] last) e2) as [e3 H3].
  { intros x Hx. apply (Hres b last x Hb0 Hlast). left. exact Hx. }
  rewrite H3.
  destruct (connect_target_ok fm (bid b) (block_target last) e3) as [e4 H4].
  { intros x Hx. apply (Hres b last x Hb0 Hlast). right. exact Hx. }
  rewrite H4.
  apply IH; auto. intros b' o x Hb' Ho Hx. exact (Hres b' o x (or_intror Hb') Ho Hx).
Qed.

Lemma in_targets : forall ops t, In t (targets ops) -> exists o, In o ops /\ target o = Some t.
Proof.
  intros ops t H. unfold targets in H. apply in_flat_map in H. destruct H as [o [Ho Ht]].
  exists o. split; auto. destruct (target o); simpl in Ht; [|contradiction]. destruct Ht as [Ht|[]]. congruence.
Qed.

Lemma wf_opsb_block_target : forall ops o t, wf_opsb ops = true -> In o ops -> block_target o = Some t ->
  In t (targets ops).
Proof.
  intros ops o t H Hin Ht. unfold wf_opsb in H. apply andb_prop in H. destruct H as [_ H].
  rewrite forallb_forall in H. specialize (H o Hin). rewrite Ht in H.
  apply andb_prop in H. destruct H as [_ H]. apply memN_In. exact H.
Qed.

Lemma plain_connect_total_lemma : forall v ops,
  wf_opsb ops = true -> anext_okb ops = true -> plainb ops = true ->
  exists bs fm es,
    split_bytecode v ops = Ok (bs, []) /\
    (if v then remove_jmp_to_get_anext_and_merge (remove_jump_back_block ops bs) []
     else Ok (mkSu bs [] [] [])) = Ok (mkSu bs [] [] []) /\
    first_op_map bs [] = Ok fm /\
    connect_loop fm [] [] bs (Ok []) = Ok es.
Proof.
  intros v ops Hwf Han Hpl.
  assert (Hns : nosend v ops).
  { intros o Ho. destruct (plainb_spec _ Hpl o Ho) as [E _]. rewrite E. apply andb_false_r. }
  (* split returns *)
  destruct (split_plain_fold v ops (targets ops) ops split_init eq_refl Hns (Forall_nil _) (Forall_nil _))
    as [A [_ [_ [D E]]]].
  assert (Hs : exists bs, split_bytecode v ops = Ok (bs, [])).
  { unfold split_bytecode. rewrite A, E. simpl. rewrite D. simpl. eauto. }
  destruct Hs as [bs Hs]. exists bs.
  destruct (split_partition_lemma v ops bs [] (wf_last_next _ (wf_opsb_links _ Hwf)) Hs) as [Hcat Hok].
  assert (Hne : Forall (fun b => code b <> []) bs).
  { eapply Forall_impl; [|exact Hok]. intros b [o [c [Ec _]]]. congruence. }
  assert (Hp : Forall plain_block bs).
  { apply Forall_forall. intros b Hb o Ho.
    assert (Hin : In o ops).
    { rewrite <- Hcat. apply in_concat. exists (code b). split; auto. apply in_map. exact Hb. }
    destruct (plainb_spec _ Hpl o Hin) as [_ [P Q]]. auto. }
  destruct (first_op_map_total bs [] Hne) as [fm [Hfm [_ Hfm2]]].
  assert (Hres : forall b o x, In b bs -> In o (code b) -> (target o = Some x \/ block_target o = Some x) ->
                 exists b', assocN x fm = Some b').
  { intros b o x Hb Ho Hx.
    assert (Hin : In o ops).
    { rewrite <- Hcat. apply in_concat. exists (code b). split; auto. apply in_map. exact Hb. }
    assert (Ht : exists o', In o' ops /\ target o' = Some x).
    { destruct Hx as [Hx|Hx]; [eauto|]. apply in_targets. eapply wf_opsb_block_target; eauto. }
    destruct Ht as [o' [Ho' Ht']].
    destruct (targets_start_blocks_lemma v ops bs [] Hwf Han Hns Hs o' x Ho' Ht')
      as [b' [ot [c [Hb' [_ [Hc [_ Hi]]]]]]].
    apply assocN_Some_of_In with (v := bid b'). rewrite <- Hi. eapply Hfm2; eauto. }
  destruct (connect_loop_total fm bs [] Hres Hne) as [es Hes].
  exists fm, es. split; [exact Hs|]. split; [|split; assumption].
  destruct v; auto. apply surgery_plain; auto.
Qed.

(* ================================================================================================ *)
(* H. the async-for merge with SIMPLE merge lists keeps "no instruction twice" (partial) *)

Definition cnt (x : N) (l : list instr) : nat := count_occ N.eq_dec (map idx l) x.

Lemma cnt_app : forall x a b, cnt x (a ++ b) = cnt x a + cnt x b.
Proof. intros. unfold cnt. rewrite map_app, count_occ_app. reflexivity. Qed.

(* occurrences of x in the blocks that survive deleting the positions in D *)
Fixpoint live (x : N) (D : list nat) (bs : list block) (pos : nat) : nat :=
  match bs with
  | [] => 0
  | b :: t => (if existsb (Nat.eqb pos) D then 0 else cnt x (code b)) + live x D t (S pos)
  end.

Lemma live_spec : forall x D bs pos,
  live x D bs pos = cnt x (concat (map code (delete_positions D bs pos))).
Proof.
  induction bs as [|b t IH]; intros pos; simpl; auto.
  destruct (existsb (Nat.eqb pos) D); simpl.
  - apply IH.
  - rewrite cnt_app, IH. reflexivity.
Qed.

Lemma existsb_eqb_In : forall p D, existsb (Nat.eqb p) D = true <-> In p D.
Proof.
  intros. rewrite existsb_exists. split.
  - intros [y [H1 H2]]. apply Nat.eqb_eq in H2. subst. exact H1.
  - intros H. exists p. split; auto. apply Nat.eqb_refl.
Qed.

(* replacing a live block *)
Lemma live_upd : forall x D bs pos i b b',
  nth_error bs i = Some b -> ~ In (pos + i) D ->
  live x D (upd i b' bs) pos + cnt x (code b) = live x D bs pos + cnt x (code b').
Proof.
  induction bs as [|h t IH]; intros pos i b b' Hn Hd; [destruct i; discriminate|].
  destruct i; simpl in *.
  - inversion Hn; subst h. rewrite Nat.add_0_r in Hd.
    destruct (existsb (Nat.eqb pos) D) eqn:E; [apply existsb_eqb_In in E; contradiction|]. lia.
  - specialize (IH (S pos) i b b' Hn). replace (S pos + i) with (pos + S i) in IH by lia.
    specialize (IH Hd). lia.
Qed.

(* deleting one more (live) position *)
Lemma live_del : forall x D bs pos m b,
  nth_error bs m = Some b -> ~ In (pos + m) D ->
  live x ((pos + m) :: D) bs pos + cnt x (code b) = live x D bs pos.
Proof.
  induction bs as [|h t IH]; intros pos m b Hn Hd; [destruct m; discriminate|].
  destruct m; simpl in *.
  - inversion Hn; subst h. rewrite Nat.add_0_r in *. rewrite Nat.eqb_refl. simpl.
    destruct (existsb (Nat.eqb pos) D) eqn:E; [apply existsb_eqb_In in E; contradiction|].
    assert (G : forall t p, pos < p -> live x (pos :: D) t p = live x D t p).
    { clear. induction t as [|h t IH]; intros p Hp; simpl; auto.
      assert (E : (p =? pos) = false) by (apply Nat.eqb_neq; lia). rewrite E. simpl.
      rewrite IH by lia. reflexivity. }
    rewrite G by lia. lia.
  - assert (E : (pos =? pos + S m) = false) by (apply Nat.eqb_neq; lia). rewrite E. simpl.
    specialize (IH (S pos) m b Hn). replace (S pos + m) with (pos + S m) in IH by lia.
    specialize (IH Hd). lia.
Qed.

Lemma nth_error_upd_same : forall A i (y : A) l, i < length l -> nth_error (upd i y l) i = Some y.
Proof.
  induction i; intros y [|h t] H; simpl in *; try lia; auto. apply IHi. lia.
Qed.

Lemma nth_error_upd_other : forall A i j (y : A) l, i <> j -> nth_error (upd i y l) j = nth_error l j.
Proof.
  induction i; intros j y [|h t] H; simpl; auto.
  - destruct j; [congruence | reflexivity].
  - destruct j; auto. simpl. apply IHi. congruence.
Qed.

Lemma upd_upd : forall A i (y z : A) l, upd i z (upd i y l) = upd i z l.
Proof. induction i; intros y z [|h t]; simpl; auto. f_equal. apply IHi. Qed.

Lemma upd_length : forall A i (y : A) l, length (upd i y l) = length l.
Proof. induction i; intros y [|h t]; simpl; auto. Qed.

(* one merge step with bi live, mi live, bi <> mi does not increase any count *)
Lemma merge_step_live : forall x st bi mi st' D,
  merge_step (Ok st) (bi, mi) = Ok st' ->
  bi <> mi -> ~ In bi D -> ~ In mi D ->
  live x (mi :: D) (m_blocks st') 0 <= live x D (m_blocks st) 0 /\
  length (m_blocks st') = length (m_blocks st).
Proof.
  intros x st bi mi st' D H Hne Hbi Hmi. unfold merge_step in H. cbn [bind] in H.
  destruct (nth_error (m_blocks st) bi) as [b|] eqn:Eb; [|discriminate].
  destruct (rev (code b)) as [|jb r] eqn:Er; [discriminate|].
  set (bs := m_blocks st) in *.
  set (bs1 := upd bi (set_code b (rev r)) bs) in *.
  destruct (nth_error bs1 mi) as [m|] eqn:Em; [|discriminate].
  set (bs2 := upd bi (set_code b (rev r ++ code m)) bs1) in *.
  destruct (nth_error bs2 mi) as [m2|] eqn:Em2; [|discriminate].
  destruct (code m2) eqn:Ec2; [discriminate|]. inversion H; subst st'. simpl. clear H.
  assert (Em0 : nth_error bs mi = Some m).
  { unfold bs1 in Em. rewrite nth_error_upd_other in Em by exact Hne. exact Em. }
  assert (E2 : bs2 = upd bi (set_code b (rev r ++ code m)) bs) by (unfold bs2, bs1; apply upd_upd).
  assert (Em2' : nth_error bs2 mi = Some m).
  { rewrite E2, nth_error_upd_other by exact Hne. exact Em0. }
  split; [|rewrite E2; apply upd_length].
  pose proof (live_del x D bs2 0 mi m Em2' Hmi) as L2. simpl in L2.
  pose proof (live_upd x D bs 0 bi b (set_code b (rev r ++ code m)) Eb Hbi) as L1. simpl in L1.
  rewrite <- E2 in L1.
  assert (Ecode : code b = rev r ++ [jb]).
  { rewrite <- (rev_involutive (code b)), Er. reflexivity. }
  rewrite Ecode in L1. rewrite !cnt_app in L1. lia.
Qed.

Definition simple_rest (D : list nat) (ml : list (nat * nat)) : Prop :=
  NoDup (map fst ml) /\ NoDup (map snd ml) /\
  (forall a, In a (map fst ml) -> ~ In a (map snd ml) /\ ~ In a D) /\
  (forall a, In a (map snd ml) -> ~ In a D).

Lemma merge_fold_live : forall x ml st st' D,
  fold_left merge_step ml (Ok st) = Ok st' ->
  simple_rest D ml ->
  live x (rev (map snd ml) ++ D) (m_blocks st') 0 <= live x D (m_blocks st) 0.
Proof.
  induction ml as [|[bi mi] ml IH]; intros st st' D H Hs; cbn [fold_left] in H.
  - inversion H; subst. simpl. lia.
  - destruct (merge_step (Ok st) (bi, mi)) as [st1|c] eqn:E.
    2:{ exfalso. clear - H. induction ml as [|q ml IHm]; cbn [fold_left] in H; [discriminate|]. apply IHm. exact H. }
    destruct Hs as [N1 [N2 [Hf Hsn]]]. simpl in N1, N2. inversion N1; subst. inversion N2; subst.
    assert (Hbi : ~ In bi D) by (apply (Hf bi); left; reflexivity).
    assert (Hmi : ~ In mi D) by (apply Hsn; left; reflexivity).
    assert (Hne : bi <> mi).
    { intro F. destruct (Hf bi (or_introl eq_refl)) as [G _]. apply G. left. auto. }
    destruct (merge_step_live x st bi mi st1 D E Hne Hbi Hmi) as [L _].
    assert (Hs' : simple_rest (mi :: D) ml).
    { split; [assumption|]. split; [assumption|]. split.
      - intros a Ha. destruct (Hf a (or_intror Ha)) as [G1 G2]. split.
        + intro F. apply G1. right. exact F.
        + intros [F|F]; [|contradiction]. apply G1. left. auto.
      - intros a Ha [F|F]; [subst; contradiction | apply (Hsn a); [right; exact Ha | exact F]]. }
    specialize (IH st1 st' (mi :: D) H Hs'). simpl.
    replace ((rev (map snd ml) ++ [mi]) ++ D) with (rev (map snd ml) ++ mi :: D)
      by (rewrite <- app_assoc; reflexivity).
    lia.
Qed.

Lemma delete_positions_ext : forall A D1 D2 (l : list A) pos,
  (forall p, In p D1 <-> In p D2) -> delete_positions D1 l pos = delete_positions D2 l pos.
Proof.
  induction l as [|a l IH]; intros pos H; simpl; auto.
  assert (E : existsb (Nat.eqb pos) D1 = existsb (Nat.eqb pos) D2).
  { destruct (existsb (Nat.eqb pos) D1) eqn:E1; destruct (existsb (Nat.eqb pos) D2) eqn:E2; auto.
    - apply existsb_eqb_In in E1. apply H in E1. apply existsb_eqb_In in E1. congruence.
    - apply existsb_eqb_In in E2. apply H in E2. apply existsb_eqb_In in E2. congruence. }
  rewrite E. destruct (existsb (Nat.eqb pos) D2); rewrite (IH _ H); reflexivity.
Qed.

Lemma nodup_natb_NoDup : forall l, nodup_natb l = true -> NoDup l.
Proof.
  induction l as [|x l IH]; simpl; intros H; constructor.
  - apply andb_prop in H. destruct H as [H _]. apply negb_true_iff in H. intro F.
    apply existsb_eqb_In in F. congruence.
  - apply IH. apply andb_prop in H. tauto.
Qed.

Lemma simple_mergesb_spec : forall ml, simple_mergesb ml = true -> simple_rest [] ml.
Proof.
  intros ml H. unfold simple_mergesb in H. apply andb_prop in H. destruct H as [H H3].
  apply andb_prop in H. destruct H as [H1 H2].
  split; [apply nodup_natb_NoDup; auto|]. split; [apply nodup_natb_NoDup; auto|]. split.
  - intros a Ha. rewrite forallb_forall in H3. specialize (H3 a Ha). apply negb_true_iff in H3.
    split; [|intros []]. intro F. apply existsb_eqb_In in F. congruence.
  - intros a _ [].
Qed.

Lemma filter_cnt_le : forall x (f : block -> bool) bs,
  cnt x (concat (map code (filter f bs))) <= cnt x (concat (map code bs)).
Proof.
  induction bs as [|b bs IH]; simpl; auto. destruct (f b); simpl; rewrite !cnt_app; lia.
Qed.

Lemma simple_merge_nodup_lemma : forall pick v ops r,
  wf_opsb ops = true -> merge_simpleb ops = true ->
  compute_order_gen pick v ops = Ok r -> NoDup (block_instrs (r_blocks r)).
Proof.
  intros pick v ops r Hwf Hsim H.
  destruct (compute_order_gen_inv _ _ _ _ H) as [_ [_ [bs0 [es0 [su [Hs [Hsu Hr]]]]]]].
  destruct (split_partition_full _ _ _ _ Hwf Hs) as [Hcat [_ Hnd]].
  rewrite Hr. destruct v.
  2:{ inversion Hsu; subst su. exact Hnd. }
  unfold merge_simpleb in Hsim. rewrite Hs in Hsim.
  set (bs1 := remove_jump_back_block ops bs0) in *.
  unfold remove_jmp_to_get_anext_and_merge in Hsu.
  destruct (merge_list_of bs1 bs1 0) as [ml|] eqn:Eml; [|discriminate]. cbn [bind] in Hsu.
  inv_bind Hsu. inv_bind Hsu. inversion Hsu; subst su. simpl. clear Hsu.
  apply simple_mergesb_spec in Hsim.
  unfold block_instrs. apply (NoDup_count_occ N.eq_dec). intros x.
  change (cnt x (concat (map code (delete_positions (map snd ml) (m_blocks a) 0))) <= 1).
  rewrite (delete_positions_ext _ (map snd ml) (rev (map snd ml) ++ []))
    by (intro p; rewrite app_nil_r, <- in_rev; tauto).
  rewrite <- live_spec.
  pose proof (merge_fold_live x ml _ a [] E Hsim) as L. simpl in L.
  assert (L0 : live x [] bs1 0 <= 1).
  { rewrite live_spec. simpl.
    assert (G : delete_positions [] bs1 0 = bs1) by apply delete_positions_nil. rewrite G.
    unfold bs1, remove_jump_back_block.
    eapply Nat.le_trans; [apply filter_cnt_le|].
    unfold block_instrs in Hnd. apply (NoDup_count_occ N.eq_dec). exact Hnd. }
  lia.
Qed.
