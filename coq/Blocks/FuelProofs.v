(* C16: the fuelled loops of Blocks/Model.v never run out of fuel, compute_predecessors is exact with respect to
   the edge relation, and the final assertion of order_nodes cannot fire.  All statements are for arbitrary
   graphs (any node list, any edge list), hence in particular for the graphs compute_order builds. *)
From Coq Require Import List NArith Arith Bool Lia Relations Sorted.
From PV Require Import Generated.C16_OpcodeFlags Blocks.Model Blocks.Proofs.
Import ListNotations.

Local Opaque flags_of.

(* ================================================================================================ *)
(* 1. the fuel combinator *)

Lemma run_measure : forall (S : Type) (step : S -> S) (fin : S -> bool) (mu : S -> nat) (P : S -> Prop),
  (forall s, P s -> fin s = false -> P (step s) /\ mu (step s) < mu s) ->
  forall d s, P s ->
    P (run step fin d s) /\ (fin (run step fin d s) = true \/ mu (run step fin d s) + 2 ^ d <= mu s).
Proof.
  intros S step fin mu P Hstep. induction d; intros s Hs.
  - cbn [run]. destruct (fin s) eqn:E.
    + split; auto.
    + destruct (Hstep s Hs E) as [H1 H2]. split; auto. right. cbn [Nat.pow]. lia.
  - cbn [run]. destruct (IHd s Hs) as [P1 H1].
    destruct (fin (run step fin d s)) eqn:E.
    + split; auto.
    + destruct H1 as [H1|H1]; [congruence|].
      destruct (IHd _ P1) as [P2 H2]. split; auto. destruct H2 as [H2|H2]; auto.
      right. cbn [Nat.pow]. lia.
Qed.

Lemma run_terminates : forall (S : Type) (step : S -> S) (fin : S -> bool) (mu : S -> nat) (P : S -> Prop),
  (forall s, P s -> fin s = false -> P (step s) /\ mu (step s) < mu s) ->
  forall d s, P s -> mu s < 2 ^ d ->
    P (run step fin d s) /\ fin (run step fin d s) = true.
Proof.
  intros S step fin mu P Hstep d s Hs Hmu.
  destruct (run_measure S step fin mu P Hstep d s Hs) as [H1 [H2|H2]]; split; auto. lia.
Qed.

Lemma fuel_for_gt : forall b m, (N.of_nat m <= b)%N -> m < 2 ^ fuel_for b.
Proof.
  intros b m H. unfold fuel_for.
  assert (E : N.of_nat (2 ^ S (N.to_nat (N.log2 b))) = (2 ^ N.succ (N.log2 b))%N).
  { rewrite Nat2N.inj_pow. change (N.of_nat 2) with 2%N. rewrite Nat2N.inj_succ, N2Nat.id. reflexivity. }
  destruct (N.eq_dec b 0) as [Hb|Hb].
  - subst b. assert (m = 0) by lia. subst m. apply Nat.neq_0_lt_0. apply Nat.pow_nonzero. discriminate.
  - assert (Hpos : (0 < b)%N) by lia.
    destruct (N.log2_spec b Hpos) as [_ H2].
    assert (G : (N.of_nat m < N.of_nat (2 ^ S (N.to_nat (N.log2 b))))%N) by (rewrite E; lia).
    lia.
Qed.

(* ================================================================================================ *)
(* 2. sorted sets of nodes *)

Definition sorted (l : list N) : Prop := StronglySorted N.lt l.

Lemma unionN_nil_l : forall b, unionN [] b = b.
Proof. destruct b; reflexivity. Qed.

Lemma unionN_nil_r : forall a, unionN a [] = a.
Proof. destruct a; reflexivity. Qed.

Lemma unionN_cons : forall x a y b,
  unionN (x :: a) (y :: b) =
  if N.ltb x y then x :: unionN a (y :: b)
  else if N.eqb x y then x :: unionN a b else y :: unionN (x :: a) b.
Proof. reflexivity. Qed.

Lemma unionN_In : forall a b x, In x (unionN a b) <-> In x a \/ In x b.
Proof.
  induction a as [|x0 a IHa]; intros b x.
  - rewrite unionN_nil_l. simpl. tauto.
  - induction b as [|y b IHb].
    + rewrite unionN_nil_r. simpl. tauto.
    + rewrite unionN_cons. destruct (N.ltb x0 y) eqn:E1; [|destruct (N.eqb x0 y) eqn:E2].
      * simpl. rewrite IHa. simpl. tauto.
      * apply N.eqb_eq in E2. subst. simpl. rewrite IHa. tauto.
      * simpl. rewrite IHb. simpl. tauto.
Qed.

Lemma unionN_sorted : forall a b, sorted a -> sorted b -> sorted (unionN a b).
Proof.
  unfold sorted. induction a as [|x0 a IHa]; intros b Ha Hb.
  - rewrite unionN_nil_l. exact Hb.
  - induction b as [|y b IHb].
    + rewrite unionN_nil_r. exact Ha.
    + rewrite unionN_cons.
      inversion Ha as [|? ? Ha1 Ha2]; subst. inversion Hb as [|? ? Hb1 Hb2]; subst.
      rewrite Forall_forall in Ha2, Hb2.
      destruct (N.ltb x0 y) eqn:E1; [|destruct (N.eqb x0 y) eqn:E2].
      * apply N.ltb_lt in E1. constructor; [apply IHa; auto|].
        apply Forall_forall. intros z Hz. apply unionN_In in Hz. destruct Hz as [Hz|[Hz|Hz]].
        -- apply Ha2; auto.
        -- subst. exact E1.
        -- specialize (Hb2 z Hz). lia.
      * apply N.eqb_eq in E2. subst y. constructor; [apply IHa; auto|].
        apply Forall_forall. intros z Hz. apply unionN_In in Hz. destruct Hz as [Hz|Hz]; auto.
      * apply N.ltb_ge in E1. apply N.eqb_neq in E2. constructor; [apply IHb; auto|].
        apply Forall_forall. intros z Hz. apply unionN_In in Hz. destruct Hz as [[Hz|Hz]|Hz].
        -- subst. lia.
        -- specialize (Ha2 z Hz). lia.
        -- apply Hb2; auto.
Qed.

Lemma sorted_NoDup : forall l, sorted l -> NoDup l.
Proof.
  unfold sorted. induction l as [|x l IH]; intros H; [constructor|].
  inversion H as [|? ? H1 H2]; subst. constructor; auto.
  intro F. rewrite Forall_forall in H2. specialize (H2 x F). lia.
Qed.

(* ================================================================================================ *)
(* 3. association lists *)

Lemma assocN_In_pair : forall A k (l : list (N * A)) v, assocN k l = Some v -> In (k, v) l.
Proof.
  induction l as [|[k' v'] l IH]; simpl; intros v H; [discriminate|].
  destruct (N.eqb k k') eqn:E.
  - apply N.eqb_eq in E. inversion H; subst. auto.
  - right. auto.
Qed.

Lemma assocN_of_key : forall A k (l : list (N * A)), In k (map fst l) -> exists v, assocN k l = Some v.
Proof.
  induction l as [|[k' v'] l IH]; simpl; intros H; [contradiction|].
  destruct (N.eqb k k') eqn:E; [eauto|]. destruct H as [H|H]; [|auto].
  apply N.eqb_neq in E. congruence.
Qed.

Lemma set_assoc_In : forall A k0 (v0 : A) l k v, In (k, v) (set_assoc k0 v0 l) -> (k, v) = (k0, v0) \/ In (k, v) l.
Proof.
  induction l as [|[k' v'] l IH]; simpl; intros k v H; [contradiction|].
  destruct (N.eqb k0 k') eqn:E; simpl in H.
  - destruct H as [H|H]; [left; congruence | right; right; exact H].
  - destruct H as [H|H]; [right; left; exact H|]. destruct (IH _ _ H); auto.
Qed.

Lemma assocN_set_same : forall A k (v v0 : A) l, assocN k l = Some v0 -> assocN k (set_assoc k v l) = Some v.
Proof.
  induction l as [|[k' v'] l IH]; simpl; intros H; [discriminate|].
  destruct (N.eqb k k') eqn:E; simpl.
  - rewrite N.eqb_refl. reflexivity.
  - rewrite E. auto.
Qed.

Lemma assocN_set_other : forall A k k0 (v : A) l, k <> k0 -> assocN k (set_assoc k0 v l) = assocN k l.
Proof.
  induction l as [|[k' v'] l IH]; simpl; intros H; [reflexivity|].
  destruct (N.eqb k0 k') eqn:E; simpl.
  - apply N.eqb_eq in E. subst k'. apply N.eqb_neq in H. rewrite H. reflexivity.
  - destruct (N.eqb k k'); auto.
Qed.

(* ================================================================================================ *)
(* 4. compute_predecessors: measure, termination, exactness *)

Fixpoint phi (V : nat) (m : list (N * list N)) : nat :=
  match m with
  | [] => 0
  | (_, ps) :: t => (V - length ps) + phi V t
  end.

Lemma phi_set_assoc : forall V k v v' m, assocN k m = Some v ->
  phi V (set_assoc k v' m) + (V - length v) = phi V m + (V - length v').
Proof.
  induction m as [|[k' w] m IH]; simpl; intros H; [discriminate|].
  destruct (N.eqb k k') eqn:E; simpl.
  - inversion H; subst. lia.
  - specialize (IH H). lia.
Qed.

Lemma phi_init : forall V l, phi V (map (fun n : N => (n, [n])) l) = length l * (V - 1).
Proof. induction l as [|x l IH]; simpl; [reflexivity|]. rewrite IH. lia. Qed.

Lemma nodupN_length : forall l seen, length (nodupN l seen) <= length l.
Proof.
  induction l as [|x l IH]; intros seen; simpl; [lia|].
  destruct (memN x seen); simpl; [specialize (IH seen) | specialize (IH (x :: seen))]; lia.
Qed.

Lemma filter_len_le : forall A (f : A -> bool) l, length (filter f l) <= length l.
Proof. induction l as [|x l IH]; simpl; [lia|]. destruct (f x); simpl; lia. Qed.

Lemma outgoing_length : forall es n, length (outgoing es n) <= length es.
Proof.
  intros es n. unfold outgoing. etransitivity; [apply nodupN_length|].
  rewrite map_length. apply filter_len_le.
Qed.

Definition pmu (V E : nat) (s : pst) : nat :=
  (length (p_starts s) + phi V (p_map s)) * (E + 1) + length (p_todo s).

Record pinv (nodes : list N) (es : list edge) (s : pst) : Prop := {
  pi_keys : map fst (p_map s) = nodes;
  pi_good : forall k ps, In (k, ps) (p_map s) -> sorted ps /\ incl ps nodes;
  pi_err : p_err s = 0 \/ p_err s = 10;
  (* soundness *)
  pi_sound : forall n ps m, In (n, ps) (p_map s) -> In m ps -> reach es m n;
  pi_todo : forall f n, In (f, n) (p_todo s) -> In (f, n) es /\ In f nodes;
  pi_starts : incl (p_starts s) nodes;
  (* every node is its own predecessor *)
  pi_self : forall n, In n nodes -> exists ps, assocN n (p_map s) = Some ps /\ In n ps;
  (* completeness: every edge out of a node has been propagated, is queued, or its source has not been started *)
  pi_edges : p_err s = 0 -> forall f n, In (f, n) es -> In f nodes ->
             (In f (p_starts s) /\ ~ In f (p_disc s)) \/ In (f, n) (p_todo s) \/
             (exists fp np, assocN f (p_map s) = Some fp /\ assocN n (p_map s) = Some np /\ incl fp np)
}.

Lemma pinv_init : forall nodes es, pinv nodes es (mkP (map (fun n => (n, [n])) nodes) [] nodes [] 0).
Proof.
  intros nodes es. constructor; simpl.
  - rewrite map_map. simpl. apply map_id.
  - intros k ps H. apply in_map_iff in H. destruct H as [n [E H]]. inversion E; subst. split.
    + repeat constructor.
    + intros x [Hx|[]]. subst. exact H.
  - auto.
  - intros n ps m H Hm. apply in_map_iff in H. destruct H as [n' [E H]]. inversion E; subst.
    destruct Hm as [Hm|[]]. subst. apply rt_refl.
  - intros f n [].
  - apply incl_refl.
  - intros n H. exists [n]. split; [|left; reflexivity].
    induction nodes as [|x l IH]; [contradiction|]. simpl. destruct (N.eqb n x) eqn:E.
    + apply N.eqb_eq in E. subst. reflexivity.
    + destruct H as [H|H]; [apply N.eqb_neq in E; congruence | auto].
  - intros _ f n Hfn Hf. left. split; auto.
Qed.

Lemma pstep_inv : forall nodes es s,
  pinv nodes es s -> pfin s = false ->
  pinv nodes es (pstep es s) /\ pmu (length nodes) (length es) (pstep es s) < pmu (length nodes) (length es) s.
Proof.
  intros nodes es s I Hfin.
  unfold pfin in Hfin. apply orb_false_elim in Hfin. destruct Hfin as [He Hq].
  apply negb_false_iff, Nat.eqb_eq in He.
  destruct I as [Ikeys Igood Ierr Isound Itodo Istarts Iself Iedges].
  change (map fst (p_map s) = id nodes) in Ikeys.      (* keeps [subst] from eliminating [nodes] *)
  specialize (Iedges He).
  unfold pstep, pmu. destruct (p_todo s) as [|[f0 n0] rest] eqn:Etodo.
  - (* next start *)
    destruct (p_starts s) as [|st more] eqn:Est; [discriminate|].
    destruct (memN st (p_disc s)) eqn:Ed.
    + apply memN_In in Ed. split.
      * constructor; simpl.
        -- exact Ikeys.
        -- exact Igood.
        -- exact Ierr.
        -- exact Isound.
        -- intros f n [].
        -- intros x Hx. apply Istarts. right. exact Hx.
        -- exact Iself.
        -- intros _ f n Hfn Hf. destruct (Iedges f n Hfn Hf) as [[H1 H2]|[[]|H]]; auto.
           left. split; auto. destruct H1 as [H1|H1]; [subst; contradiction | exact H1].
      * simpl. lia.
    + apply memN_false in Ed. split.
      * constructor; simpl.
        -- exact Ikeys.
        -- exact Igood.
        -- exact Ierr.
        -- exact Isound.
        -- intros f n H. apply in_map_iff in H. destruct H as [n' [E H]]. inversion E; subst.
           split; [apply outgoing_In; exact H | apply Istarts; left; reflexivity].
        -- intros x Hx. apply Istarts. right. exact Hx.
        -- exact Iself.
        -- intros _ f n Hfn Hf. destruct (N.eq_dec f st) as [E|E].
           ++ subst f. right. left. apply in_map_iff. exists n. split; auto. apply outgoing_In. exact Hfn.
           ++ destruct (Iedges f n Hfn Hf) as [[H1 H2]|[[]|H]]; auto.
              left. split; auto. destruct H1 as [H1|H1]; [congruence | exact H1].
      * simpl. rewrite map_length. pose proof (outgoing_length es st). lia.
  - (* one queued edge *)
    destruct (Itodo f0 n0 (or_introl eq_refl)) as [Hedge Hf0].
    destruct (assocN n0 (p_map s)) as [np|] eqn:En.
    2:{ split; [|simpl; lia]. constructor; simpl.
        - exact Ikeys.
        - exact Igood.
        - right. reflexivity.
        - exact Isound.
        - intros f n H. apply Itodo. right. exact H.
        - exact Istarts.
        - exact Iself.
        - discriminate. }
    destruct (assocN f0 (p_map s)) as [fp|] eqn:Ef.
    2:{ split; [|simpl; lia]. constructor; simpl.
        - exact Ikeys.
        - exact Igood.
        - right. reflexivity.
        - exact Isound.
        - intros f n H. apply Itodo. right. exact H.
        - exact Istarts.
        - exact Iself.
        - discriminate. }
    pose proof (assocN_In_pair _ _ _ _ En) as Hnp. pose proof (assocN_In_pair _ _ _ _ Ef) as Hfp.
    destruct (Igood _ _ Hnp) as [Snp Inp]. destruct (Igood _ _ Hfp) as [Sfp Ifp].
    assert (Su : sorted (unionN np fp)) by (apply unionN_sorted; auto).
    assert (Iu : incl (unionN np fp) nodes).
    { intros x Hx. apply unionN_In in Hx. destruct Hx; auto. }
    assert (Hsub : incl np (unionN np fp)) by (intros x Hx; apply unionN_In; auto).
    assert (Hle : length np <= length (unionN np fp)) by (apply NoDup_incl_length; [apply sorted_NoDup; auto | auto]).
    assert (HV : length (unionN np fp) <= length nodes) by (apply NoDup_incl_length; [apply sorted_NoDup; auto | auto]).
    destruct (Nat.eqb (length np) (length (unionN np fp))) eqn:El.
    + (* nothing new *)
      apply Nat.eqb_eq in El. split; [|simpl; lia].
      constructor; simpl.
      * exact Ikeys.
      * exact Igood.
      * exact Ierr.
      * exact Isound.
      * intros f n H. apply Itodo. right. exact H.
      * exact Istarts.
      * exact Iself.
      * intros _ f n Hfn Hf. destruct (Iedges f n Hfn Hf) as [H|[[H|H]|H]]; auto.
        inversion H; subst. right. right. exists fp, np. split; auto. split; auto.
        assert (G : incl (unionN np fp) np).
        { apply NoDup_length_incl; [apply sorted_NoDup; auto | lia | auto]. }
        intros x Hx. apply G. apply unionN_In. auto.
    + (* the predecessor set grew *)
      apply Nat.eqb_neq in El. split.
      * constructor; simpl.
        -- rewrite set_assoc_keys. exact Ikeys.
        -- intros k ps H. apply set_assoc_In in H. destruct H as [H|H]; [inversion H; subst; auto | eauto].
        -- exact Ierr.
        -- intros n ps m H Hm. apply set_assoc_In in H. destruct H as [H|H]; [|exact (Isound _ _ _ H Hm)].
           inversion H; subst. apply unionN_In in Hm. destruct Hm as [Hm|Hm]; [exact (Isound _ _ _ Hnp Hm)|].
           apply rt_trans with f0; [exact (Isound _ _ _ Hfp Hm)|]. apply rt_step. exact Hedge.
        -- intros f n H. apply in_app_or in H. destruct H as [H|H]; [apply Itodo; right; exact H|].
           apply in_map_iff in H. destruct H as [n' [E H]]. inversion E; subst.
           split; [apply outgoing_In; exact H|]. rewrite <- (Ikeys : _ = nodes). eapply assocN_In; eauto.
        -- exact Istarts.
        -- intros n Hn. destruct (Iself n Hn) as [ps [H1 H2]]. destruct (N.eq_dec n n0) as [E|E].
           ++ subst n. exists (unionN np fp). split; [eapply assocN_set_same; eauto|].
              apply unionN_In. left. congruence.
           ++ exists ps. split; auto. rewrite assocN_set_other; auto.
        -- intros _ f n Hfn Hf. destruct (N.eq_dec f n0) as [E|E].
           ++ subst f. right. left. apply in_or_app. right. apply in_map_iff. exists n. split; auto.
              apply outgoing_In. exact Hfn.
           ++ destruct (Iedges f n Hfn Hf) as [[H1 H2]|[[H|H]|[fp1 [np1 [H1 [H2 H3]]]]]].
              ** left. split; auto. intros [F|F]; [congruence | contradiction].
              ** inversion H; subst. right. right. exists fp, (unionN np fp).
                 split; [rewrite assocN_set_other; auto|]. split; [eapply assocN_set_same; eauto|].
                 intros x Hx. apply unionN_In. auto.
              ** right. left. apply in_or_app. left. exact H.
              ** right. right. destruct (N.eq_dec n n0) as [E2|E2].
                 --- subst n. exists fp1, (unionN np fp). split; [rewrite assocN_set_other; auto|].
                     split; [eapply assocN_set_same; eauto|]. rewrite En in H2. inversion H2; subst.
                     intros x Hx. apply unionN_In. left. auto.
                 --- exists fp1, np1. rewrite !assocN_set_other; auto.
      * simpl. rewrite app_length, map_length. pose proof (outgoing_length es n0) as Ho.
        pose proof (phi_set_assoc (length nodes) n0 np (unionN np fp) (p_map s) En) as Hphi.
        assert (G : phi (length nodes) (set_assoc n0 (unionN np fp) (p_map s)) + 1 <= phi (length nodes) (p_map s)) by lia.
        set (a := phi (length nodes) (set_assoc n0 (unionN np fp) (p_map s))) in *.
        set (b := phi (length nodes) (p_map s)) in *.
        set (c := length (p_starts s)). set (E := length es) in *.
        assert (G2 : (c + a) * (E + 1) + (E + 1) <= (c + b) * (E + 1)).
        { replace ((c + a) * (E + 1) + (E + 1)) with ((c + a + 1) * (E + 1)) by lia.
          apply Nat.mul_le_mono_r. lia. }
        lia.
Qed.

Definition pstate0 (nodes : list N) : pst := mkP (map (fun n => (n, [n])) nodes) [] nodes [] 0.

Lemma pred_run_final : forall nodes es,
  let s := run (pstep es) pfin (pred_fuel nodes es) (pstate0 nodes) in
  pinv nodes es s /\ pfin s = true.
Proof.
  intros nodes es. cbv zeta.
  apply (run_terminates pst (pstep es) pfin (pmu (length nodes) (length es)) (pinv nodes es)).
  - intros s I F. apply pstep_inv; auto.
  - apply pinv_init.
  - unfold pred_fuel. apply fuel_for_gt. unfold pmu, pstate0. simpl.
    rewrite phi_init. set (V := length nodes). set (E := length es).
    assert (Hm : (V + V * (V - 1)) * (E + 1) + 0 <= V * V * (E + 1)).
    { rewrite Nat.add_0_r. apply Nat.mul_le_mono_r. destruct V; simpl; lia. }
    assert (Hb : (N.of_nat V * N.of_nat V * (N.of_nat E + 1))%N = N.of_nat (V * V * (E + 1))).
    { rewrite !Nat2N.inj_mul, Nat2N.inj_add. reflexivity. }
    rewrite Hb. lia.
Qed.

(* fuel sufficiency *)
Lemma compute_predecessors_fuel_lemma : forall nodes es c,
  compute_predecessors nodes es = Err c -> c = 10.
Proof.
  intros nodes es c H. unfold compute_predecessors in H.
  destruct (pred_run_final nodes es) as [I F]. cbv zeta in I, F. unfold pstate0 in I, F.
  destruct (pi_err _ _ _ I) as [E|E]; rewrite E in H.
  - rewrite F in H. discriminate.
  - inversion H. reflexivity.
Qed.

(* exactness *)
Lemma compute_predecessors_exact_lemma : forall nodes es pm,
  compute_predecessors nodes es = Ok pm ->
  map fst pm = nodes /\
  (forall n ps m, In (n, ps) pm -> In m ps -> In m nodes /\ reach es m n) /\
  (forall n, In n nodes -> exists ps, assocN n pm = Some ps /\ sorted ps /\
     forall m, In m ps <-> In m nodes /\ reach es m n) /\
  (forall x y, In x nodes -> reach es x y -> In y nodes).
Proof.
  intros nodes es pm H. unfold compute_predecessors in H.
  destruct (pred_run_final nodes es) as [I F]. cbv zeta in I, F. unfold pstate0 in I, F.
  set (s := run (pstep es) pfin (pred_fuel nodes es) (mkP (map (fun n => (n, [n])) nodes) [] nodes [] 0)) in *.
  destruct (p_err s) eqn:Eerr; [|discriminate]. rewrite F in H. inversion H; subst pm. clear H.
  destruct I as [Ikeys Igood Ierr Isound Itodo Istarts Iself Iedges].
  specialize (Iedges Eerr).
  unfold pfin in F. rewrite Eerr in F. simpl in F.
  destruct (p_todo s) eqn:Etodo; [|discriminate]. destruct (p_starts s) eqn:Est; [|discriminate].
  assert (Hprop : forall f n, In (f, n) es -> In f nodes ->
            exists fp np, assocN f (p_map s) = Some fp /\ assocN n (p_map s) = Some np /\ incl fp np).
  { intros f n Hfn Hf. destruct (Iedges f n Hfn Hf) as [[[] _]|[[]|Hx]]. exact Hx. }
  assert (Hcomp : forall m, In m nodes -> forall n, reach es m n ->
            exists ps, assocN n (p_map s) = Some ps /\ In m ps).
  { intros m Hm n Hr. apply clos_rt_rtn1 in Hr. induction Hr as [|y z Hyz Hr IH].
    - apply Iself. exact Hm.
    - destruct IH as [py [H1 H2]].
      assert (Hy : In y nodes) by (rewrite <- Ikeys; eapply assocN_In; eauto).
      destruct (Hprop y z Hyz Hy) as [fp [np [G1 [G2 G3]]]]. rewrite H1 in G1. inversion G1; subst fp.
      exists np. split; auto. }
  split; [exact Ikeys|]. split; [|split].
  - intros n ps m Hin Hm. split; [|eauto]. destruct (Igood _ _ Hin) as [_ Hi]. auto.
  - intros n Hn. destruct (Iself n Hn) as [ps [H1 H2]]. exists ps. split; auto.
    pose proof (assocN_In_pair _ _ _ _ H1) as Hin. destruct (Igood _ _ Hin) as [Hs Hi]. split; auto.
    intros m. split.
    + intros Hm. split; [auto | eauto].
    + intros [Hm Hr]. destruct (Hcomp m Hm n Hr) as [ps' [G1 G2]]. congruence.
  - intros x y Hx Hr. destruct (Hcomp x Hx y Hr) as [ps [G1 _]]. rewrite <- Ikeys. eapply assocN_In; eauto.
Qed.

(* totality on graphs whose edges stay inside the node list *)
Definition closed_edges (nodes : list N) (es : list edge) : Prop :=
  forall x y, In (x, y) es -> In x nodes -> In y nodes.

Lemma compute_predecessors_total_lemma : forall nodes es,
  closed_edges nodes es -> exists pm, compute_predecessors nodes es = Ok pm.
Proof.
  intros nodes es Hc.
  assert (Hno : forall s, pinv nodes es s -> p_err s = 0 -> p_err (pstep es s) = 0).
  { intros s I He. unfold pstep. destruct (p_todo s) as [|[f0 n0] rest] eqn:Et.
    - destruct (p_starts s); auto. destruct (memN n (p_disc s)); auto.
    - destruct (pi_todo _ _ _ I f0 n0) as [H1 H2]; [rewrite Et; left; reflexivity|].
      assert (Hn0 : In n0 nodes) by (eapply Hc; eauto).
      rewrite <- (pi_keys _ _ _ I) in H2, Hn0.
      destruct (assocN_of_key _ _ _ Hn0) as [np En]. destruct (assocN_of_key _ _ _ H2) as [fp Ef].
      rewrite En, Ef. destruct (Nat.eqb (length np) (length (unionN np fp))); auto. }
  destruct (run_terminates pst (pstep es) pfin (pmu (length nodes) (length es))
              (fun s => pinv nodes es s /\ p_err s = 0)) with (d := pred_fuel nodes es) (s := pstate0 nodes)
    as [[I E] F].
  - intros s [I E] Fn. destruct (pstep_inv nodes es s I Fn) as [I' M]. split; auto.
  - split; [apply pinv_init | reflexivity].
  - unfold pred_fuel. apply fuel_for_gt. unfold pmu, pstate0. simpl.
    rewrite phi_init. set (V := length nodes). set (E := length es).
    assert (Hm : (V + V * (V - 1)) * (E + 1) + 0 <= V * V * (E + 1)).
    { rewrite Nat.add_0_r. apply Nat.mul_le_mono_r. destruct V; simpl; lia. }
    assert (Hb : (N.of_nat V * N.of_nat V * (N.of_nat E + 1))%N = N.of_nat (V * V * (E + 1))).
    { rewrite !Nat2N.inj_mul, Nat2N.inj_add. reflexivity. }
    rewrite Hb. lia.
  - unfold compute_predecessors. unfold pstate0 in E, F. rewrite E, F. eauto.
Qed.

(* ================================================================================================ *)
(* 5. order_nodes: termination, the final assertion, totality *)

Lemma del_key_length : forall k q, In k (keys q) -> length (del_key k q) < length q.
Proof.
  unfold del_key, keys. induction q as [|e q IH]; simpl; intros H; [contradiction|].
  destruct (N.eqb (fst e) k) eqn:E; simpl.
  - pose proof (filter_len_le _ (fun e0 : N * list N => negb (N.eqb (fst e0) k)) q). lia.
  - destruct H as [H|H]; [apply N.eqb_neq in E; congruence|]. specialize (IH H). lia.
Qed.

Lemma enqueue_fold_length : forall pm seen outs q err q' err',
  fold_left (enqueue pm seen) outs (q, err) = (q', err') ->
  length q' <= length q + length outs /\ (err' = err \/ err' = 12).
Proof.
  induction outs as [|n outs IH]; intros q err q' err' H; simpl in H.
  - inversion H; subst. split; [simpl; lia | auto].
  - destruct (has_key n q).
    + destruct (IH _ _ _ _ H). split; [simpl; lia | auto].
    + destruct (assocN n pm).
      * destruct (IH _ _ _ _ H) as [H1 H2]. rewrite app_length in H1. simpl in *. split; [lia | auto].
      * destruct (IH _ _ _ _ H) as [H1 H2]. split; [simpl; lia|]. destruct H2; auto.
Qed.

Definition omu (V E : nat) (s : ost) : nat :=
  (V - length (o_order s)) * (E + 1) + length (o_queue s).

Lemma ostep_measure : forall pick root pm es s,
  pick_ok pick -> oinv root pm es s -> ofin s = false ->
  (o_err s = 0 \/ o_err s = 12) ->
  oinv root pm es (ostep pick pm es s) /\
  (o_err (ostep pick pm es s) = 0 \/ o_err (ostep pick pm es s) = 12) /\
  omu (length pm) (length es) (ostep pick pm es s) < omu (length pm) (length es) s.
Proof.
  intros pick root pm es s Hpick I Hfin Herr.
  pose proof (ostep_inv pick root pm es s Hpick I Hfin) as I'.
  split; [exact I'|].
  unfold ofin in Hfin. apply orb_false_elim in Hfin. destruct Hfin as [He Hq].
  assert (Hne : o_queue s <> []) by (destruct (o_queue s); [discriminate | discriminate]).
  pose proof (Hpick _ Hne) as Hnode.
  revert I'. unfold ostep, omu. set (node := pick (o_queue s)) in *. intros I'.
  destruct (memN node (o_seen s)) eqn:Es.
  - simpl. split; [exact Herr|]. pose proof (del_key_length node (o_queue s) Hnode). lia.
  - destruct (fold_left (enqueue pm (insertN node (o_seen s))) (outgoing es node)
                (map (fun e => (fst e, removeN node (snd e))) (del_key node (o_queue s)), o_err s)) as [q3 err'] eqn:Ef.
    destruct (enqueue_fold_length _ _ _ _ _ _ _ Ef) as [L1 L2]. rewrite map_length in L1.
    simpl. split; [destruct L2 as [L2|L2]; [rewrite L2; exact Herr | auto]|].
    pose proof (del_key_length node (o_queue s) Hnode) as Ld.
    pose proof (outgoing_length es node) as Lo.
    (* the new order is duplicate-free and inside the node list, hence not longer than it *)
    assert (Lv : S (length (o_order s)) <= length pm).
    { simpl in I'. pose proof (oi_nodup _ _ _ _ I') as Nd. simpl in Nd.
      assert (Hi : incl (node :: o_order s) (map fst pm)).
      { intros x Hx. apply (oi_nodes _ _ _ _ I'). simpl. left. exact Hx. }
      pose proof (NoDup_incl_length Nd Hi) as G. rewrite map_length in G. simpl in G. exact G. }
    set (V := length pm) in *. set (E := length es) in *. set (k := length (o_order s)) in *.
    assert (G : (V - S k) * (E + 1) + (E + 1) <= (V - k) * (E + 1)).
    { replace ((V - S k) * (E + 1) + (E + 1)) with ((V - S k + 1) * (E + 1)) by lia.
      apply Nat.mul_le_mono_r. lia. }
    lia.
Qed.

Lemma oinv_init : forall root pm es rp, assocN root pm = Some rp -> oinv root pm es (mkO [(root, rp)] [] [] 0).
Proof.
  intros root pm es rp Erp. constructor; simpl; auto.
  - constructor.
  - tauto.
  - intros x [[]|[Hx|[]]]. subst. apply rt_refl.
  - intros k [Hk|[]]. left. auto.
  - intros k [[]|[Hk|[]]]. subst. eapply assocN_In; eauto.
Qed.

Lemma order_run_final : forall pick root pm es rp d,
  pick_ok pick -> assocN root pm = Some rp -> length pm * (length es + 1) + 1 < 2 ^ d ->
  let s := run (ostep pick pm es) ofin d (mkO [(root, rp)] [] [] 0) in
  oinv root pm es s /\ (o_err s = 0 \/ o_err s = 12) /\ ofin s = true.
Proof.
  intros pick root pm es rp d Hpick Erp Hd. cbv zeta.
  destruct (run_terminates ost (ostep pick pm es) ofin (omu (length pm) (length es))
              (fun s => oinv root pm es s /\ (o_err s = 0 \/ o_err s = 12))) with (d := d) (s := mkO [(root, rp)] [] [] 0)
    as [[I E] F].
  - intros s [I E] Fn. destruct (ostep_measure pick root pm es s Hpick I Fn E) as [I' [E' M]]. auto.
  - split; [apply oinv_init; auto | left; reflexivity].
  - unfold omu. simpl. lia.
  - auto.
Qed.

Lemma order_fuel_enough : forall nodes es, length nodes * (length es + 1) + 1 < 2 ^ order_fuel nodes es.
Proof.
  intros nodes es. unfold order_fuel. apply fuel_for_gt.
  rewrite Nat2N.inj_add, Nat2N.inj_mul, Nat2N.inj_add. simpl N.of_nat. lia.
Qed.

Local Opaque pred_fuel order_fuel.

Lemma nodupN_NoDup : forall l seen, NoDup (nodupN l seen).
Proof.
  induction l as [|x l IH]; intros seen; simpl; [constructor|].
  destruct (memN x seen); [apply IH|]. constructor; [|apply IH].
  intro F. apply nodupN_In in F. destruct F as [_ F]. apply F. left. reflexivity.
Qed.

Lemma nodupN_same_length : forall l1 l2, (forall x, In x l1 <-> In x l2) ->
  length (nodupN l1 []) = length (nodupN l2 []).
Proof.
  intros l1 l2 H. apply Nat.le_antisymm; apply NoDup_incl_length; try apply nodupN_NoDup.
  - intros x Hx. apply nodupN_In in Hx. apply nodupN_In. split; [apply H; tauto | tauto].
  - intros x Hx. apply nodupN_In in Hx. apply nodupN_In. split; [apply H; tauto | tauto].
Qed.

(* what order_nodes can raise: only the KeyErrors of predecessor_map[n] (10 in compute_predecessors, 12 in the
   scheduling loop), i.e. never the fuel codes 11/15, never KeyError 13 and never the final assertion 14 *)
Lemma order_nodes_errors_lemma : forall pick nodes es c,
  pick_ok pick -> order_nodes_gen pick nodes es = Err c -> c = 10 \/ c = 12.
Proof.
  intros pick nodes es c Hpick H. unfold order_nodes_gen in H.
  destruct nodes as [|root rest]; [discriminate|].
  destruct (compute_predecessors (root :: rest) es) as [pm|c'] eqn:Epm.
  2:{ simpl in H. inversion H; subst. left. eapply compute_predecessors_fuel_lemma; eauto. }
  simpl in H.
  destruct (compute_predecessors_exact_lemma _ _ _ Epm) as [Hkeys [Hsound [_ _]]].
  destruct (assocN root pm) as [rp|] eqn:Erp.
  2:{ exfalso. destruct (assocN_of_key _ root pm) as [v Hv]; [rewrite Hkeys; left; reflexivity | congruence]. }
  assert (Hd : length pm * (length es + 1) + 1 < 2 ^ order_fuel (root :: rest) es).
  { rewrite <- (map_length fst pm), Hkeys. apply order_fuel_enough. }
  destruct (order_run_final pick root pm es rp _ Hpick Erp Hd) as [I [E F]]. cbv zeta in I, E, F.
  set (s := run (ostep pick pm es) ofin (order_fuel (root :: rest) es) (mkO [(root, rp)] [] [] 0)) in *.
  destruct E as [E|E]; rewrite E in H.
  2:{ inversion H. auto. }
  rewrite F in H.
  (* the assertion *)
  exfalso.
  unfold ofin in F. rewrite E in F. simpl in F.
  destruct (o_queue s) as [|e q] eqn:Eq; [|discriminate].
  destruct I as [Ind Iseen Ireach Iclosed Ipf Iqp Iinit Inodes]. rewrite Eq in *. simpl in *.
  destruct (Iclosed E) as [Hr Hc].
  assert (Hroot : In root (o_order s)) by (destruct Hr as [Hr|[]]; apply Iseen; exact Hr).
  assert (Hall : forall b, reach es root b -> In b (o_order s)).
  { intros b Hb. apply clos_rt_rtn1 in Hb. induction Hb as [|y z Hyz Hb IH]; auto.
    destruct (Hc y z IH Hyz) as [Hz|[]]. apply Iseen. exact Hz. }
  match type of H with (if ?c then _ else _) = _ => destruct c eqn:Easrt; [discriminate|] end.
  apply Nat.eqb_neq in Easrt. apply Easrt.
  refine (nodupN_same_length _ (root :: rest) _).
  intros x. split.
  - intros Hx. apply in_app_or in Hx. destruct Hx as [Hx|Hx].
    + apply in_rev in Hx. rewrite <- Hkeys. apply Inodes. auto.
    + apply in_map_iff in Hx. destruct Hx as [[k ps] [Ek Hx]]. simpl in Ek. subst k.
      apply filter_In in Hx. destruct Hx as [Hx _]. rewrite <- Hkeys. apply in_map_iff. exists (x, ps). auto.
  - intros Hx. rewrite <- Hkeys in Hx. destruct (assocN_of_key _ _ _ Hx) as [ps Hps].
    pose proof (assocN_In_pair _ _ _ _ Hps) as Hin.
    destruct (memN root ps) eqn:Em.
    + apply memN_In in Em. apply in_or_app. left. apply -> in_rev.
      apply Hall. destruct (Hsound _ _ _ Hin Em) as [_ G]. exact G.
    + apply in_or_app. right. apply in_map_iff. exists (x, ps). split; auto.
      apply filter_In. split; auto. simpl. rewrite Em. reflexivity.
Qed.

(* the KeyErrors are impossible when no edge leaves the node list *)
Lemma order_nodes_total_lemma : forall pick nodes es,
  pick_ok pick -> closed_edges nodes es -> exists order, order_nodes_gen pick nodes es = Ok order.
Proof.
  intros pick nodes es Hpick Hc.
  destruct (order_nodes_gen pick nodes es) as [order|c] eqn:H; [eauto|]. exfalso.
  destruct (order_nodes_errors_lemma _ _ _ _ Hpick H) as [Ec|Ec]; subst c.
  - destruct (compute_predecessors_total_lemma nodes es Hc) as [pm Epm].
    unfold order_nodes_gen in H. destruct nodes as [|root rest]; [discriminate|].
    rewrite Epm in H. simpl in H.
    destruct (compute_predecessors_exact_lemma _ _ _ Epm) as [Hkeys _].
    destruct (assocN root pm) as [rp|] eqn:Erp; [|discriminate].
    (* an error 10 cannot come out of the scheduling loop *)
    assert (Hd : length pm * (length es + 1) + 1 < 2 ^ order_fuel (root :: rest) es).
    { rewrite <- (map_length fst pm), Hkeys. apply order_fuel_enough. }
    destruct (order_run_final pick root pm es rp _ Hpick Erp Hd) as [I [E F]]. cbv zeta in I, E, F.
    destruct E as [E|E]; rewrite E in H.
    + rewrite F in H. match type of H with (if ?c then _ else _) = _ => destruct c; discriminate end.
    + discriminate.
  - (* error 12: an outgoing edge of a scheduled node leaves the node list *)
    unfold order_nodes_gen in H. destruct nodes as [|root rest]; [discriminate|].
    destruct (compute_predecessors (root :: rest) es) as [pm|c'] eqn:Epm.
    2:{ simpl in H. inversion H; subst. apply compute_predecessors_fuel_lemma in Epm. discriminate. }
    simpl in H. destruct (compute_predecessors_exact_lemma _ _ _ Epm) as [Hkeys _].
    destruct (assocN root pm) as [rp|] eqn:Erp; [|discriminate].
    assert (Hno : forall s, oinv root pm es s -> ofin s = false -> o_err s = 0 -> o_err (ostep pick pm es s) = 0).
    { intros s I Fn He. unfold ofin in Fn. apply orb_false_elim in Fn. destruct Fn as [_ Hq].
      assert (Hne : o_queue s <> []) by (destruct (o_queue s); [discriminate | discriminate]).
      pose proof (Hpick _ Hne) as Hnode. unfold ostep. set (node := pick (o_queue s)) in *.
      destruct (memN node (o_seen s)); [exact He|].
      assert (Hn : In node (root :: rest)).
      { rewrite <- Hkeys. apply (oi_nodes _ _ _ _ I). right. exact Hnode. }
      assert (G : forall outs q q' err', (forall y, In y outs -> In y (map fst pm)) ->
                fold_left (enqueue pm (insertN node (o_seen s))) outs (q, 0) = (q', err') -> err' = 0).
      { induction outs as [|y outs IHo]; intros q q' err' Hy Hf; simpl in Hf.
        - inversion Hf. reflexivity.
        - destruct (has_key y q); [eapply IHo; eauto; intros; apply Hy; right; auto|].
          destruct (assocN_of_key _ y pm) as [v Hv]; [apply Hy; left; reflexivity|]. rewrite Hv in Hf.
          eapply IHo; eauto. intros; apply Hy; right; auto. }
      rewrite He.
      destruct (fold_left (enqueue pm (insertN node (o_seen s))) (outgoing es node)
                  (map (fun e => (fst e, removeN node (snd e))) (del_key node (o_queue s)), 0)) as [q3 err'] eqn:Ef.
      simpl. eapply G; [|exact Ef]. intros y Hy. rewrite Hkeys. apply outgoing_In in Hy. eapply Hc; eauto. }
    assert (Hd : length pm * (length es + 1) + 1 < 2 ^ order_fuel (root :: rest) es).
    { rewrite <- (map_length fst pm), Hkeys. apply order_fuel_enough. }
    destruct (run_terminates ost (ostep pick pm es) ofin (omu (length pm) (length es))
                (fun s => oinv root pm es s /\ o_err s = 0))
      with (d := order_fuel (root :: rest) es) (s := mkO [(root, rp)] [] [] 0) as [[I E] F].
    + intros s [I E] Fn.
      destruct (ostep_measure pick root pm es s Hpick I Fn (or_introl E)) as [I' [_ M]].
      split; [split; [exact I' | apply Hno; auto] | exact M].
    + split; [apply oinv_init; auto | reflexivity].
    + unfold omu. simpl. lia.
    + rewrite E in H. rewrite F in H.
      match type of H with (if ?c then _ else _) = _ => destruct c; discriminate end.
Qed.
