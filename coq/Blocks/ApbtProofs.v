(* C16: lemmas about the model of blocks.add_pop_block_targets (Blocks/Apbt.v).
   The flag table flags_of is never unfolded.  The class ids op_X are only compared with each other (they are
   pairwise distinct for whatever table the translator regenerates: it numbers the classes consecutively). *)
From Coq Require Import List NArith Arith Bool Lia.
From PV Require Import Generated.C16_OpcodeFlags Blocks.Model Blocks.Proofs Blocks.FuelProofs Blocks.Apbt.
Import ListNotations.

Local Opaque flags_of.

(* ================================================================================================ *)
(* 0. small facts *)

Lemma is_op_excl : forall a b o, is_op a o = true -> a <> b -> is_op b o = false.
Proof.
  unfold is_op. intros a b o H Hne. apply N.eqb_eq in H. apply N.eqb_neq. congruence.
Qed.

Lemma pop_ne_setup311 : op_POP_BLOCK <> op_SETUP_EXCEPT_311.
Proof. unfold op_POP_BLOCK, op_SETUP_EXCEPT_311. discriminate. Qed.
Lemma raise_ne_setup311 : op_RAISE_VARARGS <> op_SETUP_EXCEPT_311.
Proof. unfold op_RAISE_VARARGS, op_SETUP_EXCEPT_311. discriminate. Qed.
Lemma raise_ne_pop : op_RAISE_VARARGS <> op_POP_BLOCK.
Proof. unfold op_RAISE_VARARGS, op_POP_BLOCK. discriminate. Qed.

Lemma op_at_nat : forall ops k, op_at ops (N.of_nat k) = nth_error ops k.
Proof. intros. unfold op_at. rewrite Nat2N.id. reflexivity. Qed.

Lemma op_at_lt : forall ops i o, op_at ops i = Some o -> N.to_nat i < length ops.
Proof. unfold op_at. intros ops i o H. apply nth_error_Some. congruence. Qed.

Lemma op_at_In : forall ops i o, op_at ops i = Some o -> In o ops.
Proof. unfold op_at. intros. eapply nth_error_In; eauto. Qed.

Lemma walk_prev_spec : forall ops fuel i su,
  walk_prev ops fuel i = Ok su -> In su ops /\ is_setup_except su = true.
Proof.
  induction fuel as [|f IH]; intros i su H; simpl in H; [discriminate|].
  destruct (op_at ops i) as [o|] eqn:Eo; [|discriminate].
  destruct (is_setup_except o) eqn:Es.
  - inversion H; subst. split; auto. eapply op_at_In; eauto.
  - destruct (prev o); [|discriminate]. eauto.
Qed.

Lemma walk_prev_err : forall ops fuel i e, walk_prev ops fuel i = Err e -> e = 45 \/ e = 47 \/ e = 48.
Proof.
  induction fuel as [|f IH]; intros i e H; simpl in H; [inversion H; auto|].
  destruct (op_at ops i) as [o|]; [|inversion H; auto].
  destruct (is_setup_except o); [discriminate|].
  destruct (prev o); [eauto | inversion H; auto].
Qed.

Lemma find_except_spec : forall st b, find_except st = Some b -> In b st /\ is_setup_except b = true.
Proof.
  induction st as [|x st IH]; simpl; intros b H; [discriminate|].
  destruct (is_setup_except x) eqn:E.
  - inversion H; subst. auto.
  - destruct (IH _ H). auto.
Qed.

Lemma find_loop_spec : forall st b below, find_loop st = Some (b, below) ->
  exists pre, st = pre ++ b :: below.
Proof.
  induction st as [|x st IH]; simpl; intros b below H; [discriminate|].
  destruct (is_op op_SETUP_LOOP x).
  - inversion H; subst. exists []. reflexivity.
  - destruct (IH _ _ H) as [pre E]. exists (x :: pre). simpl. congruence.
Qed.

(* ================================================================================================ *)
(* 1. the walk needs no more than 2 * len(bytecode) + 1 iterations *)

Definition poslist (n : nat) : list N := map N.of_nat (seq 0 n).

Lemma poslist_In : forall n i, N.to_nat i < n -> In i (poslist n).
Proof.
  intros n i H. unfold poslist. apply in_map_iff. exists (N.to_nat i). split; [apply N2Nat.id|].
  apply in_seq. lia.
Qed.

Lemma poslist_length : forall n, length (poslist n) = n.
Proof. intros. unfold poslist. rewrite map_length, seq_length. reflexivity. Qed.

Definition amu (n : nat) (s : ast) : nat := 2 * (n - length (a_seen s)) + length (a_todo s).

Record ainv_f (ops : list instr) (s : ast) : Prop := {
  af_nodup : NoDup (a_seen s);
  af_valid : forall i, In i (a_seen s) -> N.to_nat i < length ops;
  af_err : a_err s <> 40
}.

Lemma apbt_case_pushes : forall ops pxb i op st st' pushes asg,
  apbt_case ops pxb i op st = Ok (st', pushes, asg) -> length pushes <= 1.
Proof.
  intros ops pxb i op st st' pushes asg H. unfold apbt_case in H.
  destruct (is_op op_POP_BLOCK op).
  { destruct st; inversion H; subst; simpl; lia. }
  destruct (is_op op_RAISE_VARARGS op).
  { destruct (find_except st); inversion H; subst; simpl; lia. }
  destruct (is_op op_BREAK_LOOP op).
  { destruct (find_loop st) as [[b below]|]; [|inversion H; subst; simpl; lia].
    destruct (optN_eqb (target b) (Some i)); inversion H; subst; simpl; lia. }
  destruct (is_setup_except op).
  { inversion H; subst; simpl; lia. }
  destruct (pushes_block op).
  { destruct (target op); inversion H; subst; simpl; lia. }
  destruct (does_jump op && match target op with Some _ => true | None => false end).
  { destruct (memN i pxb).
    - destruct (target op); [|inversion H; subst; simpl; lia].
      destruct (walk_prev ops (S (length ops)) n); simpl in H; inversion H; subst; simpl; lia.
    - inversion H; subst; simpl; lia. }
  inversion H; subst; simpl; lia.
Qed.

Lemma apbt_case_err : forall ops pxb i op st e, apbt_case ops pxb i op st = Err e -> e <> 40 /\ e <> 0.
Proof.
  intros ops pxb i op st e H. unfold apbt_case in H.
  destruct (is_op op_POP_BLOCK op).
  { destruct st; inversion H; subst; split; discriminate. }
  destruct (is_op op_RAISE_VARARGS op).
  { destruct (find_except st); discriminate. }
  destruct (is_op op_BREAK_LOOP op).
  { destruct (find_loop st) as [[b below]|]; [|discriminate].
    destruct (optN_eqb (target b) (Some i)); inversion H; subst; split; discriminate. }
  destruct (is_setup_except op); [discriminate|].
  destruct (pushes_block op).
  { destruct (target op); inversion H; subst; split; discriminate. }
  destruct (does_jump op && match target op with Some _ => true | None => false end); [|discriminate].
  destruct (memN i pxb); [|discriminate].
  destruct (target op); [|discriminate].
  destruct (walk_prev ops (S (length ops)) n) eqn:Ew; simpl in H; [discriminate|].
  inversion H; subst. apply walk_prev_err in Ew. destruct Ew as [E|[E|E]]; subst; split; discriminate.
Qed.

Lemma astep_measure : forall ops pxb s,
  ainv_f ops s -> afin s = false ->
  ainv_f ops (astep ops pxb s) /\ amu (length ops) (astep ops pxb s) < amu (length ops) s.
Proof.
  intros ops pxb s [Ind Ival Ierr] Hfin.
  unfold afin in Hfin. apply orb_false_elim in Hfin. destruct Hfin as [He Hq].
  apply negb_false_iff, Nat.eqb_eq in He.
  unfold astep, amu. destruct (a_todo s) as [|[[i|] st] rest] eqn:Et; [discriminate| |].
  2:{ split; [constructor; simpl; auto; discriminate | simpl; lia]. }
  destruct (memN i (a_seen s)) eqn:Es.
  { split; [constructor; simpl; auto | simpl; lia]. }
  apply memN_false in Es.
  destruct (op_at ops i) as [op|] eqn:Eo.
  2:{ split; [constructor; simpl; auto; discriminate | simpl; lia]. }
  destruct (apbt_case ops pxb i op st) as [[[st' pushes] asg]|e] eqn:Ec.
  2:{ split; [constructor; simpl; auto; apply (apbt_case_err _ _ _ _ _ _ Ec) | simpl; lia]. }
  pose proof (apbt_case_pushes _ _ _ _ _ _ _ _ Ec) as Lp.
  assert (Nd : NoDup (i :: a_seen s)) by (constructor; auto).
  assert (Hv : forall j, In j (i :: a_seen s) -> N.to_nat j < length ops).
  { intros j [Hj|Hj]; [subst; eapply op_at_lt; eauto | auto]. }
  assert (Ls : S (length (a_seen s)) <= length ops).
  { assert (Hi : incl (i :: a_seen s) (poslist (length ops))) by (intros j Hj; apply poslist_In; auto).
    pose proof (NoDup_incl_length Nd Hi) as G. rewrite poslist_length in G. exact G. }
  destruct (no_next op).
  { split; [constructor; simpl; auto; congruence|]. simpl. rewrite app_length, rev_length. lia. }
  destruct (next op).
  - split; [constructor; simpl; auto; congruence|]. simpl. rewrite app_length, rev_length. lia.
  - split; [constructor; simpl; auto; discriminate|]. simpl. rewrite app_length, rev_length. lia.
Qed.

Definition astate0 : ast := mkA [(Some 0%N, [])] [] [] 0.

Lemma ainv_f_init : forall ops, ainv_f ops astate0.
Proof. intros. constructor; simpl; [constructor | intros i [] | discriminate]. Qed.

Lemma apbt_fuel_enough : forall ops, amu (length ops) astate0 < 2 ^ apbt_fuel ops.
Proof.
  intros ops. unfold apbt_fuel. apply fuel_for_gt. unfold amu, astate0. cbn [a_seen a_todo length]. lia.
Qed.

Lemma apbt_run_fin : forall ops pxb, afin (apbt_run ops pxb) = true /\ a_err (apbt_run ops pxb) <> 40.
Proof.
  intros ops pxb. unfold apbt_run.
  destruct (run_terminates ast (astep ops pxb) afin (amu (length ops)) (ainv_f ops)) with (d := apbt_fuel ops) (s := astate0)
    as [I F].
  - intros s I Fn. apply astep_measure; auto.
  - apply ainv_f_init.
  - apply apbt_fuel_enough.
  - split; [exact F | apply (af_err _ _ I)].
Qed.

Lemma apbt_fuel_lemma : forall ops pxb, add_pop_block_targets ops pxb <> Err 40.
Proof.
  intros ops pxb H. unfold add_pop_block_targets in H. destruct ops as [|o ops]; [discriminate|].
  destruct (apbt_run_fin (o :: ops) pxb) as [F E].
  destruct (a_err (apbt_run (o :: ops) pxb)) eqn:Ee.
  - rewrite F in H. discriminate.
  - inversion H. congruence.
Qed.

(* ================================================================================================ *)
(* 2. every block_target is the target of a block-pushing opcode of the list *)

Definition blockop (ops : list instr) (s : instr) : Prop :=
  In s ops /\ (is_setup_except s || pushes_block s) = true.
Definition bt_ok (ops : list instr) (v : option N) : Prop :=
  forall t, v = Some t -> exists s, blockop ops s /\ target s = Some t.

Record ainv_q (ops : list instr) (s : ast) : Prop := {
  aq_todo : forall x st, In (x, st) (a_todo s) -> Forall (blockop ops) st;
  aq_bt : forall i v, In (i, v) (a_bt s) -> bt_ok ops v
}.

Lemma apbt_case_q : forall ops pxb i op st st' pushes asg,
  Forall (blockop ops) st -> In op ops ->
  apbt_case ops pxb i op st = Ok (st', pushes, asg) ->
  Forall (blockop ops) st' /\
  (forall x s0, In (x, s0) pushes -> Forall (blockop ops) s0) /\
  (forall v, asg = Some v -> bt_ok ops v).
Proof.
  intros ops pxb i op st st' pushes asg Hst Hop H. unfold apbt_case in H.
  assert (Hnone : forall v, @None (option N) = Some v -> bt_ok ops v) by discriminate.
  destruct (is_op op_POP_BLOCK op).
  { destruct st as [|b below]; inversion H; subst. inversion Hst; subst. split; auto. split.
    - intros x s0 [].
    - intros v Ev. inversion Ev; subst. intros t Ht. exists b. auto. }
  destruct (is_op op_RAISE_VARARGS op).
  { destruct (find_except st) as [b|] eqn:Ef; inversion H; subst; (split; [auto|]); (split; [intros x s0 []|]); auto.
    intros v Ev. inversion Ev; subst. intros t Ht. exists b. split; auto.
    apply find_except_spec in Ef. destruct Ef as [Hb _]. rewrite Forall_forall in Hst. auto. }
  destruct (is_op op_BREAK_LOOP op).
  { destruct (find_loop st) as [[b below]|] eqn:Ef.
    2:{ inversion H; subst. split; auto. split; [intros x s0 []|auto]. }
    destruct (optN_eqb (target b) (Some i)); inversion H; subst.
    apply find_loop_spec in Ef. destruct Ef as [pre Ef].
    assert (Hb : blockop ops b /\ Forall (blockop ops) below).
    { rewrite Ef in Hst. apply Forall_app in Hst. destruct Hst as [_ Hst]. inversion Hst; subst. auto. }
    destruct Hb as [Hb Hbelow]. split; [exact Hst|]. split.
    - intros x s0 [E|[]]. inversion E; subst. exact Hbelow.
    - intros v Ev. inversion Ev; subst. intros t Ht. exists b. auto. }
  destruct (is_setup_except op) eqn:Cs.
  { inversion H; subst. split.
    - constructor; auto. split; auto. rewrite Cs. reflexivity.
    - split; [|auto]. intros x s0 [E|[]]. inversion E; subst. auto. }
  destruct (pushes_block op) eqn:Cp.
  { destruct (target op); inversion H; subst. split.
    - constructor; auto. split; auto. rewrite Cp. apply orb_true_r.
    - split; [intros x s0 []|auto]. }
  destruct (does_jump op && match target op with Some _ => true | None => false end).
  { destruct (memN i pxb).
    - destruct (target op) as [t|]; [|inversion H; subst; split; auto; split; [intros x s0 []|auto]].
      destruct (walk_prev ops (S (length ops)) t) as [su|] eqn:Ew; simpl in H; inversion H; subst.
      apply walk_prev_spec in Ew. destruct Ew as [W1 W2].
      assert (Hsu : blockop ops su) by (split; auto; rewrite W2; reflexivity).
      split; [constructor; auto|]. split; [|auto].
      intros x s0 [E|[]]. inversion E; subst. constructor; auto.
    - inversion H; subst. split; auto. split; [|auto]. intros x s0 [E|[]]. inversion E; subst. auto. }
  inversion H; subst. split; auto. split; [intros x s0 []|auto].
Qed.

Lemma astep_q : forall ops pxb s, ainv_q ops s -> ainv_q ops (astep ops pxb s).
Proof.
  intros ops pxb s [Itodo Ibt]. unfold astep.
  destruct (a_todo s) as [|[[i|] st] rest] eqn:Et.
  - constructor; auto. rewrite Et. auto.
  - destruct (memN i (a_seen s)).
    { constructor; simpl; auto. intros x s0 H. apply (Itodo x s0). right. exact H. }
    destruct (op_at ops i) as [op|] eqn:Eo.
    2:{ constructor; simpl; auto. intros x s0 []. }
    destruct (apbt_case ops pxb i op st) as [[[st' pushes] asg]|e] eqn:Ec.
    2:{ constructor; simpl; auto. intros x s0 []. }
    assert (Hst : Forall (blockop ops) st) by (apply (Itodo (Some i) st); left; reflexivity).
    destruct (apbt_case_q _ _ _ _ _ _ _ _ Hst (op_at_In _ _ _ Eo) Ec) as [Q1 [Q2 Q3]].
    assert (Htodo1 : forall x s0, In (x, s0) (rev pushes ++ rest) -> Forall (blockop ops) s0).
    { intros x s0 H. apply in_app_or in H. destruct H as [H|H].
      - apply in_rev in H. eauto.
      - apply (Itodo x s0). right. exact H. }
    assert (Hbt : forall j v, In (j, v) (match asg with Some v0 => (i, v0) :: a_bt s | None => a_bt s end) -> bt_ok ops v).
    { intros j v H. destruct asg as [v0|]; [|eauto]. destruct H as [H|H]; [|eauto]. inversion H; subst. auto. }
    destruct (no_next op); [constructor; simpl; auto|].
    destruct (next op); constructor; simpl; auto.
    intros x s0 [H|H]; [inversion H; subst; auto | eauto].
  - constructor; simpl; auto. intros x s0 [].
Qed.

Lemma apbt_run_q : forall ops pxb, ainv_q ops (apbt_run ops pxb).
Proof.
  intros ops pxb. unfold apbt_run. apply run_inv.
  - intros s I _. apply astep_q. exact I.
  - constructor; simpl.
    + intros x st [H|[]]. inversion H; subst. constructor.
    + intros i v [].
Qed.

Lemma apply_bt_length : forall bt ops pos, length (apply_bt bt ops pos) = length ops.
Proof. induction ops as [|o t IH]; intros pos; simpl; [reflexivity|]. rewrite IH. reflexivity. Qed.

Lemma apply_bt_nth : forall bt ops pos k o, nth_error ops k = Some o ->
  nth_error (apply_bt bt ops pos) k =
  Some (set_bt o (match assocN (pos + N.of_nat k) bt with Some v => v | None => None end)).
Proof.
  induction ops as [|a t IH]; intros pos k o H; [destruct k; discriminate|].
  destruct k; simpl in H.
  - inversion H; subst. simpl. rewrite N.add_0_r. reflexivity.
  - cbn [apply_bt nth_error]. rewrite (IH (pos + 1)%N k o H).
    replace (pos + N.of_nat (S k))%N with (pos + 1 + N.of_nat k)%N by lia. reflexivity.
Qed.

Lemma apply_bt_nth_inv : forall bt ops pos k o', nth_error (apply_bt bt ops pos) k = Some o' ->
  exists o, nth_error ops k = Some o /\
            o' = set_bt o (match assocN (pos + N.of_nat k) bt with Some v => v | None => None end).
Proof.
  intros bt ops pos k o' H.
  assert (Hk : k < length ops).
  { rewrite <- (apply_bt_length bt ops pos). apply nth_error_Some. congruence. }
  destruct (nth_error ops k) as [o|] eqn:E; [|apply nth_error_None in E; lia].
  exists o. split; auto. rewrite (apply_bt_nth bt ops pos k o E) in H. congruence.
Qed.

Lemma apbt_ok_shape : forall ops pxb ops',
  add_pop_block_targets ops pxb = Ok ops' -> ops' = apply_bt (a_bt (apbt_run ops pxb)) ops 0.
Proof.
  intros ops pxb ops' H. unfold add_pop_block_targets in H.
  destruct ops as [|o0 rest]; [inversion H; reflexivity|].
  destruct (a_err (apbt_run (o0 :: rest) pxb)); [|discriminate].
  destruct (afin (apbt_run (o0 :: rest) pxb)); [|discriminate].
  injection H as <-. reflexivity.
Qed.

(* the statement about block_target *)
Lemma apbt_targets_lemma : forall ops pxb ops',
  add_pop_block_targets ops pxb = Ok ops' ->
  length ops' = length ops /\
  forall k o', nth_error ops' k = Some o' ->
    exists o, nth_error ops k = Some o /\ o' = set_bt o (block_target o') /\
      forall t, block_target o' = Some t ->
        exists s, In s ops /\ (is_setup_except s || pushes_block s) = true /\ target s = Some t.
Proof.
  intros ops pxb ops' H. apply apbt_ok_shape in H. subst ops'.
  pose proof (apbt_run_q ops pxb) as [_ Ibt].
  split; [apply apply_bt_length|].
  intros k o' Hk. apply apply_bt_nth_inv in Hk. destruct Hk as [o [Ho Eo']].
  exists o. split; auto.
  assert (Ebt : block_target o' = match assocN (0 + N.of_nat k) (a_bt (apbt_run ops pxb)) with Some v => v | None => None end)
    by (rewrite Eo'; reflexivity).
  split; [rewrite Ebt; exact Eo'|].
  intros t Ht. rewrite Ebt in Ht.
  destruct (assocN (0 + N.of_nat k) (a_bt (apbt_run ops pxb))) as [v|] eqn:Ea; [|discriminate].
  apply assocN_In_pair in Ea. destruct (Ibt _ _ Ea t Ht) as [s [[Hs1 Hs2] Hs3]]. exists s. auto.
Qed.

Lemma targets_apply_bt : forall bt ops pos, targets (apply_bt bt ops pos) = targets ops.
Proof.
  unfold targets. induction ops as [|o t IH]; intros pos; simpl; [reflexivity|]. rewrite IH. reflexivity.
Qed.

(* the output is a well-formed input of compute_order: what used to be monitored (the two block_target clauses of
   wf_opsb) follows from well-formedness of the list handed to add_pop_block_targets *)
Lemma apbt_wf_lemma : forall ops pxb ops',
  wf_opsb ops = true -> add_pop_block_targets ops pxb = Ok ops' -> wf_opsb ops' = true.
Proof.
  intros ops pxb ops' Hwf H.
  destruct (apbt_targets_lemma _ _ _ H) as [Hlen Hnth].
  assert (Htg : targets ops' = targets ops).
  { rewrite (apbt_ok_shape _ _ _ H). apply targets_apply_bt. }
  unfold wf_opsb. rewrite Hlen, Htg. apply andb_true_intro. split.
  - rewrite (wf_links_ext ops' ops 0 (length ops) Hlen); [apply wf_opsb_links; exact Hwf|].
    intros i a b Ha Hb. destruct (Hnth i a Ha) as [o [Ho [Ea _]]]. rewrite Ho in Hb. inversion Hb; subst b.
    rewrite Ea. simpl. auto.
  - apply forallb_forall. intros o' Hin. apply In_nth_error in Hin. destruct Hin as [k Hk].
    destruct (Hnth k o' Hk) as [o [Ho [Ea Hbt]]].
    assert (Hino : In o ops) by (eapply nth_error_In; eauto).
    pose proof Hwf as Hwf'. unfold wf_opsb in Hwf'. apply andb_prop in Hwf'. destruct Hwf' as [_ Hall].
    rewrite forallb_forall in Hall. specialize (Hall o Hino).
    apply andb_prop in Hall. destruct Hall as [Hall _].
    apply andb_prop in Hall. destruct Hall as [Hall Hkj].
    apply andb_prop in Hall. destruct Hall as [Hall Hea].
    apply andb_prop in Hall. destruct Hall as [Htr _].
    assert (E1 : target o' = target o) by (rewrite Ea; reflexivity).
    assert (E2 : eaft o' = eaft o) by (rewrite Ea; reflexivity).
    assert (E3 : has_known_jump o' = has_known_jump o) by (rewrite Ea; reflexivity).
    rewrite E1, E2, E3, Htr, Hea, Hkj. simpl.
    destruct (block_target o') as [t|] eqn:Et; [|reflexivity].
    destruct (Hbt t eq_refl) as [s [Hs [_ Hst]]].
    assert (R : (N.to_nat t <? length ops) = true) by (apply Nat.ltb_lt; eapply wf_opsb_target; eauto).
    assert (M : memN t (targets ops) = true) by (apply memN_In; eapply targets_In; eauto).
    simpl. rewrite R, M. reflexivity.
Qed.

(* ================================================================================================ *)
(* 3. properly bracketed input: no assertion fires, in particular POP_BLOCK never finds an empty block stack *)

Definition flagstep (o : instr) (b : bool) : bool :=
  if is_op op_SETUP_EXCEPT_311 o then true else if is_op op_POP_BLOCK o then false else b.

Lemma inside_list_cons : forall o t b, inside_list (o :: t) b = b :: inside_list t (flagstep o b).
Proof. reflexivity. Qed.

Lemma inside_list_length : forall ops b, length (inside_list ops b) = length ops.
Proof. induction ops as [|a t IH]; intros b; [reflexivity|]. rewrite inside_list_cons. simpl. rewrite IH. reflexivity. Qed.

Lemma inside_list_S : forall ops b k o, nth_error ops k = Some o -> S k < length ops ->
  nth (S k) (inside_list ops b) false = flagstep o (nth k (inside_list ops b) false).
Proof.
  induction ops as [|a t IH]; intros b k o Hk Hl; [destruct k; discriminate|].
  rewrite inside_list_cons. destruct k.
  - simpl in Hk. inversion Hk; subst a. destruct t as [|a2 t2]; [simpl in Hl; lia|].
    rewrite inside_list_cons. reflexivity.
  - simpl in Hk. simpl in Hl. cbn [nth]. apply IH; auto. lia.
Qed.

Lemma brk_spec : forall ops b k o, brk_ops ops b = true -> nth_error ops k = Some o ->
  (is_op op_SETUP_EXCEPT_311 o = true -> nth k (inside_list ops b) false = false) /\
  (is_op op_SETUP_EXCEPT_311 o = false -> is_op op_POP_BLOCK o = true -> nth k (inside_list ops b) false = true).
Proof.
  induction ops as [|a t IH]; intros b k o Hb Hk; [destruct k; discriminate|].
  rewrite inside_list_cons. cbn [brk_ops] in Hb. destruct k; simpl in Hk.
  - inversion Hk; subst a. cbn [nth]. destruct (is_op op_SETUP_EXCEPT_311 o) eqn:E1.
    + apply andb_prop in Hb. destruct Hb as [Hb _]. apply negb_true_iff in Hb. split; [auto | discriminate].
    + destruct (is_op op_POP_BLOCK o) eqn:E2.
      * apply andb_prop in Hb. destruct Hb as [Hb _]. split; [discriminate | auto].
      * split; discriminate.
  - cbn [nth]. apply (IH (flagstep a b) k o); auto.
    unfold flagstep. destruct (is_op op_SETUP_EXCEPT_311 a); [apply andb_prop in Hb; tauto|].
    destruct (is_op op_POP_BLOCK a); [apply andb_prop in Hb; tauto | exact Hb].
Qed.

Lemma inside_true_before : forall ops b k, nth k (inside_list ops b) false = true ->
  b = true \/ exists j s, j < k /\ nth_error ops j = Some s /\ is_op op_SETUP_EXCEPT_311 s = true.
Proof.
  induction ops as [|a t IH]; intros b k H.
  - destruct k; simpl in H; discriminate.
  - rewrite inside_list_cons in H. destruct k; cbn [nth] in H; [auto|].
    destruct (IH _ _ H) as [E|[j [s [H1 [H2 H3]]]]].
    + unfold flagstep in E. destruct (is_op op_SETUP_EXCEPT_311 a) eqn:E1.
      * right. exists 0, a. split; [lia|]. split; auto.
      * destruct (is_op op_POP_BLOCK a); [discriminate | auto].
    + right. exists (S j), s. split; [lia|]. auto.
Qed.

Definition ok_clauses (all : list instr) (pxb : list N) (pos : N) (o : instr) : Prop :=
  is_op op_BREAK_LOOP o = false /\
  ((is_setup_except o || pushes_block o) = true -> exists t, target o = Some t) /\
  ((is_setup_except o || (does_jump o && negb (memN pos pxb))) = true ->
     inside_opt all (target o) = true -> inside all pos = true) /\
  (memN pos pxb = true -> does_jump o = true -> forall t, target o = Some t -> inside all t = true) /\
  (no_next o = false -> exists n, next o = Some n).

Lemma ok_from_spec : forall l all pxb pos k o,
  apbt_ok_from l all pxb pos = true -> nth_error l k = Some o -> ok_clauses all pxb (pos + N.of_nat k) o.
Proof.
  induction l as [|a t IH]; intros all pxb pos k o H Hk; [destruct k; discriminate|].
  cbn [apbt_ok_from] in H.
  apply andb_prop in H. destruct H as [H Hrest].
  destruct k; simpl in Hk.
  - inversion Hk; subst a. clear Hk. rewrite N.add_0_r.
    apply andb_prop in H. destruct H as [H c5].
    apply andb_prop in H. destruct H as [H c4].
    apply andb_prop in H. destruct H as [H c3].
    apply andb_prop in H. destruct H as [c1 c2].
    unfold ok_clauses. split; [apply negb_true_iff; exact c1|]. split; [|split; [|split]].
    + intros HX. rewrite HX in c2. simpl in c2. destruct (target o); [eauto | discriminate].
    + intros HX Hi. rewrite HX, Hi in c3. simpl in c3. exact c3.
    + intros Hm Hd t0 Ht. rewrite Hm, Hd, Ht in c4. simpl in c4. exact c4.
    + intros Hn. rewrite Hn in c5. simpl in c5. destruct (next o); [eauto | discriminate].
  - replace (pos + N.of_nat (S k))%N with (pos + 1 + N.of_nat k)%N by lia. apply IH; auto.
Qed.

Lemma walk_prev_total : forall ops, wf_links ops 0 (length ops) = true ->
  forall t fuel, t < length ops -> t < fuel ->
  (exists j s, j <= t /\ nth_error ops j = Some s /\ is_setup_except s = true) ->
  exists su, walk_prev ops fuel (N.of_nat t) = Ok su.
Proof.
  intros ops Hwf. induction t as [|t IH]; intros fuel Ht Hf [j [s [Hj [Hs Hss]]]];
    (destruct fuel as [|f]; [lia|]); cbn [walk_prev]; rewrite op_at_nat.
  - assert (j = 0) by lia. subst j. rewrite Hs, Hss. eauto.
  - destruct (nth_error ops (S t)) as [o|] eqn:Eo; [|apply nth_error_None in Eo; lia].
    destruct (is_setup_except o) eqn:Es; [eauto|].
    destruct (wf_links_spec _ _ _ Hwf _ _ Eo) as [_ [_ Hp]]. cbn [Nat.add popt] in Hp. rewrite Hp.
    apply IH; [lia | lia |]. exists j, s. split; auto.
    destruct (Nat.eq_dec j (S t)); [subst; congruence | lia].
Qed.

Definition ins (ops : list instr) (k : nat) : bool := nth k (inside_list ops false) false.

Lemma inside_nat : forall ops k, inside ops (N.of_nat k) = ins ops k.
Proof. intros. unfold inside, ins. rewrite Nat2N.id. reflexivity. Qed.

Definition item_ok (ops : list instr) (x : option N) (st : list instr) : Prop :=
  exists k, x = Some (N.of_nat k) /\ k < length ops /\ (ins ops k = true -> st <> []).

Record ainv_t (ops : list instr) (s : ast) : Prop := {
  at_err : a_err s = 0;
  at_todo : forall x st, In (x, st) (a_todo s) -> item_ok ops x st
}.

Lemma apbt_case_t : forall ops pxb k op st,
  wf_links ops 0 (length ops) = true ->
  (forall o t, In o ops -> target o = Some t -> N.to_nat t < length ops) ->
  brk_ops ops false = true ->
  nth_error ops k = Some op ->
  ok_clauses ops pxb (N.of_nat k) op ->
  (ins ops k = true -> st <> []) ->
  exists st' pushes asg,
    apbt_case ops pxb (N.of_nat k) op st = Ok (st', pushes, asg) /\
    (forall x s0, In (x, s0) pushes -> item_ok ops x s0) /\
    (flagstep op (ins ops k) = true -> st' <> []).
Proof.
  intros ops pxb k op st Hwf Htgt Hbrk Eo [C1 [C2 [C3 [C4 C5]]]] Hst.
  pose proof (nth_error_In _ _ Eo) as Hin.
  rewrite inside_nat in C3.
  destruct (brk_spec _ _ _ _ Hbrk Eo) as [B1 B2]. fold (ins ops k) in B1, B2.
  assert (Hitem : forall t s0, In op ops -> target op = Some t -> (inside ops t = true -> s0 <> []) ->
                  item_ok ops (Some t) s0).
  { intros t s0 _ Ht Hs. exists (N.to_nat t). rewrite N2Nat.id. split; auto. split; [eapply Htgt; eauto|].
    unfold ins. exact Hs. }
  unfold apbt_case.
  destruct (is_op op_POP_BLOCK op) eqn:Cpop.
  { assert (S311 : is_op op_SETUP_EXCEPT_311 op = false) by (eapply is_op_excl; [exact Cpop | exact pop_ne_setup311]).
    specialize (B2 S311 eq_refl). destruct st as [|b below]; [exfalso; apply (Hst B2); reflexivity|].
    exists below, [], (Some (target b)). split; [reflexivity|]. split; [intros x s0 []|].
    unfold flagstep. rewrite S311, Cpop. discriminate. }
  destruct (is_op op_RAISE_VARARGS op) eqn:Craise.
  { assert (S311 : is_op op_SETUP_EXCEPT_311 op = false) by (eapply is_op_excl; [exact Craise | exact raise_ne_setup311]).
    assert (Hfs : flagstep op (ins ops k) = ins ops k) by (unfold flagstep; rewrite S311, Cpop; reflexivity).
    destruct (find_except st) as [b|]; eexists _, _, _; (split; [reflexivity|]); (split; [intros x s0 []|]);
      rewrite Hfs; exact Hst. }
  rewrite C1.
  destruct (is_setup_except op) eqn:Cs.
  { destruct (C2 eq_refl) as [h Eh].
    exists (op :: st), [(target op, st)], None. split; [reflexivity|]. split.
    - intros x s0 [E|[]]. inversion E; subst x s0. rewrite Eh. apply (Hitem h st Hin Eh).
      intros Hi. apply Hst. apply C3; [reflexivity|]. rewrite Eh. exact Hi.
    - intros _. discriminate. }
  destruct (pushes_block op) eqn:Cp.
  { destruct (C2 eq_refl) as [h Eh]. rewrite Eh.
    exists (op :: st), [], None. split; [reflexivity|]. split; [intros x s0 [] | intros _; discriminate]. }
  assert (S311 : is_op op_SETUP_EXCEPT_311 op = false).
  { unfold is_setup_except in Cs. apply orb_false_elim in Cs. tauto. }
  assert (Hfs : flagstep op (ins ops k) = ins ops k) by (unfold flagstep; rewrite S311, Cpop; reflexivity).
  destruct (does_jump op) eqn:Cj; cbn [andb].
  2:{ exists st, [], None. split; [reflexivity|]. split; [intros x s0 [] | rewrite Hfs; exact Hst]. }
  destruct (target op) as [t|] eqn:Etg; cbv beta iota.
  2:{ exists st, [], None. split; [reflexivity|]. split; [intros x s0 [] | rewrite Hfs; exact Hst]. }
  destruct (memN (N.of_nat k) pxb) eqn:Epx.
  - pose proof (C4 eq_refl eq_refl t eq_refl) as Hit. unfold inside in Hit.
    pose proof (Htgt op t Hin Etg) as Ht.
    destruct (inside_true_before _ _ _ Hit) as [F|[j [s0 [Hj [Hs0 Hs1]]]]]; [discriminate|].
    assert (Hex : exists j s, j <= N.to_nat t /\ nth_error ops j = Some s /\ is_setup_except s = true).
    { exists j, s0. split; [lia|]. split; auto. unfold is_setup_except. rewrite Hs1. apply orb_true_r. }
    assert (Hfu : N.to_nat t < S (length ops)) by lia.
    destruct (walk_prev_total ops Hwf (N.to_nat t) (S (length ops)) Ht Hfu Hex) as [su Esu].
    rewrite N2Nat.id in Esu. rewrite Esu. cbn [bind].
    exists (su :: st), [(Some t, su :: st)], None. split; [reflexivity|]. split.
    + intros x s1 [E|[]]. inversion E; subst x s1. apply (Hitem t (su :: st) Hin eq_refl). intros _. discriminate.
    + intros _. discriminate.
  - exists st, [(Some t, st)], None. split; [reflexivity|]. split.
    + intros x s1 [E|[]]. inversion E; subst x s1. apply (Hitem t st Hin eq_refl).
      intros Hi. apply Hst. apply C3; [reflexivity|]. exact Hi.
    + rewrite Hfs. exact Hst.
Qed.

Lemma astep_t : forall ops pxb s,
  wf_links ops 0 (length ops) = true ->
  (forall o t, In o ops -> target o = Some t -> N.to_nat t < length ops) ->
  apbt_okb ops pxb = true ->
  ainv_t ops s -> ainv_t ops (astep ops pxb s).
Proof.
  intros ops pxb s Hwf Htgt Hok [Ie It].
  unfold apbt_okb in Hok. apply andb_prop in Hok. destruct Hok as [Hbrk Hfrom].
  unfold astep. destruct (a_todo s) as [|[x st] rest] eqn:Et.
  - constructor; [exact Ie | rewrite Et; intros x st []].
  - destruct (It x st (or_introl eq_refl)) as [k [Ex [Hk Hst]]]. subst x.
    assert (Hrest : forall x st, In (x, st) rest -> item_ok ops x st) by (intros; apply It; right; auto).
    destruct (memN (N.of_nat k) (a_seen s)); [constructor; simpl; auto|].
    rewrite op_at_nat. destruct (nth_error ops k) as [op|] eqn:Eo; [|apply nth_error_None in Eo; lia].
    pose proof (ok_from_spec _ _ _ 0%N k op Hfrom Eo) as Hc. rewrite N.add_0_l in Hc.
    destruct (apbt_case_t ops pxb k op st Hwf Htgt Hbrk Eo Hc Hst) as [st' [pushes [asg [Ec [Hp Hn]]]]].
    rewrite Ec.
    assert (Htodo1 : forall x s0, In (x, s0) (rev pushes ++ rest) -> item_ok ops x s0).
    { intros x s0 H. apply in_app_or in H. destruct H as [H|H]; [apply in_rev in H|]; auto. }
    destruct Hc as [_ [_ [_ [_ C5]]]].
    destruct (no_next op) eqn:Enn; [constructor; simpl; auto|].
    destruct (C5 eq_refl) as [nx Enx]. rewrite Enx.
    destruct (wf_links_spec _ _ _ Hwf _ _ Eo) as [_ [Hnext _]]. cbn [Nat.add] in Hnext. rewrite Enx in Hnext.
    destruct (S k <? length ops) eqn:Elt; [|discriminate]. apply Nat.ltb_lt in Elt. inversion Hnext; subst nx.
    constructor; simpl; auto. intros x s0 [H|H]; [|auto]. inversion H; subst.
    exists (S k). split; auto. split; auto.
    unfold ins. rewrite (inside_list_S ops false k op Eo Elt). exact Hn.
Qed.

Lemma apbt_total_lemma : forall ops pxb,
  wf_links ops 0 (length ops) = true ->
  (forall o t, In o ops -> target o = Some t -> N.to_nat t < length ops) ->
  apbt_okb ops pxb = true ->
  exists ops', add_pop_block_targets ops pxb = Ok ops'.
Proof.
  intros ops pxb Hwf Htgt Hok. unfold add_pop_block_targets. destruct ops as [|o0 rest]; [eauto|].
  remember (o0 :: rest) as ops eqn:Eops.
  assert (Hlen : 0 < length ops) by (rewrite Eops; simpl; lia).
  destruct (run_terminates ast (astep ops pxb) afin (amu (length ops)) (fun s => ainv_f ops s /\ ainv_t ops s))
    with (d := apbt_fuel ops) (s := astate0) as [[_ It] F].
  - intros s [I1 I2] Fn. destruct (astep_measure ops pxb s I1 Fn) as [I1' M]. split; auto.
    split; auto. apply astep_t; auto.
  - split; [apply ainv_f_init|]. constructor; [reflexivity|].
    intros x st [H|[]]. inversion H; subst x st. exists 0. split; auto. split; auto.
    unfold ins. rewrite Eops. rewrite inside_list_cons. cbn [nth]. discriminate.
  - apply apbt_fuel_enough.
  - change (run (astep ops pxb) afin (apbt_fuel ops) astate0) with (apbt_run ops pxb) in It, F.
    cbv zeta. rewrite (at_err _ _ It), F. eauto.
Qed.

(* every block_target starts a block after splitting (composition with plain_targets_lemma) *)
Lemma block_targets_start_blocks_lemma : forall (pick : queue -> N) (v312 : bool) (ops : list instr) (pxb : list N)
    (ops' : list instr) (r : ordered),
  wf_opsb ops = true -> add_pop_block_targets ops pxb = Ok ops' ->
  anext_okb ops' = true -> plainb ops' = true -> compute_order_gen pick v312 ops' = Ok r ->
  forall o t, In o ops' -> block_target o = Some t ->
  exists b ot c, In b (r_blocks r) /\ nth_error ops' (N.to_nat t) = Some ot /\
                 code b = ot :: c /\ bid b = t /\ idx ot = t.
Proof.
  intros pick v ops pxb ops' r Hwf Ha Han Hpl Hc o t Hin Hbt.
  pose proof (apbt_wf_lemma _ _ _ Hwf Ha) as Hwf'.
  pose proof (wf_opsb_block_target _ _ _ Hwf' Hin Hbt) as Ht.
  apply in_targets in Ht. destruct Ht as [o2 [Hin2 Ht2]].
  exact (plain_targets_lemma pick v ops' r Hwf' Han Hpl Hc o2 t Hin2 Ht2).
Qed.

Lemma apbt_needs_bracketing_lemma : exists ops,
  wf_opsb ops = true /\ add_pop_block_targets ops [] = Err 41.
Proof.
  exists [mkI 0 op_POP_BLOCK None None None (Some 1%N) None; mkI 1 op_RETURN_CONST None None None None (Some 0%N)].
  vm_compute. auto.
Qed.
